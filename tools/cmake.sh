#!/bin/bash
# tools/cmake.sh <targets...> : build Coq targets (relative to coq/) with a timeout.
# Only the regeneration of _CoqProject/Makefile is serialised (shared lock); make itself runs unlocked.
# e.g. tools/cmake.sh Proofs/TslProofs.vo Props/C10.vo
HERE="$(cd "$(dirname "$0")/.." && pwd)"
flock "$HERE/coq/.lock" bash -c "cd '$HERE/coq' && ./mkproject.sh"
cd "$HERE/coq" && exec timeout ${COQ_TIMEOUT:-900} make -j${COQ_JOBS:-8} --no-print-directory "$@"
