#!/bin/bash
# tools/cmake.sh <targets...> : build Coq targets (relative to coq/) under the shared lock, with a timeout.
# e.g. tools/cmake.sh Proofs/TslProofs.vo Props/C10.vo
HERE="$(cd "$(dirname "$0")/.." && pwd)"
exec flock "$HERE/coq/.lock" bash -c "cd '$HERE/coq' && ./mkproject.sh && timeout ${COQ_TIMEOUT:-900} make -j${COQ_JOBS:-8} --no-print-directory $*"
