#!/bin/bash
# tools/try_seeds.sh Cxx <outdir with m1..m5> : confirm each seed and run the quick check against it.
p=$1; out=$2
for m in $(ls $out | grep '^m[0-9]'); do
  d=$out/$m
  c=$(/verif/tools/confirm_seed.sh $d 2>&1 | tail -1)
  r=$(/verif/tools/with_mutant.sh $d/patch.diff -- /verif/check $p quick 2>&1 | grep -E "^VIOLATION|^\[$p|broken:" | cut -c1-220 | tr '\n' '|')
  echo "$p $m $c :: $r"
done
