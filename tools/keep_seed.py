#!/usr/bin/env python3
"""tools/keep_seed.py <Cxx> <src dir> <name> <caught-by text> : copy a confirmed seed into seeded/<name>/ with meta.json."""
import json, shutil, sys
from pathlib import Path
pid, src, name, caught = sys.argv[1:5]
src = Path(src); dst = Path("/verif/seeded") / name
dst.mkdir(parents=True, exist_ok=True)
for f in ("patch.diff", "demo.py", "notes.txt"):
    if (src / f).exists():
        shutil.copy(src / f, dst / f)
notes = (src / "notes.txt").read_text() if (src / "notes.txt").exists() else ""
meta = {
    "property": pid,
    "breaks": notes.strip().splitlines()[0][:300] if notes.strip() else "",
    "needs_to_manifest": next((l for l in notes.splitlines() if "manifest" in l.lower() or "needs" in l.lower()), "")[:400],
    "confirmed": "tools/confirm_seed.sh: patch applies to /repo HEAD in a scratch worktree, pytest baseline stays at 68 passed, demo.py exits non-zero with the change and 0 without it",
    "check_result": caught,
    "how_to_run": f"tools/with_mutant.sh seeded/{name}/patch.diff -- ./check {pid} quick",
}
(dst / "meta.json").write_text(json.dumps(meta, indent=1) + "\n")
print("kept", dst)
