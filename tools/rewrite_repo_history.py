#!/usr/bin/env python3
"""tools/rewrite_repo_history.py plan.json [--apply]

Rebuild the `fix:` history of /repo from a plan (one commit per defect, short subjects), WITHOUT changing the
final tree.  plan.json = {"base": "<sha>", "groups": [{"shas": ["old1", "old2", ...], "subject": "fix: …",
"body": "…"}, …]} in the order the new history should have.  Every commit of base..HEAD must occur in exactly
one group.  The new branch is built in a scratch worktree by `cherry-pick -n` of each group's commits; the
script verifies that the final tree is identical to the current HEAD tree, runs the 68-test baseline on the new
tip, prints the old→new map (also written to /verif/notes/repo_sha_map.json) and, with --apply, moves /repo's
`main` to the new tip (working tree and index stay valid because the trees are equal) and rewrites the short
shas that appear in /verif's known/*.json, harness/props/*.meta.json and seeded/*/meta.json.
"""
import json
import re
import subprocess
import sys
from pathlib import Path

REPO = "/repo"
V = Path("/verif")


def git(*a, cwd=REPO, check=True):
    p = subprocess.run(["git", "-C", cwd, *a], capture_output=True, text=True)
    if check and p.returncode != 0:
        raise SystemExit(f"git {' '.join(a)} failed:\n{p.stdout}\n{p.stderr}")
    return p.stdout.strip()


def main():
    plan = json.load(open(sys.argv[1]))
    apply = "--apply" in sys.argv
    if git("status", "--porcelain"):
        raise SystemExit("/repo working tree is not clean")
    base = git("rev-parse", plan["base"])
    head = git("rev-parse", "HEAD")
    existing = git("rev-list", "--reverse", f"{base}..{head}").split()
    planned = [git("rev-parse", s) for g in plan["groups"] for s in g["shas"]]
    if sorted(existing) != sorted(planned):
        missing = [git("log", "-1", "--format=%h %s", s) for s in existing if s not in planned]
        extra = [s for s in planned if s not in existing]
        raise SystemExit(f"plan does not cover base..HEAD exactly\nmissing: {missing}\nextra: {extra}")
    wt = "/tmp/lead-rewrite-wt"
    git("worktree", "remove", "--force", wt, check=False)
    git("worktree", "add", "--detach", wt, base)
    mapping = {}
    try:
        for g in plan["groups"]:
            for s in g["shas"]:
                p = subprocess.run(["git", "-C", wt, "cherry-pick", "-n", s], capture_output=True, text=True)
                if p.returncode != 0:
                    raise SystemExit(f"cherry-pick {s} failed in group {g['subject']}:\n{p.stdout}\n{p.stderr}")
            assert len(g["subject"]) <= 72, (len(g["subject"]), g["subject"])
            assert g["subject"].startswith("fix:"), g["subject"]
            msg = g["subject"] + ("\n\n" + g["body"].strip() + "\n" if g.get("body") else "\n")
            subprocess.run(["git", "-C", wt, "commit", "-q", "-m", msg], check=True)
            new = git("rev-parse", "HEAD", cwd=wt)
            for s in g["shas"]:
                mapping[git("rev-parse", s)] = new
        new_tip = git("rev-parse", "HEAD", cwd=wt)
        diff = git("diff", "--stat", head, new_tip)
        if diff:
            raise SystemExit("final trees differ:\n" + diff)
        t = subprocess.run("PYTHONPATH=%s /venv/bin/python -m pytest -q -p no:cacheprovider --timeout=900 "
                           "--continue-on-collection-errors 2>&1 | tail -1" % wt, shell=True, cwd=wt,
                           capture_output=True, text=True).stdout.strip()
        print("baseline on new tip:", t)
        if "68 passed" not in t:
            raise SystemExit("baseline changed")
        print(f"new history: {len(plan['groups'])} commits (was {len(existing)}); trees identical")
        short = {o[:7]: n[:7] for o, n in mapping.items()}
        (V / "notes" / "repo_sha_map.json").write_text(json.dumps(
            {"note": "old fix-commit ids (as cited in notes/audit/*.md and notes/fix_review.md) → ids after the "
                     "history of /repo was rebuilt with one commit per defect and short subjects (same final tree)",
             "map": short}, indent=1) + "\n")
        for o, n in short.items():
            print(" ", o, "->", n, git("log", "-1", "--format=%s", n, cwd=wt)[:70])
        if not apply:
            print("dry run: nothing moved (use --apply)")
            return
        git("update-ref", "refs/heads/main", new_tip, head)
        git("reset", "-q", "--soft", new_tip)
        if git("status", "--porcelain"):
            raise SystemExit("unexpected: /repo not clean after moving main")
        files = list((V / "known").glob("*.json")) + list((V / "harness" / "props").glob("*.meta.json")) + \
            list((V / "seeded").glob("*/meta.json"))
        n_files = 0
        for f in files:
            txt = f.read_text()
            new_txt = txt
            for o, n in short.items():
                new_txt = re.sub(r"\b" + o + r"[0-9a-f]*\b", n, new_txt)
            if new_txt != txt:
                f.write_text(new_txt)
                n_files += 1
        print(f"applied: main -> {new_tip[:7]}; shas rewritten in {n_files} /verif files; now run tools/mkmanifest.py and tools/mk_asbuilt.py")
    finally:
        git("worktree", "remove", "--force", wt, check=False)


if __name__ == "__main__":
    main()
