#!/bin/bash
# tools/runall.sh [quick|thorough] [Cxx ...]: run the registered checks one after the other, summarise.
cd "$(dirname "$0")/.."
tier="${1:-quick}"; shift
props="$*"
[ -z "$props" ] && props=$(python3 -c "import json;print(' '.join(c['property_id'] for c in json.load(open('MANIFEST.json'))['checks']))")
mkdir -p /tmp/lead-runall
for p in $props; do
  s=$(date +%s)
  ./check $p $tier > /tmp/lead-runall/$p.log 2>&1; rc=$?
  e=$(( $(date +%s) - s ))
  v=$(grep -c '^VIOLATION' /tmp/lead-runall/$p.log); k=$(grep -c '^KNOWN-FINDING' /tmp/lead-runall/$p.log)
  echo "$p rc=$rc violations=$v known=$k ${e}s :: $(grep '^\[' /tmp/lead-runall/$p.log | tail -1 | cut -c1-200)"
done
python3-vt tools/validate.py
