#!/bin/bash
# tools/sweep_seeds.sh [-P n] [name-glob] : run every stored seed seeded/<name>/patch.diff against the quick check of its
# property (in a scratch worktree, /repo untouched) and record the outcome in seeded/<name>/final_result.txt and in
# seeded/SWEEP.txt.  CAUGHT = the check printed a VIOLATION line; a replay with a failing input is noted as "input".
cd "$(dirname "$0")/.."
P=4; [ "$1" = "-P" ] && { P=$2; shift 2; }
glob="${1:-*}"
one() {
  d=$1; name=$(basename $d)
  prop=$(python3 -c "import json;print(json.load(open('$d/meta.json'))['property'])")
  out=$(VERIF_EVIDENCE_DIR=/tmp/mutant-evidence VERIF_REPLAY_DIR=/tmp/mutant-replays tools/with_mutant.sh $PWD/$d/patch.diff -- ./check $prop quick 2>&1)
  if echo "$out" | grep -q "patch failed"; then r="APPLY-FAILED"
  elif echo "$out" | grep -q "^VIOLATION.*no-failing-input-found"; then r="CAUGHT (no failing input found: $(echo "$out" | grep -o 'broken: [a-z-]* [^ ]*' | head -1))"
  elif echo "$out" | grep -q "^VIOLATION"; then r="CAUGHT (input)"
  else r="MISSED"; fi
  echo "$r" > $d/final_result.txt
  echo "$name $prop $r"
}
export -f one
ls -d seeded/$glob/ | sed 's#/$##' | xargs -P $P -I{} bash -c 'one {}' | tee /tmp/sweep_seeds.out
sort /tmp/sweep_seeds.out > seeded/SWEEP.txt
echo "caught: $(grep -c CAUGHT seeded/SWEEP.txt) / $(wc -l < seeded/SWEEP.txt); missed: $(grep -c MISSED seeded/SWEEP.txt); apply-failed: $(grep -c APPLY-FAILED seeded/SWEEP.txt)"
