#!/venv/bin/python
"""filecheck_diff.py -- regression oracle for snax-mlir's lit/filecheck tests without lit,
`filecheck` or `mlir-opt`.

WHAT IT DOES
    For two checkouts A and B of snax-mlir (e.g. worktrees of `c^` and `c`), every
    `tests/filecheck/**/*.mlir` of A is scanned for its `// RUN:` lines.  Every RUN line that is
    a pure `snax-opt` pipeline

        snax-opt [--split-input-file] [-p pass1,pass2{opt=..}] [flags] %s [| snax-opt ..]* | filecheck %s [--check-prefix(es) ..]

    (lit substitutions of tests/filecheck/lit.cfg such as XDSL_ROUNDTRIP are expanded) is run
    IN-PROCESS, through `snaxc.tools.snax_opt_main.SNAXOptMain` (same argument parser, same
    `-p` pipeline parser, same verifier callback between passes, same printer as the real
    `snax-opt`), once with the code of A and once with the code of B, each tree in its own
    subprocess so that imports never mix.  THE SAME INPUT (A's copy of the test file) is fed to
    both trees, split by split (`// -----` when --split-input-file).  Per RUN line and split the
    tool reports

        identical     printed output byte-identical under A and B
        crash-both    both raised the same exception (not counted as a change; typical: input needs a
                      newer parser, pass shells out to mlir-opt)
        DIFFERS       both ran, output differs                     (unified diff in the JSON / --show-diff)
        CRASH-A       A raised, B printed something                (exception recorded)
        CRASH-B       B raised, A printed something   <- the classic regression
        crash-both(different)   both raised, different exception text
        skipped       RUN line needs mlir-opt / circt-opt / firtool / a file made by another RUN

    A crash, a timeout or even a dying interpreter in one file never aborts the run: the worker
    is restarted after the offending job.

    With --check (default on) the tool additionally emulates `filecheck` (see MiniFileCheck below:
    CHECK, -NEXT, -SAME, -NOT, -DAG, -LABEL, -EMPTY, -COUNT-n, {{regex}}, [[VAR:regex]], [[VAR]],
    custom prefixes, whitespace canonicalisation) and says for each tree whether ITS OWN copy of
    the test file would pass against ITS OWN code ("lit@A", "lit@B": ok / FAIL / crash).  That is
    what upstream CI would see at each commit.  For --split-input-file tests the directives of chunk k
    are additionally checked against the output of split k alone ("per-split lit"), and the splits whose
    verdict changes between A and B are listed: a split whose output changed and whose verdict goes
    ok -> FAIL is a CHECK line the commit forgot to update.  This is an emulation: treat a FAIL as a
    pointer to read the named CHECK line, not as a verdict; an `ok` from it is reliable for the
    directive kinds listed above.  Files that exist only in B are lit-checked under B as well.
    About 10 RUN lines FAIL at the base commit already, because xDSL 0.70 prints some llvm/affine ops
    differently from the revision the CHECK lines were written for (three differences are normalised
    away: `%x : T` block arguments, `^bb<n>` numbering, custom-syntax memref.dim).  Such rows are only
    counted ("lit emulation not ok in A and unchanged in B"); what is listed is every row whose output,
    verdict or set of failing directives CHANGES from A to B.

USAGE
    /venv/bin/python /verif/tools/filecheck_diff.py A B [options]

      A, B              paths of two snax-mlir trees (A = before, B = after)
      --json FILE       write the full result (default: ./filecheck_diff.json)
      --only GLOB       only test files whose path relative to tests/filecheck matches (fnmatch), repeatable
      --timeout SEC     per RUN line and tree (default 180)
      --show-diff       print the unified diffs of DIFFERS splits after the table
      --all             list identical rows too (default: only a count)
      --no-check        do not emulate filecheck
      --degrade         do not skip RUN lines that need mlir-opt & co: drop the external passes / the external
                        pipeline stages and diff what the remaining snax-opt pipeline prints (no lit verdict for
                        these rows; the passes after a dropped one see un-canonicalised input, so a crash-both
                        there means nothing).  Use it when a commit touches a pass whose only filecheck tests
                        go through mlir-opt (convert-linalg-to-accfg, snax-bufferize, function-constant-pinning).
      --dump DIR        write every printed output to DIR/{A,B}/<file>.<run>.out
      --harness DIR     directory holding xdsl_compat.py + minimalloc_stub.py (default: ../harness next to this file)

    Exit status: 0 = no DIFFERS / CRASH-A / CRASH-B / lit-status change, 1 = something changed,
    2 = usage error.

    Typical use for reviewing a commit c of /repo (ABSOLUTE worktree paths: `git -C /repo worktree add t/a`
    creates /repo/t/a):
        git -C /repo worktree add --detach /tmp/fixrev/a c^ ; git -C /repo worktree add --detach /tmp/fixrev/b c
        /venv/bin/python /verif/tools/filecheck_diff.py /tmp/fixrev/a /tmp/fixrev/b --json /tmp/fixrev/c.json --show-diff
        git -C /repo worktree remove --force /tmp/fixrev/a ; git -C /repo worktree remove --force /tmp/fixrev/b

    One tree only (does lit pass here?):  filecheck_diff.py T T

ENVIRONMENT
    /venv has xDSL 0.70 while the repo pins a git revision; harness/xdsl_compat.py (imported first
    in each worker) papers over the single incompatibility and stubs the absent `minimalloc`
    package.  Outputs of snax-allocate{mode=minimalloc} therefore come from the stub solver, the
    same one under A and B, so the *diff* is meaningful while lit@ for that file is not.
    Workers run with PYTHONHASHSEED=0 in a scratch cwd (passes that write files, e.g.
    phs-export-phs, do not touch the trees).
"""
from __future__ import annotations

import argparse
import contextlib
import difflib
import fnmatch
import io
import json
import os
import re
import shlex
import signal
import subprocess
import sys
import tempfile
import time
import traceback

HERE = os.path.dirname(os.path.abspath(__file__))
DEFAULT_HARNESS = os.path.normpath(os.path.join(HERE, "..", "harness"))

BUILTIN_SUBST = {
    "XDSL_PARSING_DIAG": "snax-opt %s --print-op-generic --parsing-diagnostics --split-input-file | filecheck %s",
    "XDSL_VERIFY_DIAG": "snax-opt %s --print-op-generic --verify-diagnostics --split-input-file | filecheck %s",
    "XDSL_ROUNDTRIP": "snax-opt %s --print-op-generic --split-input-file | snax-opt --split-input-file | filecheck %s",
    "XDSL_SINGLETRIP": "snax-opt %s --split-input-file | filecheck %s",
    "XDSL_GENERIC_ROUNDTRIP": "snax-opt %s --print-op-generic --split-input-file | filecheck %s --check-prefix=CHECK-GENERIC",
}
EXTERNAL_TOOLS = ("mlir-opt", "circt-opt", "firtool", "mlir-translate")


# --------------------------------------------------------------------------------------------
# RUN line discovery
# --------------------------------------------------------------------------------------------
def lit_substitutions(tree: str) -> dict[str, str]:
    subst = dict(BUILTIN_SUBST)
    cfg = os.path.join(tree, "tests", "filecheck", "lit.cfg")
    try:
        text = open(cfg).read()
    except OSError:
        return subst
    for m in re.finditer(r"substitutions\.append\(\(\s*(['\"])(.+?)\1\s*,\s*(['\"])(.+?)\3\s*\)\)", text):
        subst[m.group(2)] = m.group(4)
    return subst


def split_pipes(cmd: str) -> list[str]:
    """Split a shell command on unquoted '|'."""
    out, cur, quote, i = [], [], None, 0
    while i < len(cmd):
        ch = cmd[i]
        if quote:
            cur.append(ch)
            if ch == "\\" and quote == '"' and i + 1 < len(cmd):
                cur.append(cmd[i + 1])
                i += 1
            elif ch == quote:
                quote = None
        elif ch in "'\"":
            quote = ch
            cur.append(ch)
        elif ch == "\\" and i + 1 < len(cmd):
            cur.append(ch)
            cur.append(cmd[i + 1])
            i += 1
        elif ch == "|":
            out.append("".join(cur))
            cur = []
        else:
            cur.append(ch)
        i += 1
    out.append("".join(cur))
    return [s.strip() for s in out]


def _split_passes(spec: str) -> list[str]:
    """Split a -p pipeline spec on the commas that separate passes (not those inside {..} or quotes)."""
    out, cur, depth, quote = [], [], 0, None
    for ch in spec:
        if quote:
            quote = None if ch == quote else quote
        elif ch in "'\"":
            quote = ch
        elif ch == "{":
            depth += 1
        elif ch == "}":
            depth -= 1
        if ch == "," and depth == 0 and not quote:
            out.append("".join(cur))
            cur = []
        else:
            cur.append(ch)
    out.append("".join(cur))
    return [x for x in out if x.strip()]


def parse_run_line(cmd: str, subst: dict[str, str], degrade: bool = False) -> dict:
    """-> {"stages": [[argv..]..], "prefixes": [...]} or {"skip": reason}.  '%s' stays symbolic."""
    for k in sorted(subst, key=len, reverse=True):
        cmd = cmd.replace(k, subst[k])
    stages = split_pipes(cmd)
    try:
        argvs = [shlex.split(s) for s in stages]
    except ValueError as e:
        return {"skip": f"unparsable RUN line ({e})"}
    if not argvs or not argvs[-1] or argvs[-1][0] not in ("filecheck", "FileCheck"):
        return {"skip": "RUN line does not end in filecheck"}
    fc = argvs[-1][1:]
    prefixes: list[str] = []
    i = 0
    while i < len(fc):
        a = fc[i]
        if a.startswith("--input-file") or a.startswith("-input-file"):
            return {"skip": "filecheck --input-file (reads a file made by another RUN line)"}
        m = re.match(r"--?check-prefix(es)?(=(.*))?$", a)
        if m:
            val = m.group(3)
            if val is None:
                i += 1
                val = fc[i] if i < len(fc) else ""
            prefixes += [p for p in val.split(",") if p]
        i += 1
    if len(argvs) < 2:
        return {"skip": "filecheck without a producer (reads a file made by another RUN line)"}
    degraded: list[str] = []
    producers = argvs[:-1]
    if degrade:
        # keep the leading snax-opt stages, drop everything from the first external tool on
        k = 0
        while k < len(producers) and producers[k] and producers[k][0] == "snax-opt":
            k += 1
        if 0 < k < len(producers):
            degraded.append("stages dropped: " + " | ".join(" ".join(a) for a in producers[k:]))
            producers = producers[:k]
    for argv in producers:
        if not argv or argv[0] != "snax-opt":
            return {"skip": f"needs external tool `{argv[0] if argv else '?'}`"}
        for n, a in enumerate(argv):
            for t in EXTERNAL_TOOLS:
                if re.search(r"(^|[,'\"\s])" + re.escape(t) + r"\{", a) or a == t:
                    if not degrade:
                        return {"skip": f"pipeline contains the `{t}` pass (external executable)"}
                    passes = _split_passes(a)
                    kept = [x for x in passes if not x.strip().startswith(t)]
                    degraded.append("passes dropped: " + ",".join(x for x in passes if x not in kept))
                    argv[n] = ",".join(kept)
    res = {"stages": [a[1:] for a in producers], "prefixes": prefixes or ["CHECK"]}
    if degraded:
        res["degraded"] = "; ".join(degraded)
    return res


def discover(tree: str, only: list[str], degrade: bool = False) -> list[dict]:
    root = os.path.join(tree, "tests", "filecheck")
    subst = lit_substitutions(tree)
    jobs = []
    for dp, _dn, fns in sorted(os.walk(root)):
        for fn in sorted(fns):
            if not fn.endswith(".mlir"):
                continue
            path = os.path.join(dp, fn)
            rel = os.path.relpath(path, root)
            if only and not any(fnmatch.fnmatch(rel, g) for g in only):
                continue
            try:
                text = open(path).read()
            except OSError:
                continue
            runs = re.findall(r"^\s*//\s*RUN:\s*(.*?)\s*$", text, flags=re.M)
            if not runs:
                jobs.append({"file": rel, "run": 0, "cmd": "", "skip": "no RUN line"})
            for k, cmd in enumerate(runs):
                j = {"file": rel, "run": k, "cmd": cmd}
                j.update(parse_run_line(cmd, subst, degrade))
                jobs.append(j)
    return jobs


# --------------------------------------------------------------------------------------------
# Worker: runs inside the interpreter of ONE tree
# --------------------------------------------------------------------------------------------
class _Timeout(BaseException):
    pass


def _describe_exc(e: BaseException) -> dict:
    tb = traceback.extract_tb(e.__traceback__)
    where = ""
    for fr in reversed(tb):
        if "/snaxc/" in fr.filename or "/xdsl/" in fr.filename:
            where = f"{fr.filename.split('site-packages/')[-1]}:{fr.lineno} in {fr.name}"
            break
    msg = str(e)
    return {"type": type(e).__name__, "msg": msg[:2000], "where": where}


def _run_stage(argv: list[str], stdin_text: str | None) -> list[dict]:
    """One `snax-opt` invocation -> per split {"out": str} or {"crash": {...}}."""
    from xdsl.utils.exceptions import DiagnosticException, ParseError

    from snaxc.tools.snax_opt_main import SNAXOptMain

    old_stdin = sys.stdin
    if stdin_text is not None:
        sys.stdin = io.StringIO(stdin_text)
    try:
        tool = SNAXOptMain(args=argv)
        chunks, ext = tool.prepare_input()
        res = []
        for chunk, off in chunks:
            buf = io.StringIO()
            crash = None
            with contextlib.redirect_stdout(buf):
                try:
                    module = tool.parse_chunk(chunk, ext, off)
                    if module is not None:
                        tool.apply_passes(module)
                        buf.write(tool.output_resulting_program(module))
                except _Timeout:
                    raise
                except ParseError as e:
                    if tool.args.parsing_diagnostics:
                        print(e)
                    else:
                        crash = _describe_exc(e)
                except DiagnosticException as e:
                    if tool.args.verify_diagnostics:
                        print(e)
                        for n in getattr(e, "__notes__", []):
                            print(n)
                    else:
                        crash = _describe_exc(e)
                except (Exception, SystemExit, RecursionError) as e:
                    crash = _describe_exc(e)
                finally:
                    with contextlib.suppress(Exception):
                        chunk.close()
            res.append({"crash": crash, "partial": buf.getvalue()[:4000]} if crash else {"out": buf.getvalue()})
        return res
    finally:
        sys.stdin = old_stdin


def _run_job(job: dict) -> dict:
    """All stages of one RUN line.  -> {"splits": [ {"out"} | {"crash"} ]}."""
    path = job["path"]
    splits: list[dict] = []
    stdin_text = None
    for si, stage in enumerate(job["stages"]):
        argv = [path if a == "%s" else a.replace("%s", path) for a in stage]
        splits = _run_stage(argv, stdin_text)
        if si + 1 < len(job["stages"]):
            bad = [k for k, s in enumerate(splits) if "crash" in s]
            if bad:
                # a producer stage failed: the real shell pipeline fails as a whole
                c = dict(splits[bad[0]]["crash"])
                c["where"] = f"stage {si} split {bad[0]}: " + c.get("where", "")
                return {"splits": [{"crash": c}]}
            stdin_text = "// -----\n".join(s["out"] for s in splits)
    return {"splits": splits}


def worker_main(tree: str, jobs_file: str, out_file: str, harness: str, timeout: int) -> None:
    sys.path[0:0] = [tree, harness]
    import xdsl_compat  # noqa: F401  (must precede snaxc.dialects)

    jobs = json.load(open(jobs_file))

    def on_alarm(_sig, _frm):
        raise _Timeout()

    signal.signal(signal.SIGALRM, on_alarm)
    with open(out_file, "a") as out:
        for job in jobs:
            out.write(json.dumps({"start": job["id"]}) + "\n")
            out.flush()
            t0 = time.time()
            signal.alarm(timeout)
            try:
                r = _run_job(job)
            except _Timeout:
                r = {"splits": [{"crash": {"type": "Timeout", "msg": f"> {timeout}s", "where": ""}}]}
            except BaseException as e:  # argument errors, import errors, ...
                r = {"splits": [{"crash": _describe_exc(e)}]}
            finally:
                signal.alarm(0)
            r["id"] = job["id"]
            r["secs"] = round(time.time() - t0, 2)
            out.write(json.dumps(r) + "\n")
            out.flush()


# --------------------------------------------------------------------------------------------
# Parent side: drive a worker, survive its death
# --------------------------------------------------------------------------------------------
def run_tree(tree: str, jobs: list[dict], harness: str, timeout: int, scratch: str, tag: str) -> dict[str, dict]:
    results: dict[str, dict] = {}
    remaining = list(jobs)
    attempt = 0
    while remaining:
        attempt += 1
        jf = os.path.join(scratch, f"{tag}.jobs.{attempt}.json")
        of = os.path.join(scratch, f"{tag}.out.{attempt}.jsonl")
        json.dump(remaining, open(jf, "w"))
        open(of, "w").close()
        cwd = os.path.join(scratch, f"{tag}.cwd")
        os.makedirs(cwd, exist_ok=True)
        env = dict(os.environ, PYTHONHASHSEED="0", PYTHONPATH=f"{tree}:{harness}", PYTHONDONTWRITEBYTECODE="1")
        proc = subprocess.Popen(
            [sys.executable, os.path.abspath(__file__), "--worker", tree, jf, of, harness, str(timeout)],
            cwd=cwd, env=env, stdout=subprocess.DEVNULL, stderr=subprocess.PIPE, text=True,
        )
        # hard watchdog: no progress in the out file for timeout+60 s => kill
        last_size, last_change = 0, time.time()
        while proc.poll() is None:
            time.sleep(0.5)
            sz = os.path.getsize(of)
            if sz != last_size:
                last_size, last_change = sz, time.time()
            elif time.time() - last_change > timeout + 60:
                proc.kill()
                break
        stderr = ""
        with contextlib.suppress(Exception):
            stderr = proc.stderr.read()[-1500:]
        started = None
        for line in open(of):
            try:
                rec = json.loads(line)
            except ValueError:
                continue
            if "start" in rec:
                started = rec["start"]
            else:
                results[rec["id"]] = rec
                started = None
        if started is not None and started not in results:
            results[started] = {"id": started, "splits": [{"crash": {
                "type": "WorkerDied", "msg": f"interpreter exited/hung (rc={proc.returncode}) {stderr}", "where": ""}}]}
        new_remaining = [j for j in remaining if j["id"] not in results]
        if len(new_remaining) == len(remaining):  # no progress at all (e.g. import failure)
            for j in remaining:
                results[j["id"]] = {"id": j["id"], "splits": [{"crash": {
                    "type": "WorkerFailed", "msg": f"rc={proc.returncode} {stderr}", "where": ""}}]}
            break
        remaining = new_remaining
    return results


# --------------------------------------------------------------------------------------------
# MiniFileCheck
# --------------------------------------------------------------------------------------------
class CheckError(Exception):
    pass


_POSIX = {"[:alpha:]": "a-zA-Z", "[:digit:]": "0-9", "[:alnum:]": "a-zA-Z0-9", "[:space:]": r"\s",
          "[:xdigit:]": "0-9a-fA-F", "[:upper:]": "A-Z", "[:lower:]": "a-z"}


def _canon_ws(s: str) -> str:
    """FileCheck's default whitespace canonicalisation, plus one environment-specific step: the
    xDSL revision pinned by the repo prints block arguments as `%x : T`, xDSL 0.70 of /venv prints
    `%x: T`, and it numbers block labels per region (`^bb0` for a nested entry block) where the pinned
    one numbers them per top-level op (`^bb1`).  Both the CHECK patterns and the output are therefore
    compared with ` : ` read as `: ` and `^bb<n>` read as `^bb`."""
    return re.sub(r"\^bb\d+", "^bb", re.sub(r"[ \t]+", " ", s).replace(" : ", ": "))


def _backport_printer(text: str) -> str:
    """xDSL 0.70 prints some ops in custom syntax that the pinned revision printed generically.
    Re-print the ones the repo's tests mention the old way (output side only)."""
    return re.sub(r"^(\s*%\S+) = memref\.dim (%\S+), (%\S+) : (.+)$", r'\1 = "memref.dim"(\2, \3) : (\4, index) -> index',
                  text, flags=re.M)


class MiniFileCheck:
    """A small re-implementation of LLVM FileCheck semantics (non-strict whitespace)."""

    def __init__(self, check_text: str, prefixes: list[str], line0: int = 0):
        self.collect: list[str] | None = None
        self._first_error: str | None = None
        self.directives: list[dict] = []
        pre = "|".join(re.escape(p) for p in sorted(prefixes, key=len, reverse=True))
        rx = re.compile(r"(?<![\w-])(" + pre + r")(-NEXT|-SAME|-NOT|-DAG|-LABEL|-EMPTY|-COUNT-(\d+))?:(.*)$")
        for ln, line in enumerate(check_text.splitlines(), 1 + line0):
            m = rx.search(line)
            if not m:
                continue
            kind = (m.group(2) or "-CHECK")[1:]
            count = 1
            if kind.startswith("COUNT"):
                kind, count = "CHECK", int(m.group(3))
            pat = m.group(4).strip()
            if not pat and kind != "EMPTY":
                continue
            for _ in range(count):
                self.directives.append({"kind": kind, "pat": pat, "line": ln})

    # -- pattern -> regex -----------------------------------------------------------------
    @staticmethod
    def _find_var_end(s: str, i: int) -> int:
        depth = 0
        while i < len(s):
            if s[i] == "\\":
                i += 2
                continue
            if s.startswith("]]", i) and depth == 0:
                return i
            if s[i] == "[":
                depth += 1
            elif s[i] == "]" and depth > 0:
                depth -= 1
            i += 1
        return -1

    def _regex(self, pat: str, env: dict[str, str], loose: bool = False) -> tuple[re.Pattern, dict[str, str]]:
        out: list[str] = []
        groups: dict[str, str] = {}  # group name -> variable
        local: dict[str, str] = {}  # variable -> group name defined earlier in this pattern
        i, n = 0, 0
        while i < len(pat):
            if pat.startswith("{{", i):
                j = pat.find("}}", i + 2)
                if j < 0:
                    raise CheckError(f"unterminated {{{{ in pattern: {pat}")
                r = pat[i + 2:j]
                for k, v in _POSIX.items():
                    r = r.replace(k, v)
                out.append("(?:" + r + ")")
                i = j + 2
            elif pat.startswith("[[", i) and not re.match(r"\[\[(#|[$@]?[A-Za-z_]\w*\s*(:|\]\]))", pat[i:]):
                out.append(re.escape("["))  # a literal nested list such as `tiles = [[1 : index], ..]`
                i += 1
            elif pat.startswith("[[", i):
                j = self._find_var_end(pat, i + 2)
                if j < 0:
                    raise CheckError(f"unterminated [[ in pattern: {pat}")
                body = pat[i + 2:j]
                i = j + 2
                if body.startswith("#"):
                    out.append(r"-?\d+")  # numeric expressions: accept any number
                    continue
                m = re.match(r"([$@]?\w+)(?::(.*))?$", body, flags=re.S)
                if not m:
                    out.append(re.escape("[[" + body + "]]"))
                    continue
                var, rx = m.group(1), m.group(2)
                if rx is not None:
                    n += 1
                    g = f"v{n}"
                    groups[g] = var
                    local[var] = g
                    for k, v in _POSIX.items():
                        rx = rx.replace(k, v)
                    out.append(f"(?P<{g}>{rx})")
                elif var in local:
                    out.append(f"(?P={local[var]})")
                elif var in env:
                    out.append(re.escape(env[var]))
                elif loose:
                    out.append(r"[^\s,()]+")
                else:
                    raise CheckError(f"use of undefined variable [[{var}]]")
            else:
                j = i
                while j < len(pat) and not pat.startswith("{{", j) and not pat.startswith("[[", j):
                    j += 1
                out.append(re.escape(_canon_ws(pat[i:j])))
                i = j
        return re.compile("".join(out), re.M), groups

    # -- order-free view --------------------------------------------------------------------
    def unmatched(self, text: str) -> list[str]:
        """Patterns of positive directives that match NOWHERE in the output (order, -NEXT/-SAME and
        variable bindings ignored).  Robust against printer noise of the sandbox: compare the lists of
        two trees instead of trusting a single ok/FAIL."""
        text = "\n".join(_canon_ws(l).rstrip(" ") for l in _backport_printer(text).split("\n"))
        res = []
        for d in self.directives:
            if d["kind"] in ("NOT", "EMPTY"):
                continue
            try:
                rx, _ = self._regex(d["pat"], {}, loose=True)
                if not rx.search(text):
                    res.append(d["pat"])
            except (re.error, CheckError):
                res.append(d["pat"])
        return res

    # -- matching ---------------------------------------------------------------------------
    def run(self, text: str) -> str | None:
        """-> None if all directives match, else a one-line description of the first failure."""
        text = _backport_printer(text)
        text = "\n".join(_canon_ws(l).rstrip(" ") for l in text.split("\n"))
        env: dict[str, str] = {}
        ds = self.directives
        if not ds:
            return "no check directives for the given prefixes"
        try:
            # partition by CHECK-LABEL
            label_idx = [k for k, d in enumerate(ds) if d["kind"] == "LABEL"]
            bounds: list[tuple[int, int]] = []
            pos = 0
            for k in label_idx:
                rx, _ = self._regex(ds[k]["pat"], env)
                m = rx.search(text, pos)
                if not m:
                    return self._fail(ds[k], "label not found", text, pos)
                bounds.append((m.start(), m.end()))
                pos = m.end()
            regions: list[tuple[list[dict], int, int, int]] = []  # directives, start, first-pos, end
            first = label_idx[0] if label_idx else len(ds)
            regions.append((ds[:first], 0, 0, bounds[0][0] if bounds else len(text)))
            for n, k in enumerate(label_idx):
                nxt = label_idx[n + 1] if n + 1 < len(label_idx) else len(ds)
                end = bounds[n + 1][0] if n + 1 < len(bounds) else len(text)
                regions.append((ds[k + 1:nxt], bounds[n][0], bounds[n][1], end))
            for dirs, _start, pos0, end in regions:
                err = self._region(dirs, text[:end], pos0, env)
                if err:
                    return err
        except CheckError as e:
            return f"check error: {e}"
        except re.error as e:
            return f"regex not understood by the emulation: {e}"
        return None

    @staticmethod
    def _fail(d: dict, why: str, text: str, pos: int) -> str:
        ln = text.count("\n", 0, pos) + 1
        return f"check line {d['line']} ({d['kind']}: {d['pat'][:90]}) {why}; scanning from output line {ln}"

    def _region(self, dirs: list[dict], text: str, pos: int, env: dict[str, str]) -> str | None:
        """Check one CHECK-LABEL region.  With self.collect set (a list), a failing directive is
        recorded there and matching goes on (the directive after a failure is matched without the
        -NEXT/-SAME constraint, undefined variables match any token): this gives ALL stale
        directives, not only the first."""
        nots: list[dict] = []
        i = 0
        first = pos == 0
        collect = self.collect
        loose = collect is not None

        def bad(msg: str) -> bool:
            """-> True if matching has to stop (strict mode)."""
            if collect is None:
                self._first_error = msg
                return True
            collect.append(msg)
            return False

        def check_nots(lo: int, hi: int) -> bool:
            stop = False
            for nd in nots:
                rx, _ = self._regex(nd["pat"], env, loose)
                m = rx.search(text, lo, hi)
                if m and bad(self._fail(nd, "excluded string found at output line %d" % (text.count("\n", 0, m.start()) + 1), text, lo)):
                    stop = True
                    break
            nots.clear()
            return stop

        while i < len(dirs):
            d = dirs[i]
            kind = d["kind"]
            if kind == "NOT":
                nots.append(d)
                i += 1
                continue
            if kind == "DAG":
                j = i
                while j < len(dirs) and dirs[j]["kind"] == "DAG":
                    j += 1
                taken: list[tuple[int, int]] = []
                for dd in dirs[i:j]:
                    rx, groups = self._regex(dd["pat"], env, loose)
                    p = pos
                    m = None
                    while True:
                        m = rx.search(text, p)
                        if not m:
                            break
                        if any(m.start() < e and s < m.end() for s, e in taken):
                            p = m.start() + 1
                            continue
                        break
                    if not m:
                        if bad(self._fail(dd, "not found (DAG group)", text, pos)):
                            return self._first_error
                        continue
                    taken.append((m.start(), m.end()))
                    for g, var in groups.items():
                        env[var] = m.group(g)
                if taken:
                    if check_nots(pos, min(s for s, _ in taken)):
                        return self._first_error
                    pos = max(e for _, e in taken)
                    first = False
                else:
                    first = True
                i = j
                continue
            if kind == "EMPTY":
                nl = text.find("\n", pos)
                if nl < 0 or not (nl + 1 >= len(text) or text[nl + 1] == "\n"):
                    if bad(self._fail(d, "next line is not empty", text, pos)):
                        return self._first_error
                    i += 1
                    continue
                if check_nots(pos, nl):
                    return self._first_error
                pos = nl + 1
                i += 1
                continue
            rx, groups = self._regex(d["pat"], env, loose)
            m = rx.search(text, pos)
            if not m:
                if bad(self._fail(d, "not found", text, pos)):
                    return self._first_error
                first = True  # resynchronise: the next -NEXT/-SAME is matched as a plain CHECK
                i += 1
                continue
            gap = text.count("\n", pos, m.start())
            if kind == "NEXT" and not first and gap != 1:
                if bad(self._fail(d, "is on the same line as the previous match" if gap == 0 else
                                  f"found {gap} lines later (output line {text.count(chr(10), 0, m.start()) + 1}), not on the next line", text, pos)):
                    return self._first_error
            if kind == "SAME" and not first and gap != 0:
                if bad(self._fail(d, "not on the same line as the previous match", text, pos)):
                    return self._first_error
            if check_nots(pos, m.start()):
                return self._first_error
            for g, var in groups.items():
                env[var] = m.group(g)
            pos = m.end()
            first = False
            i += 1
        if check_nots(pos, len(text)):
            return self._first_error
        return None

    def run_all(self, text: str) -> list[str]:
        """All failing directives (resynchronising after each failure), [] if filecheck would pass."""
        self.collect = []
        try:
            err = self.run(text)
            res = list(self.collect)
            if err and err not in res:
                res.append(err)
            return res
        finally:
            self.collect = None


def lit_status(check_file: str, prefixes: list[str], res: dict | None) -> tuple[str, list[str]]:
    """Would `filecheck` pass on this result?  ('ok' | 'FAIL: ..' | 'crash: ..', patterns matching nowhere)"""
    if res is None:
        return "n/a", []
    try:
        chk = MiniFileCheck(open(check_file).read(), prefixes)
    except OSError as e:
        return f"n/a ({e})", []
    text = "// -----\n".join(s.get("out", s.get("partial", "")) for s in res["splits"])
    crashes = [s["crash"] for s in res["splits"] if "crash" in s]
    if crashes:
        c = crashes[0]
        return f"crash: {c['type']}: {c['msg'][:120]}", chk.unmatched(text)
    err = chk.run(text)
    return ("ok" if err is None else "FAIL: " + err), chk.unmatched(text)


def lit_status_per_split(check_file: str, prefixes: list[str], res: dict | None) -> list[str] | None:
    """For --split-input-file tests: check the directives written in chunk k of the test file against
    the output of split k only.  Not what filecheck does (it sees one stream), but it confines the
    sandbox's printer noise to the splits where it occurs, so that a stale CHECK line in another
    split is still seen.  None when the file is not split or the counts do not agree."""
    if res is None:
        return None
    try:
        chunks = open(check_file).read().split("// -----")
    except OSError:
        return None
    if len(chunks) < 2 or len(chunks) != len(res["splits"]):
        return None
    out, line0 = [], 0
    for chunk, sp in zip(chunks, res["splits"]):
        chk = MiniFileCheck(chunk, prefixes, line0)
        line0 += chunk.count("\n")
        if "crash" in sp:
            out.append(f"crash: {sp['crash']['type']}: {sp['crash']['msg'][:100]}")
        elif not chk.directives:
            out.append("ok (no directives)")
        else:
            errs = chk.run_all(sp["out"])
            out.append("ok" if not errs else f"FAIL ({len(errs)} directives): " + " ;; ".join(errs))
    return out


def _strip_numbers(s: str) -> str:
    return re.sub(r"(check line|output line|scanning from output line) \d+", r"\1 N", s)


# --------------------------------------------------------------------------------------------
# main
# --------------------------------------------------------------------------------------------
def classify(sa: dict | None, sb: dict | None) -> tuple[str, str]:
    if sa is None or sb is None:
        return "DIFFERS", "number of splits differs"
    ca, cb = sa.get("crash"), sb.get("crash")
    if ca and cb:
        same = (ca["type"], ca["msg"]) == (cb["type"], cb["msg"])
        return ("crash-both" if same else "crash-both(different)"), f"A: {ca['type']}: {ca['msg'][:160]} | B: {cb['type']}: {cb['msg'][:160]}"
    if ca:
        return "CRASH-A", f"{ca['type']}: {ca['msg'][:200]} @ {ca['where']}"
    if cb:
        return "CRASH-B", f"{cb['type']}: {cb['msg'][:200]} @ {cb['where']}"
    if sa["out"] == sb["out"]:
        return "identical", ""
    return "DIFFERS", ""


def main() -> int:
    if len(sys.argv) > 1 and sys.argv[1] == "--worker":
        worker_main(sys.argv[2], sys.argv[3], sys.argv[4], sys.argv[5], int(sys.argv[6]))
        return 0
    ap = argparse.ArgumentParser(description=__doc__.split("\n\n")[0], formatter_class=argparse.RawDescriptionHelpFormatter,
                                 epilog="See the module docstring for details.")
    ap.add_argument("A")
    ap.add_argument("B")
    ap.add_argument("--json", default="filecheck_diff.json")
    ap.add_argument("--only", action="append", default=[])
    ap.add_argument("--timeout", type=int, default=180)
    ap.add_argument("--show-diff", action="store_true")
    ap.add_argument("--all", action="store_true")
    ap.add_argument("--no-check", action="store_true")
    ap.add_argument("--dump")
    ap.add_argument("--degrade", action="store_true")
    ap.add_argument("--harness", default=DEFAULT_HARNESS)
    args = ap.parse_args()
    A, B = os.path.abspath(args.A), os.path.abspath(args.B)
    for t in (A, B):
        if not os.path.isdir(os.path.join(t, "tests", "filecheck")) or not os.path.isdir(os.path.join(t, "snaxc")):
            print(f"{t}: not a snax-mlir tree", file=sys.stderr)
            return 2
    if not os.path.exists(os.path.join(args.harness, "xdsl_compat.py")):
        print(f"{args.harness}: xdsl_compat.py not found (use --harness)", file=sys.stderr)
        return 2

    jobsA = discover(A, args.only, args.degrade)
    jobsB = discover(B, args.only, args.degrade)
    keyB = {(j["file"], j["run"]): j for j in jobsB}
    rootA, rootB = os.path.join(A, "tests", "filecheck"), os.path.join(B, "tests", "filecheck")

    def same_file(rel: str) -> bool:
        try:
            return open(os.path.join(rootA, rel), "rb").read() == open(os.path.join(rootB, rel), "rb").read()
        except OSError:
            return False

    # work lists:  id -> job
    workA, workB = [], []
    for j in jobsA:
        if "skip" in j:
            continue
        jid = f"{j['file']}#{j['run']}"
        base = {"stages": j["stages"], "path": os.path.join(rootA, j["file"])}
        workA.append(dict(base, id=jid))
        workB.append(dict(base, id=jid))  # same input, B's code
    own_b: dict[str, str] = {}  # (file#run) -> id of B's run on B's own copy
    if not args.no_check:
        for j in jobsB:
            if "skip" in j:
                continue
            jid = f"{j['file']}#{j['run']}"
            if any(w["id"] == jid for w in workB) and same_file(j["file"]):
                own_b[jid] = jid
            else:
                oid = "own:" + jid
                workB.append({"id": oid, "stages": j["stages"], "path": os.path.join(rootB, j["file"])})
                own_b[jid] = oid

    scratch = tempfile.mkdtemp(prefix="fcdiff.")
    t0 = time.time()
    import concurrent.futures as cf
    with cf.ThreadPoolExecutor(2) as ex:
        fa = ex.submit(run_tree, A, workA, args.harness, args.timeout, scratch, "A")
        fb = ex.submit(run_tree, B, workB, args.harness, args.timeout, scratch, "B")
        resA, resB = fa.result(), fb.result()

    rows = []
    for j in jobsA:
        jid = f"{j['file']}#{j['run']}"
        if "skip" in j:
            rows.append({"file": j["file"], "run": j["run"], "cmd": j["cmd"], "status": "skipped", "detail": j["skip"]})
            continue
        ra, rb = resA.get(jid), resB.get(jid)
        sa, sb = ra["splits"], rb["splits"]
        row = {"file": j["file"], "run": j["run"], "cmd": j["cmd"], "prefixes": j["prefixes"], "splits": [],
               "secs": [ra.get("secs"), rb.get("secs")]}
        for k in range(max(len(sa), len(sb))):
            a = sa[k] if k < len(sa) else None
            b = sb[k] if k < len(sb) else None
            st, detail = classify(a, b)
            ent = {"split": k, "status": st, "detail": detail}
            if st == "DIFFERS" and a and b:
                ent["diff"] = "".join(difflib.unified_diff(a["out"].splitlines(True), b["out"].splitlines(True),
                                                           f"A/{j['file']} split {k}", f"B/{j['file']} split {k}", n=3))
            for side, s in (("A", a), ("B", b)):
                if s and "crash" in s:
                    ent["crash_" + side] = s["crash"]
            row["splits"].append(ent)
        sts = {e["status"] for e in row["splits"]}
        row["status"] = "identical" if sts == {"identical"} else ",".join(sorted(sts - {"identical"}))
        if j.get("degraded"):
            row["degraded"] = j["degraded"]
        if not args.no_check and not j.get("degraded"):
            row["lit_A"], ua = lit_status(os.path.join(rootA, j["file"]), j["prefixes"], ra)
            jb = keyB.get((j["file"], j["run"]))
            ub: list[str] = []
            if jb is None:
                row["lit_B"] = "n/a (file or RUN line removed in B)"
            elif "skip" in jb:
                row["lit_B"] = "skipped: " + jb["skip"]
            else:
                row["lit_B"], ub = lit_status(os.path.join(rootB, j["file"]), jb["prefixes"], resB.get(own_b.get(jid, jid)))
            # CHECK patterns of B's file that B's output matches nowhere although A's file/output had no such miss
            row["unmatched_A"], row["unmatched_B"] = len(ua), len(ub)
            row["newly_unmatched_in_B"] = [p for p in ub if p not in ua]
            row["no_longer_unmatched_in_B"] = [p for p in ua if p not in ub]
            row["test_file_changed"] = not same_file(j["file"])
            la = lit_status_per_split(os.path.join(rootA, j["file"]), j["prefixes"], ra)
            lb = None
            if jb is not None and "skip" not in jb:
                lb = lit_status_per_split(os.path.join(rootB, j["file"]), jb["prefixes"], resB.get(own_b.get(jid, jid)))
            row["lit_splits_A"], row["lit_splits_B"] = la, lb
            row["lit_split_changes"] = []
            if la is not None and lb is not None:
                if len(la) != len(lb):
                    row["lit_split_changes"].append({"split": -1, "A": f"{len(la)} splits", "B": f"{len(lb)} splits (test file gained/lost a split; compare by hand)"})
                else:
                    for k, (a, b) in enumerate(zip(la, lb)):
                        fa = {_strip_numbers(x) for x in a.split(": ", 1)[-1].split(" ;; ")} if a.startswith("FAIL") else set()
                        fb = [x for x in b.split(": ", 1)[-1].split(" ;; ")] if b.startswith("FAIL") else []
                        new = [x for x in fb if _strip_numbers(x) not in fa]
                        if a.split(" ")[0] != b.split(" ")[0] or new:
                            row["lit_split_changes"].append({
                                "split": k, "A": a.split(":")[0], "B": b.split(":")[0],
                                "directives_failing_in_B_only": new,
                                "directives_failing_in_A_only": len([x for x in fa if x not in {_strip_numbers(y) for y in fb}])})
        if args.dump:
            for side, r in (("A", ra), ("B", rb)):
                p = os.path.join(args.dump, side, j["file"] + f".{j['run']}.out")
                os.makedirs(os.path.dirname(p), exist_ok=True)
                with open(p, "w") as f:
                    f.write("// -----\n".join(s.get("out", "<<CRASH " + json.dumps(s.get("crash")) + ">>\n") for s in r["splits"]))
        rows.append(row)
    # files / RUN lines only in B
    keyA = {(j["file"], j["run"]) for j in jobsA}
    for j in jobsB:
        if (j["file"], j["run"]) in keyA:
            continue
        jid = f"{j['file']}#{j['run']}"
        row = {"file": j["file"], "run": j["run"], "cmd": j["cmd"], "status": "only-in-B", "detail": j.get("skip", "")}
        if "skip" not in j and not args.no_check:
            row["lit_B"], ub = lit_status(os.path.join(rootB, j["file"]), j["prefixes"], resB.get(own_b.get(jid)))
            row["unmatched_B"], row["newly_unmatched_in_B"] = len(ub), ub
        rows.append(row)

    # ---- report
    changed = [r for r in rows if r["status"] not in ("identical", "skipped", "crash-both")]
    lit_changed = [r for r in rows if not args.no_check and r.get("lit_A") is not None and
                   (r.get("lit_A", "").split(":")[0] != r.get("lit_B", "").split(":")[0] or r.get("newly_unmatched_in_B")
                    or r.get("lit_split_changes"))]
    nsplit = sum(len(r.get("splits", [])) for r in rows)
    print(f"filecheck_diff  A={A}  B={B}")
    print(f"  {len(rows)} RUN lines in {len({r['file'] for r in rows})} files, {nsplit} splits, "
          f"{sum(r['status'] == 'identical' for r in rows)} identical, {sum(r['status'] == 'skipped' for r in rows)} skipped, "
          f"{len(changed)} changed; {time.time() - t0:.0f}s")
    hdr = f"{'file#run':58} {'status':22} {'lit@A':7} {'lit@B':7} splits"
    print(hdr)
    print("-" * len(hdr))

    def short(s: str | None) -> str:
        return "-" if s is None else s.split(":")[0].split(" ")[0]

    for r in rows:
        interesting = r in changed or r in lit_changed
        if not (interesting or args.all):
            continue
        sp = ""
        if "splits" in r:
            bad = [f"{e['split']}:{e['status']}" for e in r["splits"] if e["status"] != "identical"]
            sp = f"{len(r['splits'])} splits" + (" [" + " ".join(bad) + "]" if bad else "")
        flag = " (test file edited)" if r.get("test_file_changed") else ""
        if r.get("degraded"):
            flag += " (DEGRADED pipeline: " + r["degraded"][:120] + ")"
        print(f"{(r['file'] + '#' + str(r['run']))[:58]:58} {r['status'][:22]:22} {short(r.get('lit_A')):7} {short(r.get('lit_B')):7} {sp}{flag}")
        if r["status"] == "skipped" or r["status"] == "only-in-B":
            print(f"      {r.get('detail', '')}")
        for e in r.get("splits", []):
            if e["status"] not in ("identical", "DIFFERS") or e.get("detail"):
                print(f"      split {e['split']}: {e['status']}: " + e['detail'].replace("\n", " \\n ")[:400])
        for side in ("lit_A", "lit_B"):
            v = r.get(side)
            if v and not v.startswith("ok") and not v.startswith("n/a") and not v.startswith("skipped") and \
                    (args.all or r["status"] != "identical" or r in lit_changed):
                print(f"      {side}: " + v[:260].replace("\n", " \\n "))
        for ch in r.get("lit_split_changes", []):
            print(f"      per-split lit, split {ch['split']}: {ch['A']} -> {ch['B']}"
                  + (f"; {ch['directives_failing_in_A_only']} directive(s) failing only in A" if ch.get("directives_failing_in_A_only") else ""))
            for x in ch.get("directives_failing_in_B_only", []):
                print("          failing only in B: " + x[:240].replace("\n", " \\n "))
        for ptn in ([] if r.get("lit_split_changes") else r.get("newly_unmatched_in_B", [])):
            print(f"      CHECK pattern matching nowhere in B's output (did in A, or is new): {ptn[:200]}")
    if not args.no_check:
        base_fail = [r for r in rows if short(r.get("lit_A")) in ("FAIL", "crash") and r not in changed and r not in lit_changed]
        if base_fail and not args.all:
            print(f"lit emulation not ok in A and unchanged in B (sandbox printer/tool differences, see --all): {len(base_fail)} RUN lines")
    sk = [r for r in rows if r["status"] == "skipped"]
    if sk and not args.all:
        print(f"skipped ({len(sk)}): " + "; ".join(sorted({r['file'] + ' [' + r['detail'].split('(')[0].strip() + ']' for r in sk})))
    if args.show_diff:
        for r in rows:
            for e in r.get("splits", []):
                if e.get("diff"):
                    print()
                    print(e["diff"], end="")
    out = {"A": A, "B": B, "rows": rows,
           "summary": {"run_lines": len(rows), "splits": nsplit,
                       "identical": sum(r["status"] == "identical" for r in rows),
                       "skipped": sum(r["status"] == "skipped" for r in rows),
                       "changed": [f"{r['file']}#{r['run']}: {r['status']}" for r in changed],
                       "lit_status_changed": [f"{r['file']}#{r['run']}: {short(r.get('lit_A'))} -> {short(r.get('lit_B'))}" for r in lit_changed]}}
    with open(args.json, "w") as f:
        json.dump(out, f, indent=1)
    print(f"json: {args.json}")
    import shutil
    shutil.rmtree(scratch, ignore_errors=True)
    return 1 if (changed or lit_changed) else 0


if __name__ == "__main__":
    try:
        sys.exit(main())
    except BrokenPipeError:  # `| head`
        sys.exit(1)
