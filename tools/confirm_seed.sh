#!/bin/bash
# tools/confirm_seed.sh <dir with patch.diff and demo.py> : confirm, in a scratch worktree, that the change
# applies, keeps the 68-test baseline, and that demo.py fails with it and passes without it.
d=$(cd "$1" && pwd)
WT=$(mktemp -d /tmp/seedwt.XXXXXX); rmdir "$WT"
git -C /repo worktree add --detach "$WT" HEAD >/dev/null 2>&1 || exit 2
trap 'git -C /repo worktree remove --force "$WT" >/dev/null 2>&1; rm -rf "$WT"' EXIT
cd "$WT"
export PYTHONPATH="$WT:/verif/harness" PYTHONHASHSEED=0 PYTHONDONTWRITEBYTECODE=1
sed "s#/tmp/mut-C[0-9]*#$WT#g" "$d/demo.py" > "$WT/.demo.py"
timeout 600 /venv/bin/python "$WT/.demo.py" >/dev/null 2>&1; clean=$?
git apply "$d/patch.diff" || { echo "APPLY-FAILED"; exit 2; }
tests=$(/venv/bin/python -m pytest -q -p no:cacheprovider --timeout=900 --continue-on-collection-errors 2>&1 | tail -1)
timeout 600 /venv/bin/python "$WT/.demo.py" >/dev/null 2>&1; mut=$?
echo "clean_demo_rc=$clean mutated_demo_rc=$mut tests: $tests"
[ "$clean" = 0 ] && [ "$mut" != 0 ] && echo "$tests" | grep -q "68 passed" && echo CONFIRMED || echo NOT-CONFIRMED
