#!/bin/bash
# tools/baseline.sh [repo-dir]: run the 68-test baseline (expects "68 passed, 9 errors": the 9 collection errors pre-exist).
cd "${1:-/repo}" && PYTHONPATH="$PWD" /venv/bin/python -m pytest -q -p no:cacheprovider --timeout=900 --continue-on-collection-errors 2>&1 | tail -2
