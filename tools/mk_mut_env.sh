#!/bin/bash
# tools/mk_mut_env.sh Cxx : scratch worktree /tmp/mut-Cxx of /repo HEAD + /tmp/mut-Cxx.property.json (property text only)
p=$1
git -C /repo worktree add --detach /tmp/mut-$p HEAD >/dev/null 2>&1 || { echo "worktree exists?"; }
python3 - "$p" <<'PY'
import json,sys
pid=sys.argv[1]
for l in open('/verif/properties.jsonl'):
    p=json.loads(l)
    if p['id']==pid:
        json.dump({k:p[k] for k in ('id','title','statement','quantifier','anchors')}, open(f'/tmp/mut-{pid}.property.json','w'), indent=1)
        print(p['title']); print(p['statement']); print(p['quantifier']['text']); print(p['anchors']['files'])
PY
