#!/usr/bin/env python3
"""Assemble MANIFEST.json from harness/props/cXX.meta.json and known_findings.json from known/*.json."""
import json
from pathlib import Path

V = Path(__file__).resolve().parent.parent
props = [json.loads(l) for l in (V / "properties.jsonl").read_text().splitlines() if l.strip()]
checks, na, engines_served = [], [], []
for p in props:
    pid = p["id"]
    mf = V / "harness" / "props" / f"{pid.lower()}.meta.json"
    if mf.exists() and (V / "coq" / "Props" / f"{pid}.v").exists():
        m = json.loads(mf.read_text())
        if m.get("not_applicable"):
            na.append({"property_id": pid, "reason": m["not_applicable"]})
            continue
        engines_served.append(pid)
        checks.append({
            "property_id": pid,
            "quick_cmd": f"./check {pid} quick",
            "thorough_cmd": f"./check {pid} thorough",
            "evidence_file": f"/verif/evidence/{pid}.json",
            "replay_cmd_template": f"./check {pid} --replay {{path}}",
            "engine": "coq",
            "level_claimed": {"category": "proof", "text": m["level_text"], "design_ref": m.get("design_ref", f"DESIGN.md §6 {pid}")},
            "level_note": m["level_note"],
            "technique": m.get("technique", "machine-checked proof in Coq 8.16 about an executable model + model/code correspondence check"),
        })
    else:
        na.append({"property_id": pid, "reason": "no check registered yet: the Coq model and proof for this property are not built in this revision (see DESIGN.md §11)"})
manifest = {
    "version": 1,
    "setup_cmd": "./setup.sh",
    "hooks": {
        "guard": "SNAX_MLIR_VERIF",
        "enable": "no source hooks: the harness wraps classes at run time inside its own process; checks export SNAX_MLIR_VERIF=1 for uniformity",
        "baseline_off_cmd": "cd /repo && /venv/bin/python -m pytest -ra -q -p no:cacheprovider --timeout=900 --continue-on-collection-errors",
        "source_commits": [],
        "add_only": True,
    },
    "engines": [
        {"name": "coq", "path": "coq/", "serves_properties": engines_served,
         "kind_free_text": "Coq 8.16.1 development: Base/ Model/ Gen/ Proofs/ Props/; full .vo build; Print Assumptions per theorem; coqchk in the thorough tier"},
        {"name": "harness", "path": "harness/", "serves_properties": engines_served,
         "kind_free_text": "Python driver: gate, (T) generators, L1 model/code correspondence via generated cases.v + vm_compute, L2 property-level search on the implementation, known-finding replay, evidence"},
        {"name": "py2coq", "path": "translator/", "serves_properties": [p for p in ("C19", "C02") if p in engines_served],
         "kind_free_text": "fail-closed Python-ast to Gallina translator: regenerates coq/Gen/CanonAffine.v (snaxc/util/canonicalize_affine.py) and coq/Gen/StrideCanon.v (StridePattern.canonicalize) from /repo on every run; the C19/C02 theorems are proved against the generated definitions"},
    ],
    "checks": checks,
    "not_applicable": na,
    "notes": "All checks honour VERIF_SEED / VERIF_TIER and SNAX_REPO (default /repo). known_findings.json lists recorded defects; fixed entries suppress nothing.",
}
(V / "MANIFEST.json").write_text(json.dumps(manifest, indent=1) + "\n")
findings, fixed = [], []
for f in sorted((V / "known").glob("*.json")):
    d = json.loads(f.read_text())
    findings += d.get("findings", [])
    fixed += d.get("fixed", [])
(V / "known_findings.json").write_text(json.dumps({
    "comment": "Genuine defects of snax-mlir recorded rather than repaired (findings) and repaired by a fix: commit (fixed; these suppress nothing). Never written at run time; assembled from known/*.json by tools/mkmanifest.py.",
    "findings": findings, "fixed": fixed}, indent=1) + "\n")
print(f"{len(checks)} checks, {len(na)} not claimed, {len(findings)} findings, {len(fixed)} fixed")
