#!/bin/bash
# tools/with_mutant.sh <patch.diff|-e 'sed-expr' file> -- <command...>
# Creates a scratch git worktree of /repo under /tmp, applies the patch, runs the command with
# SNAX_REPO pointing at it, removes the worktree.  Nothing in /repo is touched.
set -u
WT=$(mktemp -d /tmp/snaxwt.XXXXXX)
rmdir "$WT"
git -C /repo worktree add --detach "$WT" HEAD >/dev/null 2>&1 || { echo "worktree failed"; exit 2; }
cleanup() { git -C /repo worktree remove --force "$WT" >/dev/null 2>&1; rm -rf "$WT"; }
trap cleanup EXIT
if [ "$1" = "-e" ]; then
  sed -i -e "$2" "$WT/$3"; shift 3
else
  git -C "$WT" apply "$1" || { echo "patch failed"; exit 2; }; shift
fi
[ "$1" = "--" ] && shift
git -C "$WT" diff --stat | tail -1
# evidence of mutant runs must not overwrite the evidence of /repo
VERIF_EVIDENCE_DIR="${VERIF_EVIDENCE_DIR:-/tmp/mutant-evidence}" SNAX_REPO="$WT" "$@"
