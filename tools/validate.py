"""Validate MANIFEST.json and every evidence file against the schemas in /root/.vp."""
import json
import sys
from pathlib import Path

import jsonschema

V = Path(__file__).resolve().parent.parent
ms = json.load(open("/root/.vp/MANIFEST.schema.json"))
es = json.load(open("/root/.vp/EVIDENCE.schema.json"))
m = json.load(open(V / "MANIFEST.json"))
jsonschema.validate(m, ms)
bad = 0
ids = {json.loads(l)["id"] for l in open(V / "properties.jsonl") if l.strip()}
claimed = {c["property_id"] for c in m["checks"]}
na = {c["property_id"] for c in m.get("not_applicable", [])}
if claimed | na != ids or claimed & na:
    print("MANIFEST: claimed/not_applicable do not partition the properties", sorted(ids - claimed - na), sorted(claimed & na))
    bad += 1
for c in m["checks"]:
    f = Path(c["evidence_file"])
    if not f.exists():
        print("missing evidence", f)
        bad += 1
        continue
    e = json.load(open(f))
    try:
        jsonschema.validate(e, es)
        cov = e["coverage"]
        if e["level"] == "proof" and cov.get("obligations") != cov.get("discharged"):
            print(f"{f.name}: obligations {cov.get('obligations')} != discharged {cov.get('discharged')}")
            bad += 1
        if e.get("violations"):
            print(f"{f.name}: records {e['violations']} violations")
            bad += 1
    except jsonschema.ValidationError as ex:
        print("invalid evidence", f, ex.message[:200])
        bad += 1
sys.path.insert(0, str(V / "harness"))
import vlib  # noqa: E402
off = vlib.gate()
for o in off:
    print("development-wide gate:", o)
bad += len(off)
print("validate:", "OK" if not bad else f"{bad} problem(s)", f"({len(claimed)} claimed, {len(na)} not claimed)")
sys.exit(1 if bad else 0)
