(* C08 — generated configuration values line up with field names.
   Only theorem statements closed by `exact`, each followed by Print Assumptions.
   Model: coq/Model/C08StreamerCfg.v (hand model of SNAXStreamer.get_streamer_setup_fields /
   _generate_streamer_setup_vals and the xDMA / accelerator-specific variants), tied to the code by
   the L1 correspondence in harness/props/c08.py on every run (field names rendered to the real
   strings, value lists compared exactly, marker experiment through the real convert_to_acc_ops). *)
From Snax Require Import Base.Prelude Model.C08StreamerCfg Proofs.C08StreamerProofs.

(* 1. Regular-system streamers, EVERY configuration (any number <= 26 of streamers, any temporal
      flags, any spatial dims, any option list) and every op the generator accepts: the value list
      has exactly the tags of the field list — same length, same order, same meaning. *)
Theorem C08_fields_vals_aligned_regular :
  forall cfg op l, (List.length cfg <= 26)%nat -> setup_vals cfg op = Some l ->
  map fst l = map tag_of_name (setup_fields cfg).
Proof. exact fields_vals_aligned_regular. Qed.
Print Assumptions C08_fields_vals_aligned_regular.

(* 2. ... and each named register receives the value its meaning specifies: padded bounds (1) and
      strides (0), reuse-collapsed bounds, zero-pointer handling, masks, broadcast flag. *)
Theorem C08_register_receives_its_meaning :
  forall cfg op l, (List.length cfg <= 26)%nat -> setup_vals cfg op = Some l ->
  map (fun v => Some v) (map snd l) = map (fun f => spec_value cfg op (tag_of_name f)) (setup_fields cfg).
Proof. exact register_receives_its_meaning. Qed.
Print Assumptions C08_register_receives_its_meaning.

(* 3. The generator raises exactly outside op_okb (missing operand/pattern, fewer spatial strides than
      the streamer has, non-zero stride on an Irrelevant dim). *)
Theorem C08_setup_vals_defined_iff :
  forall cfg op, (exists l, setup_vals cfg op = Some l) <-> op_okb cfg op = true.
Proof. exact setup_vals_defined_iff. Qed.
Print Assumptions C08_setup_vals_defined_iff.

(* non-vacuity: the gemmx-like configuration with a full pattern is accepted *)
Example C08_nonvacuous :
  let cfg := [mkStreamer [FNormal; FReuse; FIrrelevant] [8; 4] [OExt ETranspose; OAddrRemap; OBroadcast];
              mkStreamer [FReuse; FNormal] [8] [OChanMask]] in
  let op := mkSop [mkPat [3; 5] [64; 0] [8; 0]; mkPat [7] [0] [8]] [false; true] in
  op_okb cfg op = true /\ exists l, setup_vals cfg op = Some l /\ List.length l = 21%nat.
Proof. split; [reflexivity|eexists; split; [vm_compute; reflexivity|reflexivity]]. Qed.

(* the 26-letter limit is real: with 27 streamers the zip over names truncates the field list *)
Theorem C08_more_than_26_streamers_refuted :
  exists l, setup_vals cfg27 op27 = Some l /\ List.length l <> List.length (setup_fields cfg27).
Proof. exact more_than_26_streamers_refuted. Qed.
Print Assumptions C08_more_than_26_streamers_refuted.
