(* C08 — generated configuration values line up with field names.
   Only theorem statements closed by `exact`, each followed by Print Assumptions.
   Model: coq/Model/C08StreamerCfg.v (hand model of SNAXStreamer.get_streamer_setup_fields /
   _generate_streamer_setup_vals and the xDMA / accelerator-specific variants), tied to the code by
   the L1 correspondence in harness/props/c08.py on every run (field names rendered to the real
   strings, value lists compared exactly, marker experiment through the real convert_to_acc_ops). *)
From Snax Require Import Base.Prelude Model.C08StreamerCfg Model.C08Accels Model.C08Sem
  Proofs.C08StreamerProofs Proofs.C08AccelProofs Proofs.C08SemProofs Proofs.C08PackProofs Proofs.C08AuditProofs.

(* 1. Regular-system streamers, EVERY configuration (any number <= 26 of streamers, any temporal
      flags, any spatial dims, any option list) and every op the generator accepts: the value list
      has exactly the tags of the field list — same length, same order, same meaning. *)
Theorem C08_fields_vals_aligned_regular :
  forall cfg op l, (List.length cfg <= 26)%nat -> setup_vals cfg op = Some l ->
  map fst l = map tag_of_name (setup_fields cfg).
Proof. exact fields_vals_aligned_regular. Qed.
Print Assumptions C08_fields_vals_aligned_regular.

(* 2. ... and each named register receives the value its meaning specifies: padded bounds (1) and
      strides (0), reuse-collapsed bounds, zero-pointer handling, masks, broadcast flag. *)
Theorem C08_register_receives_its_meaning :
  forall cfg op l, (List.length cfg <= 26)%nat -> setup_vals cfg op = Some l ->
  map (fun v => Some v) (map snd l) = map (fun f => spec_value cfg op (tag_of_name f)) (setup_fields cfg).
Proof. exact register_receives_its_meaning. Qed.
Print Assumptions C08_register_receives_its_meaning.

(* 3. The generator raises exactly outside op_okb (missing operand/pattern, fewer spatial strides than
      the streamer has, non-zero stride on an Irrelevant dim). *)
Theorem C08_setup_vals_defined_iff :
  forall cfg op, (exists l, setup_vals cfg op = Some l) <-> op_okb cfg op = true.
Proof. exact setup_vals_defined_iff. Qed.
Print Assumptions C08_setup_vals_defined_iff.

(* non-vacuity: the gemmx-like configuration with a full pattern is accepted *)
Example C08_nonvacuous :
  let cfg := [mkStreamer [FNormal; FReuse; FIrrelevant] [8; 4] [OExt ETranspose; OAddrRemap; OBroadcast];
              mkStreamer [FReuse; FNormal] [8] [OChanMask]] in
  let op := mkSop [mkPat [3; 5] [64; 0] [8; 0]; mkPat [7] [0] [8]] [false; true] in
  op_okb cfg op = true /\ exists l, setup_vals cfg op = Some l /\ List.length l = 21%nat.
Proof. split; [reflexivity|eexists; split; [vm_compute; reflexivity|reflexivity]]. Qed.

(* the 26-letter limit is real: with 27 streamers the zip over names truncates the field list *)
Theorem C08_more_than_26_streamers_refuted :
  exists l, setup_vals cfg27 op27 = Some l /\ List.length l <> List.length (setup_fields cfg27).
Proof. exact more_than_26_streamers_refuted. Qed.
Print Assumptions C08_more_than_26_streamers_refuted.

(* ---- xDMA system type ------------------------------------------------------------------------------
   4. For every xDMA configuration in the Safe class (every streamer HasChannelMask; extension value
      lists have the declared csr_length, which for a non-generic body means csr_length = 1), for
      EVERY csr_length assignment `elen`: aligned. *)
Theorem C08_fields_vals_aligned_xdma_partial :
  forall elen cfg op b l, (List.length cfg <= 26)%nat -> safe_xdmab elen cfg b = true ->
  xdma_vals elen cfg op b = Some l ->
  map fst l = map tag_of_name (xdma_fields elen cfg).
Proof. exact fields_vals_aligned_xdma. Qed.
Print Assumptions C08_fields_vals_aligned_xdma_partial.

(* Full statement (without safe_xdmab) is REFUTED — finding F7: *)
Theorem C08_xdma_no_channel_mask_refuted :
  exists l, xdma_vals std_len xdma_cfg_nomask xdma_op2 (XGeneric []) = Some l /\
            List.length l <> List.length (xdma_fields std_len xdma_cfg_nomask).
Proof. exact xdma_no_channel_mask_refuted. Qed.
Print Assumptions C08_xdma_no_channel_mask_refuted.
Theorem C08_xdma_nongeneric_body_refuted :
  exists l, xdma_vals std_len xdma_cfg_rescale xdma_op2 XOther = Some l /\
            List.length l <> List.length (xdma_fields std_len xdma_cfg_rescale).
Proof. exact xdma_nongeneric_body_refuted. Qed.
Print Assumptions C08_xdma_nongeneric_body_refuted.

(* 5. xDMA values meet their meaning when no operand's zero flag differs from the last one's
      (the generator reads `is_zero_pattern` of the LAST operand for every mask: refuted otherwise). *)
Theorem C08_vals_meet_spec_xdma_partial :
  forall elen cfg op b l, zero_uniformb cfg op = true -> xdma_vals elen cfg op b = Some l ->
  Forall (fun tv => xdma_spec_value cfg op b (fst tv) = Some (snd tv)) l.
Proof. exact vals_meet_spec_xdma. Qed.
Print Assumptions C08_vals_meet_spec_xdma_partial.
Theorem C08_xdma_mask_of_last_operand_refuted :
  exists l, xdma_vals std_len xdma_cfg_masks xdma_op_lastzero (XGeneric []) = Some l /\
            In (TChanMask 0, VConst 0) l /\
            xdma_spec_value xdma_cfg_masks xdma_op_lastzero (XGeneric []) (TChanMask 0) = Some (VConst (-1)).
Proof. exact xdma_mask_of_last_operand_refuted. Qed.
Print Assumptions C08_xdma_mask_of_last_operand_refuted.
Example C08_xdma_nonvacuous :
  safe_xdmab std_len xdma_cfg_masks (XGeneric [(EAdd, [2])]) = true /\
  zero_uniformb xdma_cfg_masks xdma_op2 = true /\
  exists l, xdma_vals std_len xdma_cfg_masks xdma_op2 (XGeneric [(EAdd, [2])]) = Some l.
Proof. repeat split; try reflexivity. eexists. vm_compute. reflexivity. Qed.

(* ---- accelerators ------------------------------------------------------------------------------------
   6. snax_alu, snax_phs (one value per switch), snax_gemmx (every n >= 0, every body; per-channel
      arrays of length 1 or >= n): aligned for every configuration. gemmx mirrors the code after
      `fix: gemmx rescale-only lowering emits one multiplier value per mult_i field` (F8). *)
Theorem C08_fields_vals_aligned_alu :
  forall cfg op l, (List.length cfg <= 26)%nat -> alu_vals cfg op = Some l ->
  map fst l = map tag_of_name (alu_fields cfg).
Proof. exact fields_vals_aligned_alu. Qed.
Print Assumptions C08_fields_vals_aligned_alu.
Theorem C08_fields_vals_aligned_phs :
  forall cfg op sw l, (List.length cfg <= 26)%nat -> phs_vals cfg op sw = Some l ->
  map fst l = map tag_of_name (phs_fields cfg (List.length sw)).
Proof. exact fields_vals_aligned_phs. Qed.
Print Assumptions C08_fields_vals_aligned_phs.
Theorem C08_fields_vals_aligned_gemmx :
  forall cfg n op gb l, (List.length cfg <= 26)%nat -> 0 <= n -> gbody_okb n gb = true ->
  gemmx_vals cfg n op gb = Some l ->
  map fst l = map tag_of_name (gemmx_fields cfg n).
Proof. exact fields_vals_aligned_gemmx. Qed.
Print Assumptions C08_fields_vals_aligned_gemmx.
Example C08_gemmx_nonvacuous :
  let r := mkRescale 127 (-128) 1 [39] [1234567890] 3 (-4) in
  gbody_okb 8 (GBRescale r) = true /\ gbody_okb 8 (GBMac true true (Some r)) = true /\
  exists l, gemmx_kernel_vals 8 (mkSop [mkPat [4; 2] [0; 0] [8]; mkPat [4; 2] [0; 0] [8]; mkPat [4; 2] [64; 256] [8]] [])
              (GBMac true true (Some r)) = Some l /\ List.length l = 18%nat.
Proof. repeat split; try reflexivity. eexists. split; vm_compute; reflexivity. Qed.

(* 7. snax_hwpe_mult: the values for `vector_length` and `nr_iters` are exchanged w.r.t. the names
      (finding F9; the register addresses are exchanged as well, so the two cancel on the bus). *)
Theorem C08_hwpe_names_values_swapped_refuted :
  map fst hwpe_vals <> map tag_of_name hwpe_fields /\
  nth 3 (map tag_of_name hwpe_fields) (TKern HwA) = TKern HwVectorLength /\
  nth 3 hwpe_vals (TKern HwA, HOne) = (TKern HwNrIters, HOne) /\
  nth 4 (map tag_of_name hwpe_fields) (TKern HwA) = TKern HwNrIters /\
  nth 4 hwpe_vals (TKern HwA, HOne) = (TKern HwVectorLength, HDim0).
Proof. exact hwpe_names_values_swapped. Qed.
Print Assumptions C08_hwpe_names_values_swapped_refuted.

(* ---- what the written bounds/strides mean ------------------------------------------------------------
   8. Padding to the hardware dimensionality (bound 1, stride 0) enumerates the same address sequence. *)
Theorem C08_padding_neutral :
  forall n bs ss, List.length bs = List.length ss ->
  addrs (hw_bounds n bs) (hw_strides n ss) = addrs bs ss.
Proof. exact padding_neutral. Qed.
Print Assumptions C08_padding_neutral.

(* 9. Reuse collapse: a stride-0 dimension written as bound 1 visits the same addresses; in the
      innermost position each address exactly once instead of b times in a row. *)
Theorem C08_reuse_collapse_innermost :
  forall b bs ss, 0 <= b ->
  addrs (b :: bs) (0 :: ss) = flat_map (fun a => repeat a (Z.to_nat b)) (addrs (1 :: bs) (0 :: ss)).
Proof. exact reuse_collapse_innermost. Qed.
Print Assumptions C08_reuse_collapse_innermost.
Theorem C08_reuse_collapse_same_addresses :
  forall pre pre_s b post post_s, List.length pre = List.length pre_s -> 1 <= b ->
  forall a, In a (addrs (pre ++ b :: post) (pre_s ++ 0 :: post_s))
        <-> In a (addrs (pre ++ 1 :: post) (pre_s ++ 0 :: post_s)).
Proof. exact reuse_collapse_same_addresses. Qed.
Print Assumptions C08_reuse_collapse_same_addresses.

(* 10. Loop counts: loop_bound_alu is the number of temporal steps of the (1-dim) stream; gemmx K*N*M
       is the number of steps of the A stream when M divides it, temporal_loop_bound is M (i8 output),
       and M is the number of steps of the output stream with its stride-0 dims collapsed. *)
Theorem C08_loop_count_alu :
  forall op b t ss l cfg, nth_error (s_pats op) 0 = Some (mkPat [b] [t] ss) -> 0 <= b ->
  alu_vals cfg op = Some l ->
  In (TKern LoopBoundAlu, VConst (steps [b] [t])) l.
Proof. exact loop_count_alu. Qed.
Print Assumptions C08_loop_count_alu.
Theorem C08_loop_count_gemmx_knm :
  forall n op qmac i8 resc l pA, nth_error (s_pats op) 0 = Some pA ->
  List.length (p_ub pA) = List.length (p_ts pA) -> Forall (fun b => 0 <= b) (p_ub pA) ->
  gemmx_kernel_vals n op (GBMac qmac i8 resc) = Some l ->
  exists k m, In (TKern GK, GC k) l /\ In (TKern GN, GC 1) l /\ In (TKern GM, GC m) l /\
              In (TKern GTemporalLoopBound, if i8 then GC m else GC 0) l /\
              ((m | steps (p_ub pA) (p_ts pA)) -> k * 1 * m = steps (p_ub pA) (p_ts pA)).
Proof. exact loop_count_gemmx_knm. Qed.
Print Assumptions C08_loop_count_gemmx_knm.
Theorem C08_loop_count_gemmx_m :
  forall p, List.length (p_ub p) = List.length (p_ts p) -> Forall (fun b => 0 <= b) (p_ub p) ->
  prod_nonreducing p = steps (map (fun bs => if snd bs =? 0 then 1 else fst bs) (combine (p_ub p) (p_ts p))) (p_ts p).
Proof. exact loop_count_gemmx_m. Qed.
Print Assumptions C08_loop_count_gemmx_m.

(* 10b. (audit) The loop-count registers by VALUE: C08_loop_count_gemmx_knm leaves M existential, so it cannot be
        combined with C08_loop_count_gemmx_m. Here: the value written to `M` (and to `temporal_loop_bound` for an
        i8 output) IS the number of steps of the output stream (D8 = pattern 2 for i8, the last pattern otherwise)
        with its stride-0 dims collapsed; for the rescale-only body K = N = 1 and M = temporal_loop_bound = number of
        steps of stream 0; snax_phs writes the same first bound as snax_alu. *)
Theorem C08_loop_count_gemmx_m_register :
  forall n op qmac i8 resc l lp, out_pattern op i8 = Some lp ->
  List.length (p_ub lp) = List.length (p_ts lp) -> Forall (fun b => 0 <= b) (p_ub lp) ->
  gemmx_kernel_vals n op (GBMac qmac i8 resc) = Some l ->
  In (TKern GM, GC (steps (collapsed_bounds lp) (p_ts lp))) l /\
  In (TKern GTemporalLoopBound, if i8 then GC (steps (collapsed_bounds lp) (p_ts lp)) else GC 0) l.
Proof. exact loop_count_gemmx_m_register. Qed.
Print Assumptions C08_loop_count_gemmx_m_register.
Theorem C08_loop_count_gemmx_rescale_only :
  forall n op r l p0, nth_error (s_pats op) 0 = Some p0 ->
  List.length (p_ub p0) = List.length (p_ts p0) -> Forall (fun b => 0 <= b) (p_ub p0) ->
  gemmx_kernel_vals n op (GBRescale r) = Some l ->
  In (TKern GK, GC 1) l /\ In (TKern GN, GC 1) l /\
  In (TKern GM, GC (steps (p_ub p0) (p_ts p0))) l /\
  In (TKern GTemporalLoopBound, GC (steps (p_ub p0) (p_ts p0))) l.
Proof. exact loop_count_gemmx_rescale_only. Qed.
Print Assumptions C08_loop_count_gemmx_rescale_only.
Theorem C08_loop_count_phs :
  forall op b t ss l cfg sw, nth_error (s_pats op) 0 = Some (mkPat [b] [t] ss) -> 0 <= b ->
  phs_vals cfg op sw = Some l ->
  In (TKern LoopBoundAlu, VConst (steps [b] [t])) l.
Proof. exact loop_count_phs. Qed.
Print Assumptions C08_loop_count_phs.
Example C08_loop_count_gemmx_m_register_nonvacuous :
  let op := mkSop [mkPat [4; 2] [8; 64] [8]; mkPat [4; 2] [8; 0] [8]; mkPat [4; 2] [0; 256] [8]] [] in
  out_pattern op true = Some (mkPat [4; 2] [0; 256] [8]) /\
  steps (collapsed_bounds (mkPat [4; 2] [0; 256] [8])) [0; 256] = 2 /\
  exists l, gemmx_kernel_vals 8 op (GBMac false true None) = Some l /\ In (TKern GM, GC 2) l /\ In (TKern GK, GC 4) l.
Proof. exact loop_count_gemmx_m_register_nonvacuous. Qed.

(* 11. Packed CSRs: after `& 255` the 8-bit fields of csr0 (min | max | out_zp | in_zp) and of
       subtractions (zp_b | zp_a) do not overlap — the or of the shifted fields is their sum, for all
       (also negative) inputs, so each field can be read back from the register. *)
Theorem C08_pack_csr0_value :
  forall env mn mx zo zi,
  geval env (pack_csr0 mn mx zo zi)
  = (mn mod 256) * 2 ^ 24 + (mx mod 256) * 2 ^ 16 + (zo mod 256) * 2 ^ 8 + zi mod 256.
Proof. exact pack_csr0_value. Qed.
Print Assumptions C08_pack_csr0_value.
Theorem C08_pack_subtractions_value :
  forall env a b,
  geval env (GPack [(GAnd255 a, 0); (GAnd255 b, 8)])
  = (geval env a) mod 256 + ((geval env b) mod 256) * 2 ^ 8.
Proof. exact pack_subtractions_value. Qed.
Print Assumptions C08_pack_subtractions_value.
Theorem C08_csr0_fields_recoverable :
  forall env mn mx zo zi, let v := geval env (pack_csr0 mn mx zo zi) in
  v mod 256 = zi mod 256 /\ (v / 2 ^ 8) mod 256 = zo mod 256 /\
  (v / 2 ^ 16) mod 256 = mx mod 256 /\ (v / 2 ^ 24) mod 256 = mn mod 256.
Proof. exact csr0_fields_recoverable. Qed.
Print Assumptions C08_csr0_fields_recoverable.

(* 12. Full loop-count statement for configurations with more than one temporal dim is REFUTED (F25):
       loop_bound_alu = first bound (3) while the stream makes 15 steps. C08_loop_count_alu is the
       proved partial statement (one temporal dim, as in the default snax_alu). *)
Theorem C08_alu_loop_bound_multi_dim_refuted :
  let cfg := [mkStreamer [FNormal; FNormal] [4] []] in
  let op := mkSop [mkPat [3; 5] [32; 96] [8]] [false] in
  exists l, alu_vals cfg op = Some l /\ In (TKern LoopBoundAlu, VConst 3) l /\ steps [3; 5] [32; 96] = 15.
Proof. exact alu_loop_bound_multi_dim_refuted. Qed.
Print Assumptions C08_alu_loop_bound_multi_dim_refuted.
