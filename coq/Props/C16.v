(* C16 — returned schedules fit the accelerator template.
   Only theorem statements closed by `exact`/1-line combinations, each followed by Print Assumptions. *)
From Snax Require Import Base.Prelude Model.C03Schedule Model.C03Yields Model.C16Matcher Model.C16Fits
  Proofs.C03ScheduleProofs Proofs.C03BacktrackProofs Proofs.C16MatcherProofs Proofs.C16FitsProofs Proofs.C16ChecksProofs Proofs.C16ElimProofs Proofs.C16CompleteProofs.

(* FULL STATEMENT (refuted, finding F12):
     forall r yielded by scheduler_backtrack(T, s, 1, checks), fitsb matcher checks T r = true.
   It fails exactly in the class `fewer_dims_than_template` (C16_refuted below): a result with fewer
   dims than the template was only compared with a truncated template.  Outside that class it is proved: *)

(* Every schedule yielded by the search (any matcher, any requested checks, any template with >= 1 dims,
   any fuel) that has at least as many dims as the template satisfies, ON THE RETURNED SCHEDULE:
   the matcher accepts (T, r); every bound of r's innermost template-many dims is <= the template bound
   where the template bounds it; every requested check holds. *)
Theorem C16_backtrack_fits_partial :
  forall (matcher : tmpl -> sched -> bool) (checks : list (tmpl -> sched -> bool)) (T : tmpl)
         (fuel : nat) (s r : sched),
    wf_schedb s = true -> wf_tmplb T = true ->
    In r (fst (bt matcher checks fuel T s 1)) ->
    fewer_dims_than_template T r = false ->
    fitsb matcher checks T r = true.
Proof.
  intros m c T f s r Hs HT Hin Hsafe. apply wf_schedb_ok in Hs.
  exact (backtrack_fits m c T f s r Hs HT Hin Hsafe).
Qed.
Print Assumptions C16_backtrack_fits_partial.

(* The same, instantiated with the real matcher and unfolded: for every operand the (trailing) template rows and
   the rows of the result restricted to its innermost template-many dims span the same rational row space;
   the bounds fit; every requested check holds on the returned schedule. *)
Theorem C16_backtrack_fits_rowspace :
  forall (checks : list (tmpl -> sched -> bool)) (T : tmpl) (fuel : nat) (s r : sched),
    wf_schedb s = true -> wf_tmplb T = true ->
    In r (fst (bt matches checks fuel T s 1)) ->
    fewer_dims_than_template T r = false ->
    Forall2 (fun tp sp => (pndims tp <= pndims sp)%nat /\
                          Forall (span_cert (s_rows tp sp)) (t_rows tp sp) /\
                          Forall (span_cert (t_rows tp sp)) (s_rows tp sp)) T r /\
    bounds_fitb T r = true /\ forallb (fun c => c T r) checks = true.
Proof.
  intros c T f s r Hs HT Hin Hsafe.
  pose proof (C16_backtrack_fits_partial matches c T f s r Hs HT Hin Hsafe) as H. unfold fitsb in H.
  apply andb_true_iff in H as [H H3]. apply andb_true_iff in H as [H1 H2].
  split; [exact (matches_sound T r H1) | split; assumption].
Qed.
Print Assumptions C16_backtrack_fits_rowspace.

(* F12: the 1x8x8 matmul on the 3-dim gemm template (after canonicalize dropped the unit dim) *)
Definition F12_template : tmpl :=
  [mkPat [Some 8; Some 8; Some 8] [[1; 0]; [0; 0]; [0; 1]] [0; 0];
   mkPat [Some 8; Some 8; Some 8] [[0; 0]; [0; 1]; [1; 0]] [0; 0];
   mkPat [Some 8; Some 8; Some 8] [[1; 0]; [0; 1]; [0; 0]] [0; 0]].
Definition F12_schedule : sched :=
  [mkPat [8; 8] [[0; 0]; [0; 1]] [0; 0];
   mkPat [8; 8] [[0; 1]; [1; 0]] [0; 0];
   mkPat [8; 8] [[0; 1]; [0; 0]] [0; 0]].
Theorem C16_refuted :
  exists T s r, wf_schedb s = true /\ wf_tmplb T = true /\
    In r (fst (backtrack matches [is_pure_output_stationary] T s)) /\
    fewer_dims_than_template T r = true /\ fitsb matches [is_pure_output_stationary] T r = false.
Proof.
  exists F12_template, F12_schedule, F12_schedule.
  vm_compute. repeat split; auto.
Qed.
Print Assumptions C16_refuted.

(* The matcher accepts only operands whose (trailing) template rows and innermost schedule rows span the
   same rational row space: every row of one side is a rational combination (d * row = m . Other, d <> 0)
   of the rows of the other side. *)
Theorem C16_matches_sound :
  forall T s, matches T s = true ->
    Forall2 (fun tp sp => (pndims tp <= pndims sp)%nat /\
                          Forall (span_cert (s_rows tp sp)) (t_rows tp sp) /\
                          Forall (span_cert (t_rows tp sp)) (s_rows tp sp)) T s.
Proof. exact matches_sound. Qed.
Print Assumptions C16_matches_sound.

Theorem C16_rowspace_eqb_sound :
  forall A B, rowspace_eqb A B = true -> Forall (span_cert B) A /\ Forall (span_cert A) B.
Proof. exact rowspace_eqb_sound. Qed.
Print Assumptions C16_rowspace_eqb_sound.

(* reading of a certificate, coordinate by coordinate *)
Theorem C16_span_cert_coordinates :
  forall B a, Forall (fun r => length r = length a) B -> span_cert B a ->
    exists d m, d <> 0 /\ forall j, d * nth j a 0 = lincomb j m B.
Proof. exact span_cert_coordinates. Qed.
Print Assumptions C16_span_cert_coordinates.

(* The model's elimination maintains x = d*a - m.B with d <> 0 (induction over the basis and over the rows), so
   every certificate it produces is valid: acceptance is exactly "the elimination reduces the row to zero". *)
Theorem C16_elimination_certificates_valid :
  forall B n, Forall (fun r => length r = n) B -> forall a d m, length a = n ->
    find_coeffs B a = Some (d, m) -> cert_ok B a d m = true.
Proof. exact find_coeffs_valid. Qed.
Print Assumptions C16_elimination_certificates_valid.

Theorem C16_row_in_span_iff :
  forall B n, Forall (fun r => length r = n) B -> forall a, length a = n ->
    (row_in_span B a = true <-> find_coeffs B a <> None).
Proof. exact row_in_span_iff. Qed.
Print Assumptions C16_row_in_span_iff.

(* COMPLETENESS: a row that is a rational combination of the rows of B is always reduced to zero by the
   elimination (echelon invariant of the basis + triangularity), hence accepted. *)
Theorem C16_row_in_span_complete :
  forall B n, Forall (fun r => length r = n) B -> forall a, length a = n -> span_cert B a -> row_in_span B a = true.
Proof. exact row_in_span_complete. Qed.
Print Assumptions C16_row_in_span_complete.

(* The matcher's comparison accepts EXACTLY the pairs of matrices with the same rational row space. *)
Theorem C16_rowspace_eqb_iff :
  forall A B n, Forall (fun r => length r = n) A -> Forall (fun r => length r = n) B ->
    (rowspace_eqb A B = true <-> Forall (span_cert B) A /\ Forall (span_cert A) B).
Proof. exact rowspace_eqb_iff. Qed.
Print Assumptions C16_rowspace_eqb_iff.

(* F-C16-2 (class large_entries_float_tolerance): the exact model REJECTS the witness pair -- the rows (400,399) and
   (399,398) are not proportional (d * 400 = m * 399 and d * 399 = m * 398 force d = 0) -- while the float SVD
   comparison of the implementation accepts it (replayed on the real code by every run).  So model <> code inside the
   class; the theorems above are about the exact model, which is what "spans the same index subspace" means. *)
Example C16_float_tolerance_refuted :
  let A := [[400; 399]] in let B := [[399; 398]] in
  rowspace_eqb A B = false /\ large_entries_float_tolerance A B = true /\
  (forall d m, d * 400 = m * 399 -> d * 399 = m * 398 -> d = 0) /\
  (* the class is not everything: the boundary pair with entries <= 300 is outside, and the model rejects it too *)
  large_entries_float_tolerance [[300; 299]] [[299; 298]] = false /\ rowspace_eqb [[300; 299]] [[299; 298]] = false.
Proof.
  cbv zeta. split; [vm_compute; reflexivity|]. split; [vm_compute; reflexivity|].
  split; [intros d m H1 H2; lia|]. split; vm_compute; reflexivity.
Qed.
Print Assumptions C16_float_tolerance_refuted.

Example C16_rowspace_nonvacuous :
  rowspace_eqb [[1; 0; 0]; [0; 1; 0]] [[1; 1; 0]; [1; -1; 0]; [2; 0; 0]] = true /\
  rowspace_eqb [[1; 0; 0]; [0; 1; 0]] [[1; 1; 0]; [1; -1; 1]] = false.
Proof. vm_compute. auto. Qed.
Print Assumptions C16_rowspace_nonvacuous.

(* What the requested checks decide.  Pure output stationarity: among the dims outside the template, the
   columns that are nonzero in the output (last) operand all come before the all-zero (reduction) columns. *)
Theorem C16_pure_output_stationary_spec :
  forall T s, is_pure_output_stationary T s = true <->
    exists a b, map col_nonzero (outer_cols (tndims T) (pcols (last s (mkPat [] [] [])))) = repeat true a ++ repeat false b.
Proof. exact pure_output_stationary_spec. Qed.
Print Assumptions C16_pure_output_stationary_spec.

(* Memory flexibility (access granularity): when temporal dims exist, every (operand, element size) pair has a
   result row with a spatial stride of exactly 1 whose temporal strides are all multiples of ceil(8/size). *)
Theorem C16_memory_flexible_spec :
  forall sizes T s n, c_ndims s = Some n -> (tndims T < n)%nat ->
    (is_memory_flexible_enough sizes T s = true <->
     forall p size, In (p, size) (combine s sizes) ->
       exists i, (i < length (pb p))%nat /\ row_flexible (bank_ratio size) (tndims T) (pcols p) i = true).
Proof. exact memory_flexible_spec. Qed.
Print Assumptions C16_memory_flexible_spec.

Theorem C16_row_flexible_spec :
  forall q m cols i, row_flexible q m cols i = true <->
    (forall c, In c (outer_cols m cols) -> nth i c 0 mod q = 0) /\ (exists c, In c (inner_cols m cols) /\ nth i c 0 = 1).
Proof. exact row_flexible_spec. Qed.
Print Assumptions C16_row_flexible_spec.

(* non-vacuity: test_tiling_1o_1d2 -- bound 8 on the template (None,2,2) yields the (2,2,2) schedule, which
   has as many dims as the template, differs from the input and satisfies the post-condition *)
Example C16_nonvacuous :
  let T : tmpl := [mkPat [None; Some 2; Some 2] [[4]; [2]; [1]] [0]] in
  let s : sched := [mkPat [8] [[1]] [0]] in
  let r : sched := [mkPat [2; 2; 2] [[4]; [2]; [1]] [0]] in
  wf_schedb s = true /\ wf_tmplb T = true /\
  In r (fst (backtrack matches [is_pure_output_stationary] T s)) /\
  fewer_dims_than_template T r = false /\ fitsb matches [is_pure_output_stationary] T r = true.
Proof. vm_compute. repeat split; auto. Qed.
Print Assumptions C16_nonvacuous.
