(* C12 — materialised casts deliver the right data to every consumer.
   Only theorem statements closed by `exact` (or a one-line combination), each followed by
   Print Assumptions; plus non-vacuity examples and the refutation witnesses of the findings. *)
From Snax Require Import Base.Prelude Model.Tsl Model.C12Const Model.C12Casts Proofs.TslProofs
  Proofs.C05DigitProofs Proofs.C05MainProofs Proofs.C05ExtraProofs Proofs.C12ConstProofs Proofs.C12CastsProofs Proofs.C12CoherenceProofs Proofs.C12NestedProofs Proofs.C12ComposeProofs Proofs.C12DenseProofs Proofs.C12LiftProofs Proofs.C12WfProofs.

(* (i) re-laid-out constants: for every static layout with positive bounds that satisfies the
   sortedness precondition (checked to follow from is_dense by the correspondence run), any contents
   and every logical index, the transformed constant holds at the address the layout assigns the
   element that the original holds at the index (old.reshape(tile bounds)[digits idx]). *)
Theorem C12_transform_constant_correct :
  forall (L : layout) (old new : list Z) (idx : list Z),
    layout_okb L = true -> mixed_radix_sorted L = true -> transform_constant old L = Some (Some new) ->
    In idx (row_major (shape_of L)) ->
    nth (Z.to_nat (affine_map_eval L idx)) new 0 =
    nth (Z.to_nat (dotT (map ftri (with_rm (flat_static L))) (digits (tstrides L) idx))) old 0.
Proof.
  intros L old new idx H. apply layout_okb_ok in H. exact (transform_constant_correct L old new idx H).
Qed.
Print Assumptions C12_transform_constant_correct.

(* final form: the element at ROW-MAJOR position idx of the original constant sits at the address the new
   layout assigns to idx *)
Theorem C12_transform_constant_row_major :
  forall (L : layout) (old new : list Z) (idx : list Z),
    layout_okb L = true -> mixed_radix_sorted L = true -> transform_constant old L = Some (Some new) ->
    In idx (row_major (shape_of L)) ->
    nth (Z.to_nat (affine_map_eval L idx)) new 0 = nth (Z.to_nat (rm_addr (shape_of L) idx)) old 0.
Proof.
  intros L old new idx H. apply layout_okb_ok in H. exact (transform_constant_row_major L old new idx H).
Qed.
Print Assumptions C12_transform_constant_row_major.

(* the same on the flat strides, for all multi-indices of the reshaped array *)
Theorem C12_relayout_correct :
  forall (l : list (Z * Z)) (old ds : list Z),
    Forall (fun sb => 0 < snd sb) l -> mr_sorted (axes l) = true -> valid ds (map ftri (with_rm l)) ->
    nth (Z.to_nat (dotS (map ftri (with_rm l)) ds)) (relayout l old) 0 =
    nth (Z.to_nat (dotT (map ftri (with_rm l)) ds)) old 0.
Proof. exact relayout_correct. Qed.
Print Assumptions C12_relayout_correct.

Theorem C12_transpose_tuple_correct :
  forall arr cols rows i j, 0 <= i < rows -> 0 <= j < cols ->
    nth (Z.to_nat (i * cols + j)) (transpose_tuple arr cols rows) 0 = nth (Z.to_nat (j * rows + i)) arr 0.
Proof. exact transpose_tuple_correct. Qed.
Print Assumptions C12_transpose_tuple_correct.

(* non-vacuity: the 4x4 layout of the repo's own test, transformed as the test expects *)
Example C12_constant_nonvacuous :
  let L := mkLayout [[(Some 8, Some 2); (Some 2, Some 2)]; [(Some 4, Some 2); (Some 1, Some 2)]] (Some 0) in
  layout_okb L = true /\ mixed_radix_sorted L = true /\
  transform_constant [0;1;2;3;4;5;6;7;8;9;10;11;12;13;14;15] L =
    Some (Some [0;1;4;5;2;3;6;7;8;9;12;13;10;11;14;15]).
Proof. repeat split; reflexivity. Qed.
Print Assumptions C12_constant_nonvacuous.

(* (iii) set-memory-space: every linalg/dart operand ends in L1; signatures get/keep L3 *)
Theorem C12_operands_local : forall m, operand_space m = ML1.
Proof. exact operand_space_L1. Qed.
Print Assumptions C12_operands_local.

Theorem C12_signature_L3 : func_space ML3 = ML3 /\ func_space MNone = ML3.
Proof. exact func_space_keeps_L3. Qed.
Print Assumptions C12_signature_L3.

(* (ii) one application of the REPAIRED RealizeMemrefCasts (fix: commits for F22 and F23) on a flat
   block, from ANY state and in any context that satisfies the stated alias facts, for ANY order of
   readers, writers and accumulating users of the cast: if no other name of the source buffer is used
   inside the block, every operation observes what it observed in the original program and every buffer
   except the new allocation ends with the same contents. *)
Theorem C12_realize_coherent :
  forall (trips : nat -> nat) (d src td ts s0 : nat) (others : list nat) (post : list item) (s : state),
    (forall v, v <> d -> alias s v <> d) -> alias s src = alias s s0 ->
    In (alias s s0) others -> In s0 others -> ~ In d others ->
    (forall v, alias s v = alias s s0 -> In v others) ->
    safe_block d others post = true ->
    let t := exec_list trips (ICast d src td ts :: post) s in
    let t' := exec_list trips (IAlloc d :: fst (ins_list d s0 false false post)) s in
    trace t = trace t' /\ forall b, b <> d -> memo t b = memo t' b.
Proof. exact realize_coherent. Qed.
Print Assumptions C12_realize_coherent.

Example C12_realize_nonvacuous :
  safe_block 2%nat [0%nat] [IOp 0 [(2, KOut)]; IOp 1 [(2, KIn); (3, KOut)]; IOp 2 [(2, KOut)]]%nat = true /\
  fst (ins_list 2%nat 0%nat false false [IOp 0 [(2, KOut)]; IOp 1 [(2, KIn); (3, KOut)]; IOp 2 [(2, KOut)]]%nat) =
    [IOp 0 [(2, KOut)]; IOp 1 [(2, KIn); (3, KOut)]; IOp 2 [(2, KOut)]; ICopy 2 0]%nat /\
  safe_block 2%nat [0%nat] [IOp 0 [(2, KIn); (3, KOut)]; IOp 1 [(3, KIn); (2, KOutAcc)]]%nat = true /\
  fst (ins_list 2%nat 0%nat false false [IOp 0 [(2, KIn); (3, KOut)]; IOp 1 [(3, KIn); (2, KOutAcc)]]%nat) =
    [ICopy 0 2; IOp 0 [(2, KIn); (3, KOut)]; IOp 1 [(3, KIn); (2, KOutAcc)]; ICopy 2 0]%nat.
Proof. exact realize_coherent_nonvacuous. Qed.
Print Assumptions C12_realize_nonvacuous.

(* the hypotheses of C12_realize_coherent are satisfiable: initial state (every value names its own
   buffer), cast 2 := cast 0, then reader / accumulating writer / writer / reader of the cast *)
Example C12_realize_applies :
  let post := [IOp 0 [(2, KIn); (3, KOut)]; IOp 1 [(3, KIn); (2, KOutAcc)]; IOp 2 [(2, KOut)]; IOp 3 [(2, KIn); (4, KOut)]]%nat in
  let t := exec_list (fun _ => 1%nat) (ICast 2 0 1 0 :: post) init_state in
  let t' := exec_list (fun _ => 1%nat) (IAlloc 2 :: fst (ins_list 2 0 false false post)) init_state in
  trace t = trace t' /\ forall b, b <> 2%nat -> memo t b = memo t' b.
Proof. exact realize_coherent_applies. Qed.
Print Assumptions C12_realize_applies.

(* (ii) the former refutation witnesses of findings F22 (write, read, write through one shared cast) and
   F23 (accumulating output): the model of the repaired pass emits no copy-in after a first writer / the
   copy-in for the accumulating output, and both programs now run coherently *)
Theorem C12_F22_repaired :
  trace (run (realize_all w_order)) = trace (run w_order) /\
  (forall b, In b [0; 1]%nat -> memo (run (realize_all w_order)) b = memo (run w_order) b).
Proof. exact (proj2 w_order_repaired). Qed.
Print Assumptions C12_F22_repaired.

Theorem C12_F23_repaired :
  trace (run (realize_all w_acc)) = trace (run w_acc) /\
  (forall b, In b [0; 1]%nat -> memo (run (realize_all w_acc)) b = memo (run w_acc) b).
Proof. exact (proj2 w_acc_repaired). Qed.
Print Assumptions C12_F23_repaired.

(* (ii) outside the flat-block region of C12_realize_coherent: finding F30 (class bad_nested_in): the first
   use of a cast is a reader inside a loop, the loop runs zero times, the reader after the loop observes
   the uninitialised buffer *)
Theorem C12_copy_in_inside_loop_refuted :
  bad_nested_in w_copy_in_loop = true /\ bad_nested w_copy_in_loop = false /\
  realize_all w_copy_in_loop =
    [IAlloc 2; IAlloc 3; IAlloc 4; ILoop 0 [ICopy 0 3; IOp 1 [(3, KIn); (2, KOut)]];
     IOp 2 [(3, KIn); (4, KOut)]; ICopy 4 1]%nat /\
  trace (exec_list (fun _ => 0%nat) (realize_all w_copy_in_loop) init_state) <>
  trace (exec_list (fun _ => 0%nat) w_copy_in_loop init_state).
Proof. exact copy_in_inside_loop_refuted. Qed.
Print Assumptions C12_copy_in_inside_loop_refuted.


(* (ii) lifted to uses NESTED in scf.for loops below the cast's block (any nesting depth, every trip count
   of every loop, zero included): outside the finding classes F26 (an output use inside a loop) and F30
   (the first use is a reader inside a loop) -- `safe_nested` = the items name no other alias of the
   source, negb loop_out, negb first_in_loop -- one application of the pattern preserves every
   operation's observations and the final contents of every buffer except the new allocation. *)
Theorem C12_realize_coherent_nested :
  forall (trips : nat -> nat) (d src td ts s0 : nat) (others : list nat) (post : list item) (s : state),
    (forall v, v <> d -> alias s v <> d) -> alias s src = alias s s0 ->
    In (alias s s0) others -> In s0 others -> ~ In d others ->
    (forall v, alias s v = alias s s0 -> In v others) ->
    safe_nested d others post = true ->
    let t := exec_list trips (ICast d src td ts :: post) s in
    let t' := exec_list trips (IAlloc d :: fst (ins_list d s0 false false post)) s in
    trace t = trace t' /\ forall b, b <> d -> memo t b = memo t' b.
Proof. exact realize_coherent_nested. Qed.
Print Assumptions C12_realize_coherent_nested.

Example C12_realize_nested_nonvacuous :
  let post := [IOp 0 [(2, KOut)];
               ILoop 7 [IOp 1 [(2, KIn); (3, KOut)]; ILoop 8 [IOp 2 [(2, KIn); (4, KOut)]]];
               IOp 3 [(2, KInOut)]]%nat in
  safe_nested 2%nat [0%nat] post = true /\
  fst (ins_list 2%nat 0%nat false false post) = post ++ [ICopy 2 0]%nat.
Proof. exact realize_nested_nonvacuous. Qed.
Print Assumptions C12_realize_nested_nonvacuous.

(* (ii) from the block to the program: one application of the pattern by the walker (rz_list) to a cast of
   the function's top-level block gives a program with the same observations of every operation and the
   same final contents of every buffer except the new allocation, for EVERY assignment of trip counts.
   The facts about the state in front of the cast are hypotheses on that state (C12_realize_top_applies
   shows them satisfied).  Partial: casts inside loop bodies are not lifted (correspondence/search only). *)
Theorem C12_realize_top_equiv :
  forall (p pre post : list item) (d src td ts s0 ts0 : nat) (others : list nat),
    p = pre ++ ICast d src td ts :: post ->
    ~ In d (casts pre) -> used d post = true ->
    chain_source 64 p src ts = (s0, ts0) -> ts0 <> td ->
    In s0 others -> ~ In d others ->
    (forall trips, let s := exec_list trips pre init_state in
       (forall v, v <> d -> alias s v <> d) /\ alias s src = alias s s0 /\ In (alias s s0) others /\
       (forall v, alias s v = alias s s0 -> In v others)) ->
    safe_nested d others post = true ->
    prog_equiv [d] p (rz_list p d p).
Proof. exact realize_top_equiv. Qed.
Print Assumptions C12_realize_top_equiv.

(* whole-pass composition: ANY finite sequence of equivalent realisations is an equivalence (the exception
   set is the union of the new allocations); instantiated to the walker's worklist realize_all *)
Theorem C12_fold_equiv :
  forall (f : list item -> nat -> list item) cs p,
    (forall cs1 c cs2, cs = cs1 ++ c :: cs2 -> let q := fold_left f cs1 p in prog_equiv [c] q (f q c)) ->
    prog_equiv cs p (fold_left f cs p).
Proof. exact fold_equiv. Qed.
Print Assumptions C12_fold_equiv.

Theorem C12_realize_all_equiv :
  forall p,
    (forall cs1 c cs2, rev (casts p) = cs1 ++ c :: cs2 ->
       let q := fold_left (fun p c => rz_list p c p) cs1 p in prog_equiv [c] q (rz_list q c q)) ->
    prog_equiv (rev (casts p)) p (realize_all p).
Proof. exact realize_all_equiv. Qed.
Print Assumptions C12_realize_all_equiv.

Example C12_realize_top_applies :
  let p := [ICast 2 0 1 0; ICast 3 1 1 0; IOp 0 [(2, KIn); (3, KOut)]; IOp 9 []]%nat in
  prog_equiv [3%nat] p (rz_list p 3%nat p) /\
  rz_list p 3%nat p = [ICast 2 0 1 0; IAlloc 3; IOp 0 [(2, KIn); (3, KOut)]; ICopy 3 1; IOp 9 []]%nat.
Proof. exact realize_top_applies. Qed.
Print Assumptions C12_realize_top_applies.

(* (i) is_dense implies the sortedness precondition, for layouts with positive steps: the addresses of a
   dense layout are exactly [0, N) with unique digit vectors; in ascending step order each stride with
   bound > 1 must have the product of the bounds before it as its step (the value P is representable, so
   the step is <= P; a smaller step would be represented twice). *)
Theorem C12_dense_mixed_radix_sorted :
  forall L, layout_okb L = true -> forallb (fun sb0 => 0 <? fst sb0) (flat_static L) = true ->
    is_dense L = true -> mixed_radix_sorted L = true.
Proof. intros L H. apply layout_okb_ok in H. exact (dense_mixed_radix_sorted L H). Qed.
Print Assumptions C12_dense_mixed_radix_sorted.

(* transform_constant, without any precondition beyond what the code itself tests (is_dense) and positive
   steps: for EVERY dense static layout with positive steps, all contents and all indices, the constant is
   transformed and new[addr_L idx] = old[row_major idx]. *)
Theorem C12_dense_transform_constant_correct :
  forall (L : layout) (old : list Z),
    layout_okb L = true -> forallb (fun sb0 => 0 <? fst sb0) (flat_static L) = true -> is_dense L = true ->
    exists new, transform_constant old L = Some (Some new) /\
      forall idx, In idx (row_major (shape_of L)) ->
        nth (Z.to_nat (affine_map_eval L idx)) new 0 = nth (Z.to_nat (rm_addr (shape_of L) idx)) old 0.
Proof. intros L old H. apply layout_okb_ok in H. exact (dense_transform_constant_correct L old H). Qed.
Print Assumptions C12_dense_transform_constant_correct.

Example C12_dense_nonvacuous :
  let L := mkLayout [[(Some 8, Some 2); (Some 2, Some 2)]; [(Some 4, Some 2); (Some 1, Some 2)]] (Some 0) in
  layout_okb L = true /\ forallb (fun sb0 => 0 <? fst sb0) (flat_static L) = true /\ is_dense L = true.
Proof. repeat split; reflexivity. Qed.
Print Assumptions C12_dense_nonvacuous.

(* (ii) two-state form of the block theorem: the two runs may enter the block in states that differ at the
   name d and at the buffer d (Pre), which is what happens when the cast sits inside a loop body and every
   iteration re-executes the allocation; the realised block re-establishes Pre. *)
Theorem C12_realize_block2 :
  forall (trips : nat -> nat) (d src td ts s0 : nat) (others : list nat) (post : list item) (s s' : state),
    Pre d s s' -> alias s src = alias s s0 ->
    In (alias s s0) others -> In s0 others -> ~ In d others ->
    (forall v, v <> d -> alias s v = alias s s0 -> In v others) ->
    safe_nested d others post = true ->
    Pre d (exec_list trips (ICast d src td ts :: post) s)
          (exec_list trips (IAlloc d :: fst (ins_list d s0 false false post)) s').
Proof. exact realize_block2. Qed.
Print Assumptions C12_realize_block2.

(* (ii) program level with the cast ANYWHERE, in particular inside loop bodies at any depth: if the cast is
   followed by a Safe block, every other item does not mention d (frame lemma), and a state invariant Inv
   of the ORIGINAL run (preserved by the items, providing the alias facts about the source buffer at the
   cast) is given, the program rewritten by the walker (rz_list) is equivalent for every assignment of
   trip counts.  `lift_ok` is the inductive description of these positions. *)
Theorem C12_realize_anywhere_equiv :
  forall (p : list item) (d s0 : nat) (others : list nat) (Inv : state -> Prop),
    In s0 others -> ~ In d others ->
    (forall s, Inv s -> In (alias s s0) others /\ (forall v, v <> d -> alias s v = alias s s0 -> In v others)) ->
    Inv init_state -> (forall trips : nat -> nat, lift_ok trips p d s0 others Inv p) ->
    prog_equiv [d] p (rz_list p d p).
Proof. exact realize_anywhere_equiv. Qed.
Print Assumptions C12_realize_anywhere_equiv.

Example C12_realize_in_loop_applies :
  let p := [ILoop 7 [ICast 2 0 1 0; IOp 0 [(2, KInOut)]]; IOp 9 [(0, KRet)]]%nat in
  prog_equiv [2%nat] p (rz_list p 2%nat p) /\
  rz_list p 2%nat p = [ILoop 7 [IAlloc 2; ICopy 0 2; IOp 0 [(2, KInOut)]; ICopy 2 0]; IOp 9 [(0, KRet)]]%nat.
Proof. exact realize_in_loop_applies. Qed.
Print Assumptions C12_realize_in_loop_applies.

(* (ii) the hypotheses of the lift and of the composition DERIVED from decidable checks of the model
   (Model/C12Casts.v: iwf = every cast casts a root and is the recorded definition of its result; lokb = the
   cast is followed by a Safe block, possibly inside loops, and nothing else mentions it; step_okb,
   steps_okb), evaluated by the correspondence run on every generated program:
   one step of the walker, and the whole pass realize_all, preserve every operation's observations and the
   final contents of every buffer except the new allocations, for every assignment of trip counts.
   Partial: the checks are sufficient, not necessary -- they reject chains of casts, two casts of one
   source in one block (the copies of the later one name the source inside the earlier one's block), and
   everything inside the finding classes F24-F26/F30; such programs stay correspondence/search-only. *)
Theorem C12_step_ok_equiv :
  forall q c, step_okb q c = true -> prog_equiv [c] q (rz_list q c q).
Proof. exact step_ok_equiv. Qed.
Print Assumptions C12_step_ok_equiv.

Theorem C12_all_steps_equiv :
  forall p, all_steps_okb p = true -> prog_equiv (rev (casts p)) p (realize_all p).
Proof. exact all_steps_equiv. Qed.
Print Assumptions C12_all_steps_equiv.

Example C12_all_steps_applies :
  let p := [ICast 2 0 1 0; ICast 3 1 1 0; IOp 0 [(2, KIn); (3, KOut)];
            ILoop 7 [ICast 4 5 1 0; IOp 1 [(4, KInOut)]]; IOp 9 []]%nat in
  all_steps_okb p = true /\
  realize_all p = [IAlloc 2; IAlloc 3; ICopy 0 2; IOp 0 [(2, KIn); (3, KOut)]; ICopy 3 1;
                   ILoop 7 [IAlloc 4; ICopy 5 4; IOp 1 [(4, KInOut)]; ICopy 4 5]; IOp 9 []]%nat.
Proof. exact all_steps_applies. Qed.
Print Assumptions C12_all_steps_applies.
