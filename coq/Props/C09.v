(* C09 — chosen memory layouts are one-to-one on the operand.
   Only theorem statements closed by `exact`, each followed by Print Assumptions. *)
From Coq Require Import Znumtheory.
From Snax Require Import Base.Prelude Model.Tsl Proofs.TslProofs Model.C09SetLayout Proofs.C09SetLayoutProofs.

(* ensure_access_granularity never decreases the stride (so padding only increases strides), adds less
   than 64, and returns a multiple of the regime's granularity unless the stride is the unit stride. *)
Theorem C09_granularity_monotone : forall spatial bw cs sdim,
  let r := ensure_access_granularity spatial bw cs sdim in
  cs <= r < cs + 64 /\
  (cs <> 1 -> (gran_of spatial bw sdim | r)) /\
  (cs = 1 \/ (gran_of spatial bw sdim | cs) -> r = cs).
Proof. exact granularity_monotone. Qed.
Print Assumptions C09_granularity_monotone.

(* For every schedule with positive bounds (any dimension order, any coefficients, reduction and broadcast
   dimensions), every positive operand shape, element width, template rank and both modes: the layout the
   pass produces maps distinct indices of its index box to distinct addresses. *)
Theorem C09_layout_injective_own : forall tiled spatial bw s shape, wf_inputb s shape = true ->
  let L := assign_layout tiled spatial bw s shape in
  forall i j, box (shape_of L) i -> box (shape_of L) j ->
    affine_map_eval L i = affine_map_eval L j -> i = j.
Proof. intros tiled spatial bw s shape H. exact (layout_injective_own tiled spatial bw s shape (proj1 (wf_inputb_ok s shape) H)). Qed.
Print Assumptions C09_layout_injective_own.

(* the running product of tile bounds always divides the operand dimension (the floor never rounds) *)
Theorem C09_layout_divides : forall tiled spatial bw s shape, wf_inputb s shape = true ->
  Forall2 (fun p n => (p | n)) (shape_of (assign_layout tiled spatial bw s shape)) shape.
Proof. intros tiled spatial bw s shape H. exact (layout_divides tiled spatial bw s shape (proj1 (wf_inputb_ok s shape) H)). Qed.
Print Assumptions C09_layout_divides.

(* non-vacuity: operand 0 of the convolution in set-memory-layout.mlir (tiled): 
   [1] -> (5184), [2, 8] -> (2592, 1), [18] -> (144), [18] -> (8) *)
Example C09_nonvacuous :
  let s := mkSched [1; 2; 16; 2; 2; 3; 3; 8; 8; 8]
             [[1;0;0;0;0;0;0;0;0;0]; [0;0;0;0;8;0;0;0;0;1]; [0;0;1;0;0;1;0;0;0;0]; [0;0;0;8;0;0;1;1;0;0]] in
  wf_inputb s [1; 16; 18; 18] = true /\
  assign_layout true 3 8 s [1; 16; 18; 18] =
    mkLayout [[(Some 5184, Some 1)]; [(Some 2592, Some 2); (Some 1, Some 8)]; [(Some 144, Some 18)]; [(Some 8, Some 18)]] (Some 0).
Proof. split; reflexivity. Qed.
Print Assumptions C09_nonvacuous.
