(* C09 — chosen memory layouts are one-to-one on the operand.
   Only theorem statements closed by `exact`, each followed by Print Assumptions. *)
From Coq Require Import Znumtheory.
From Snax Require Import Base.Prelude Model.Tsl Proofs.TslProofs Model.C09SetLayout Proofs.C09SetLayoutProofs.

(* ensure_access_granularity never decreases the stride (so padding only increases strides), adds less
   than 64, and returns a multiple of the regime's granularity unless the stride is the unit stride. *)
Theorem C09_granularity_monotone : forall spatial bw cs sdim,
  let r := ensure_access_granularity spatial bw cs sdim in
  cs <= r < cs + 64 /\
  (cs <> 1 -> (gran_of spatial bw sdim | r)) /\
  (cs = 1 \/ (gran_of spatial bw sdim | cs) -> r = cs).
Proof. exact granularity_monotone. Qed.
Print Assumptions C09_granularity_monotone.

(* layout_covers (about the repaired code): for every schedule with positive bounds (any dimension order, any
   coefficients, reduction and broadcast dimensions, bounds not dividing the shape, partially or not at all
   accessed dimensions), every positive operand shape, element width, template rank and both modes, the
   tile bounds of every dimension multiply to the operand dimension. *)
Theorem C09_layout_covers : forall tiled spatial bw s shape, wf_inputb s shape = true ->
  shape_of (assign_layout tiled spatial bw s shape) = shape.
Proof. intros tiled spatial bw s shape H. exact (layout_covers tiled spatial bw s shape (proj1 (wf_inputb_ok s shape) H)). Qed.
Print Assumptions C09_layout_covers.

(* layout_injective: distinct elements of the operand get distinct addresses (same quantification) *)
Theorem C09_layout_injective : forall tiled spatial bw s shape, wf_inputb s shape = true ->
  let L := assign_layout tiled spatial bw s shape in
  forall i j, box shape i -> box shape j -> affine_map_eval L i = affine_map_eval L j -> i = j.
Proof. intros tiled spatial bw s shape H. exact (layout_injective tiled spatial bw s shape (proj1 (wf_inputb_ok s shape) H)). Qed.
Print Assumptions C09_layout_injective.

(* the whole property in one statement: covers the shape, offset 0, non-negative addresses, all_values()
   without duplicates, one-to-one on the operand's index box *)
Theorem C09_layout_safe : forall tiled spatial bw s shape, wf_inputb s shape = true ->
  let L := assign_layout tiled spatial bw s shape in
  shape_of L = shape /\ offset L = Some 0 /\ NoDup (all_values L) /\
  (forall i, box shape i -> 0 <= affine_map_eval L i) /\
  forall i j, box shape i -> box shape j -> affine_map_eval L i = affine_map_eval L j -> i = j.
Proof.
  intros tiled spatial bw s shape H L. pose proof (proj1 (wf_inputb_ok s shape) H) as Hwf.
  split; [exact (layout_covers tiled spatial bw s shape Hwf)|]. split; [reflexivity|].
  split; [exact (layout_no_self_overlap tiled spatial bw s shape Hwf)|].
  split; [exact (proj2 (layout_addr_nonneg tiled spatial bw s shape Hwf))|].
  exact (layout_injective tiled spatial bw s shape Hwf).
Qed.
Print Assumptions C09_layout_safe.

(* layout_covers_refuted for the fill-up BEFORE the repair (confirmed on the real pass, then repaired):
   memref<8x4xi32>, rows (2*d1 + d2, d0), bounds (4,2,2), snax_alu, tiled gave [2, 2] -> (16, 1), [4] -> (32):
   tile bounds 4 for a dimension of 8, and elements (4,0) and (0,1) of the operand shared address 32 *)
Theorem C09_layout_covers_refuted_before_fix : exists tiled spatial bw s shape i j,
  wf_inputb s shape = true /\
  covers shape (assign_layout_old tiled spatial bw s shape) = false /\
  box shape i /\ box shape j /\ i <> j /\
  affine_map_eval (assign_layout_old tiled spatial bw s shape) i = affine_map_eval (assign_layout_old tiled spatial bw s shape) j.
Proof.
  exists true, 1, 32, (mkSched [4; 2; 2] [[0; 2; 1]; [1; 0; 0]]), [8; 4], [4; 0], [0; 1].
  repeat split; try reflexivity; try (repeat constructor; lia); discriminate.
Qed.
Print Assumptions C09_layout_covers_refuted_before_fix.

(* the same inputs with the repaired code: covered *)
Example C09_witness_after_fix :
  assign_layout true 1 32 (mkSched [4; 2; 2] [[0; 2; 1]; [1; 0; 0]]) [8; 4] =
    mkLayout [[(Some 128, Some 2); (Some 16, Some 2); (Some 1, Some 2)]; [(Some 32, Some 4)]] (Some 0) /\
  assign_layout false 1 16 (mkSched [4] [[1]; [1]]) [4; 4] = mkLayout [[(Some 1, Some 4)]; [(Some 4, Some 4)]] (Some 0).
Proof. split; reflexivity. Qed.
Print Assumptions C09_witness_after_fix.

(* finding F-C09-2: a non-positive (dynamic = xDSL's DYNAMIC_INDEX, or zero) dimension is outside the domain:
   the produced "layout" has a non-positive bound *)
Example C09_nonpositive_shape_refuted :
  let s := mkSched [4; 4] [[1; 0]; [0; 1]] in
  wf_inputb s [-9223372036854775808; 4] = false /\
  assign_layout false 1 32 s [-9223372036854775808; 4] =
    mkLayout [[(Some 16, Some (-9223372036854775808))]; [(Some 1, Some 4)]] (Some 0).
Proof. split; reflexivity. Qed.
Print Assumptions C09_nonpositive_shape_refuted.

(* explicit_layout_untouched: when any operand carries a TSL layout the op is not rewritten at all;
   otherwise every operand gets the layout of the model *)
Theorem C09_explicit_layout_untouched : forall tiled spatial bounds ops,
  (exists o, In o ops /\ o_layout o <> None) -> rewrite_schedule tiled spatial bounds ops = None.
Proof. exact explicit_layout_untouched. Qed.
Print Assumptions C09_explicit_layout_untouched.

Theorem C09_rewrite_schedule_all : forall tiled spatial bounds ops,
  (forall o, In o ops -> o_layout o = None) ->
  rewrite_schedule tiled spatial bounds ops =
    Some (map (fun o => assign_layout tiled spatial (o_bw o) (mkSched bounds (o_rows o)) (o_shape o)) ops).
Proof. exact rewrite_schedule_all. Qed.
Print Assumptions C09_rewrite_schedule_all.

(* non-vacuity: operand 0 of the convolution in set-memory-layout.mlir (tiled):
   [1] -> (5184), [2, 8] -> (2592, 1), [18] -> (144), [18] -> (8) *)
Example C09_nonvacuous :
  let s := mkSched [1; 2; 16; 2; 2; 3; 3; 8; 8; 8]
             [[1;0;0;0;0;0;0;0;0;0]; [0;0;0;0;8;0;0;0;0;1]; [0;0;1;0;0;1;0;0;0;0]; [0;0;0;8;0;0;1;1;0;0]] in
  wf_inputb s [1; 16; 18; 18] = true /\
  assign_layout true 3 8 s [1; 16; 18; 18] =
    mkLayout [[(Some 5184, Some 1)]; [(Some 2592, Some 2); (Some 1, Some 8)]; [(Some 144, Some 18)]; [(Some 8, Some 18)]] (Some 0).
Proof. split; reflexivity. Qed.
Print Assumptions C09_nonvacuous.
