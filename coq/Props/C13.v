(* C13 — cross-core dependencies are separated by a cluster barrier.
   Only theorem statements closed by `exact`, each followed by Print Assumptions. *)
From Snax Require Import Base.Prelude Model.MultiCore Model.C13SyncBarrier Model.C14Dispatch
  Proofs.MultiCoreCommute Proofs.C13SyncBarrierProofs.

(* For ALL modules (any nesting, existing barriers, deallocs): whenever processing op x puts op t
   into ops_to_sync and t comes later in the walk, a barrier (existing or inserted) lies between
   them in walk order. *)
Theorem C13_barrier_between_flat :
  forall flat l1 x l2 t l3,
  flat = l1 ++ x :: l2 ++ t :: l3 -> In (oi_id t) (adds flat x) ->
  (exists y, In y l2 /\ is_sync y = true) \/ (exists y, In y (l2 ++ [t]) /\ In (oi_id y) (barriers flat)).
Proof. exact barrier_between_flat. Qed.
Print Assumptions C13_barrier_between_flat.

(* PARTIAL (class SameLevel: x .. u is a straight-line segment of one block — direct children of the
   block or ops inside the body of a linalg.generic / streaming region; values shared as SSA
   values, not through views).  Full statement: for every pair of ops on different cores that
   produce/consume the same buffer, every execution path between them contains a barrier.
   Proved: the output holds, between x and u, a straight-line segment of that block containing a
   barrier of that block (the only path from x to u). *)
Theorem C13_barrier_between_ssa_deps_partial :
  forall flat l1 x l2 u l3,
  flat = l1 ++ x :: l2 ++ u :: l3 -> must_sync x u = true ->
  seg_ok flat (oi_parent x) (l2 ++ [u]) = true ->
  let seg := out_between (barriers flat) l2 u in
  (exists pre post, run_pass flat = pre ++ x :: seg ++ u :: post) /\
  (forall z, In z seg -> In z l2 \/ is_sync z = true) /\
  (exists s, In s seg /\ is_sync s = true /\ oi_parent s = oi_parent x).
Proof. exact barrier_between_ssa_deps_partial. Qed.
Print Assumptions C13_barrier_between_ssa_deps_partial.

(* ... including the loop back-edge: x and u children of the same scf.for (u before or after x),
   straight-line from x to the scf.yield: a barrier of the body lies between x and the end of the
   body, hence on the path x -> back-edge -> u *)
Theorem C13_barrier_on_backedge_partial :
  forall flat l1 x l2 yld l3 u,
  flat = l1 ++ x :: l2 ++ yld :: l3 -> In u flat -> must_sync x u = true -> same_parent_for x u = true ->
  oi_id yld = oi_pyield x -> seg_ok flat (oi_parent x) (l2 ++ [yld]) = true ->
  let seg := out_between (barriers flat) l2 yld in
  (exists pre post, run_pass flat = pre ++ x :: seg ++ yld :: post) /\
  (forall z, In z seg -> In z l2 \/ is_sync z = true) /\
  (exists s, In s seg /\ is_sync s = true /\ oi_parent s = oi_parent x).
Proof. exact barrier_on_backedge_partial. Qed.
Print Assumptions C13_barrier_on_backedge_partial.

Theorem C13_barrier_before_dealloc_partial :
  forall flat l1 x l2 d l3,
  flat = l1 ++ x :: l2 ++ d :: l3 -> is_dealloc d = true -> shares x d = true ->
  seg_ok flat (oi_parent x) (l2 ++ [d]) = true ->
  exists s, In s (out_between (barriers flat) l2 d) /\ is_sync s = true /\ oi_parent s = oi_parent x.
Proof. exact barrier_before_dealloc_partial. Qed.
Print Assumptions C13_barrier_before_dealloc_partial.

(* every barrier is executed by all cores: dispatching never guards one, so each core's barrier
   sequence equals the original one ... *)
Theorem C13_barriers_unguarded :
  forall (isbar : Z -> bool) nb f, 2 <= nb ->
  Forall (fun b => terminated b = true) f -> Forall (fun b => guard_freel b = true) f ->
  forall o path,
  (forall e, In e (trace o f path) -> bar_ev isbar e = true -> ev_kind e = KOther) ->
  forall c, 0 <= c < nb ->
  filter (bar_ev isbar) (core_trace c o (d_blocks (dispatch nb f)) path) = filter (bar_ev isbar) (trace o f path).
Proof. exact barriers_unguarded. Qed.
Print Assumptions C13_barriers_unguarded.

(* ... hence no schedule of the cores can deadlock on the barrier-synchronised machine *)
Theorem C13_no_deadlock_after_dispatch :
  forall (isbar : Z -> bool) nb f, 2 <= nb ->
  Forall (fun b => terminated b = true) f -> Forall (fun b => guard_freel b = true) f ->
  forall o path,
  (forall e, In e (trace o f path) -> bar_ev isbar e = true -> ev_kind e = KOther) ->
  let ss := map (fun c => to_stream isbar c (core_trace c o (d_blocks (dispatch nb f)) path)) (zrange nb) in
  balanced ss /\
  forall m cfg, steps (ss, m) cfg -> all_finished (fst cfg) = true \/ exists cfg', step cfg cfg'.
Proof. exact no_deadlock_after_dispatch. Qed.
Print Assumptions C13_no_deadlock_after_dispatch.

(* non-vacuity of the hypotheses of the two theorems above: DM op, barrier (id 3), compute op; the pass does
   something, the barrier events are KOther, and core 1 still executes the barrier *)
Example C13_unguarded_nonvacuous :
  let f := [[Leaf 1 KOther false; Leaf 2 KDM false; Leaf 3 KOther false; Leaf 4 KCompute true; Leaf 5 KOther false]] in
  let isbar := fun i => i =? 3 in
  let o := mkOracle (fun _ _ => 2%nat) (fun _ _ => true) in
  Forall (fun b => terminated b = true) f /\ Forall (fun b => guard_freel b = true) f /\
  (forall e, In e (trace o f [0%nat]) -> bar_ev isbar e = true -> ev_kind e = KOther) /\
  d_blocks (dispatch 2 f) <> f /\
  filter (bar_ev isbar) (core_trace 1 o (d_blocks (dispatch 2 f)) [0%nat]) = [(3, KOther, [0%nat])].
Proof.
  cbv zeta. split; [repeat constructor|]. split; [repeat constructor|]. split; [|split; [vm_compute; discriminate | reflexivity]].
  intros e He Hb. vm_compute in He.
  repeat (destruct He as [<-|He]; [vm_compute in Hb; try discriminate; reflexivity|]). destruct He.
Qed.
Print Assumptions C13_unguarded_nonvacuous.

(* a barrier that only one core executes does deadlock (why "unguarded" matters) *)
Theorem C13_guarded_barrier_deadlocks :
  let ss := [[None]; []] in
  all_finished ss = false /\ forall m cfg', ~ step (ss, m) cfg'.
Proof. exact guarded_barrier_deadlocks. Qed.
Print Assumptions C13_guarded_barrier_deadlocks.

(* between barriers: ops of different cores without conflicting footprints commute, every
   interleaving of a phase gives the memory of the sequential order *)
Theorem C13_drf_between_barriers :
  forall ps ss m, Forall (fun p => phase_drfb p = true) ps -> Forall2 schedule_of ps ss ->
  meq (exec (concat ss) m) (exec (concat ps) m).
Proof. exact drf_phases. Qed.
Print Assumptions C13_drf_between_barriers.

(* refutations outside the class = the recorded findings F19 a/b/c *)
Theorem C13_alias_via_view_refuted : barriers probe_alias = [] /\ classify_pair probe_alias true 3 4 = 1.
Proof. exact alias_via_view_refuted. Qed.
Print Assumptions C13_alias_via_view_refuted.

Theorem C13_cross_level_backedge_refuted :
  barriers probe_cross_level = [5] /\ ~ In 7 (barriers probe_cross_level) /\ classify_pair probe_cross_level false 3 5 = 2.
Proof. exact cross_level_backedge_refuted. Qed.
Print Assumptions C13_cross_level_backedge_refuted.

Theorem C13_ctl_between_refuted : barriers probe_branch = [4] /\ classify_pair probe_branch true 2 5 = 3.
Proof. exact ctl_between_refuted. Qed.
Print Assumptions C13_ctl_between_refuted.

Example C13_same_level_nonvacuous :
  must_sync (nth 2 probe_loop (mkInfo 0 BOther [] [] 0 false 0)) (nth 3 probe_loop (mkInfo 0 BOther [] [] 0 false 0)) = true /\
  barriers probe_loop = [6; 5; 4] /\ classify_pair probe_loop true 3 4 = 0 /\ classify_pair probe_loop false 4 3 = 0.
Proof. exact same_level_nonvacuous. Qed.
Print Assumptions C13_same_level_nonvacuous.

(* the barrier-synchronised machine itself: on balanced per-core streams whose ops of different
   cores never conflict inside a phase, EVERY maximal execution (any interleaving, barriers passed
   together) terminates, and in the memory of the canonical order — no deadlock, no observable race *)
From Snax Require Import Proofs.MultiCoreMachine.
Theorem C13_machine_result :
  forall ss m fuel, balanced ss ->
  (forall s, In s ss -> (nbarriers s < fuel)%nat) -> xfree_all fuel ss = true ->
  forall cfg, steps (ss, m) cfg ->
    (all_finished (fst cfg) = true /\ meq (snd cfg) (exec (seq_order fuel ss) m)) \/ (exists cfg', step cfg cfg').
Proof. exact machine_result. Qed.
Print Assumptions C13_machine_result.

Example C13_machine_nonvacuous :
  let ss := [[Some (mkOp [1] 0 [1] [2]); None; Some (mkOp [2] 0 [3] [4])];
             [Some (mkOp [3] 1 [5] [3]); None; Some (mkOp [4] 1 [2] [6])]] in
  balanced ss /\ xfree_all 2 ss = true /\ length (seq_order 2 ss) = 4%nat.
Proof.
  cbv zeta. split; [|split; reflexivity].
  intros s s' [<-|[<-|[]]] [<-|[<-|[]]]; reflexivity.
Qed.
Print Assumptions C13_machine_nonvacuous.

(* ---- CFG-path statements ---------------------------------------------------------------------------
   The structured program has one execution path per oracle (trip count of every loop instance,
   outcome of every branch instance).  [scanb X U false trace = Some _] says: on that path, once X
   has run, U does not run before a barrier — every path from X to U, including paths around
   back-edges of any enclosing loop, crosses a barrier. *)
From Snax Require Import Model.C13Paths Proofs.C13PathProofs.

(* a structurally guarded pair (wherever X occurs, a barrier of the same block follows it before U,
   before any nested construct and before the end of the block) is separated on EVERY path *)
Theorem C13_guarded_path_safe :
  forall X U prog, guardedl X U prog = true ->
  forall o ctx, scanb X U false (rrunl o prog ctx) = Some false.
Proof. exact guarded_path_safe. Qed.
Print Assumptions C13_guarded_path_safe.

(* path safety of all conflicting pairs makes every barrier-separated phase of the path free of
   cross-core conflicts (the link to drf_phase) *)
Theorem C13_paths_give_drf_phases :
  forall tr,
  (forall a b, In (Some a) tr -> In (Some b) tr -> o_core a <> o_core b ->
               specific a = true -> specific b = true -> conflictb a b = true ->
               scanb (opid a) (opid b) false tr <> None) ->
  Forall (fun ph => phase_drfb (filter specific ph) = true) (split_phases [] tr).
Proof. exact paths_give_drf_phases. Qed.
Print Assumptions C13_paths_give_drf_phases.

(* composed: a program all of whose conflicting op pairs are guarded has, on every path, only
   conflict-free phases, and every interleaving of the cores inside the phases computes the memory
   of the program order.  [all_guarded] is decidable; the check evaluates it on the real output of
   the passes (after insert-sync-barrier and on the final IR) *)
Theorem C13_all_guarded_phases_drf :
  forall prog, all_guarded prog = true ->
  forall o, Forall (fun ph => phase_drfb (filter specific ph) = true) (split_phases [] (rrunl o prog [])).
Proof. exact all_guarded_phases_drf. Qed.
Print Assumptions C13_all_guarded_phases_drf.

Theorem C13_all_guarded_any_interleaving :
  forall prog, all_guarded prog = true ->
  forall o ss m,
  Forall2 schedule_of (map (filter specific) (split_phases [] (rrunl o prog []))) ss ->
  meq (exec (concat ss) m) (exec (concat (map (filter specific) (split_phases [] (rrunl o prog [])))) m).
Proof. exact all_guarded_any_interleaving. Qed.
Print Assumptions C13_all_guarded_any_interleaving.

(* non-vacuity: the loop  copy -> b ; barrier ; generic b -> c ; barrier  (what the pass makes of
   copy; generic in a loop) is guarded in both directions, the loop without the second barrier
   is not and indeed has a racing path *)
Example C13_paths_nonvacuous :
  let good := [RFor 1 [RLeaf 2 1 false [10] [11]; RLeaf 3 (-1) true [] []; RLeaf 4 0 false [11] [12]; RLeaf 5 (-1) true [] []]] in
  let bad := [RFor 1 [RLeaf 2 1 false [10] [11]; RLeaf 3 (-1) true [] []; RLeaf 4 0 false [11] [12]]] in
  all_guarded good = true /\ all_guarded bad = false /\
  scanb 4 2 false (rrunl (mkROracle (fun _ _ => 2%nat) (fun _ _ => true)) bad []) = None.
Proof. cbv zeta. repeat split; vm_compute; reflexivity. Qed.
Print Assumptions C13_paths_nonvacuous.

(* END TO END for straight-line functions (any ops in any order, existing barriers, deallocs; no
   aliasing: one SSA value = one buffer): the output of the pass has every DM/compute pair that uses
   a common value guarded, hence on its (single) path every phase is conflict free and every
   interleaving of the cores computes the memory of the program order.  For programs with loops and
   branches the same conclusion holds whenever [all_guarded] holds of the output
   (C13_all_guarded_any_interleaving), which the check evaluates on the real output; the pass
   establishes it there for the SameLevel class only positionally (theorems above). *)
Theorem C13_straightline_pass_all_guarded :
  forall p0 flat, straight p0 flat -> all_guarded (map leaf_of (run_pass flat)) = true.
Proof. exact straightline_pass_all_guarded. Qed.
Print Assumptions C13_straightline_pass_all_guarded.

Theorem C13_straightline_pass_drf :
  forall p0 flat, straight p0 flat ->
  forall o ss m,
  Forall2 schedule_of (map (filter specific) (split_phases [] (rrunl o (map leaf_of (run_pass flat)) []))) ss ->
  meq (exec (concat ss) m)
      (exec (concat (map (filter specific) (split_phases [] (rrunl o (map leaf_of (run_pass flat)) [])))) m).
Proof. exact straightline_pass_drf. Qed.
Print Assumptions C13_straightline_pass_drf.

(* non-vacuity: copy -> %1 ; generic %1 -> %2 ; copy %2 -> out : straight, two barriers inserted,
   three phases of one op each *)
Example C13_straightline_nonvacuous :
  let flat := [ mkInfo 1 BDM [100; 101] [] 0 false 0; mkInfo 2 BCompute [101; 102] [] 0 false 0;
                mkInfo 3 BDM [102; 103] [] 0 false 0 ] in
  straight 0 flat /\ barriers flat = [3; 2] /\
  map (@length mop) (map (filter specific) (split_phases [] (rrunl (mkROracle (fun _ _ => 0%nat) (fun _ _ => true))
                                                                   (map leaf_of (run_pass flat)) []))) = [1; 1; 1]%nat.
Proof.
  cbv zeta. split; [|split; vm_compute; reflexivity].
  split; [intros y [<-|[<-|[<-|[]]]]; reflexivity|]. simpl. repeat constructor; simpl; intuition discriminate.
Qed.
Print Assumptions C13_straightline_nonvacuous.

(* END TO END for single-loop kernels  pre ; scf.for { body } ; post  (straight-line regions, the
   shape of a tiled kernel; DM/compute dependencies local to a region): the output of the pass has
   every conflicting pair guarded — inside the loop body by the barrier before the consumer AND, for
   the back-edge, by the barrier before the scf.yield — hence on every path (every trip count) every
   phase is conflict free and every interleaving of the cores computes the memory of the program order *)
Theorem C13_loop_pass_all_guarded :
  forall p0 q, lp_wf p0 q -> lp_local q -> all_guarded (lp_tree (barriers (lp_flat q)) q) = true.
Proof. exact loop_pass_all_guarded. Qed.
Print Assumptions C13_loop_pass_all_guarded.

Theorem C13_loop_pass_drf :
  forall p0 q, lp_wf p0 q -> lp_local q ->
  forall o ss m,
  let prog := lp_tree (barriers (lp_flat q)) q in
  Forall2 schedule_of (map (filter specific) (split_phases [] (rrunl o prog []))) ss ->
  meq (exec (concat ss) m) (exec (concat (map (filter specific) (split_phases [] (rrunl o prog [])))) m).
Proof.
  intros p0 q Hw Hl o ss m prog H. apply all_guarded_any_interleaving; [|exact H].
  apply (loop_pass_all_guarded p0 q Hw Hl).
Qed.
Print Assumptions C13_loop_pass_drf.

(* non-vacuity: for { copy -> %1 ; generic %1 -> %2 } : barrier before the generic and before the yield *)
Example C13_loop_nonvacuous :
  let q := mkLoop [] (mkInfo 2 BOther [] [] 0 false 0)
                  [mkInfo 3 BDM [100; 101] [] 2 true 6; mkInfo 4 BCompute [101; 102] [] 2 true 6]
                  (mkInfo 6 BOther [] [] 2 true 6) [] in
  lp_wf 0 q /\ lp_local q /\ barriers (lp_flat q) = [6; 4] /\
  lp_tree (barriers (lp_flat q)) q =
    [RFor 2 [RLeaf 3 1 false [] [100; 101]; RLeaf 1000004 (-1) true [] []; RLeaf 4 0 false [] [101; 102];
             RLeaf 1000006 (-1) true [] []]].
Proof.
  cbv zeta. split; [|split; [|split; vm_compute; reflexivity]].
  - unfold lp_wf. simpl. split; [|split; [|split; [|repeat split; reflexivity]]].
    + intros y H. destruct H as [H|[H|H]]; [destruct H | subst; reflexivity | destruct H].
    + intros y H. destruct H as [[H|[H|[]]]|H]; subst; repeat split; reflexivity.
    + repeat constructor; simpl; intuition discriminate.
  - intros x u Hx Hu Hms Hc. simpl in Hx, Hu. right. left.
    destruct Hx as [<-|[<-|[<-|[<-|[]]]]]; destruct Hu as [<-|[<-|[<-|[<-|[]]]]];
      vm_compute in Hms; try discriminate; vm_compute in Hc; try (exfalso; apply Hc; reflexivity);
      simpl; tauto.
Qed.
Print Assumptions C13_loop_nonvacuous.

(* on the barrier machine: along any path, every maximal execution of the cores on a program whose
   conflicting pairs are all guarded terminates in the memory of the program order *)
From Snax Require Import Model.MultiCoreStreams.
Theorem C13_all_guarded_machine :
  forall prog, all_guarded prog = true ->
  forall o cores m, cores <> [] -> NoDup cores ->
  let phs := map (filter specific) (split_phases [] (rrunl o prog [])) in
  (forall ph op, In ph phs -> In op ph -> In (o_core op) cores) ->
  forall cfg, steps (streams_of cores phs, m) cfg ->
    (all_finished (fst cfg) = true /\ meq (snd cfg) (exec (concat phs) m)) \/ (exists cfg', step cfg cfg').
Proof. exact all_guarded_machine. Qed.
Print Assumptions C13_all_guarded_machine.

(* ---- PASS LEVEL, ARBITRARY NESTING DEPTH ------------------------------------------------------------------
   Input programs are trees (any nesting of scf.for / scf.if, plain ops with inert body ops); [flatl]
   is their pre-order op list (what the pass walks: the model of the walk runs on it), [outl] the
   program tree of the pass output.  For every ordered pair (X, U) in the SameLevel class
   ([clsl_top]: wherever X occurs, at any depth, either only plain ops follow it in its block up to
   an op U it must be synchronised with — forward —, or its block is an scf.for body, only plain ops
   follow it and it must be synchronised with a plain op U of that body — back-edge —, or, in the
   outermost block, U does not occur behind it) the output tree is guarded, hence X and U are
   separated by a barrier on EVERY path.  Blocks that are scf.if branches are covered for the
   forward case only (the reverse pair then fails [clsl_top]): the F19b variant. *)
From Snax Require Import Model.C13Tree Proofs.C13TreeProofs.

Theorem C13_tree_pass_guarded :
  forall p0 T X U, clsl_top (flatl p0 false 0 T) X U T = true ->
  guardedl_top X U (outl (barriers (flatl p0 false 0 T)) T) = true.
Proof. exact tree_pass_guarded. Qed.
Print Assumptions C13_tree_pass_guarded.

Theorem C13_tree_pass_path_safe :
  forall p0 T X U, clsl_top (flatl p0 false 0 T) X U T = true ->
  forall o, scanb X U false (rrunl o (outl (barriers (flatl p0 false 0 T)) T) []) <> None.
Proof. exact tree_pass_path_safe. Qed.
Print Assumptions C13_tree_pass_path_safe.

(* the whole program: if every conflicting DM/compute pair of it is a SameLevel pair (decidable
   [sl_program], a predicate on the INPUT and the modelled barrier positions), the pass output is
   all_guarded: on every path every phase is conflict free, every interleaving computes the memory
   of the program order *)
Theorem C13_tree_pass_all_guarded :
  forall p0 T, sl_program p0 T = true -> all_guarded (outl (barriers (flatl p0 false 0 T)) T) = true.
Proof. exact tree_pass_all_guarded. Qed.
Print Assumptions C13_tree_pass_all_guarded.

Theorem C13_tree_pass_drf :
  forall p0 T, sl_program p0 T = true ->
  forall o ss m,
  let prog := outl (barriers (flatl p0 false 0 T)) T in
  Forall2 schedule_of (map (filter specific) (split_phases [] (rrunl o prog []))) ss ->
  meq (exec (concat ss) m) (exec (concat (map (filter specific) (split_phases [] (rrunl o prog [])))) m).
Proof. exact tree_pass_drf. Qed.
Print Assumptions C13_tree_pass_drf.

(* non-vacuity: a three-level nest with a branch:
     alloc ; for i { if c { k } ; for j { copy a->b ; generic b->c ; for l { generic c->d (own body op) } } } ; ret
   copy/generic of the j-body are a SameLevel pair (forward barrier + barrier before the j-yield); the
   generic in the l-loop shares %c with the generic of the j-body: cross-level, so the whole program is
   NOT in the class, while the program without the innermost loop is *)
Example C13_tree_nonvacuous :
  let cp := mkN 6 BDM [100; 101] [] in let g1 := mkN 7 BCompute [101; 102] [] in
  let inner := [CLeaf cp []; CLeaf g1 [(7, mkN 8 BOther [] [200])]] in
  let T := [CLeaf (mkN 1 BOther [] [101]) [];
            CFor (mkN 2 BOther [] []) [CIf (mkN 3 BOther [] []) [CLeaf (mkN 4 BOther [] []) []] [];
                                       CFor (mkN 5 BOther [] []) inner (mkN 9 BOther [] [])] (mkN 10 BOther [] []);
            CLeaf (mkN 11 BOther [] []) []] in
  let T2 := [CFor (mkN 2 BOther [] [])
               [CFor (mkN 5 BOther [] []) (inner ++ [CFor (mkN 12 BOther [] []) [CLeaf (mkN 13 BDM [102; 103] []) []] (mkN 14 BOther [] [])])
                     (mkN 9 BOther [] [])] (mkN 10 BOther [] [])] in
  sl_program 0 T = true /\ barriers (flatl 0 false 0 T) = [9; 7] /\
  clsl_top (flatl 0 false 0 T) 6 7 T = true /\ clsl_top (flatl 0 false 0 T) 7 6 T = true /\
  sl_program 0 T2 = false.
Proof. cbv zeta. repeat split; vm_compute; reflexivity. Qed.
Print Assumptions C13_tree_nonvacuous.

Theorem C13_tree_pass_machine :
  forall p0 T, sl_program p0 T = true ->
  forall o cores m, cores <> [] -> NoDup cores ->
  let phs := map (filter specific) (split_phases [] (rrunl o (outl (barriers (flatl p0 false 0 T)) T) [])) in
  (forall ph op, In ph phs -> In op ph -> In (o_core op) cores) ->
  forall cfg, steps (streams_of cores phs, m) cfg ->
    (all_finished (fst cfg) = true /\ meq (snd cfg) (exec (concat phs) m)) \/ (exists cfg', step cfg cfg').
Proof. exact tree_pass_machine. Qed.
Print Assumptions C13_tree_pass_machine.
