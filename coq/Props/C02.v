(* C02 — streamer address streams equal the scheduled element stream.
   Only theorem statements closed by `exact`, each followed by Print Assumptions.
   Model: coq/Model/C02Stream.v (layout resolution by unit responses, conversion of (stride, bound)
   dims to a StridePattern with all its error branches, streamer word semantics); canonicalize is the
   definition generated from the source (Gen/StrideCanon.v), tied to
   the code by the L1 correspondence of harness/props/c02.py (real dart-layout-resolution and
   convert-dart-to-snax-stream passes on generated ops). *)
From Snax Require Import Base.Prelude Base.ListAux Model.C02Stream Proofs.C02StreamProofs Proofs.C02CanonProofs Model.C02Gemmx Proofs.C02GemmxProofs Proofs.C02NonnegProofs Model.C02GenCanon Proofs.C02GenCanonProofs.

(* 1. Layout resolution (repaired code: unit response minus zero response): whenever layout∘schedule is
      linear on the iteration box — any coefficients, any constant term (static offsets included) —
      the extracted strides reproduce it at EVERY point of the box, up to the constant term. *)
Theorem C02_resolve_linear :
  forall f bounds, linear_on_box f bounds ->
  forall x, in_box x bounds ->
  dot (resolve f (List.length bounds)) x = f x - f (zero_vec (List.length bounds)).
Proof. exact resolve_linear. Qed.
Print Assumptions C02_resolve_linear.

(* F5 (repaired by a `fix:` commit): the extraction without the zero response is wrong for
   strided<[1], offset: 5> on i64 with schedule 4*d0 + d1 — strides 72/48 instead of 32/8. *)
Theorem C02_resolve_unrepaired_refuted :
  let f := access_mem (LStrided [1] 5) 8 [[4; 1]] [0] in
  linear_on_box f [4; 4] /\ resolve_unrepaired f 2 = [72; 48] /\ resolve f 2 = [32; 8] /\
  dot (resolve_unrepaired f 2) [1; 1] <> f [1; 1] - f [0; 0].
Proof. exact resolve_unrepaired_refuted. Qed.
Print Assumptions C02_resolve_unrepaired_refuted.

(* 2. Conversion to a StridePattern: whenever it succeeds inside the Safe class (innermost relevant dim
      contiguous in elements and filling whole 8-byte words; every spatial merge nests and divides; no
      broadcast-merge), the BYTE STREAM of the streamer — spatial ports innermost, then the temporal
      nest, 8 bytes per word — is exactly the byte stream of the scheduled elements in schedule order:
      nothing skipped, duplicated or reordered, for every number of dims, all bounds and strides. *)
Theorem C02_pattern_bytes_eq :
  forall elsize bcast spats dims p,
  convert_okb elsize spats dims = true -> to_pattern bcast spats dims = Ok p ->
  byte_stream TCDM (pattern_words p spats) = byte_stream elsize (nest dims).
Proof. exact pattern_bytes_eq. Qed.
Print Assumptions C02_pattern_bytes_eq.

(* ... hence temporal step by temporal step (the k-th block of n bytes on both sides). *)
Theorem C02_pattern_step_bytes_eq :
  forall elsize bcast spats dims p n k,
  convert_okb elsize spats dims = true -> to_pattern bcast spats dims = Ok p ->
  firstn n (skipn (k * n) (byte_stream TCDM (pattern_words p spats)))
  = firstn n (skipn (k * n) (byte_stream elsize (nest dims))).
Proof. exact pattern_step_bytes_eq. Qed.
Print Assumptions C02_pattern_step_bytes_eq.

(* non-vacuity: gemmx A operand (i8, tile-contiguous), alu i64, packed i32 with a spatial merge *)
Example C02_nonvacuous :
  convert_okb 1 [8] [(1, 8); (8, 8); (64, 2); (0, 2); (128, 2)] = true /\
  to_pattern false [8] [(1, 8); (8, 8); (64, 2); (0, 2); (128, 2)] = Ok (mkSP [2; 2; 2] [64; 0; 128] [8]) /\
  convert_okb 8 [4] [(8, 4); (32, 4)] = true /\
  to_pattern false [4] [(8, 4); (32, 4)] = Ok (mkSP [4] [32] [8]) /\
  convert_okb 4 [4] [(4, 4); (16, 6)] = true /\
  to_pattern false [4] [(4, 4); (16, 6)] = Ok (mkSP [3] [32] [8]).
Proof. repeat split; reflexivity. Qed.

(* outside the Safe class the statement is false: a strided (non-contiguous) innermost dim is packed as if
   it were contiguous *)
Theorem C02_noncontiguous_inner_refuted :
  exists p, to_pattern false [4] [(16, 2); (64, 4)] = Ok p /\
            byte_stream TCDM (pattern_words p [4]) <> byte_stream 8 (nest [(16, 2); (64, 4)]).
Proof. eexists. split; [vm_compute; reflexivity|]. vm_compute. discriminate. Qed.
Print Assumptions C02_noncontiguous_inner_refuted.

(* 3. StridePattern.canonicalize — the definition GENERATED from snaxc/dialects/snax_stream.py on every
      run (Gen/StrideCanon.v; theorem C19_stride_canon_words) keeps the word stream of every pattern with
      non-negative bounds, for every spatial geometry ... *)
Theorem C02_canonicalize_words :
  forall p q spats, Forall (fun b => 0 <= b) (sp_ub p) -> gen_canonicalize p = Some q ->
  pattern_words q spats = pattern_words p spats.
Proof. exact gen_canonicalize_words. Qed.
Print Assumptions C02_canonicalize_words.

(* ... so the pattern that reaches the streaming region when the accelerator does not customise it
   (snax_alu, snax_phs) still streams exactly the scheduled elements' bytes (the converter's bounds are
   non-negative inside the Safe class: to_pattern_nonneg; canonicalize never fails). *)
Theorem C02_final_pattern_bytes_eq :
  forall elsize bcast spats dims p q,
  convert_okb elsize spats dims = true -> to_pattern bcast spats dims = Ok p -> gen_canonicalize p = Some q ->
  byte_stream TCDM (pattern_words q spats) = byte_stream elsize (nest dims).
Proof. exact gen_final_pattern_bytes_eq. Qed.
Print Assumptions C02_final_pattern_bytes_eq.

(* 4. gemmx set_stride_patterns (all five shapes: matmul i32/i8, gemm i32/i8, rescale-only): five slots;
      every operand of the op is streamed by a slot that keeps its temporal bounds and strides; every
      other slot is disabled (a zero bound: no word is touched, for any spatial geometry) or reads the
      zero address. (The rescale-only shape overwrites the spatial strides of C/D32 by [8, 64].) *)
Theorem C02_disabled_no_words : forall p spats, disabledb p = true -> pattern_words p spats = [].
Proof. exact disabled_no_words. Qed.
Print Assumptions C02_disabled_no_words.
Theorem C02_gemmx_customise_sound :
  forall k ser sd2 ps out, gemmx_customise k ser sd2 ps = Some out ->
  List.length out = 5%nat /\ Forall (slot_ok ps) out /\
  forall i p, nth_error ps i = Some p ->
    exists q, In (q, SOp i) out /\ sp_ub q = sp_ub p /\ sp_ts q = sp_ts p.
Proof. exact gemmx_customise_sound. Qed.
Print Assumptions C02_gemmx_customise_sound.

(* 5. xDMA set_stride_patterns (Model/C02Xdma.v).  Every extension except `add` returns the patterns
      unchanged, each operand on its own pointer; `add` keeps the output and streams ONLY input 0, widened
      by an innermost temporal dimension (2, 512 bytes). *)
From Snax Require Import Model.C02Xdma Proofs.C02XdmaProofs.
Theorem C02_xdma_customise_sound :
  forall k ps out, xdma_customise k ps = Some out ->
  match k with
  | XDefault => map fst out = ps /\ map snd out = map SOp (seq 0 (List.length ps))
  | XAdd => exists p0 rest, ps = p0 :: rest /\
              out = [(xadd_pattern p0, SOp 0); (last ps p0, SOp (List.length ps - 1))]
  end.
Proof. exact xdma_customise_sound. Qed.
Print Assumptions C02_xdma_customise_sound.

(* what the widened pattern streams: every temporal step of input 0 becomes two steps, the same words and
   the same words 512 bytes further (for all patterns and spatial geometries) *)
Theorem C02_xadd_words :
  forall p spats,
  pattern_words (xadd_pattern p) spats =
  flat_map (fun o => map (fun w => o + w) (step_words p spats) ++ map (fun w => o + XADD_STRIDE + w) (step_words p spats))
           (step_offsets p).
Proof. exact xadd_words. Qed.
Print Assumptions C02_xadd_words.

(* hence, inside the Safe class (input 1 is streamed exactly like input 0 and lives 512 bytes after it) the
   single reader fetches, step by step, input 0's words followed by input 1's ... *)
Theorem C02_xadd_sound_partial :
  forall base0 base1 p0 p1 spats, xadd_adjacentb base0 base1 p0 p1 = true ->
  map (fun w => base0 + w) (pattern_words (xadd_pattern p0) spats) =
  concat (map (fun ab => fst ab ++ snd ab) (combine (abs_steps base0 p0 spats) (abs_steps base1 p1 spats))).
Proof. exact xadd_sound_partial. Qed.
Print Assumptions C02_xadd_sound_partial.

(* non-vacuity: the Safe class of the add extension is inhabited (input 1 laid out 512 bytes after input 0) *)
Example C02_xadd_nonvacuous :
  let p := mkSP [2] [64] [8] in
  xadd_adjacentb 0 512 p p = true /\ pattern_words (xadd_pattern p) [8] <> [].
Proof. split; [reflexivity | vm_compute; discriminate]. Qed.

(* ... and outside it the full statement is false (known finding F41, class xdma_add_second_operand_assumed) *)
Theorem C02_xadd_refuted :
  let p := mkSP [2] [64] [8] in
  xadd_adjacentb 0 4096 p p = false /\
  map (fun w => 0 + w) (pattern_words (xadd_pattern p) [8]) <>
  concat (map (fun ab => fst ab ++ snd ab) (combine (abs_steps 0 p [8]) (abs_steps 4096 p [8]))).
Proof. exact xadd_refuted. Qed.
Print Assumptions C02_xadd_refuted.

(* 6. Discharging `linear_on_box` (the premise of C02_resolve_linear).
   (a) EVERY strided layout (any strides, any static offset, any element size) under ANY affine schedule
       (any matrix, any offsets) is linear on every box: layout resolution is exact for all of them. *)
From Snax Require Import Proofs.C02LinearProofs.
Theorem C02_strided_linear_on_box :
  forall strides offset elsize A b bounds,
  rows_ok (List.length bounds) (combine A b) ->
  linear_on_box (access_mem (LStrided strides offset) elsize A b) bounds.
Proof. exact strided_linear_on_box. Qed.
Print Assumptions C02_strided_linear_on_box.

Theorem C02_resolve_strided :
  forall strides offset elsize A b bounds x,
  rows_ok (List.length bounds) (combine A b) -> in_box x bounds ->
  let f := access_mem (LStrided strides offset) elsize A b in
  dot (resolve f (List.length bounds)) x = f x - f (zero_vec (List.length bounds)).
Proof. exact resolve_strided. Qed.
Print Assumptions C02_resolve_strided.

(* (b) tiled-strided layouts: when the schedule writes the index in the mixed radix of the tile bounds
       (any number of tile levels, any steps), the layout's div/mod chain returns the digits, so
       layout∘schedule is linear on the box (what set-memory-layout produces; a misaligned tiling is
       known finding F22, class not_linear_on_box). *)
Theorem C02_tsl_dim_digits :
  forall tiles first xs, bounds_pos tiles -> digits_ok first tiles xs ->
  tsl_dim first tiles (dot (weights tiles) xs) = dot (map fst tiles) xs.
Proof. exact tsl_dim_digits. Qed.
Print Assumptions C02_tsl_dim_digits.

Theorem C02_tsl_aligned_linear_on_box :
  forall tiles elsize bounds, bounds_pos tiles -> box_digits true tiles bounds ->
  linear_on_box (access_mem (LTsl [tiles]) elsize [weights tiles] [0]) bounds.
Proof. exact tsl_aligned_linear_on_box. Qed.
Print Assumptions C02_tsl_aligned_linear_on_box.

Example C02_tsl_aligned_nonvacuous :
  let tiles := [(64, 2); (1, 8); (8, 4)] in
  bounds_pos tiles /\ box_digits true tiles [5; 8; 4] /\ weights tiles = [32; 4; 1] /\
  resolve (access_mem (LTsl [tiles]) 2 [weights tiles] [0]) 3 = [128; 2; 16].
Proof. repeat split; try reflexivity; try (repeat constructor; cbn; lia); try (cbn; lia). Qed.

(* 7. Layout resolution as a whole (after the repairs of F5 and F5b): the constant term goes to the base
      pointer, the unit responses relative to it are the strides, and together they reproduce
      layout∘schedule at EVERY point of the box — for every linear-on-box access map (all strided layouts,
      aligned tiled layouts: section 6). *)
Theorem C02_resolve_exact :
  forall f bounds x, linear_on_box f bounds -> in_box x bounds ->
  resolve_base f (List.length bounds) + dot (resolve f (List.length bounds)) x = f x.
Proof. exact resolve_exact. Qed.
Print Assumptions C02_resolve_exact.

(* regression for F5b: without the base-pointer constant a static offset of 5 i64 elements is lost *)
Example C02_resolve_without_base_refuted :
  let f := access_mem (LStrided [1] 5) 8 [[4; 1]] [0] in
  linear_on_box f [4; 4] /\ resolve_base f 2 = 40 /\ dot (resolve f 2) [1; 1] <> f [1; 1].
Proof. exact resolve_without_base_refuted. Qed.

(* 8. The Safe class `linear_on_box` is decidable: checking the unit-response coefficients on every point of
      the box is sound AND complete, so the class used by the harness classifier (L1 group `linb`) and the
      hypothesis of the theorems coincide; concrete layouts are discharged by computation. *)
From Snax Require Import Model.C02Check.
Theorem C02_linear_on_box_decidable :
  forall f bounds, linear_on_boxb f bounds = true <-> linear_on_box f bounds.
Proof. intros f bounds. split; [apply linear_on_boxb_sound | apply linear_on_boxb_complete]. Qed.
Print Assumptions C02_linear_on_box_decidable.

(* the gemmx A operand (i8, 16x16, 8x8 tiles stored contiguously) under the 6-dim matmul schedule
   (m, n, k, 8, 8, 8): a two-dimensional tiled layout aligned with the schedule is linear on the box *)
Example C02_gemmx_tiled_operand_linear :
  linear_on_box (access_mem (LTsl [[(128, 2); (8, 8)]; [(64, 2); (1, 8)]]) 1
                            [[8; 0; 0; 1; 0; 0]; [0; 0; 8; 0; 0; 1]] [0; 0]) [2; 2; 2; 8; 8; 8].
Proof. apply linear_on_boxb_sound. vm_compute. reflexivity. Qed.

(* known finding F22 (class not_linear_on_box): a tiling that is not the schedule's tiling is not linear *)
Example C02_misaligned_tiling_refuted :
  ~ linear_on_box (access_mem (LTsl [[(16, 2); (1, 8)]]) 8 [[4; 1]] [0]) [4; 4].
Proof. intros H. apply linear_on_boxb_complete in H. vm_compute in H. discriminate H. Qed.

(* 9. (audit) Inside the Safe class the converter never refuses: convert_okb mirrors every error branch, so a Safe
      operand always gets a pattern — a loud rejection of a Safe operand is a disagreement with the model. *)
From Snax Require Import Proofs.C02AuditProofs.
From Snax Require Model.Tsl.
Theorem C02_safe_converts :
  forall elsize bcast spats dims, convert_okb elsize spats dims = true -> exists p, to_pattern bcast spats dims = Ok p.
Proof. exact safe_converts. Qed.
Print Assumptions C02_safe_converts.

(* 10. (audit) The two halves composed.  What layout resolution hands to the converter — the (stride, bound) pairs,
       last iteration dim innermost — is the address sequence of the scheduled elements relative to the constant
       term, in schedule (row-major) order ... *)
Theorem C02_resolve_nest :
  forall f bounds, linear_on_box f bounds ->
  nest (rev (combine (resolve f (List.length bounds)) bounds))
  = map (fun x => f x - resolve_base f (List.length bounds)) (Tsl.row_major bounds).
Proof. exact resolve_nest. Qed.
Print Assumptions C02_resolve_nest.

(* ... hence, for an operand all of whose iteration dims are relevant (snax_alu, xDMA; a gemmx operand drops the
   template dims it does not depend on, which the hardware replicates over the PE array: not covered here), the
   base-pointer constant plus the final (canonicalised) stride pattern stream, byte for byte and in schedule order,
   the elements layout(schedule(x)) for x over the whole iteration box. *)
Theorem C02_end_to_end_bytes :
  forall f bounds elsize bcast spats p q,
  let n := List.length bounds in
  let dims := rev (combine (resolve f n) bounds) in
  linear_on_box f bounds ->
  convert_okb elsize spats dims = true -> to_pattern bcast spats dims = Ok p -> gen_canonicalize p = Some q ->
  byte_stream TCDM (map (fun w => resolve_base f n + w) (pattern_words q spats))
  = byte_stream elsize (map f (Tsl.row_major bounds)).
Proof. exact end_to_end_bytes. Qed.
Print Assumptions C02_end_to_end_bytes.

(* non-vacuity: i64 operand with a static offset of 5 elements under the schedule 4*d0 + d1 on snax_alu *)
Example C02_end_to_end_nonvacuous :
  let f := access_mem (LStrided [1] 5) 8 [[4; 1]] [0] in
  let dims := rev (combine (resolve f 2) [3; 4]) in
  linear_on_box f [3; 4] /\ dims = [(8, 4); (32, 3)] /\ convert_okb 8 [4] dims = true /\
  to_pattern false [4] dims = Ok (mkSP [3] [32] [8]) /\
  gen_canonicalize (mkSP [3] [32] [8]) = Some (mkSP [3] [32] [8]) /\ resolve_base f 2 = 40.
Proof. split; [apply linear_on_boxb_sound; vm_compute; reflexivity | repeat split; vm_compute; reflexivity]. Qed.
