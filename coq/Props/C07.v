(* C07 — assumed accelerator state is always a subset of the real state.
   Only theorem statements closed by `exact`, each followed by Print Assumptions.

   T is a table "state value -> assumed dictionary" (what infer_state_of returns), [wf_prog T p]
   the decidable certificate of Model/AccInfer.v (states are linked to the setup that really
   precedes them, table entries satisfy the inference equations as inclusions, no assumed fact
   mentions a value that is redefined while the fact is live).  [chk_prog] runs p on the
   abstract machine and reports every state value whose assumed dictionary disagrees with the
   registers at a definition or use.  The model table [ainfer p] is compared with the real
   infer_state_of on every run (L1), and [wf_prog (ainfer p) p] is evaluated on every real
   output of accfg-trace-states (L1). *)
From Snax Require Import Base.Prelude Model.AccIR Model.AccSem Model.AccInfer Model.AccInferTy Model.AccDedup Model.AccWeave
  Proofs.AccSemProofs Proofs.AccInferProofs Proofs.AccWeaveProofs Proofs.AccHeadProofs Proofs.AccCertProofs.

(* For every certified table and program, every oracle (initial registers, what opaque calls write
   and return) and all arguments — hence all trip counts, including zero, and all branch outcomes —
   no assumed fact is ever contradicted: at every setup (input state before, output state after), at
   the head of EVERY loop iteration, after every loop and after every scf.if. *)
Theorem C07_certified_inference_sound :
  forall (T : val -> astate) (p : prog), wf_prog T p = true ->
  forall (orc : oracle) (args : list Z), chk_prog T orc p args = [].
Proof. intros T p H orc args. exact (wf_sound T orc p args H). Qed.
Print Assumptions C07_certified_inference_sound.

(* the same statement for the MODEL of infer_state_of: whenever the model's own table passes the
   certificate (decidable; evaluated on every real accfg-trace-states output by the harness),
   nothing the model infers is ever contradicted.  [ainfer_certified] is the Safe predicate. *)
Theorem C07_model_inference_sound_partial :
  forall (p : prog), ainfer_certified p = true ->
  forall (orc : oracle) (args : list Z), chk_prog (tfun (ainfer p)) orc p args = [].
Proof. intros p H orc args. exact (wf_sound (tfun (ainfer p)) orc p args H). Qed.
Print Assumptions C07_model_inference_sound_partial.

Definition c07_two_cfg_early : prog :=
  mkProg [0%nat; 1%nat; 2%nat; 3%nat; 4%nat; 5%nat]
   [SSetup 0%nat 6%nat None [(0%nat, 0%nat); (1%nat, 1%nat)]; SLaunch 0%nat 7%nat 6%nat []; SAwait 0%nat 7%nat;
    SFor 8%nat 3%nat 4%nat 5%nat [(15%nat, 6%nat, (TState 0%nat))] [18%nat]
      [SSetup 0%nat 16%nat (Some 15%nat) [(0%nat, 0%nat); (1%nat, 1%nat)]; SLaunch 0%nat 10%nat 16%nat []; SAwait 0%nat 10%nat;
       SSetup 0%nat 17%nat (Some 16%nat) [(0%nat, 2%nat); (1%nat, 1%nat)]; SLaunch 0%nat 12%nat 17%nat []; SAwait 0%nat 12%nat]
      [17%nat];
    SSetup 0%nat 19%nat (Some 18%nat) [(0%nat, 2%nat); (1%nat, 1%nat)]; SLaunch 0%nat 14%nat 19%nat []; SAwait 0%nat 14%nat].

Definition c07_two_cfg := c07_two_cfg_early.

(* ---- the correctness argument of the F1 repair, about the model of infer_state_of -----------------
   For a loop whose state values are typed per accelerator ([sty_stmt], decidable, evaluated on every
   real accfg-trace-states output by L1) and any table T of proper dictionaries in front of it: the
   head state  head := state_intersection(init, yielded-when-the-body-is-walked-from-init)  is contained
   in what the body yields when it is walked FROM THE HEAD — by induction over the body through nested
   loops and conditionals, using that inference is field-local per accelerator — and the other three
   loop clauses of the certificate hold by construction.

   With the frame / scoping / link bookkeeping (Proofs/AccCertProofs.v) this gives the full
   [C07_model_table_certified] and [C07_model_inference_sound] at the end of this group. *)
Theorem C07_loop_head_inductive :
  forall ty_of iv lb ub sp its rs body ys T,
  sty_stmt ty_of (SFor iv lb ub sp its rs body ys) = true -> tbl_ok T ->
  nodup_nat (map si_arg (state_iters its ys rs)) = true ->
  let sis := state_iters its ys rs in
  let T1' := ainfer_block body (fold_left (fun T' x => tset (si_arg x) (tlook T (si_init x)) T') sis T) in
  let T2 := fold_left (fun T' x => tset (si_arg x) (st_inter (tlook T (si_init x)) (tlook T1' (si_yield x))) T') sis T in
  let T2' := ainfer_block body T2 in
  forall x, In x sis ->
    let head := tlook T2 (si_arg x) in
    let res := st_inter (tlook T (si_init x)) (tlook T2' (si_yield x)) in
    st_sub head (tlook T (si_init x)) = true /\ st_sub head (tlook T2' (si_yield x)) = true /\
    st_sub res (tlook T (si_init x)) = true /\ st_sub res (tlook T2' (si_yield x)) = true.
Proof. exact ainfer_loop_clauses. Qed.
Print Assumptions C07_loop_head_inductive.

Theorem C07_inference_field_local :
  forall ty_of a f b, sty_block ty_of b = true ->
  forall T1 T2, tbl_ok T1 -> tbl_ok T2 -> rel ty_of a f T1 T2 -> rel ty_of a f (ainfer_block b T1) (ainfer_block b T2).
Proof. exact loc_block. Qed.
Print Assumptions C07_inference_field_local.

(* The model's own table ALWAYS passes the certificate: for every program that is well-threaded
   ([wt_prog]: the link clauses alone), typed per accelerator, defines every state value once and
   respects SSA scoping — [cert_side], decidable and independent of any table (evaluated on every real
   accfg-trace-states output by L1). *)
Theorem C07_model_table_certified :
  forall p, cert_side p = true -> ainfer_certified p = true.
Proof. exact ainfer_certified_all. Qed.
Print Assumptions C07_model_table_certified.

(* hence: nothing the model of infer_state_of (as repaired) infers is ever contradicted, on any
   execution of any such program — no per-program evaluation of the certificate involved *)
Theorem C07_model_inference_sound :
  forall p, cert_side p = true ->
  forall (orc : oracle) (args : list Z), chk_prog (tfun (ainfer p)) orc p args = [].
Proof. intros p H orc args. exact (wf_sound (tfun (ainfer p)) orc p args (ainfer_certified_all p H)). Qed.
Print Assumptions C07_model_inference_sound.

(* the pipeline form: accfg-trace-states (model weave) followed by inference (model ainfer).  The only
   per-program fact left is the decidable, table-independent [cert_side] of the woven program. *)
Theorem C07_trace_states_then_infer_sound :
  forall p q, weave p = Some q -> cert_side q = true ->
  forall (orc : oracle) (args : list Z), chk_prog (tfun (ainfer q)) orc q args = [].
Proof. intros p q _ H orc args. exact (wf_sound (tfun (ainfer q)) orc q args (ainfer_certified_all q H)). Qed.
Print Assumptions C07_trace_states_then_infer_sound.

Example C07_cert_side_nonvacuous : cert_side c07_two_cfg_early = true.
Proof. reflexivity. Qed.

(* ---- known finding F42 (class [prethreaded_if], Model/AccInferTy.v): accfg-trace-states applied to IR it
   has already threaded.  (a) an scf.if that already has a state result gets a second one: the output is
   well-threaded input no more for the certificate ([cert_side] false) although the input was certified —
   the theorems above do not apply to such outputs (soundness there is only executed per run, L2);
   (b) when the scf.if result feeds a loop that already carries the state, the pass builds an scf.for whose
   operands and block arguments do not line up (model: None; real code: verifier error),
   notes/probe_c07_rethread_if.mlir / probe_c07_rethread_if_loop.mlir. *)
Definition c07_rethread_if : prog :=
  mkProg [0%nat; 1%nat; 2%nat]
   [SSetup 0%nat 3%nat None [(0%nat, 0%nat)]; SLaunch 0%nat 4%nat 3%nat []; SAwait 0%nat 4%nat;
    SIf 2%nat [(7%nat, (TState 0%nat))]
      [SSetup 0%nat 5%nat (Some 3%nat) [(0%nat, 1%nat)]; SLaunch 0%nat 6%nat 5%nat []; SAwait 0%nat 6%nat] [5%nat] [] [3%nat];
    SSetup 0%nat 8%nat (Some 7%nat) [(0%nat, 0%nat)]; SLaunch 0%nat 9%nat 8%nat []; SAwait 0%nat 9%nat].
Definition c07_rethread_if_loop : prog :=
  mkProg [0%nat; 1%nat; 2%nat; 3%nat; 4%nat; 5%nat]
   [SSetup 0%nat 6%nat None [(0%nat, 0%nat)]; SLaunch 0%nat 7%nat 6%nat []; SAwait 0%nat 7%nat;
    SIf 2%nat [(10%nat, (TState 0%nat))]
      [SSetup 0%nat 8%nat (Some 6%nat) [(0%nat, 1%nat)]; SLaunch 0%nat 9%nat 8%nat []; SAwait 0%nat 9%nat] [8%nat] [] [6%nat];
    SFor 11%nat 3%nat 4%nat 5%nat [(12%nat, 10%nat, (TState 0%nat))] [15%nat]
      [SSetup 0%nat 13%nat (Some 12%nat) [(0%nat, 0%nat)]; SLaunch 0%nat 14%nat 13%nat []; SAwait 0%nat 14%nat] [13%nat]].
Example C07_rethreaded_if_refuted :
  prethreaded_if c07_rethread_if = true /\ cert_side c07_rethread_if = true /\
  (exists q, weave c07_rethread_if = Some q /\ cert_side q = false /\
             chk_prog (tfun (ainfer q)) (test_oracle 1) q [7; 9; 1] = []) /\
  prethreaded_if c07_rethread_if_loop = true /\ cert_side c07_rethread_if_loop = true /\
  weave c07_rethread_if_loop = None.
Proof.
  split; [reflexivity|]. split; [reflexivity|]. split.
  - eexists. split; [reflexivity|]. split; vm_compute; reflexivity.
  - repeat split; vm_compute; reflexivity.
Qed.
Print Assumptions C07_rethreaded_if_refuted.

(* outside the class the woven lowering-form witness is certified (the class is not everything) *)
Example C07_not_prethreaded_if : prethreaded_if c07_two_cfg_early = false.
Proof. reflexivity. Qed.

(* ---- the model of _weave_states_in_region (compared with the real pass by L1 on every run) ------
   What is still assumed after something that may reconfigure the accelerators behind the
   compiler's back (clause "nothing is assumed" of C07; defect F2 was exactly the failure of the
   second and third statement on the real code): *)
Theorem C07_weave_call_forgets :
  forall st n g pu ds ar, weave_stmt st n (SCall g true pu ds ar) = Some ([SCall g true pu ds ar], [], n).
Proof. exact weave_call_forgets. Qed.
Print Assumptions C07_weave_call_forgets.

Theorem C07_weave_loop_with_effects_forgets :
  forall st n iv lb ub sp its rs body ys xs st' n',
  existsb stmt_has_effects body = true ->
  weave_stmt st n (SFor iv lb ub sp its rs body ys) = Some (xs, st', n') -> st' = [].
Proof. exact weave_for_effects_forgets. Qed.
Print Assumptions C07_weave_loop_with_effects_forgets.

Theorem C07_weave_if_needs_both_branches :
  forall st n c rs thn thy els ely xs st' n' thn' st_t n1 els' st_e n2,
  weave_block st n thn = Some (thn', st_t, n1) ->
  weave_block st n1 els = Some (els', st_e, n2) ->
  weave_stmt st n (SIf c rs thn thy els ely) = Some (xs, st', n') ->
  forall a, d_has a st' = true -> d_has a st_t = true /\ d_has a st_e = true.
Proof. exact weave_if_both_branches. Qed.
Print Assumptions C07_weave_if_needs_both_branches.

Theorem C07_weave_branch_ending_in_call_forgets :
  forall st n b g pu ds ar x st' n',
  weave_block st n (b ++ [SCall g true pu ds ar]) = Some (x, st', n') -> st' = [].
Proof. exact weave_block_ending_in_call_forgets. Qed.
Print Assumptions C07_weave_branch_ending_in_call_forgets.

(* the woven two-configuration loop of notes/probe_c01_two_config_loop.mlir (F1) *)
(* non-vacuity: the model's table for it is certified, and assumes B = %y at the loop head *)
Example C07_nonvacuous :
  wf_prog (tfun (ainfer c07_two_cfg)) c07_two_cfg = true /\ tlook (ainfer c07_two_cfg) 15%nat = [(1%nat, 1%nat)]
  /\ sty_prog c07_two_cfg = true.
Proof. repeat split; reflexivity. Qed.
Print Assumptions C07_nonvacuous.

(* the check has teeth: the table the code computed BEFORE the F1 repair (loop head := the
   pre-loop state) is rejected by the certificate and contradicted by a two-iteration run *)
Definition c07_old_table : tbl := (15%nat, [(0%nat, 0%nat); (1%nat, 1%nat)]) :: ainfer c07_two_cfg.
Example C07_prefix_table_refuted :
  wf_prog (tfun c07_old_table) c07_two_cfg = false /\
  chk_prog (tfun c07_old_table) (test_oracle 1) c07_two_cfg [7; 9; 11; 0; 2; 1] <> [].
Proof. split; [reflexivity|vm_compute; discriminate]. Qed.
Print Assumptions C07_prefix_table_refuted.
