(* C06 — setup/compute overlap keeps every launch's configuration.
   Only theorem statements closed by `exact`, each followed by Print Assumptions. *)
From Snax Require Import Base.Prelude Model.AccIR Model.AccSem Model.C06Overlap
     Proofs.C06SimProofs Proofs.C06LoopProofs.

(* Congruence of the shared semantics w.r.t. the simulation relation [Rel F a0 fs0]: two runs that agree on
   the environment outside the ids F (fresh ids of a rewrite / ghost state ids), on all registers except the
   fields fs0 of accelerator a0, and event by event (same launches/awaits/calls in the same order, each launch
   observing the same registers on the fields the first run has written) stay so after ANY statement — all
   nesting depths, all trip counts, all oracles — that reads no id of F at an integer position and, while
   fs0 is non-empty, launches a0 nowhere.  This is the lemma every rewrite-preservation proof rests on. *)
Theorem C06_exec_preserves_simulation :
  forall orc F a0 fs0 b,
  block_reads_off F b -> (fs0 = [] \/ block_launches a0 b = false) ->
  forall m1 m2, Rel F a0 fs0 m1 m2 -> Rel F a0 fs0 (exec_block orc b m1) (exec_block orc b m2).
Proof. exact exec_rel_block. Qed.
Print Assumptions C06_exec_preserves_simulation.

(* loop_overlap_after_partial: under SafeAfterLoop (decidable [safe_after]: every launch of a0 reachable in the
   statements [post] after the loop is preceded by writes to all fields the moved setup writes, or by a
   reconfiguring call) two runs that differ only in those fields of a0 — which is how the rewritten loop leaves
   the machine — produce related traces: every later launch observes the same registers. *)
Theorem C06_loop_overlap_after_partial :
  forall orc F a0 post fs m1 m2,
  safe_after a0 fs post = true -> block_reads_off F post -> Rel F a0 fs m1 m2 ->
  trace_sim_b (rev (tr (exec_block orc post m1))) (rev (tr (exec_block orc post m2))) = true.
Proof. exact after_safe_traces. Qed.
Print Assumptions C06_loop_overlap_after_partial.

(* The induction on the iteration index (loop rotation): with W k = configure for iteration k and B k = rest of
   iteration k, prologue + n rotated iterations = n original iterations + one speculative W n, for EVERY trip
   count n; in particular iteration k of the rewritten loop starts B k from the state the original starts it from. *)
Theorem C06_loop_rotation :
  forall (A : Type) (W B : nat -> A -> A) n a,
  iter_n n (fun k x => W (S k) (B k x)) (W 0%nat a) = W n (iter_n n (fun k x => B k (W k x)) a).
Proof. exact @iter_shift. Qed.
Print Assumptions C06_loop_rotation.

(* loop_overlap_refuted (finding F4): the model's rule, applied to the probe exactly as the real pass applies
   it, makes the launch after the loop observe other registers — for two iterations and for zero iterations —
   and the program is outside SafeAfterLoop. *)
Theorem C06_loop_overlap_refuted :
  exists p o nf p' args,
    loop_overlap p o nf = Some p' /\ wf_scope p = true /\ wf_scope p' = true
    /\ safe_after_loop p o = false
    /\ trace_sim_b (run (test_oracle 1) p args) (run (test_oracle 1) p' args) = false.
Proof.
  exists f4_before, 9%nat, 15%nat, f4_after, [10; 13; 0; 2; 1].
  split; [exact f4_rewrite|]. split; [vm_compute; reflexivity|]. split; [vm_compute; reflexivity|].
  split; [exact f4_unsafe|exact (proj1 f4_differs)].
Qed.
Print Assumptions C06_loop_overlap_refuted.

(* the launches INSIDE the rewritten loop of the same witness observe the same registers (lb 5, step 3, 2 trips) *)
Example C06_inside_nonvacuous :
  let t1 := run (test_oracle 1) f4_before [10; 13; 5; 11; 3] in
  let t2 := run (test_oracle 1) f4_after [10; 13; 5; 11; 3] in
  trace_sim_b (firstn 8 t1) (firstn 8 t2) = true /\ List.length t1 = 10%nat.
Proof. exact f4_inside_ok. Qed.
Print Assumptions C06_inside_nonvacuous.

(* non-vacuity of SafeAfterLoop: re-configuring A after the loop makes the same rewrite safe, and then the whole
   traces agree (zero, one and three iterations) *)
Definition C06_safe_before : prog :=
  mkProg [0; 1; 2; 3; 4]%nat
    [SSetup 0 5 None [(0, 1)];
     SFor 6 2 3 4 [(7, 5, TState 0)] [13]
       [SPure 8 (PId 6); SSetup 0 9 (Some 7) [(0, 8)]; SLaunch 0 10 9 []; SAwait 0 10] [9];
     SSetup 0 20 (Some 13) [(0, 0)]; SLaunch 0 14 20 []; SAwait 0 14]%nat.

Example C06_safe_nonvacuous :
  safe_after_loop C06_safe_before 9%nat = true
  /\ exists p', loop_overlap C06_safe_before 9%nat 21%nat = Some p'
     /\ forallb (fun args => trace_sim_b (run (test_oracle 2) C06_safe_before args) (run (test_oracle 2) p' args))
                [[10; 13; 4; 4; 2]; [10; 13; 4; 5; 2]; [10; 13; -3; 3; 2]] = true.
Proof. split; [vm_compute; reflexivity|]. eexists. split; [vm_compute; reflexivity|vm_compute; reflexivity]. Qed.
Print Assumptions C06_safe_nonvacuous.

(* ---- the chain lemma: what the clones compute ------------------------------------------------------------------
   copy_with_new_dependent_vals (Model: clone_scoped), for chains of arith ops: if the rewritten run [m2] shows,
   through the substitution deps |-> news ((iv, iter_args) |-> (lb, iter operands) in front of the loop,
   |-> (i+step, yield operands) at the end of the body), the values the original run [m1] has at the head of the
   iteration being prepared, then cloned chain + cloned setup leave accelerator a with exactly the registers the
   original chain + setup leave it with.  This is the step "W (S k)" of C06_loop_rotation for the clone construction. *)
From Snax Require Import Proofs.C06ChainProofs Proofs.C06BlockProofs.

Theorem C06_clone_chain_correct :
  forall orc deps news nf ins a o s_in fs blk st nf2 (m1 m2 : mstate) X,
  all_spure ins = true ->
  clone_scoped deps news nf ins a s_in fs = (blk, st, nf2) ->
  incl (ops_of ins) X -> incl (map snd fs) X ->
  (forall v, In v X -> (mlook (combine deps news) v < nf)%nat) ->
  corr (combine deps news) (env m1) (env m2) X ->
  forall f, (regs m2 a f = regs m1 a f \/ In f (map fst fs)) ->
  regs (exec_block orc blk m2) a f = regs (exec_block orc (ins ++ [SSetup a o (Some s_in) fs]) m1) a f.
Proof. exact clone_scoped_correct. Qed.
Print Assumptions C06_clone_chain_correct.

(* ---- block level, canonical shape (launch ; awaits ; arith chain ; setup  ==>  launch ; chain ; setup ; awaits) ----
   block_overlap_preserves_partial: identical machine states from every start state, in any context (any prefix,
   any continuation): same registers at every later launch, same number and order of launches and awaits. *)
Theorem C06_block_overlap_preserves_partial :
  forall orc pre lau aw ins a o s fs post m,
  forallb is_await aw = true -> all_spure ins = true ->
  exec_block orc (pre ++ lau :: aw ++ ins ++ SSetup a o (Some s) fs :: post) m
  = exec_block orc (pre ++ lau :: ins ++ SSetup a o (Some s) fs :: aw ++ post) m.
Proof. exact block_overlap_canonical. Qed.
Print Assumptions C06_block_overlap_preserves_partial.

(* block_overlap_scoped_partial: the moved ops use no value that is not yet available *)
Theorem C06_block_overlap_scoped_partial :
  forall aw q post d,
  forallb is_await aw = true -> forallb is_quiet q = true ->
  (exists d', scope_block d (aw ++ q ++ post) = Some d') ->
  exists d'', scope_block d (q ++ aw ++ post) = Some d''.
Proof. exact block_overlap_scoped_canonical. Qed.
Print Assumptions C06_block_overlap_scoped_partial.

(* the model's block rule produces exactly this shape on a canonical instance (and the real pass does what the
   model does: per-rewrite correspondence) *)
Example C06_block_canonical_instance :
  block_overlap (mkProg [0; 1]%nat
     [SSetup 0 2 None [(0, 0)]; SLaunch 0 3 2 []; SAwait 0 3; SPure 4 (PBin BAdd 0 1); SPure 5 (PId 4);
      SSetup 0 6 (Some 2) [(0, 5)]; SLaunch 0 7 6 []; SAwait 0 7]%nat) 6%nat
  = Some (mkProg [0; 1]%nat
     [SSetup 0 2 None [(0, 0)]; SLaunch 0 3 2 []; SPure 4 (PBin BAdd 0 1); SPure 5 (PId 4);
      SSetup 0 6 (Some 2) [(0, 5)]; SAwait 0 3; SLaunch 0 7 6 []; SAwait 0 7]%nat).
Proof. vm_compute. reflexivity. Qed.
Print Assumptions C06_block_canonical_instance.

(* ---- repaired defects: the witnesses of the /repo fixes 9047e02 and 09d2c36 (found by the audit) -----------------
   (1) nested launch in front of the setup.  The loop body starts with `scf.if %c { launch(%l0); await }`.  The
   guard of the loop rule ("a launch between the loop start and the setup") now looks into regions
   ([has_launch_before]), so the rule bails out.  [C06_nested_unrepaired] is what the pass produced before the fix
   (previous_ops_of does not recurse): the launch inside the scf.if then observes the configuration of the NEXT
   iteration; the program is inside SafeAfterLoop (field A is rewritten after the loop), i.e. outside class F4. *)
Definition C06_nested_probe : prog :=
  mkProg [0; 1; 2; 3; 4; 5]%nat
    [SSetup 0 6 None [(0, 1)];
     SFor 7 2 3 4 [(8, 6, TState 0)] [13]
       [SIf 5 [] [SLaunch 0 9 8 []; SAwait 0 9] [] [] [];
        SPure 10 (PId 7); SSetup 0 11 (Some 8) [(0, 10)]; SLaunch 0 12 11 []; SAwait 0 12] [11];
     SSetup 0 14 (Some 13) [(0, 0)]; SLaunch 0 15 14 []; SAwait 0 15]%nat.
Definition C06_nested_unrepaired : prog :=
  mkProg [0; 1; 2; 3; 4; 5]%nat
    [SSetup 0 6 None [(0, 1)]; SPure 16 (PId 2); SSetup 0 17 (Some 6) [(0, 16)];
     SFor 7 2 3 4 [(8, 17, TState 0)] [13]
       [SIf 5 [] [SLaunch 0 9 8 []; SAwait 0 9] [] [] [];
        SLaunch 0 12 8 []; SAwait 0 12;
        SPure 18 (PBin BAdd 7 4); SPure 19 (PId 18); SSetup 0 20 (Some 8) [(0, 19)]] [20];
     SSetup 0 14 (Some 13) [(0, 0)]; SLaunch 0 15 14 []; SAwait 0 15]%nat.

Example C06_nested_launch_guard :
  loop_overlap C06_nested_probe 11%nat 16%nat = None
  /\ safe_after_loop C06_nested_probe 11%nat = true
  /\ wf_scope C06_nested_unrepaired = true
  /\ trace_sim_b (run (test_oracle 1) C06_nested_probe [10; 113; -3; 0; 1; 1])
                 (run (test_oracle 1) C06_nested_unrepaired [10; 113; -3; 0; 1; 1]) = false
  /\ trace_sim_b (run (test_oracle 1) C06_nested_probe [10; 113; -3; 0; 1; 0])
                 (run (test_oracle 1) C06_nested_unrepaired [10; 113; -3; 0; 1; 0]) = true.
Proof. repeat (split; [vm_compute; reflexivity|]). vm_compute. reflexivity. Qed.
Print Assumptions C06_nested_launch_guard.

(* (2) a setup value computed by a side-effect-free scf.if whose region captures %c = a + b, defined between the
   launch and the setup.  get_scoped_setup_inputs now treats ops with regions as immovable ([closure] returns None
   on SFor / SIf), so the block rule bails out.  [C06_region_unrepaired] is what the pass produced before the fix:
   the scf.if sits above the definition of the value its region yields (use before definition). *)
Definition C06_region_probe : prog :=
  mkProg [0; 1; 2]%nat
    [SSetup 0 3 None [(0, 0)]; SLaunch 0 4 3 []; SAwait 0 4; SPure 5 (PBin BAdd 0 1);
     SIf 2 [(6, TInt)] [] [5] [] [1]; SSetup 0 7 (Some 3) [(0, 6)]; SLaunch 0 8 7 []; SAwait 0 8]%nat.
Definition C06_region_unrepaired : prog :=
  mkProg [0; 1; 2]%nat
    [SSetup 0 3 None [(0, 0)]; SLaunch 0 4 3 []; SIf 2 [(6, TInt)] [] [5] [] [1];
     SSetup 0 7 (Some 3) [(0, 6)]; SAwait 0 4; SPure 5 (PBin BAdd 0 1); SLaunch 0 8 7 []; SAwait 0 8]%nat.

Example C06_region_op_immovable :
  block_overlap C06_region_probe 7%nat = None
  /\ wf_scope C06_region_probe = true /\ wf_scope C06_region_unrepaired = false.
Proof. repeat (split; [vm_compute; reflexivity|]). vm_compute. reflexivity. Qed.
Print Assumptions C06_region_op_immovable.

(* ---- block_overlap_preserves: the model's block rule on ARBITRARY programs ------------------------------------------
   Whenever the rule fires anywhere in a program (any nesting) and the decidable side condition holds for the
   block it rewrites — every moved op is an arith op or the setup; every statement it jumps over is quiet for the
   setup's accelerator (no setup / launch of it, no reconfiguring call, at any depth), binds none of the moved
   op's operands and does not read its result — the rewritten program produces, for every oracle and all inputs,
   the same launches / awaits / calls in the same order with every launch observing the same registers.
   The side condition is evaluated by the check on every block rewrite of the real pass. *)
From Snax Require Import Model.C06BlockSide Proofs.C06BlockGenProofs.

Theorem C06_block_overlap_preserves :
  forall orc p o p' args,
  block_overlap p o = Some p' ->
  block_overlap_side_ok p o = true ->
  trace_sim_b (run orc p args) (run orc p' args) = true.
Proof. exact block_overlap_preserves. Qed.
Print Assumptions C06_block_overlap_preserves.

(* non-vacuity: a rewrite inside a loop body that jumps over an await, an unrelated arith op and another
   accelerator's launch; the side condition holds and the rule fires *)
Example C06_block_overlap_nonvacuous :
  let p := mkProg [0; 1; 2; 3; 4]%nat
     [SSetup 0 5 None [(0, 0)];
      SFor 6 2 3 4 [(7, 5, TState 0)] [20]
        [SLaunch 0 8 7 []; SAwait 0 8; SPure 9 (PBin BAdd 0 1); SSetup 1 10 None [(1, 9)]; SLaunch 1 11 10 [];
         SPure 12 (PId 6); SPure 13 (PBin BMul 12 1); SSetup 0 14 (Some 7) [(0, 13)]; SLaunch 0 15 14 []; SAwait 0 15]
        [14]]%nat in
  block_overlap_side_ok p 14%nat = true /\ exists p', block_overlap p 14%nat = Some p' /\ prog_eqb p p' = false.
Proof. split; [vm_compute; reflexivity|eexists; split; vm_compute; reflexivity]. Qed.
Print Assumptions C06_block_overlap_nonvacuous.

(* ---- C06_loop_overlap_inside: congruence + induction on the iteration index + chain lemma, assembled ----------------
   Original body:  INS ; setup a (from the loop-carried state) fs ; REST        (INS = the arith chain in front of the setup)
   Rewritten body: INS ; REST' ; next_i = i + step ; EPI   with EPI = clone_scoped (iv, iter_args) |-> (next_i, yields)
   exactly as Model/C06Overlap.loop_overlap_for builds it (REST' = REST with the erased state replaced; it executes
   like REST).  [Inv k] = the machines are related (Rel: same events so far, every launch observed the same registers,
   all registers equal except the moved setup's fields) and the rewritten run already holds, in those fields, what
   the original setup of iteration k will write.  One iteration takes Inv k to Inv (k+1), hence for EVERY trip count
   n, every lb (l), every step (s), every oracle the n iterations of the two loops are related: every launch inside
   the rewritten loop observes the same registers.  The prologue establishes Inv 0 by the same chain lemma
   (C06_clone_chain_correct with news = lb, iter operands).
   PARTIAL with respect to the rule's full domain: the statements in front of the setup must be exactly its arith
   chain, REST' must execute like REST (true when the erased state only occurs at state positions of flat
   statements), iter_args distinct, the ids read by the chain are integer values below the fresh ids. *)
From Snax Require Import Model.AccWeave Proofs.C06LoopInsideProofs.

Theorem C06_loop_overlap_inside :
  forall orc F a iv sp bargs ins o s_in fs rest rest' ys ys' next_i epi st_epi nfe,
  all_spure ins = true ->
  clone_scoped (iv :: bargs) (next_i :: ys) (S next_i) ins a s_in fs = (epi, st_epi, nfe) ->
  (forall m, exec_block orc rest' m = exec_block orc rest m) ->
  block_reads_off F rest ->
  (forall v, In v (ops_of ins ++ map snd fs) -> off F v) ->
  (forall v, In v (ops_of ins ++ map snd fs) -> (v < next_i)%nat) ->
  (forall v, In v ys -> (v < next_i)%nat) ->
  (forall x, (next_i <= x < nfe)%nat -> In x F) ->
  off F iv /\ ~ In iv (block_binds (ins ++ rest)) /\ ~ In iv bargs ->
  off F sp /\ ~ In sp (block_binds (ins ++ rest)) /\ ~ In sp bargs /\ sp <> iv ->
  List.length ys = List.length bargs -> NoDup bargs ->
  Forall (fun t => (fst (fst t) = snd t /\ off F (snd t)) \/ In (snd (fst t)) F) (combine (combine ys bargs) ys') ->
  List.length ys' = List.length ys ->
  (forall j b y, nth_error bargs j = Some b -> nth_error ys j = Some y -> In b (ops_of ins ++ map snd fs) -> off F y) ->
  forall (l s : Z) n M1 M2,
  Inv orc F a iv sp ins o s_in fs l s 0%nat M1 M2 ->
  Inv orc F a iv sp ins o s_in fs l s n
      (iter_n n (for_step (exec_block orc (body a ins o s_in fs rest)) iv bargs ys l s) M1)
      (iter_n n (for_step (exec_block orc (body' iv sp ins rest' next_i epi)) iv bargs ys' l s) M2).
Proof. intros. eapply loop_inside; eassumption. Qed.
Print Assumptions C06_loop_overlap_inside.

(* ---- the model's LOOP rule itself (loop directly in the function body) ------------------------------------------------
   C06_loop_overlap_inside_rule: whenever `loop_overlap p o nf = Some p'` and the decidable side condition
   `loop_inside_side_ok p o nf` holds, the programs cut right behind the loop produce related traces for every
   oracle and all inputs (every lb, step, trip count): every launch inside the rewritten loop (and in front of
   it) observes the same registers, same number and order of launches / awaits / calls.
   C06_loop_overlap_preserves: with SafeAfterLoop for what follows (`loop_overlap_side_ok`), the whole programs do.
   Side condition (Model/C06LoopSide.v, evaluated on every real loop rewrite by the check): the statements in front
   of the setup are exactly its arith chain; the rest of the body is flat and does not read the erased state as an
   integer; integer values read are outside F = fresh ids + state/token ids and below nf; iter_args distinct;
   iv / step / lb not rebound; state-typed positions bind ids of F.  Prologue (invariant for k = 0), iteration step,
   induction on the trip count and the final result binding are all inside the proof. *)
From Snax Require Import Model.C06LoopSide Proofs.C06LoopGenProofs.

Theorem C06_loop_overlap_inside_rule :
  forall orc p o nf p' args,
  loop_overlap p o nf = Some p' ->
  loop_inside_side_ok p o nf = true ->
  exists pre x post pro x',
    p_body p = pre ++ x :: post /\ p_body p' = pre ++ pro ++ x' :: post
    /\ loop_overlap_for (p_body p) o nf x = Some (pro, x')
    /\ trace_sim_b (run orc (mkProg (p_params p) (pre ++ [x])) args)
                   (run orc (mkProg (p_params p) (pre ++ pro ++ [x'])) args) = true.
Proof. exact loop_overlap_inside_rule. Qed.
Print Assumptions C06_loop_overlap_inside_rule.

Theorem C06_loop_overlap_preserves :
  forall orc p o nf p' args,
  loop_overlap p o nf = Some p' ->
  loop_overlap_side_ok p o nf = true ->
  trace_sim_b (run orc p args) (run orc p' args) = true.
Proof. exact loop_overlap_preserves. Qed.
Print Assumptions C06_loop_overlap_preserves.

(* non-vacuity: the F4 probe is inside the inside-condition (and outside SafeAfterLoop); the re-configured variant
   satisfies the full side condition *)
Example C06_loop_rule_nonvacuous :
  loop_inside_side_ok f4_before 9%nat 15%nat = true
  /\ loop_overlap_side_ok f4_before 9%nat 15%nat = false
  /\ loop_overlap_side_ok C06_safe_before 9%nat 21%nat = true.
Proof. repeat split; vm_compute; reflexivity. Qed.
Print Assumptions C06_loop_rule_nonvacuous.

(* ---- block_overlap_scoped, arbitrary programs: under the same side condition the rewritten program uses no value
   before it is available (wf_scope preserved, any nesting) --------------------------------------------------------------- *)
From Snax Require Import Proofs.C06BlockScopeProofs.

Theorem C06_block_overlap_scoped :
  forall p o p',
  block_overlap p o = Some p' ->
  block_overlap_side_ok p o = true ->
  wf_scope p = true -> wf_scope p' = true.
Proof. exact block_overlap_scoped. Qed.
Print Assumptions C06_block_overlap_scoped.
