(* C19 — canonical forms and alternative representations denote the same object.
   Only theorem statements closed by `exact` (or a one-line combination), each followed by
   Print Assumptions; plus non-vacuity examples. *)
From Coq Require Import Permutation.
From Snax Require Import Base.Prelude Model.C19Pack Proofs.C19PackProofs.

(* ---- (c) pack_bitlist ------------------------------------------------------------------------ *)
(* For every list of values and offsets (Python ints or SSA values with any run-time contents), of
   any length >= 1, at any width w >= 0: the last op of the emitted shl/or DAG holds the or of the
   fields `value << offset`, low w bits. *)
Theorem C19_pack_value :
  forall w ext vs os ops, 0 <= w ->
    pack_bitlist vs os w = Some ops -> vs <> [] ->
    pack_result w ext ops = pack_spec w ext vs os.
Proof. intros w ext vs os ops Hw. exact (pack_value w ext Hw vs os ops). Qed.
Print Assumptions C19_pack_value.

(* ... and that word does not depend on the shape of the or-tree: any tree over a permutation of
   the shifted fields evaluates to the same word. *)
Theorem C19_pack_any_shape :
  forall w ext vs os ops t, 0 <= w ->
    pack_bitlist vs os w = Some ops -> vs <> [] ->
    Permutation (ot_leaves t)
      (map (fun vo => Z.shiftl (operand_val w ext (fst vo)) (operand_val w ext (snd vo))) (combine vs os)) ->
    pack_result w ext ops = wrap w (ot_eval t).
Proof.
  intros w ext vs os ops t Hw H Hne HP. rewrite (pack_value w ext Hw vs os ops H Hne).
  unfold pack_spec. rewrite ot_eval_leaves, (fold_lor_perm _ _ HP). reflexivity.
Qed.
Print Assumptions C19_pack_any_shape.

(* the generator fails exactly on a length mismatch or an integer that does not fit dtype *)
Theorem C19_pack_error :
  forall w vs os,
    pack_bitlist vs os w = None <->
    (length vs <> length os \/
     exists vo, In vo (combine vs os) /\ (operand_in_range w (fst vo) && operand_in_range w (snd vo)) = false).
Proof. exact pack_error. Qed.
Print Assumptions C19_pack_error.

Example C19_pack_nonvacuous :
  let vs := [PInt 1; PVal 0; PInt (-3); PInt 128] in
  let os := [PInt 0; PInt 8; PVal 1; PInt 24] in
  exists ops, pack_bitlist vs os 32 = Some ops /\ length ops = 13%nat
    /\ pack_result 32 (fun i => if Nat.eqb i 0 then 5 else 16) ops = 4294771969.
Proof. eexists. split; [reflexivity|]. split; vm_compute; reflexivity. Qed.

(* ---- (a) canonicalize_affine.py (generated model Gen/CanonAffine.v) --------------------------- *)
From Snax Require Import Model.PyLib Model.XdslAffine Gen.CanonAffine Proofs.C19CanonProofs.

(* Whenever canonicalize_expr returns (no assertion failure, no RecursionError), the result evaluates
   like the input at every point (dims and symbols any integers).  // and % are floor division and
   modulo; no positivity side condition is needed: the only div/mod rewrites are x // 1 = x, x % 1 = 0. *)
Theorem C19_canon_eval :
  forall fuel e r, canonicalize_expr fuel e = Some r -> forall dv sv, eval dv sv r = eval dv sv e.
Proof. exact canon_eval. Qed.
Print Assumptions C19_canon_eval.

Theorem C19_canon_map_eval :
  forall fuel m m', canonicalize_map fuel m = Some m' ->
    num_dims m' = num_dims m /\ num_symbols m' = num_symbols m /\
    forall dv sv, map_eval dv sv m' = map_eval dv sv m.
Proof. exact canon_map_eval. Qed.
Print Assumptions C19_canon_map_eval.

(* idempotence: the result of a terminating run is a fixed point of canonicalize_expr (Python has no fuel:
   "canonicalize_expr(r) terminates with r" = some recursion budget f0 suffices) *)
Theorem C19_canon_idempotent :
  forall fuel e r, canonicalize_expr fuel e = Some r ->
    exists f0, (f0 <= fuel)%nat /\ canonicalize_expr f0 r = Some r.
Proof. exact canon_idempotent. Qed.
Print Assumptions C19_canon_idempotent.

(* the recursion budget is irrelevant: a larger budget gives the same result, two successful runs agree,
   and idempotence holds at the same budget.  Termination (existence of a sufficient budget for every
   input) is NOT proved: the rule set mixes a size-increasing distribution with reassociation and a
   reordering keyed on get_dim, interleaved with xDSL's own simplifications; L1 runs the model with
   budget 400 on every generated expression and a shortfall would show as a disagreement. *)
From Snax Require Import Proofs.C19CanonFuelProofs.
Theorem C19_canon_fuel_mono :
  forall f f', (f <= f')%nat -> forall e r, canonicalize_expr f e = Some r -> canonicalize_expr f' e = Some r.
Proof. exact canon_fuel_mono. Qed.
Print Assumptions C19_canon_fuel_mono.

Theorem C19_canon_fuel_irrelevant :
  forall f1 f2 e r1 r2, canonicalize_expr f1 e = Some r1 -> canonicalize_expr f2 e = Some r2 -> r1 = r2.
Proof. exact canon_fuel_irrelevant. Qed.
Print Assumptions C19_canon_fuel_irrelevant.

Theorem C19_canon_idempotent_same_fuel :
  forall fuel e r, canonicalize_expr fuel e = Some r -> canonicalize_expr fuel r = Some r.
Proof. exact canon_idempotent_same_fuel. Qed.
Print Assumptions C19_canon_idempotent_same_fuel.

(* non-vacuity: reassociation + reordering + distribution really happen *)
Example C19_canon_nonvacuous :
  let e := EBin KMul (EBin KAdd (EBin KAdd (EDim 1) (ECst 3)) (EDim 0)) (ECst 4) in
  exists r, canonicalize_expr 50 e = Some r /\ r <> e.
Proof. eexists. split; [vm_compute; reflexivity | discriminate]. Qed.

(* regression for the repaired defect F22: a reassociated sum that folds to a leaf is returned
   (before the fix: AssertionError, i.e. None) *)
Example C19_canon_sum_folds_to_leaf :
  canonicalize_expr 50 (EBin KAdd (EBin KAdd (EDim 0) (ECst 2)) (ECst (-2))) = Some (EDim 0).
Proof. vm_compute. reflexivity. Qed.

(* ---- (b) StridePattern.canonicalize (generated model Gen/StrideCanon.v) ------------------------ *)
From Snax Require Import Model.C19Stride Gen.StrideCanon Proofs.C19StrideProofs.

(* For every stride pattern with non-negative upper bounds (any rank; zero bounds, zero strides, unit
   bounds, negative strides included) the canonical pattern produces the same sequence of temporal
   addresses, in the same order, and keeps the spatial strides. *)
Theorem C19_stride_canon_words :
  forall p p', Forall (fun b => 0 <= b) (sp_ub p) -> StridePattern_canonicalize p = Some p' ->
    sp_ss p' = sp_ss p /\ taddrs p' = taddrs p.
Proof. exact stride_canon_words. Qed.
Print Assumptions C19_stride_canon_words.

Theorem C19_stride_canon_total : forall p, exists p', StridePattern_canonicalize p = Some p'.
Proof. exact stride_canon_total. Qed.
Print Assumptions C19_stride_canon_total.

Example C19_stride_nonvacuous :
  let p := SP [4; 1; 2; 0; 3] [8; 5; 32; 7; 0] [1] in
  Forall (fun b => 0 <= b) (sp_ub p) /\ StridePattern_canonicalize p = Some (SP [8; 0] [8; 0] [1]).
Proof. split; [repeat constructor; lia | vm_compute; reflexivity]. Qed.

(* the hypothesis is needed: with two negative bounds the merged bound is positive *)
Example C19_stride_negative_bounds_refuted :
  let p := SP [-2; -3] [1; -2] [1] in
  exists p', StridePattern_canonicalize p = Some p' /\ taddrs p = [] /\ taddrs p' <> [].
Proof. eexists. split; [vm_compute; reflexivity|]. split; [reflexivity | vm_compute; discriminate]. Qed.

(* ---- (d) AffineTransform (hand model Model/C19Transform.v) ------------------------------------- *)
From Snax Require Import Model.C19Transform Proofs.C19TransformProofs.

(* compose(s, o) applied to x = s applied to (o applied to x), for all well-shaped integer matrices *)
Theorem C19_compose_eval :
  forall s o c x y, wf_atrans s = true -> wf_atrans o = true ->
    at_compose s o = Some c -> at_eval o x = Some y -> at_eval c x = at_eval s y.
Proof. exact compose_eval. Qed.
Print Assumptions C19_compose_eval.

(* the affine map built from (A, b) evaluates to A x + b at every point *)
Theorem C19_to_map_eval :
  forall t x y sv, wf_atrans t = true -> at_eval t x = Some y -> map_eval (env x) sv (to_affine_map t) = y.
Proof. exact to_map_eval. Qed.
Print Assumptions C19_to_map_eval.

(* for every pure-affine map (+, * by constant expressions; any nesting) the matrix obtained from the
   zero / unit responses evaluates like the map, and converting back gives a map that evaluates
   identically at every point *)
Theorem C19_from_map_eval :
  forall m t x, from_affine_map m = Some t -> forallb is_affine (results m) = true ->
    length x = Z.to_nat (num_dims m) -> at_eval t x = Some (map_eval (env x) no_sym m).
Proof. exact from_map_eval. Qed.
Print Assumptions C19_from_map_eval.

Theorem C19_transform_roundtrip :
  forall m t x sv, from_affine_map m = Some t -> forallb is_affine (results m) = true ->
    length x = Z.to_nat (num_dims m) -> map_eval (env x) sv (to_affine_map t) = map_eval (env x) no_sym m.
Proof. exact transform_roundtrip. Qed.
Print Assumptions C19_transform_roundtrip.

Theorem C19_eval_batch_is_map :
  forall t xs ys, at_eval_batch t xs = Some ys -> Forall2 (fun x y => at_eval t x = Some y) xs ys.
Proof. exact eval_batch_is_map. Qed.
Print Assumptions C19_eval_batch_is_map.

Example C19_roundtrip_nonvacuous :
  let m := AMap 2 0 [EBin KAdd (EBin KMul (EBin KAdd (EDim 0) (ECst 3)) (ECst 4)) (EDim 1); EDim 1] in
  forallb is_affine (results m) = true /\
  from_affine_map m = Some (AT [[4; 1]; [0; 1]] [12; 0] 2).
Proof. split; vm_compute; reflexivity. Qed.

(* the `is_affine` hypothesis is needed: from_affine_map accepts the (raw) product of two dimensions
   and returns a matrix that does not evaluate like the map *)
Example C19_from_map_nonlinear_refuted :
  let m := AMap 2 0 [EBin KMul (EDim 0) (EDim 1)] in
  exists t, from_affine_map m = Some t /\ at_eval t [2; 3] <> Some (map_eval (env [2; 3]) no_sym m).
Proof. eexists. split; [vm_compute; reflexivity | vm_compute; discriminate]. Qed.

(* (b) continued: idempotence of StridePattern.canonicalize on the generated model *)
Theorem C19_stride_canon_idempotent :
  forall p p', Forall (fun b => 0 <= b) (sp_ub p) ->
    StridePattern_canonicalize p = Some p' -> StridePattern_canonicalize p' = Some p'.
Proof. exact stride_canon_idempotent. Qed.
Print Assumptions C19_stride_canon_idempotent.

(* ---- (d) continued: AccessPattern / SchedulePattern canonicalize and inner_dims ------------------ *)
(* every point of the iteration box (dynamic bounds: any index >= 0) is mapped to the same element by the
   canonical pattern at the point with the removed coordinates dropped; the reduced point lies in the
   canonical box (so dimensions with bound None are kept) *)
Theorem C19_access_canonicalize_eval :
  forall p x, wf_ap p -> in_box (ap_bounds p) x ->
    at_eval (ap_pattern (ap_canonicalize p)) (select (map keep_bound (ap_bounds p)) x) = at_eval (ap_pattern p) x
    /\ in_box (ap_bounds (ap_canonicalize p)) (select (map keep_bound (ap_bounds p)) x)
    /\ at_eval (ap_pattern p) x <> None.
Proof. exact ap_canonicalize_eval. Qed.
Print Assumptions C19_access_canonicalize_eval.

(* ... and, when every static bound is >= 1 (SchedulePattern enforces this), every point of the canonical box
   comes from a point of the original box with the same element: canonicalize is a bijection of the boxes *)
Theorem C19_access_canonicalize_onto :
  forall p y, wf_ap p -> pos_bounds (ap_bounds p) -> in_box (ap_bounds (ap_canonicalize p)) y ->
    let x := expand (map keep_bound (ap_bounds p)) y in
    in_box (ap_bounds p) x /\ select (map keep_bound (ap_bounds p)) x = y
    /\ at_eval (ap_pattern p) x = at_eval (ap_pattern (ap_canonicalize p)) y.
Proof. exact ap_canonicalize_onto. Qed.
Print Assumptions C19_access_canonicalize_onto.

(* the hypothesis is needed: a bound 0 is dropped like a bound 1, the empty box becomes a non-empty one
   (AccessPattern / TemplatePattern accept a bound 0; modelled as is) *)
Example C19_access_canonicalize_zero_bound_not_onto :
  let p := AP [Some 0; Some 4] (AT [[1; 2]] [0] 2) in
  wf_ap p /\ in_box (ap_bounds (ap_canonicalize p)) [3] /\ forall x, ~ in_box (ap_bounds p) x.
Proof.
  split; [split; reflexivity|]. split; [repeat constructor; lia|].
  intros x H. inversion H as [|? v ? ? [H0 H1]]; subst. lia.
Qed.

Theorem C19_access_canonicalize_idempotent :
  forall p, wf_ap p -> ap_canonicalize (ap_canonicalize p) = ap_canonicalize p.
Proof. exact ap_canonicalize_idempotent. Qed.
Print Assumptions C19_access_canonicalize_idempotent.

(* inner_dims(dim) evaluated at x' = the pattern evaluated at (0, ..., 0, x'); bounds are the last dim bounds *)
Theorem C19_access_inner_dims_eval :
  forall p dim q x', wf_ap p -> ap_inner_dims p dim = Some q -> length x' = tn (ap_pattern q) ->
    at_eval (ap_pattern q) x' = at_eval (ap_pattern p) (repeat 0 (tn (ap_pattern p) - length x') ++ x')
    /\ ap_bounds q = take_last (Z.to_nat dim) (ap_bounds p).
Proof. exact ap_inner_dims_eval. Qed.
Print Assumptions C19_access_inner_dims_eval.

Example C19_access_canonicalize_nonvacuous :
  let p := AP [Some 1; None; Some 4; Some 1] (AT [[7; 2; 3; 9]; [0; 1; 0; 5]] [10; 0] 4) in
  ap_canonicalize p = AP [None; Some 4] (AT [[2; 3]; [1; 0]] [10; 0] 2) /\ in_box (ap_bounds p) [0; 6; 3; 0].
Proof. split; [reflexivity | repeat constructor; lia]. Qed.

Example C19_access_canonicalize_onto_nonvacuous :
  let p := AP [Some 1; None; Some 4; Some 1] (AT [[7; 2; 3; 9]; [0; 1; 0; 5]] [10; 0] 4) in
  wf_ap p /\ pos_bounds (ap_bounds p) /\ in_box (ap_bounds (ap_canonicalize p)) [6; 3]
  /\ expand (map keep_bound (ap_bounds p)) [6; 3] = [0; 6; 3; 0].
Proof. split; [split; reflexivity|]. split; [repeat constructor; lia|]. split; [repeat constructor; lia|reflexivity]. Qed.

(* ---- (e) print / parse of the custom attributes (token-level model Model/C19Text.v) ---------------- *)
From Snax Require Import Model.C19Text Proofs.C19TextProofs.

(* StridePattern: parsing the printed tokens gives back the attribute (any integers, any lengths with
   len(ub) = len(ts), which the attribute verifier requires), followed by any remaining tokens *)
Theorem C19_stride_pattern_print_parse :
  forall p rest, length (sp_ub p) = length (sp_ts p) -> parse_sp (print_sp p ++ rest) = Some (p, rest).
Proof. exact sp_print_parse. Qed.
Print Assumptions C19_stride_pattern_print_parse.

(* streamer configuration: print then parse returns the same streamers with system type Regular ... *)
Theorem C19_streamer_cfg_print_parse_partial :
  forall c rest, cfg_ok c -> sc_sys c = SysRegular -> parse_cfg (print_cfg c ++ rest) = Some (c, rest).
Proof. exact cfg_print_parse_regular. Qed.
Print Assumptions C19_streamer_cfg_print_parse_partial.

(* ... so the full statement is refuted for every xDMA configuration (known finding F13,
   class xdma_system_type_print) *)
Theorem C19_streamer_cfg_print_parse_refuted :
  forall c rest, cfg_ok c -> sc_sys c = SysXdma ->
    exists c', parse_cfg (print_cfg c ++ rest) = Some (c', rest) /\ c' <> c /\ sc_streamers c' = sc_streamers c.
Proof. exact cfg_print_parse_xdma_refuted. Qed.
Print Assumptions C19_streamer_cfg_print_parse_refuted.

Example C19_streamer_cfg_nonvacuous :
  let c := SConfig [Streamer SReader [FNormal; FReuse] [8; 8] [OAddrRemap; OByteMask]; Streamer SWriter [] [] []] SysRegular in
  cfg_ok c /\ length (print_cfg c) = 31%nat.
Proof.
  split; [split; [discriminate|] | reflexivity].
  constructor; [unfold streamer_ok; cbn; repeat constructor; lia|].
  constructor; [unfold streamer_ok; cbn; constructor | constructor].
Qed.
