(* C19 — canonical forms and alternative representations denote the same object.
   Only theorem statements closed by `exact` (or a one-line combination), each followed by
   Print Assumptions; plus non-vacuity examples. *)
From Coq Require Import Permutation.
From Snax Require Import Base.Prelude Model.C19Pack Proofs.C19PackProofs.

(* ---- (c) pack_bitlist ------------------------------------------------------------------------ *)
(* For every list of values and offsets (Python ints or SSA values with any run-time contents), of
   any length >= 1, at any width w >= 0: the last op of the emitted shl/or DAG holds the or of the
   fields `value << offset`, low w bits. *)
Theorem C19_pack_value :
  forall w ext vs os ops, 0 <= w ->
    pack_bitlist vs os w = Some ops -> vs <> [] ->
    pack_result w ext ops = pack_spec w ext vs os.
Proof. intros w ext vs os ops Hw. exact (pack_value w ext Hw vs os ops). Qed.
Print Assumptions C19_pack_value.

(* ... and that word does not depend on the shape of the or-tree: any tree over a permutation of
   the shifted fields evaluates to the same word. *)
Theorem C19_pack_any_shape :
  forall w ext vs os ops t, 0 <= w ->
    pack_bitlist vs os w = Some ops -> vs <> [] ->
    Permutation (ot_leaves t)
      (map (fun vo => Z.shiftl (operand_val w ext (fst vo)) (operand_val w ext (snd vo))) (combine vs os)) ->
    pack_result w ext ops = wrap w (ot_eval t).
Proof.
  intros w ext vs os ops t Hw H Hne HP. rewrite (pack_value w ext Hw vs os ops H Hne).
  unfold pack_spec. rewrite ot_eval_leaves, (fold_lor_perm _ _ HP). reflexivity.
Qed.
Print Assumptions C19_pack_any_shape.

(* the generator fails exactly on a length mismatch or an integer that does not fit dtype *)
Theorem C19_pack_error :
  forall w vs os,
    pack_bitlist vs os w = None <->
    (length vs <> length os \/
     exists vo, In vo (combine vs os) /\ (operand_in_range w (fst vo) && operand_in_range w (snd vo)) = false).
Proof. exact pack_error. Qed.
Print Assumptions C19_pack_error.

Example C19_pack_nonvacuous :
  let vs := [PInt 1; PVal 0; PInt (-3); PInt 128] in
  let os := [PInt 0; PInt 8; PVal 1; PInt 24] in
  exists ops, pack_bitlist vs os 32 = Some ops /\ length ops = 13%nat
    /\ pack_result 32 (fun i => if Nat.eqb i 0 then 5 else 16) ops = 4294771969.
Proof. eexists. split; [reflexivity|]. split; vm_compute; reflexivity. Qed.

(* ---- (a) canonicalize_affine.py (generated model Gen/CanonAffine.v) --------------------------- *)
From Snax Require Import Model.PyLib Model.XdslAffine Gen.CanonAffine Proofs.C19CanonProofs.

(* Whenever canonicalize_expr returns (no assertion failure, no RecursionError), the result evaluates
   like the input at every point (dims and symbols any integers).  // and % are floor division and
   modulo; no positivity side condition is needed: the only div/mod rewrites are x // 1 = x, x % 1 = 0. *)
Theorem C19_canon_eval :
  forall fuel e r, canonicalize_expr fuel e = Some r -> forall dv sv, eval dv sv r = eval dv sv e.
Proof. exact canon_eval. Qed.
Print Assumptions C19_canon_eval.

Theorem C19_canon_map_eval :
  forall fuel m m', canonicalize_map fuel m = Some m' ->
    num_dims m' = num_dims m /\ num_symbols m' = num_symbols m /\
    forall dv sv, map_eval dv sv m' = map_eval dv sv m.
Proof. exact canon_map_eval. Qed.
Print Assumptions C19_canon_map_eval.

(* idempotence: the result of a terminating run is a fixed point of canonicalize_expr (Python has no fuel:
   "canonicalize_expr(r) terminates with r" = some recursion budget f0 suffices) *)
Theorem C19_canon_idempotent :
  forall fuel e r, canonicalize_expr fuel e = Some r ->
    exists f0, (f0 <= fuel)%nat /\ canonicalize_expr f0 r = Some r.
Proof. exact canon_idempotent. Qed.
Print Assumptions C19_canon_idempotent.

(* non-vacuity: reassociation + reordering + distribution really happen *)
Example C19_canon_nonvacuous :
  let e := EBin KMul (EBin KAdd (EBin KAdd (EDim 1) (ECst 3)) (EDim 0)) (ECst 4) in
  exists r, canonicalize_expr 50 e = Some r /\ r <> e.
Proof. eexists. split; [vm_compute; reflexivity | discriminate]. Qed.

(* known finding F22 (class canon_sum_folds_to_leaf): the assert after reassociation fails *)
Example C19_canon_assert_refuted :
  canonicalize_expr 50 (EBin KAdd (EBin KAdd (EDim 0) (ECst 2)) (ECst (-2))) = None.
Proof. vm_compute. reflexivity. Qed.

(* ---- (b) StridePattern.canonicalize (generated model Gen/StrideCanon.v) ------------------------ *)
From Snax Require Import Model.C19Stride Gen.StrideCanon Proofs.C19StrideProofs.

(* For every stride pattern with non-negative upper bounds (any rank; zero bounds, zero strides, unit
   bounds, negative strides included) the canonical pattern produces the same sequence of temporal
   addresses, in the same order, and keeps the spatial strides. *)
Theorem C19_stride_canon_words :
  forall p p', Forall (fun b => 0 <= b) (sp_ub p) -> StridePattern_canonicalize p = Some p' ->
    sp_ss p' = sp_ss p /\ taddrs p' = taddrs p.
Proof. exact stride_canon_words. Qed.
Print Assumptions C19_stride_canon_words.

Theorem C19_stride_canon_total : forall p, exists p', StridePattern_canonicalize p = Some p'.
Proof. exact stride_canon_total. Qed.
Print Assumptions C19_stride_canon_total.

Example C19_stride_nonvacuous :
  let p := SP [4; 1; 2; 0; 3] [8; 5; 32; 7; 0] [1] in
  Forall (fun b => 0 <= b) (sp_ub p) /\ StridePattern_canonicalize p = Some (SP [8; 0] [8; 0] [1]).
Proof. split; [repeat constructor; lia | vm_compute; reflexivity]. Qed.

(* the hypothesis is needed: with two negative bounds the merged bound is positive *)
Example C19_stride_negative_bounds_refuted :
  let p := SP [-2; -3] [1; -2] [1] in
  exists p', StridePattern_canonicalize p = Some p' /\ taddrs p = [] /\ taddrs p' <> [].
Proof. eexists. split; [vm_compute; reflexivity|]. split; [reflexivity | vm_compute; discriminate]. Qed.

(* ---- (d) AffineTransform (hand model Model/C19Transform.v) ------------------------------------- *)
From Snax Require Import Model.C19Transform Proofs.C19TransformProofs.

(* compose(s, o) applied to x = s applied to (o applied to x), for all well-shaped integer matrices *)
Theorem C19_compose_eval :
  forall s o c x y, wf_atrans s = true -> wf_atrans o = true ->
    at_compose s o = Some c -> at_eval o x = Some y -> at_eval c x = at_eval s y.
Proof. exact compose_eval. Qed.
Print Assumptions C19_compose_eval.

(* the affine map built from (A, b) evaluates to A x + b at every point *)
Theorem C19_to_map_eval :
  forall t x y sv, wf_atrans t = true -> at_eval t x = Some y -> map_eval (env x) sv (to_affine_map t) = y.
Proof. exact to_map_eval. Qed.
Print Assumptions C19_to_map_eval.

(* for every pure-affine map (+, * by constant expressions; any nesting) the matrix obtained from the
   zero / unit responses evaluates like the map, and converting back gives a map that evaluates
   identically at every point *)
Theorem C19_from_map_eval :
  forall m t x, from_affine_map m = Some t -> forallb is_affine (results m) = true ->
    length x = Z.to_nat (num_dims m) -> at_eval t x = Some (map_eval (env x) no_sym m).
Proof. exact from_map_eval. Qed.
Print Assumptions C19_from_map_eval.

Theorem C19_transform_roundtrip :
  forall m t x sv, from_affine_map m = Some t -> forallb is_affine (results m) = true ->
    length x = Z.to_nat (num_dims m) -> map_eval (env x) sv (to_affine_map t) = map_eval (env x) no_sym m.
Proof. exact transform_roundtrip. Qed.
Print Assumptions C19_transform_roundtrip.

Theorem C19_eval_batch_is_map :
  forall t xs ys, at_eval_batch t xs = Some ys -> Forall2 (fun x y => at_eval t x = Some y) xs ys.
Proof. exact eval_batch_is_map. Qed.
Print Assumptions C19_eval_batch_is_map.

Example C19_roundtrip_nonvacuous :
  let m := AMap 2 0 [EBin KAdd (EBin KMul (EBin KAdd (EDim 0) (ECst 3)) (ECst 4)) (EDim 1); EDim 1] in
  forallb is_affine (results m) = true /\
  from_affine_map m = Some (AT [[4; 1]; [0; 1]] [12; 0] 2).
Proof. split; vm_compute; reflexivity. Qed.

(* the `is_affine` hypothesis is needed: from_affine_map accepts the (raw) product of two dimensions
   and returns a matrix that does not evaluate like the map *)
Example C19_from_map_nonlinear_refuted :
  let m := AMap 2 0 [EBin KMul (EDim 0) (EDim 1)] in
  exists t, from_affine_map m = Some t /\ at_eval t [2; 3] <> Some (map_eval (env [2; 3]) no_sym m).
Proof. eexists. split; [vm_compute; reflexivity | vm_compute; discriminate]. Qed.

(* (b) continued: idempotence of StridePattern.canonicalize on the generated model *)
Theorem C19_stride_canon_idempotent :
  forall p p', Forall (fun b => 0 <= b) (sp_ub p) ->
    StridePattern_canonicalize p = Some p' -> StridePattern_canonicalize p' = Some p'.
Proof. exact stride_canon_idempotent. Qed.
Print Assumptions C19_stride_canon_idempotent.
