(* C18 — kernel recognition and expansion preserve the scalar function.
   Only theorem statements closed by `exact`, each followed by Print Assumptions.
   Model: Model/C18FixedWidth.v, Model/C18Kernel.v (mirrors the code after the repairs of F16/F17).
   Scalars are signed representatives in Z; every theorem holds for ALL integers, in particular for all
   values of the operand widths; wrap-around is `wrap w`, sign extension keeps the representative. *)
From Snax Require Import Base.Prelude Model.C18FixedWidth Model.C18Kernel Model.C18Wiring Proofs.C18KernelProofs Proofs.C18WiringProofs.

(* expanding a kernel op (convert-kernel-to-linalg = equivalent_region) computes the kernel's formula *)
Theorem C18_expand_sound : forall k tys args,
  well_typed k tys = true ->
  eval_body (equivalent_region k tys) args = [eval_kernel k tys args].
Proof. exact expand_sound. Qed.
Print Assumptions C18_expand_sound.

(* a recognised body is literally the kernel's region (same ops, result types, wiring) ... *)
Theorem C18_recognise_only_regions : forall b k,
  recognise b = Some k -> b = equivalent_region k (argtys b) /\ In k parsable.
Proof. exact recognise_only_regions. Qed.
Print Assumptions C18_recognise_only_regions.

(* ... hence computes the same function of the scalar inputs as the kernel op that replaces it *)
Theorem C18_recognise_sound : forall b k args,
  recognise b = Some k ->
  well_typed k (argtys b) = true ->
  eval_body b args = [eval_kernel k (argtys b) args].
Proof. exact recognise_sound. Qed.
Print Assumptions C18_recognise_sound.

(* ... for every recognised body that is valid IR (operand types agree, extsi widens, the yielded
   value has the output type): no assumption about the kernel is left *)
Theorem C18_recognise_sound_typed : forall b k args,
  recognise b = Some k -> body_typed b = true ->
  eval_body b args = [eval_kernel k (argtys b) args].
Proof. exact recognise_sound_typed. Qed.
Print Assumptions C18_recognise_sound_typed.

(* bodies with the same kinds of ops wired differently are left unchanged *)
Theorem C18_recognise_unchanged_otherwise : forall b,
  (forall k, In k parsable -> b <> equivalent_region k (argtys b)) -> recognise b = None.
Proof. exact recognise_unchanged_otherwise. Qed.
Print Assumptions C18_recognise_unchanged_otherwise.

(* documentation of F16: the op-type-sequence comparison is unsound (x*x -> kernel.mul x, y) *)
Theorem C18_recognise_optypes_refuted :
  exists b k args,
    recognise_optypes b = Some k /\ well_typed k (argtys b) = true /\
    eval_body b args <> [eval_kernel k (argtys b) args] /\ recognise b = None.
Proof. exact recognise_optypes_refuted. Qed.
Print Assumptions C18_recognise_optypes_refuted.

(* a kernel is only dispatched to an accelerator that declares that kernel with those operand types *)
Theorem C18_dispatch_declared : forall accs k tys n,
  dispatch accs k tys = DOk (Some n) ->
  exists a, In a accs /\ acc_name a = n /\ In (mkSup k tys) (acc_supported a).
Proof. exact dispatch_declared. Qed.
Print Assumptions C18_dispatch_declared.

Theorem C18_dispatch_complete : forall accs k tys a,
  In a accs -> In (mkSup k tys) (acc_supported a) -> dispatch accs k tys <> DOk None.
Proof. exact dispatch_complete. Qed.
Print Assumptions C18_dispatch_complete.

(* documentation of F17 *)
Theorem C18_dispatch_old_refuted :
  exists accs k tys n,
    dispatch_old accs k tys = DOk (Some n) /\
    (forall a, In a accs -> ~ In (mkSup k tys) (acc_supported a)) /\
    dispatch accs k tys = DOk None.
Proof. exact dispatch_old_refuted. Qed.
Print Assumptions C18_dispatch_old_refuted.

(* rescale: the expanded body equals the repo's golden model on the safe inputs ... *)
Theorem C18_rescale_expand_vs_golden : forall p x,
  rescale_safe p x = true -> expand_rescale p x = golden_rescale p x.
Proof. exact rescale_expand_vs_golden. Qed.
Print Assumptions C18_rescale_expand_vs_golden.

(* ... and differs when double rounding is requested (known finding F18, documented limitation) *)
Theorem C18_rescale_double_round_refuted :
  exists p x, double_round p = true /\ expand_rescale p x <> golden_rescale p x.
Proof. exact rescale_double_round_refuted. Qed.
Print Assumptions C18_rescale_double_round_refuted.

(* ---- non-vacuity *)
Example C18_recognise_nonvacuous :
  let b := mkBody [8; 8; 32] [mkOp KExt 32 [SArg 0]; mkOp KExt 32 [SArg 1];
                              mkOp KMul 32 [SRes 0; SRes 1]; mkOp KAdd 32 [SArg 2; SRes 2]] [SRes 3] in
  recognise b = Some KMacK /\ well_typed KMacK (argtys b) = true /\
  eval_body b [-128; -128; 2147483647] = [-2147467265].
Proof. split; [reflexivity|]. split; reflexivity. Qed.
Print Assumptions C18_recognise_nonvacuous.

Example C18_unchanged_nonvacuous :
  let b := mkBody [32; 32; 32] [mkOp KMul 32 [SArg 2; SArg 2]; mkOp KAdd 32 [SRes 0; SRes 0]] [SRes 1] in
  (forall k, In k parsable -> b <> equivalent_region k (argtys b)) /\ recognise_optypes b = Some KMacK.
Proof.
  split; [|reflexivity]. intros k [<-|[<-|[<-|[<-|[]]]]]; discriminate.
Qed.
Print Assumptions C18_unchanged_nonvacuous.

Example C18_rescale_safe_nonvacuous :
  rescale_safe (mkR 3 (-5) 1140768826 38 127 (-128) false) 70000 = true /\
  expand_rescale (mkR 3 (-5) 1140768826 38 127 (-128) false) 70000 <> -5.
Proof. split; [reflexivity|vm_compute; discriminate]. Qed.
Print Assumptions C18_rescale_safe_nonvacuous.

(* ---- added by the audit -------------------------------------------------------------------------------- *)
(* Expansion in context (LowerLinalgBody after the repair of F-C18-2): a kernel op applied to ANY list of block
   arguments (permuted, duplicated) in a body that yields ANY mix of the kernel result and block arguments expands
   to a body computing the same function, for all integers. *)
Theorem C18_expand_wired_sound : forall kb args,
  well_typed (kk kb) (ktys kb) = true ->
  eval_body (expand_kbody kb) args = eval_kbody kb args.
Proof. exact expand_wired_sound. Qed.
Print Assumptions C18_expand_wired_sound.

(* documentation of F-C18-2: the positional expansion (the equivalent region as it is) changed the function of
   `kernel.mul %x0, %x0` to x0 * x1 *)
Theorem C18_expand_positional_refuted :
  exists kb args,
    well_typed (kk kb) (ktys kb) = true /\ canonical kb = false /\
    eval_body (expand_kbody_positional kb) args <> eval_kbody kb args /\
    eval_body (expand_kbody kb) args = eval_kbody kb args.
Proof. exact expand_positional_refuted. Qed.
Print Assumptions C18_expand_positional_refuted.

(* LowerRescale and the result type (F-C18-3 repaired, /repo 97622cd): the expansion converts the clamped i32 value
   to the result type of the op; the yielded value is well typed for every result width and is the golden
   model's value on the safe inputs; before the repair it was an i8 whatever the result type. *)
Theorem C18_rescale_result_i8_ok : forall p,
  rescale_region_for 8 p = rescale_region p /\ yield_typed (rescale_region_for 8 p) = true.
Proof. exact rescale_result_i8_ok. Qed.
Print Assumptions C18_rescale_result_i8_ok.

Theorem C18_rescale_result_typed : forall wout p, yield_typed (rescale_region_for wout p) = true.
Proof. exact rescale_result_typed. Qed.
Print Assumptions C18_rescale_result_typed.

Theorem C18_rescale_for_vs_golden : forall wout p x out,
  rescale_safe_w wout p x = true ->
  eval_body (rescale_region_for wout p) [x; out] = [golden_rescale p x].
Proof. exact rescale_for_vs_golden. Qed.
Print Assumptions C18_rescale_for_vs_golden.

Theorem C18_rescale_result_not_i8_refuted :
  exists wout p x,
    rescale_result_not_i8 wout = true /\ rescale_safe_w wout p x = true /\
    yield_typed (rescale_region_for_old wout p) = false /\
    eval_body (rescale_region_for_old wout p) [x; 0] <> [golden_rescale p x] /\
    eval_body (rescale_region_for wout p) [x; 0] = [golden_rescale p x].
Proof. exact rescale_result_not_i8_refuted. Qed.
Print Assumptions C18_rescale_result_not_i8_refuted.

(* per-channel parameters: the whole class of F18 is the Gallina predicate rescale_safe_pc *)
Theorem C18_rescale_pc_expand_vs_golden : forall q c x,
  rescale_safe_pc q c x = true -> expand_rescale_pc q x = golden_rescale_pc q c x.
Proof. exact rescale_pc_expand_vs_golden. Qed.
Print Assumptions C18_rescale_pc_expand_vs_golden.

Theorem C18_rescale_per_channel_refuted :
  exists q c x, pc_dr q = false /\ rescale_safe (chan q c) x = true /\ expand_rescale_pc q x <> golden_rescale_pc q c x.
Proof. exact rescale_per_channel_refuted. Qed.
Print Assumptions C18_rescale_per_channel_refuted.

Example C18_expand_wired_nonvacuous :
  let kb := mkKBody [8; 8; 32; 32; 32] KQMacK 32 [1%nat; 0%nat; 3%nat; 3%nat] [None; Some 4%nat] in
  well_typed (kk kb) (ktys kb) = true /\ canonical kb = false /\
  eval_body (expand_kbody kb) [5; -7; 100; 2; 1000] = [1000 + (-7 - 2) * (5 - 2); 1000].
Proof. split; [reflexivity|]. split; reflexivity. Qed.
Print Assumptions C18_expand_wired_nonvacuous.
