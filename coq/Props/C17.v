(* C17 — loop restructuring preserves the executed operation sequence.
   Only theorem statements closed by `exact`, each followed by Print Assumptions.
   Model: Model/C17Loop.v (loop IR, trace semantics, one function per rewrite pattern).
   Every theorem quantifies over all bounds / steps / loop bodies / environments (values of the free
   names, i.e. function arguments and everything computed before the rewritten op). *)
From Snax Require Import Base.Prelude Model.C17Loop Proofs.C17LoopProofs Proofs.C17ContextProofs Proofs.C17WfProofs.

(* ChangeForStep (after the repair of F14): same events, same operands, same order; the environment seen
   by the rest of the block differs only on the fresh names introduced by the rewrite. *)
Theorem C17_change_step_trace : forall Sc fresh o ops e h,
  change_step Sc fresh o = Some ops ->
  scope_ok Sc e ->
  (forall v, In v (vars_op o) -> (v < fresh)%nat) ->
  trace ops e h = snd (exec_op o e h) /\
  agree (fresh_from fresh) (fst (exec_block ops e h)) (fst (exec_op o e h)).
Proof. exact change_step_trace. Qed.
Print Assumptions C17_change_step_trace.

(* documentation of F14: with `ub // step` the statement is false (ub = 10, step = 4) *)
Theorem C17_change_step_refuted_floor :
  exists b b',
    apply_at (fun Sc o => change_step_floor Sc (S (maxvar b)) o) [3%nat] [] b = Some b' /\
    trace b env0 [] <> trace b' env0 [].
Proof. exact change_step_refuted_floor. Qed.
Print Assumptions C17_change_step_refuted_floor.

(* MergeForLoops (after the repairs of F15 and F15b). *)
Theorem C17_merge_trace : forall Sc fresh j o ops e h,
  merge_loops Sc fresh j o = Some ops ->
  scope_ok Sc e ->
  (forall v, In v (vars_op o) -> (v < fresh)%nat) ->
  (forall iv lb ub st body, o = For iv lb ub st body ->
     NoDup (map fst (defs_top body)) /\ ~ In iv (map fst (defs_top body)) /\ ~ In iv (map fst Sc)) ->
  trace ops e h = snd (exec_op o e h) /\
  agree (fresh_from fresh) (fst (exec_block ops e h)) (fst (exec_op o e h)).
Proof. exact merge_trace. Qed.
Print Assumptions C17_merge_trace.

Theorem C17_merge_refuted_without_nest_check :
  exists b b',
    apply_at (fun Sc o => merge_loops_no_nest_check Sc (S (maxvar b)) 1 o) [4%nat] [] b = Some b' /\
    trace b env0 [] <> trace b' env0 [] /\
    apply_at (fun Sc o => merge_loops Sc (S (maxvar b)) 1 o) [4%nat] [] b = None.
Proof. exact merge_refuted_without_nest_check. Qed.
Print Assumptions C17_merge_refuted_without_nest_check.

Theorem C17_merge_refuted_without_sign_check :
  exists b b',
    apply_at (fun Sc o => merge_loops_no_neg_check Sc (S (maxvar b)) 0 o) [4%nat] [] b = Some b' /\
    trace b env0 [] <> trace b' env0 [] /\
    apply_at (fun Sc o => merge_loops Sc (S (maxvar b)) 0 o) [4%nat] [] b = None.
Proof. exact merge_refuted_without_sign_check. Qed.
Print Assumptions C17_merge_refuted_without_sign_check.

(* LoopHoistPureOperations: moving a pure op / an alloc whose operands are defined outside the loop in
   front of the loop keeps the trace, also for zero-trip loops; only the hoisted name becomes visible
   after the loop. *)
Theorem C17_hoist_trace : forall Sc j o ops e h,
  hoist Sc j o = Some ops ->
  hoist_side j o ->
  trace ops e h = snd (exec_op o e h) /\
  agree (hoisted_name j o) (fst (exec_block ops e h)) (fst (exec_op o e h)).
Proof. exact hoist_trace. Qed.
Print Assumptions C17_hoist_trace.

(* Any rule, at any position of a well-formed SSA program, from any environment of the free names. *)
Theorem C17_rewrite_trace : forall r path args b b' e h,
  wf_prog args b = true ->
  rewrite r path b = Some b' ->
  trace b' e h = trace b e h.
Proof. exact rewrite_trace. Qed.
Print Assumptions C17_rewrite_trace.

(* ... and any finite sequence of rule applications whose intermediate programs are well-formed SSA. *)
Theorem C17_rewrite_seq_trace : forall steps args b b' e h,
  rewrite_seq args steps b = Some b' ->
  trace b' e h = trace b e h.
Proof. exact rewrite_seq_trace. Qed.
Print Assumptions C17_rewrite_seq_trace.

(* The rewrites preserve well-formedness, hence: ANY finite sequence of rule applications (any rules, any
   positions, any order - independent of the greedy driver) starting from a well-formed SSA program
   preserves the trace from every environment.  No condition on the intermediate programs. *)
Theorem C17_rewrite_seq_in_trace : forall steps args b b',
  wf_prog args b = true ->
  rewrite_seq_in args steps b = Some b' ->
  (forall e h, trace b' e h = trace b e h) /\ wf_prog args b' = true.
Proof. exact rewrite_seq_in_trace. Qed.
Print Assumptions C17_rewrite_seq_in_trace.

(* MoveMemrefDims: the IR surgery itself (new constant / new memref.dim in front of the loop or an existing
   dominating value, every use of the dim redirected, the dim erased) is a rule of the rule set: it preserves
   the trace in any context of a well-formed program (scope invariant: every dominating definition holds its
   defining equation) and preserves well-formedness, so it takes part in C17_rewrite_seq_in_trace (rule
   constructor RMoveDim).  Guarded model: the affine.min case (F22) and replacements that do not dominate the
   loop are outside (move_dim answers None). *)
Theorem C17_move_dim_surgery_trace : forall fresh j,
  rule_sound (fun Sc o => move_dim Sc fresh j o) fresh.
Proof. exact move_dim_sound. Qed.
Print Assumptions C17_move_dim_surgery_trace.

Theorem C17_move_dim_surgery_wf : forall fresh j,
  rule_wf (fun Sc o => move_dim Sc fresh j o) fresh.
Proof. exact move_dim_wf. Qed.
Print Assumptions C17_move_dim_surgery_wf.

Example C17_move_dim_surgery_nonvacuous :
  let b := ([Def 2 (PConst 0%Z); Def 3 (PConst 1%Z); Def 4 (PConst 4%Z);
             For 5 2 4 3 [Def 6 (PSubview 1 [DDyn 4; DStatic 7%Z]); Def 7 (PDim 6 3);
                          Def 8 (PDim 1 2); Def 9 (PAlloc [DDyn 7; DDyn 8]); Eff 1 [9; 5]]])%nat in
  wf_prog [0%nat; 1%nat] b = true /\
  exists b1 b2, rewrite_seq_in [0%nat; 1%nat] [(RMoveDim 1, [3%nat]); (RMoveDim 1, [4%nat])] b = Some b2 /\
                rewrite_in [0%nat; 1%nat] (RMoveDim 1) [3%nat] b = Some b1 /\
                block_eqb b1 b = false /\ block_eqb b2 b1 = false /\ wf_prog [0%nat; 1%nat] b2 = true.
Proof. split; [reflexivity|]. eexists. eexists. split; [vm_compute; reflexivity|]. split; [vm_compute; reflexivity|]. split; [|split]; reflexivity. Qed.
Print Assumptions C17_move_dim_surgery_nonvacuous.

(* MoveMemrefDims: outside the affine.min case the replacement has the value of the dim it replaces,
   on every iteration. *)
Theorem C17_move_dim_value : forall fuel Sin Sout src idx r e,
  resolve_dim fuel Sin Sout src idx = Some r ->
  defs_ok (Sin ++ Sout) e ->
  repl_safe r = true ->
  eval_repl e r = nth (Z.to_nat idx) (shape_of (e src)) 0.
Proof. exact move_dim_value. Qed.
Print Assumptions C17_move_dim_value.

(* the affine.min case (known finding F22): right exactly when the minimum is the first map result *)
Theorem C17_move_dim_min_iff : forall fuel Sin Sout src idx v c e,
  resolve_dim fuel Sin Sout src idx = Some (RMin v c) ->
  defs_ok (Sin ++ Sout) e ->
  (eval_repl e (RMin v c) = nth (Z.to_nat idx) (shape_of (e src)) 0 <-> as_int (e v) = c).
Proof. exact move_dim_min_iff. Qed.
Print Assumptions C17_move_dim_min_iff.

Theorem C17_move_dim_min_refuted :
  exists Sin Sout src idx v c e,
    resolve_dim 3 Sin Sout src idx = Some (RMin v c) /\ defs_ok (Sin ++ Sout) e /\
    eval_repl e (RMin v c) <> nth (Z.to_nat idx) (shape_of (e src)) 0.
Proof. exact move_dim_min_refuted. Qed.
Print Assumptions C17_move_dim_min_refuted.

(* ---- non-vacuity: each rule fires on a concrete well-formed program and changes it *)
Example C17_change_step_nonvacuous :
  wf_prog [] c17_step_witness = true /\
  exists b', rewrite RChangeStep [3%nat] c17_step_witness = Some b' /\ block_eqb b' c17_step_witness = false /\
             length (trace b' env0 []) = 3%nat.
Proof. split; [reflexivity|]. eexists. split; [vm_compute; reflexivity|]. split; reflexivity. Qed.
Print Assumptions C17_change_step_nonvacuous.

Example C17_merge_nonvacuous :
  let b := ([Def 0 (PConst 0%Z); Def 1 (PConst 2%Z); Def 2 (PConst 3%Z); Def 3 (PConst 1%Z);
             For 4 0 1 3 [Def 6 (PBin BAdd 4 4); For 5 0 2 3 [Eff 1 [4; 5; 6]]]])%nat in
  wf_prog [] b = true /\
  exists b', rewrite (RMerge 1) [4%nat] b = Some b' /\ length (trace b' env0 []) = 6%nat.
Proof. split; [reflexivity|]. eexists. split; [vm_compute; reflexivity|]. reflexivity. Qed.
Print Assumptions C17_merge_nonvacuous.

Example C17_hoist_nonvacuous :
  let b := ([Def 0 (PConst 0%Z); Def 1 (PConst 0%Z); Def 3 (PConst 1%Z); Def 7 (PConst 5%Z);
             For 4 0 1 3 [Eff 0 [4]; Def 6 (PAlloc [DDyn 7; DStatic 8%Z]); Eff 1 [6]]])%nat in
  wf_prog [] b = true /\
  exists b', rewrite (RHoist 1) [4%nat] b = Some b' /\ block_eqb b' b = false.
Proof. split; [reflexivity|]. eexists. split; [vm_compute; reflexivity|]. reflexivity. Qed.
Print Assumptions C17_hoist_nonvacuous.

(* MoveMemrefDims size resolution (added by the audit): the hypotheses of C17_move_dim_value are satisfiable by a
   chain that passes through a memref.dim kept in the loop: dim(subview(m0)[%d, 4], 0) with %d = dim(m0, 1)
   resolves to a new dim(m0, 1) in front of the loop, whose value (7) is the value of the replaced dim. *)
Example C17_move_dim_nonvacuous :
  let Sin := [(3%nat, PSubview 0%nat [DDyn 2%nat; DStatic 4]); (2%nat, PDim 0%nat 1%nat)] in
  let Sout := [(1%nat, PConst 1)] in
  let e := env_of [(3%nat, VMem 9 [7; 4]); (2%nat, VInt 7); (1%nat, VInt 1); (0%nat, VMem 9 [5; 7])] in
  resolve_dim 8 Sin Sout 3%nat 0 = Some (RNewDim 0%nat 1) /\ repl_safe (RNewDim 0%nat 1) = true /\
  defs_ok (Sin ++ Sout) e /\ eval_repl e (RNewDim 0%nat 1) = 7 /\ nth (Z.to_nat 0) (shape_of (e 3%nat)) 0 = 7.
Proof.
  cbn zeta. split; [reflexivity|]. split; [reflexivity|]. split; [|split; reflexivity].
  intros v p H. cbn in H.
  destruct v as [|[|[|[|v]]]]; cbn in H; try discriminate; inversion H; subst; reflexivity.
Qed.
Print Assumptions C17_move_dim_nonvacuous.

(* Memory: stores are events and heap entries, loads return the value last stored at the address.  A
   memref.load is not hoistable (the real pattern requires `Pure`); hoisting one over a store to the same
   address changes the VALUE an opaque op observes.  The theorems above hold for this semantics, for every
   initial heap h. *)
Example C17_load_hoist_changes_observed_value :
  let b := ([Def 2 (PConst 0%Z); Def 3 (PConst 1%Z); Def 4 (PConst 2%Z); Def 5 (PAlloc [DStatic 4%Z]);
             For 6 2 4 3 [Def 7 (PLoad 5 [2]); Eff 1 [7]; Def 8 (PBin BAdd 7 3); Eff 0 [8; 5; 2]]])%nat in
  let hoisted := ([Def 2 (PConst 0%Z); Def 3 (PConst 1%Z); Def 4 (PConst 2%Z); Def 5 (PAlloc [DStatic 4%Z]);
             Def 7 (PLoad 5 [2]);
             For 6 2 4 3 [Eff 1 [7]; Def 8 (PBin BAdd 7 3); Eff 0 [8; 5; 2]]])%nat in
  wf_prog [] b = true /\
  rewrite_in [] (RHoist 0) [4%nat] b = None /\              (* the model (as the code) does not hoist the load *)
  map (fun ev => (fst ev, hd (VInt 0) (snd ev))) (trace b env0 []) =
    [(1%nat, VInt 0); (0%nat, VInt 1); (1%nat, VInt 1); (0%nat, VInt 2)] /\
  map (fun ev => (fst ev, hd (VInt 0) (snd ev))) (trace hoisted env0 []) =
    [(1%nat, VInt 0); (0%nat, VInt 1); (1%nat, VInt 0); (0%nat, VInt 1)].
Proof. split; [reflexivity|]. split; [reflexivity|]. split; reflexivity. Qed.
Print Assumptions C17_load_hoist_changes_observed_value.
