(* C04 — CSR lowering writes every field to its declared register.
   Only theorem statements closed by `exact`, each followed by Print Assumptions. *)
From Snax Require Import Base.Prelude Model.C04AddrMap Proofs.C04AddrMapProofs.

(* ---- part A: the register map of every CSR-configured accelerator is injective ------------------
   all_addrs = setup-field addresses ++ launch addresses ++ [barrier] ++ reserved status registers.
   For EVERY streamer configuration (any number of streamers, temporal/spatial dims, option sets,
   system type), every PHS switch count, every gemmx n >= 0. *)
Theorem C04_addr_map_injective_alu : forall c, NoDup (all_addrs (alu_map c)).
Proof. exact alu_injective. Qed.
Print Assumptions C04_addr_map_injective_alu.

Theorem C04_addr_map_injective_gemmx : forall c n, 0 <= n -> NoDup (all_addrs (gemmx_map c n)).
Proof. exact gemmx_injective. Qed.
Print Assumptions C04_addr_map_injective_gemmx.

Theorem C04_addr_map_injective_xdma :
  forall c, (2 <= List.length (c_streamers c))%nat -> NoDup (all_addrs (xdma_map c)).
Proof. intros c H. exact (xdma_injective c (xdma_wf_two_streamers c H)). Qed.
Print Assumptions C04_addr_map_injective_xdma.

Theorem C04_addr_map_injective_phs : forall c nsw, NoDup (all_addrs (phs_map c nsw)).
Proof. exact phs_injective. Qed.
Print Assumptions C04_addr_map_injective_phs.

Theorem C04_addr_map_injective_hwpe : NoDup (all_addrs hwpe_map).
Proof. exact hwpe_injective. Qed.
Print Assumptions C04_addr_map_injective_hwpe.

(* the names the accelerator builds its setup / launch ops with are, in order, exactly the keys of
   the dictionaries generate_acc_op declares: every configured field has a declared register *)
Theorem C04_fields_declared_alu : forall c,
  map fst (am_fields (alu_map c)) = alu_fields c /\ map fst (am_launch (alu_map c)) = alu_launch_fields c.
Proof. exact alu_fields_agree. Qed.
Print Assumptions C04_fields_declared_alu.

Theorem C04_fields_declared_gemmx : forall c n,
  map fst (am_fields (gemmx_map c n)) = gemmx_fields c n /\ map fst (am_launch (gemmx_map c n)) = gemmx_launch_fields c.
Proof. exact gemmx_fields_agree. Qed.
Print Assumptions C04_fields_declared_gemmx.

Theorem C04_fields_declared_xdma : forall c,
  map fst (am_fields (xdma_map c)) = xdma_fields c /\ map fst (am_launch (xdma_map c)) = xdma_launch_fields c.
Proof. exact xdma_fields_agree. Qed.
Print Assumptions C04_fields_declared_xdma.

Theorem C04_fields_declared_phs : forall c nsw,
  map fst (am_fields (phs_map c nsw)) = phs_fields c nsw /\ map fst (am_launch (phs_map c nsw)) = phs_launch_fields c.
Proof. exact phs_fields_agree. Qed.
Print Assumptions C04_fields_declared_phs.

(* the hypotheses of the gemmx / xdma statements cannot be dropped (model-level witnesses) *)
Example C04_gemmx_negative_n_collides :
  nodupZb (all_addrs (gemmx_map (mkCfg [mkStreamer [FlNormal] [8] []] false) (-1))) = false.
Proof. exact gemmx_negative_collides. Qed.
Print Assumptions C04_gemmx_negative_n_collides.

Example C04_xdma_degenerate_collides :
  nodupZb (all_addrs (xdma_map (mkCfg [mkStreamer [] [] []] false))) = false.
Proof. exact xdma_degenerate_collides. Qed.
Print Assumptions C04_xdma_degenerate_collides.

(* ---- part B: the lowering to CSR accesses ------------------------------------------------------------
   Source: abstract accfg IR (Model/AccIR.v) run as a sequence of per-field configuration writes
   ([frun]: FSet / FLaunch / FAwait / FCallE events, program order, any loops / ifs / trip counts).
   Target: CSR instruction IR executed on the CSR machine ([crun]: CW addr value | CR addr | CCallE).
   [expand am busy] is the CSR trace the source trace demands: one CW per FSet to the declared address
   of the field with the field's value, one CW per launch field to the declared launch address, per
   await the polls of the declared barrier register (style 1: + clear of 0x3c5; style 4: two zero-writes
   per launch field), calls unchanged — all in source order. *)
From Snax Require Import Model.AccIR Model.AccSem Model.C04Csr Proofs.C04CsrProofs.

Theorem C04_lower_refines :
  forall (am : amapT) (idx : list val) (co : coracle) (p : prog) (cb : cblock) (args : list Z),
  lower_block am idx (p_body p) = Some cb ->
  expand am (co_busy co) 0%nat (frun (co_orc co) p args) = Some (crun co (p_params p) cb args)
  /\ fenv (fexec_block (co_orc co) (p_body p) (finit p args))
     = cenv (cexec_block co cb (cinit co (p_params p) args)).
Proof. exact lower_refines. Qed.
Print Assumptions C04_lower_refines.

(* the lowering succeeds on every program whose accelerators / fields are declared and that contains
   no accfg.reset (the Python raises KeyError / leaves a malformed op otherwise) *)
Theorem C04_lower_total :
  forall am idx b, block_declared am b = true -> exists cb, lower_block am idx b = Some cb.
Proof. exact lower_total. Qed.
Print Assumptions C04_lower_total.

(* No state-tracking value survives: the lowered program mentions exactly the ids that sit at integer
   positions of the source; under MLIR typing (a state/token id is never used at an integer position)
   no state or token id occurs in the output. *)
Theorem C04_no_state_survives :
  forall am idx b cb, lower_block am idx b = Some cb ->
  (forall x, In x (block_state_ids b) -> ~ In x (block_int_ids b)) ->
  forall x, In x (block_state_ids b) -> ~ In x (cblock_ids cb).
Proof. exact no_state_survives. Qed.
Print Assumptions C04_no_state_survives.

(* Where injectivity of the register map is needed: if the setup-field addresses, launch addresses and
   the clear register of an accelerator are pairwise distinct, then after the CSR trace of ANY source
   trace that talks to this accelerator every configured field holds, in the CSR file, the last value
   the program wrote to it (launches, barrier polls and barrier writes do not disturb it). *)
Theorem C04_csr_holds_config :
  forall (ai : accinfo) (a0 : acc) (busy : nat -> nat),
  NoDup (map snd (ai_fields ai) ++ map snd (ai_launch ai) ++ [CLEAR_ADDR]) ->
  forall t n r c ct,
  only_acc a0 t -> agree ai r c ->
  expand [ai] busy n (map (fun e => match e with
                                     | FSet _ f v => FSet 0%nat f v
                                     | FLaunch _ f v => FLaunch 0%nat f v
                                     | FAwait _ => FAwait 0%nat
                                     | e' => e' end) t) = Some ct ->
  agree ai (regs_after a0 t r) (csr_after ct c).
Proof. exact csr_holds_config. Qed.
Print Assumptions C04_csr_holds_config.

(* non-vacuity: a loop carrying a state and an integer, style-4 barrier; hypotheses hold, output non-trivial *)
Definition C04_ex_am : amapT := [mkAccInfo [(0%nat, 970); (1%nat, 971)] [(2%nat, 980); (3%nat, 981)] 990 BWrite4].
Definition C04_ex_prog : prog :=
  mkProg [0; 1; 2; 3]%nat
    [SSetup 0 4 None [(0, 0)];
     SFor 5 1 2 3 [(6, 4, TState 0); (7, 0, TInt)] [8; 9]
       [SSetup 0 10 (Some 6) [(1, 5); (0, 7)];
        SLaunch 0 11 10 [(2, 7)];
        SAwait 0 11;
        SPure 12 (PBin BAdd 7 0)]
       [10; 12];
     SSetup 0 13 (Some 8) [(0, 9)];
     SLaunch 0 14 13 [];
     SAwait 0 14]%nat.

Example C04_lower_nonvacuous :
  block_declared C04_ex_am (p_body C04_ex_prog) = true
  /\ (exists cb, lower_block C04_ex_am [5%nat] (p_body C04_ex_prog) = Some cb /\ (List.length cb = 7)%nat)
  /\ (forall x, In x (block_state_ids (p_body C04_ex_prog)) -> ~ In x (block_int_ids (p_body C04_ex_prog)))
  /\ NoDup (map snd (ai_fields (hd (mkAccInfo [] [] 0 BPoll3) C04_ex_am))
            ++ map snd (ai_launch (hd (mkAccInfo [] [] 0 BPoll3) C04_ex_am)) ++ [CLEAR_ADDR]).
Proof.
  split; [reflexivity|]. split; [eexists; split; [vm_compute; reflexivity|reflexivity]|]. split.
  - intros x Hx Hi. cbn in Hx, Hi.
    repeat (destruct Hx as [Hx|Hx]; [subst x; repeat (destruct Hi as [Hi|Hi]; [discriminate|]); exact Hi|]).
    exact Hx.
  - cbn. repeat constructor; cbn; intuition discriminate.
Qed.
Print Assumptions C04_lower_nonvacuous.

(* ---- instruction-configured (RoCC) accelerators ---------------------------------------------------------
   For every setup the lowering issues exactly one instruction per touched instruction (declaration order),
   and each issued instruction carries, for BOTH source fields, the value that field holds after the setup's
   writes — also for the half whose write was deduplicated earlier — provided the inferred input state is
   sound at that point ([holds (tlook T) m a i]: the invariant C07 establishes for certified tables,
   Props/C07.v C07_certified_inference_sound).  For a first setup (no input state) a half that is not written
   gets the materialised default 0. *)
From Snax Require Import Model.AccInfer Model.C04Rocc Proofs.C04RoccProofs.

Theorem C04_rocc_pairs_current :
  forall (ri : rinfo) (T : tbl) (a : acc) ins fs cb (m : mstate),
  lower_rocc_setup ri T ins fs = Some cb ->
  (forall i, ins = Some i -> holds (tlook T) m a i = true) ->
  let R' := write_fields (env m) fs (regs m a) in
  (forall f7 v1 v2, In (CInsn f7 v1 v2) cb ->
     exists rf f2, In rf (ri_fields ri) /\ rf_rs1 rf = true /\ rf_func7 rf = f7
       /\ mem_nat (rf_instr rf) (touched (ri_fields ri) fs) = true
       /\ half_field (ri_fields ri) (rf_instr rf) false = Some f2
       /\ ((ins = None -> dict_last (rf_field rf) fs <> None) -> cval_eval (env m) v1 = R' (rf_field rf))
       /\ ((ins = None -> dict_last f2 fs <> None) -> cval_eval (env m) v2 = R' f2)
       /\ (ins = None -> dict_last (rf_field rf) fs = None -> v1 = VConst 0)
       /\ (ins = None -> dict_last f2 fs = None -> v2 = VConst 0))
  /\ (forall rf, In rf (ri_fields ri) -> rf_rs1 rf = true ->
        mem_nat (rf_instr rf) (touched (ri_fields ri) fs) = true ->
        exists v1 v2, In (CInsn (rf_func7 rf) v1 v2) cb).
Proof. exact rocc_pairs_current. Qed.
Print Assumptions C04_rocc_pairs_current.

Theorem C04_rocc_launch_values :
  forall (ri : rinfo) fs cb (e : envT),
  lower_rocc_launch ri fs = Some cb ->
  forall f7 v1 v2, In (CInsn f7 v1 v2) cb ->
  exists rf f2 x1 x2, In rf (ri_launch ri) /\ rf_func7 rf = f7 /\ half_field (ri_launch ri) (rf_instr rf) false = Some f2
    /\ dict_last (rf_field rf) fs = Some x1 /\ dict_last f2 fs = Some x2 /\ v1 = VRef x1 /\ v2 = VRef x2.
Proof. exact rocc_launch_values. Qed.
Print Assumptions C04_rocc_launch_values.

(* non-vacuity: a setup with an input state that writes only the rs2 half of instruction 1; the rs1 operand is
   retraced through the inferred state *)
Example C04_rocc_nonvacuous :
  let ri := mkRInfo [mkRF 0 0 true 9; mkRF 1 0 false 9; mkRF 2 1 true 10; mkRF 3 1 false 10]%nat [] in
  let T : tbl := [(7%nat, [(0, 20); (1, 21); (2, 22); (3, 23)]%nat)] in
  lower_rocc_setup ri T (Some 7%nat) [(3%nat, 30%nat)] = Some [CInsn 10 (VRef 22%nat) (VRef 30%nat)].
Proof. vm_compute. reflexivity. Qed.
Print Assumptions C04_rocc_nonvacuous.

(* non-vacuity of the hypothesis of C04_rocc_pairs_current (added by the audit): for the table of the example
   above there is a machine state with distinct, non-zero register contents in which the inferred input state 7
   is sound, and one in which it is not (the hypothesis is neither trivially true nor unsatisfiable) *)
Example C04_rocc_holds_nonvacuous :
  let T : tbl := [(7%nat, [(0, 20); (1, 21); (2, 22); (3, 23)]%nat)] in
  let e : envT := fun v => Z.of_nat v * 3 + 1 in
  let good : mstate := mkSt e (fun _ f => e (20 + f)%nat) (fun _ => []) 0%nat [] in
  let bad : mstate := mkSt e (fun _ f => if Nat.eqb f 2 then 0 else e (20 + f)%nat) (fun _ => []) 0%nat [] in
  holds (tlook T) good 0%nat 7%nat = true /\ holds (tlook T) bad 0%nat 7%nat = false.
Proof. split; vm_compute; reflexivity. Qed.
Print Assumptions C04_rocc_holds_nonvacuous.

(* ---- gemmx channel-wise rescale launch path: launch registers receive the launch values ------------------------------
   With an injective register map (part A: C04_addr_map_injective_gemmx) every write the special launch path emits
   to the launch_gemmx register carries the launch op's launch_gemmx value and every write to the launch_streamer
   register its launch_streamer value (the reprogrammed shift / mult / M / temporal_loop_bound CSRs are elsewhere). *)
From Snax Require Import Model.C04Gemmx Proofs.C04GemmxProofs.

Theorem C04_gemmx_launch_values :
  forall (g : gx) (ai : accinfo) m_attr mults shifts fs cb a_g a_s vg vs,
  gemmx_launch_special g ai m_attr mults shifts fs = Some cb ->
  NoDup (map snd (ai_fields ai) ++ map snd (ai_launch ai)) ->
  assoc (gx_lgemmx g) (ai_launch ai) = Some a_g -> assoc (gx_lstreamer g) (ai_launch ai) = Some a_s ->
  gx_lgemmx g <> gx_lstreamer g ->
  assoc (gx_lgemmx g) (map (fun fv => (fst fv, Z.of_nat (snd fv))) fs) = Some vg ->
  assoc (gx_lstreamer g) (map (fun fv => (fst fv, Z.of_nat (snd fv))) fs) = Some vs ->
  (forall v, In (CWrite a_g v) cb -> v = VRef (Z.to_nat vg))
  /\ (forall v, In (CWrite a_s v) cb -> v = VRef (Z.to_nat vs)).
Proof. exact gemmx_launch_values. Qed.
Print Assumptions C04_gemmx_launch_values.
