(* C04 — CSR lowering writes every field to its declared register.
   Only theorem statements closed by `exact`, each followed by Print Assumptions. *)
From Snax Require Import Base.Prelude Model.C04AddrMap Proofs.C04AddrMapProofs.

(* ---- part A: the register map of every CSR-configured accelerator is injective ------------------
   all_addrs = setup-field addresses ++ launch addresses ++ [barrier] ++ reserved status registers.
   For EVERY streamer configuration (any number of streamers, temporal/spatial dims, option sets,
   system type), every PHS switch count, every gemmx n >= 0. *)
Theorem C04_addr_map_injective_alu : forall c, NoDup (all_addrs (alu_map c)).
Proof. exact alu_injective. Qed.
Print Assumptions C04_addr_map_injective_alu.

Theorem C04_addr_map_injective_gemmx : forall c n, 0 <= n -> NoDup (all_addrs (gemmx_map c n)).
Proof. exact gemmx_injective. Qed.
Print Assumptions C04_addr_map_injective_gemmx.

Theorem C04_addr_map_injective_xdma :
  forall c, (2 <= List.length (c_streamers c))%nat -> NoDup (all_addrs (xdma_map c)).
Proof. intros c H. exact (xdma_injective c (xdma_wf_two_streamers c H)). Qed.
Print Assumptions C04_addr_map_injective_xdma.

Theorem C04_addr_map_injective_phs : forall c nsw, NoDup (all_addrs (phs_map c nsw)).
Proof. exact phs_injective. Qed.
Print Assumptions C04_addr_map_injective_phs.

Theorem C04_addr_map_injective_hwpe : NoDup (all_addrs hwpe_map).
Proof. exact hwpe_injective. Qed.
Print Assumptions C04_addr_map_injective_hwpe.

(* the names the accelerator builds its setup / launch ops with are, in order, exactly the keys of
   the dictionaries generate_acc_op declares: every configured field has a declared register *)
Theorem C04_fields_declared_alu : forall c,
  map fst (am_fields (alu_map c)) = alu_fields c /\ map fst (am_launch (alu_map c)) = alu_launch_fields c.
Proof. exact alu_fields_agree. Qed.
Print Assumptions C04_fields_declared_alu.

Theorem C04_fields_declared_gemmx : forall c n,
  map fst (am_fields (gemmx_map c n)) = gemmx_fields c n /\ map fst (am_launch (gemmx_map c n)) = gemmx_launch_fields c.
Proof. exact gemmx_fields_agree. Qed.
Print Assumptions C04_fields_declared_gemmx.

Theorem C04_fields_declared_xdma : forall c,
  map fst (am_fields (xdma_map c)) = xdma_fields c /\ map fst (am_launch (xdma_map c)) = xdma_launch_fields c.
Proof. exact xdma_fields_agree. Qed.
Print Assumptions C04_fields_declared_xdma.

Theorem C04_fields_declared_phs : forall c nsw,
  map fst (am_fields (phs_map c nsw)) = phs_fields c nsw /\ map fst (am_launch (phs_map c nsw)) = phs_launch_fields c.
Proof. exact phs_fields_agree. Qed.
Print Assumptions C04_fields_declared_phs.

(* the hypotheses of the gemmx / xdma statements cannot be dropped (model-level witnesses) *)
Example C04_gemmx_negative_n_collides :
  nodupZb (all_addrs (gemmx_map (mkCfg [mkStreamer [FlNormal] [8] []] false) (-1))) = false.
Proof. exact gemmx_negative_collides. Qed.
Print Assumptions C04_gemmx_negative_n_collides.

Example C04_xdma_degenerate_collides :
  nodupZb (all_addrs (xdma_map (mkCfg [mkStreamer [] [] []] false))) = false.
Proof. exact xdma_degenerate_collides. Qed.
Print Assumptions C04_xdma_degenerate_collides.
