(* C05 — DMA lowering of a copy moves every element to its layout position.
   Only theorem statements closed by `exact` (or a one-line combination), each followed by
   Print Assumptions; plus the non-vacuity examples and the refutation witness of F6. *)
From Snax Require Import Base.Prelude Model.Tsl Model.C05Copy Proofs.TslProofs
  Proofs.C05MemProofs Proofs.C05MainProofs Proofs.C05ExtraProofs Model.TslOps Model.C05Dyn Proofs.C05DynProofs Proofs.C05DynCopyProofs Proofs.C05DynGenProofs
  Proofs.C05AuditProofs.

(* For all ranks, tile depths, shapes, static layouts with positive bounds and equal tile bounds,
   element sizes and offsets: under Safe_lccb, a destination layout that does not self-overlap and
   disjoint footprints, after running the emitted loop nest / DMA calls every byte of every logical
   element of the destination equals the corresponding source byte. *)
Theorem C05_copy_correct :
  forall (src dst : layout) (el so do_ : Z) (c : code) (ps pd : Z),
    layout_okb src = true -> layout_okb dst = true -> equal_tile_bounds src dst = true ->
    safe_lccb src dst = true -> 0 < el ->
    offset src = Some so -> offset dst = Some do_ ->
    lower src dst el (shape_of src) = Some c ->
    self_overlaps dst = false ->
    disjoint_footprints src dst el ps pd (shape_of src) ->
    forall (m : mem) (idx : list Z) (k : Z),
      In idx (row_major (shape_of src)) -> 0 <= k < el ->
      run ps pd c m (pd + elem_addr dst el idx + k) = m (ps + elem_addr src el idx + k).
Proof.
  intros src dst el so do_ c ps pd Hs Hd Hetb Hsafe Hel Hso Hdo Hc Hov Hdisj.
  apply layout_okb_ok in Hs, Hd.
  exact (copy_correct_sec src dst el so do_ Hs Hd Hetb Hsafe Hel Hso Hdo c ps pd Hc
           (self_overlaps_inj src dst Hd Hetb Hov) Hdisj).
Qed.
Print Assumptions C05_copy_correct.

(* the transfers read only bytes of source elements and write only bytes of destination elements *)
Theorem C05_copy_footprint :
  forall (src dst : layout) (el so do_ : Z) (c : code) (ps pd : Z),
    layout_okb src = true -> layout_okb dst = true -> equal_tile_bounds src dst = true ->
    safe_lccb src dst = true -> 0 < el ->
    offset src = Some so -> offset dst = Some do_ ->
    lower src dst el (shape_of src) = Some c ->
    forall (b : burst) (x : Z), In b (bursts ps pd c []) -> 0 <= x < b_len b ->
      (exists idx k, In idx (row_major (shape_of src)) /\ 0 <= k < el /\
                     b_src b + x = ps + elem_addr src el idx + k) /\
      (exists idx k, In idx (row_major (shape_of src)) /\ 0 <= k < el /\
                     b_dst b + x = pd + elem_addr dst el idx + k).
Proof.
  intros src dst el so do_ c ps pd Hs Hd Hetb Hsafe Hel Hso Hdo Hc.
  apply layout_okb_ok in Hs, Hd.
  exact (copy_footprint_sec src dst el so do_ Hs Hd Hetb Hsafe Hel Hso Hdo c ps pd Hc).
Qed.
Print Assumptions C05_copy_footprint.

(* the execution of the emitted code is exactly the left-to-right sequence of its bursts *)
Theorem C05_exec_is_bursts : forall ps pd c env m, exec ps pd c env m = run_bursts (bursts ps pd c env) m.
Proof. exact exec_run_bursts. Qed.
Print Assumptions C05_exec_is_bursts.

(* the lowering does not fail on the domain of the theorem, for rank >= 1.  Rank 0 (a layout without
   dimensions) is excluded: get_total_size_op asserts there, and the model says None
   (C05_lower_rank0); C05_copy_correct / C05_copy_footprint are vacuous at rank 0 for that reason. *)
Theorem C05_lower_total :
  forall (src dst : layout) (el so do_ : Z),
    layout_okb src = true -> layout_okb dst = true -> equal_tile_bounds src dst = true ->
    safe_lccb src dst = true -> offset src = Some so -> offset dst = Some do_ ->
    tstrides src <> [] ->
    exists c, lower src dst el (shape_of src) = Some c.
Proof.
  intros src dst el so do_ Hs Hd Hetb Hsafe Hso Hdo Hrank. apply layout_okb_ok in Hs, Hd.
  destruct (lower_bursts src dst el so do_ Hs Hd Hetb Hsafe Hso Hdo) as [c [Hc _]]. exists c.
  rewrite (lower_rank src dst el (shape_of src) (shape_of_rank src Hrank)). exact Hc.
Qed.
Print Assumptions C05_lower_total.

Theorem C05_lower_rank0 : forall src dst el smd dmd, lower src dst el [] = None /\ lower_dyn src dst el [] smd dmd = None.
Proof. intros. split; reflexivity. Qed.
Print Assumptions C05_lower_rank0.

(* the run-time lowering (dynamic dims / strides / offsets resolved on a descriptor, Model/C05Dyn.v)
   coincides with the static lowering on static layouts, whatever metadata is supplied: the theorems
   above therefore also hold for the code `lower_dyn` produces on static inputs *)
Theorem C05_lower_dyn_static :
  forall (src dst : layout) (el so do_ : Z) (smd dmd : rtmd),
    layout_okb src = true -> layout_okb dst = true -> equal_tile_bounds src dst = true ->
    offset src = Some so -> offset dst = Some do_ ->
    lower_dyn src dst el (shape_of src) smd dmd = lower src dst el (shape_of src).
Proof.
  intros src dst el so do_ smd dmd Hs Hd. apply layout_okb_ok in Hs, Hd.
  exact (lower_dyn_static src dst el so do_ smd dmd Hs Hd).
Qed.
Print Assumptions C05_lower_dyn_static.

(* copy_dynamic_partial: layouts whose outermost tile bounds are dynamic (static steps and offsets),
   resolved on ANY run-time shape that the inner tiles divide (rshape = shape_of (resolve src rshape)):
   the code of the run-time lowering moves every element of the resolved layouts.  Partial: besides
   Safe_lccb on the resolved layouts, the common block and the value-membership tests must not depend
   on the dynamic bounds (two decidable equalities). *)
Theorem C05_copy_dynamic_partial :
  forall (src dst : layout) (el so do_ : Z) (rshape : list Z) (smd dmd : rtmd),
    let rs := resolve src rshape in
    let rd := resolve dst rshape in
    layout_okb rs = true -> layout_okb rd = true -> equal_tile_bounds rs rd = true ->
    safe_lccb rs rd = true -> 0 < el -> offset src = Some so -> offset dst = Some do_ ->
    rshape <> [] -> rshape = shape_of rs ->
    lccb src dst 1 = lccb rs rd 1 ->
    map (fun s => value_in s (lccb rs rd 1)) (all_strides src) =
    map (fun s => value_in s (lccb rs rd 1)) (all_strides rs) ->
    self_overlaps rd = false ->
    exists c, lower_dyn src dst el rshape smd dmd = Some c /\
      forall ps pd, disjoint_footprints rs rd el ps pd (shape_of rs) ->
      forall (m : mem) (idx : list Z) (k : Z), In idx (row_major (shape_of rs)) -> 0 <= k < el ->
        run ps pd c m (pd + elem_addr rd el idx + k) = m (ps + elem_addr rs el idx + k).
Proof.
  intros src dst el so do_ rshape smd dmd rs rd Hs Hd Hetb Hsafe Hel Hso Hdo Hrank Hsh Hl Hv Hov.
  apply layout_okb_ok in Hs, Hd.
  destruct (copy_dynamic_partial_sec src dst el so do_ rshape smd dmd Hs Hd Hetb Hsafe Hel Hso Hdo Hrank Hsh Hl Hv)
    as [c [Hc H]].
  exists c. split; [exact Hc|]. intros ps pd. apply H. exact (self_overlaps_inj rs rd Hd Hetb Hov).
Qed.
Print Assumptions C05_copy_dynamic_partial.

(* non-vacuity: [?, 4] -> (4, 1) to the padded [?, 4] -> (8, 1) with 12 elements at run time *)
Example C05_dynamic_nonvacuous :
  let src := mkLayout [[(Some 4, None); (Some 1, Some 4)]] (Some 0) in
  let dst := mkLayout [[(Some 8, None); (Some 1, Some 4)]] (Some 2) in
  let rs := resolve src [12] in let rd := resolve dst [12] in
  layout_okb rs = true /\ layout_okb rd = true /\ equal_tile_bounds rs rd = true /\ safe_lccb rs rd = true /\
  [12] <> [] /\ [12] = shape_of rs /\ lccb src dst 1 = lccb rs rd 1 /\
  map (fun s => value_in s (lccb rs rd 1)) (all_strides src) = map (fun s => value_in s (lccb rs rd 1)) (all_strides rs) /\
  self_overlaps rd = false /\
  lower_dyn src dst 2 [12] None None = Some (CDma2 (0, []) (4, []) 8 8 16 3).
Proof. repeat split; try reflexivity. discriminate. Qed.
Print Assumptions C05_dynamic_nonvacuous.

(* DYNAMIC sizes, strides and offsets resolved at run time (general form; C05_copy_dynamic_partial is the
   instance with static steps and offsets): src/dst are ANY layouts (dynamic bounds, `?` steps resolved by
   the TSL contiguity rule or by strided metadata, dynamic offsets), rshape/smd/dmd ANY run-time
   descriptor; rs/rd are the static layouts that the emitted run-time ops compute for them
   (bound_vals, step_vals_md, off_val = `resolves`).  If the inner tiles divide the run-time sizes
   (rshape = shape_of rs), Safe_lccb holds for the resolved layouts and the common block and the
   value-membership tests do not depend on the dynamic entries (two decidable equalities; the first one
   excludes class F29, C05_dynamic_general_excludes_F29), the code of lower_dyn moves every element of the
   resolved layouts.  Classes F27/F28 are the cases where the resolution the code computes is not the
   intended contiguous layout (there rd self-overlaps and the hypothesis fails). *)
Theorem C05_copy_dynamic_general :
  forall (src dst rs rd : layout) (el so do_ : Z) (rshape : list Z) (smd dmd : rtmd),
    layout_okb rs = true -> layout_okb rd = true -> equal_tile_bounds rs rd = true ->
    safe_lccb rs rd = true -> 0 < el -> rshape <> [] ->
    bound_vals (tstrides src) rshape = Some (map (map sbnd) (tstrides rs)) ->
    resolves src rshape el smd (map sbnd (all_strides rs)) rs ->
    resolves dst rshape el dmd (map sbnd (all_strides rs)) rd ->
    offset rs = Some so -> offset rd = Some do_ ->
    length (all_strides src) = length (all_strides dst) ->
    rshape = shape_of rs ->
    lccb src dst 1 = lccb rs rd 1 ->
    map (fun s => value_in s (lccb rs rd 1)) (all_strides src) =
    map (fun s => value_in s (lccb rs rd 1)) (all_strides rs) ->
    self_overlaps rd = false ->
    exists c, lower_dyn src dst el rshape smd dmd = Some c /\
      forall ps pd, disjoint_footprints rs rd el ps pd (shape_of rs) ->
      forall (m : mem) (idx : list Z) (k : Z), In idx (row_major (shape_of rs)) -> 0 <= k < el ->
        run ps pd c m (pd + elem_addr rd el idx + k) = m (ps + elem_addr rs el idx + k).
Proof.
  intros src dst rs rd el so do_ rshape smd dmd Hs Hd Hetb Hsafe Hel Hrank Hbv Hr1 Hr2 Hso Hdo Hlen Hsh Hl Hv Hov.
  apply layout_okb_ok in Hs, Hd.
  destruct (copy_dynamic_general_sec src dst rs rd el so do_ rshape smd dmd Hs Hd Hetb Hsafe Hel Hrank Hbv Hr1 Hr2
              Hso Hdo Hlen Hsh Hl Hv) as [c [Hc H]].
  exists c. split; [exact Hc|]. intros ps pd. apply H. exact (self_overlaps_inj rs rd Hd Hetb Hov).
Qed.
Print Assumptions C05_copy_dynamic_general.

Theorem C05_dynamic_general_excludes_F29 :
  forall src dst rs rd, layout_okb rs = true -> lccb src dst 1 = lccb rs rd 1 -> dyn_in_block src dst = false.
Proof. intros src dst rs rd H. apply layout_okb_ok in H. exact (dyn_in_block_off src dst rs rd H). Qed.
Print Assumptions C05_dynamic_general_excludes_F29.

(* non-vacuity: a ?x4 strided<[?, 1], offset: ?> source (run-time strides [6, 1], offset 3: padded rows) copied
   to the TSL [?] -> (4), [4] -> (1); 3 rows at run time: the row stride comes from the metadata *)
Example C05_dynamic_general_nonvacuous :
  let src := mkLayout [[(None, None)]; [(Some 1, Some 4)]] None in
  let dst := mkLayout [[(Some 4, None)]; [(Some 1, Some 4)]] (Some 0) in
  let rs := mkLayout [[(Some 6, Some 3)]; [(Some 1, Some 4)]] (Some 3) in
  let rd := mkLayout [[(Some 4, Some 3)]; [(Some 1, Some 4)]] (Some 0) in
  let smd : rtmd := Some ([6; 1], 3) in
  layout_okb rs = true /\ layout_okb rd = true /\ equal_tile_bounds rs rd = true /\ safe_lccb rs rd = true /\
  bound_vals (tstrides src) [3; 4] = Some (map (map sbnd) (tstrides rs)) /\
  step_vals_md src (map sbnd (all_strides rs)) 2 smd = map (fun s => sstp s * 2) (all_strides rs) /\
  off_val src smd = offset rs /\
  step_vals_md dst (map sbnd (all_strides rs)) 2 None = map (fun s => sstp s * 2) (all_strides rd) /\
  off_val dst None = offset rd /\
  [3; 4] = shape_of rs /\ lccb src dst 1 = lccb rs rd 1 /\
  map (fun s => value_in s (lccb rs rd 1)) (all_strides src) = map (fun s => value_in s (lccb rs rd 1)) (all_strides rs) /\
  self_overlaps rd = false /\
  lower_dyn src dst 2 [3; 4] smd None = Some (CDma2 (6, []) (0, []) 8 12 8 3).
Proof. repeat split; reflexivity. Qed.
Print Assumptions C05_dynamic_general_nonvacuous.


(* ---- the dynamic finding classes F27-F29 (Model/C05Dyn.v; the search classifies failures with them) --- *)
(* none of them holds on the domain of C05_copy_dynamic_partial: a failure there is never a known finding *)
Theorem C05_dyn_classes_off_proved_region :
  forall (src dst : layout) (rshape : list Z) (sh : list (option Z)),
    layout_okb (resolve src rshape) = true -> layout_okb (resolve dst rshape) = true ->
    lccb src dst 1 = lccb (resolve src rshape) (resolve dst rshape) 1 ->
    dyn_no_anchor src = false /\ dyn_no_anchor dst = false /\
    dyn_anchor_tie src = false /\ dyn_anchor_tie dst = false /\
    dyn_in_block src dst = false /\ dyn_class sh (LTsl src) (LTsl dst) = 0.
Proof.
  intros src dst rshape sh Hs Hd. apply layout_okb_ok in Hs, Hd.
  exact (dyn_classes_off_proved_region src dst rshape sh Hs Hd).
Qed.
Print Assumptions C05_dyn_classes_off_proved_region.

(* ... nor on the domain of C05_copy_correct (static layouts) *)
Theorem C05_dyn_classes_off_static :
  forall (src dst : layout) (sh : list (option Z)),
    layout_okb src = true -> layout_okb dst = true -> dyn_class sh (LTsl src) (LTsl dst) = 0.
Proof.
  intros src dst sh Hs Hd. apply layout_okb_ok in Hs, Hd. exact (dyn_classes_off_static src dst sh Hs Hd).
Qed.
Print Assumptions C05_dyn_classes_off_static.

(* each class contains an input on which the model of the run-time lowering miscopies an element although
   the run-time layouts satisfy every hypothesis of C05_copy_correct (witnesses of known/C05.json) *)
Theorem C05_dyn_refuted_no_anchor :
  exists sh msrc mdst el rshape smd dmd rs rd c idx ps pd,
    dyn_no_anchor (to_tsl sh msrc mdst) = true /\ dyn_class sh msrc mdst = 1 /\
    c = CDma2 (0, []) (0, []) 1 0 1 3 /\
    model_miscopies sh msrc mdst el rshape smd dmd rs rd c idx ps pd.
Proof. exact dyn_refuted_no_anchor. Qed.
Print Assumptions C05_dyn_refuted_no_anchor.

Theorem C05_dyn_refuted_anchor_tie :
  exists sh msrc mdst el rshape smd dmd rs rd c idx ps pd,
    dyn_anchor_tie (to_tsl sh msrc mdst) = true /\ dyn_class sh msrc mdst = 2 /\
    c = CDma2 (0, []) (0, []) 4 1 1 2 /\
    model_miscopies sh msrc mdst el rshape smd dmd rs rd c idx ps pd.
Proof. exact dyn_refuted_anchor_tie. Qed.
Print Assumptions C05_dyn_refuted_anchor_tie.

Theorem C05_dyn_refuted_in_block :
  exists sh msrc mdst el rshape smd dmd rs rd c idx ps pd,
    dyn_in_block (to_tsl sh msrc mdst) (to_tsl sh mdst msrc) = true /\ dyn_class sh msrc mdst = 3 /\
    smd = Some ([9; 1], 3) /\ c = CDma1 (6, []) (0, []) 48 /\
    model_miscopies sh msrc mdst el rshape smd dmd rs rd c idx ps pd.
Proof. exact dyn_refuted_in_block. Qed.
Print Assumptions C05_dyn_refuted_in_block.

(* MatchSimpleCopy (both layouts identity): one 1-D transfer moves every row-major element *)
Theorem C05_simple_copy_correct :
  forall el shape ps pd m idx k, 0 < el -> In idx (row_major shape) -> 0 <= k < el ->
    run ps pd (lower_simple el shape) m (pd + rm_addr shape idx * el + k) = m (ps + rm_addr shape idx * el + k).
Proof. exact simple_copy_correct. Qed.
Print Assumptions C05_simple_copy_correct.

(* ---- non-vacuity: a 2x2 transposition satisfies every hypothesis and needs a loop ------------ *)
Definition nv_src := mkLayout [[(Some 2, Some 2)]; [(Some 1, Some 2)]] (Some 0).
Definition nv_dst := mkLayout [[(Some 1, Some 2)]; [(Some 2, Some 2)]] (Some 3).
Example C05_nonvacuous :
  layout_okb nv_src = true /\ layout_okb nv_dst = true /\ equal_tile_bounds nv_src nv_dst = true /\
  safe_lccb nv_src nv_dst = true /\ self_overlaps nv_dst = false /\
  lower nv_src nv_dst 2 (shape_of nv_src) =
    Some (CFor 2 (CDma2 (0, [2]) (6, [4]) 2 4 2 2)) /\
  disjoint_footprints nv_src nv_dst 2 0 100 (shape_of nv_src).
Proof.
  repeat split; try reflexivity.
  intros i j k k' Hi Hj Hk Hk'. apply in_row_major in Hi, Hj.
  inversion Hi as [|i0 n0 i' s' Hi0 Hi']; subst. inversion Hi' as [|i1 n1 i'' s'' Hi1 Hi'']; subst. inversion Hi''; subst.
  inversion Hj as [|j0 m0 j' t' Hj0 Hj']; subst. inversion Hj' as [|j1 m1 j'' t'' Hj1 Hj'']; subst. inversion Hj''; subst.
  cbv -[Z.add Z.mul Z.div Z.modulo Z.le Z.lt] in *. lia.
Qed.
Print Assumptions C05_nonvacuous.

(* ---- F6: `stride not in lcb` compares strides by value --------------------------------------- *)
(* source [2]->(1),[2]->(1), destination [2]->(1),[2]->(4), one-byte elements: every hypothesis of
   C05_copy_correct except Safe_lccb holds, one 4-byte 1-D transfer is emitted, and destination
   element (0,1) never receives its source byte. *)
Definition f6_src := mkLayout [[(Some 1, Some 2)]; [(Some 1, Some 2)]] (Some 0).
Definition f6_dst := mkLayout [[(Some 1, Some 2)]; [(Some 4, Some 2)]] (Some 0).
Theorem C05_copy_refuted_value_membership :
  exists (src dst : layout) (c : code) (m : mem) (idx : list Z),
    layout_okb src = true /\ layout_okb dst = true /\ equal_tile_bounds src dst = true /\
    self_overlaps dst = false /\ safe_lccb src dst = false /\
    lower src dst 1 (shape_of src) = Some c /\ c = CDma1 (0, []) (0, []) 4 /\
    In idx (row_major (shape_of src)) /\
    disjoint_footprints src dst 1 100 0 (shape_of src) /\
    run 100 0 c m (0 + elem_addr dst 1 idx + 0) <> m (100 + elem_addr src 1 idx + 0).
Proof.
  exists f6_src, f6_dst, (CDma1 (0, []) (0, []) 4), (fun a => Some a), [0; 1].
  repeat split; try reflexivity.
  - right. left. reflexivity.
  - intros i j k k' Hi Hj Hk Hk'. apply in_row_major in Hi, Hj.
    inversion Hi as [|i0 n0 i' s' Hi0 Hi']; subst. inversion Hi' as [|i1 n1 i'' s'' Hi1 Hi'']; subst. inversion Hi''; subst.
    inversion Hj as [|j0 m0 j' t' Hj0 Hj']; subst. inversion Hj' as [|j1 m1 j'' t'' Hj1 Hj'']; subst. inversion Hj''; subst.
    cbv -[Z.add Z.mul Z.div Z.modulo Z.le Z.lt] in *. lia.
  - vm_compute. discriminate.
Qed.
Print Assumptions C05_copy_refuted_value_membership.
