(* C20 — a merged processing element, configured as decoded, computes each kernel. *)
From Snax Require Import Base.Prelude Model.C20Phs.

Example C20_placeholder : ident_eqb (([32;32],[32]),0%nat) (([32;32],[32]),0%nat) = true.
Proof. reflexivity. Qed.
Print Assumptions C20_placeholder.
