(* C20 — a merged processing element, configured as decoded, computes each kernel.
   Only theorem statements closed by `exact`, each followed by Print Assumptions.
   opsem (the meaning of the scalar operations) is universally quantified: any function of the operation
   (name, attributes) and the operand values; integer and float operations are covered uniformly. *)
From Snax Require Import Base.Prelude Model.C20Phs Model.C20Order Proofs.C20PhsProofs Proofs.C20DecodeProofs
  Proofs.C20SearchProofs Proofs.C20AppendProofs Proofs.C20HistoryProofs Proofs.C20WfProofs
  Proofs.C20HistoryFullProofs Proofs.C20EncodeProofs Proofs.C20EncodeSemProofs Proofs.C20EndToEndProofs Proofs.C20TotalProofs Proofs.C20EncodeTotalProofs Proofs.C20CostProofs.

(* valid_mapping_sem: if valid_mapping accepts the mux assignment mu for the kernel graph g against the
   abstract graph G, then G — with its mux switches set as mu says and its choose switches selecting g's
   operations — yields on every data input what g yields. *)
Theorem C20_valid_mapping_sem :
  forall opsem g G sgg sg mu ins,
    is_concrete g = true ->
    valid_mapping g G mu = Some true ->
    (forall m, In m (all_muxes G) -> sg m = mu m) ->
    (forall c a k, In c (pnodes g) -> find_node (pnodes G) (nid c) = Some a -> nops c = [k] ->
                   node_choice sg a = Some k) ->
    forall f v, eval_pe_fuel opsem f g sgg ins = Some v -> eval_pe_fuel opsem f G sg ins = Some v.
Proof. intros opsem g G sgg sg mu ins H1 H2 H3 H4 f v. exact (sim_pe opsem g G sgg sg mu ins H1 H2 H3 H4 f v). Qed.
Print Assumptions C20_valid_mapping_sem.

(* decode_sound: whatever decode_abstract_graph returns for kernel g against a well-formed abstract
   graph G configures G to compute g's function, provided decode's choice by operation *type* picks the
   kernel's operation (ops_agree: the kernel's operation is among the alternatives; decode does not look at
   one-alternative choose ops at all). *)
Theorem C20_decode_sound :
  forall opsem G g sw,
    pe_wf G = true -> nodup_ids (map nid (pnodes g)) = true -> ops_agree g G = true ->
    decode G g = Some sw ->
    forall ins v swg, eval_pe opsem g swg ins = Some v -> eval_pe opsem G sw ins = Some v.
Proof. exact decode_sound_pe. Qed.
Print Assumptions C20_decode_sound.

(* switch_count: the number of decoded values equals get_true_switches (the phs_switch_<i> fields). *)
Theorem C20_switch_count :
  forall G g sw, pe_wf G = true -> decode G g = Some sw -> true_switches G = Some (length sw).
Proof. exact switch_count. Qed.
Print Assumptions C20_switch_count.

(* append_keeps: a kernel whose graph is embedded in the abstract graph G (every choose op present under its
   id, every operand among the sources the abstract operand can select, every operation among the
   alternatives) stays embedded after any further append, the appended kernel is embedded, and an embedded
   kernel is decodable against any well-formed graph; with decode_sound the decoded function is the kernel's
   own, before and after the append. *)
Theorem C20_append_keeps :
  forall g' G G', append g' G = Some G' ->
    (forall g, embeds g G -> embeds g G') /\ embeds g' G' /\ pdata G' = pdata G.
Proof. exact append_embeds. Qed.
Print Assumptions C20_append_keeps.

Theorem C20_embedded_decodable :
  forall g G, pe_wf G = true -> is_concrete g = true -> nodup_ids (map nid (pnodes g)) = true ->
    pdata g = pdata G -> embeds g G -> exists sw, decode G g = Some sw.
Proof. exact embedded_decodable. Qed.
Print Assumptions C20_embedded_decodable.

(* append preserves the structural well-formedness of the abstract graph (alternatives non-empty, ids
   unique, every switch argument drives exactly one choose op or mux) *)
Theorem C20_append_pe_wf :
  forall g' G G', pe_wf G = true -> append g' G = Some G' -> pe_wf G' = true.
Proof. exact append_pe_wf. Qed.
Print Assumptions C20_append_pe_wf.

(* append_keeps, in terms of decode: merging a further kernel g' never makes an earlier (embedded) kernel g
   undecodable nor changes the function it decodes to *)
Theorem C20_append_keeps_decode :
  forall opsem g g' G G',
    pe_wf G = true -> kernel_ok g = true -> pdata g = pdata G ->
    embeds g G -> append g' G = Some G' ->
    exists sw', decode G' g = Some sw' /\ embeds g G' /\
                forall ins v swg, eval_pe opsem g swg ins = Some v -> eval_pe opsem G' sw' ins = Some v.
Proof. exact append_keeps_decode. Qed.
Print Assumptions C20_append_keeps_decode.

(* history_correct: for every history gs (any length, any order) of kernel graphs as
   convert_generic_body_to_phs produces them for attribute-free operations (kernel_ok, pe_wf: decidable, and
   checked on every real encode result by L1) with a common number of data arguments: if the merge goes
   through, then EVERY kernel of the history decodes against the merged PE, the number of values equals
   get_true_switches, and under them the merged PE computes exactly the kernel's function on all inputs. *)
Theorem C20_history_correct :
  forall opsem gs G,
    merge_all gs = Some G ->
    (forall g, In g gs -> kernel_ok g = true /\ pe_wf g = true /\ pdata g = pdata G) ->
    forall g, In g gs ->
      exists sw, decode G g = Some sw /\ true_switches G = Some (length sw) /\
                 forall ins v swg, eval_pe opsem g swg ins = Some v -> eval_pe opsem G sw ins = Some v.
Proof. exact history_correct. Qed.
Print Assumptions C20_history_correct.

(* encode_ok: whatever convert_generic_body_to_phs returns satisfies the hypotheses history_correct puts on a
   kernel graph: concrete, distinct choose ids (get_id), well-formed switches; attribute-free if the body is *)
Theorem C20_encode_ok :
  forall b g, encode b = Some g ->
    is_concrete g = true /\ nodup_ids (map nid (pnodes g)) = true /\ pe_wf g = true.
Proof. exact encode_ok. Qed.
Print Assumptions C20_encode_ok.

(* encode_sem: the graph convert_generic_body_to_phs builds for an SSA body computes, on the used block
   arguments (the unused ones are erased), exactly what the body yields *)
Theorem C20_encode_sem :
  forall opsem b g sw ins v,
    body_ok b = true -> encode b = Some g -> (bnargs b <= length ins)%nat ->
    eval_body opsem b ins = Some v -> eval_pe opsem g sw (used_inputs b ins) = Some v.
Proof. exact encode_sem. Qed.
Print Assumptions C20_encode_sem.

(* The property, from kernel BODIES to the merged PE: for every list of SSA bodies with attribute-free
   operations whose graphs have a common number of data arguments, merged in the given (any) order: every
   body's graph decodes against the merged PE, the number of switch values equals get_true_switches, and under
   them the merged PE yields, on every data input, exactly the value the body yields. *)
Theorem C20_bodies_history_correct :
  forall opsem bs gs G,
    Forall2 (fun b g => encode b = Some g) bs gs ->
    (forall b, In b bs -> body_ok b = true) ->
    (forall g, In g gs -> pdata g = pdata G) ->
    merge_all gs = Some G ->
    forall b g, In (b, g) (combine bs gs) ->
      exists sw, decode G g = Some sw /\ true_switches G = Some (length sw) /\
        forall ins v, (bnargs b <= length ins)%nat -> eval_body opsem b ins = Some v ->
                      eval_pe opsem G sw (used_inputs b ins) = Some v.
Proof. exact bodies_history_correct. Qed.
Print Assumptions C20_bodies_history_correct.

(* merge_succeeds: append_to_abstract_graph cannot raise on kernel graphs as convert_generic_body_to_phs builds
   them (kernel_total_ok: concrete, unique ids, well-formed switches, operands defined earlier in the block and
   within the data arguments, operand count = the id's type count, one yielded value — all decidable and
   evaluated on every real encode result by L1) that share the number of data arguments. *)
Theorem C20_merge_succeeds :
  forall g0 rest d,
    (forall g, In g (g0 :: rest) -> kernel_total_ok g = true /\ pdata g = d) ->
    exists G, merge_all (g0 :: rest) = Some G /\ pdata G = d.
Proof. exact merge_succeeds. Qed.
Print Assumptions C20_merge_succeeds.

(* history_correct_total: for EVERY non-empty history of such kernel graphs, in any order — no assumption that
   the merge goes through, none on attributes — the merge yields a PE against which every kernel decodes, the
   number of values equals get_true_switches, and under them the PE computes exactly the kernel's function. *)
Theorem C20_history_correct_total :
  forall opsem g0 rest d,
    (forall g, In g (g0 :: rest) -> kernel_total_ok g = true /\ pdata g = d) ->
    exists G, merge_all (g0 :: rest) = Some G /\
      forall g, In g (g0 :: rest) ->
        exists sw, decode G g = Some sw /\ true_switches G = Some (length sw) /\
                   forall ins v swg, eval_pe opsem g swg ins = Some v -> eval_pe opsem G sw ins = Some v.
Proof. exact history_correct_total. Qed.
Print Assumptions C20_history_correct_total.

(* convert_generic_body_to_phs never raises on an SSA body, and its result is a kernel graph in the sense of
   merge_succeeds / history_correct_total *)
Theorem C20_encode_succeeds : forall b, body_ok b = true -> exists g, encode b = Some g.
Proof. exact encode_succeeds. Qed.
Print Assumptions C20_encode_succeeds.

Theorem C20_encode_total_ok :
  forall b g, body_total_ok b = true -> encode b = Some g -> kernel_total_ok g = true.
Proof. exact encode_total_ok. Qed.
Print Assumptions C20_encode_total_ok.

(* THE PROPERTY, hypothesis-light: for every non-empty list of SSA kernel bodies (body_total_ok: operands are
   block arguments or earlier results, a yielded value, one type per operand in the signature — decidable,
   evaluated by L1 on every generated real body) that use the same number d of block arguments, in any order and
   of any length: encoding and merging succeed, every body's graph decodes against the merged PE, the number of
   switch values equals get_true_switches, and under them the merged PE yields on every data input exactly
   the value the body yields. *)
Theorem C20_bodies_history_correct_total :
  forall opsem b0 brest d,
    (forall b, In b (b0 :: brest) -> body_total_ok b = true /\
               length (filter (arg_used b) (seq 0 (bnargs b))) = d) ->
    exists gs G, Forall2 (fun b g => encode b = Some g) (b0 :: brest) gs /\ merge_all gs = Some G /\
      forall b g, In (b, g) (combine (b0 :: brest) gs) ->
        exists sw, decode G g = Some sw /\ true_switches G = Some (length sw) /\
          forall ins v, (bnargs b <= length ins)%nat -> eval_body opsem b ins = Some v ->
                        eval_pe opsem G sw (used_inputs b ins) = Some v.
Proof. exact bodies_history_correct_total. Qed.
Print Assumptions C20_bodies_history_correct_total.

(* The work of search_mapping (it validates complete assignments only): at most 2^muxes leaves, exactly 2^muxes
   when no valid assignment exists, and 2^muxes even for a decodable kernel whose assignment is the last leaf.
   This is the complexity hazard mutation seed C20-m1 exposed; the code is left as it is (see meta). *)
Theorem C20_search_cost_upper :
  forall g G ms mu, (search_cost g G ms mu <= 2 ^ length ms)%nat.
Proof. exact search_cost_upper. Qed.
Print Assumptions C20_search_cost_upper.

Theorem C20_search_cost_unsat :
  forall g G ms mu, search g G ms mu = Some None -> search_cost g G ms mu = (2 ^ length ms)%nat.
Proof. exact search_cost_unsat. Qed.
Print Assumptions C20_search_cost_unsat.

Example C20_search_cost_worst_decodable :
  pe_wf cost_G = true /\ decode cost_G cost_g = Some [1; 1; 1; 1; 1; 1] /\
  search_cost cost_g cost_G (all_muxes cost_G) (fun _ => 0) = (2 ^ length (all_muxes cost_G))%nat.
Proof. exact search_cost_worst_decodable. Qed.
Print Assumptions C20_search_cost_worst_decodable.

(* non-vacuity: two kernels with different routing and operations; the merged PE has a mux and a
   two-alternative choose op, decode succeeds with a non-trivial switch list and every hypothesis holds *)
Definition ex_f32 : sig := ([132;132],[132]).
Definition ex_b1 : body :=
  mkBody 3 [mkKop ex_f32 (mkOp 20 0) [KArg 0; KArg 1]; mkKop ex_f32 (mkOp 22 0) [KOp 0; KArg 1]] [KOp 1].
Definition ex_b2 : body :=
  mkBody 3 [mkKop ex_f32 (mkOp 22 0) [KArg 1; KArg 0]; mkKop ex_f32 (mkOp 21 0) [KArg 0; KOp 0]] [KOp 1].

Example C20_decode_nonvacuous :
  exists g1 g2 G sw,
    encode ex_b1 = Some g1 /\ encode ex_b2 = Some g2 /\ append g2 g1 = Some G /\
    decode G g2 = Some sw /\ pe_wf G = true /\ nodup_ids (map nid (pnodes g2)) = true /\
    ops_agree g2 G = true /\ sw = [1; 1; 1; 1; 1; 1] /\ all_muxes G = [2%nat; 3%nat; 4%nat; 5%nat] /\
    (forall opsem, eval_pe opsem g2 [] [5; 7] = Some [opsem (mkOp 21 0) [5; opsem (mkOp 22 0) [7; 5]]]).
Proof.
  eexists _, _, _, _. repeat (split; [vm_compute; reflexivity|]). intros opsem. vm_compute. reflexivity.
Qed.
Print Assumptions C20_decode_nonvacuous.

(* non-vacuity of history_correct: three kernels, merged; all hypotheses hold *)
Definition ex_b3 : body :=
  mkBody 3 [mkKop ex_f32 (mkOp 21 0) [KArg 0; KArg 0]; mkKop ex_f32 (mkOp 20 0) [KOp 0; KArg 1];
            mkKop ex_f32 (mkOp 22 0) [KOp 1; KOp 0]] [KOp 2].
Example C20_history_nonvacuous :
  exists g1 g2 g3 G,
    encode ex_b1 = Some g1 /\ encode ex_b2 = Some g2 /\ encode ex_b3 = Some g3 /\
    merge_all [g1; g2; g3] = Some G /\ pe_wf G = true /\
    forallb (fun g => kernel_ok g && pe_wf g && kernel_total_ok g && Nat.eqb (pdata g) (pdata G)) [g1; g2; g3] = true /\
    map (decode G) [g1; g2; g3] = [Some [0; 0; 0; 0; 0; 0; 0]; Some [1; 1; 1; 1; 1; 1; 0]; Some [2; 2; 0; 1; 0; 0; 1]].
Proof.
  eexists _, _, _, _. repeat (split; [vm_compute; reflexivity|]). vm_compute. reflexivity.
Qed.
Print Assumptions C20_history_nonvacuous.

(* Former finding C20-F1 (operations differing only in an attribute shared one alternative), repaired by fix
   61ae0b2 which the model mirrors: two kernels that differ in the predicate of arith.cmpi only now get two
   alternatives, the second kernel decodes to switch value 1 and the merged PE computes ITS function. *)
Example C20_attr_kernels_distinct :
  exists g1 g2 G,
    encode w_b1 = Some g1 /\ encode w_b2 = Some g2 /\ merge_all [g1; g2] = Some G /\
    kernel_total_ok g1 = true /\ kernel_total_ok g2 = true /\
    decode G g1 = Some [0] /\ decode G g2 = Some [1] /\
    eval_pe w_opsem G [1] [3; 5] = eval_pe w_opsem g2 [] [3; 5] /\
    eval_pe w_opsem G [0] [3; 5] <> eval_pe w_opsem G [1] [3; 5].
Proof.
  eexists _, _, _. repeat (split; [vm_compute; reflexivity|]). vm_compute. discriminate.
Qed.
Print Assumptions C20_attr_kernels_distinct.

(* Known finding C20-F2 (class order_inversion = block_ordered false), confirmed on the real code: merging two
   kernels whose choose ids of different type signatures occur in different orders yields a block in which a
   mux uses a choose result defined later; both kernels still decode and (history_correct) the selected paths
   compute the right functions. *)
Theorem C20_block_order_refuted :
  exists g3 g4 G,
    encode w_b3 = Some g3 /\ encode w_b4 = Some g4 /\ merge_all [g3; g4] = Some G /\
    block_ordered g3 = true /\ block_ordered g4 = true /\ pe_wf G = true /\ block_ordered G = false /\
    decode G g3 = Some [0; 0; 0; 0] /\ decode G g4 = Some [1; 1; 1; 1].
Proof.
  eexists _, _, _. repeat (split; [vm_compute; reflexivity|]). vm_compute. reflexivity.
Qed.
Print Assumptions C20_block_order_refuted.

(* non-vacuity of the body-level statement: the three example bodies satisfy its hypotheses and evaluate *)
Example C20_bodies_nonvacuous :
  forallb body_total_ok [ex_b1; ex_b2; ex_b3] = true /\
  map (fun b => length (filter (arg_used b) (seq 0 (bnargs b)))) [ex_b1; ex_b2; ex_b3] = [2; 2; 2]%nat /\
  (forall opsem, eval_body opsem ex_b3 [5; 7; 0] =
                 Some [opsem (mkOp 22 0) [opsem (mkOp 20 0) [opsem (mkOp 21 0) [5; 5]; 7]; opsem (mkOp 21 0) [5; 5]]]) /\
  used_inputs ex_b3 [5; 7; 0] = [5; 7].
Proof. split; [vm_compute; reflexivity|]. split; [vm_compute; reflexivity|]. split; [intros opsem; vm_compute; reflexivity|vm_compute; reflexivity]. Qed.
Print Assumptions C20_bodies_nonvacuous.
