(* C14 — dispatch runs each operation on exactly the cores it belongs to.
   Only theorem statements closed by `exact`, each followed by Print Assumptions. *)
From Snax Require Import Base.Prelude Model.C14Dispatch Proofs.C14DispatchProofs.

(* For every function (any number of blocks, any nesting of scf.for / scf.if, dispatchable ops at
   any depth, adjacent or separated), every core count >= 2, every core id, every trip count /
   branch outcome / control-flow path: the ops core c executes after dispatching are exactly the
   original trace filtered by the rule (DM ops on core nb-1, compute ops on core 0, the rest on
   all cores) — same ops, same iteration contexts, same order. *)
Theorem C14_dispatch_projection :
  forall nb f, 2 <= nb ->
  Forall (fun b => terminated b = true) f ->
  Forall (fun b => guard_freel b = true) f ->
  forall c, 0 <= c < nb -> forall o path,
  core_trace c o (d_blocks (dispatch nb f)) path = filter (belongs nb c) (trace o f path).
Proof. exact dispatch_projection. Qed.
Print Assumptions C14_dispatch_projection.

(* relative order: each core's trace is a subsequence of the original trace *)
Theorem C14_order_preserved :
  forall nb f, 2 <= nb ->
  Forall (fun b => terminated b = true) f ->
  Forall (fun b => guard_freel b = true) f ->
  forall c, 0 <= c < nb -> forall o path,
  subseq (core_trace c o (d_blocks (dispatch nb f)) path) (trace o f path).
Proof. exact order_preserved. Qed.
Print Assumptions C14_order_preserved.

(* a dispatchable op runs on exactly one core of the cluster *)
Theorem C14_one_core_per_op :
  forall nb e, 2 <= nb -> ev_kind e <> KOther ->
  exists c, 0 <= c < nb /\ belongs nb c e = true /\ forall c', belongs nb c' e = true -> c' = c.
Proof. exact one_core_per_op. Qed.
Print Assumptions C14_one_core_per_op.

(* pinning the core id to c specialises the function to what core c ran, without guards left,
   and every core id has its constant in pin_to_constants *)
Theorem C14_pin_projection :
  forall c o f path, trace o (pin_func c f) path = core_trace c o f path.
Proof. exact pin_projection. Qed.
Print Assumptions C14_pin_projection.

Theorem C14_pin_guard_free :
  forall c f, Forall (fun b => guard_freel b = true) (pin_func c f).
Proof. exact pin_guard_free. Qed.
Print Assumptions C14_pin_guard_free.

Theorem C14_pins_cover : forall nb f c, d_call (dispatch nb f) = true ->
  0 <= c < nb -> In c (d_pins (dispatch nb f)).
Proof. exact pins_cover. Qed.
Print Assumptions C14_pins_cover.

(* dispatching + pinning, end to end *)
Theorem C14_pinned_is_filtered :
  forall nb f, 2 <= nb ->
  Forall (fun b => terminated b = true) f ->
  Forall (fun b => guard_freel b = true) f ->
  forall c, 0 <= c < nb -> forall o path,
  trace o (pin_func c (d_blocks (dispatch nb f))) path = filter (belongs nb c) (trace o f path).
Proof. intros. rewrite pin_projection. apply dispatch_projection; assumption. Qed.
Print Assumptions C14_pinned_is_filtered.

(* the walk never flushes after the last op of the top-level block: without a terminator the
   statement fails (model faithfulness; xDSL's verifier guarantees the terminator) *)
Theorem C14_unterminated_refuted :
  exists f c o path, 0 <= c < 2 /\
    core_trace c o (d_blocks (dispatch 2 f)) path <> filter (belongs 2 c) (trace o f path).
Proof. exact unterminated_refuted. Qed.
Print Assumptions C14_unterminated_refuted.

(* non-vacuity: a two-block function with nested loops satisfying the hypotheses, on which the
   pass really does something and the cores really differ *)
Example C14_nonvacuous :
  let f := [[Leaf 1 KOther false; Leaf 2 KDM false; Leaf 3 KDM false;
             For 4 [Leaf 5 KCompute true; If 6 [Leaf 7 KDM true; Leaf 8 KDM false] []];
             Leaf 9 KOther false];
            [Leaf 10 KCompute true; Leaf 11 KOther false]] in
  let o := mkOracle (fun _ _ => 2%nat) (fun _ _ => true) in
  Forall (fun b => terminated b = true) f /\ Forall (fun b => guard_freel b = true) f /\
  d_blocks (dispatch 3 f) <> f /\
  core_trace 0 o (d_blocks (dispatch 3 f)) [0%nat; 1%nat] <> core_trace 2 o (d_blocks (dispatch 3 f)) [0%nat; 1%nat] /\
  length (core_trace 1 o (d_blocks (dispatch 3 f)) [0%nat; 1%nat]) = 3%nat.
Proof.
  cbv zeta. split; [|split; [|split; [|split]]].
  - repeat constructor.
  - repeat constructor.
  - vm_compute. discriminate.
  - vm_compute. discriminate.
  - vm_compute. reflexivity.
Qed.
Print Assumptions C14_nonvacuous.
