(* C15 — pipelined double-buffered loops equal the sequential loop.
   Only theorem statements closed by `exact`, each followed by Print Assumptions. *)
From Coq Require Import Permutation.
From Snax Require Import Base.Prelude Model.MultiCore Model.C15Pipeline Proofs.C15PipelineProofs.

(* For ALL stage counts S >= 1 and ALL trip counts n >= S-1 (lb = 0, step = 1): prologue, steady
   loop and epilogue of UnrollPipeline together execute every (stage, iteration) pair of the
   original loop exactly once. *)
Theorem C15_each_stage_once :
  forall S n, (1 <= S)%nat -> (S - 1 <= n)%nat ->
  Permutation (concat (unrolled S (Z.of_nat n) 1)) (concat (seq_pairs S 0 (Z.of_nat n) 1)).
Proof. exact each_stage_once. Qed.
Print Assumptions C15_each_stage_once.

(* the schedule the pass builds is "phase a = all valid (k, a-k)" *)
Theorem C15_unrolled_canon :
  forall S n, (1 <= S)%nat -> (S - 1 <= n)%nat -> unrolled S (Z.of_nat n) 1 = canon S n.
Proof. exact unrolled_canon. Qed.
Print Assumptions C15_unrolled_canon.

(* stage s+1 of an iteration runs exactly one barrier-separated phase after stage s of it *)
Theorem C15_stage_order :
  forall S n a b s t, (1 <= S)%nat -> (S - 1 <= n)%nat ->
  In (s, t) (nth a (unrolled S (Z.of_nat n) 1) []) ->
  In (Datatypes.S s, t) (nth b (unrolled S (Z.of_nat n) 1) []) -> (b = a + 1)%nat.
Proof. exact stage_order. Qed.
Print Assumptions C15_stage_order.

(* double buffering: in one phase producer and consumer of a duplicated buffer use different
   copies ... *)
Theorem C15_parity_safe_same_phase :
  forall S n a s t1 t2 ds b, (1 <= S)%nat -> (S - 1 <= n)%nat -> memb b ds = true ->
  In (s, t1) (nth a (unrolled S (Z.of_nat n) 1) []) ->
  In (Datatypes.S s, t2) (nth a (unrolled S (Z.of_nat n) 1) []) ->
  sel ds t1 b <> sel ds t2 b.
Proof. exact parity_safe_same_phase. Qed.
Print Assumptions C15_parity_safe_same_phase.

(* ... and the copy written for iteration t is not written again until its consumer has run *)
Theorem C15_parity_safe_not_overwritten :
  forall S n a a' s t t' ds b, (1 <= S)%nat -> (S - 1 <= n)%nat -> memb b ds = true ->
  In (s, t) (nth a (unrolled S (Z.of_nat n) 1) []) ->
  In (s, t') (nth a' (unrolled S (Z.of_nat n) 1) []) ->
  t' <> t -> sel ds t' b = sel ds t b -> (a' < a \/ a + 1 < a')%nat.
Proof. exact parity_safe_not_overwritten. Qed.
Print Assumptions C15_parity_safe_not_overwritten.

(* no tile outside the original iteration range *)
Theorem C15_in_range :
  forall S n k t, (1 <= S)%nat -> (S - 1 <= n)%nat ->
  In (k, t) (concat (unrolled S (Z.of_nat n) 1)) -> (k < S)%nat /\ 0 <= t < Z.of_nat n.
Proof. exact in_range. Qed.
Print Assumptions C15_in_range.

(* refutations: trip counts below S-1 (the pass does not guard: known finding F20) *)
Theorem C15_refuted_small_n :
  exists S n, (1 <= S)%nat /\ (n < S - 1)%nat /\
    ~ Permutation (concat (unrolled S (Z.of_nat n) 1)) (concat (seq_pairs S 0 (Z.of_nat n) 1)) /\
    (exists k t, In (k, t) (concat (unrolled S (Z.of_nat n) 1)) /\ ~ (0 <= t < Z.of_nat n)).
Proof. exact pipeline_refuted_small_n. Qed.
Print Assumptions C15_refuted_small_n.

(* lb <> 0 / step <> 1: the schedule is wrong, hence the guard in ConstructPipeline (fix 143a65c) *)
Theorem C15_refuted_lb_step :
  (exists S lb ub, lb <> 0 /\ Z.of_nat S - 1 <= trip lb ub 1 /\
     ~ Permutation (concat (unrolled S ub 1)) (concat (seq_pairs S lb ub 1))) /\
  (exists S ub st, st <> 1 /\ Z.of_nat S - 1 <= trip 0 ub st /\
     ~ Permutation (concat (unrolled S ub st)) (concat (seq_pairs S 0 ub st))).
Proof. exact pipeline_refuted_lb_step. Qed.
Print Assumptions C15_refuted_lb_step.

(* which loops the pass touches: exactly those with constant lb 0, step 1 whose body (behind the index
   ops) consists of >= 2 groups of stage ops, each closed by a barrier, and nothing else before the
   yield; every other loop is left unchanged (the identity is trivially equal to the sequential loop).
   Before repo fix ce37edb a body with further ops behind >= 2 stages was pipelined and the ops left
   behind ran for the steady-state iterations only (notes/probe_c15_trailing_ops.mlir). *)
Theorem C15_recognised_shape :
  forall p lb st body, recognised p lb st body = true ->
  lb = 0 /\ st = 1 /\ (2 <= nstages p)%nat /\ exists gs, length gs = nstages p /\ body = groups gs.
Proof. exact recognised_shape. Qed.
Print Assumptions C15_recognised_shape.

Theorem C15_clean_recognised :
  forall p, (2 <= nstages p)%nat -> recognised p 0 1 (clean_body p) = true.
Proof. exact clean_recognised. Qed.
Print Assumptions C15_clean_recognised.

Example C15_stray_not_recognised :
  scan false 0 [TStage; TSync; TStage; TSync; TOther; TStage; TSync] = None /\
  scan false 0 [TStage; TSync; TStage; TOther; TSync] = None /\
  scan false 0 [TStage; TSync; TSync; TStage; TSync] = None /\
  scan false 0 [TStage; TSync; TStage; TSync; TStage] = None /\
  scan false 0 [TStage; TStage; TSync; TStage; TSync] = Some 2%nat.
Proof. exact stray_not_recognised. Qed.
Print Assumptions C15_stray_not_recognised.

(* non-vacuity: S = 4 stages, 9 iterations *)
Example C15_nonvacuous :
  (1 <= 4)%nat /\ (4 - 1 <= 9)%nat /\ length (unrolled 4 9 1) = 12%nat /\
  nth 5 (unrolled 4 9 1) [] = [(0%nat, 5); (1%nat, 4); (2%nat, 3); (3%nat, 2)] /\
  nth 10 (unrolled 4 9 1) [] = [(2%nat, 8); (3%nat, 7)].
Proof. repeat split; try lia; reflexivity. Qed.
Print Assumptions C15_nonvacuous.

(* pipeline_equiv.  Under the decidable class safe_pipe (every loop-invariant buffer is read-only,
   private to one stage, or duplicated with an overwriting producer in stage s and readers in
   stage s+1 only; tiles of one buffer share one non-zero stride and are disjoint from the
   loop-invariant buffers; inside a stage ops of different cores do not conflict; ids small and
   distinct), for ALL stage counts S >= 1, ALL trip counts n >= S-1 and EVERY interleaving of the
   cores between consecutive barriers, the unrolled double-buffered code leaves in every buffer
   that is not one of the duplicated pairs exactly the contents the original sequential loop
   leaves (free-algebra values: equality for every concrete kernel).  The duplicated buffers
   themselves are loop-local intermediates (their final content is that of the last or last but
   one iteration, by parity). *)
From Snax Require Import Proofs.MultiCoreCommute Proofs.C15EquivProofs Proofs.C15SafeProofs.

Theorem C15_pipeline_equiv :
  forall p ds n m ss x,
  safe_pipe p ds = true ->
  (forall b, In b ds -> In (Fixed b) (all_operands p)) ->
  (1 <= nstages p)%nat -> (nstages p - 1 <= n)%nat ->
  Forall2 schedule_of (pipe_events p ds (Z.of_nat n) 1) ss ->
  ~ duprel ds x ->
  exec (concat ss) m x = exec (concat (seq_events p 0 (Z.of_nat n) 1)) m x.
Proof. exact pipeline_equiv. Qed.
Print Assumptions C15_pipeline_equiv.

(* its three ingredients: the class implies the footprint hypotheses for every trip count ... *)
Theorem C15_safe_footprints :
  forall p ds, safe_pipe p ds = true ->
  vids_unique p /\ (forall n, overtake_safe p ds n) /\ (forall n, stage_safe p ds n).
Proof.
  intros p ds H. split; [exact (vids_unique_safe p ds H) | split; [exact (safe_overtake p ds H) | exact (safe_stage p ds H)]].
Qed.
Print Assumptions C15_safe_footprints.

(* ... the loop on the parity-selected copies computes what the original loop computes ... *)
Theorem C15_rename_equiv :
  forall p ds, safe_pipe p ds = true -> (forall b, In b ds -> In (Fixed b) (all_operands p)) ->
  forall n m x, ~ duprel ds x ->
  exec (concat (seq_events p 0 (Z.of_nat n) 1)) m x = exec (concat (seq_events_sel p ds 0 (Z.of_nat n) 1)) m x.
Proof. exact rename_equiv. Qed.
Print Assumptions C15_rename_equiv.

(* non-vacuity: the load / compute / store pipeline with its two duplicated buffers is in the class *)
Example C15_safe_nonvacuous :
  dups pipe3 = Some [10; 11] /\ safe_pipe pipe3 [10; 11] = true /\
  (forall b, In b [10; 11] -> In (Fixed b) (all_operands pipe3)) /\ safe_pipe pipe3 [] = false.
Proof.
  split; [reflexivity|]. split; [reflexivity|]. split; [|reflexivity].
  intros b [<-|[<-|[]]]; vm_compute; tauto.
Qed.
Print Assumptions C15_safe_nonvacuous.

(* ... and the reordering under the footprint hypotheses (all S, n, every interleaving) *)


Theorem C15_pipeline_equiv_partial :
  forall p ds n m ss,
  vids_unique p -> overtake_safe p ds n -> stage_safe p ds n ->
  (1 <= nstages p)%nat -> (nstages p - 1 <= n)%nat ->
  Forall2 schedule_of (pipe_events p ds (Z.of_nat n) 1) ss ->
  meq (exec (concat ss) m) (exec (concat (seq_events_sel p ds 0 (Z.of_nat n) 1)) m).
Proof. exact pipeline_equiv_partial. Qed.
Print Assumptions C15_pipeline_equiv_partial.

(* the same with the footprint hypotheses decided by computation for the given trip count *)
Theorem C15_pipeline_equiv_checked :
  forall p ds n m ss,
  vids_unique p -> overtake_safeb p ds n = true -> stage_safeb p ds n = true ->
  (1 <= nstages p)%nat -> (nstages p - 1 <= n)%nat ->
  Forall2 schedule_of (pipe_events p ds (Z.of_nat n) 1) ss ->
  meq (exec (concat ss) m) (exec (concat (seq_events_sel p ds 0 (Z.of_nat n) 1)) m).
Proof. exact pipeline_equiv_checked. Qed.
Print Assumptions C15_pipeline_equiv_checked.

(* non-vacuity: load / compute / store with the two intermediate buffers duplicated satisfies the
   hypotheses (40 iterations); without the duplicates it does not *)
Example C15_pipe3_hypotheses :
  vids_unique pipe3 /\ overtake_safeb pipe3 [10; 11] 40 = true /\ stage_safeb pipe3 [10; 11] 40 = true /\
  overtake_safeb pipe3 [] 40 = false.
Proof. exact pipe3_hypotheses. Qed.
Print Assumptions C15_pipe3_hypotheses.

(* the reordering principle behind it (shared theory): a permutation that keeps the relative
   order of every conflicting pair computes the same memory *)
Theorem C15_reorder_equiv :
  forall p q m, NoDup p -> Permutation p q ->
  (forall a b, before p a b -> before q b a -> conflictb a b = false) ->
  meq (exec q m) (exec p m).
Proof. exact reorder_equiv. Qed.
Print Assumptions C15_reorder_equiv.

(* the same on the barrier-synchronised machine itself: DM core 1 and compute core 0 execute their
   instruction streams of the unrolled code, synchronised by the cluster barriers only; EVERY maximal
   execution terminates (no deadlock) with the buffers of the original sequential loop *)
From Snax Require Import Model.MultiCoreStreams.
Theorem C15_pipeline_machine :
  forall p ds n m,
  safe_pipe p ds = true ->
  (forall b, In b ds -> In (Fixed b) (all_operands p)) ->
  (forall k o, In o (nth k (p_stages p) []) -> s_core o = 0 \/ s_core o = 1) ->
  (1 <= nstages p)%nat -> (nstages p - 1 <= n)%nat ->
  forall cfg, steps (streams_of [0; 1] (pipe_events p ds (Z.of_nat n) 1), m) cfg ->
    (all_finished (fst cfg) = true /\
     forall x, ~ duprel ds x -> snd cfg x = exec (concat (seq_events p 0 (Z.of_nat n) 1)) m x) \/
    (exists cfg', step cfg cfg').
Proof. exact pipeline_machine. Qed.
Print Assumptions C15_pipeline_machine.

(* ... for the set of buffers the (modelled, L1-checked) duplication rule of the pass selects *)
Theorem C15_pipeline_equiv_dups :
  forall p ds n m ss x,
  dups p = Some ds -> safe_pipe p ds = true ->
  (1 <= nstages p)%nat -> (nstages p - 1 <= n)%nat ->
  Forall2 schedule_of (pipe_events p ds (Z.of_nat n) 1) ss ->
  ~ duprel ds x ->
  exec (concat ss) m x = exec (concat (seq_events p 0 (Z.of_nat n) 1)) m x.
Proof. exact pipeline_equiv_dups. Qed.
Print Assumptions C15_pipeline_equiv_dups.

(* non-vacuity of the hypotheses of C15_pipeline_machine / C15_pipeline_equiv_dups *)
Example C15_machine_nonvacuous :
  dups pipe3 = Some [10; 11] /\ safe_pipe pipe3 [10; 11] = true /\
  (forall k o, In o (nth k (p_stages pipe3) []) -> s_core o = 0 \/ s_core o = 1) /\
  (1 <= nstages pipe3)%nat /\ ~ duprel [10; 11] (bid 1 8) /\ duprel [10; 11] (bid 1010 0).
Proof.
  split; [reflexivity|]. split; [reflexivity|]. split; [|split; [vm_compute; lia|split]].
  - intros k o H. destruct k as [|[|[|k]]]; simpl in H.
    + destruct H as [<-|[]]. right. reflexivity.
    + destruct H as [<-|[]]. left. reflexivity.
    + destruct H as [<-|[]]. right. reflexivity.
    + destruct k; destruct H.
  - intros [b [Hb Hx]]. destruct Hb as [<-|[<-|[]]]; destruct Hx as [Hx|Hx]; vm_compute in Hx; discriminate.
  - exists 10. split; [left; reflexivity | right; reflexivity].
Qed.
Print Assumptions C15_machine_nonvacuous.
