(* C03 — scheduling preserves the iteration space.
   Only theorem statements closed by `exact`, each followed by Print Assumptions. *)
From Snax Require Import Base.Prelude Model.C03Schedule Model.C03Yields Model.C16Matcher
  Proofs.C03ScheduleProofs Proofs.C03CanonProofs Proofs.C03BacktrackProofs Proofs.C03FuelProofs.
From Coq Require Import Permutation.

(* image s = the list, over all points x of the iteration box (lexicographic), of the tuple
   (A_p.x + b_p) over all operands p.  [wf_schedb]: the class invariant of a Schedule (same
   positive bounds for every operand, as many columns as bounds). *)

(* Loop rotation: the multiset of operand-index tuples is unchanged (the order changes). *)
Theorem C03_rotate_image :
  forall d s s', wf_schedb s = true -> (1 <= d)%nat -> s_rotate d s = Some s' ->
    Permutation (image s') (image s) /\ wf_schedb s' = true.
Proof.
  intros d s s' H Hd Hr. apply wf_schedb_ok in H.
  split; [eapply rotate_image; eassumption | apply wf_schedb_ok; eapply rotate_wf; eassumption].
Qed.
Print Assumptions C03_rotate_image.

(* Tiling dimension d by t: when t divides the bound, even the order of the tuples is kept. *)
Theorem C03_tile_image :
  forall d t s s', wf_schedb s = true -> s_tile d t s = Some s' ->
    (forall bd, nth_error (sbounds s) d = Some bd -> bd mod t = 0) ->
    image s' = image s /\ wf_schedb s' = true.
Proof.
  intros d t s s' H Ht Hdiv. apply wf_schedb_ok in H.
  split; [eapply tile_image; eassumption | apply wf_schedb_ok; eapply tile_wf; eassumption].
Qed.
Print Assumptions C03_tile_image.

(* ... and the divisibility hypothesis is necessary: tile_dim itself does not check it. *)
Theorem C03_tile_needs_divisibility :
  exists s s' d t, wf_sched s /\ s_tile d t s = Some s' /\ ~ Permutation (image s') (image s).
Proof. exact tile_refuted. Qed.
Print Assumptions C03_tile_needs_divisibility.

(* Inserting a unit dimension. *)
Theorem C03_add_dim_image :
  forall s s', wf_schedb s = true -> s_add_dim s = Some s' -> image s' = image s /\ wf_schedb s' = true.
Proof.
  intros s s' H Ha. apply wf_schedb_ok in H.
  split; [eapply add_dim_image; eassumption | apply wf_schedb_ok; eapply add_dim_wf; eassumption].
Qed.
Print Assumptions C03_add_dim_image.

(* Dropping unit dimensions: Schedule.clear_unused_dims() and Schedule.canonicalize() (what the
   dart-scheduler pass applies before the search) keep the tuples in the same order. *)
Theorem C03_clear_unused_image :
  forall s s', wf_schedb s = true -> s_clear None s = Some s' -> image s' = image s /\ wf_schedb s' = true.
Proof.
  intros s s' H Hc. apply wf_schedb_ok in H. destruct (clear_unused_image s s' H Hc) as [Hi Hw].
  split; [exact Hi | apply wf_schedb_ok; exact Hw].
Qed.
Print Assumptions C03_clear_unused_image.

Theorem C03_canonicalize_image :
  forall s s', wf_schedb s = true -> s_canon s = Some s' -> image s' = image s /\ wf_schedb s' = true.
Proof.
  intros s s' H Hc. apply wf_schedb_ok in H. destruct (canonicalize_image s s' H Hc) as [Hi Hw].
  split; [exact Hi | apply wf_schedb_ok; exact Hw].
Qed.
Print Assumptions C03_canonicalize_image.

Example C03_canon_nonvacuous :
  let s : sched := [mkPat [1; 8; 1; 8] [[1; 0]; [0; 0]; [5; 5]; [0; 1]] [0; 3]] in
  wf_schedb s = true /\ s_canon s = Some [mkPat [8; 8] [[0; 0]; [0; 1]] [0; 3]] /\
  s_clear None s = Some [mkPat [8; 8] [[0; 0]; [0; 1]] [0; 3]].
Proof. vm_compute. auto. Qed.
Print Assumptions C03_canon_nonvacuous.

(* The backtracking search: EVERY schedule yielded (not only the first), for every template
   (bounded / unbounded dims), every matcher, every list of extra checks, every starting level k and
   any fuel, has the same multiset of operand-index tuples as the input schedule. *)
Theorem C03_backtrack_image :
  forall (matcher : tmpl -> sched -> bool) (checks : list (tmpl -> sched -> bool)) (T : tmpl)
         (fuel : nat) (s : sched) (k : nat) (r : sched),
    wf_schedb s = true -> In r (fst (bt matcher checks fuel T s k)) ->
    Permutation (image r) (image s) /\ wf_schedb r = true.
Proof.
  intros m c T f s k r H Hin. apply wf_schedb_ok in H.
  destruct (backtrack_image m c T f s k r H Hin) as [HP Hw]. split; [exact HP | apply wf_schedb_ok; exact Hw].
Qed.
Print Assumptions C03_backtrack_image.

(* ... in particular the result of scheduler(template, schedule, checks, idx). *)
Theorem C03_scheduler_image :
  forall matcher checks T s idx r, wf_schedb s = true -> scheduler matcher checks T s idx = Some r ->
    Permutation (image r) (image s).
Proof. intros m c T s idx r H Hs. apply wf_schedb_ok in H. exact (scheduler_image m c T s idx r H Hs). Qed.
Print Assumptions C03_scheduler_image.

(* Fuel: the executable search is defined on fuel; beyond the measure (schedule dims + bounded template dims)
   the fuel is irrelevant, so [backtrack] (which picks ndims + tdims + 2) never stops for lack of fuel and the
   theorems above cover the complete list of results. *)
Theorem C03_backtrack_fuel :
  forall matcher checks T s f, wf_schedb s = true -> s <> [] -> (bt_fuel T s <= f)%nat ->
    bt matcher checks f T s 1 = backtrack matcher checks T s.
Proof. intros m c T s f H Hne Hf. apply wf_schedb_ok in H. exact (backtrack_fuel_enough m c T s f H Hne Hf). Qed.
Print Assumptions C03_backtrack_fuel.

(* The guard of the search establishes the divisibility precondition of tile_dim. *)
Theorem C03_backtrack_tiles_only_divisible :
  forall matcher checks T k n s1 t sb, c_ndims s1 = Some n -> accepted matcher checks T k s1 (Some t) sb ->
    sb mod t = 0 -> forall bd, nth_error (sbounds s1) (n - k) = Some bd -> bd mod t = 0.
Proof. exact yields_tiles_only_divisible. Qed.
Print Assumptions C03_backtrack_tiles_only_divisible.

(* non-vacuity of the backtracking theorem: test_pure_output_stationary_scheduler's input yields two
   schedules with the real matcher, both different from the input *)
Example C03_backtrack_nonvacuous :
  let T : tmpl := [mkPat [Some 4] [[1]] [0]] in
  let s : sched := [mkPat [8; 8] [[0]; [1]] [0]] in
  wf_schedb s = true /\ length (fst (backtrack matches [] T s)) = 2%nat /\
  forallb (fun r => negb (sched_eqb r s)) (fst (backtrack matches [] T s)) = true.
Proof. vm_compute. auto. Qed.
Print Assumptions C03_backtrack_nonvacuous.

(* non-vacuity: a 3-operand matmul-like schedule on which every operation succeeds and changes something *)
Example C03_nonvacuous :
  let s : sched := [mkPat [4; 6; 8] [[1; 0]; [0; 0]; [0; 1]] [0; 0];
                    mkPat [4; 6; 8] [[0; 0]; [0; 1]; [1; 0]] [0; 0];
                    mkPat [4; 6; 8] [[1; 0]; [0; 1]; [0; 0]] [0; 0]] in
  wf_schedb s = true /\
  (exists s', s_rotate 3 s = Some s' /\ s' <> s) /\
  (exists s', s_tile 1 3 s = Some s' /\ s' <> s /\ forall bd, nth_error (sbounds s) 1 = Some bd -> bd mod 3 = 0) /\
  (exists s', s_add_dim s = Some s' /\ s' <> s).
Proof.
  cbv zeta. split; [reflexivity|]. split; [eexists; split; [reflexivity|discriminate]|].
  split; [eexists; split; [reflexivity|split; [discriminate|]]|eexists; split; [reflexivity|discriminate]].
  intros bd H. injection H as <-. reflexivity.
Qed.
Print Assumptions C03_nonvacuous.
