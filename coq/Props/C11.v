(* C11 — allocations are big enough and never overlap while live.
   Only theorem statements closed by `exact`, each followed by Print Assumptions. *)
From Snax Require Import Base.Prelude Model.Tsl Model.C11Alloc Proofs.C11AllocProofs.

(* StaticAllocs: for every memory (start, capacity) and every list of (size, alignment) requests with
   positive alignment and non-negative size, a successful run yields aligned, in-window, pairwise
   disjoint (ordered) ranges. *)
Theorem C11_static_disjoint : forall start cap rs l,
  Forall req_ok rs -> static_allocs start cap rs = AOk l ->
  length l = length rs /\
  forall i ai ri, nth_error l i = Some ai -> nth_error rs i = Some ri ->
    start <= ai /\ ai + rsize ri <= start + cap /\ ai mod ralign ri = 0 /\
    forall j aj, (i < j)%nat -> nth_error l j = Some aj -> ai + rsize ri <= aj.
Proof. exact static_disjoint. Qed.
Print Assumptions C11_static_disjoint.

(* ... or the error: "memory space is full" exactly when the packed requests do not fit *)
Theorem C11_static_full_iff : forall start cap rs cur, Forall req_ok rs -> cur <= start + cap ->
  (static_from start cap cur rs = AErr ErrFull <-> bump cur rs > start + cap) /\
  (static_from start cap cur rs <> AErr ErrZeroDiv).
Proof. exact static_full_iff. Qed.
Print Assumptions C11_static_full_iff.

(* alignment = 0 (also: no alignment attribute) raises ZeroDivisionError *)
Theorem C11_static_zero_alignment : forall start cap cur r rest,
  ralign r = 0 -> static_from start cap cur (r :: rest) = AErr ErrZeroDiv.
Proof. exact static_zero_alignment. Qed.
Print Assumptions C11_static_zero_alignment.

(* non-vacuity: the requests of snax-allocate-static.mlir (13 bytes, alignments 10, 10, 14, memory "Test") *)
Example C11_static_nonvacuous :
  Forall req_ok [(13, 10); (13, 10); (13, 14)] /\ static_allocs 0 100 [(13, 10); (13, 10); (13, 14)] = AOk [0; 20; 42].
Proof. split; [repeat constructor; cbv; auto; discriminate | reflexivity]. Qed.
Print Assumptions C11_static_nonvacuous.
