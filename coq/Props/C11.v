(* C11 — allocations are big enough and never overlap while live.
   Only theorem statements closed by `exact`, each followed by Print Assumptions. *)
From Snax Require Import Base.Prelude Model.Tsl Model.C11Alloc Proofs.C11AllocProofs.

(* StaticAllocs: for every memory (start, capacity) and every list of (size, alignment) requests with
   positive alignment and non-negative size, a successful run yields aligned, in-window, pairwise
   disjoint (ordered) ranges. *)
Theorem C11_static_disjoint : forall start cap rs l,
  Forall req_ok rs -> static_allocs start cap rs = AOk l ->
  length l = length rs /\
  forall i ai ri, nth_error l i = Some ai -> nth_error rs i = Some ri ->
    start <= ai /\ ai + rsize ri <= start + cap /\ ai mod ralign ri = 0 /\
    forall j aj, (i < j)%nat -> nth_error l j = Some aj -> ai + rsize ri <= aj.
Proof. exact static_disjoint. Qed.
Print Assumptions C11_static_disjoint.

(* ... or the error: "memory space is full" exactly when the packed requests do not fit *)
Theorem C11_static_full_iff : forall start cap rs cur, Forall req_ok rs -> cur <= start + cap ->
  (static_from start cap cur rs = AErr ErrFull <-> bump cur rs > start + cap) /\
  (static_from start cap cur rs <> AErr ErrZeroDiv).
Proof. exact static_full_iff. Qed.
Print Assumptions C11_static_full_iff.

(* alignment = 0 (also: no alignment attribute) raises ZeroDivisionError *)
Theorem C11_static_zero_alignment : forall start cap cur r rest,
  ralign r = 0 -> static_from start cap cur (r :: rest) = AErr ErrZeroDiv.
Proof. exact static_zero_alignment. Qed.
Print Assumptions C11_static_zero_alignment.

(* non-vacuity: the requests of snax-allocate-static.mlir (13 bytes, alignments 10, 10, 14, memory "Test") *)
Example C11_static_nonvacuous :
  Forall req_ok [(13, 10); (13, 10); (13, 14)] /\ static_allocs 0 100 [(13, 10); (13, 10); (13, 14)] = AOk [0; 20; 42].
Proof. split; [repeat constructor; cbv; auto; discriminate | reflexivity]. Qed.
Print Assumptions C11_static_nonvacuous.

(* ================================================================================ *)
From Snax Require Import Proofs.TslProofs Proofs.C11SizeProofs Model.C11Life Proofs.C11LifeProofs.

(* size_bounds_layout: for every static layout with positive bounds and non-negative steps (any rank, depth,
   gaps, padding, offset) and every element width, the bytes requested by memref-to-snax are exactly
   offset*el + (largest address)*el + el, and every element of the layout's index box ends inside them *)
Theorem C11_size_bounds_layout : forall el l dims sz, layout_posb l = true -> 0 <= el ->
  size_tsl el l dims = Some sz ->
  exists off, offset l = Some off /\ sz = off * el + max_addr l * el + el /\
  forall idx, Forall2 (fun i n => 0 <= i < n) idx (shape_of l) ->
    0 <= affine_map_eval l idx /\ off * el + affine_map_eval l idx * el + el <= sz.
Proof. intros el l dims sz H. exact (size_bounds_layout el l dims sz (layout_posb_ok l H)). Qed.
Print Assumptions C11_size_bounds_layout.

(* no layout attribute: el * prod(shape) = (largest row-major index)*el + el, static and dynamic dims alike *)
Theorem C11_size_none_exact : forall el shape, size_none el shape = (zprod shape - 1) * el + el.
Proof. exact size_none_exact. Qed.
Print Assumptions C11_size_none_exact.

(* size_dynamic_partial: dynamic outermost bounds (static steps) under tile divisibility *)
Theorem C11_size_dynamic_partial : forall el l dims sz, steps_static l -> 0 <= el ->
  layout_posb (inst_layout l dims) = true -> shape_of (inst_layout l dims) = dims ->
  size_tsl el l dims = Some sz ->
  exists off, offset l = Some off /\
  forall idx, Forall2 (fun i n => 0 <= i < n) idx dims ->
    off * el + affine_map_eval (inst_layout l dims) idx * el + el <= sz.
Proof. intros el l dims sz Hs Hel Hp. exact (size_dynamic_partial el l dims sz Hs Hel (layout_posb_ok _ Hp)). Qed.
Print Assumptions C11_size_dynamic_partial.

(* non-vacuity of the dynamic case: memref<8x?xi32, [2, 4] -> (64, 4), [?, 4] -> (16, 1), offset 3> with dim 12 *)
Example C11_size_dynamic_nonvacuous :
  let l := mkLayout [[(Some 64, Some 2); (Some 4, Some 4)]; [(Some 16, None); (Some 1, Some 4)]] (Some 3) in
  steps_static l /\ layout_posb (inst_layout l [8; 12]) = true /\ shape_of (inst_layout l [8; 12]) = [8; 12] /\
  size_tsl 4 l [8; 12] = Some 460.
Proof. repeat split; try reflexivity. repeat constructor; discriminate. Qed.
Print Assumptions C11_size_dynamic_nonvacuous.

(* size_dynamic_refuted (finding F10, confirmed on the real pass): without tile divisibility the floor of
   dim / prod(inner bounds) loses the last partial tile: memref<?xi64, [?, 2] -> (7, 4)> with run-time dim 3
   is given 40 bytes, but element 2 (inside the memref) ends at byte 64 *)
Theorem C11_size_dynamic_refuted : exists el l dims sz idx,
  steps_static l /\ size_tsl el l dims = Some sz /\
  Forall2 (fun i n => 0 <= i < n) idx dims /\
  sz < affine_map_eval (inst_layout l dims) idx * el + el.
Proof.
  exists 8, (mkLayout [[(Some 7, None); (Some 4, Some 2)]] (Some 0)), [3], 40, [2].
  repeat split; try reflexivity; try (repeat constructor; (discriminate || lia)).
Qed.
Print Assumptions C11_size_dynamic_refuted.

(* lifetime_covers_direct: a direct use of the alloc result is never after end_time *)
Theorem C11_lifetime_covers_direct : forall prog a o,
  In o prog -> In (res0 a) (o_ops o) -> (o_top a <= end_time prog a /\ o_top o <= end_time prog a)%nat.
Proof. intros prog a o H1 H2. split; [apply end_time_ge_start|exact (lifetime_covers_direct prog a o H1 H2)]. Qed.
Print Assumptions C11_lifetime_covers_direct.

(* lifetime_covers_views (after the repair of F11): every use of the buffer or of any view / cast of it,
   transitively, nested or not, lies inside the interval handed to the solver *)
Theorem C11_lifetime_covers_views : forall prog a o,
  alias_followed prog = true -> In o prog ->
  uses_any o (closure aliased prog [res0 a]) = true -> (o_top o <= end_time prog a)%nat.
Proof. exact lifetime_covers_views. Qed.
Print Assumptions C11_lifetime_covers_views.

(* minimalloc_safe: for EVERY solver that honours the contract (overlapping half-open lifetimes => disjoint
   ranges; aligned; inside capacity), two different buffers of a memory space that are live at the same
   top-level index never overlap *)
Theorem C11_minimalloc_safe : forall (solve : list buffer -> Z -> option (list Z)) prog m cap offs,
  solve_contract solve -> wf_prog prog = true ->
  solve (buffers_in prog m) cap = Some offs ->
  forall i j a1 a2 o1 o2 t, i <> j ->
    nth_error (allocs_in prog m) i = Some a1 -> nth_error (allocs_in prog m) j = Some a2 ->
    nth_error offs i = Some o1 -> nth_error offs j = Some o2 ->
    live prog a1 t -> live prog a2 t ->
    (o1 + o_size a1 <= o2 \/ o2 + o_size a2 <= o1) /\
    0 <= o1 /\ o1 + o_size a1 <= cap /\ (0 < o_align a1 -> o1 mod o_align a1 = 0).
Proof. exact minimalloc_safe. Qed.
Print Assumptions C11_minimalloc_safe.

(* the probe program notes/probe_c11_subview_lifetime.mlir as abstract use-list program:
   %2 alloc, %3 cast, %v subview of %3, use %3, %4 alloc, %5 cast, use %5, use (%v, %5) *)
Definition probe_f11 : list aop :=
  [ mkOp KOther 0 [] [(1%nat, false)] false 0 0 0; mkOp KOther 1 [] [(2%nat, false)] false 0 0 0;
    mkOp KAlloc 2 [2%nat; 1%nat; 1%nat] [(3%nat, false)] false 64 1 0;
    mkOp KCast 3 [3%nat] [(4%nat, true)] true 0 0 0;
    mkOp KOther 4 [4%nat] [(5%nat, true)] true 0 0 0;            (* memref.subview *)
    mkOp KOther 5 [4%nat] [] false 0 0 0;
    mkOp KAlloc 6 [2%nat; 1%nat; 1%nat] [(6%nat, false)] false 64 1 0;
    mkOp KCast 7 [6%nat] [(7%nat, true)] true 0 0 0;
    mkOp KOther 8 [7%nat] [] false 0 0 0;
    mkOp KOther 9 [5%nat; 7%nat] [] false 0 0 0;
    mkOp KOther 10 [] [] false 0 0 0 ].

(* non-vacuity + the repaired behaviour on the probe: both buffers are live at index 9 and their lifetimes
   now overlap ([2,9] and [6,9]) *)
Example C11_probe_after_fix :
  wf_prog probe_f11 = true /\
  buffers probe_f11 = [mkBuf 2 9 64 1; mkBuf 6 9 64 1].
Proof. split; reflexivity. Qed.
Print Assumptions C11_probe_after_fix.

(* lifetime_covers_views_refuted for the analysis BEFORE the repair (direct uses + one level of cast):
   the first buffer's interval ended at 5 although its subview is used at 9, so the two lifetimes
   [2,5) and [6,9) did not overlap and a correct solver may hand out the same range (it did: address 0) *)
Theorem C11_lifetime_covers_views_refuted_before_fix : exists prog a o,
  wf_prog prog = true /\ In a (allocs prog) /\ In o prog /\
  uses_any o (closure aliased prog [res0 a]) = true /\ (end_time_old prog a < o_top o)%nat.
Proof.
  exists probe_f11, (mkOp KAlloc 2 [2%nat; 1%nat; 1%nat] [(3%nat, false)] false 64 1 0), (mkOp KOther 9 [5%nat; 7%nat] [] false 0 0 0).
  repeat split; try reflexivity; cbn; auto 12. 
Qed.
Print Assumptions C11_lifetime_covers_views_refuted_before_fix.

(* F11b (confirmed on the real pass, then repaired in /repo 20eb1ea): a memref that leaves a region through its
   terminator aliases the buffer.  BEFORE the repair the analysis had nothing to follow at the terminator
   (pseudo-result recorded as not followed): `alias_followed` was false and the conclusion of
   C11_lifetime_covers_views failed.  The program (converted from the real IR by the harness) is
     %a0 alloc (5), %m0 cast (6), %a1 alloc (7), %m1 cast (8),
     %r = scf.if -> memref { yield %m0 } else { yield %m1 } (9), use %m1 (10), %a2 alloc (11), %m2 cast (12),
     use %m2 (13), use (%r, %m2) (14)
   snax-allocate{mode=minimalloc} handed the solver the intervals [5,9) [7,10) [11,14) and the third buffer got the
   address of the first while %r was still used at 14. *)
Definition probe_f11b_with (followed_flag : bool) : list aop :=
  [ mkOp KOther 0 [] [(1%nat, false)] false 0 0 0; mkOp KOther 1 [] [(2%nat, false)] false 0 0 0;
    mkOp KOther 2 [] [(3%nat, false)] false 0 0 0; mkOp KOther 3 [] [(4%nat, false)] false 0 0 0;
    mkOp KOther 4 [] [(5%nat, false)] false 0 0 0;
    mkOp KAlloc 5 [2%nat; 1%nat; 1%nat] [(6%nat, false)] false 64 1 0;
    mkOp KCast 6 [6%nat] [(7%nat, true)] true 0 0 0;
    mkOp KAlloc 7 [2%nat; 1%nat; 1%nat] [(8%nat, false)] false 64 1 0;
    mkOp KCast 8 [8%nat] [(9%nat, true)] true 0 0 0;
    mkOp KOther 9 [3%nat] [(10%nat, true)] false 0 0 0;                   (* scf.if, result %r = value 10 *)
    mkOp KOther 9 [7%nat] [] false 0 0 0;                                  (* scf.yield %m0 *)
    mkOp KOther 9 [7%nat] [(10%nat, followed_flag)] true 0 0 0;           (* ... makes %r alias %m0 *)
    mkOp KOther 9 [9%nat] [] false 0 0 0;                                  (* scf.yield %m1 *)
    mkOp KOther 9 [9%nat] [(10%nat, followed_flag)] true 0 0 0;
    mkOp KOther 10 [9%nat] [] false 0 0 0;
    mkOp KAlloc 11 [2%nat; 1%nat; 1%nat] [(11%nat, false)] false 64 1 0;
    mkOp KCast 12 [11%nat] [(12%nat, true)] true 0 0 0;
    mkOp KOther 13 [12%nat] [] false 0 0 0;
    mkOp KOther 14 [10%nat; 12%nat] [] false 0 0 0;
    mkOp KOther 15 [] [] false 0 0 0 ].
Definition probe_f11b : list aop := probe_f11b_with false.          (* the analysis before the repair *)
Definition probe_f11b_fixed : list aop := probe_f11b_with true.     (* the repaired analysis follows the parent's results *)

Theorem C11_lifetime_covers_views_refuted_region_result_before_fix : exists prog a o,
  alias_followed prog = false /\ alloc_alone prog = true /\ In a (allocs prog) /\ In o prog /\
  uses_any o (closure aliased prog [res0 a]) = true /\ (end_time prog a < o_top o)%nat /\
  buffers prog = [mkBuf 5 9 64 1; mkBuf 7 10 64 1; mkBuf 11 14 64 1].
Proof.
  exists probe_f11b, (mkOp KAlloc 5 [2%nat; 1%nat; 1%nat] [(6%nat, false)] false 64 1 0), (mkOp KOther 14 [10%nat; 12%nat] [] false 0 0 0).
  repeat split; try reflexivity; cbn; auto 25.
Qed.
Print Assumptions C11_lifetime_covers_views_refuted_region_result_before_fix.

(* the same program with the repaired code: the hypotheses of C11_lifetime_covers_views / C11_minimalloc_safe hold and
   the three lifetimes [5,14) [7,14) [11,14) overlap (the real pass now places them at 65536, 65600, 65664) *)
Example C11_region_result_after_fix :
  wf_prog probe_f11b_fixed = true /\
  buffers probe_f11b_fixed = [mkBuf 5 14 64 1; mkBuf 7 14 64 1; mkBuf 11 14 64 1].
Proof. split; reflexivity. Qed.
Print Assumptions C11_region_result_after_fix.

(* create_memref_struct, dynamic mode: for every run-time allocator honouring the aligned-allocator contract,
   the descriptor's access pointer (field 1) is the allocator's aligned pointer for this alloc's alignment *)
Theorem C11_descr_dynamic_aligned : forall (alloc_l1 : Z -> Z -> Z * Z),
  (forall size al, 0 < al -> fst (alloc_l1 size al) <= snd (alloc_l1 size al) /\ snd (alloc_l1 size al) mod al = 0) ->
  forall size al n, 0 < al ->
    let d := descr_dynamic al n in
    d_call_align d = Some al /\
    resolve (alloc_l1 size al) (d_ptr d) = Some (fst (alloc_l1 size al)) /\
    (exists ap, resolve (alloc_l1 size al) (d_aligned d) = Some ap /\ ap mod al = 0 /\ fst (alloc_l1 size al) <= ap) /\
    d_offset d = 0 /\ d_sizes d = seq 0 n.
Proof. exact descr_dynamic_aligned. Qed.
Print Assumptions C11_descr_dynamic_aligned.

Theorem C11_descr_const_fields : forall addr n rt,
  resolve rt (d_ptr (descr_const addr n)) = Some addr /\ resolve rt (d_aligned (descr_const addr n)) = Some addr /\
  d_offset (descr_const addr n) = 0 /\ d_sizes (descr_const addr n) = seq 0 n.
Proof. exact descr_const_fields. Qed.
Print Assumptions C11_descr_const_fields.

(* static mode over several memory spaces (the dict current_addresses): the buffers of every memory space m
   are placed as by the single-memory allocator, hence aligned, inside that space's window, pairwise disjoint *)
Theorem C11_static_multi_disjoint : forall mems rs l m,
  Forall (fun r => (fst r < length mems)%nat) rs -> Forall req_ok (reqs_of m rs) ->
  static_multi mems rs = AOk l ->
  let start := fst (nth m mems (0, 0)) in let cap := snd (nth m mems (0, 0)) in
  length (addrs_of m rs l) = length (reqs_of m rs) /\
  forall i ai ri, nth_error (addrs_of m rs l) i = Some ai -> nth_error (reqs_of m rs) i = Some ri ->
    start <= ai /\ ai + rsize ri <= start + cap /\ ai mod ralign ri = 0 /\
    forall j aj, (i < j)%nat -> nth_error (addrs_of m rs l) j = Some aj -> ai + rsize ri <= aj.
Proof. exact static_multi_disjoint. Qed.
Print Assumptions C11_static_multi_disjoint.
