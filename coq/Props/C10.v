(* C10 — a tiled-strided layout means the same thing everywhere.
   Only theorem statements closed by `exact`, each followed by Print Assumptions.
   Model: coq/Model/Tsl.v (hand model of snaxc/ir/tsl/* and TiledStridedLayoutAttr.get_affine_map),
   tied to the code by the L1 correspondence in harness/props/c10.py on every run.
   `layout_okb l` = every stride static with bound > 0 (any rank, any tile depth, any steps). *)
From Snax Require Import Base.Prelude Model.Tsl Model.TslText Proofs.TslProofs Proofs.TslProofs2 Proofs.TslProofs3 Proofs.TslTextProofs Model.TslOps Proofs.TslOpsProofs Model.C05Copy Proofs.TslLccbPos.
From Coq Require Import Permutation.

(* 1. The affine map used for stream address generation, evaluated over the row-major index box,
      IS the enumeration all_values() (used for density/overlap and DMA/alloc reasoning). *)
Theorem C10_affine_map_enumerates_all_values :
  forall l, layout_okb l = true ->
  map (affine_map_eval l) (row_major (shape_of l)) = all_values l.
Proof. intros l H. exact (affine_map_all_values l (proj1 (layout_okb_ok l) H)). Qed.
Print Assumptions C10_affine_map_enumerates_all_values.

(* 2. Canonicalising does not change the enumeration, the shape, the offset, nor the
      index -> address function at any index of the box. *)
Theorem C10_canonicalize_preserves :
  forall l, layout_okb l = true ->
  all_values (canonicalize l) = all_values l /\
  shape_of (canonicalize l) = shape_of l /\
  offset (canonicalize l) = offset l /\
  layout_okb (canonicalize l) = true /\
  forall idx, Forall2 (fun i n => 0 <= i < n) idx (shape_of l) ->
              affine_map_eval (canonicalize l) idx = affine_map_eval l idx.
Proof.
  intros l H. pose proof (proj1 (layout_okb_ok l) H) as Hok.
  split; [exact (canonicalize_all_values l Hok)|].
  split; [exact (canonicalize_shape l Hok)|].
  split; [exact (canonicalize_offset l)|].
  split; [exact (proj2 (layout_okb_ok _) (canonicalize_ok l Hok))|].
  exact (canonicalize_affine_map l Hok).
Qed.
Print Assumptions C10_canonicalize_preserves.

(* 3. A layout built from plain strides and tile bounds addresses element idx at sum_d stride_d*idx_d,
      and its shape is the product of the tile bounds. *)
Theorem C10_from_strides_addr :
  forall strides bss off,
  Forall (fun s => s <> 0) strides -> Forall (Forall (fun b => 0 < b)) bss -> length strides = length bss ->
  let l := from_strides (map Some strides) (map (map Some) bss) off in
  layout_ok l /\ shape_of l = map zprod bss /\
  forall idx, Forall2 (fun i n => 0 <= i < n) idx (map zprod bss) -> affine_map_eval l idx = dotZ strides idx.
Proof. exact from_strides_addr. Qed.
Print Assumptions C10_from_strides_addr.

(* 4. The overlap predicate is exactly "some address is enumerated twice"; the density predicate
      implies the addresses are exactly 0..n-1, each once. *)
Theorem C10_self_overlaps_spec : forall l, self_overlaps l = false <-> NoDup (all_values l).
Proof. exact self_overlaps_spec. Qed.
Print Assumptions C10_self_overlaps_spec.

Theorem C10_is_dense_spec :
  forall l, Forall (fun v => 0 <= v) (all_values l) -> is_dense l = true ->
  Permutation (all_values l) (zrange (Z.of_nat (length (all_values l)))).
Proof. exact is_dense_spec. Qed.
Print Assumptions C10_is_dense_spec.

(* 5. The common contiguous block reported for two layouts is either the single-element default, or
      every returned stride sits at one (dim, depth) position in BOTH layouts with equal (step, bound)
      and the steps chain contiguously from the starting stride:
      step_0 = start, step_{k+1} = step_k * bound_k.   (any layouts, incl. dynamic entries) *)
Theorem C10_lccb_shared_contiguous :
  forall a b start,
  lccb a b start = [(Some start, Some 1)] \/
  (chain (Some start) (lccb a b start) /\ Forall (shared a b) (lccb a b start)).
Proof. exact lccb_sound. Qed.
Print Assumptions C10_lccb_shared_contiguous.

(* 5b. ... and the returned strides sit at pairwise distinct (dim, depth) positions of `a`, each holding
       the same stride in `b` at that position (any layouts, dynamic entries included, any start):
       the block never counts one stride twice, also when several strides have equal values. *)
Theorem C10_lccb_positions_distinct :
  forall a b start,
  exists blk : list entry,
    (lccb a b start = map snd blk \/ (blk = [] /\ lccb a b start = [(Some start, Some 1)])) /\
    NoDup (map fst blk) /\
    Forall (fun e => In e (entries a) /\ get_stride b (fst (fst e)) (snd (fst e)) = Some (snd e)) blk.
Proof. exact lccb_positions_distinct. Qed.
Print Assumptions C10_lccb_positions_distinct.

(* 6. Textual form: print then parse gives an equal layout, including dynamic (`?`) bounds/steps and
      any static offset; `printable` excludes exactly: a zero step/bound (printed as `?`) and a dynamic
      offset.  The latter is refuted on the faithful model (known finding F21). *)
Theorem C10_print_parse_roundtrip :
  forall l, printable l = true -> tstrides l <> [] -> parse_layout (print_layout l ++ [TGreater]) = Some l.
Proof. exact print_parse_roundtrip. Qed.
Print Assumptions C10_print_parse_roundtrip.

Theorem C10_print_parse_refuted_dynamic_offset :
  exists l, tstrides l <> [] /\ parse_layout (print_layout l ++ [TGreater]) <> Some l.
Proof. exact print_parse_refuted_dynamic_offset. Qed.
Print Assumptions C10_print_parse_refuted_dynamic_offset.

(* 7. Run-time views used for DMA loop nests: the values computed by the emitted bound ops / step ops
      are the layout's bounds and (byte-scaled) steps for static layouts; a dynamic outermost bound is
      recovered exactly from the run-time size when that size is a multiple of the inner tile. *)
Theorem C10_bound_step_ops_static :
  forall l shape el, layout_okb l = true -> length shape = length (tstrides l) ->
  bound_vals (tstrides l) shape = Some (map (map sbound_of) (tstrides l)) /\
  step_vals l (map (map sbound_of) (tstrides l)) el = map (fun s => sstep_of s * el) (all_strides l).
Proof.
  intros l shape el H Hlen. exact (bound_step_ops_static l shape el (proj1 (layout_okb_ok l) H) Hlen).
Qed.
Print Assumptions C10_bound_step_ops_static.

Theorem C10_dynamic_bound_recovered :
  forall st rest b0, tstride_ok rest -> 0 <= b0 ->
  dim_bound_vals ((st, None) :: rest) (b0 * bounds_prod rest) = Some (b0 :: map sbound_of rest).
Proof. exact dim_bound_vals_dynamic. Qed.
Print Assumptions C10_dynamic_bound_recovered.

(* 8. Subview pointer arithmetic: for a tile-aligned dynamic offset the pointer adjustment equals the
      layout address of that offset (in bytes); refuted without alignment (precondition of the lowering). *)
Theorem C10_subview_pointer :
  forall t el off, tstride_ok t -> (bounds_prod (tl t) | off) -> subview_contrib t el off = dim_addr t off * el.
Proof. exact subview_contrib_addr. Qed.
Print Assumptions C10_subview_pointer.

Theorem C10_subview_pointer_refuted_unaligned :
  exists t el off, tstride_ok t /\ 0 <= off < bounds_prod t /\ subview_contrib t el off <> dim_addr t off * el.
Proof. exact subview_contrib_refuted_unaligned. Qed.
Print Assumptions C10_subview_pointer_refuted_unaligned.

(* ---- non-vacuity ------------------------------------------------------------------ *)
Example C10_nonvacuous_canonicalize :
  let l := mkLayout [[(Some 8, Some 2); (Some 4, Some 2); (Some 1, Some 4)]; [(Some 16, Some 1); (Some 32, Some 3)]] (Some 0) in
  layout_okb l = true /\ canonicalize l <> l /\ length (all_values l) = 48%nat.
Proof. split; [reflexivity|]. split; [discriminate | reflexivity]. Qed.
Print Assumptions C10_nonvacuous_canonicalize.

Example C10_nonvacuous_lccb :
  let a := mkLayout [[(Some 32, Some 2); (Some 4, Some 4)]; [(Some 16, Some 2); (Some 1, Some 4)]] (Some 0) in
  let b := mkLayout [[(Some 64, Some 2); (Some 4, Some 4)]; [(Some 16, Some 2); (Some 1, Some 4)]] (Some 0) in
  lccb a b 1 = [(Some 1, Some 4); (Some 4, Some 4); (Some 16, Some 2)].
Proof. reflexivity. Qed.
Print Assumptions C10_nonvacuous_lccb.

(* the block of a layout with two equal-valued strides (4 with bound 1, 4 with bound 4): four strides
   at four distinct positions, the value 4 taken once per position *)
Example C10_nonvacuous_lccb_positions :
  let a := mkLayout [[(Some 4, Some 1); (Some 4, Some 4)]; [(Some 16, Some 2); (Some 1, Some 4)]] (Some 0) in
  map fst (lccb_pos a a 1) = [(1, 1); (0, 0); (0, 1); (1, 0)]%nat /\
  lccb a a 1 = map snd (lccb_pos a a 1) /\ NoDup (map fst (lccb_pos a a 1)).
Proof.
  split; [reflexivity|]. split; [reflexivity|].
  vm_compute. repeat constructor; cbn; intuition discriminate.
Qed.
Print Assumptions C10_nonvacuous_lccb_positions.

Example C10_nonvacuous_dense :
  let l := mkLayout [[(Some 32, Some 2); (Some 4, Some 4)]; [(Some 16, Some 2); (Some 1, Some 4)]] (Some 0) in
  is_dense l = true /\ Forall (fun v => 0 <= v) (all_values l).
Proof. split; [reflexivity|]. vm_compute. repeat constructor; discriminate. Qed.
Print Assumptions C10_nonvacuous_dense.

Example C10_nonvacuous_print_parse :
  let l := mkLayout [[(None, None); (Some 4, Some 4)]; [(Some 16, Some 2); (Some 1, Some 4)]] (Some (-3)) in
  printable l = true /\ tstrides l <> [] /\ length (print_layout l) = 27%nat.
Proof. split; [reflexivity|]. split; [discriminate|reflexivity]. Qed.
Print Assumptions C10_nonvacuous_print_parse.
