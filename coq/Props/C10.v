(* C10 — a tiled-strided layout means the same thing everywhere.
   Only theorem statements closed by `exact`, each followed by Print Assumptions. *)
From Snax Require Import Base.Prelude Model.Tsl Proofs.TslProofs.

(* Canonicalising a static layout with positive bounds does not change the enumeration of
   addresses (hence not the index->address function), nor the offset. *)
Theorem C10_canonicalize_all_values :
  forall l, layout_okb l = true -> all_values (canonicalize l) = all_values l /\ offset (canonicalize l) = offset l.
Proof. intros l H. split; [exact (canonicalize_all_values l (proj1 (layout_okb_ok l) H)) | exact (canonicalize_offset l)]. Qed.
Print Assumptions C10_canonicalize_all_values.

(* non-vacuity: a depth-3 layout that canonicalize really changes *)
Example C10_canonicalize_nonvacuous :
  let l := mkLayout [[(Some 8, Some 2); (Some 4, Some 2); (Some 1, Some 4)]; [(Some 16, Some 1); (Some 32, Some 3)]] (Some 0) in
  layout_okb l = true /\ canonicalize l <> l.
Proof. split; [reflexivity | discriminate]. Qed.
Print Assumptions C10_canonicalize_nonvacuous.
