(* C01 — config deduplication never changes what a launch observes.
   Only theorem statements closed by `exact`, each followed by Print Assumptions.

   Proved here, each in every program context, for every oracle, argument list, trip count and
   branch outcome: the four rewrites SimplifyRedundantSetupCalls (needs the certified table of C07),
   MergeSetupOps, ElideEmptySetupOps, HoistSetupCallsIntoConditionals in the form the pass performs
   them ("guarded rule models" of Model/AccRules.v; `guarded model = real rewrite` and the decidable
   side conditions are evaluated per recorded real rewrite by L1), and any finite sequence of them.
   Third round: PullSetupOpsOutOfLoops on programs in full-field form (C01_pull_rule; without
   full_field_form the rule is refuted, C01_pull_refuted = known finding F23), and any finite sequence
   of all FIVE rules (C01_rules_preserve_star).  The first-round structural-map theorems about
   simplify/elide are kept below. *)
From Snax Require Import Base.Prelude Model.AccIR Model.AccSem Model.AccInfer Model.AccDedup
  Model.AccWeave Model.AccRules
  Proofs.AccSemProofs Proofs.AccInferProofs Proofs.AccDedupProofs Proofs.AccRenameProofs
  Proofs.AccGhostProofs Proofs.AccRulesProofs Proofs.AccPullProofs.

Definition c01_two_cfg_early : prog :=
  mkProg [0%nat; 1%nat; 2%nat; 3%nat; 4%nat; 5%nat]
   [SSetup 0%nat 6%nat None [(0%nat, 0%nat); (1%nat, 1%nat)]; SLaunch 0%nat 7%nat 6%nat []; SAwait 0%nat 7%nat;
    SFor 8%nat 3%nat 4%nat 5%nat [(15%nat, 6%nat, (TState 0%nat))] [18%nat]
      [SSetup 0%nat 16%nat (Some 15%nat) [(0%nat, 0%nat); (1%nat, 1%nat)]; SLaunch 0%nat 10%nat 16%nat []; SAwait 0%nat 10%nat;
       SSetup 0%nat 17%nat (Some 16%nat) [(0%nat, 2%nat); (1%nat, 1%nat)]; SLaunch 0%nat 12%nat 17%nat []; SAwait 0%nat 12%nat]
      [17%nat];
    SSetup 0%nat 19%nat (Some 18%nat) [(0%nat, 2%nat); (1%nat, 1%nat)]; SLaunch 0%nat 14%nat 19%nat []; SAwait 0%nat 14%nat].

Definition c01_two_cfg := c01_two_cfg_early.

(* ===================== the rule theorems (second round) ==========================================
   [rule_X_g] (Model/AccRules.v) is the rewrite exactly as the pass performs it — block-local rewrite
   in context, new SSA values, replacement of the matched setup's out-state everywhere — with decidable
   guards every SSA-valid well-threaded program satisfies; [X_hyp] are the decidable side conditions
   (ghost typing [gok_prog] of the program before and after, the replaced out-state is never bound by
   the machine; for simplify: the table is certified).  L1 evaluates on EVERY recorded real rewrite
   that the guarded rule gives exactly the real result and that the side conditions hold
   (merge_cert / hoist_cert / elide_g_cert / simplify_g_cert).
   [trace_strong]: same launch/await/call sequence and at each launch EQUAL registers on all fields
   (transitive; implies trace_sim_b).  All theorems: every program, context, oracle, argument list,
   trip count, branch outcome. *)
Theorem C01_simplify_rule :
  forall T fresh tg p p', rule_simplify_g T fresh tg p = Some p' -> simplify_hyp T fresh tg p = true ->
  forall orc args, trace_strong (run orc p args) (run orc p' args).
Proof. intros T fresh tg p p' H Hh orc args. exact (rule_simplify_g_preserves T orc fresh tg p p' args H Hh). Qed.
Print Assumptions C01_simplify_rule.

Theorem C01_merge_rule :
  forall G fresh tg p p', rule_merge_g fresh tg p = Some p' -> merge_hyp G fresh tg p = true ->
  forall orc args, trace_strong (run orc p args) (run orc p' args).
Proof. intros G fresh tg p p' H Hh orc args. exact (rule_merge_g_preserves G orc fresh tg p p' args H Hh). Qed.
Print Assumptions C01_merge_rule.

(* any input state of the removed setup: another setup's out-state, a loop-carried argument, an scf result *)
Theorem C01_elide_rule :
  forall G tg p p', rule_elide_g tg p = Some p' -> elide_hyp G tg p = true ->
  forall orc args, trace_strong (run orc p args) (run orc p' args).
Proof. intros G tg p p' H Hh orc args. exact (rule_elide_g_preserves G orc tg p p' args H Hh). Qed.
Print Assumptions C01_elide_rule.

(* with the repaired guards (F22) and: the statements between the scf.if and the setup are quiet for
   the accelerator and do not re-bind the setup's operands *)
Theorem C01_hoist_rule :
  forall G fresh tg p p', rule_hoist_g G fresh tg p = Some p' -> hoist_hyp G fresh tg p = true ->
  forall orc args, trace_strong (run orc p args) (run orc p' args).
Proof. intros G fresh tg p p' H Hh orc args. exact (rule_hoist_g_preserves G orc fresh tg p p' args H Hh). Qed.
Print Assumptions C01_hoist_rule.

(* ---- non-vacuity of the rule theorems: each guarded rule fires on a small program and its decidable
   hypotheses hold there (L1 evaluates the same two facts on every recorded real rewrite) --------------- *)
Definition c01_merge_ex : prog :=
  mkProg [0%nat; 1%nat]
   [SSetup 0%nat 2%nat None [(0%nat, 0%nat)]; SPure 3%nat (PConst 1);
    SSetup 0%nat 4%nat (Some 2%nat) [(1%nat, 1%nat); (0%nat, 3%nat)];
    SLaunch 0%nat 5%nat 4%nat []; SAwait 0%nat 5%nat].
Example C01_merge_nonvacuous :
  exists p', rule_merge_g [6%nat] 4%nat c01_merge_ex = Some p' /\ p' <> c01_merge_ex /\
  merge_hyp (prog_ghosts c01_merge_ex ++ [6%nat]) [6%nat] 4%nat c01_merge_ex = true.
Proof. eexists. split; [reflexivity|]. split; [discriminate|reflexivity]. Qed.
Print Assumptions C01_merge_nonvacuous.

(* the removed setup's input state is a loop-carried block argument *)
Definition c01_elide_ex : prog :=
  mkProg [0%nat; 1%nat; 2%nat; 3%nat; 4%nat]
   [SSetup 0%nat 5%nat None [(0%nat, 0%nat)];
    SFor 6%nat 2%nat 3%nat 4%nat [(7%nat, 5%nat, TState 0%nat)] [10%nat]
      [SSetup 0%nat 8%nat (Some 7%nat) []; SLaunch 0%nat 9%nat 8%nat []; SAwait 0%nat 9%nat] [8%nat]].
Example C01_elide_nonvacuous :
  exists p', rule_elide_g 8%nat c01_elide_ex = Some p' /\ p' <> c01_elide_ex /\
  elide_hyp (prog_ghosts c01_elide_ex) 8%nat c01_elide_ex = true.
Proof. eexists. split; [reflexivity|]. split; [discriminate|reflexivity]. Qed.
Print Assumptions C01_elide_nonvacuous.

Definition c01_hoist_ex : prog :=
  mkProg [0%nat; 1%nat; 2%nat; 3%nat]
   [SSetup 0%nat 4%nat None [(0%nat, 0%nat); (1%nat, 1%nat)];
    SIf 3%nat [(7%nat, TState 0%nat)] [SSetup 0%nat 5%nat (Some 4%nat) [(0%nat, 2%nat)]] [5%nat]
                                      [SSetup 0%nat 6%nat (Some 4%nat) [(1%nat, 2%nat)]] [6%nat];
    SPure 12%nat (PConst 5);
    SSetup 0%nat 8%nat (Some 7%nat) [(0%nat, 1%nat)]; SLaunch 0%nat 9%nat 8%nat []; SAwait 0%nat 9%nat].
Example C01_hoist_nonvacuous :
  let G := prog_ghosts c01_hoist_ex ++ [10%nat; 11%nat] in
  exists p', rule_hoist_g G [10%nat; 11%nat] 8%nat c01_hoist_ex = Some p' /\ p' <> c01_hoist_ex /\
  hoist_hyp G [10%nat; 11%nat] 8%nat c01_hoist_ex = true.
Proof. eexists. split; [reflexivity|]. split; [discriminate|reflexivity]. Qed.
Print Assumptions C01_hoist_nonvacuous.

(* F22b (repaired in /repo, second part of the F22 repair): a setup whose operand is a RESULT OF THE
   PRODUCING scf.if must not be hoisted into it.  The model of the repaired pattern declines; the program
   the un-repaired pattern produced (clones inside the scf.if read value 6 before it is defined) shows a
   different register at the launch. *)
Definition c01_ifres : prog :=
  mkProg [0%nat; 1%nat; 2%nat]
   [SSetup 0%nat 3%nat None [(0%nat, 0%nat)];
    SIf 2%nat [(6%nat, TInt); (7%nat, TState 0%nat)]
      [SSetup 0%nat 4%nat (Some 3%nat) [(0%nat, 1%nat)]] [0%nat; 4%nat]
      [SSetup 0%nat 5%nat (Some 3%nat) [(0%nat, 0%nat)]] [1%nat; 5%nat];
    SSetup 0%nat 8%nat (Some 7%nat) [(0%nat, 6%nat)]; SLaunch 0%nat 9%nat 8%nat []; SAwait 0%nat 9%nat].
Definition c01_ifres_unrepaired : prog :=
  mkProg [0%nat; 1%nat; 2%nat]
   [SSetup 0%nat 3%nat None [(0%nat, 0%nat)];
    SIf 2%nat [(6%nat, TInt); (7%nat, TState 0%nat)]
      [SSetup 0%nat 4%nat (Some 3%nat) [(0%nat, 1%nat)]; SSetup 0%nat 10%nat (Some 4%nat) [(0%nat, 6%nat)]] [0%nat; 10%nat]
      [SSetup 0%nat 5%nat (Some 3%nat) [(0%nat, 0%nat)]; SSetup 0%nat 11%nat (Some 5%nat) [(0%nat, 6%nat)]] [1%nat; 11%nat];
    SLaunch 0%nat 9%nat 7%nat []; SAwait 0%nat 9%nat].
Example C01_hoist_own_result_declined :
  rule_hoist [10%nat; 11%nat] 8%nat c01_ifres = None /\
  trace_sim_b (run (test_oracle 1) c01_ifres [7; 9; 1]) (run (test_oracle 1) c01_ifres_unrepaired [7; 9; 1]) = false.
Proof. split; vm_compute; reflexivity. Qed.
Print Assumptions C01_hoist_own_result_declined.

(* the four rules whose theorems need no full-field hypothesis: any finite sequence of applications in
   any order (driver-independent), with EQUAL registers at every launch.  The five-rule version
   (C01_rules_preserve_star) follows the pull theorem below. *)
Theorem C01_rules_preserve_star_partial :
  forall p p', steps p p' -> forall orc args, trace_sim_b (run orc p args) (run orc p' args) = true.
Proof. intros p p' H orc args. apply trace_strong_sim. exact (steps_preserve orc args p p' H). Qed.
Print Assumptions C01_rules_preserve_star_partial.

Example C01_star_nonvacuous : exists q, step c01_two_cfg_early q /\ q <> c01_two_cfg_early.
Proof.
  eexists. split.
  - apply (St_simplify (tfun (ainfer c01_two_cfg_early)) [40%nat] 16%nat c01_two_cfg_early _ eq_refl). reflexivity.
  - discriminate.
Qed.
Print Assumptions C01_star_nonvacuous.

(* PullSetupOpsOutOfLoops on programs in full-field form (C01's quantifier): every launch is directly
   preceded by a setup of its accelerator that writes the accelerator's whole field set.  Then the
   registers of the accelerator whose setup is hoisted may differ arbitrarily between the two runs at
   every other program point — each launch only observes what its own setup writes — so the
   simulation leaves them unconstrained and compares launches on the full field sets.  [rule_pull_g] is
   the rewrite as the pass performs it (new setup in front of the loop, the loop's initial state
   replaced), applied in context; gok_prog = ghost typing before/after (decidable).  L1 evaluates
   `rule_pull_g = real rewrite` on every recorded pull rewrite and reports how many of them were
   applied to a program in full-field form (mid-pipeline programs usually are not: then only L1/L2). *)
Theorem C01_pull_rule :
  forall G a fresh tg p p', full_field_form p = true -> rule_pull_g G a fresh tg p = Some p' ->
  gok_prog G p = true -> gok_prog G p' = true ->
  forall orc args, trace_sim_b (run orc p args) (run orc p' args) = true.
Proof. intros G a fresh tg p p' Hff H Hg Hg' orc args. exact (pull_preserves G orc a fresh tg p p' args Hff H Hg Hg'). Qed.
Print Assumptions C01_pull_rule.

Example C01_pull_nonvacuous :
  let p := c01_two_cfg_early in let G := prog_ghosts p ++ [40%nat] in
  full_field_form p = true /\
  exists p', rule_pull_g G 0%nat [40%nat] 16%nat p = Some p' /\ gok_prog G p = true /\ gok_prog G p' = true
             /\ prog_eqb p' p = false /\ rule_pull [40%nat] 16%nat p = Some p'.
Proof. split; [reflexivity|]. eexists. split; [reflexivity|]. repeat split; reflexivity. Qed.
Print Assumptions C01_pull_nonvacuous.

(* rules_preserve_star, ALL FIVE rules: any finite sequence of applications in any order
   (driver-independent).  [FF a] is the full field set of accelerator a; a pull step requires the
   program it is applied to to be in full-field form relative to FF (inside [pull_hyp]); the four
   other rules have no such requirement.  With FF := the field sets of p itself the side condition
   [within_block] is a theorem (within_FF_of). *)
Theorem C01_rules_preserve_star :
  forall FF p p', steps5 FF p p' -> within_block FF (p_body p) = true ->
  forall orc args, trace_sim_b (run orc p args) (run orc p' args) = true.
Proof. intros FF p p' H Hw orc args. exact (steps5_sim FF orc args p p' H Hw). Qed.
Print Assumptions C01_rules_preserve_star.

Theorem C01_rules_preserve_star_own_fields :
  forall p p', steps5 (FF_of p) p p' ->
  forall orc args, trace_sim_b (run orc p args) (run orc p' args) = true.
Proof. intros p p' H orc args. exact (steps5_sim (FF_of p) orc args p p' H (within_FF_of p)). Qed.
Print Assumptions C01_rules_preserve_star_own_fields.

(* Without [full_field_form] the pull rewrite changes what a launch observes: *)
Definition c01_pull_before : prog :=
  mkProg [0%nat; 1%nat; 2%nat; 3%nat; 4%nat; 5%nat; 6%nat]
   [SSetup 0%nat 7%nat None [(2%nat, 0%nat)];
    SFor 8%nat 4%nat 5%nat 6%nat [(13%nat, 7%nat, (TState 0%nat))] [15%nat]
      [SSetup 0%nat 14%nat (Some 13%nat) [(2%nat, 1%nat)]; SLaunch 0%nat 10%nat 14%nat []; SAwait 0%nat 10%nat] [14%nat];
    SSetup 0%nat 16%nat (Some 15%nat) [(0%nat, 2%nat); (1%nat, 3%nat)]; SLaunch 0%nat 12%nat 16%nat []; SAwait 0%nat 12%nat].

Example C01_pull_refuted :
  exists p', rule_pull [17%nat] 14%nat c01_pull_before = Some p' /\
  full_field_form c01_pull_before = false /\
  trace_sim_b (run (test_oracle 1) c01_pull_before [7; 9; 1; 2; 0; 0; 1])
              (run (test_oracle 1) p' [7; 9; 1; 2; 0; 0; 1]) = false.
Proof. eexists. split; [reflexivity|]. split; vm_compute; reflexivity. Qed.
Print Assumptions C01_pull_refuted.

(* ===================== first round: the structural-map forms ====================================== *)
(* same launch/await/call sequence and, at each launch, equal registers on every field the
   original run has written since the last clobber (trace_sim_b); moreover the final register
   files are equal *)
Theorem C01_simplify_preserves_partial :
  forall (T : val -> astate) (sel : val -> bool) (p : prog),
  wf_prog T p = true -> block_fields_nodup (p_body p) = true ->
  forall (orc : oracle) (args : list Z),
  trace_sim_b (run orc p args) (run orc (simp_prog sel T p) args) = true.
Proof. intros T sel p Hwf Hnd orc args. exact (simp_preserves T orc sel p args Hwf Hnd). Qed.
Print Assumptions C01_simplify_preserves_partial.

(* the rewrite exactly as the pass performs it on the setup with out-state [tg]: the pairs are dropped
   and the setup is replaced by a new op whose out-state [o'] replaces [tg] everywhere.  [tg] and [o']
   are state values: the machine never binds them (decidable side conditions, evaluated together
   with `after = ren_prog ...` on every recorded rewrite: simplify_cert). *)
Theorem C01_simplify_rule_partial :
  forall (T : val -> astate) (tg o' : val) (p : prog),
  wf_prog T p = true -> block_fields_nodup (p_body p) = true ->
  mem_nat tg (prog_binds (simp_prog (Nat.eqb tg) T p)) = false ->
  mem_nat o' (prog_binds (simp_prog (Nat.eqb tg) T p)) = false ->
  forall (orc : oracle) (args : list Z),
  trace_sim_b (run orc p args) (run orc (ren_prog (rn tg o') (simp_prog (Nat.eqb tg) T p)) args) = true.
Proof. intros T tg o' p Hwf Hnd Hx Hy orc args. exact (simplify_rule_preserves T tg o' p orc args Hwf Hnd Hx Hy). Qed.
Print Assumptions C01_simplify_rule_partial.

(* renaming a never-bound (state) value everywhere leaves every run unchanged *)
Theorem C01_state_renaming_invisible :
  forall (x y : val) (p : prog), ~ In x (prog_binds p) /\ ~ In y (prog_binds p) ->
  forall (orc : oracle) (args : list Z), run orc (ren_prog (rn x y) p) args = run orc p args.
Proof. intros x y p H orc args. exact (ren_prog_run orc x y p args H). Qed.
Print Assumptions C01_state_renaming_invisible.

(* ElideEmptySetupOps: removing a field-less setup never changes a run (no hypothesis at all), and
   the rewrite exactly as the pass performs it (out-state [tg] replaced by the input state [i]
   everywhere) preserves the trace whenever [i] is itself never bound by the machine, i.e. it is
   the out-state of another setup (when [i] is a loop-carried argument or an scf result the rewrite
   is covered by L1/L2 only). *)
Theorem C01_elide_rule_partial :
  forall (tg i : val) (p : prog),
  mem_nat tg (prog_binds (drop_prog tg p)) = false ->
  mem_nat i (prog_binds (drop_prog tg p)) = false ->
  forall (orc : oracle) (args : list Z),
  trace_sim_b (run orc p args) (run orc (ren_prog (rn tg i) (drop_prog tg p)) args) = true.
Proof. intros tg i p Hx Hy orc args. exact (elide_rule_preserves tg i p orc args Hx Hy). Qed.
Print Assumptions C01_elide_rule_partial.

(* any finite sequence of applications, each with its own selection of setups: the certificate
   survives every application (simp_wf), and the register-level trace relation is transitive *)
Theorem C01_simplify_sequence_partial :
  forall (T : val -> astate) (sels : list (val -> bool)) (p : prog),
  wf_prog T p = true -> block_fields_nodup (p_body p) = true ->
  forall (orc : oracle) (args : list Z),
  trace_sim_b (run orc p args) (run orc (simp_seq T sels p) args) = true.
Proof. intros T sels p Hwf Hnd orc args. exact (simp_seq_preserves T orc sels p args Hwf Hnd). Qed.
Print Assumptions C01_simplify_sequence_partial.

(* the certified table stays certified for the rewritten program (what the next rule relies on) *)
Theorem C01_simplify_keeps_certificate :
  forall (T : val -> astate) (sel : val -> bool) (p : prog),
  wf_prog T p = true -> block_fields_nodup (p_body p) = true ->
  wf_prog T (simp_prog sel T p) = true /\ block_fields_nodup (p_body (simp_prog sel T p)) = true.
Proof. intros T sel p Hwf Hnd. exact (simp_wf T sel p Hwf Hnd). Qed.
Print Assumptions C01_simplify_keeps_certificate.

(* run-wise form: ANY table, any run that the instrumented semantics does not flag *)
Theorem C01_simplify_preserves_unflagged_runs :
  forall (T : val -> astate) (sel : val -> bool) (p : prog) (orc : oracle) (args : list Z),
  block_fields_nodup (p_body p) = true -> chk_prog T orc p args = [] ->
  trace_sim_b (run orc p args) (run orc (simp_prog sel T p) args) = true
  /\ (forall a f, regs (final_state orc (simp_prog sel T p) args) a f = regs (final_state orc p args) a f).
Proof. intros T sel p orc args Hnd Hc. exact (simp_preserves_run T orc sel p args Hnd Hc). Qed.
Print Assumptions C01_simplify_preserves_unflagged_runs.

(* non-vacuity: the woven two-configuration loop (notes/probe_c01_two_config_loop.mlir) *)
Example C01_nonvacuous :
  let T := tfun (ainfer c01_two_cfg) in
  wf_prog T c01_two_cfg = true /\ block_fields_nodup (p_body c01_two_cfg) = true /\
  prog_eqb (simp_prog (fun _ => true) T c01_two_cfg) c01_two_cfg = false.
Proof. repeat split; reflexivity. Qed.
Print Assumptions C01_nonvacuous.

(* the statement is not trivially true: with the table the code computed BEFORE the F1 repair
   (loop head := pre-loop state) the same rewrite changes what the first launch of the second
   iteration observes (A = %z instead of %x) *)
Definition c01_old_table : tbl := (15%nat, [(0%nat, 0%nat); (1%nat, 1%nat)]) :: ainfer c01_two_cfg.
Example C01_prefix_table_refuted :
  trace_sim_b (run (test_oracle 1) c01_two_cfg [7; 9; 11; 0; 2; 1])
              (run (test_oracle 1) (simp_prog (fun _ => true) (tfun c01_old_table) c01_two_cfg) [7; 9; 11; 0; 2; 1]) = false.
Proof. vm_compute. reflexivity. Qed.
Print Assumptions C01_prefix_table_refuted.
