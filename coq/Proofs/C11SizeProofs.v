(* Proofs about the allocation size formula of memref-to-snax (Model/C11Alloc.v) (C11). *)
From Coq Require Import Znumtheory.
From Snax Require Import Base.Prelude Base.ListAux Model.Tsl Proofs.TslProofs Model.C11Alloc.

(* ---- no layout ------------------------------------------------------------------ *)
Lemma size_none_fold el shape : size_none el shape = el * zprod shape.
Proof.
  unfold size_none. revert el. induction shape as [|n shape IH]; intros el; cbn [fold_left].
  - unfold zprod. cbn. lia.
  - rewrite IH. unfold zprod. cbn [fold_right]. lia.
Qed.

(* the identity layout of a memref without layout attribute is row-major: its largest linear index is
   prod(shape) - 1, so the allocation is exactly (max index)*el + el *)
Theorem size_none_exact el shape : size_none el shape = (zprod shape - 1) * el + el.
Proof. rewrite size_none_fold. lia. Qed.

(* ---- span of a tile / layout ------------------------------------------------------ *)
Definition sspan (s : stride) : Z := (snd (static_of s) - 1) * fst (static_of s).
Definition tspan (t : tstride) : Z := zsum (map sspan t).

Lemma fold_left_add_zsum {A} (f : A -> Z) l a : fold_left (fun acc s => acc + f s) l a = a + zsum (map f l).
Proof.
  revert a. induction l as [|x l IH]; intros a; cbn [fold_left map]; unfold zsum in *; cbn [fold_right]; [lia|].
  rewrite IH. lia.
Qed.

Lemma zsum_app l1 l2 : zsum (l1 ++ l2) = zsum l1 + zsum l2.
Proof. unfold zsum. induction l1 as [|x l1 IH]; cbn [app fold_right]; lia. Qed.

Lemma max_addr_tspans l : max_addr l = zsum (map tspan (tstrides l)).
Proof.
  unfold max_addr, all_strides. rewrite (fold_left_add_zsum sspan). rewrite Z.add_0_l.
  induction (tstrides l) as [|t ts IH]; [reflexivity|]. cbn [concat map]. rewrite map_app, zsum_app, IH.
  unfold zsum at 3. cbn [fold_right]. reflexivity.
Qed.

(* static layout with positive bounds and non-negative steps *)
Definition step_nonneg (s : stride) : Prop := match sstep s with Some a => 0 <= a | None => False end.
Definition layout_pos (l : layout) : Prop := layout_ok l /\ Forall (Forall step_nonneg) (tstrides l).
Definition layout_posb (l : layout) : bool :=
  layout_okb l && forallb (forallb (fun s => match sstep s with Some a => 0 <=? a | None => false end)) (tstrides l).
Lemma layout_posb_ok l : layout_posb l = true -> layout_pos l.
Proof.
  unfold layout_posb, layout_pos. intros H. apply andb_true_iff in H as [H1 H2]. split; [apply layout_okb_ok, H1|].
  apply Forall_forall. intros t Ht. apply Forall_forall. intros s Hs.
  rewrite forallb_forall in H2. specialize (H2 t Ht). rewrite forallb_forall in H2. specialize (H2 s Hs).
  unfold step_nonneg. destruct (sstep s); [lia|discriminate].
Qed.

(* every digit of a mixed-radix decomposition stays below its bound: the address of ANY x is within the span *)
Lemma inner_addr_span t : tstride_ok t -> Forall step_nonneg t -> forall x, 0 <= inner_addr t x <= tspan t.
Proof.
  intros Hok. induction Hok as [|s t Hs Ht IH]; intros Hnn x.
  - unfold tspan, zsum. cbn. lia.
  - inversion Hnn as [|? ? Hs0 Hrest]; subst. specialize (IH Hrest x).
    destruct (tbound_ok s Hs) as [a [b [Es [Etb Hb]]]]. subst s. unfold step_nonneg in Hs0. cbn [sstep fst] in Hs0.
    cbn [inner_addr static_of fst]. unfold tspan. cbn [map]. unfold zsum. cbn [fold_right]. fold (zsum (map sspan t)). fold (tspan t).
    unfold sspan. cbn [static_of fst snd].
    pose proof (bounds_prod_pos t Ht) as HP.
    rewrite bounds_prod_cons, Etb.
    assert (Hd : 0 <= (x mod (b * bounds_prod t)) / bounds_prod t <= b - 1).
    { pose proof (Z.mod_pos_bound x (b * bounds_prod t) ltac:(nia)) as Hm. split.
      - apply Z.div_pos; lia.
      - assert ((x mod (b * bounds_prod t)) / bounds_prod t < b) by (apply Z.div_lt_upper_bound; lia). lia. }
    nia.
Qed.

Lemma affine_addr_span : forall ts idx, Forall tstride_ok ts -> Forall (Forall step_nonneg) ts ->
  Forall2 (fun i n => 0 <= i < n) idx (map bounds_prod ts) ->
  0 <= affine_addr ts idx <= zsum (map tspan ts).
Proof.
  induction ts as [|t ts IH]; intros idx Hok Hnn Hb.
  - inversion Hb; subst. unfold zsum. cbn. lia.
  - cbn [map] in Hb. inversion Hb as [|x ? idx' ? Hx Hrest]; subst.
    inversion Hok; subst. inversion Hnn; subst. cbn [affine_addr map]. unfold zsum. cbn [fold_right]. fold (zsum (map tspan ts)).
    specialize (IH idx' ltac:(assumption) ltac:(assumption) Hrest).
    rewrite dim_addr_inner by assumption. pose proof (inner_addr_span t ltac:(assumption) ltac:(assumption) x). lia.
Qed.

(* max_addr is an upper bound of every address of the layout's index box *)
Theorem max_addr_bound l idx : layout_pos l ->
  Forall2 (fun i n => 0 <= i < n) idx (shape_of l) -> 0 <= affine_map_eval l idx <= max_addr l.
Proof.
  intros [Hok Hnn] Hb. rewrite max_addr_tspans. unfold affine_map_eval. apply affine_addr_span; assumption.
Qed.

(* ---- the emitted size for layouts whose steps are all static ----------------------- *)
Definition bval (s : stride) : Z := match sbound s with Some b => b | None => 0 end.
Definition steps_static (l : layout) : Prop := Forall (Forall (fun s => sstep s <> None)) (tstrides l).

Lemma inner_bounds_ev_spec r l : inner_bounds_ev r = Some l -> combine (map sstep r) l = map (fun s => (sstep s, bval s)) r.
Proof.
  revert l. induction r as [|s r IH]; intros l H; cbn [inner_bounds_ev] in H.
  - inversion H; subst. reflexivity.
  - destruct (sbound s) as [b|] eqn:Eb; [|discriminate]. destruct (inner_bounds_ev r) as [l'|]; [|discriminate].
    inversion H; subst. cbn [map combine]. rewrite (IH l' eq_refl). unfold bval. rewrite Eb. reflexivity.
Qed.

Lemma tile_bounds_ev_spec t d b : tile_bounds_ev t d = Some b ->
  combine (map sstep t) b = map (fun s => (sstep s, bval s)) (inst_tile t d).
Proof.
  destruct t as [|s r]; cbn [tile_bounds_ev]; [discriminate|].
  destruct (inner_bounds_ev r) as [l|] eqn:El; [|discriminate]. intros H. inversion H; subst.
  cbn [map combine]. rewrite (inner_bounds_ev_spec r l El).
  unfold bound0_ev, inst_tile. destruct s as [st [b0|]]; cbn [sbound snd sstep fst map]; unfold bval; cbn [sbound snd]; reflexivity.
Qed.

Lemma bounds_ev_spec : forall ts dims bs, bounds_ev ts dims = Some bs ->
  flatten_ev ts bs = map (fun s => (sstep s, bval s)) (concat (inst_layout_ts ts dims)).
Proof.
  induction ts as [|t ts IH]; intros dims bs H; cbn [bounds_ev] in H.
  - inversion H; subst. reflexivity.
  - destruct dims as [|d dims]; [discriminate|].
    destruct (tile_bounds_ev t d) as [b|] eqn:Eb; [|discriminate].
    destruct (bounds_ev ts dims) as [r|] eqn:Er; [|discriminate]. inversion H; subst.
    unfold flatten_ev. cbn [combine map concat inst_layout_ts fst snd]. rewrite map_app.
    rewrite (tile_bounds_ev_spec t d b Eb). f_equal. apply (IH dims r Er).
Qed.

Lemma steps_rev_static fl el dyn : Forall (fun p => fst p <> None) fl ->
  steps_rev fl el dyn = map (fun p => match fst p with Some v => v * el | None => 0 end) fl.
Proof.
  revert dyn. induction fl as [|[st b] fl IH]; intros dyn H; [reflexivity|]. inversion H as [|? ? H1 H2]; subst.
  cbn [fst] in H1. destruct st as [v|]; [|contradiction]. cbn [steps_rev map fst]. rewrite IH by assumption. reflexivity.
Qed.

Lemma steps_ev_static fl el : Forall (fun p => fst p <> None) fl ->
  steps_ev fl el = map (fun p => match fst p with Some v => v * el | None => 0 end) fl.
Proof.
  intros H. unfold steps_ev. destruct (max_scan fl 0 (length fl - 1) 0) as [mi mv].
  rewrite steps_rev_static by (apply Forall_rev; exact H). rewrite <- map_rev, rev_involutive. reflexivity.
Qed.

Lemma inst_tile_steps t d : Forall (fun s => sstep s <> None) t -> Forall (fun s => sstep s <> None) (inst_tile t d).
Proof.
  intros H. destruct t as [|[st [b|]] r]; cbn [inst_tile]; try exact H.
  inversion H; subst. constructor; assumption.
Qed.

Lemma inst_layout_steps : forall ts dims, Forall (Forall (fun s => sstep s <> None)) ts ->
  Forall (Forall (fun s => sstep s <> None)) (inst_layout_ts ts dims).
Proof.
  induction ts as [|t ts IH]; intros dims H; [destruct dims; exact H|]. destruct dims as [|d dims]; [exact H|].
  inversion H; subst. cbn [inst_layout_ts]. constructor; [apply inst_tile_steps; assumption|apply IH; assumption].
Qed.

(* the size the rewrite emits is (max address of the instantiated layout + offset) * el + el *)
Theorem size_tsl_static_steps el l dims sz : steps_static l -> size_tsl el l dims = Some sz ->
  exists off, offset l = Some off /\ sz = max_addr (inst_layout l dims) * el + el + off * el.
Proof.
  intros Hst H. unfold size_tsl in H.
  destruct (bounds_ev (tstrides l) dims) as [bs|] eqn:Eb; [|discriminate].
  destruct (offset l) as [off|]; [|discriminate]. exists off. split; [reflexivity|]. rewrite Z.mul_1_l in H. injection H as <-.
  rewrite (bounds_ev_spec _ _ _ Eb).
  pose proof (inst_layout_steps (tstrides l) dims Hst) as Hst'.
  set (ss := concat (inst_layout_ts (tstrides l) dims)).
  assert (Hss : Forall (fun s => sstep s <> None) ss).
  { unfold ss. apply Forall_forall. intros s Hs. apply in_concat in Hs as [t [Ht Hs]].
    rewrite Forall_forall in Hst'. specialize (Hst' t Ht). rewrite Forall_forall in Hst'. apply Hst', Hs. }
  rewrite steps_ev_static by (apply Forall_forall; intros p Hp; apply in_map_iff in Hp as [s [<- Hs]]; cbn [fst];
                              rewrite Forall_forall in Hss; apply Hss, Hs).
  unfold max_addr, inst_layout, all_strides. cbn [tstrides]. fold ss.
  assert (E : forall acc, fold_left (fun acc p => acc + (snd (fst p) - 1) * snd p)
                (combine (map (fun s => (sstep s, bval s)) ss)
                         (map (fun p : option Z * Z => match fst p with Some v => v * el | None => 0 end) (map (fun s => (sstep s, bval s)) ss))) acc
              = acc + el * zsum (map sspan ss)).
  { clear - Hss. induction ss as [|s ss IH]; intros acc; cbn [map combine fold_left]; [unfold zsum; cbn; lia|].
    inversion Hss as [|? ? H1 H2]; subst. rewrite (IH H2). unfold zsum. cbn [fold_right]. fold (zsum (map sspan ss)).
    cbn [fst snd]. unfold sspan, bval. destruct s as [[a|] [b|]]; cbn [sstep sbound fst snd static_of] in *; try contradiction; lia. }
  rewrite E. rewrite (fold_left_add_zsum sspan). lia.
Qed.

(* size_bounds_layout: for every static layout with positive bounds and non-negative steps, every element
   of the layout's index box ends inside the allocated bytes (offset included); the bound is exact *)
Lemma inst_tile_static t d : tstride_ok t -> inst_tile t d = t.
Proof.
  intros H. destruct t as [|s r]; [reflexivity|]. inversion H as [|? ? Hs _]; subst.
  destruct Hs as [a [b [-> _]]]. reflexivity.
Qed.
Lemma inst_layout_static : forall ts dims, Forall tstride_ok ts -> inst_layout_ts ts dims = ts.
Proof.
  induction ts as [|t ts IH]; intros dims H; [destruct dims; reflexivity|]. destruct dims as [|d dims]; [reflexivity|].
  inversion H; subst. cbn [inst_layout_ts]. rewrite inst_tile_static by assumption. rewrite IH by assumption. reflexivity.
Qed.

Lemma layout_pos_steps l : layout_pos l -> steps_static l.
Proof.
  intros [_ H]. unfold steps_static. eapply Forall_impl; [|exact H]. intros t Ht. eapply Forall_impl; [|exact Ht].
  intros s Hs. unfold step_nonneg in Hs. destruct (sstep s); [discriminate|contradiction].
Qed.

Theorem size_bounds_layout el l dims sz : layout_pos l -> 0 <= el -> size_tsl el l dims = Some sz ->
  exists off, offset l = Some off /\ sz = off * el + max_addr l * el + el /\
  forall idx, Forall2 (fun i n => 0 <= i < n) idx (shape_of l) ->
    0 <= affine_map_eval l idx /\ off * el + affine_map_eval l idx * el + el <= sz.
Proof.
  intros Hpos Hel H. destruct (size_tsl_static_steps el l dims sz (layout_pos_steps l Hpos) H) as [off [Eo Es]].
  assert (Ei : inst_layout l dims = l).
  { unfold inst_layout. rewrite inst_layout_static by (destruct Hpos as [Hok _]; exact Hok). destruct l; reflexivity. }
  rewrite Ei in Es. exists off. split; [exact Eo|]. split; [lia|]. intros idx Hidx.
  pose proof (max_addr_bound l idx Hpos Hidx). nia.
Qed.

(* size_dynamic_partial: dynamic outermost bounds, static steps.  If the instantiated layout is a valid
   positive layout whose box is the run-time shape (tile divisibility: every dynamic dim is a multiple of
   the product of its inner tile bounds, every static dim equals the product of its bounds), every element
   of the memref ends inside the allocation. *)
Theorem size_dynamic_partial el l dims sz : steps_static l -> 0 <= el ->
  layout_pos (inst_layout l dims) -> shape_of (inst_layout l dims) = dims ->
  size_tsl el l dims = Some sz ->
  exists off, offset l = Some off /\
  forall idx, Forall2 (fun i n => 0 <= i < n) idx dims ->
    off * el + affine_map_eval (inst_layout l dims) idx * el + el <= sz.
Proof.
  intros Hst Hel Hpos Hshape H. destruct (size_tsl_static_steps el l dims sz Hst H) as [off [Eo Es]].
  exists off. split; [exact Eo|]. intros idx Hidx. rewrite <- Hshape in Hidx.
  pose proof (max_addr_bound _ idx Hpos Hidx). nia.
Qed.
