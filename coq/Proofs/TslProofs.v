(* Proofs about Model/Tsl.v (C10). *)
From Snax Require Import Base.Prelude Base.ListAux Model.Tsl.

(* ---- static, positive layouts ----------------------------------------------- *)
Definition stride_ok (s : stride) : Prop :=
  exists a b, s = (Some a, Some b) /\ 0 < b.
Definition tstride_ok (t : tstride) : Prop := Forall stride_ok t.
Definition layout_ok (l : layout) : Prop := Forall tstride_ok (tstrides l).

Definition stride_okb (s : stride) : bool :=
  match s with (Some _, Some b) => 0 <? b | _ => false end.
Definition layout_okb (l : layout) : bool := forallb (forallb stride_okb) (tstrides l).

Lemma stride_okb_ok s : stride_okb s = true <-> stride_ok s.
Proof.
  destruct s as [[a|] [b|]]; simpl; split; intros H; try discriminate;
    try (destruct H as [a' [b' [E _]]]; discriminate).
  - exists a, b; split; [reflexivity|lia].
  - destruct H as [a' [b' [E Hb]]]. inversion E; subst. lia.
Qed.

Lemma layout_okb_ok l : layout_okb l = true <-> layout_ok l.
Proof.
  unfold layout_okb, layout_ok, tstride_ok. rewrite forallb_forall, Forall_forall.
  split; intros H t Ht; specialize (H t Ht).
  - rewrite forallb_forall in H. apply Forall_forall. intros s Hs. apply stride_okb_ok, H, Hs.
  - rewrite Forall_forall in H. apply forallb_forall. intros s Hs. apply stride_okb_ok, H, Hs.
Qed.

(* ---- all_values: recursive (outer first) form -------------------------------- *)
Fixpoint av (ss : list sstride) : list Z :=
  match ss with
  | [] => [0]
  | s :: r => flat_map (fun v => map (fun w => v + w) (av r)) (stride_values s)
  end.

Definition av_from (acc : list Z) (ss : list sstride) : list Z := fold_left av_step ss acc.

Lemma flat_map_add0 (acc : list Z) : flat_map (fun r => map (fun w => r + w) [0]) acc = acc.
Proof.
  induction acc as [|a acc IHa]; [reflexivity|]. cbn [flat_map]. rewrite IHa.
  cbn [map app]. rewrite Z.add_0_r. reflexivity.
Qed.

Lemma av_from_av acc ss : av_from acc ss = flat_map (fun r => map (fun w => r + w) (av ss)) acc.
Proof.
  unfold av_from. revert acc. induction ss as [|s ss IH]; intros acc; cbn [fold_left av].
  - symmetry. apply flat_map_add0.
  - rewrite IH. unfold av_step. rewrite flat_map_flat_map. apply flat_map_ext. intros r.
    rewrite flat_map_map, map_flat_map. apply flat_map_ext. intros v.
    rewrite map_map. apply map_ext. intros w. lia.
Qed.

Lemma all_values_of_av ss : all_values_of ss = av ss.
Proof.
  unfold all_values_of. change (fold_left av_step ss [0]) with (av_from [0] ss).
  rewrite av_from_av. simpl. rewrite app_nil_r. rewrite <- (map_id (av ss)) at 2.
  apply map_ext. intros; lia.
Qed.

Lemma av_app s1 s2 : av (s1 ++ s2) = flat_map (fun v => map (fun w => v + w) (av s2)) (av s1).
Proof.
  induction s1 as [|s s1 IH]; cbn [app av].
  - simpl. rewrite app_nil_r. rewrite <- (map_id (av s2)) at 1. apply map_ext. intros; lia.
  - rewrite IH. rewrite flat_map_flat_map. apply flat_map_ext. intros v.
    rewrite flat_map_map, map_flat_map. apply flat_map_ext. intros u.
    rewrite map_map. apply map_ext. intros w. lia.
Qed.

(* ---- canonicalize preserves the enumeration ------------------------------------ *)
Lemma stride_values_bound1 a : stride_values (a, 1) = [0].
Proof. unfold stride_values. simpl. f_equal. lia. Qed.

Lemma av_drop_bound1 a r : av ((a, 1) :: r) = av r.
Proof.
  cbn [av]. rewrite stride_values_bound1. simpl. rewrite app_nil_r.
  rewrite <- (map_id (av r)) at 2. apply map_ext. intros; lia.
Qed.

Lemma av_merge ps pb sb r : 0 <= pb -> 0 <= sb ->
  av ((ps * pb, sb) :: (ps, pb) :: r) = av ((ps, pb * sb) :: r).
Proof.
  intros Hpb Hsb. cbn [av]. unfold stride_values. cbn [fst snd].
  rewrite (Z.mul_comm pb sb). rewrite (zrange_mul sb pb) by lia.
  rewrite !flat_map_map. rewrite flat_map_flat_map. apply flat_map_ext. intros i.
  rewrite map_flat_map. rewrite !flat_map_map.
  apply flat_map_ext. intros j. rewrite map_map. apply map_ext. intros w. lia.
Qed.

Lemma av_cons_congr s r1 r2 : av r1 = av r2 -> av (s :: r1) = av (s :: r2).
Proof. intros H. cbn [av]. rewrite H. reflexivity. Qed.

Definition ts_canon_r (t : tstride) : tstride := fold_right (fun s acc => canon_step acc s) [] t.
Lemma ts_canonicalize_r t : ts_canonicalize t = ts_canon_r t.
Proof. unfold ts_canonicalize, ts_canon_r. apply fold_left_rev_right. Qed.

Lemma canon_r_nil_iff t : ts_canon_r t = [] <-> t = [].
Proof.
  split; [|intros ->; reflexivity].
  induction t as [|s t IH]; [reflexivity|]. cbn [ts_canon_r fold_right].
  fold (ts_canon_r t). unfold canon_step.
  destruct (ts_canon_r t) as [|prev rest] eqn:E; [discriminate|].
  destruct (optZ_eqb (sbound s) (Some 1)); [discriminate|].
  destruct (truthy (sstep prev) && truthy (sbound prev) && _ && truthy (sbound s)); [|discriminate].
  destruct (sbound prev), (sbound s); discriminate.
Qed.

Lemma canon_r_ok t : tstride_ok t -> tstride_ok (ts_canon_r t).
Proof.
  induction 1 as [|s t Hs Ht IH]; [constructor|].
  cbn [ts_canon_r fold_right]. fold (ts_canon_r t). unfold canon_step.
  destruct (ts_canon_r t) as [|prev rest] eqn:E; [constructor; [exact Hs|constructor]|].
  destruct (optZ_eqb (sbound s) (Some 1)); [exact IH|].
  destruct (truthy (sstep prev) && truthy (sbound prev) && _ && truthy (sbound s));
    [|constructor; assumption].
  inversion IH as [|? ? Hp Hr]; subst.
  destruct Hs as [a [b [-> Hb]]]. destruct Hp as [pa [pb [-> Hpb]]]. cbn [sbound sstep snd fst].
  constructor; [|exact Hr]. exists pa, (pb * b). split; [reflexivity|nia].
Qed.

Lemma canon_r_av t : tstride_ok t -> forall tail,
  av (map static_of (ts_canon_r t) ++ tail) = av (map static_of t ++ tail).
Proof.
  induction 1 as [|s t Hs Ht IH]; intros tail; [reflexivity|].
  pose proof (canon_r_ok t Ht) as Hok.
  cbn [ts_canon_r fold_right]. fold (ts_canon_r t). unfold canon_step.
  destruct (ts_canon_r t) as [|prev rest] eqn:E.
  - apply (proj1 (canon_r_nil_iff t)) in E. subst t. reflexivity.
  - destruct Hs as [a [b [-> Hb]]]. cbn [sbound sstep fst snd].
    inversion Hok as [|? ? Hp Hr]; subst. destruct Hp as [pa [pb [-> Hpb]]]. cbn [sbound sstep fst snd].
    destruct (optZ_eqb (Some b) (Some 1)) eqn:E1.
    + apply optZ_eqb_eq in E1. inversion E1; subst.
      cbn [map app static_of]. rewrite av_drop_bound1. rewrite <- IH. reflexivity.
    + destruct (truthy (Some pa) && truthy (Some pb) && optZ_eqb (Some (pa * pb)) (Some a) && truthy (Some b)) eqn:E2.
      * apply andb_true_iff in E2 as [E2 _]. apply andb_true_iff in E2 as [_ E2].
        apply optZ_eqb_eq in E2. inversion E2; subst.
        cbn [map app static_of]. specialize (IH tail). cbn [map app static_of] in IH.
        rewrite <- av_merge by lia. apply av_cons_congr. exact IH.
      * cbn [map app static_of]. specialize (IH tail). cbn [map app static_of] in IH.
        apply av_cons_congr. exact IH.
Qed.

Lemma canon_all_values_gen (ts : list tstride) : Forall tstride_ok ts ->
  av (map static_of (concat (map ts_canonicalize ts))) = av (map static_of (concat ts)).
Proof.
  induction 1 as [|t ts Ht Hts IH]; [reflexivity|].
  cbn [map concat]. rewrite !map_app. rewrite ts_canonicalize_r.
  rewrite canon_r_av by exact Ht. rewrite !av_app. rewrite IH. reflexivity.
Qed.

Theorem canonicalize_all_values l : layout_ok l -> all_values (canonicalize l) = all_values l.
Proof.
  intros H. unfold all_values, all_strides, canonicalize. cbn [tstrides].
  rewrite !all_values_of_av. apply canon_all_values_gen. exact H.
Qed.

Theorem canonicalize_ok l : layout_ok l -> layout_ok (canonicalize l).
Proof.
  unfold layout_ok, canonicalize. cbn [tstrides]. intros H. apply Forall_forall.
  intros t Ht. apply in_map_iff in Ht as [t0 [<- Hin]]. rewrite ts_canonicalize_r.
  apply canon_r_ok. rewrite Forall_forall in H. apply H, Hin.
Qed.

Theorem canonicalize_offset l : offset (canonicalize l) = offset l.
Proof. reflexivity. Qed.
