(* Proofs about Model/Tsl.v (C10). *)
From Snax Require Import Base.Prelude Base.ListAux Model.Tsl.

(* ---- static, positive layouts ----------------------------------------------- *)
Definition stride_ok (s : stride) : Prop :=
  exists a b, s = (Some a, Some b) /\ 0 < b.
Definition tstride_ok (t : tstride) : Prop := Forall stride_ok t.
Definition layout_ok (l : layout) : Prop := Forall tstride_ok (tstrides l).

Definition stride_okb (s : stride) : bool :=
  match s with (Some _, Some b) => 0 <? b | _ => false end.
Definition layout_okb (l : layout) : bool := forallb (forallb stride_okb) (tstrides l).

Lemma stride_okb_ok s : stride_okb s = true <-> stride_ok s.
Proof.
  destruct s as [[a|] [b|]]; simpl; split; intros H; try discriminate;
    try (destruct H as [a' [b' [E _]]]; discriminate).
  - exists a, b; split; [reflexivity|lia].
  - destruct H as [a' [b' [E Hb]]]. inversion E; subst. lia.
Qed.

Lemma layout_okb_ok l : layout_okb l = true <-> layout_ok l.
Proof.
  unfold layout_okb, layout_ok, tstride_ok. rewrite forallb_forall, Forall_forall.
  split; intros H t Ht; specialize (H t Ht).
  - rewrite forallb_forall in H. apply Forall_forall. intros s Hs. apply stride_okb_ok, H, Hs.
  - rewrite Forall_forall in H. apply forallb_forall. intros s Hs. apply stride_okb_ok, H, Hs.
Qed.

(* ---- all_values: recursive (outer first) form -------------------------------- *)
Fixpoint av (ss : list sstride) : list Z :=
  match ss with
  | [] => [0]
  | s :: r => flat_map (fun v => map (fun w => v + w) (av r)) (stride_values s)
  end.

Definition av_from (acc : list Z) (ss : list sstride) : list Z := fold_left av_step ss acc.

Lemma flat_map_add0 (acc : list Z) : flat_map (fun r => map (fun w => r + w) [0]) acc = acc.
Proof.
  induction acc as [|a acc IHa]; [reflexivity|]. cbn [flat_map]. rewrite IHa.
  cbn [map app]. rewrite Z.add_0_r. reflexivity.
Qed.

Lemma av_from_av acc ss : av_from acc ss = flat_map (fun r => map (fun w => r + w) (av ss)) acc.
Proof.
  unfold av_from. revert acc. induction ss as [|s ss IH]; intros acc; cbn [fold_left av].
  - symmetry. apply flat_map_add0.
  - rewrite IH. unfold av_step. rewrite flat_map_flat_map. apply flat_map_ext. intros r.
    rewrite flat_map_map, map_flat_map. apply flat_map_ext. intros v.
    rewrite map_map. apply map_ext. intros w. lia.
Qed.

Lemma all_values_of_av ss : all_values_of ss = av ss.
Proof.
  unfold all_values_of. change (fold_left av_step ss [0]) with (av_from [0] ss).
  rewrite av_from_av. simpl. rewrite app_nil_r. rewrite <- (map_id (av ss)) at 2.
  apply map_ext. intros; lia.
Qed.

Lemma av_app s1 s2 : av (s1 ++ s2) = flat_map (fun v => map (fun w => v + w) (av s2)) (av s1).
Proof.
  induction s1 as [|s s1 IH]; cbn [app av].
  - simpl. rewrite app_nil_r. rewrite <- (map_id (av s2)) at 1. apply map_ext. intros; lia.
  - rewrite IH. rewrite flat_map_flat_map. apply flat_map_ext. intros v.
    rewrite flat_map_map, map_flat_map. apply flat_map_ext. intros u.
    rewrite map_map. apply map_ext. intros w. lia.
Qed.

(* ---- canonicalize preserves the enumeration ------------------------------------ *)
Lemma stride_values_bound1 a : stride_values (a, 1) = [0].
Proof. unfold stride_values. simpl. f_equal. lia. Qed.

Lemma av_drop_bound1 a r : av ((a, 1) :: r) = av r.
Proof.
  cbn [av]. rewrite stride_values_bound1. simpl. rewrite app_nil_r.
  rewrite <- (map_id (av r)) at 2. apply map_ext. intros; lia.
Qed.

Lemma av_merge ps pb sb r : 0 <= pb -> 0 <= sb ->
  av ((ps * pb, sb) :: (ps, pb) :: r) = av ((ps, pb * sb) :: r).
Proof.
  intros Hpb Hsb. cbn [av]. unfold stride_values. cbn [fst snd].
  rewrite (Z.mul_comm pb sb). rewrite (zrange_mul sb pb) by lia.
  rewrite !flat_map_map. rewrite flat_map_flat_map. apply flat_map_ext. intros i.
  rewrite map_flat_map. rewrite !flat_map_map.
  apply flat_map_ext. intros j. rewrite map_map. apply map_ext. intros w. lia.
Qed.

Lemma av_cons_congr s r1 r2 : av r1 = av r2 -> av (s :: r1) = av (s :: r2).
Proof. intros H. cbn [av]. rewrite H. reflexivity. Qed.

Definition ts_canon_r (t : tstride) : tstride := fold_right (fun s acc => canon_step acc s) [] t.
Lemma ts_canonicalize_r t : ts_canonicalize t = ts_canon_r t.
Proof. unfold ts_canonicalize, ts_canon_r. apply fold_left_rev_right. Qed.

Lemma canon_r_nil_iff t : ts_canon_r t = [] <-> t = [].
Proof.
  split; [|intros ->; reflexivity].
  induction t as [|s t IH]; [reflexivity|]. cbn [ts_canon_r fold_right].
  fold (ts_canon_r t). unfold canon_step.
  destruct (ts_canon_r t) as [|prev rest] eqn:E; [discriminate|].
  destruct (optZ_eqb (sbound s) (Some 1)); [discriminate|].
  destruct (truthy (sstep prev) && truthy (sbound prev) && _ && truthy (sbound s)); [|discriminate].
  destruct (sbound prev), (sbound s); discriminate.
Qed.

Lemma canon_r_ok t : tstride_ok t -> tstride_ok (ts_canon_r t).
Proof.
  induction 1 as [|s t Hs Ht IH]; [constructor|].
  cbn [ts_canon_r fold_right]. fold (ts_canon_r t). unfold canon_step.
  destruct (ts_canon_r t) as [|prev rest] eqn:E; [constructor; [exact Hs|constructor]|].
  destruct (optZ_eqb (sbound s) (Some 1)); [exact IH|].
  destruct (truthy (sstep prev) && truthy (sbound prev) && _ && truthy (sbound s));
    [|constructor; assumption].
  inversion IH as [|? ? Hp Hr]; subst.
  destruct Hs as [a [b [-> Hb]]]. destruct Hp as [pa [pb [-> Hpb]]]. cbn [sbound sstep snd fst].
  constructor; [|exact Hr]. exists pa, (pb * b). split; [reflexivity|nia].
Qed.

Lemma canon_r_av t : tstride_ok t -> forall tail,
  av (map static_of (ts_canon_r t) ++ tail) = av (map static_of t ++ tail).
Proof.
  induction 1 as [|s t Hs Ht IH]; intros tail; [reflexivity|].
  pose proof (canon_r_ok t Ht) as Hok.
  cbn [ts_canon_r fold_right]. fold (ts_canon_r t). unfold canon_step.
  destruct (ts_canon_r t) as [|prev rest] eqn:E.
  - apply (proj1 (canon_r_nil_iff t)) in E. subst t. reflexivity.
  - destruct Hs as [a [b [-> Hb]]]. cbn [sbound sstep fst snd].
    inversion Hok as [|? ? Hp Hr]; subst. destruct Hp as [pa [pb [-> Hpb]]]. cbn [sbound sstep fst snd].
    destruct (optZ_eqb (Some b) (Some 1)) eqn:E1.
    + apply optZ_eqb_eq in E1. inversion E1; subst.
      cbn [map app static_of]. rewrite av_drop_bound1. rewrite <- IH. reflexivity.
    + destruct (truthy (Some pa) && truthy (Some pb) && optZ_eqb (Some (pa * pb)) (Some a) && truthy (Some b)) eqn:E2.
      * apply andb_true_iff in E2 as [E2 _]. apply andb_true_iff in E2 as [_ E2].
        apply optZ_eqb_eq in E2. inversion E2; subst.
        cbn [map app static_of]. specialize (IH tail). cbn [map app static_of] in IH.
        rewrite <- av_merge by lia. apply av_cons_congr. exact IH.
      * cbn [map app static_of]. specialize (IH tail). cbn [map app static_of] in IH.
        apply av_cons_congr. exact IH.
Qed.

Lemma canon_all_values_gen (ts : list tstride) : Forall tstride_ok ts ->
  av (map static_of (concat (map ts_canonicalize ts))) = av (map static_of (concat ts)).
Proof.
  induction 1 as [|t ts Ht Hts IH]; [reflexivity|].
  cbn [map concat]. rewrite !map_app. rewrite ts_canonicalize_r.
  rewrite canon_r_av by exact Ht. rewrite !av_app. rewrite IH. reflexivity.
Qed.

Theorem canonicalize_all_values l : layout_ok l -> all_values (canonicalize l) = all_values l.
Proof.
  intros H. unfold all_values, all_strides, canonicalize. cbn [tstrides].
  rewrite !all_values_of_av. apply canon_all_values_gen. exact H.
Qed.

Theorem canonicalize_ok l : layout_ok l -> layout_ok (canonicalize l).
Proof.
  unfold layout_ok, canonicalize. cbn [tstrides]. intros H. apply Forall_forall.
  intros t Ht. apply in_map_iff in Ht as [t0 [<- Hin]]. rewrite ts_canonicalize_r.
  apply canon_r_ok. rewrite Forall_forall in H. apply H, Hin.
Qed.

Theorem canonicalize_offset l : offset (canonicalize l) = offset l.
Proof. reflexivity. Qed.

(* ================================================================================ *)
(* The affine map enumerates all_values in row-major order                           *)
(* ================================================================================ *)
From Coq Require Import Znumtheory Permutation.

Lemma tbound_ok s : stride_ok s -> exists a b, s = (Some a, Some b) /\ tbound s = b /\ 0 < b.
Proof.
  intros [a [b [-> Hb]]]. exists a, b. split; [reflexivity|]. split; [|exact Hb].
  unfold tbound. cbn [sbound snd]. destruct (b =? 0) eqn:E; [lia|reflexivity].
Qed.

Lemma bounds_prod_cons s r : bounds_prod (s :: r) = tbound s * bounds_prod r.
Proof. reflexivity. Qed.

Lemma bounds_prod_pos t : tstride_ok t -> 0 < bounds_prod t.
Proof.
  induction 1 as [|s t Hs Ht IH]; [reflexivity|]. rewrite bounds_prod_cons.
  destruct (tbound_ok s Hs) as [a [b [_ [-> Hb]]]]. nia.
Qed.

Lemma inner_addr_mod t : tstride_ok t -> forall P x, 0 < P -> (bounds_prod t | P) ->
  inner_addr t (x mod P) = inner_addr t x.
Proof.
  induction 1 as [|s t Hs Ht IH]; intros P x HP Hdiv; [reflexivity|].
  cbn [inner_addr].
  pose proof (bounds_prod_pos (s :: t) (Forall_cons _ Hs Ht)) as Hpos.
  rewrite <- (Zmod_div_mod (bounds_prod (s :: t)) P x Hpos HP Hdiv).
  rewrite (IH P x HP); [reflexivity|].
  destruct Hdiv as [k Hk]. rewrite bounds_prod_cons in Hk. exists (k * tbound s). lia.
Qed.

Lemma dim_addr_inner t x : tstride_ok t -> 0 <= x < bounds_prod t -> dim_addr t x = inner_addr t x.
Proof.
  intros Ht Hx. destruct t as [|s r]; [reflexivity|]. cbn [dim_addr inner_addr].
  rewrite (Z.mod_small x) by lia. reflexivity.
Qed.

Lemma av_inner_addr t : tstride_ok t ->
  av (map static_of t) = map (inner_addr t) (zrange (bounds_prod t)).
Proof.
  induction 1 as [|s t Hs Ht IH].
  - reflexivity.
  - destruct (tbound_ok s Hs) as [a [b [Es [Etb Hb]]]].
    pose proof (bounds_prod_pos t Ht) as Hpr.
    rewrite bounds_prod_cons, Etb. cbn [map av]. rewrite IH. subst s. cbn [static_of].
    unfold stride_values. cbn [fst snd].
    rewrite (zrange_mul b (bounds_prod t)) by lia.
    rewrite flat_map_map, map_flat_map.
    apply flat_map_ext_in. intros i Hi. apply in_zrange in Hi.
    rewrite !map_map. apply map_ext_in. intros y Hy. apply in_zrange in Hy.
    cbn [inner_addr static_of fst].
    rewrite bounds_prod_cons. unfold tbound at 1. cbn [sbound snd].
    replace (b =? 0) with false by lia.
    assert (Hx : 0 <= i * bounds_prod t + y < b * bounds_prod t) by nia.
    rewrite (Z.mod_small _ _ Hx).
    replace ((i * bounds_prod t + y) / bounds_prod t) with i
      by (apply (Z.div_unique_pos (i * bounds_prod t + y) (bounds_prod t) i y); lia).
    rewrite <- (inner_addr_mod t Ht (bounds_prod t) (i * bounds_prod t + y)) by (try lia; exists 1; lia).
    replace ((i * bounds_prod t + y) mod bounds_prod t) with y
      by (apply (Z.mod_unique_pos (i * bounds_prod t + y) (bounds_prod t) i y); lia).
    reflexivity.
Qed.

Theorem affine_map_all_values_gen ts : Forall tstride_ok ts ->
  map (affine_addr ts) (row_major (map bounds_prod ts)) = av (map static_of (concat ts)).
Proof.
  induction 1 as [|t ts Ht Hts IH]; [reflexivity|].
  cbn [map row_major concat]. rewrite map_app, av_app, <- IH, (av_inner_addr t Ht).
  rewrite map_flat_map, flat_map_map. apply flat_map_ext_in. intros i Hi. apply in_zrange in Hi.
  rewrite !map_map. apply map_ext. intros idx. cbn [affine_addr].
  rewrite (dim_addr_inner t i Ht Hi). reflexivity.
Qed.

Theorem affine_map_all_values l : layout_ok l ->
  map (affine_map_eval l) (row_major (shape_of l)) = all_values l.
Proof.
  intros H. unfold affine_map_eval, shape_of, all_values, all_strides.
  rewrite all_values_of_av. apply affine_map_all_values_gen. exact H.
Qed.

(* membership in the box *)
Lemma in_row_major shape idx :
  In idx (row_major shape) <-> Forall2 (fun i n => 0 <= i < n) idx shape.
Proof.
  revert idx. induction shape as [|n shape IH]; intros idx; cbn [row_major].
  - split; [intros [<-|[]]; constructor | intros H; inversion H; left; reflexivity].
  - rewrite in_flat_map. split.
    + intros [i [Hi Hin]]. apply in_map_iff in Hin as [r [<- Hr]]. apply in_zrange in Hi.
      constructor; [exact Hi | apply IH, Hr].
    + intros H. inversion H as [|i n' r shape' Hi Hr]; subst. exists i. split; [apply in_zrange, Hi|].
      apply in_map. apply IH, Hr.
Qed.

(* canonicalize keeps the shape *)
Lemma canon_r_bounds_prod t : tstride_ok t -> bounds_prod (ts_canon_r t) = bounds_prod t.
Proof.
  induction 1 as [|s t Hs Ht IH]; [reflexivity|].
  pose proof (canon_r_ok t Ht) as Hok.
  cbn [ts_canon_r fold_right]. fold (ts_canon_r t). unfold canon_step.
  destruct (tbound_ok s Hs) as [a [b [-> [Etb Hb]]]].
  rewrite (bounds_prod_cons (Some a, Some b) t), Etb, <- IH.
  destruct (ts_canon_r t) as [|prev rest] eqn:E.
  - rewrite bounds_prod_cons, Etb. reflexivity.
  - cbn [sbound sstep fst snd].
    inversion Hok as [|? ? Hp Hr]; subst. destruct (tbound_ok prev Hp) as [pa [pb [-> [Etp Hpb]]]].
    cbn [sbound sstep fst snd].
    destruct (optZ_eqb (Some b) (Some 1)) eqn:E1.
    + apply optZ_eqb_eq in E1. inversion E1; subst. lia.
    + destruct (truthy (Some pa) && truthy (Some pb) && optZ_eqb (Some (pa * pb)) (Some a) && truthy (Some b)).
      * rewrite !bounds_prod_cons, Etp. unfold tbound. cbn [sbound snd].
        replace (pb * b =? 0) with false by nia. lia.
      * rewrite (bounds_prod_cons (Some a, Some b)), Etb. reflexivity.
Qed.

Theorem canonicalize_shape l : layout_ok l -> shape_of (canonicalize l) = shape_of l.
Proof.
  unfold layout_ok, shape_of, canonicalize. cbn [tstrides]. intros H. rewrite map_map.
  apply map_ext_in. intros t Ht. rewrite ts_canonicalize_r. apply canon_r_bounds_prod.
  rewrite Forall_forall in H. apply H, Ht.
Qed.

(* canonicalize keeps the index -> address function on the whole box *)
Theorem canonicalize_affine_map l : layout_ok l ->
  forall idx, Forall2 (fun i n => 0 <= i < n) idx (shape_of l) ->
  affine_map_eval (canonicalize l) idx = affine_map_eval l idx.
Proof.
  intros H idx Hidx. apply in_row_major in Hidx.
  pose proof (affine_map_all_values l H) as E1.
  pose proof (affine_map_all_values _ (canonicalize_ok l H)) as E2.
  rewrite canonicalize_shape, canonicalize_all_values in E2 by exact H.
  rewrite <- E1 in E2. exact (ext_in_map E2 idx Hidx).
Qed.
