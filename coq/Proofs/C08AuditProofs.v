(* C08 — loop-count theorems that name the register VALUE (added by the audit).
   Proofs/C08SemProofs.loop_count_gemmx_knm hides M behind an existential, so it could not be combined
   with loop_count_gemmx_m; here the value written to `M` / `temporal_loop_bound` is stated to BE the
   number of steps of the output stream (stride-0 dims collapsed), for the mac/qmac bodies and for the
   rescale-only body, and loop_bound_alu of snax_phs is the number of steps of a 1-dim stream. *)
From Snax Require Import Base.Prelude Base.ListAux Model.C08StreamerCfg Model.C08Accels Model.C08Sem
  Proofs.C08StreamerProofs Proofs.C08SemProofs.

(* the output pattern with its reduction (stride 0) dims written as bound 1 *)
Definition collapsed_bounds (p : pattern) : list Z :=
  map (fun bs => if snd bs =? 0 then 1 else fst bs) (combine (p_ub p) (p_ts p)).

(* which pattern the generator reads M from: D8 (index 2) for an i8 output, the last one otherwise *)
Definition out_pattern (op : sop) (i8 : bool) : option pattern :=
  if i8 then nth_error (s_pats op) 2 else nth_error (s_pats op) (List.length (s_pats op) - 1).

Theorem loop_count_gemmx_m_register :
  forall n op qmac i8 resc l lp, out_pattern op i8 = Some lp ->
  List.length (p_ub lp) = List.length (p_ts lp) -> Forall (fun b => 0 <= b) (p_ub lp) ->
  gemmx_kernel_vals n op (GBMac qmac i8 resc) = Some l ->
  In (TKern GM, GC (steps (collapsed_bounds lp) (p_ts lp))) l /\
  In (TKern GTemporalLoopBound, if i8 then GC (steps (collapsed_bounds lp) (p_ts lp)) else GC 0) l.
Proof.
  intros n op qmac i8 resc l lp Hlp Hl Hb H. unfold gemmx_kernel_vals in H. unfold out_pattern in Hlp.
  rewrite Hlp in H. destruct (nth_error (s_pats op) 0) as [p0|]; [|discriminate].
  rewrite Z.div_1_r in H. unfold collapsed_bounds. rewrite <- (loop_count_gemmx_m lp Hl Hb).
  destruct (prod_nonreducing lp =? 0); [discriminate|].
  destruct i8.
  - destruct (omap pack_shift_chunk _) as [sv|]; [|discriminate]. inversion H; subst l; clear H.
    split; [simpl; tauto|]. do 6 right. apply in_or_app. right. apply in_or_app. right. left. reflexivity.
  - inversion H; subst l; clear H.
    split; [simpl; tauto|]. do 6 right. apply in_or_app. right. apply in_or_app. right. left. reflexivity.
Qed.

(* rescale-only (SIMD) body: K = N = 1, M = temporal_loop_bound = number of steps of stream 0 *)
Theorem loop_count_gemmx_rescale_only :
  forall n op r l p0, nth_error (s_pats op) 0 = Some p0 ->
  List.length (p_ub p0) = List.length (p_ts p0) -> Forall (fun b => 0 <= b) (p_ub p0) ->
  gemmx_kernel_vals n op (GBRescale r) = Some l ->
  In (TKern GK, GC 1) l /\ In (TKern GN, GC 1) l /\
  In (TKern GM, GC (steps (p_ub p0) (p_ts p0))) l /\
  In (TKern GTemporalLoopBound, GC (steps (p_ub p0) (p_ts p0))) l.
Proof.
  intros n op r l p0 Hp Hl Hb H. unfold gemmx_kernel_vals in H. rewrite Hp in H.
  destruct (nth_error (r_shift r) 0); [|discriminate]. destruct (nth_error (r_mult r) 0); [|discriminate].
  inversion H; subst l; clear H. rewrite (addrs_length _ _ Hl Hb).
  repeat split; try (simpl; tauto).
  do 6 right. apply in_or_app. right. apply in_or_app. right. left. reflexivity.
Qed.

(* snax_phs writes the same first bound as snax_alu *)
Theorem loop_count_phs :
  forall op b t ss l cfg sw, nth_error (s_pats op) 0 = Some (mkPat [b] [t] ss) -> 0 <= b ->
  phs_vals cfg op sw = Some l ->
  In (TKern LoopBoundAlu, VConst (steps [b] [t])) l.
Proof.
  intros op b t ss l cfg sw Hp Hb H. unfold phs_vals, first_bound in H. rewrite Hp in H. cbn [p_ub nth_error] in H.
  destruct (setup_vals cfg op) as [sv|]; [|discriminate]. simpl in H. inversion H; subst l.
  apply in_or_app. right. apply in_or_app. right. left.
  rewrite addrs_length; [|reflexivity|repeat constructor; exact Hb].
  unfold zprod. simpl. repeat f_equal. lia.
Qed.

(* non-vacuity: the default-gemmx-like i8 matmul (D8 pattern with a reduction dim) *)
Example loop_count_gemmx_m_register_nonvacuous :
  let op := mkSop [mkPat [4; 2] [8; 64] [8]; mkPat [4; 2] [8; 0] [8]; mkPat [4; 2] [0; 256] [8]] [] in
  out_pattern op true = Some (mkPat [4; 2] [0; 256] [8]) /\
  steps (collapsed_bounds (mkPat [4; 2] [0; 256] [8])) [0; 256] = 2 /\
  exists l, gemmx_kernel_vals 8 op (GBMac false true None) = Some l /\ In (TKern GM, GC 2) l /\ In (TKern GK, GC 4) l.
Proof.
  cbv zeta. split; [reflexivity|]. split; [reflexivity|]. eexists. split; [vm_compute; reflexivity|].
  split; simpl; tauto.
Qed.
