(* C20 — proofs, part 8: encode_sem.  The PE graph that convert_generic_body_to_phs builds computes, on the used
   block arguments, exactly the value the kernel body yields. *)
From Snax Require Import Base.Prelude Base.ListAux Model.C20Phs Proofs.C20PhsProofs Proofs.C20DecodeProofs
  Proofs.C20SearchProofs Proofs.C20AppendProofs Proofs.C20HistoryProofs Proofs.C20WfProofs Proofs.C20EncodeProofs.

(* ---------------------------------------------------------------- the used block arguments *)
Definition pick (b : body) (ins : list Z) (i : nat) : list Z :=
  if arg_used b i then match nth_error ins i with Some v => [v] | None => [] end else [].

Lemma used_inputs_pick b ins : used_inputs b ins = flat_map (pick b ins) (seq 0 (bnargs b)).
Proof. reflexivity. Qed.

Lemma pick_length b ins l :
  (forall i, In i l -> (i < length ins)%nat) -> length (flat_map (pick b ins) l) = length (filter (arg_used b) l).
Proof.
  induction l as [|x xs IH]; intros H; cbn [flat_map filter]; [reflexivity|].
  rewrite app_length, IH by (intros i Hi; apply H; right; exact Hi). unfold pick.
  destruct (arg_used b x); [|reflexivity].
  destruct (nth_error ins x) eqn:E; [reflexivity|].
  apply nth_error_None in E. specialize (H x (or_introl eq_refl)). lia.
Qed.

Lemma used_inputs_nth b ins i :
  arg_used b i = true -> (i < bnargs b)%nat -> (bnargs b <= length ins)%nat ->
  nth_error (flat_map (pick b ins) (seq 0 (bnargs b))) (new_index b i) = nth_error ins i.
Proof.
  intros Hu Hi Hn. rewrite (seq_split i (bnargs b) Hi). rewrite flat_map_app. cbn [flat_map].
  unfold new_index. rewrite <- (pick_length b ins (seq 0 i)) by (intros x Hx; apply in_seq in Hx; lia).
  rewrite nth_error_app2 by lia. rewrite Nat.sub_diag. unfold pick at 1. rewrite Hu.
  destruct (nth_error ins i) eqn:E; [reflexivity|]. apply nth_error_None in E. lia.
Qed.

(* ---------------------------------------------------------------- positions *)
Lemma encode_nodes_nth b ids : forall ops j ns,
  encode_nodes b ids j ops = Some ns ->
  forall k o, nth_error ops k = Some o ->
    exists id args, nth_error ids (j + k) = Some id /\ map_opt (conv_ksrc b ids) (kargs o) = Some args /\
                    nth_error ns k = Some (mkNode id (j + k) [kkind o] args).
Proof.
  induction ops as [|o0 r IH]; intros j ns H k o Hk; [destruct k; discriminate|].
  cbn [encode_nodes] in H.
  destruct (nth_error ids j) as [id|] eqn:Eid; [|discriminate].
  destruct (map_opt (conv_ksrc b ids) (kargs o0)) as [args|] eqn:Ea; [|discriminate].
  destruct (encode_nodes b ids (S j) r) as [ns'|] eqn:En; [|discriminate]. inversion H; subst. clear H.
  destruct k as [|k]; cbn [nth_error] in *.
  - inversion Hk; subst. exists id, args. rewrite Nat.add_0_r. auto.
  - destruct (IH _ _ En k o Hk) as (id' & args' & H1 & H2 & H3).
    exists id', args'. replace (j + S k)%nat with (S j + k)%nat by lia. auto.
Qed.

Lemma kops_ok_nth na : forall ops j k o,
  kops_ok na j ops = true -> nth_error ops k = Some o -> forallb (ksrc_ok na (j + k)) (kargs o) = true.
Proof.
  induction ops as [|o0 r IH]; intros j k o H Hk; [destruct k; discriminate|].
  cbn [kops_ok] in H. apply andb_true_iff in H as [H1 H2]. destruct k as [|k]; cbn [nth_error] in Hk.
  - inversion Hk; subst. rewrite Nat.add_0_r. exact H1.
  - replace (j + S k)%nat with (S j + k)%nat by lia. eapply IH; eauto.
Qed.

Lemma map_opt_compose {A B C} (f : A -> option C) (g : A -> option B) (h : B -> option C) l :
  (forall x y, In x l -> f x = Some y -> forall z, g x = Some z -> h z = Some y) ->
  forall ys zs, map_opt f l = Some ys -> map_opt g l = Some zs -> map_opt h zs = Some ys.
Proof.
  induction l as [|x xs IH]; intros H ys zs Hf Hg; cbn [map_opt] in *.
  - inversion Hf; inversion Hg; subst. reflexivity.
  - destruct (f x) as [y|] eqn:Ef; [|discriminate]. destruct (map_opt f xs) as [ys'|] eqn:Efs; [|discriminate].
    destruct (g x) as [z|] eqn:Eg; [|discriminate]. destruct (map_opt g xs) as [zs'|] eqn:Egs; [|discriminate].
    inversion Hf; inversion Hg; subst. cbn [map_opt].
    rewrite (H x y (or_introl eq_refl) Ef z Eg).
    rewrite (IH (fun x' y' Hx' => H x' y' (or_intror Hx')) ys' zs' eq_refl eq_refl). reflexivity.
Qed.

Section EncodeSem.
  Variable opsem : opk -> list Z -> Z.
  Variables (b : body) (g : pe) (sg : nat -> Z) (ins : list Z).
  Hypothesis Hok : body_ok b = true.
  Hypothesis Henc : encode b = Some g.
  Hypothesis Hlen : (bnargs b <= length ins)%nat.

  Let ids := body_ids b.
  Let ins' := used_inputs b ins.

  (* the values computed so far are what the choose ops of the graph evaluate to *)
  Definition agrees (vals : list Z) : Prop :=
    forall j v id, nth_error vals j = Some v -> nth_error ids j = Some id ->
                   eval_id opsem (S j) g sg ins' id = Some v.

  Lemma enc_parts : exists ns y ys o,
    encode_nodes b ids 0 (bops b) = Some ns /\ byield b = y :: ys /\ conv_ksrc b ids y = Some o /\
    pnodes g = ns /\ pout g = [o] /\ NoDup (map nid ns).
  Proof.
    pose proof Henc as H. unfold encode in H. fold ids in H.
    destruct (encode_nodes b ids 0 (bops b)) as [ns|] eqn:En; [|discriminate].
    destruct (byield b) as [|y ys] eqn:Ey; [discriminate|].
    destruct (conv_ksrc b ids y) as [o|] eqn:Eo; [|discriminate]. inversion H; subst g.
    exists ns, y, ys, o. cbn [pnodes pout]. repeat split; auto.
    destruct (encode_ok b _ Henc) as (_ & Hnd & _). cbn [pnodes] in Hnd. apply nodup_ids_NoDup. exact Hnd.
  Qed.

  Lemma conv_eval vals j s o v :
    agrees vals -> (length vals <= j)%nat -> ksrc_ok (bnargs b) (length vals) s = true ->
    (forall i, s = KArg i -> arg_used b i = true) ->
    eval_ksrc ins vals s = Some v -> conv_ksrc b ids s = Some o ->
    eval_src (eval_id opsem j g sg ins') sg ins' o = Some v.
  Proof.
    intros Hag Hj Hs Hu He Hc. destruct s as [i|j']; cbn [ksrc_ok eval_ksrc conv_ksrc] in *.
    - apply Nat.ltb_lt in Hs. destruct (i <? bnargs b)%nat eqn:E; [|discriminate]. inversion Hc; subst o.
      cbn [eval_src]. unfold ins'. rewrite used_inputs_pick.
      rewrite used_inputs_nth; auto.
    - apply Nat.ltb_lt in Hs. destruct (nth_error ids j') as [id|] eqn:Eid; [|discriminate]. inversion Hc; subst o.
      cbn [eval_src]. apply (eval_id_mono_le opsem g sg ins' (S j')); [lia|]. eapply Hag; eauto.
  Qed.

  Lemma kops_agree : forall ops vals vals',
    (forall k o, nth_error ops k = Some o -> nth_error (bops b) (length vals + k) = Some o) ->
    agrees vals -> eval_kops opsem ops ins vals = Some vals' -> agrees vals'.
  Proof.
    destruct enc_parts as (ns & y & ys & oy & En & Ey & Eo & Hns & Hout & Hnd).
    induction ops as [|o r IH]; intros vals vals' Hpos Hag He; cbn [eval_kops] in He.
    - inversion He; subst. exact Hag.
    - destruct (map_opt (eval_ksrc ins vals) (kargs o)) as [vs|] eqn:Ev; [|discriminate].
      apply (IH (vals ++ [opsem (kkind o) vs]) vals'); [| |exact He].
      + intros k o' Hk. rewrite app_length. cbn [length]. replace (length vals + 1 + k)%nat with (length vals + S k)%nat by lia.
        apply Hpos. exact Hk.
      + pose proof (Hpos 0%nat o eq_refl) as Ho. rewrite Nat.add_0_r in Ho.
        destruct (encode_nodes_nth b ids _ _ _ En _ _ Ho) as (id & args & Hid & Hargs & Hnode). cbn [plus] in *.
        assert (forallb (ksrc_ok (bnargs b) (length vals)) (kargs o) = true) as Hko.
        { unfold body_ok in Hok. apply andb_true_iff in Hok as [Hk _].
          apply (kops_ok_nth (bnargs b) (bops b) 0 (length vals) o Hk Ho). }
        intros j v id' Hj Hid'.
        destruct (Nat.lt_ge_cases j (length vals)) as [Hlt|Hge].
        * rewrite nth_error_app1 in Hj by exact Hlt. eapply Hag; eauto.
        * rewrite nth_error_app2 in Hj by exact Hge.
          destruct (j - length vals)%nat as [|q] eqn:Eq; cbn [nth_error] in Hj; [|destruct q; discriminate].
          inversion Hj; subst v. assert (j = length vals) by lia. subst j.
          rewrite Hid in Hid'. inversion Hid'; subst id'.
          cbn [eval_id]. rewrite Hns.
          assert (find_node ns id = Some (mkNode id (length vals) [kkind o] args)) as ->.
          { apply (find_node_nodup ns (mkNode id (length vals) [kkind o] args) Hnd). eapply nth_error_In; eauto. }
          cbn [nargs].
          assert (map_opt (eval_src (eval_id opsem (length vals) g sg ins') sg ins') args = Some vs) as ->.
          { apply (map_opt_compose (eval_ksrc ins vals) (conv_ksrc b ids)
                     (eval_src (eval_id opsem (length vals) g sg ins') sg ins') (kargs o)); [|exact Ev|exact Hargs].
            intros s v Hs Hv z Hz. rewrite forallb_forall in Hko.
            apply (conv_eval vals (length vals) s z v Hag (le_n _) (Hko s Hs)); [|exact Hv|exact Hz].
            intros i ->. unfold arg_used. apply orb_true_iff. left. apply existsb_exists. exists o. split.
            - eapply nth_error_In; eauto.
            - apply existsb_exists. exists (KArg i). split; [exact Hs|cbn; apply Nat.eqb_refl]. }
          unfold node_choice. cbn [nops length Nat.leb nth_error]. reflexivity.
  Qed.

  (* encode_sem *)
  Theorem encode_sem_fuel v :
    eval_body opsem b ins = Some v -> eval_pe_fuel opsem (S (length (pnodes g))) g sg ins' = Some v.
  Proof.
    destruct enc_parts as (ns & y & ys & oy & En & Ey & Eo & Hns & Hout & Hnd).
    unfold eval_body. rewrite Ey.
    destruct (eval_kops opsem (bops b) ins []) as [vals|] eqn:Ek; [|discriminate].
    destruct (eval_ksrc ins vals y) as [w|] eqn:Ew; [|discriminate]. intros H; inversion H; subst v. clear H.
    assert (agrees vals) as Hag.
    { apply (kops_agree (bops b) [] vals); [intros k o Hk; exact Hk| |exact Ek].
      intros j v id Hj. destruct j; discriminate. }
    assert (length vals = length (bops b)) as Hlv.
    { clear - Ek. assert (forall ops vals vals', eval_kops opsem ops ins vals = Some vals' -> length vals' = (length vals + length ops)%nat) as Hg.
      { induction ops as [|o r IH]; intros vals0 vals' H; cbn [eval_kops] in H.
        - inversion H; subst. cbn [length]. lia.
        - destruct (map_opt (eval_ksrc ins vals0) (kargs o)); [|discriminate]. rewrite (IH _ _ H), app_length. cbn [length]. lia. }
      apply (Hg _ _ _ Ek). }
    assert (length ns = length (bops b)) as Hln.
    { destruct (encode_nodes_spec _ _ _ _ _ En) as (H1 & _ & _).
      rewrite <- (map_length nsw ns), H1, seq_length. reflexivity. }
    unfold eval_pe_fuel. rewrite Hout. cbn [map_opt].
    assert (eval_src (eval_id opsem (S (length (pnodes g))) g sg ins') sg ins' oy = Some w) as ->; [|reflexivity].
    unfold body_ok in Hok. apply andb_true_iff in Hok as [_ Hy]. rewrite Ey in Hy.
    apply (conv_eval vals (S (length (pnodes g))) y oy w Hag); [rewrite Hns; lia|rewrite Hlv; exact Hy| |exact Ew|exact Eo].
    intros i ->. unfold arg_used. apply orb_true_iff. right. rewrite Ey. cbn [existsb ksrc_is_arg]. rewrite Nat.eqb_refl. reflexivity.
  Qed.
End EncodeSem.

Theorem encode_sem opsem b g sw ins v :
  body_ok b = true -> encode b = Some g -> (bnargs b <= length ins)%nat ->
  eval_body opsem b ins = Some v -> eval_pe opsem g sw (used_inputs b ins) = Some v.
Proof. intros H1 H2 H3 H4. unfold eval_pe. apply encode_sem_fuel; assumption. Qed.
