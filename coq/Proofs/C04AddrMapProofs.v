(* C04 part A — proofs about the register maps (Model/C04AddrMap.v). *)
From Snax Require Import Base.Prelude Base.ListAux Model.C04AddrMap.
From Coq Require Import String.

(* ---- consecutive address ranges -------------------------------------------------------------- *)
Fixpoint zseq (a : Z) (n : nat) : list Z :=
  match n with
  | O => []
  | S m => a :: zseq (a + 1) m
  end.

Lemma in_zseq n : forall a x, In x (zseq a n) <-> a <= x < a + Z.of_nat n.
Proof.
  induction n as [|n IH]; intros a x; cbn [zseq In].
  - lia.
  - rewrite IH. lia.
Qed.

Lemma NoDup_zseq n : forall a, NoDup (zseq a n).
Proof.
  induction n as [|n IH]; intros a; cbn [zseq]; constructor.
  - rewrite in_zseq. lia.
  - apply IH.
Qed.

Lemma zseq_length n : forall a, List.length (zseq a n) = n.
Proof. induction n as [|n IH]; intros a; cbn [zseq List.length]; [reflexivity|]. rewrite IH. reflexivity. Qed.

Lemma enum_from_snd {A} (l : list A) : forall b, map snd (enum_from b l) = zseq b (List.length l).
Proof.
  induction l as [|x xs IH]; intros b; cbn [enum_from map snd List.length zseq]; [reflexivity|].
  rewrite IH. reflexivity.
Qed.

Lemma enum_from_fst {A} (l : list A) : forall b, map fst (enum_from b l) = l.
Proof.
  induction l as [|x xs IH]; intros b; cbn [enum_from map fst]; [reflexivity|].
  rewrite IH. reflexivity.
Qed.

Lemma enum_from_length {A} (l : list A) : forall b, List.length (enum_from b l) = List.length l.
Proof. induction l as [|x xs IH]; intros b; cbn [enum_from List.length]; [reflexivity|]. rewrite IH. reflexivity. Qed.

(* address of the i-th field is base + i *)
Lemma enum_from_nth {A} (l : list A) : forall b i d,
  (i < List.length l)%nat -> nth i (enum_from b l) d = (nth i l (fst d), b + Z.of_nat i).
Proof.
  induction l as [|x xs IH]; intros b i d Hi; cbn [List.length] in Hi; [lia|].
  destruct i as [|i]; cbn [enum_from nth].
  - f_equal. lia.
  - rewrite IH by lia. f_equal. lia.
Qed.

Lemma map_add_zrange a n : map (fun i => a + i) (zrange n) = zseq a (Z.to_nat n).
Proof.
  unfold zrange. generalize (Z.to_nat n) as k. intros k.
  assert (H : forall s a', a' = a + Z.of_nat s ->
            map (fun i => a + i) (map Z.of_nat (seq s k)) = zseq a' k).
  { induction k as [|k IH]; intros s a' Ha; cbn [seq map zseq]; [reflexivity|].
    f_equal; [lia|]. apply IH. lia. }
  apply (H 0%nat). cbn. lia.
Qed.

Lemma NoDup_app_intro {A} (l1 l2 : list A) :
  NoDup l1 -> NoDup l2 -> (forall x, In x l1 -> In x l2 -> False) -> NoDup (l1 ++ l2).
Proof.
  induction l1 as [|a l1 IH]; intros H1 H2 Hd; cbn [app]; [exact H2|].
  inversion H1 as [|? ? Hna Hnd]; subst. constructor.
  - rewrite in_app_iff. intros [Hin|Hin]; [exact (Hna Hin)|]. apply (Hd a); [left; reflexivity|exact Hin].
  - apply IH; [exact Hnd|exact H2|]. intros x Hx1 Hx2. apply (Hd x); [right; exact Hx1|exact Hx2].
Qed.

Lemma NoDup_single {A} (x : A) : NoDup [x].
Proof. constructor; [intros []|constructor]. Qed.

(* Decide NoDup of a concatenation of [zseq] ranges and explicit lists by interval arithmetic. *)
Ltac in_ranges :=
  repeat match goal with
  | H : In _ (_ ++ _) |- _ => apply in_app_or in H; destruct H as [H|H]
  | H : In _ (zseq _ _) |- _ => apply in_zseq in H
  | H : In _ (_ :: _) |- _ => destruct H as [H|H]
  | H : In _ [] |- _ => destruct H
  end.
Ltac nodup_ranges :=
  repeat match goal with
  | |- NoDup (zseq _ _) => apply NoDup_zseq
  | |- NoDup [] => constructor
  | |- NoDup [_] => apply NoDup_single
  | |- NoDup (_ ++ _) =>
      apply NoDup_app_intro; [| | let x := fresh "x" in let H1 := fresh "H1" in let H2 := fresh "H2" in
                                   intros x H1 H2; in_ranges; lia]
  | |- NoDup (?a :: ?l) => change (NoDup ([a] ++ l))
  end.

(* ---- SNAX Alu ---------------------------------------------------------------------------------- *)
Lemma alu_addrs (c : scfg) :
  let L := List.length (streamer_setup_fields c) in
  let M := List.length (streamer_launch_fields c) in
  let n1 := BASE + Z.of_nat L in
  let n2 := n1 + Z.of_nat M + 2 in
  all_addrs (alu_map c) =
    (zseq BASE L ++ [n2 + 0; n2 + 1]) ++ (zseq n1 M ++ [n2 + 2]) ++ [n2 + 3] ++ [n1 + Z.of_nat M; n1 + Z.of_nat M + 1].
Proof.
  unfold all_addrs, alu_map, streamer_setup_dict, streamer_launch_dict, streamer_reserved, len.
  cbn [am_fields am_launch am_barrier am_reserved].
  rewrite !map_app, !enum_from_snd. reflexivity.
Qed.

Lemma alu_injective c : NoDup (all_addrs (alu_map c)).
Proof. rewrite alu_addrs. cbv zeta. unfold BASE. nodup_ranges. Qed.

Lemma alu_fields_agree c :
  map fst (am_fields (alu_map c)) = alu_fields c /\ map fst (am_launch (alu_map c)) = alu_launch_fields c.
Proof.
  unfold alu_map, streamer_setup_dict, streamer_launch_dict, alu_fields, alu_launch_fields.
  cbn [am_fields am_launch]. rewrite !map_app, !enum_from_fst. split; reflexivity.
Qed.

(* ---- SNAX GEMMX ---------------------------------------------------------------------------------- *)
Lemma map_snd_pairs {A} (f : Z -> A) (g : Z -> Z) l : map snd (map (fun i => (f i, g i)) l) = map g l.
Proof. rewrite map_map. reflexivity. Qed.
Lemma map_fst_pairs {A} (f : Z -> A) (g : Z -> Z) l : map fst (map (fun i => (f i, g i)) l) = map f l.
Proof. rewrite map_map. reflexivity. Qed.

Lemma gemmx_addrs (c : scfg) (n : Z) :
  let L := List.length (streamer_setup_fields c) in
  let M := List.length (streamer_launch_fields c) in
  let n1 := BASE + Z.of_nat L in
  let n2 := n1 + Z.of_nat M + 2 in
  let nbs := nb_shifts n in
  all_addrs (gemmx_map c n) =
    (zseq BASE L ++ [n2 + 0; n2 + 1; n2 + 2; n2 + 3; n2 + 4; n2 + 5]
       ++ zseq (n2 + 6) (Z.to_nat nbs) ++ zseq (n2 + 6 + nbs) (Z.to_nat n)
       ++ [n2 + 6 + nbs + n; n2 + 7 + nbs + n])
    ++ (zseq n1 M ++ [n2 + 8 + nbs + n]) ++ [n2 + 9 + nbs + n] ++ [n1 + Z.of_nat M; n1 + Z.of_nat M + 1].
Proof.
  unfold all_addrs, gemmx_map, streamer_setup_dict, streamer_launch_dict, streamer_reserved, len.
  cbn [am_fields am_launch am_barrier am_reserved].
  rewrite !map_app, !enum_from_snd, !map_snd_pairs, <- !map_add_zrange. reflexivity.
Qed.

Definition gemmx_wf (n : Z) : Prop := 0 <= n.

Lemma gemmx_injective c n : gemmx_wf n -> NoDup (all_addrs (gemmx_map c n)).
Proof.
  unfold gemmx_wf. intros Hn. rewrite gemmx_addrs. cbv zeta.
  assert (Hs : 0 <= nb_shifts n) by (unfold nb_shifts; lia).
  set (nbs := nb_shifts n) in *. unfold BASE. nodup_ranges.
Qed.

Lemma gemmx_fields_agree c n :
  map fst (am_fields (gemmx_map c n)) = gemmx_fields c n
  /\ map fst (am_launch (gemmx_map c n)) = gemmx_launch_fields c.
Proof.
  unfold gemmx_map, streamer_setup_dict, streamer_launch_dict, gemmx_fields, gemmx_launch_fields.
  cbn [am_fields am_launch]. rewrite !map_app, !enum_from_fst, !map_fst_pairs. split; reflexivity.
Qed.

(* outside gemmx_wf the map is NOT injective: n = -1 puts temporal_loop_bound on csr1's register *)
Lemma gemmx_negative_collides :
  let c := mkCfg [mkStreamer [FlNormal] [8] []] false in nodupZb (all_addrs (gemmx_map c (-1))) = false.
Proof. vm_compute. reflexivity. Qed.

(* ---- SNAX xDMA ---------------------------------------------------------------------------------- *)
Lemma xdma_addrs (c : scfg) :
  let f := streamer_setup_fields c in
  let L1 := List.length (firstn 4 f) in
  let L2 := List.length (skipn 4 f) in
  let M := List.length (streamer_launch_fields c) in
  let n1 := BASE + Z.of_nat (List.length f) + 2 * MCAST - 2 in
  let n2 := n1 + Z.of_nat M in
  all_addrs (xdma_map c) =
    (zseq BASE L1 ++ zseq (BASE + 2 + 2 * MCAST) L2) ++ zseq n1 M ++ [n2 + 2]
    ++ (zseq (BASE + 4) (Z.to_nat (2 * MCAST - 2)) ++ [n2; n2 + 1]).
Proof.
  unfold all_addrs, xdma_map, xdma_setup_dict, xdma_launch_dict, len.
  cbn [am_fields am_launch am_barrier am_reserved].
  rewrite !map_app, !enum_from_snd.
  replace (map (fun i => BASE + 4 + i) (zrange (2 * MCAST - 2))) with (zseq (BASE + 4) (Z.to_nat (2 * MCAST - 2)))
    by (symmetry; apply map_add_zrange).
  reflexivity.
Qed.

(* The formula base + len + 2*max_multicast_dest - 2 of get_xdma_streamer_setup_dict presupposes
   that four fields sit in front of the multicast gap. *)
Definition xdma_wf (c : scfg) : Prop := (4 <= List.length (streamer_setup_fields c))%nat.

Lemma xdma_injective c : xdma_wf c -> NoDup (all_addrs (xdma_map c)).
Proof.
  unfold xdma_wf. intros Hwf. rewrite xdma_addrs. cbv zeta.
  pose proof (firstn_length 4 (streamer_setup_fields c)) as Hf.
  pose proof (skipn_length 4 (streamer_setup_fields c)) as Hs.
  set (L1 := List.length (firstn 4 (streamer_setup_fields c))) in *.
  set (L2 := List.length (skipn 4 (streamer_setup_fields c))) in *.
  set (L := List.length (streamer_setup_fields c)) in *.
  unfold BASE, MCAST. change (Z.to_nat (2 * 16 - 2)) with 30%nat.
  nodup_ranges.
Qed.

Lemma flat_map_length_ge {A B} (f : A -> list B) (k : nat) (l : list A) :
  (forall x, k <= List.length (f x))%nat -> (k * List.length l <= List.length (flat_map f l))%nat.
Proof.
  intros Hf. induction l as [|x xs IH]; cbn [flat_map List.length]; [lia|].
  rewrite app_length. specialize (Hf x). lia.
Qed.

(* every configuration with at least two streamers (the xDMA has a reader and a writer) is fine *)
Lemma xdma_wf_two_streamers c : (2 <= List.length (c_streamers c))%nat -> xdma_wf c.
Proof.
  intros H2. unfold xdma_wf, streamer_setup_fields.
  assert (Hn : (2 <= List.length (named c))%nat).
  { unfold named. rewrite combine_length, seq_length. lia. }
  destruct (c_xdma c).
  - unfold xdma_setup_fields. rewrite app_length.
    pose proof (flat_map_length_ge (fun ks : nat * streamer => [FPtrLow (fst ks); FPtrHigh (fst ks)]) 2 (named c)) as H.
    specialize (H (fun _ => le_n 2)). lia.
  - unfold reg_setup_fields. rewrite !app_length.
    pose proof (flat_map_length_ge reg_fields_of 2 (named c)) as H.
    assert (Hk : forall x, (2 <= List.length (reg_fields_of x))%nat).
    { intros x. unfold reg_fields_of. cbn [app List.length]. lia. }
    specialize (H Hk). lia.
Qed.

(* the degenerate one-streamer configuration without dims puts launch_streamer into the gap *)
Lemma xdma_degenerate_collides :
  let c := mkCfg [mkStreamer [] [] []] false in nodupZb (all_addrs (xdma_map c)) = false.
Proof. vm_compute. reflexivity. Qed.

Lemma xdma_fields_agree c :
  map fst (am_fields (xdma_map c)) = xdma_fields c /\ map fst (am_launch (xdma_map c)) = xdma_launch_fields c.
Proof.
  unfold xdma_map, xdma_setup_dict, xdma_launch_dict, xdma_fields, xdma_launch_fields.
  cbn [am_fields am_launch]. rewrite !map_app, !enum_from_fst, firstn_skipn. split; reflexivity.
Qed.

(* ---- SNAX PHS ---------------------------------------------------------------------------------- *)
Lemma phs_addrs (c : scfg) (nsw : nat) :
  let L := List.length (streamer_setup_fields c) in
  let M := List.length (streamer_launch_fields c) in
  let S := List.length (phs_switch_fields nsw) in
  let n1 := BASE + Z.of_nat L in
  let n2 := n1 + Z.of_nat M + 2 in
  let n3 := n2 + Z.of_nat S in
  all_addrs (phs_map c nsw) =
    (zseq BASE L ++ zseq n2 S ++ [n3 + 0]) ++ (zseq n1 M ++ [n3 + 1]) ++ [n3 + 2]
    ++ [n1 + Z.of_nat M; n1 + Z.of_nat M + 1].
Proof.
  unfold all_addrs, phs_map, streamer_setup_dict, streamer_launch_dict, streamer_reserved, len.
  cbn [am_fields am_launch am_barrier am_reserved].
  rewrite !map_app, !enum_from_snd. reflexivity.
Qed.

Lemma phs_injective c nsw : NoDup (all_addrs (phs_map c nsw)).
Proof. rewrite phs_addrs. cbv zeta. unfold BASE. nodup_ranges. Qed.

Lemma phs_fields_agree c nsw :
  map fst (am_fields (phs_map c nsw)) = phs_fields c nsw
  /\ map fst (am_launch (phs_map c nsw)) = phs_launch_fields c.
Proof.
  unfold phs_map, streamer_setup_dict, streamer_launch_dict, phs_fields, phs_launch_fields.
  cbn [am_fields am_launch]. rewrite !map_app, !enum_from_fst. split; reflexivity.
Qed.

(* ---- SNAX HWPE mult ------------------------------------------------------------------------------- *)
Lemma hwpe_injective : NoDup (all_addrs hwpe_map).
Proof. cbv [all_addrs hwpe_map am_fields am_launch am_barrier am_reserved map snd app]. nodup_ranges. Qed.

Lemma hwpe_fields_agree :
  map fst (am_fields hwpe_map) = hwpe_fields /\ map fst (am_launch hwpe_map) = hwpe_launch_fields.
Proof. split; reflexivity. Qed.

(* ---- the i-th field of a streamer accelerator sits at BASE + i ------------------------------------- *)
Lemma alu_setup_field_addr c i d :
  (i < List.length (streamer_setup_fields c))%nat ->
  nth i (am_fields (alu_map c)) d = (nth i (streamer_setup_fields c) (fst d), BASE + Z.of_nat i).
Proof.
  intros Hi. unfold alu_map, streamer_setup_dict, streamer_launch_dict. cbn [am_fields].
  rewrite app_nth1 by (rewrite enum_from_length; exact Hi). apply enum_from_nth. exact Hi.
Qed.
