(* Ghost values (state / token typed SSA values) — C01 infrastructure.
   Under the decidable typing discipline [gok_*] every ghost cell of the environment holds 0 on
   every execution ([Zi_block]); consequently renaming a never-bound ghost to ANY other ghost
   (bound or not: a loop-carried state, an scf.if result ...) everywhere leaves every run unchanged
   ([ren_ghost_run]).  Also: relation-generic loop / conditional simulation lemmas. *)
From Snax Require Import Base.Prelude Model.AccIR Model.AccSem Model.AccInfer Model.AccDedup Model.AccWeave Model.AccRules
  Proofs.AccSemProofs Proofs.AccInferProofs Proofs.AccDedupProofs Proofs.AccRenameProofs.

(* ---- relation-generic simulation of loops and conditionals ------------------------------------- *)
Section RelLoops.
Variable Rel : mstate -> mstate -> Prop.
Hypothesis Rel_env : forall m m', Rel m m' -> env m' = env m.
Hypothesis Rel_set : forall m m' e, Rel m m' -> Rel (set_env m e) (set_env m' e).

Lemma rel_for_sim (eb eb' : mstate -> mstate) iv lb ub sp its rs ys m m' :
  (forall k k', Rel k k' -> Rel (eb k) (eb' k')) -> Rel m m' ->
  Rel (exec_for eb iv lb ub sp its rs ys m) (exec_for eb' iv lb ub sp its rs ys m').
Proof.
  intros Hb HR. unfold exec_for. rewrite (Rel_env _ _ HR).
  set (l := env m lb). set (s := env m sp). set (n := trip_count l (env m ub) s).
  set (bargs := map it_arg its).
  set (e0 := bind_list bargs (map (fun x => env m (it_init x)) its) (env m)).
  assert (Hloop : forall k, Rel (iter_n k (for_step eb iv bargs ys l s) (set_env m e0))
                                (iter_n k (for_step eb' iv bargs ys l s) (set_env m' e0))).
  { induction k as [|k IHk]; [apply Rel_set; exact HR|]. cbn [iter_n].
    set (mk := iter_n k (for_step eb iv bargs ys l s) (set_env m e0)) in *.
    set (mk' := iter_n k (for_step eb' iv bargs ys l s) (set_env m' e0)) in *.
    unfold for_step. rewrite (Rel_env _ _ IHk).
    pose proof (Hb _ _ (Rel_set _ _ (upd (env mk) iv (l + Z.of_nat k * s)) IHk)) as H2.
    rewrite (Rel_env _ _ H2). apply Rel_set. exact H2. }
  pose proof (Hloop n) as HN. rewrite (Rel_env _ _ HN). apply Rel_set. exact HN.
Qed.

Lemma rel_if_sim (et et' ee ee' : mstate -> mstate) c rs thy ely m m' :
  (forall k k', Rel k k' -> Rel (et k) (et' k')) -> (forall k k', Rel k k' -> Rel (ee k) (ee' k')) -> Rel m m' ->
  Rel (exec_if et ee c rs thy ely m) (exec_if et' ee' c rs thy ely m').
Proof.
  intros Ht He HR. unfold exec_if. rewrite (Rel_env _ _ HR).
  destruct (env m c =? 0).
  - pose proof (He _ _ HR) as H2. rewrite (Rel_env _ _ H2). apply Rel_set. exact H2.
  - pose proof (Ht _ _ HR) as H2. rewrite (Rel_env _ _ H2). apply Rel_set. exact H2.
Qed.
End RelLoops.

(* ---- every ghost cell holds 0 ------------------------------------------------------------------- *)
Section GhostInv.
Variable orc : oracle.
Variable G : list val.

Definition Zi (m : mstate) : Prop := forall g, isg G g = true -> env m g = 0.
Definition Ze (e : envT) : Prop := forall g, isg G g = true -> e g = 0.

Fixpoint zl (ks : list val) (vs : list Z) : Prop :=
  match ks, vs with
  | k :: ks', v :: vs' => (isg G k = true -> v = 0) /\ zl ks' vs'
  | _, _ => True
  end.

Lemma Ze_bind ks : forall vs e, zl ks vs -> Ze e -> Ze (bind_list ks vs e).
Proof.
  induction ks as [|k ks IH]; intros [|v vs] e Hz He; simpl; try exact He.
  destruct Hz as [H1 H2]. apply IH; [exact H2|]. intros g Hg. unfold upd.
  destruct (Nat.eqb g k) eqn:E; [apply Nat.eqb_eq in E; subst; exact (H1 Hg)|exact (He g Hg)].
Qed.

Lemma gzip_zl ks : forall us (e : envT), gzip G ks us = true -> Ze e -> zl ks (map e us).
Proof.
  induction ks as [|k ks IH]; intros [|u us] e H He; simpl; auto.
  simpl in H. apply andb_true_iff in H. destruct H as [H1 H2]. split; [|exact (IH us e H2 He)].
  intros Hk. rewrite Hk in H1. simpl in H1. exact (He u H1).
Qed.

Lemma nonghost_notin ds g : forallb (fun d => negb (isg G d)) ds = true -> isg G g = true -> ~ In g ds.
Proof.
  intros H Hg Hin. rewrite forallb_forall in H. specialize (H g Hin). rewrite Hg in H. discriminate.
Qed.

Lemma gok_stmt_for iv lb ub sp its rs body ys :
  gok_stmt G (SFor iv lb ub sp its rs body ys) =
  negb (isg G iv) && gzip G (map it_arg its) (map it_init its) && gzip G (map it_arg its) ys
  && gzip G rs (map it_arg its) && gok_block G body.
Proof. reflexivity. Qed.

Lemma gok_stmt_if c rs th thy el ely :
  gok_stmt G (SIf c rs th thy el ely) =
  gzip G (map fst rs) thy && gzip G (map fst rs) ely && gok_block G th && gok_block G el.
Proof. reflexivity. Qed.

Lemma Zi_set m e : Ze e -> Zi (set_env m e).
Proof. intros H g Hg. exact (H g Hg). Qed.

(* one loop iteration keeps the invariant *)
Lemma Zi_for_step (eb : mstate -> mstate) iv bargs ys l s k mk :
  isg G iv = false -> gzip G bargs ys = true -> (forall m, Zi m -> Zi (eb m)) ->
  Zi mk -> Zi (for_step eb iv bargs ys l s k mk).
Proof.
  intros Hiv Hy Hb HZ. unfold for_step.
  set (m1 := set_env mk (upd (env mk) iv (l + Z.of_nat k * s))).
  assert (HZ1 : Zi m1).
  { intros g Hg. unfold m1. simpl. rewrite upd_other; [exact (HZ g Hg)|]. intros ->. congruence. }
  pose proof (Hb m1 HZ1) as HZ2. apply Zi_set. apply Ze_bind; [|exact HZ2]. apply gzip_zl; assumption.
Qed.

Lemma Zi_for (eb : mstate -> mstate) iv lb ub sp its rs ys m :
  isg G iv = false -> gzip G (map it_arg its) (map it_init its) = true -> gzip G (map it_arg its) ys = true ->
  gzip G rs (map it_arg its) = true -> (forall k, Zi k -> Zi (eb k)) -> Zi m ->
  (forall k, Zi (iter_n k (for_step eb iv (map it_arg its) ys (env m lb) (env m sp))
                  (set_env m (bind_list (map it_arg its) (map (fun x => env m (it_init x)) its) (env m)))))
  /\ Zi (exec_for eb iv lb ub sp its rs ys m).
Proof.
  intros Hiv Hi Hy Hr Hb HZ.
  assert (H0 : Zi (set_env m (bind_list (map it_arg its) (map (fun x => env m (it_init x)) its) (env m)))).
  { apply Zi_set. apply Ze_bind; [|exact HZ]. rewrite <- (map_map it_init (env m)). apply gzip_zl; assumption. }
  assert (Hl : forall k, Zi (iter_n k (for_step eb iv (map it_arg its) ys (env m lb) (env m sp))
                  (set_env m (bind_list (map it_arg its) (map (fun x => env m (it_init x)) its) (env m))))).
  { induction k as [|k IHk]; [exact H0|]. cbn [iter_n]. apply Zi_for_step; assumption. }
  split; [exact Hl|]. unfold exec_for. apply Zi_set. apply Ze_bind; [|apply Hl]. apply gzip_zl; [exact Hr|apply Hl].
Qed.

Lemma Zi_block : forall b, gok_block G b = true -> forall m, Zi m -> Zi (exec_block orc b m).
Proof.
  apply (block_ind2 (fun s => gok_stmt G s = true -> forall m, Zi m -> Zi (exec_stmt orc s m))
                    (fun b => gok_block G b = true -> forall m, Zi m -> Zi (exec_block orc b m))).
  - intros d e H m HZ g Hg. simpl in H. simpl. rewrite upd_other; [exact (HZ g Hg)|].
    intros ->. rewrite Hg in H. discriminate.
  - intros g0 ef pu ds ar H m HZ g Hg. simpl in H. simpl. rewrite call_results_other; [exact (HZ g Hg)|].
    exact (nonghost_notin ds g H Hg).
  - intros a o i fs _ m HZ. exact HZ.
  - intros a k st fs _ m HZ. exact HZ.
  - intros a k _ m HZ. exact HZ.
  - intros a st _ m HZ. exact HZ.
  - intros iv lb ub sp its rs body ys IH H m HZ. rewrite gok_stmt_for in H.
    repeat (apply andb_true_iff in H; destruct H as [H ?]). apply Bool.negb_true_iff in H.
    rewrite exec_stmt_for. apply Zi_for; try assumption. intros k Hk. apply IH; assumption.
  - intros c rs th thy el ely IHt IHe H m HZ. rewrite gok_stmt_if in H.
    repeat (apply andb_true_iff in H; destruct H as [H ?]).
    rewrite exec_stmt_if. unfold exec_if. destruct (env m c =? 0).
    + pose proof (IHe H0 m HZ) as Hz. apply Zi_set. apply Ze_bind; [|exact Hz]. apply gzip_zl; assumption.
    + pose proof (IHt H1 m HZ) as Hz. apply Zi_set. apply Ze_bind; [|exact Hz]. apply gzip_zl; assumption.
  - intros _ m HZ. exact HZ.
  - intros s b Hs Hb H m HZ. simpl in H. apply andb_true_iff in H. destruct H as [H1 H2].
    simpl. apply Hb; [exact H2|]. apply Hs; assumption.
Qed.

Lemma Zi_stmt s : gok_stmt G s = true -> forall m, Zi m -> Zi (exec_stmt orc s m).
Proof.
  intros H m HZ. change (exec_stmt orc s m) with (exec_block orc [s] m). apply Zi_block; [|exact HZ].
  simpl. rewrite H. reflexivity.
Qed.

Lemma Zi_init p args : gok_prog G p = true -> Zi (init_state orc p args).
Proof.
  unfold gok_prog. intros H. apply andb_true_iff in H. destruct H as [Hp _].
  intros g Hg. unfold init_state. simpl. rewrite bind_list_other; [reflexivity|].
  exact (nonghost_notin _ g Hp Hg).
Qed.

(* ---- renaming a never-bound ghost to any ghost --------------------------------------------------- *)
Section RenGhost.
Variables x y : val.
Hypothesis Gx : isg G x = true.
Hypothesis Gy : isg G y = true.

Lemma Zi_I m : Zi m -> I x y m.
Proof. intros HZ. unfold I. rewrite (HZ x Gx), (HZ y Gy). reflexivity. Qed.

Definition Pr (s : stmt) : Prop := ~ In x (stmt_binds s) -> gok_stmt G s = true -> forall m, Zi m ->
  exec_stmt orc (ren_stmt (rn x y) s) m = exec_stmt orc s m.
Definition Pq (b : block) : Prop := ~ In x (block_binds b) -> gok_block G b = true -> forall m, Zi m ->
  exec_block orc (ren_block (rn x y) b) m = exec_block orc b m.

Lemma ren_ghost_block : forall b, Pq b.
Proof.
  apply (block_ind2 Pr Pq).
  - intros d e Hx _ m HZ. cbn [ren_stmt exec_stmt].
    rewrite f_id by (intros E; apply Hx; left; congruence). rewrite eval_f by (apply Zi_I; exact HZ). reflexivity.
  - intros g ef pu ds ar Hx _ m HZ. cbn [ren_stmt exec_stmt stmt_binds] in *. unfold exec_call.
    rewrite map_f_id by exact Hx. rewrite map_read_f by (apply Zi_I; exact HZ). reflexivity.
  - intros a o i fs _ _ m HZ. cbn [ren_stmt exec_stmt]. unfold exec_setup.
    rewrite (write_fields_f x y m fs (Zi_I m HZ)). rewrite map_map. cbn [fst]. reflexivity.
  - intros a k st fs _ _ m HZ. cbn [ren_stmt exec_stmt].
    f_equal. f_equal. rewrite map_map. apply map_ext. intros fv. cbn [fst snd].
    rewrite (read_f x y m _ (Zi_I m HZ)). reflexivity.
  - intros a k _ _ m _. reflexivity.
  - intros a st _ _ m _. reflexivity.
  - intros iv lb ub sp its rs body ys IH Hx Hg m HZ. rewrite stmt_binds_for in Hx. rewrite gok_stmt_for in Hg.
    repeat (apply andb_true_iff in Hg; destruct Hg as [Hg ?]). apply Bool.negb_true_iff in Hg.
    assert (Hiv : iv <> x) by (intros E; apply Hx; left; congruence).
    assert (Hba : ~ In x (map it_arg its)) by (intros Hin; apply Hx; right; apply in_app_iff; left; exact Hin).
    assert (Hrs : ~ In x rs) by (intros Hin; apply Hx; right; apply in_app_iff; right; apply in_app_iff; left; exact Hin).
    assert (Hbd : ~ In x (block_binds body)) by (intros Hin; apply Hx; right; apply in_app_iff; right; apply in_app_iff; right; exact Hin).
    pose proof (Zi_I m HZ) as HI.
    rewrite ren_stmt_for, !exec_stmt_for. unfold exec_for.
    rewrite !(read_f x y m) by exact HI. rewrite (f_id x y iv Hiv).
    assert (Hbargs : map it_arg (map (fun it => (rn x y (it_arg it), rn x y (it_init it), it_ty it)) its) = map it_arg its).
    { transitivity (map (rn x y) (map it_arg its)); [rewrite !map_map; reflexivity|]. apply map_f_id. exact Hba. }
    rewrite Hbargs.
    assert (Hin : map (fun x0 => env m (it_init x0)) (map (fun it => (rn x y (it_arg it), rn x y (it_init it), it_ty it)) its)
                  = map (fun x0 => env m (it_init x0)) its).
    { rewrite map_map. apply map_ext. intros it. cbn [it_init fst snd]. apply read_f. exact HI. }
    rewrite Hin. rewrite (map_f_id x y rs Hrs).
    destruct (Zi_for (exec_block orc body) iv lb ub sp its rs ys m Hg H2 H1 H0
                (fun k Hk => Zi_block body H k Hk) HZ) as [HZl _].
    set (l := env m lb) in *. set (s := env m sp) in *.
    set (bargs := map it_arg its) in *.
    set (m0 := set_env m (bind_list bargs (map (fun x0 => env m (it_init x0)) its) (env m))) in *.
    assert (Hloop : forall k,
              iter_n k (for_step (exec_block orc (ren_block (rn x y) body)) iv bargs (map (rn x y) ys) l s) m0
              = iter_n k (for_step (exec_block orc body) iv bargs ys l s) m0).
    { induction k as [|k IHk]; [reflexivity|]. cbn [iter_n]. rewrite IHk.
      pose proof (HZl k) as HZk.
      set (mk := iter_n k (for_step (exec_block orc body) iv bargs ys l s) m0) in *.
      unfold for_step.
      set (m1 := set_env mk (upd (env mk) iv (l + Z.of_nat k * s))).
      assert (HZ1 : Zi m1).
      { intros g Hg'. unfold m1. simpl. rewrite upd_other; [exact (HZk g Hg')|]. intros ->. congruence. }
      rewrite (IH Hbd H m1 HZ1).
      rewrite (map_read_f x y _ ys (Zi_I _ (Zi_block body H m1 HZ1))). reflexivity. }
    rewrite Hloop. reflexivity.
  - intros c rs th thy el ely IHt IHe Hx Hg m HZ. rewrite stmt_binds_if in Hx. rewrite gok_stmt_if in Hg.
    repeat (apply andb_true_iff in Hg; destruct Hg as [Hg ?]).
    assert (Hrs : ~ In x (map fst rs)) by (intros Hin; apply Hx; apply in_app_iff; left; exact Hin).
    assert (Hth : ~ In x (block_binds th)) by (intros Hin; apply Hx; apply in_app_iff; right; apply in_app_iff; left; exact Hin).
    assert (Hel : ~ In x (block_binds el)) by (intros Hin; apply Hx; apply in_app_iff; right; apply in_app_iff; right; exact Hin).
    pose proof (Zi_I m HZ) as HI.
    rewrite ren_stmt_if, !exec_stmt_if. unfold exec_if. rewrite (read_f x y m c HI).
    assert (Hr : map fst (map (fun r : val * ty => (rn x y (fst r), snd r)) rs) = map fst rs).
    { transitivity (map (rn x y) (map fst rs)); [rewrite !map_map; reflexivity|]. apply map_f_id. exact Hrs. }
    rewrite Hr.
    destruct (env m c =? 0).
    + rewrite (IHe Hel H m HZ). rewrite (map_read_f x y _ ely (Zi_I _ (Zi_block el H m HZ))). reflexivity.
    + rewrite (IHt Hth H0 m HZ). rewrite (map_read_f x y _ thy (Zi_I _ (Zi_block th H0 m HZ))). reflexivity.
  - intros _ _ m _. reflexivity.
  - intros s b Hs Hb Hx Hg m HZ. unfold block_binds in Hx. cbn [flat_map] in Hx.
    simpl in Hg. apply andb_true_iff in Hg. destruct Hg as [Hg1 Hg2].
    cbn [ren_block map exec_block]. fold (ren_block (rn x y) b).
    rewrite (Hs (fun Hin => Hx (proj2 (in_app_iff _ _ _) (or_introl Hin))) Hg1 m HZ).
    apply Hb; [intros Hin; apply Hx; apply in_app_iff; right; exact Hin|exact Hg2|].
    apply Zi_stmt; assumption.
Qed.

Theorem ren_ghost_run p args :
  ~ In x (prog_binds p) -> gok_prog G p = true ->
  run orc (ren_prog (rn x y) p) args = run orc p args.
Proof.
  intros Hx Hg. unfold prog_binds in Hx.
  assert (Hpar : ~ In x (p_params p)) by (intros H; apply Hx; apply in_app_iff; left; exact H).
  assert (Hbody : ~ In x (block_binds (p_body p))) by (intros H; apply Hx; apply in_app_iff; right; exact H).
  pose proof (Zi_init p args Hg) as HZ0.
  unfold gok_prog in Hg. apply andb_true_iff in Hg. destruct Hg as [_ Hgb].
  unfold run, final_state. cbn [ren_prog p_body].
  assert (Hinit : init_state orc (ren_prog (rn x y) p) args = init_state orc p args).
  { unfold init_state. cbn [ren_prog p_params]. rewrite (map_f_id x y _ Hpar). reflexivity. }
  rewrite Hinit. rewrite (ren_ghost_block (p_body p) Hbody Hgb _ HZ0). reflexivity.
Qed.
End RenGhost.
End GhostInv.
