(* C02 — StridePattern.canonicalize is not modelled by hand here: the model GENERATED from
   snaxc/dialects/snax_stream.py (Gen/StrideCanon.v, translator/py2coq.py) and its C19 theorem
   (same temporal address sequence) are reused; this file bridges the two loop-nest semantics. *)
From Snax Require Import Base.Prelude Base.ListAux Model.PyLib.
From Snax Require Model.C19Stride Gen.StrideCanon Proofs.C19StrideProofs.
From Snax Require Import Model.C02Stream Model.C02GenCanon Proofs.C02StreamProofs Proofs.C02CanonProofs Proofs.C02XdmaProofs Proofs.C02NonnegProofs.

(* the two loop-nest semantics agree: C02 nests (stride, bound) pairs from offset 0, C19 (bound, stride) pairs *)
Lemma nest_bridge ub : forall ts, nest (combine ts ub) = C19Stride.nest (combine ub ts) [0].
Proof.
  induction ub as [|b ub IH]; intros [|s ts]; try reflexivity.
  cbn [combine nest C19Stride.nest]. rewrite <- IH. apply flat_map_ext. intros o. apply map_ext. intros i. lia.
Qed.

Theorem gen_canonicalize_words p q spats :
  Forall (fun b => 0 <= b) (sp_ub p) -> gen_canonicalize p = Some q ->
  pattern_words q spats = pattern_words p spats.
Proof.
  unfold gen_canonicalize. intros Hb H.
  destruct (StrideCanon.StridePattern_canonicalize (to19 p)) as [q'|] eqn:E; [|discriminate]. injection H as <-.
  destruct (C19StrideProofs.stride_canon_words (to19 p) q' Hb E) as [Hss Ht].
  unfold pattern_words, pattern_dims, of19. cbn [sp_ub sp_ts sp_ss]. rewrite !nest_app_shift.
  unfold C19Stride.taddrs in Ht. cbn [to19 C19Stride.sp_ub C19Stride.sp_ts C19Stride.sp_ss] in Ht, Hss.
  rewrite !nest_bridge, Ht, Hss. reflexivity.
Qed.

(* canonicalize never fails *)
Lemma gen_canonicalize_total p : exists q, gen_canonicalize p = Some q.
Proof.
  unfold gen_canonicalize. destruct (C19StrideProofs.stride_canon_total (to19 p)) as [q' E]. rewrite E. eauto.
Qed.

(* the pattern that reaches the streaming region streams exactly the scheduled elements' bytes *)
Theorem gen_final_pattern_bytes_eq elsize bcast spats dims p q :
  convert_okb elsize spats dims = true -> to_pattern bcast spats dims = Ok p -> gen_canonicalize p = Some q ->
  byte_stream TCDM (pattern_words q spats) = byte_stream elsize (nest dims).
Proof.
  intros Hok Hp Hq. rewrite (gen_canonicalize_words p q spats (to_pattern_nonneg _ _ _ _ _ Hok Hp) Hq).
  exact (pattern_bytes_eq elsize bcast spats dims p Hok Hp).
Qed.
