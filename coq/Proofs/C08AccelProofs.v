(* C08 — proofs about Model/C08Accels.v: xDMA, alu, phs, gemmx, hwpe field/value alignment. *)
From Snax Require Import Base.Prelude Base.ListAux Model.C08StreamerCfg Model.C08Accels
  Proofs.C08StreamerProofs.

(* ---- list helpers ---------------------------------------------------------------------------- *)
Lemma combine_fst {A B} (l1 : list A) : forall (l2 : list B),
  List.length l1 = List.length l2 -> map fst (combine l1 l2) = l1.
Proof.
  induction l1 as [|x xs IH]; intros [|y ys] H; simpl in *; try reflexivity; try discriminate.
  f_equal. apply IH. lia.
Qed.

Lemma omap_length {A B} (f : A -> option B) : forall l r, omap f l = Some r -> List.length r = List.length l.
Proof.
  induction l as [|x xs IH]; intros r H.
  - simpl in H; inversion H; reflexivity.
  - apply omap_cons in H as (a & b & _ & Hb & ->). simpl. f_equal. exact (IH _ Hb).
Qed.

Lemma map_fst_combine_seq {V W} (T : nat -> tag) (g : V -> W) : forall vs k,
  map fst (map (fun iv : nat * V => (T (fst iv), g (snd iv))) (combine (seq k (List.length vs)) vs))
  = map T (seq k (List.length vs)).
Proof. induction vs as [|v vs IH]; intros k; simpl; [reflexivity|]. f_equal. apply IH. Qed.

Lemma tagged_ext_tags s e vs :
  map fst (tagged_ext s e vs) = map (TExt s e) (seq 0 (List.length vs)).
Proof. unfold tagged_ext. apply (map_fst_combine_seq (TExt s e) VConst). Qed.

(* ======================= xDMA ============================================================== *)
Lemma ext_vals_tags elen b s e :
  ext_len_okb elen b e = true ->
  map fst (ext_vals elen b s e) = map tag_of_name (ext_fields elen s e).
Proof.
  unfold ext_len_okb, ext_vals, ext_fields. rewrite map_map. cbn [tag_of_name].
  destruct b as [|m].
  - intros H. apply Nat.eqb_eq in H. rewrite H. reflexivity.
  - destruct (lookup_ext e m) as [vs|].
    + intros H. apply Nat.eqb_eq in H. rewrite tagged_ext_tags, H. reflexivity.
    + intros _. rewrite tagged_ext_tags, repeat_length. reflexivity.
Qed.

Lemma flat_map_tags {A} (f : A -> list (tag * value)) (g : A -> list fname) l :
  (forall x, In x l -> map fst (f x) = map tag_of_name (g x)) ->
  map fst (flat_map f l) = map tag_of_name (flat_map g l).
Proof.
  induction l as [|x xs IH]; intros H; simpl; [reflexivity|].
  rewrite !map_app. f_equal; [apply H; left; reflexivity|apply IH; intros y Hy; apply H; right; exact Hy].
Qed.

Lemma xdma_vals_streamer_tags elen op b zl s st r :
  has is_chanmask st = true -> forallb (ext_len_okb elen b) (exts_of (opts st)) = true ->
  xdma_vals_streamer elen op b zl s st = Some r ->
  map fst r = map tag_of_name (xdma_fields_streamer elen s st).
Proof.
  intros Hc He. unfold xdma_vals_streamer, xdma_fields_streamer.
  destruct (nth_error (s_pats op) s) as [p|]; [|discriminate]. intros H.
  apply oapp_some in H as (x2 & y2 & H2 & H & ->).
  apply oapp_some in H as (x3 & y3 & H3 & H & ->).
  apply oapp_some in H as (x4 & y4 & H4 & H & ->). inversion H; subst y4; clear H.
  rewrite !map_app. rewrite (sstride_tags _ _ _ _ H2), (bound_tags _ _ _ _ H3), (tstride_tags _ _ _ _ H4).
  rewrite !map_map. cbn [tag_of_name]. rewrite Hc. cbn [when map fst].
  do 3 f_equal. cbn [app]. f_equal.
  assert (E : map fst (flat_map (ext_vals elen b s) (exts_of (opts st)))
              = map tag_of_name (flat_map (ext_fields elen s) (exts_of (opts st)))).
  { apply flat_map_tags. intros e He'. apply ext_vals_tags. rewrite forallb_forall in He. exact (He _ He'). }
  destruct (has is_bytemask st); cbn [when map fst app tag_of_name]; rewrite E; reflexivity.
Qed.

Theorem fields_vals_aligned_xdma :
  forall elen cfg op b l, (List.length cfg <= 26)%nat -> safe_xdmab elen cfg b = true ->
  xdma_vals elen cfg op b = Some l ->
  map fst l = map tag_of_name (xdma_fields elen cfg).
Proof.
  intros elen cfg op b l Hn Hs H. unfold xdma_vals in H. unfold xdma_fields. rewrite (named_small _ Hn).
  apply oapp_some in H as (x & y & Hx & Hy & ->). rewrite !map_app. f_equal.
  - revert Hx. apply oiflat_tags. intros i st a. destruct (nth_error (s_zero op) i); [|discriminate].
    intros E; inversion E; reflexivity.
  - unfold safe_xdmab in Hs. rewrite forallb_forall in Hs.
    assert (G : forall l0 k r, (forall st, In st l0 -> In st cfg) ->
                oiflat (xdma_vals_streamer elen op b (zlast_of cfg op)) k l0 = Some r ->
                map fst r = map tag_of_name (iflat (xdma_fields_streamer elen) k l0)).
    { induction l0 as [|st r0 IH]; intros k r Hin Hr.
      - simpl in Hr; inversion Hr; reflexivity.
      - apply oiflat_cons in Hr as (a & c & Ha & Hc & ->). simpl. rewrite !map_app. f_equal.
        + specialize (Hs st (Hin st (or_introl eq_refl))). apply andb_true_iff in Hs as [H1 H2].
          exact (xdma_vals_streamer_tags _ _ _ _ _ _ _ H1 H2 Ha).
        + apply IH; [|exact Hc]. intros st' Hst'. apply Hin. right. exact Hst'. }
    apply (G cfg 0%nat y); [auto|exact Hy].
Qed.

(* F7, first half: without HasChannelMask the field list has `enabled_chan` but no value exists. *)
Definition xdma_cfg_nomask : config :=
  [mkStreamer [FNormal] [8] []; mkStreamer [FNormal] [8] [OChanMask]].
Definition xdma_op2 : sop := mkSop [mkPat [4] [64] [8]; mkPat [4] [64] [8]] [false; false].
Lemma xdma_no_channel_mask_refuted :
  exists l, xdma_vals std_len xdma_cfg_nomask xdma_op2 (XGeneric []) = Some l /\
            List.length l <> List.length (xdma_fields std_len xdma_cfg_nomask).
Proof. eexists; split; [vm_compute; reflexivity|vm_compute; discriminate]. Qed.

(* F7, second half: a non-generic body yields ONE zero per extension, the fields csr_length names. *)
Definition xdma_cfg_rescale : config :=
  [mkStreamer [FNormal] [8] [OExt ERescaleDown; OChanMask]; mkStreamer [FNormal] [8] [OChanMask]].
Lemma xdma_nongeneric_body_refuted :
  exists l, xdma_vals std_len xdma_cfg_rescale xdma_op2 XOther = Some l /\
            List.length l <> List.length (xdma_fields std_len xdma_cfg_rescale).
Proof. eexists; split; [vm_compute; reflexivity|vm_compute; discriminate]. Qed.

(* F7, third part: the masks of every streamer follow the zero flag of the LAST operand. *)
Definition xdma_cfg_masks : config :=
  [mkStreamer [FNormal] [8] [OChanMask]; mkStreamer [FNormal] [8] [OChanMask]].
Definition xdma_op_lastzero : sop := mkSop [mkPat [4] [64] [8]; mkPat [4] [64] [8]] [false; true].
Lemma xdma_mask_of_last_operand_refuted :
  exists l, xdma_vals std_len xdma_cfg_masks xdma_op_lastzero (XGeneric []) = Some l /\
            In (TChanMask 0, VConst 0) l /\
            xdma_spec_value xdma_cfg_masks xdma_op_lastzero (XGeneric []) (TChanMask 0) = Some (VConst (-1)).
Proof. eexists; split; [vm_compute; reflexivity|split; [vm_compute; tauto|reflexivity]]. Qed.

Lemma nth_error_firstn_lt {A} : forall n (l : list A) i, (i < n)%nat -> nth_error (firstn n l) i = nth_error l i.
Proof.
  induction n as [|n IH]; intros l i Hi; [lia|]. destruct l as [|x xs]; [destruct i; reflexivity|].
  destruct i as [|i]; [reflexivity|]. simpl. apply IH. lia.
Qed.

(* values meet their meaning when the zero flags are uniform *)
Lemma zero_uniform_at cfg op s z :
  zero_uniformb cfg op = true -> (s < List.length cfg)%nat -> nth_error (s_zero op) s = Some z ->
  z = zlast_of cfg op.
Proof.
  unfold zero_uniformb. rewrite forallb_forall. intros H Hs Hz.
  apply eqb_prop. apply H. apply nth_error_In with (n := s).
  rewrite nth_error_firstn_lt; [exact Hz|exact Hs].
Qed.

Lemma in_combine_seq {V} : forall (vs : list V) k i v,
  In (i, v) (combine (seq k (List.length vs)) vs) -> nth_error vs (i - k) = Some v /\ (k <= i)%nat.
Proof.
  induction vs as [|x xs IH]; intros k i v Hin; simpl in Hin; [tauto|].
  destruct Hin as [E|Hin].
  - inversion E; subst. rewrite Nat.sub_diag. split; [reflexivity|lia].
  - apply IH in Hin as [Hn Hk]. split; [|lia]. replace (i - k)%nat with (S (i - S k)) by lia. exact Hn.
Qed.

Lemma tagged_ext_meets cfg op b s e vs :
  (forall i, (i < List.length vs)%nat ->
     xdma_spec_value cfg op b (TExt s e i) = Some (VConst (nth i vs 0))) ->
  Forall (fun tv => xdma_spec_value cfg op b (fst tv) = Some (snd tv)) (tagged_ext s e vs).
Proof.
  intros H. unfold tagged_ext. rewrite Forall_map. rewrite Forall_forall. intros [i v] Hin. cbn [fst snd].
  pose proof (in_combine_l _ _ _ _ Hin) as Hi. apply in_seq in Hi.
  apply in_combine_seq in Hin as [E _]. rewrite Nat.sub_0_r in E.
  rewrite H by lia. rewrite (nth_error_nth_eq _ _ _ 0 E). reflexivity.
Qed.

Theorem vals_meet_spec_xdma :
  forall elen cfg op b l, zero_uniformb cfg op = true -> xdma_vals elen cfg op b = Some l ->
  Forall (fun tv => xdma_spec_value cfg op b (fst tv) = Some (snd tv)) l.
Proof.
  intros elen cfg op b l Hu H. unfold xdma_vals in H.
  apply oapp_some in H as (x & y & Hx & Hy & ->). apply Forall_app; split.
  - revert Hx. apply oiflat_Forall. intros i st a _ Hst. rewrite Nat.sub_0_r in Hst.
    destruct (nth_error (s_zero op) i) as [z|] eqn:Hz; [|discriminate]. intros E; inversion E; subst a.
    unfold ptr_vals. repeat constructor; cbn [fst snd xdma_spec_value spec_value];
      rewrite ?(nth_error_nth_eq _ _ _ false Hz); reflexivity.
  - revert Hy. apply oiflat_Forall. intros s st a _ Hst. rewrite Nat.sub_0_r in Hst.
    unfold xdma_vals_streamer. destruct (nth_error (s_pats op) s) as [p|] eqn:Hp; [|discriminate]. intros H.
    apply oapp_some in H as (x2 & y2 & H2 & H & ->).
    apply oapp_some in H as (x3 & y3 & H3 & H & ->).
    apply oapp_some in H as (x4 & y4 & H4 & H & ->). inversion H; subst y4; clear H.
    pose proof (nth_error_nth_eq _ _ _ (mkPat [] [] []) Hp) as Ep.
    pose proof (nth_error_nth_eq _ _ _ (mkStreamer [] [] []) Hst) as Es.
    assert (Hlt : (s < List.length cfg)%nat) by (apply nth_error_Some; congruence).
    assert (Ez : nth s (s_zero op) false = zlast_of cfg op \/ nth_error (s_zero op) s = None).
    { destruct (nth_error (s_zero op) s) as [z|] eqn:Hz; [left|right; reflexivity].
      rewrite (nth_error_nth_eq _ _ _ false Hz). exact (zero_uniform_at _ _ _ _ Hu Hlt Hz). }
    assert (Ez' : nth s (s_zero op) false = zlast_of cfg op).
    { destruct Ez as [E|E]; [exact E|]. unfold zlast_of.
      apply nth_error_None in E. rewrite !nth_overflow; [reflexivity| |exact E].
      (* zlast index >= s is also out of range *) lia. }
    repeat (apply Forall_app; split).
    + unfold sstride_vals in H2. revert H2. apply omap_Forall. intros i a.
      destruct (nth_error (p_ss p) i) as [v|] eqn:Hv; [|discriminate]. intros E; inversion E; subst a.
      cbn [fst snd xdma_spec_value spec_value]. rewrite Ep. unfold nthZ. rewrite (nth_error_nth_eq _ _ _ 0 Hv). reflexivity.
    + unfold bound_vals in H3. revert H3. apply oiflat_Forall. intros i f a _ Hf. rewrite Nat.sub_0_r in Hf.
      destruct (nth_error (pad (p_ub p) 1 _) i) as [bb|] eqn:Hb; [|discriminate].
      destruct (nth_error (pad (p_ts p) 0 _) i) as [t|] eqn:Ht; [|discriminate].
      intros E; inversion E; subst a. repeat constructor.
      cbn [fst snd xdma_spec_value spec_value]. rewrite Ep, Es. unfold flag_at, nthZ.
      rewrite (nth_error_nth_eq _ _ _ FNormal Hf), <- (nth_error_pad _ _ _ _ _ Hb), <- (nth_error_pad _ _ _ _ _ Ht).
      reflexivity.
    + unfold tstride_vals in H4. revert H4. apply oiflat_Forall. intros i f a _ Hf.
      destruct (nth_error (pad (p_ts p) 0 _) i) as [t|] eqn:Ht; [|discriminate].
      destruct (_ && _); [discriminate|]. intros E; inversion E; subst a. repeat constructor.
      cbn [fst snd xdma_spec_value spec_value]. rewrite Ep. unfold nthZ.
      rewrite <- (nth_error_pad _ _ _ _ _ Ht). reflexivity.
    + destruct (has is_chanmask st); cbn [when]; repeat constructor.
      cbn [fst snd xdma_spec_value]. rewrite Ez'. reflexivity.
    + destruct (has is_bytemask st); cbn [when]; repeat constructor.
      cbn [fst snd xdma_spec_value]. rewrite Ez'. reflexivity.
    + cbn [app]. constructor; [cbn [fst snd xdma_spec_value]; rewrite Es; reflexivity|].
      rewrite Forall_forall. intros tv Hin. apply in_flat_map in Hin as (e & _ & Hin).
      revert tv Hin. rewrite <- Forall_forall. unfold ext_vals. destruct b as [|m].
      * repeat constructor.
      * destruct (lookup_ext e m) as [vs|] eqn:El; apply tagged_ext_meets; intros i Hi;
          cbn [xdma_spec_value]; rewrite El; [reflexivity|].
        f_equal. f_equal. symmetry. apply nth_repeat.
Qed.

(* ======================= alu / phs ========================================================= *)
Theorem fields_vals_aligned_alu :
  forall cfg op l, (List.length cfg <= 26)%nat -> alu_vals cfg op = Some l ->
  map fst l = map tag_of_name (alu_fields cfg).
Proof.
  intros cfg op l Hn H. unfold alu_vals in H. destruct (first_bound op); [|discriminate].
  apply oapp_some in H as (x & y & Hx & Hy & ->). inversion Hy; subst y.
  unfold alu_fields. rewrite !map_app. f_equal. exact (fields_vals_aligned_regular _ _ _ Hn Hx).
Qed.

Theorem fields_vals_aligned_phs :
  forall cfg op sw l, (List.length cfg <= 26)%nat -> phs_vals cfg op sw = Some l ->
  map fst l = map tag_of_name (phs_fields cfg (List.length sw)).
Proof.
  intros cfg op sw l Hn H. unfold phs_vals in H. destruct (first_bound op); [|discriminate].
  apply oapp_some in H as (x & y & Hx & Hy & ->). inversion Hy; subst y.
  unfold phs_fields. rewrite !map_app. f_equal; [exact (fields_vals_aligned_regular _ _ _ Hn Hx)|].
  f_equal. rewrite (map_fst_combine_seq (fun i => TKern (PhsSwitch i)) VConst). rewrite map_map. reflexivity.
Qed.

(* ======================= hwpe (F9) ========================================================== *)
Lemma hwpe_names_values_swapped :
  map fst hwpe_vals <> map tag_of_name hwpe_fields /\
  nth 3 (map tag_of_name hwpe_fields) (TKern HwA) = TKern HwVectorLength /\
  nth 3 hwpe_vals (TKern HwA, HOne) = (TKern HwNrIters, HOne) /\
  nth 4 (map tag_of_name hwpe_fields) (TKern HwA) = TKern HwNrIters /\
  nth 4 hwpe_vals (TKern HwA, HOne) = (TKern HwVectorLength, HDim0).
Proof. repeat split; try reflexivity. vm_compute. discriminate. Qed.

(* ======================= gemmx =============================================================== *)
Lemma tag_seq_fst mk (vs : list gval) :
  map fst (tag_seq mk vs) = map (fun i => TKern (mk i)) (seq 0 (List.length vs)).
Proof. unfold tag_seq. apply (map_fst_combine_seq (fun i => TKern (mk i)) (fun v : gval => v)). Qed.

Lemma finish_tags n k nn m subtr c0 c1 (shifts mults : list gval) lb byp :
  List.length shifts = Z.to_nat (cdiv4 n) -> List.length mults = Z.to_nat n ->
  map fst ([(TKern GK, GC k); (TKern GN, GC nn); (TKern GM, GC m);
            (TKern GSubtractions, subtr); (TKern GCsr0, c0); (TKern GCsr1, c1)]
           ++ tag_seq GShift shifts ++ tag_seq GMult mults
           ++ [(TKern GTemporalLoopBound, lb); (TKern GBypassSIMD, byp)])
  = map tag_of_name (gemmx_kernel_fields n).
Proof.
  intros Hs Hm. unfold gemmx_kernel_fields. rewrite !map_app, !tag_seq_fst, Hs, Hm, !map_map. reflexivity.
Qed.

Lemma firstn_length_le' {A} (l : list A) n : (n <= List.length l)%nat -> List.length (firstn n l) = n.
Proof. intros H. rewrite firstn_length. lia. Qed.

Lemma chunks4_length_ge : forall f (l : list Z), (List.length l <= f)%nat ->
  (Z.to_nat ((Z.of_nat (List.length l) + 3) / 4) <= List.length (chunks4 f l))%nat.
Proof.
  induction f as [|f IH]; intros l Hl.
  - destruct l; [simpl; lia|simpl in Hl; lia].
  - destruct l as [|a l]; [simpl; lia|]. cbn [chunks4].
    specialize (IH (skipn 4 (a :: l))). rewrite skipn_length in IH.
    remember (List.length (a :: l)) as L. assert (1 <= L)%nat by (subst L; simpl; lia).
    specialize (IH ltac:(lia)). cbn [List.length]. lia.
Qed.

Theorem gemmx_kernel_vals_aligned :
  forall n op gb l, 0 <= n -> gbody_okb n gb = true -> gemmx_kernel_vals n op gb = Some l ->
  map fst l = map tag_of_name (gemmx_kernel_fields n).
Proof.
  intros n op gb l Hn Hok H. unfold gemmx_kernel_vals in H. destruct gb as [qmac i8 resc|r|]; [| |discriminate].
  - destruct (if i8 then _ else _) as [lp|]; [|discriminate].
    destruct (nth_error (s_pats op) 0) as [p0|]; [|discriminate].
    destruct (_ =? 0); [discriminate|].
    destruct i8.
    + match type of H with context [omap pack_shift_chunk ?c] => destruct (omap pack_shift_chunk c) as [sv|] eqn:Eo end; [|discriminate].
      inversion H; subst l; clear H. apply omap_length in Eo.
      apply finish_tags.
      * apply firstn_length_le'. rewrite Eo. destruct resc as [r|]; cbn [gbody_okb] in Hok.
        -- unfold resc_okb in Hok. apply andb_true_iff in Hok as [H1 _]. apply Nat.leb_le in H1. cbn [r_shift]. exact H1.
        -- cbn [r_shift]. rewrite repeat_length.
           pose proof (chunks4_length_ge (Z.to_nat n) (repeat 9 (Z.to_nat n))) as G.
           rewrite repeat_length in G. specialize (G (le_n _)). unfold cdiv4.
           rewrite Z2Nat.id in G by lia. exact G.
      * apply firstn_length_le'. rewrite map_length. destruct resc as [r|]; cbn [gbody_okb] in Hok.
        -- unfold resc_okb in Hok. apply andb_true_iff in Hok as [_ H2]. apply Nat.leb_le in H2. cbn [r_mult]. exact H2.
        -- cbn [r_mult]. rewrite repeat_length. lia.
    + inversion H; subst l; clear H. apply finish_tags; apply repeat_length.
  - destruct (nth_error (s_pats op) 0) as [p0|]; [|discriminate].
    destruct (nth_error (r_shift r) 0) as [sh|]; [|discriminate].
    destruct (nth_error (r_mult r) 0) as [mu|]; [|discriminate].
    inversion H; subst l; clear H. apply finish_tags; apply repeat_length.
Qed.

Theorem fields_vals_aligned_gemmx :
  forall cfg n op gb l, (List.length cfg <= 26)%nat -> 0 <= n -> gbody_okb n gb = true ->
  gemmx_vals cfg n op gb = Some l ->
  map fst l = map tag_of_name (gemmx_fields cfg n).
Proof.
  intros cfg n op gb l Hc Hn Hok H. unfold gemmx_vals in H.
  apply oapp_some in H as (x & y & Hx & Hy & ->).
  destruct (setup_vals cfg op) as [sv|] eqn:Es; [|discriminate]. inversion Hx; subst x; clear Hx.
  unfold gemmx_fields. rewrite !map_app. f_equal.
  - rewrite map_map. cbn [fst]. exact (fields_vals_aligned_regular _ _ _ Hc Es).
  - exact (gemmx_kernel_vals_aligned _ _ _ _ Hn Hok Hy).
Qed.

(* F8 as it was before the repair: ceil(n/4) multiplier values for n multiplier fields. *)
Lemma gemmx_rescale_only_old_count_refuted :
  Z.to_nat (cdiv4 8) <> Z.to_nat 8.
Proof. vm_compute. discriminate. Qed.
