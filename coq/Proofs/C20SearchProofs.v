(* C20 — proofs, part 3: a kernel graph that is embedded in a well-formed abstract graph is decodable:
   a valid mux assignment exists (every operand tree can be routed to any of its leaves, trees have disjoint
   switches) and the backtracking search_mapping finds one. *)
From Snax Require Import Base.Prelude Model.C20Phs Proofs.C20PhsProofs Proofs.C20DecodeProofs.

(* ---------------------------------------------------------------- embedding *)
Definition arg_emb (o s : src) : Prop := exists l, src_leaf o = Some l /\ In l (leaves s).
Definition node_emb (G : pe) (c : node) : Prop :=
  exists a, find_node (pnodes G) (nid c) = Some a /\ Forall2 arg_emb (nargs c) (nargs a) /\
            (forall k, In k (nops c) -> exists k', find_op k (nops a) = Some k').
(* every choose op of g exists in G with the same id, each of its operands is one of the sources the
   corresponding operand of G can select, its operations are among the alternatives (by name) *)
Definition embeds (g G : pe) : Prop :=
  Forall (node_emb G) (pnodes g) /\ Forall2 arg_emb (pout g) (pout G).

(* ---------------------------------------------------------------- follow *)
Lemma follow_in_leaves mu s : In (follow mu s) (leaves s).
Proof.
  induction s as [i|id|sw l IHl r IHr]; cbn [follow leaves]; try (left; reflexivity).
  apply in_or_app. destruct (mu sw =? 1); [right|left]; assumption.
Qed.

Lemma follow_ext mu mu' s : (forall m, In m (src_muxes s) -> mu m = mu' m) -> follow mu s = follow mu' s.
Proof.
  induction s as [i|id|sw l IHl r IHr]; intros H; cbn [follow src_muxes] in *; try reflexivity.
  rewrite (H sw) by (left; reflexivity).
  destruct (mu' sw =? 1); [apply IHr|apply IHl]; intros m Hm; apply H; right; apply in_or_app; auto.
Qed.

Lemma valid_args_ext mu mu' os as_ : (forall m, mu m = mu' m) -> valid_args mu os as_ = valid_args mu' os as_.
Proof.
  intros H. revert as_. induction os as [|o os IH]; intros [|a as_]; cbn [valid_args]; try reflexivity.
  rewrite (follow_ext mu mu' a) by (intros; apply H). rewrite IH. reflexivity.
Qed.

Lemma valid_nodes_ext mu mu' Gn cs : (forall m, mu m = mu' m) -> valid_nodes mu Gn cs = valid_nodes mu' Gn cs.
Proof.
  intros H. induction cs as [|c cs IH]; cbn [valid_nodes]; [reflexivity|].
  destruct (find_node Gn (nid c)); [|reflexivity].
  rewrite (valid_args_ext mu mu') by exact H. rewrite IH. reflexivity.
Qed.

Lemma valid_mapping_ext g G mu mu' : (forall m, mu m = mu' m) -> valid_mapping g G mu = valid_mapping g G mu'.
Proof.
  intros H. unfold valid_mapping. rewrite (valid_nodes_ext mu mu') by exact H.
  rewrite (valid_args_ext mu mu') by exact H. reflexivity.
Qed.

(* ---------------------------------------------------------------- routing one tree, then all trees *)
Definition bit (mu : nat -> Z) : Prop := forall m, mu m = 0 \/ mu m = 1.

Lemma upd_same mu m v : upd mu m v m = v.
Proof. unfold upd. rewrite Nat.eqb_refl. reflexivity. Qed.
Lemma upd_other mu m v x : x <> m -> upd mu m v x = mu x.
Proof. unfold upd. intros H. apply Nat.eqb_neq in H. rewrite H. reflexivity. Qed.

Lemma nodup_app_r {A} (l1 l2 : list A) : NoDup (l1 ++ l2) -> NoDup l2.
Proof. induction l1 as [|x xs IH]; cbn [app]; intros H; [exact H|]. inversion H; subst. apply IH. assumption. Qed.

Lemma nodup_app_l {A} (l1 l2 : list A) : NoDup (l1 ++ l2) -> NoDup l1.
Proof.
  induction l1 as [|x xs IH]; cbn [app]; intros H; [constructor|]. inversion H as [|? ? Hx Hr]; subst.
  constructor; [intros Hin; apply Hx; apply in_or_app; left; exact Hin|apply IH; exact Hr].
Qed.

Lemma route_tree s l :
  In l (leaves s) -> NoDup (src_muxes s) ->
  exists mu, bit mu /\ (forall m, ~ In m (src_muxes s) -> mu m = 0) /\ follow mu s = l.
Proof.
  induction s as [i|id|sw a IHa b IHb]; cbn [leaves src_muxes follow]; intros Hin Hnd.
  - destruct Hin as [<-|[]]. exists (fun _ => 0). repeat split; auto. intros m; auto.
  - destruct Hin as [<-|[]]. exists (fun _ => 0). repeat split; auto. intros m; auto.
  - inversion Hnd as [|? ? Hsw Hnd']; subst.
    pose proof (nodup_app_r _ _ Hnd') as Hndb. pose proof (nodup_app_l _ _ Hnd') as Hnda.
    apply in_app_or in Hin as [Hin|Hin].
    + destruct (IHa Hin Hnda) as (mu & Hb & H0 & Hf).
      exists (upd mu sw 0). split; [|split].
      * intros m. destruct (Nat.eq_dec m sw) as [->|Hne]; [rewrite upd_same; auto|rewrite upd_other by exact Hne; apply Hb].
      * intros m Hm. rewrite upd_other by (intros ->; apply Hm; left; reflexivity).
        apply H0. intros Hc. apply Hm. right. apply in_or_app. left. exact Hc.
      * rewrite upd_same. cbn. rewrite <- Hf. apply follow_ext. intros m Hm.
        apply upd_other. intros ->. apply Hsw. apply in_or_app. left. exact Hm.
    + destruct (IHb Hin Hndb) as (mu & Hb & H0 & Hf).
      exists (upd mu sw 1). split; [|split].
      * intros m. destruct (Nat.eq_dec m sw) as [->|Hne]; [rewrite upd_same; auto|rewrite upd_other by exact Hne; apply Hb].
      * intros m Hm. rewrite upd_other by (intros ->; apply Hm; left; reflexivity).
        apply H0. intros Hc. apply Hm. right. apply in_or_app. right. exact Hc.
      * rewrite upd_same. cbn. rewrite <- Hf. apply follow_ext. intros m Hm.
        apply upd_other. intros ->. apply Hsw. apply in_or_app. right. exact Hm.
Qed.

Definition ps_muxes (ps : list (src * leaf)) : list nat := flat_map (fun p => src_muxes (fst p)) ps.

Lemma route_all ps :
  (forall s l, In (s, l) ps -> In l (leaves s)) -> NoDup (ps_muxes ps) ->
  exists mu, bit mu /\ (forall m, ~ In m (ps_muxes ps) -> mu m = 0) /\
             forall s l, In (s, l) ps -> follow mu s = l.
Proof.
  induction ps as [|[s l] ps IH]; intros Hin Hnd.
  - exists (fun _ => 0). repeat split; auto. intros m; auto. intros s l [].
  - unfold ps_muxes in Hnd. cbn [flat_map fst] in Hnd.
    pose proof (nodup_app_r _ _ Hnd) as Hnd2. pose proof (nodup_app_l _ _ Hnd) as Hnd1.
    destruct (IH (fun s' l' H => Hin s' l' (or_intror H)) Hnd2) as (mu & Hb & H0 & Hf).
    destruct (route_tree s l (Hin s l (or_introl eq_refl)) Hnd1) as (ms & Hbs & H0s & Hfs).
    exists (fun m => if in_dec Nat.eq_dec m (src_muxes s) then ms m else mu m).
    split; [|split].
    + intros m. destruct (in_dec Nat.eq_dec m (src_muxes s)); [apply Hbs|apply Hb].
    + intros m Hm. unfold ps_muxes in Hm. cbn [flat_map fst] in Hm.
      destruct (in_dec Nat.eq_dec m (src_muxes s)) as [i|n]; [exfalso; apply Hm; apply in_or_app; left; exact i|].
      apply H0. intros Hc. apply Hm. apply in_or_app. right. exact Hc.
    + intros s' l' [E|Hin'].
      * injection E as <- <-. rewrite <- Hfs. apply follow_ext. intros m Hm.
        destruct (in_dec Nat.eq_dec m (src_muxes s)); [reflexivity|contradiction].
      * rewrite <- (Hf s' l' Hin'). apply follow_ext. intros m Hm.
        destruct (in_dec Nat.eq_dec m (src_muxes s)) as [i|n]; [|reflexivity].
        exfalso. (* m in both trees contradicts NoDup *)
        assert (In m (ps_muxes ps)) as Hps.
        { unfold ps_muxes. apply in_flat_map. exists (s', l'). split; [exact Hin'|exact Hm]. }
        clear - Hnd i Hps. induction (src_muxes s) as [|x xs IHx]; [contradiction|].
        cbn [app] in Hnd. inversion Hnd as [|? ? Hx Hr]; subst.
        destruct i as [->|i]; [apply Hx; apply in_or_app; right; exact Hps|apply IHx; assumption].
Qed.

(* ---------------------------------------------------------------- the targets of a kernel in G *)
Definition leaf_of (o : src) : leaf := match src_leaf o with Some l => l | None => LArg 0 end.
Definition follow0 (s : src) : leaf := follow (fun _ => 0) s.

Fixpoint zip_def (as_ : list src) (ls : list leaf) : list (src * leaf) :=
  match as_, ls with
  | s :: r, l :: r' => (s, l) :: zip_def r r'
  | s :: r, [] => (s, follow0 s) :: zip_def r []
  | [], _ => []
  end.

Lemma zip_def_fst as_ ls : map fst (zip_def as_ ls) = as_.
Proof. revert ls. induction as_ as [|s r IH]; intros [|l r']; cbn [zip_def map fst]; try rewrite IH; reflexivity. Qed.

Definition node_targets (g : pe) (a : node) : list (src * leaf) :=
  match find_node (pnodes g) (nid a) with
  | Some c => zip_def (nargs a) (map leaf_of (nargs c))
  | None => zip_def (nargs a) []
  end.

Definition targets (g G : pe) : list (src * leaf) :=
  flat_map (node_targets g) (pnodes G) ++ zip_def (pout G) (map leaf_of (pout g)).

Lemma flat_map_map_fst {A} (f : A -> list (src * leaf)) (h : A -> list src) l :
  (forall x, map fst (f x) = h x) -> map fst (flat_map f l) = flat_map h l.
Proof. intros H. induction l as [|x xs IH]; cbn [flat_map map]; [reflexivity|]. rewrite map_app, H, IH. reflexivity. Qed.

Lemma targets_fst g G : map fst (targets g G) = all_srcs G.
Proof.
  unfold targets, all_srcs. rewrite map_app, zip_def_fst. f_equal.
  apply flat_map_map_fst. intros a. unfold node_targets.
  destruct (find_node (pnodes g) (nid a)); apply zip_def_fst.
Qed.

Lemma ps_muxes_fst ps : ps_muxes ps = flat_map src_muxes (map fst ps).
Proof. unfold ps_muxes. induction ps as [|p ps IH]; cbn [flat_map map]; [reflexivity|]. rewrite IH. reflexivity. Qed.

Lemma targets_muxes g G : ps_muxes (targets g G) = all_muxes G.
Proof. rewrite ps_muxes_fst, targets_fst. reflexivity. Qed.

Lemma zip_def_nil_in as_ s l : In (s, l) (zip_def as_ []) -> In l (leaves s).
Proof.
  induction as_ as [|x r IH]; cbn [zip_def]; [intros []|].
  intros [E|H]; [inversion E; subst; apply follow_in_leaves|apply IH; exact H].
Qed.

Lemma zip_def_emb_in os as_ s l :
  Forall2 arg_emb os as_ -> In (s, l) (zip_def as_ (map leaf_of os)) -> In l (leaves s).
Proof.
  induction 1 as [|o a os as_ Hoa _ IH]; cbn [zip_def map]; [intros []|].
  intros [E|H]; [|apply IH; exact H]. inversion E; subst.
  destruct Hoa as (l0 & Hl & Hin). unfold leaf_of. rewrite Hl. exact Hin.
Qed.

Lemma valid_args_of_targets mu os as_ :
  Forall2 arg_emb os as_ ->
  (forall s l, In (s, l) (zip_def as_ (map leaf_of os)) -> follow mu s = l) ->
  valid_args mu os as_ = Some true.
Proof.
  induction 1 as [|o a os as_ Hoa _ IH]; intros Hf; cbn [valid_args]; [reflexivity|].
  destruct Hoa as (l0 & Hl & Hin). rewrite Hl.
  cbn [zip_def map] in Hf.
  rewrite (Hf a (leaf_of o) (or_introl eq_refl)). unfold leaf_of. rewrite Hl.
  assert (leaf_eqb l0 l0 = true) as -> by (apply leaf_eqb_eq; reflexivity).
  apply IH. intros s l H. apply Hf. right. exact H.
Qed.

Lemma valid_args_not_none mu os as_ : Forall2 arg_emb os as_ -> valid_args mu os as_ <> None.
Proof.
  induction 1 as [|o a os as_ Hoa _ IH]; cbn [valid_args]; [discriminate|].
  destruct Hoa as (l0 & Hl & _). rewrite Hl. destruct (leaf_eqb l0 (follow mu a)); [exact IH|discriminate].
Qed.

Section Embedded.
  Variables g G : pe.
  Hypothesis Hemb : embeds g G.
  Hypothesis HndG : NoDup (map nid (pnodes G)).
  Hypothesis Hndg : NoDup (map nid (pnodes g)).

  Lemma emb_node c : In c (pnodes g) -> node_emb G c.
  Proof. destruct Hemb as [H _]. rewrite Forall_forall in H. apply H. Qed.

  (* a node of G whose id occurs in g is the image of that node of g *)
  Lemma node_back a c :
    In a (pnodes G) -> find_node (pnodes g) (nid a) = Some c ->
    In c (pnodes g) /\ find_node (pnodes G) (nid c) = Some a.
  Proof.
    intros Ha Hc. destruct (find_node_some _ _ _ Hc) as [Hcin Hid]. split; [exact Hcin|].
    rewrite Hid. apply find_node_nodup; assumption.
  Qed.

  Lemma targets_in_leaves s l : In (s, l) (targets g G) -> In l (leaves s).
  Proof.
    unfold targets. intros H. apply in_app_or in H as [H|H].
    - apply in_flat_map in H as (a & Ha & H). unfold node_targets in H.
      destruct (find_node (pnodes g) (nid a)) as [c|] eqn:Ec; [|eapply zip_def_nil_in; exact H].
      destruct (node_back a c Ha Ec) as [Hcin Hfa].
      destruct (emb_node c Hcin) as (a' & Ha' & HF & _). rewrite Hfa in Ha'. inversion Ha'; subst a'.
      eapply zip_def_emb_in; eauto.
    - destruct Hemb as [_ Ho]. eapply zip_def_emb_in; eauto.
  Qed.

  Lemma valid_of_targets mu :
    (forall s l, In (s, l) (targets g G) -> follow mu s = l) -> valid_mapping g G mu = Some true.
  Proof.
    intros Hf. unfold valid_mapping.
    assert (valid_nodes mu (pnodes G) (pnodes g) = Some true) as ->.
    { assert (forall cs, incl cs (pnodes g) -> valid_nodes mu (pnodes G) cs = Some true) as Hcs.
      { induction cs as [|c cs IH]; intros Hincl; cbn [valid_nodes]; [reflexivity|].
        assert (In c (pnodes g)) as Hc by (apply Hincl; left; reflexivity).
        destruct (emb_node c Hc) as (a & Ha & HF & _). rewrite Ha.
        destruct (find_node_some _ _ _ Ha) as [HaG Hida].
        rewrite (valid_args_of_targets mu (nargs c) (nargs a) HF).
        - apply IH. intros x Hx. apply Hincl. right. exact Hx.
        - intros s l H. apply Hf. unfold targets. apply in_or_app. left.
          apply in_flat_map. exists a. split; [exact HaG|]. unfold node_targets.
          rewrite Hida. rewrite (find_node_nodup _ c Hndg Hc). exact H. }
      apply Hcs. apply incl_refl. }
    destruct Hemb as [_ Ho]. apply (valid_args_of_targets mu _ _ Ho).
    intros s l H. apply Hf. unfold targets. apply in_or_app. right. exact H.
  Qed.

  Lemma valid_not_none mu : valid_mapping g G mu <> None.
  Proof.
    unfold valid_mapping.
    assert (forall cs, incl cs (pnodes g) -> valid_nodes mu (pnodes G) cs <> None) as Hcs.
    { induction cs as [|c cs IH]; intros Hincl; cbn [valid_nodes]; [discriminate|].
      assert (In c (pnodes g)) as Hc by (apply Hincl; left; reflexivity).
      destruct (emb_node c Hc) as (a & Ha & HF & _). rewrite Ha.
      pose proof (valid_args_not_none mu _ _ HF) as Hn.
      destruct (valid_args mu (nargs c) (nargs a)) as [[|]|]; [|discriminate|contradiction].
      apply IH. intros x Hx. apply Hincl. right. exact Hx. }
    specialize (Hcs (pnodes g) (incl_refl _)).
    destruct (valid_nodes mu (pnodes G) (pnodes g)) as [[|]|]; [|discriminate|contradiction].
    destruct Hemb as [_ Ho]. apply valid_args_not_none. exact Ho.
  Qed.

  (* a valid assignment exists: 0/1-valued, 0 outside the mux switches of G *)
  Lemma valid_exists :
    NoDup (all_muxes G) ->
    exists nu, bit nu /\ (forall m, ~ In m (all_muxes G) -> nu m = 0) /\ valid_mapping g G nu = Some true.
  Proof.
    intros Hnd.
    destruct (route_all (targets g G)) as (nu & Hb & H0 & Hf).
    - intros s l. apply targets_in_leaves.
    - rewrite targets_muxes. exact Hnd.
    - exists nu. split; [exact Hb|]. split; [rewrite <- (targets_muxes g G); exact H0|].
      apply valid_of_targets. exact Hf.
  Qed.

  (* search_mapping never raises and is complete *)
  Lemma search_not_none ms : forall mu0, search g G ms mu0 <> None.
  Proof.
    induction ms as [|m ms IH]; intros mu0; cbn [search].
    - pose proof (valid_not_none mu0). destruct (valid_mapping g G mu0) as [[|]|]; congruence.
    - pose proof (IH (upd mu0 m 0)). destruct (search g G ms (upd mu0 m 0)) as [[r|]|]; try congruence. apply IH.
  Qed.

  Lemma search_complete ms : forall mu0 nu,
    bit nu -> (forall m, ~ In m ms -> nu m = mu0 m) -> valid_mapping g G nu = Some true ->
    exists mu, search g G ms mu0 = Some (Some mu).
  Proof.
    induction ms as [|m ms IH]; intros mu0 nu Hb Hout Hv; cbn [search].
    - rewrite (valid_mapping_ext g G mu0 nu) by (intros x; symmetry; apply Hout; intros []).
      rewrite Hv. eauto.
    - destruct (search g G ms (upd mu0 m 0)) as [[r|]|] eqn:E0; [eauto| |exfalso; eapply search_not_none; eauto].
      destruct (Hb m) as [Hm|Hm].
      + exfalso. destruct (IH (upd mu0 m 0) nu Hb) as [mu Hmu]; [|exact Hv|congruence].
        intros x Hx. destruct (Nat.eq_dec x m) as [->|Hne]; [rewrite upd_same; exact Hm|].
        rewrite upd_other by exact Hne. apply Hout. intros [->|Hc]; [congruence|contradiction].
      + apply (IH (upd mu0 m 1) nu Hb); [|exact Hv].
        intros x Hx. destruct (Nat.eq_dec x m) as [->|Hne]; [rewrite upd_same; exact Hm|].
        rewrite upd_other by exact Hne. apply Hout. intros [->|Hc]; [congruence|contradiction].
  Qed.
End Embedded.

(* ---------------------------------------------------------------- decode succeeds *)
Lemma map_opt_some {A B} (f : A -> option B) l :
  (forall x, In x l -> exists y, f x = Some y) -> exists r, map_opt f l = Some r.
Proof.
  induction l as [|x xs IH]; intros H; cbn [map_opt]; [eauto|].
  destruct (H x (or_introl eq_refl)) as [y ->].
  destruct IH as [r ->]; [intros z Hz; apply H; right; exact Hz|]. eauto.
Qed.

Lemma map_opt_in_res {A B} (f : A -> option B) l r x y :
  map_opt f l = Some r -> In x l -> f x = Some y -> In y r.
Proof.
  revert r. induction l as [|a l IH]; intros r H Hin Hy; [contradiction|].
  cbn [map_opt] in H. destruct (f a) as [b|] eqn:Ea; [|discriminate].
  destruct (map_opt f l) as [r'|] eqn:E; [|discriminate]. inversion H; subst.
  destruct Hin as [->|Hin]; [rewrite Hy in Ea; inversion Ea; left; reflexivity|right; eapply IH; eauto].
Qed.

Lemma find_op_index k0 ops k : find_op k0 ops = Some k -> exists j, index_of_op k0 ops = Some j.
Proof.
  induction ops as [|x r IH]; cbn [find_op index_of_op]; [discriminate|].
  destruct (opk_eqb x k0); [eauto|]. intros H. destruct (IH H) as [j ->]. eauto.
Qed.

Lemma wf_muxes_nodup G : pe_wf G = true -> NoDup (all_muxes G).
Proof.
  intros Hwf. destruct (pe_wf_parts G Hwf) as (_ & _ & Hm & _ & Hu).
  apply (proj2 (NoDup_count_occ Nat.eq_dec (all_muxes G))). intros m.
  destruct (in_dec Nat.eq_dec m (all_muxes G)) as [Hin|Hnin].
  - destruct (Hu m (Hm m Hin)) as [u Hus]. unfold switch_user in Hus.
    destruct (filter (fun n => Nat.eqb (nsw n) m) (pnodes G)) as [|? [|? ?]];
      destruct (count_occ Nat.eq_dec (all_muxes G) m) as [|[|?]]; try discriminate; lia.
  - apply (count_occ_not_In Nat.eq_dec) in Hnin. lia.
Qed.

Theorem embedded_decodable g G :
  pe_wf G = true -> is_concrete g = true -> nodup_ids (map nid (pnodes g)) = true -> pdata g = pdata G ->
  embeds g G -> exists sw, decode G g = Some sw.
Proof.
  intros Hwf Hconc Hndg Hpd Hemb.
  destruct (pe_wf_parts G Hwf) as (Hne & Hnsw & Hmsw & HndG & Huser).
  apply nodup_ids_NoDup in Hndg.
  assert (exists es, map_opt (decode_switch G g) (seq 0 (pnsw G)) = Some es) as [es Hes].
  { apply map_opt_some. intros i Hi. apply in_seq in Hi. destruct (Huser i) as [u Hu]; [lia|].
    unfold decode_switch. rewrite Hu. destruct u as [n|]; [|eauto].
    destruct (Nat.eqb (length (nops n)) 1); [eauto|].
    destruct (find_node (pnodes g) (nid n)) as [c|] eqn:Ec; [|eauto].
    destruct (switch_user_choose _ _ _ Hu) as [HnG _].
    destruct (node_back g G HndG n c HnG Ec) as [Hcin Hfn].
    destruct (emb_node g G Hemb c Hcin) as (a & Ha & _ & Hops). rewrite Hfn in Ha. inversion Ha; subst a.
    unfold is_concrete in Hconc. apply andb_true_iff in Hconc as [Hc1 _].
    rewrite forallb_forall in Hc1. specialize (Hc1 c Hcin). apply andb_true_iff in Hc1 as [Hc1 _].
    apply Nat.eqb_eq in Hc1. destruct (nops c) as [|k [|? ?]] eqn:Ek; try discriminate.
    destruct (Hops k (or_introl eq_refl)) as [k' Hk'].
    destruct (find_op_index _ _ _ Hk') as [j ->]. eauto. }
  destruct (valid_exists g G Hemb HndG Hndg (wf_muxes_nodup G Hwf)) as (nu & Hb & H0 & Hv).
  destruct (search_complete g G Hemb (entry_muxes es) (fun _ => 0) nu Hb) as [mu Hmu]; [|exact Hv|].
  - intros m Hm. apply H0. intros Hin. apply Hm.
    pose proof (Hmsw m Hin) as Hlt. destruct (Huser m Hlt) as [u Hu].
    pose proof (switch_user_of_mux G m u Hin Hu) as ->.
    assert (decode_switch G g m = Some (EMux m)) as Hd by (unfold decode_switch; rewrite Hu; reflexivity).
    unfold entry_muxes. apply in_flat_map. exists (EMux m). split; [|left; reflexivity].
    eapply map_opt_in_res; eauto. apply in_seq. lia.
  - exists (entry_vals mu es). unfold decode. rewrite Hconc. cbn [negb].
    rewrite Hpd, Nat.eqb_refl. cbn [negb]. rewrite Hes, Hmu. reflexivity.
Qed.
