(* C05 — digit vectors over a flat list of (bound, source step, destination step) positions.
   The abstract copy theorem: if the positions split (up to permutation) into the strides that
   became loops / the 2-D repeat (R), a chain of contiguous strides shared by both layouts (C)
   and unit-bound strides (U), then the bursts enumerated by R with length |C|*el move every
   element to its destination address. *)
From Coq Require Import Permutation.
From Snax Require Import Base.Prelude Base.ListAux Model.Tsl Model.C05Copy Proofs.C05MemProofs.

Definition tri : Type := (Z * Z * Z)%type.   (* bound, source step, destination step *)
Definition tb (e : tri) : Z := fst (fst e).
Definition tsrc (e : tri) : Z := snd (fst e).
Definition tdst (e : tri) : Z := snd e.

Fixpoint dotS (L : list tri) (ds : list Z) : Z :=
  match L, ds with
  | e :: L', d :: ds' => d * tsrc e + dotS L' ds'
  | _, _ => 0
  end.
Fixpoint dotT (L : list tri) (ds : list Z) : Z :=
  match L, ds with
  | e :: L', d :: ds' => d * tdst e + dotT L' ds'
  | _, _ => 0
  end.
Definition valid (ds : list Z) (L : list tri) : Prop := Forall2 (fun d e => 0 <= d < tb e) ds L.

Lemma valid_length ds L : valid ds L -> length ds = length L.
Proof. induction 1; cbn [length]; congruence. Qed.

Lemma dotS_app A B da db : length da = length A ->
  dotS (A ++ B) (da ++ db) = dotS A da + dotS B db.
Proof.
  revert da. induction A as [|e A IH]; intros [|d da] H; try discriminate; cbn [app dotS]; [lia|].
  rewrite IH by (simpl in H; lia). lia.
Qed.
Lemma dotT_app A B da db : length da = length A ->
  dotT (A ++ B) (da ++ db) = dotT A da + dotT B db.
Proof.
  revert da. induction A as [|e A IH]; intros [|d da] H; try discriminate; cbn [app dotT]; [lia|].
  rewrite IH by (simpl in H; lia). lia.
Qed.

Lemma valid_app A B da db : valid da A -> valid db B -> valid (da ++ db) (A ++ B).
Proof. apply Forall2_app. Qed.

Lemma valid_app_inv A B ds : valid ds (A ++ B) ->
  exists da db, ds = da ++ db /\ valid da A /\ valid db B.
Proof.
  intros H. apply Forall2_app_inv_r in H as [da [db [Ha [Hb E]]]]. exists da, db. auto.
Qed.

(* digit vectors follow a permutation of the positions *)
Lemma perm_digits L L' : Permutation L L' -> forall ds, valid ds L ->
  exists ds', valid ds' L' /\ dotS L' ds' = dotS L ds /\ dotT L' ds' = dotT L ds.
Proof.
  induction 1 as [|x l l' HP IH|x y l|l l' l'' HP1 IH1 HP2 IH2]; intros ds Hv.
  - inversion Hv; subst. exists []. repeat split; constructor.
  - inversion Hv as [|d x' ds0 l0 Hd Hv0]; subst. destruct (IH ds0 Hv0) as [ds' [Hv' [ES ET]]].
    exists (d :: ds'). split; [constructor; [exact Hd|exact Hv']|]. cbn [dotS dotT]. lia.
  - inversion Hv as [|d1 y' ds1 l1 Hd1 Hv1]; subst.
    inversion Hv1 as [|d2 x' ds2 l2 Hd2 Hv2]; subst.
    exists (d2 :: d1 :: ds2). split; [constructor; [exact Hd2|constructor; [exact Hd1|exact Hv2]]|]. cbn [dotS dotT]. lia.
  - destruct (IH1 ds Hv) as [ds1 [Hv1 [ES1 ET1]]]. destruct (IH2 ds1 Hv1) as [ds2 [Hv2 [ES2 ET2]]].
    exists ds2. split; [exact Hv2|]. lia.
Qed.

(* ---- unit-bound positions contribute nothing ------------------------------------------- *)
Lemma unit_digits U ds : Forall (fun e => tb e = 1) U -> valid ds U -> dotS U ds = 0 /\ dotT U ds = 0.
Proof.
  intros HU. revert ds. induction HU as [|e U He HU IH]; intros ds Hv; inversion Hv as [|d e' ds0 U0 Hd Hv0]; subst.
  - split; reflexivity.
  - destruct (IH ds0 Hv0) as [ES ET]. cbn [dotS dotT]. assert (d = 0) by lia. subst d. lia.
Qed.

Lemma unit_zeros U : Forall (fun e => tb e = 1) U -> valid (map (fun _ => 0) U) U.
Proof. induction 1 as [|e U He HU IH]; cbn [map]; constructor; [lia|exact IH]. Qed.

(* ---- chains: contiguous mixed-radix blocks ----------------------------------------------- *)
Fixpoint chain (c : Z) (C : list tri) : Prop :=
  match C with
  | [] => True
  | e :: r => tsrc e = c /\ tdst e = c /\ 0 < tb e /\ chain (c * tb e) r
  end.
Definition bprod (L : list tri) : Z := zprod (map tb L).

Lemma bprod_cons e L : bprod (e :: L) = tb e * bprod L.
Proof. reflexivity. Qed.

Lemma chain_bprod_pos c C : chain c C -> 0 < bprod C.
Proof.
  revert c. induction C as [|e C IH]; intros c H; [reflexivity|].
  destruct H as [_ [_ [Hb H]]]. rewrite bprod_cons. specialize (IH _ H). nia.
Qed.

Lemma chain_range C : forall c ds, chain c C -> valid ds C ->
  exists q, 0 <= q < bprod C /\ dotS C ds = c * q /\ dotT C ds = c * q.
Proof.
  induction C as [|e C IH]; intros c ds Hc Hv; inversion Hv as [|d e' ds0 C0 Hd Hv0]; subst.
  - exists 0. cbn. lia.
  - destruct Hc as [Es [Et [Hb Hc]]]. destruct (IH _ _ Hc Hv0) as [q [Hq [ES ET]]].
    exists (d + tb e * q). rewrite bprod_cons. cbn [dotS dotT]. rewrite ES, ET, Es, Et.
    split; [nia|]. split; ring.
Qed.

Lemma chain_decode C : forall c q, chain c C -> 0 <= q < bprod C ->
  exists ds, valid ds C /\ dotS C ds = c * q /\ dotT C ds = c * q.
Proof.
  induction C as [|e C IH]; intros c q Hc Hq.
  - exists []. cbn in Hq. assert (q = 0) by (unfold bprod in Hq; cbn in Hq; lia). subst.
    split; [constructor|]. cbn. lia.
  - destruct Hc as [Es [Et [Hb Hc]]]. rewrite bprod_cons in Hq.
    assert (Hq' : 0 <= q / tb e < bprod C).
    { split; [apply Z.div_pos; lia|]. apply Z.div_lt_upper_bound; lia. }
    destruct (IH _ _ Hc Hq') as [ds [Hv [ES ET]]].
    exists (q mod tb e :: ds). split.
    + constructor; [apply Z.mod_pos_bound; exact Hb|exact Hv].
    + cbn [dotS dotT]. rewrite ES, ET, Es, Et.
      pose proof (Z.div_mod q (tb e)) as Hdm. split; nia.
Qed.

(* ------------------------------------------------------------------------------------- *)
(* The abstract copy theorem                                                               *)
(* ------------------------------------------------------------------------------------- *)
Lemma block_range el q k B : 0 < el -> 0 <= q < B -> 0 <= k < el -> 0 <= el * q + k < B * el.
Proof. intros. split; [nia|]. assert (el * (q + 1) <= el * B) by (apply Z.mul_le_mono_nonneg_l; lia). lia. Qed.

Lemma addr_split el A k B k' : 0 < el -> 0 <= k < el -> 0 <= k' < el ->
  el * A + k = el * B + k' -> A = B /\ k = k'.
Proof. intros Hel Hk Hk' H. assert (A = B) by nia. subst. lia. Qed.

Section AbstractCopy.
  Variables (E R C U : list tri) (el so do_ ps pd : Z) (bs : list burst).
  Hypothesis Hperm : Permutation E (R ++ C ++ U).
  Hypothesis Hchain : chain 1 C.
  Hypothesis Hunit : Forall (fun e => tb e = 1) U.
  Hypothesis Hel : 0 < el.

  Definition SA (d : list Z) (k : Z) : Z := ps + el * (so + dotS E d) + k.
  Definition DA (d : list Z) (k : Z) : Z := pd + el * (do_ + dotT E d) + k.

  (* the destination address determines the source address (destination layout injective) *)
  Hypothesis Hinj : forall d d', valid d E -> valid d' E -> dotT E d = dotT E d' -> dotS E d = dotS E d'.
  (* footprints are disjoint *)
  Hypothesis Hdisj : forall d d' k k', valid d E -> valid d' E -> 0 <= k < el -> 0 <= k' < el ->
    SA d k <> DA d' k'.
  (* the bursts are enumerated by the digit vectors of R *)
  Hypothesis Hbs : forall b, In b bs <->
    exists ds, valid ds R /\
      b = (ps + el * (so + dotS R ds), pd + el * (do_ + dotT R ds), bprod C * el).

  (* every byte moved by a burst is a byte of one element, at its source / destination address *)
  Lemma burst_point b x : In b bs -> 0 <= x < b_len b ->
    exists d k, valid d E /\ 0 <= k < el /\ b_src b + x = SA d k /\ b_dst b + x = DA d k.
  Proof using Hperm Hchain Hunit Hel Hbs.
    clear Hinj Hdisj. intros Hb Hx. apply Hbs in Hb as [dr [Hvr ->]]. unfold b_len, b_src, b_dst in Hx |- *. cbn [fst snd] in Hx |- *.
    pose proof (chain_bprod_pos _ _ Hchain) as Hpos.
    assert (Hq : 0 <= x / el < bprod C).
    { split; [apply Z.div_pos; lia|]. apply Z.div_lt_upper_bound; lia. }
    destruct (chain_decode C 1 (x / el) Hchain Hq) as [dc [Hvc [ESc ETc]]].
    pose proof (unit_zeros U Hunit) as Hvu.
    destruct (unit_digits U _ Hunit Hvu) as [ESu ETu].
    assert (Hv : valid (dr ++ dc ++ map (fun _ => 0) U) (R ++ C ++ U))
      by (apply valid_app; [exact Hvr|apply valid_app; assumption]).
    destruct (perm_digits _ _ (Permutation_sym Hperm) _ Hv) as [d [Hvd [ES ET]]].
    rewrite !dotS_app in ES by (apply valid_length; assumption).
    rewrite !dotT_app in ET by (apply valid_length; assumption).
    exists d, (x mod el). split; [exact Hvd|]. split; [apply Z.mod_pos_bound; exact Hel|].
    unfold SA, DA. rewrite ES, ET, ESc, ETc, ESu, ETu.
    pose proof (Z.div_mod x el) as Hdm. split; nia.
  Qed.

  Lemma reads_never_written b b' k : In b bs -> In b' bs -> 0 <= k < b_len b -> ~ covers b' (b_src b + k).
  Proof.
    intros Hb Hb' Hk Hc.
    destruct (burst_point b k Hb Hk) as [d [k1 [Hvd [Hk1 [E1 _]]]]].
    unfold covers in Hc.
    destruct (burst_point b' (b_src b + k - b_dst b') Hb' ltac:(lia)) as [d' [k2 [Hvd' [Hk2 [_ E2]]]]].
    apply (Hdisj d d' k1 k2 Hvd Hvd' Hk1 Hk2). lia.
  Qed.

  Theorem abstract_copy_correct m d k : valid d E -> 0 <= k < el ->
    run_bursts bs m (DA d k) = m (SA d k).
  Proof.
    intros Hvd Hk. pose proof (chain_bprod_pos _ _ Hchain) as Hpos.
    apply run_bursts_spec.
    - intros b b' k0. apply reads_never_written.
    - destruct (perm_digits _ _ Hperm _ Hvd) as [d' [Hvd' [ES ET]]].
      apply valid_app_inv in Hvd' as [dr [dcu [-> [Hvr Hvcu]]]].
      apply valid_app_inv in Hvcu as [dc [du [-> [Hvc Hvu]]]].
      rewrite !dotS_app in ES by (apply valid_length; assumption).
      rewrite !dotT_app in ET by (apply valid_length; assumption).
      destruct (unit_digits U du Hunit Hvu) as [ESu ETu].
      destruct (chain_range C 1 dc Hchain Hvc) as [q [Hq [ESc ETc]]].
      exists (ps + el * (so + dotS R dr), pd + el * (do_ + dotT R dr), bprod C * el). split.
      + apply Hbs. exists dr. split; [exact Hvr|reflexivity].
      + unfold covers, b_dst, b_len, DA. cbn [fst snd]. rewrite <- ET, ETc, ETu.
        pose proof (block_range el q k (bprod C) Hel Hq Hk) as Hr.
        replace (pd + el * (do_ + (dotT R dr + (1 * q + 0))) + k)
          with (pd + el * (do_ + dotT R dr) + (el * q + k)) by ring. lia.
    - intros b Hb Hc. unfold covers in Hc.
      destruct (burst_point b (DA d k - b_dst b) Hb ltac:(lia)) as [d' [k' [Hvd' [Hk' [E1 E2]]]]].
      rewrite E1. unfold SA, DA in *.
      assert (Hdk : do_ + dotT E d' = do_ + dotT E d /\ k' = k) by (apply (addr_split el); try assumption; lia).
      destruct Hdk as [HT ->]. rewrite (Hinj d' d Hvd' Hvd ltac:(lia)). reflexivity.
  Qed.

  (* footprints: every byte read is a byte of a source element, every byte written a byte of a
     destination element *)
  Theorem abstract_footprint b x : In b bs -> 0 <= x < b_len b ->
    (exists d k, valid d E /\ 0 <= k < el /\ b_src b + x = SA d k) /\
    (exists d k, valid d E /\ 0 <= k < el /\ b_dst b + x = DA d k).
  Proof using Hperm Hchain Hunit Hel Hbs.
    intros Hb Hx. destruct (burst_point b x Hb Hx) as [d [k [Hv [Hk [E1 E2]]]]].
    split; exists d, k; auto.
  Qed.
End AbstractCopy.
