(* C13 — proofs about the barrier-insertion walk. *)
From Snax Require Import Base.Prelude Base.ListAux Model.MultiCore Model.C13SyncBarrier
  Model.C14Dispatch Proofs.MultiCoreCommute Proofs.C14DispatchProofs.

(* ---- the walk ------------------------------------------------------------------------------- *)
Lemma walk_from_app all st l1 l2 :
  walk_from all st (l1 ++ l2) = walk_from all (walk_from all st l1) l2.
Proof. unfold walk_from. apply fold_left_app. Qed.

Lemma walk_from_cons all st x l : walk_from all st (x :: l) = walk_from all (wstep all st x) l.
Proof. reflexivity. Qed.

Lemma bars_mono all l : forall pend bars b,
  In b bars -> In b (snd (walk_from all (pend, bars) l)).
Proof.
  induction l as [|y r IH]; intros pend bars b Hb; [exact Hb|].
  rewrite walk_from_cons. unfold wstep.
  destruct (memb (oi_id y) pend); apply IH; [right; exact Hb | exact Hb].
Qed.

Lemma bars_mono_st all l st b : In b (snd st) -> In b (snd (walk_from all st l)).
Proof. destruct st as [pend bars]. apply bars_mono. Qed.

(* an op that is in ops_to_sync gets a barrier between now and itself: either an existing sync
   op comes first, or a barrier is inserted before one of the ops up to and including it *)
Lemma pending_gets_barrier all : forall l2 t pend bars,
  In (oi_id t) pend ->
  (exists y, In y l2 /\ is_sync y = true) \/
  (exists y, In y (l2 ++ [t]) /\ In (oi_id y) (snd (walk_from all (pend, bars) (l2 ++ [t])))).
Proof.
  induction l2 as [|y r IH]; intros t pend bars Ht.
  - right. exists t. split; [left; reflexivity|]. simpl. unfold wstep.
    replace (memb (oi_id t) pend) with true by (symmetry; apply memb_true; exact Ht).
    simpl. left. reflexivity.
  - simpl app. rewrite walk_from_cons. unfold wstep.
    destruct (memb (oi_id y) pend) eqn:Hit.
    + right. exists y. split; [left; reflexivity|]. apply bars_mono. left. reflexivity.
    + destruct (is_sync y) eqn:Hs.
      * left. exists y. split; [left; reflexivity | exact Hs].
      * destruct (IH t (pend ++ adds all y) bars) as [[z [Hz Hzs]]|[z [Hz Hzb]]].
        { apply in_or_app. left. exact Ht. }
        { left. exists z. split; [right; exact Hz | exact Hzs]. }
        { right. exists z. split; [right; exact Hz | exact Hzb]. }
Qed.

(* T1 — for ALL programs: if processing x puts t into ops_to_sync and t comes later in the walk,
   a sync op lies between them in walk order (existing, or inserted by the pass) *)
Theorem barrier_between_flat : forall flat l1 x l2 t l3,
  flat = l1 ++ x :: l2 ++ t :: l3 ->
  In (oi_id t) (adds flat x) ->
  (exists y, In y l2 /\ is_sync y = true) \/
  (exists y, In y (l2 ++ [t]) /\ In (oi_id y) (barriers flat)).
Proof.
  intros flat l1 x l2 t l3 E Ht. unfold barriers.
  assert (Hw : forall all, walk_from all ([], []) flat =
                 walk_from all (walk_from all (wstep all (walk_from all ([], []) l1) x) (l2 ++ [t])) l3).
  { intros all. rewrite E. rewrite walk_from_app, walk_from_cons.
    replace (l2 ++ t :: l3) with ((l2 ++ [t]) ++ l3) by (rewrite <- app_assoc; reflexivity).
    rewrite walk_from_app. reflexivity. }
  rewrite (Hw flat). clear Hw.
  destruct (walk_from flat ([], []) l1) as [pend0 bars0].
  unfold wstep.
  set (pend' := (if is_sync x then [] else if memb (oi_id x) pend0 then [] else pend0) ++ adds flat x).
  set (bars' := if memb (oi_id x) pend0 then oi_id x :: bars0 else bars0).
  destruct (pending_gets_barrier flat l2 t pend' bars') as [H|[y [Hy Hb]]].
  - unfold pend'. apply in_or_app. right. exact Ht.
  - left. exact H.
  - right. exists y. split; [exact Hy|]. apply bars_mono_st. exact Hb.
Qed.

(* every id a barrier is inserted before was put on the pending list by some op of the module *)
Lemma walk_invariant all l : forall pend bars,
  (forall b, In b pend -> exists x, In x all /\ In b (adds all x)) ->
  (forall b, In b bars -> exists x, In x all /\ In b (adds all x)) ->
  (forall x, In x l -> In x all) ->
  forall b, In b (snd (walk_from all (pend, bars) l)) -> exists x, In x all /\ In b (adds all x).
Proof.
  induction l as [|y r IH]; intros pend bars Hp Hb Hl b Hin; [apply Hb; exact Hin|].
  rewrite walk_from_cons in Hin. unfold wstep in Hin.
  eapply IH; [| | intros x Hx; apply Hl; right; exact Hx | exact Hin].
  - intros b' Hb'. apply in_app_or in Hb' as [Hb'|Hb'].
    + destruct (is_sync y); [destruct Hb'|]. destruct (memb (oi_id y) pend); [destruct Hb' | apply Hp; exact Hb'].
    + exists y. split; [apply Hl; left; reflexivity | exact Hb'].
  - intros b' Hb'. destruct (memb (oi_id y) pend) eqn:E; [|apply Hb; exact Hb'].
    destruct Hb' as [<-|Hb']; [apply Hp; apply memb_true; exact E | apply Hb; exact Hb'].
Qed.

Lemma barriers_from_adds flat b : In b (barriers flat) -> exists x, In x flat /\ In b (adds flat x).
Proof.
  unfold barriers. apply walk_invariant; [intros ? [] | intros ? [] | intros x Hx; exact Hx].
Qed.

Lemma inert_not_barrier flat y : In y flat -> inert flat y = true -> ~ In (oi_id y) (barriers flat).
Proof.
  intros _ Hi Hb. apply barriers_from_adds in Hb as [x [Hx Hadd]].
  unfold inert in Hi. apply andb_true_iff in Hi as [_ Hi]. rewrite forallb_forall in Hi.
  specialize (Hi x Hx). apply negb_true_iff in Hi. apply memb_false in Hi. contradiction.
Qed.

(* what processing x contributes *)
Lemma must_sync_adds flat x u : In u flat -> must_sync x u = true -> In (oi_id u) (adds flat x).
Proof.
  intros Hu Hm. unfold must_sync in Hm. apply andb_true_iff in Hm as [Hc Hs].
  unfold shares in Hs. apply existsb_exists in Hs as [v [Hv Hvu]].
  unfold adds. apply in_flat_map. exists v. split; [exact Hv|].
  apply in_flat_map. exists u. split.
  - unfold users. apply filter_In. split; assumption.
  - unfold contrib, cross_core in *. apply orb_true_iff in Hc as [Hc|Hc]; rewrite Hc.
    + apply in_or_app. left. left. reflexivity.
    + apply in_or_app. right. apply in_or_app. left. left. reflexivity.
Qed.

Lemma must_sync_adds_yield flat x u : In u flat -> must_sync x u = true ->
  same_parent_for x u = true -> In (oi_pyield x) (adds flat x).
Proof.
  intros Hu Hm Hp. unfold must_sync in Hm. apply andb_true_iff in Hm as [Hc Hs].
  unfold shares in Hs. apply existsb_exists in Hs as [v [Hv Hvu]].
  unfold adds. apply in_flat_map. exists v. split; [exact Hv|].
  apply in_flat_map. exists u. split.
  - unfold users. apply filter_In. split; assumption.
  - unfold contrib, cross_core in *. rewrite Hp. apply orb_true_iff in Hc as [Hc|Hc]; rewrite Hc.
    + apply in_or_app. left. right. left. reflexivity.
    + apply in_or_app. right. apply in_or_app. left. right. left. reflexivity.
Qed.

(* ---- the output ------------------------------------------------------------------------------ *)
Definition out_between (bars : list Z) (l2 : list opinfo) (t : opinfo) : list opinfo :=
  insert_syncs bars l2 ++ (if memb (oi_id t) bars then [sync_before t] else []).

Lemma insert_syncs_app bars a b : insert_syncs bars (a ++ b) = insert_syncs bars a ++ insert_syncs bars b.
Proof. unfold insert_syncs. apply flat_map_app. Qed.

Lemma insert_syncs_one bars y :
  insert_syncs bars [y] = (if memb (oi_id y) bars then [sync_before y] else []) ++ [y].
Proof. unfold insert_syncs. simpl. destruct (memb (oi_id y) bars); reflexivity. Qed.

(* the output is  ... x, <out_between>, t ...  : out_between is exactly what the pass leaves
   between x and t *)
Lemma run_pass_split flat l1 x l2 t l3 : flat = l1 ++ x :: l2 ++ t :: l3 ->
  run_pass flat =
    (insert_syncs (barriers flat) l1 ++ (if memb (oi_id x) (barriers flat) then [sync_before x] else [])) ++
    x :: out_between (barriers flat) l2 t ++ t :: insert_syncs (barriers flat) l3.
Proof.
  intros E. unfold run_pass, out_between. set (bars := barriers flat). rewrite E.
  replace (l1 ++ x :: l2 ++ t :: l3) with (l1 ++ [x] ++ l2 ++ [t] ++ l3) by reflexivity.
  rewrite !insert_syncs_app, !insert_syncs_one, <- !app_assoc. reflexivity.
Qed.

Lemma in_insert_syncs_orig bars l y : In y l -> In y (insert_syncs bars l).
Proof.
  intros Hy. unfold insert_syncs. apply in_flat_map. exists y. split; [exact Hy|].
  destruct (memb (oi_id y) bars); [right; left; reflexivity | left; reflexivity].
Qed.

Lemma in_insert_syncs_new bars l y : In y l -> memb (oi_id y) bars = true -> In (sync_before y) (insert_syncs bars l).
Proof.
  intros Hy Hb. unfold insert_syncs. apply in_flat_map. exists y. split; [exact Hy|].
  rewrite Hb. left. reflexivity.
Qed.

Lemma same_block_insert p bars l : same_block_segment p l = true -> same_block_segment p (insert_syncs bars l) = true.
Proof.
  unfold same_block_segment, insert_syncs. rewrite !forallb_forall. intros H z Hz.
  apply in_flat_map in Hz as [y [Hy Hzy]]. specialize (H y Hy).
  destruct (memb (oi_id y) bars); simpl in Hzy.
  - destruct Hzy as [<-|[<-|[]]]; [exact H | exact H].
  - destruct Hzy as [<-|[]]. exact H.
Qed.

(* T2 — same-level class: x and the op t that must be preceded by a barrier lie in one block and
   everything between them is a direct child of that block or inert (inside the body of a
   linalg.generic / streaming region): a straight-line segment.  Then what the pass leaves between
   x and t is that same segment plus barriers, and it contains a barrier of the block: the only
   path from x to t passes it. *)
Theorem barrier_on_straight_segment : forall flat l1 x l2 t l3,
  flat = l1 ++ x :: l2 ++ t :: l3 ->
  In (oi_id t) (adds flat x) ->
  seg_ok flat (oi_parent x) (l2 ++ [t]) = true ->
  let seg := out_between (barriers flat) l2 t in
  (exists pre post, run_pass flat = pre ++ x :: seg ++ t :: post) /\
  (forall z, In z seg -> In z l2 \/ is_sync z = true) /\
  (exists s, In s seg /\ is_sync s = true /\ oi_parent s = oi_parent x).
Proof.
  intros flat l1 x l2 t l3 E Ht Hseg seg. split; [|split].
  - eexists. eexists. apply run_pass_split. exact E.
  - intros z Hz. unfold seg, out_between in Hz. apply in_app_or in Hz as [Hz|Hz].
    + unfold insert_syncs in Hz. apply in_flat_map in Hz as [y [Hy Hzy]].
      destruct (memb (oi_id y) (barriers flat)); simpl in Hzy.
      * destruct Hzy as [<-|[<-|[]]]; [right; reflexivity | left; exact Hy].
      * destruct Hzy as [<-|[]]. left. exact Hy.
    + destruct (memb (oi_id t) (barriers flat)); [|destruct Hz]. destruct Hz as [<-|[]]. right. reflexivity.
  - assert (Hin : forall y, In y (l2 ++ [t]) -> In y flat).
    { intros y Hy. rewrite E. apply in_or_app. right. right.
      apply in_app_or in Hy as [Hy|[<-|[]]]; apply in_or_app; [left; exact Hy | right; left; reflexivity]. }
    assert (Hpar : forall y, In y (l2 ++ [t]) -> inert flat y = false -> oi_parent y = oi_parent x).
    { intros y Hy Hi. unfold seg_ok in Hseg. rewrite forallb_forall in Hseg. specialize (Hseg y Hy).
      rewrite Hi, orb_false_r in Hseg. apply Z.eqb_eq. exact Hseg. }
    destruct (barrier_between_flat flat l1 x l2 t l3 E Ht) as [[y [Hy Hs]]|[y [Hy Hb]]].
    + exists y. split; [|split; [exact Hs|]].
      * unfold seg, out_between. apply in_or_app. left. apply in_insert_syncs_orig. exact Hy.
      * apply Hpar; [apply in_or_app; left; exact Hy|]. unfold inert. rewrite Hs. reflexivity.
    + exists (sync_before y). split; [|split; [reflexivity|]].
      * unfold seg, out_between. apply in_app_or in Hy as [Hy|[Ey|[]]].
        { apply in_or_app. left. apply in_insert_syncs_new; [exact Hy | apply memb_true; exact Hb]. }
        { subst y. apply in_or_app. right.
          replace (memb (oi_id t) (barriers flat)) with true by (symmetry; apply memb_true; exact Hb).
          left. reflexivity. }
      * simpl. apply Hpar; [exact Hy|]. destruct (inert flat y) eqn:Ei; [|reflexivity].
        exfalso. apply (inert_not_barrier flat y (Hin y Hy) Ei Hb).
Qed.

(* C13 (partial: SameLevel class) — forward direction: x on one core, u later in the same
   straight-line segment, not on that core, sharing an SSA value *)
Theorem barrier_between_ssa_deps_partial : forall flat l1 x l2 u l3,
  flat = l1 ++ x :: l2 ++ u :: l3 ->
  must_sync x u = true ->
  seg_ok flat (oi_parent x) (l2 ++ [u]) = true ->
  let seg := out_between (barriers flat) l2 u in
  (exists pre post, run_pass flat = pre ++ x :: seg ++ u :: post) /\
  (forall z, In z seg -> In z l2 \/ is_sync z = true) /\
  (exists s, In s seg /\ is_sync s = true /\ oi_parent s = oi_parent x).
Proof.
  intros flat l1 x l2 u l3 E Hm Hseg. apply (barrier_on_straight_segment flat l1 x l2 u l3 E); [|exact Hseg].
  apply must_sync_adds; [|exact Hm]. rewrite E. apply in_or_app. right. right. apply in_or_app. right. left. reflexivity.
Qed.

(* ... and the back-edge: x and u (anywhere in the walk, before or after x) are direct children of
   the same scf.for whose body is straight-line from x to its scf.yield: a barrier of the loop
   body lies between x and the end of the body, i.e. on the path x -> back-edge -> u *)
Theorem barrier_on_backedge_partial : forall flat l1 x l2 yld l3 u,
  flat = l1 ++ x :: l2 ++ yld :: l3 ->
  In u flat -> must_sync x u = true -> same_parent_for x u = true ->
  oi_id yld = oi_pyield x ->
  seg_ok flat (oi_parent x) (l2 ++ [yld]) = true ->
  let seg := out_between (barriers flat) l2 yld in
  (exists pre post, run_pass flat = pre ++ x :: seg ++ yld :: post) /\
  (forall z, In z seg -> In z l2 \/ is_sync z = true) /\
  (exists s, In s seg /\ is_sync s = true /\ oi_parent s = oi_parent x).
Proof.
  intros flat l1 x l2 yld l3 u E Hu Hm Hp Hy Hseg.
  apply (barrier_on_straight_segment flat l1 x l2 yld l3 E); [|exact Hseg].
  rewrite Hy. eapply must_sync_adds_yield; eassumption.
Qed.

(* a dealloc is preceded by a barrier after the last op that uses the buffer *)
Theorem barrier_before_dealloc_partial : forall flat l1 x l2 d l3,
  flat = l1 ++ x :: l2 ++ d :: l3 ->
  is_dealloc d = true -> shares x d = true ->
  seg_ok flat (oi_parent x) (l2 ++ [d]) = true ->
  exists s, In s (out_between (barriers flat) l2 d) /\ is_sync s = true /\ oi_parent s = oi_parent x.
Proof.
  intros flat l1 x l2 d l3 E Hd Hs Hseg.
  apply (barrier_on_straight_segment flat l1 x l2 d l3 E); [|exact Hseg].
  unfold shares in Hs. apply existsb_exists in Hs as [v [Hv Hvd]].
  unfold adds. apply in_flat_map. exists v. split; [exact Hv|].
  apply in_flat_map. exists d. split.
  - unfold users. apply filter_In. split; [|exact Hvd]. rewrite E. apply in_or_app. right. right. apply in_or_app. right. left. reflexivity.
  - unfold contrib. rewrite Hd. apply in_or_app. right. apply in_or_app. right. left. reflexivity.
Qed.

(* ---- refutations outside the class (the three F19 findings), on the model ---------------------- *)
(* (b) producer in the outer loop body (op 3), consumer in the inner loop (op 5): a barrier is put
   before the consumer, none before the yield (id 7) of the outer loop *)
Definition probe_cross_level : list opinfo :=
  [ mkInfo 1 BOther [] [101] 0 false 0;                (* alloc %0 *)
    mkInfo 2 BOther [] [] 0 false 0;                   (* outer scf.for *)
    mkInfo 3 BDM [100; 101] [] 2 true 7;               (* copy %arg -> %0 *)
    mkInfo 4 BOther [] [] 2 true 7;                    (* inner scf.for *)
    mkInfo 5 BCompute [101; 102] [] 4 true 6;          (* generic reads %0 *)
    mkInfo 6 BOther [] [] 4 true 6;                    (* inner yield *)
    mkInfo 7 BOther [] [] 2 true 7 ].                  (* outer yield *)

Theorem cross_level_backedge_refuted :
  barriers probe_cross_level = [5] /\ ~ In 7 (barriers probe_cross_level) /\ classify_pair probe_cross_level false 3 5 = 2.
Proof. vm_compute. split; [reflexivity|]. split; [intros [H|[]]; discriminate | reflexivity]. Qed.

(* (a) the compute op reads a view (value 103 defined by op 2 from 101): no common SSA value *)
Definition probe_alias : list opinfo :=
  [ mkInfo 1 BOther [] [101] 0 false 0;
    mkInfo 2 BOther [101] [103] 0 false 0;             (* subview *)
    mkInfo 3 BDM [100; 101] [] 0 false 0;
    mkInfo 4 BCompute [103; 102] [] 0 false 0 ].

Theorem alias_via_view_refuted : barriers probe_alias = [] /\ classify_pair probe_alias true 3 4 = 1.
Proof. vm_compute. split; reflexivity. Qed.

(* (c) copy (2); scf.if (3) { generic (4) }; generic (5): the barrier before 4 clears the list *)
Definition probe_branch : list opinfo :=
  [ mkInfo 1 BOther [] [101] 0 false 0;
    mkInfo 2 BDM [100; 101] [] 0 false 0;
    mkInfo 3 BOther [] [] 0 false 0;
    mkInfo 4 BCompute [101; 102] [] 3 false 0;
    mkInfo 5 BCompute [101; 102] [] 0 false 0 ].

Theorem ctl_between_refuted : barriers probe_branch = [4] /\ classify_pair probe_branch true 2 5 = 3.
Proof. vm_compute. split; reflexivity. Qed.

(* non-vacuity of the class: loop body copy; generic; copy; yield *)
Definition probe_loop : list opinfo :=
  [ mkInfo 1 BOther [] [101] 0 false 0;
    mkInfo 2 BOther [] [] 0 false 0;                   (* scf.for *)
    mkInfo 3 BDM [100; 101] [] 2 true 6;               (* copy -> %0 *)
    mkInfo 4 BCompute [101; 102] [] 2 true 6;          (* generic %0 -> %1 *)
    mkInfo 5 BDM [102; 100] [] 2 true 6;               (* copy %1 -> out *)
    mkInfo 6 BOther [] [] 2 true 6 ].

Example same_level_nonvacuous :
  must_sync (nth 2 probe_loop (mkInfo 0 BOther [] [] 0 false 0)) (nth 3 probe_loop (mkInfo 0 BOther [] [] 0 false 0)) = true /\
  barriers probe_loop = [6; 5; 4] /\ classify_pair probe_loop true 3 4 = 0 /\ classify_pair probe_loop false 4 3 = 0.
Proof. vm_compute. repeat split; reflexivity. Qed.

(* ---- barriers_unguarded: after dispatching, every core executes the same barriers -------------- *)
Section Unguarded.
  Variable isbar : Z -> bool.
  Definition bar_ev (e : ev) : bool := isbar (fst (fst e)).

  Lemma filter_bar_belongs nb c (tr : list ev) :
    (forall e, In e tr -> bar_ev e = true -> ev_kind e = KOther) ->
    filter bar_ev (filter (belongs nb c) tr) = filter bar_ev tr.
  Proof.
    intros H. rewrite filter_filter. apply filter_ext_in. intros e He.
    destruct (bar_ev e) eqn:Eb; [|rewrite andb_false_r; reflexivity].
    unfold belongs. rewrite (H e He Eb). reflexivity.
  Qed.

  (* the dispatcher never guards a barrier (barriers are not dispatchable): the sequence of
     barrier events is the same for every core and equals the original one *)
  Theorem barriers_unguarded : forall nb f, 2 <= nb ->
    Forall (fun b => terminated b = true) f ->
    Forall (fun b => guard_freel b = true) f ->
    forall o path,
    (forall e, In e (trace o f path) -> bar_ev e = true -> ev_kind e = KOther) ->
    forall c, 0 <= c < nb ->
    filter bar_ev (core_trace c o (d_blocks (dispatch nb f)) path) = filter bar_ev (trace o f path).
  Proof.
    intros nb f Hnb Ht Hg o path Hk c Hc.
    rewrite dispatch_projection by assumption. apply filter_bar_belongs. exact Hk.
  Qed.

  (* per-core instruction streams of the barrier machine *)
  Definition to_stream (c : Z) (tr : list ev) : list instr :=
    map (fun e => if bar_ev e then None else Some (mkOp [fst (fst e)] c [] [])) tr.

  Lemma nbarriers_to_stream c tr : nbarriers (to_stream c tr) = length (filter bar_ev tr).
  Proof.
    unfold nbarriers, to_stream. induction tr as [|e r IH]; simpl; [reflexivity|].
    destruct (bar_ev e); simpl; rewrite IH; reflexivity.
  Qed.

  (* hence the cores' streams are balanced and the barrier machine can never deadlock *)
  Theorem no_deadlock_after_dispatch : forall nb f, 2 <= nb ->
    Forall (fun b => terminated b = true) f ->
    Forall (fun b => guard_freel b = true) f ->
    forall o path,
    (forall e, In e (trace o f path) -> bar_ev e = true -> ev_kind e = KOther) ->
    let ss := map (fun c => to_stream c (core_trace c o (d_blocks (dispatch nb f)) path)) (zrange nb) in
    balanced ss /\
    forall m cfg, steps (ss, m) cfg -> all_finished (fst cfg) = true \/ exists cfg', step cfg cfg'.
  Proof.
    intros nb f Hnb Ht Hg o path Hk ss.
    assert (Hb : balanced ss).
    { intros s s' Hs Hs'. unfold ss in Hs, Hs'.
      apply in_map_iff in Hs as [c [<- Hc]]. apply in_map_iff in Hs' as [c' [<- Hc']].
      apply in_zrange in Hc. apply in_zrange in Hc'.
      rewrite !nbarriers_to_stream, !(barriers_unguarded nb f Hnb Ht Hg o path Hk) by assumption. reflexivity. }
    split; [exact Hb|]. intros m cfg Hsteps. apply (no_deadlock (ss, m) cfg Hsteps). exact Hb.
  Qed.
End Unguarded.

(* a barrier under a core guard does deadlock: core 0 waits, core 1 has finished *)
Theorem guarded_barrier_deadlocks :
  let ss := [[None]; []] in
  all_finished ss = false /\ forall m cfg', ~ step (ss, m) cfg'.
Proof.
  cbv zeta. split; [reflexivity|]. intros m cfg' H.
  inversion H as [pre o s post m0 E1 | ss m0 Hne Hb E1].
  - destruct pre as [|a pre]; [simpl in E1; inversion E1|].
    destruct pre as [|b pre]; [simpl in E1; inversion E1|].
    destruct pre; simpl in E1; inversion E1.
  - subst. vm_compute in Hb. discriminate.
Qed.
