(* print-then-parse round trip of the TSL textual form (token level). *)
From Snax Require Import Base.Prelude Model.Tsl Model.TslText.

Lemma pr_opt_item o : opt_printable o = true ->
  (match pr_opt o with TQuest => Some None | TInt z => Some (Some z) | _ => None end) = Some o
  /\ (forall c, c = TRSq \/ c = TRPar -> tok_eqb (pr_opt o) c = false).
Proof.
  destruct o as [z|]; cbn [opt_printable pr_opt]; intros H.
  - destruct (z =? 0) eqn:E; [discriminate|]. split; [reflexivity|]. intros c [->| ->]; reflexivity.
  - split; [reflexivity|]. intros c [->| ->]; reflexivity.
Qed.

Lemma parse_print_items c xs rest : c = TRSq \/ c = TRPar ->
  forallb opt_printable xs = true ->
  parse_items c (print_items c xs ++ rest) = Some (xs, rest).
Proof.
  intros Hc. induction xs as [|x r IH]; intros Hp.
  - destruct Hc as [->| ->]; reflexivity.
  - cbn [forallb] in Hp. apply andb_true_iff in Hp as [Hx Hr].
    destruct (pr_opt_item x Hx) as [Hitem Hne]. specialize (Hne c Hc).
    destruct r as [|y r'].
    + cbn [print_items app]. cbn [parse_items]. rewrite Hne, Hitem.
      destruct Hc as [->| ->]; reflexivity.
    + change (print_items c (x :: y :: r')) with (pr_opt x :: TComma :: print_items c (y :: r')).
      cbn [app]. cbn [parse_items]. rewrite Hne, Hitem.
      fold (parse_items c). rewrite (IH Hr). reflexivity.
Qed.

Definition ts_printable (t : tstride) : bool :=
  forallb (fun s : stride => opt_printable (sstep s) && opt_printable (sbound s)) t.

Lemma ts_printable_split t : ts_printable t = true ->
  forallb opt_printable (map sbound t) = true /\ forallb opt_printable (map sstep t) = true.
Proof.
  induction t as [|s t IH]; [split; reflexivity|]. cbn [ts_printable forallb map].
  intros H. apply andb_true_iff in H as [Hs Ht]. apply andb_true_iff in Hs as [H1 H2].
  destruct (IH Ht) as [I1 I2]. rewrite H1, H2, I1, I2. split; reflexivity.
Qed.

Lemma combine_fst_snd (t : tstride) : combine (map sstep t) (map sbound t) = t.
Proof. induction t as [|[a b] t IH]; [reflexivity|]. cbn [map combine sstep sbound fst snd]. rewrite IH. reflexivity. Qed.

Lemma parse_print_ts t rest : ts_printable t = true -> parse_ts (print_ts t ++ rest) = Some (t, rest).
Proof.
  intros H. destruct (ts_printable_split t H) as [Hb Hs].
  unfold print_ts. cbn [app]. rewrite <- app_assoc. cbn [app parse_ts].
  rewrite (parse_print_items TRSq (map sbound t) _ (or_introl eq_refl) Hb).
  rewrite (parse_print_items TRPar (map sstep t) rest (or_intror eq_refl) Hs).
  rewrite !map_length, Nat.eqb_refl, combine_fst_snd. reflexivity.
Qed.

Lemma print_ts_head t rest : exists r, print_ts t ++ rest = TLSq :: r.
Proof. unfold print_ts. eexists. reflexivity. Qed.

Definition off_toks (z : Z) : list tok := if z =? 0 then [] else [TComma; TOffset; TColon; TInt z].

Lemma parse_loop_print ts : ts <> [] -> forallb ts_printable ts = true ->
  forall z fuel acc, (length ts < fuel)%nat ->
  parse_loop fuel (print_tss ts ++ off_toks z ++ [TGreater]) acc = Some (mkLayout (acc ++ ts) (Some z), [TGreater]).
Proof.
  induction ts as [|t r IH]; [congruence|]. intros _ Hp z fuel acc Hf.
  cbn [forallb] in Hp. apply andb_true_iff in Hp as [Ht Hr].
  destruct fuel as [|fuel]; [cbn in Hf; lia|].
  destruct r as [|t2 r'].
  - cbn [print_tss]. destruct (print_ts_head t (off_toks z ++ [TGreater])) as [q Eq].
    cbn [parse_loop]. rewrite Eq. rewrite <- Eq. rewrite (parse_print_ts t _ Ht).
    unfold off_toks. destruct (z =? 0) eqn:Ez.
    + apply Z.eqb_eq in Ez. subst z. cbn [app]. destruct fuel as [|fuel]; [cbn in Hf; lia|].
      cbn [parse_loop]. reflexivity.
    + cbn [app]. destruct fuel as [|fuel]; [cbn in Hf; lia|]. cbn [parse_loop]. reflexivity.
  - change (print_tss (t :: t2 :: r')) with (print_ts t ++ TComma :: print_tss (t2 :: r')).
    rewrite <- app_assoc. destruct (print_ts_head t ((TComma :: print_tss (t2 :: r')) ++ off_toks z ++ [TGreater])) as [q Eq].
    cbn [parse_loop]. rewrite Eq. rewrite <- Eq. rewrite (parse_print_ts t _ Ht).
    cbn [app]. rewrite (IH ltac:(discriminate) Hr z fuel (acc ++ [t])) by (cbn [length] in *; lia).
    rewrite <- app_assoc. reflexivity.
Qed.

Theorem print_parse_roundtrip l : printable l = true -> tstrides l <> [] ->
  parse_layout (print_layout l ++ [TGreater]) = Some l.
Proof.
  destruct l as [ts off]. unfold printable, print_layout, parse_layout. cbn [tstrides offset].
  intros H Hne. apply andb_true_iff in H as [Hts Hoff]. destruct off as [z|]; [|discriminate].
  change (if z =? 0 then [] else [TComma; TOffset; TColon; TInt z]) with (off_toks z).
  rewrite <- app_assoc. rewrite (parse_loop_print ts Hne Hts z _ []).
  - reflexivity.
  - rewrite app_length. clear. induction ts as [|t r IH]; cbn [length]; [lia|].
    destruct r as [|t2 r']; [cbn [print_tss length] in *; unfold print_ts; cbn [length]; lia|].
    change (print_tss (t :: t2 :: r')) with (print_ts t ++ TComma :: print_tss (t2 :: r')).
    rewrite app_length. cbn [length] in *. lia.
Qed.

(* The dynamic offset prints as `?`, which the parser rejects: the round trip fails (F21). *)
Theorem print_parse_refuted_dynamic_offset :
  exists l, tstrides l <> [] /\ parse_layout (print_layout l ++ [TGreater]) <> Some l.
Proof.
  exists (mkLayout [[(Some 8, Some 2)]] None). split; [discriminate|]. vm_compute. discriminate.
Qed.
