(* Properties of the model of _weave_states_in_region (Model/AccWeave.v): what the pass still
   assumes after a construct that may reconfigure the accelerators behind its back (the F2 clause
   of C07, on the model that L1 compares with the real pass on every run).
     - an effectful op (unannotated call): nothing is assumed afterwards;
     - a loop whose body has effects: nothing is assumed afterwards, and the body is woven from
       an empty dictionary;
     - an scf.if: an accelerator has an assumed state afterwards only if BOTH branches end with an
       assumed state for it (so a state invalidated by a call in one branch is dropped). *)
From Snax Require Import Base.Prelude Model.AccIR Model.AccSem Model.AccInfer Model.AccDedup Model.AccWeave
  Proofs.AccSemProofs.

Lemma weave_call_forgets st n g pu ds ar :
  weave_stmt st n (SCall g true pu ds ar) = Some ([SCall g true pu ds ar], [], n).
Proof. reflexivity. Qed.

Lemma weave_call_noeffect_keeps st n g pu ds ar :
  weave_stmt st n (SCall g false pu ds ar) = Some ([SCall g false pu ds ar], st, n).
Proof. reflexivity. Qed.

Lemma weave_stmt_for st n iv lb ub sp its rs body ys :
  existsb stmt_has_effects body = true ->
  weave_stmt st n (SFor iv lb ub sp its rs body ys) =
  match weave_block [] n body with
  | Some (body', _, n1) => Some ([SFor iv lb ub sp its rs body' ys], [], n1)
  | None => None
  end.
Proof. intros H. cbn [weave_stmt]. rewrite H. reflexivity. Qed.

Theorem weave_for_effects_forgets st n iv lb ub sp its rs body ys xs st' n' :
  existsb stmt_has_effects body = true ->
  weave_stmt st n (SFor iv lb ub sp its rs body ys) = Some (xs, st', n') -> st' = [].
Proof.
  intros H Hw. rewrite (weave_stmt_for _ _ _ _ _ _ _ _ _ _ H) in Hw.
  destruct (weave_block [] n body) as [[[b' d] n1]|]; [|discriminate]. inversion Hw; reflexivity.
Qed.

(* ---- dictionaries ------------------------------------------------------------------------ *)
Lemma d_has_set a b v d : d_has a (d_set b v d) = Nat.eqb b a || d_has a d.
Proof.
  unfold d_has. induction d as [|[c w] d IH]; simpl.
  - destruct (Nat.eqb b a); reflexivity.
  - destruct (Nat.eqb c b) eqn:Ecb.
    + apply Nat.eqb_eq in Ecb. subst c. simpl. destruct (Nat.eqb b a); reflexivity.
    + simpl. destruct (Nat.eqb c a) eqn:Eca.
      * rewrite orb_true_r. reflexivity.
      * exact IH.
Qed.

Lemma d_has_filter a (q : acc * val -> bool) d : d_has a (filter q d) = true -> d_has a d = true.
Proof.
  unfold d_has. induction d as [|[c w] d IH]; simpl; [discriminate|].
  destruct (q (c, w)); simpl.
  - destruct (Nat.eqb c a); [reflexivity|exact IH].
  - intros H. destruct (Nat.eqb c a); [reflexivity|exact (IH H)].
Qed.

Lemma d_get_filter_some a (q : acc * val -> bool) d v :
  d_get a (filter q d) = Some v -> exists w, In (a, w) d /\ q (a, w) = true.
Proof.
  induction d as [|[c w] d IH]; simpl; [discriminate|].
  destruct (q (c, w)) eqn:Eq; simpl.
  - destruct (Nat.eqb c a) eqn:Eca.
    + apply Nat.eqb_eq in Eca. subst c. intros _. exists w. split; [left; reflexivity|exact Eq].
    + intros H. destruct (IH H) as [w' [Hin Hq]]. exists w'. split; [right; exact Hin|exact Hq].
  - intros H. destruct (IH H) as [w' [Hin Hq]]. exists w'. split; [right; exact Hin|exact Hq].
Qed.

Lemma d_has_In a w d : In (a, w) d -> d_has a d = true.
Proof.
  unfold d_has. induction d as [|[c u] d IH]; simpl; [tauto|]. intros [E|H].
  - inversion E; subst. rewrite Nat.eqb_refl. reflexivity.
  - destruct (Nat.eqb c a); [reflexivity|exact (IH H)].
Qed.

Lemma d_has_get a d : d_has a d = true <-> exists v, d_get a d = Some v.
Proof. unfold d_has. destruct (d_get a d) as [v|]; split; intros H; try discriminate; eauto. destruct H; discriminate. Qed.

(* the accelerators of the delta are present in both branch dictionaries *)
Lemma if_delta_both old st_t st_e a x y :
  In (a, x, y) (if_delta old st_t st_e) -> d_has a st_t = true /\ d_has a st_e = true.
Proof.
  unfold if_delta. rewrite in_app_iff. intros [H|H].
  - apply in_flat_map in H. destruct H as [[k v] [_ H]]. simpl in H.
    destruct (d_get k st_t) as [x'|] eqn:Et; [|destruct H].
    destruct (d_get k st_e) as [y'|] eqn:Ee; [|destruct H].
    destruct (Nat.eqb x' v && Nat.eqb y' v); [destruct H|].
    destruct H as [E|[]]. inversion E; subst.
    split; apply d_has_get; eauto.
  - apply in_flat_map in H. destruct H as [[k v] [Hin H]]. simpl in H.
    destruct (d_get k (filter (fun kv => negb (d_has (fst kv) old)) st_e)) as [y'|] eqn:Ee; [|destruct H].
    destruct H as [E|[]]. inversion E; subst.
    apply filter_In in Hin. split.
    + exact (d_has_In _ _ _ (proj1 Hin)).
    + destruct (d_get_filter_some _ _ _ _ Ee) as [w [Hw _]]. exact (d_has_In _ _ _ Hw).
Qed.

Lemma d_has_fold_set a (news : list (val * (acc * val * val))) d :
  d_has a (fold_left (fun d x => d_set (fst (fst (snd x))) (fst x) d) news d) = true ->
  d_has a d = true \/ exists x, In x news /\ fst (fst (snd x)) = a.
Proof.
  revert d. induction news as [|x news IH]; intros d H; [left; exact H|].
  simpl in H. apply IH in H. destruct H as [H|[z [Hz Ez]]].
  - rewrite d_has_set in H. apply orb_true_iff in H. destruct H as [H|H].
    + right. exists x. split; [left; reflexivity|apply Nat.eqb_eq; exact H].
    + left; exact H.
  - right. exists z. split; [right; exact Hz|exact Ez].
Qed.

Lemma weave_stmt_if st n c rs thn thy els ely :
  weave_stmt st n (SIf c rs thn thy els ely) =
  match weave_block st n thn with
  | Some (thn', st_t, n1) =>
      match weave_block st n1 els with
      | Some (els', st_e, n2) =>
          let st' := filter (fun kv => d_has (fst kv) st_t && d_has (fst kv) st_e) st in
          let delta := if_delta st' st_t st_e in
          match delta with
          | [] => Some ([SIf c rs thn' thy els' ely], st', n2)
          | _ =>
              let news := combine (seq n2 (length delta)) delta in
              let rs' := rs ++ map (fun x => (fst x, TState (fst (fst (snd x))))) news in
              let thy' := thy ++ map (fun x => snd (fst (snd x))) news in
              let ely' := ely ++ map (fun x => snd (snd x)) news in
              let st'' := fold_left (fun d x => d_set (fst (fst (snd x))) (fst x) d) news st' in
              Some ([SIf c rs' thn' thy' els' ely'], st'', (n2 + length delta)%nat)
          end
      | None => None
      end
  | None => None
  end.
Proof. reflexivity. Qed.

(* after an scf.if an accelerator has an assumed state only if both branches end with one *)
Theorem weave_if_both_branches st n c rs thn thy els ely xs st' n' thn' st_t n1 els' st_e n2 :
  weave_block st n thn = Some (thn', st_t, n1) ->
  weave_block st n1 els = Some (els', st_e, n2) ->
  weave_stmt st n (SIf c rs thn thy els ely) = Some (xs, st', n') ->
  forall a, d_has a st' = true -> d_has a st_t = true /\ d_has a st_e = true.
Proof.
  intros Ht He Hw a Ha. rewrite weave_stmt_if, Ht, He in Hw. cbv zeta in Hw.
  set (st0 := filter (fun kv => d_has (fst kv) st_t && d_has (fst kv) st_e) st) in *.
  assert (H0 : d_has a st0 = true -> d_has a st_t = true /\ d_has a st_e = true).
  { intros H. apply d_has_get in H. destruct H as [v Hv]. unfold st0 in Hv.
    destruct (d_get_filter_some _ _ _ _ Hv) as [w [_ Hq]]. simpl in Hq. apply andb_true_iff in Hq. exact Hq. }
  destruct (if_delta st0 st_t st_e) as [|d0 dl] eqn:Ed.
  - inversion Hw; subst. exact (H0 Ha).
  - inversion Hw; subst. clear Hw. apply d_has_fold_set in Ha. destruct Ha as [Ha|[x [Hx Ex]]].
    + rewrite d_has_set in Ha. apply orb_true_iff in Ha. destruct Ha as [Ha|Ha]; [|exact (H0 Ha)].
      apply Nat.eqb_eq in Ha. destruct d0 as [[a' xt] xe]. simpl in Ha. subst a'.
      apply (if_delta_both st0 st_t st_e a xt xe). rewrite Ed. left; reflexivity.
    + destruct x as [k [[a' xt] xe]]. apply in_combine_r in Hx. simpl in Ex. subst a'.
      apply (if_delta_both st0 st_t st_e a xt xe). rewrite Ed. right; exact Hx.
Qed.

(* a branch that ends in an unannotated call leaves nothing for the accelerator: together with the
   theorem above, the state known before the scf.if is not assumed after it (defect F2) *)
Lemma weave_block_app st n b1 b2 :
  weave_block st n (b1 ++ b2) =
  match weave_block st n b1 with
  | Some (x1, st1, n1) => match weave_block st1 n1 b2 with
                          | Some (x2, st2, n2) => Some (x1 ++ x2, st2, n2)
                          | None => None
                          end
  | None => None
  end.
Proof.
  revert st n. induction b1 as [|s b1 IH]; intros st n.
  - simpl. destruct (weave_block st n b2) as [[[x2 st2] n2]|]; reflexivity.
  - cbn [app weave_block]. destruct (weave_stmt st n s) as [[[xs st1] n1]|]; [|reflexivity].
    rewrite IH. destruct (weave_block st1 n1 b1) as [[[x1 st1'] n1']|]; [|reflexivity].
    destruct (weave_block st1' n1' b2) as [[[x2 st2] n2]|]; [|reflexivity]. rewrite app_assoc. reflexivity.
Qed.

Theorem weave_block_ending_in_call_forgets st n b g pu ds ar x st' n' :
  weave_block st n (b ++ [SCall g true pu ds ar]) = Some (x, st', n') -> st' = [].
Proof.
  rewrite weave_block_app. destruct (weave_block st n b) as [[[x1 st1] n1]|]; [|discriminate].
  cbn [weave_block]. rewrite weave_call_forgets. intros H. inversion H. reflexivity.
Qed.
