(* C19 (b) — StridePattern.canonicalize (GENERATED model Gen/StrideCanon.v) keeps the temporal address
   sequence, for every pattern with non-negative bounds (zero bounds/strides, unit bounds included).
   Structure: (1) loop-nest algebra; (2) the reference step `sp_step` preserves the sequence;
   (3) the generated fold refines `sp_step` (symbolic execution of the generated loop body). *)
From Snax Require Import Base.Prelude Base.ListAux Model.PyLib Model.C19Stride Gen.StrideCanon.

(* ---- (1) loop-nest algebra ------------------------------------------------------------------ *)
Lemma nest_app l1 : forall l2 base, nest (l1 ++ l2) base = nest l1 (nest l2 base).
Proof.
  induction l1 as [|[b s] l1 IH]; intros l2 base; cbn [app nest]; [reflexivity|]. rewrite IH. reflexivity.
Qed.

Lemma flat_map_nil_fn {A B} (l : list A) : flat_map (fun _ : A => @nil B) l = [].
Proof. induction l; simpl; auto. Qed.

Lemma nest_zero_bound s base : nest [(0, s)] base = [].
Proof. cbn [nest]. rewrite zrange_0. cbn [map]. apply flat_map_nil_fn. Qed.

Lemma nest_unit_bound s base : nest [(1, s)] base = base.
Proof.
  cbn [nest]. rewrite zrange_1. cbn [map].
  transitivity (flat_map (fun x => [x]) base); [|apply flat_map_singleton].
  apply flat_map_ext. intros o. f_equal; lia.
Qed.

Lemma nest_merge b0 s0 ub base : 0 <= b0 -> 0 <= ub ->
  nest [(b0, s0); (ub, b0 * s0)] base = nest [(b0 * ub, s0)] base.
Proof.
  intros Hb Hu. cbn [nest]. rewrite flat_map_flat_map. apply flat_map_ext. intros o.
  rewrite flat_map_map. replace (b0 * ub) with (ub * b0) by lia. rewrite zrange_mul by lia.
  rewrite map_flat_map. apply flat_map_ext. intros j. rewrite map_map. apply map_ext. intros i. lia.
Qed.

(* ---- (2) the reference step ------------------------------------------------------------------ *)
Definition bounds_nonneg (l : list (Z * Z)) : Prop := Forall (fun d => 0 <= fst d) l.

Lemma sp_step_nonneg acc d : bounds_nonneg acc -> 0 <= fst d -> bounds_nonneg (sp_step acc d).
Proof.
  intros Ha Hd. destruct d as [ub ts]. cbn [fst] in Hd. unfold sp_step.
  destruct (ub =? 0); [apply Forall_app; split; [exact Ha|repeat constructor; simpl; lia]|].
  destruct (ub =? 1); [exact Ha|].
  destruct (rev acc) as [|[pb ps] r] eqn:Er.
  - apply Forall_app; split; [exact Ha|repeat constructor; exact Hd].
  - destruct (pb * ps =? ts).
    + assert (Hacc : acc = rev r ++ [(pb, ps)]).
      { rewrite <- (rev_involutive acc), Er. reflexivity. }
      subst acc. apply Forall_app in Ha as [Ha1 Ha2]. inversion Ha2 as [|? ? Hpb _]; subst. cbn [fst] in Hpb.
      cbn [rev]. apply Forall_app; split; [exact Ha1|]. repeat constructor. cbn [fst]. nia.
    + apply Forall_app; split; [exact Ha|repeat constructor; exact Hd].
Qed.

Lemma nest_congr acc l l' base : nest l base = nest l' base -> nest (acc ++ l) base = nest (acc ++ l') base.
Proof. intros H. rewrite !nest_app, H. reflexivity. Qed.

Lemma nest_cons d rest base : nest (d :: rest) base = nest [d] (nest rest base).
Proof. change (d :: rest) with ([d] ++ rest). apply nest_app. Qed.

Lemma sp_step_nest acc d rest base : bounds_nonneg acc -> 0 <= fst d ->
  nest (sp_step acc d ++ rest) base = nest (acc ++ d :: rest) base.
Proof.
  intros Ha Hd. destruct d as [ub ts]. cbn [fst] in Hd. unfold sp_step.
  destruct (ub =? 0) eqn:E0.
  { apply Z.eqb_eq in E0. subst ub. rewrite <- app_assoc. apply nest_congr. cbn [app].
    rewrite (nest_cons (0, 0)), (nest_cons (0, ts)), !nest_zero_bound. reflexivity. }
  destruct (ub =? 1) eqn:E1.
  { apply Z.eqb_eq in E1. subst ub. apply nest_congr. rewrite (nest_cons (1, ts)), nest_unit_bound. reflexivity. }
  destruct (rev acc) as [|[pb ps] r] eqn:Er.
  { rewrite <- app_assoc. reflexivity. }
  destruct (pb * ps =? ts) eqn:Em; [|rewrite <- app_assoc; reflexivity].
  apply Z.eqb_eq in Em. subst ts.
  assert (Hacc : acc = rev r ++ [(pb, ps)]).
  { rewrite <- (rev_involutive acc), Er. reflexivity. }
  subst acc. apply Forall_app in Ha as [_ Ha2]. inversion Ha2 as [|? ? Hpb _]; subst. cbn [fst] in Hpb.
  cbn [rev]. rewrite <- !app_assoc. apply nest_congr. cbn [app].
  rewrite (nest_cons (pb * ub, ps)), (nest_cons (pb, ps)), (nest_cons (ub, pb * ps)).
  symmetry. exact (nest_merge pb ps ub (nest rest base) Hpb Hd).
Qed.

Lemma sp_fold_nest items : forall acc base, bounds_nonneg acc -> bounds_nonneg items ->
  nest (fold_left sp_step items acc) base = nest (acc ++ items) base.
Proof.
  induction items as [|d items IH]; intros acc base Ha Hi; cbn [fold_left].
  - rewrite app_nil_r. reflexivity.
  - inversion Hi as [|? ? Hd Hi']; subst.
    rewrite IH by (try apply sp_step_nonneg; assumption).
    apply sp_step_nest; assumption.
Qed.

(* ---- (3) the generated loop refines sp_step --------------------------------------------------- *)
Lemma list_last_snoc {A} (l : list A) x : list_last (l ++ [x]) = Some x.
Proof. unfold list_last. rewrite rev_app_distr. reflexivity. Qed.

Lemma list_set_last_snoc {A} (l : list A) x v : list_set_last (l ++ [x]) v = Some (l ++ [v]).
Proof. unfold list_set_last. rewrite rev_app_distr. cbn [rev app]. rewrite rev_involutive. reflexivity. Qed.

Lemma combine_snoc {A B} (l1 : list A) : forall (l2 : list B) x y, length l1 = length l2 ->
  combine (l1 ++ [x]) (l2 ++ [y]) = combine l1 l2 ++ [(x, y)].
Proof.
  induction l1 as [|a l1 IH]; intros [|b l2] x y H; simpl in H; try discriminate; [reflexivity|].
  cbn [app combine]. rewrite IH by lia. reflexivity.
Qed.

Lemma snoc_cases {A} (l : list A) : l = [] \/ exists l' x, l = l' ++ [x].
Proof.
  destruct l as [|a l]; [left; reflexivity|]. right.
  destruct (@exists_last _ (a :: l)) as [l' [x E]]; [discriminate|]. exists l', x. exact E.
Qed.

(* state of the generated fold = (new_temporal_strides, new_upper_bounds); abstraction = combine ubs tss *)
Definition st_ok (tss ubs : list Z) (acc : list (Z * Z)) : Prop :=
  length tss = length ubs /\ combine ubs tss = acc.

Lemma gen_canon_refines p p' :
  StridePattern_canonicalize p = Some p' ->
  (existsb (fun x => x =? 0) (sp_ss p) = true /\ p' = p) \/
  (existsb (fun x => x =? 0) (sp_ss p) = false /\ sp_ss p' = sp_ss p /\ length (sp_ub p') = length (sp_ts p') /\
   combine (sp_ub p') (sp_ts p') = fold_left sp_step (combine (sp_ub p) (sp_ts p)) []).
Proof.
  unfold StridePattern_canonicalize. destruct (existsb _ (sp_ss p)) eqn:Ess.
  { intros H. injection H as <-. left. split; reflexivity. }
  rewrite !map_id. intros H. right. split; [reflexivity|].
  match type of H with context[fold_left ?f _ _] => set (step := f) in H end.
  assert (Hstep : forall tss ubs ub ts acc, st_ok tss ubs acc ->
            exists tss' ubs', step (Some (Cont (tss, ubs))) (ub, ts) = Some (Cont (tss', ubs'))
                              /\ st_ok tss' ubs' (sp_step acc (ub, ts))).
  { intros tss ubs ub ts acc [Hl Hc]. subst acc. unfold step, sp_step.
    destruct (ub =? 0) eqn:E0.
    { eexists _, _. split; [reflexivity|]. split; [rewrite !app_length; simpl; lia|]. apply combine_snoc. lia. }
    destruct (ub =? 1) eqn:E1.
    { eexists _, _. split; [reflexivity|]. split; [exact Hl|reflexivity]. }
    destruct (snoc_cases ubs) as [->|[ubs' [xb ->]]].
    { destruct tss; [|discriminate Hl]. cbn. eexists _, _. split; [reflexivity|]. split; reflexivity. }
    destruct (snoc_cases tss) as [->|[tss' [xs ->]]].
    { rewrite app_length in Hl. simpl in Hl. lia. }
    assert (Hl' : length tss' = length ubs') by (rewrite !app_length in Hl; simpl in Hl; lia).
    rewrite combine_snoc by lia. rewrite rev_app_distr. cbn [rev app].
    replace (negb (Z.of_nat (length (ubs' ++ [xb])) =? 0)) with true
      by (rewrite app_length; simpl; symmetry; apply negb_true_iff; lia).
    rewrite !list_last_snoc. destruct (xb * xs =? ts) eqn:Em.
    - rewrite list_set_last_snoc. eexists _, _. split; [reflexivity|].
      split; [rewrite !app_length; simpl; lia|]. rewrite combine_snoc by lia. rewrite rev_involutive. reflexivity.
    - eexists _, _. split; [reflexivity|]. split; [rewrite !app_length; simpl; lia|].
      rewrite <- combine_snoc by lia. apply combine_snoc. rewrite !app_length; simpl; lia. }
  clearbody step.
  assert (Hfold : forall items tss ubs acc, st_ok tss ubs acc ->
            exists tss' ubs', fold_left step items (Some (Cont (tss, ubs))) = Some (Cont (tss', ubs'))
                              /\ st_ok tss' ubs' (fold_left sp_step items acc)).
  { induction items as [|[ub ts] items IH]; intros tss ubs acc Hok; cbn [fold_left].
    - eexists _, _. split; [reflexivity|exact Hok].
    - destruct (Hstep tss ubs ub ts acc Hok) as [tss1 [ubs1 [E1 Hok1]]]. rewrite E1. apply IH. exact Hok1. }
  destruct (Hfold (combine (sp_ub p) (sp_ts p)) [] [] []) as [tss' [ubs' [E [Hl Hc]]]]; [split; reflexivity|].
  change (@nil Z : list Z) with (@nil Z) in H. rewrite E in H. injection H as <-.
  cbn [sp_ss sp_ub sp_ts]. split; [reflexivity|]. split; [lia|exact Hc].
Qed.

(* ---- the theorem ------------------------------------------------------------------------------ *)
Theorem stride_canon_words p p' :
  Forall (fun b => 0 <= b) (sp_ub p) ->
  StridePattern_canonicalize p = Some p' ->
  sp_ss p' = sp_ss p /\ taddrs p' = taddrs p.
Proof.
  intros Hb H. destruct (gen_canon_refines p p' H) as [[_ ->]|[_ [Hss [_ Hc]]]]; [split; reflexivity|].
  split; [exact Hss|]. unfold taddrs. rewrite Hc.
  rewrite sp_fold_nest; [reflexivity|constructor|].
  unfold bounds_nonneg. clear -Hb. revert Hb. generalize (sp_ts p).
  induction (sp_ub p) as [|b bs IH]; intros ts Hb; [constructor|].
  destruct ts as [|t ts]; [constructor|]. inversion Hb; subst. cbn [combine]. constructor; [assumption|apply IH; assumption].
Qed.

(* canonicalize never fails (no exception path) *)
Theorem stride_canon_total p : exists p', StridePattern_canonicalize p = Some p'.
Proof.
  destruct (StridePattern_canonicalize p) as [p'|] eqn:E; [eauto|exfalso].
  revert E. unfold StridePattern_canonicalize. destruct (existsb _ (sp_ss p)); [discriminate|].
  rewrite !map_id.
  match goal with |- context[fold_left ?f _ _] => set (step := f) end.
  assert (Hstep : forall tss ubs d, length tss = length ubs ->
            exists tss' ubs', step (Some (Cont (tss, ubs))) d = Some (Cont (tss', ubs')) /\ length tss' = length ubs').
  { intros tss ubs [ub ts] Hl. unfold step.
    destruct (ub =? 0). { eexists _, _. split; [reflexivity|]. rewrite !app_length; simpl; lia. }
    destruct (ub =? 1). { eexists _, _. split; [reflexivity|exact Hl]. }
    destruct (snoc_cases ubs) as [->|[ubs' [xb ->]]].
    { destruct tss; [|discriminate Hl]. cbn. eexists _, _. split; reflexivity. }
    destruct (snoc_cases tss) as [->|[tss' [xs ->]]].
    { rewrite app_length in Hl. simpl in Hl. lia. }
    replace (negb (Z.of_nat (length (ubs' ++ [xb])) =? 0)) with true
      by (rewrite app_length; simpl; symmetry; apply negb_true_iff; lia).
    rewrite !list_last_snoc. destruct (xb * xs =? ts).
    - rewrite list_set_last_snoc. eexists _, _. split; [reflexivity|]. rewrite !app_length in *; simpl in *; lia.
    - eexists _, _. split; [reflexivity|]. rewrite !app_length in *; simpl in *; lia. }
  clearbody step.
  assert (Hfold : forall items tss ubs, length tss = length ubs ->
            exists tss' ubs', fold_left step items (Some (Cont (tss, ubs))) = Some (Cont (tss', ubs')) /\ length tss' = length ubs').
  { induction items as [|d items IH]; intros tss ubs Hl; cbn [fold_left].
    - eexists _, _. split; [reflexivity|exact Hl].
    - destruct (Hstep tss ubs d Hl) as [t1 [u1 [E1 H1]]]. rewrite E1. apply IH. exact H1. }
  destruct (Hfold (combine (sp_ub p) (sp_ts p)) [] [] eq_refl) as [t' [u' [E _]]].
  change (@nil Z : list Z) with (@nil Z). rewrite E. discriminate.
Qed.
