(* C19 (b) — StridePattern.canonicalize (GENERATED model Gen/StrideCanon.v) keeps the temporal address
   sequence, for every pattern with non-negative bounds (zero bounds/strides, unit bounds included).
   Structure: (1) loop-nest algebra; (2) the reference step `sp_step` preserves the sequence;
   (3) the generated fold refines `sp_step` (symbolic execution of the generated loop body). *)
From Snax Require Import Base.Prelude Base.ListAux Model.PyLib Model.C19Stride Gen.StrideCanon.

(* ---- (1) loop-nest algebra ------------------------------------------------------------------ *)
Lemma nest_app l1 : forall l2 base, nest (l1 ++ l2) base = nest l1 (nest l2 base).
Proof.
  induction l1 as [|[b s] l1 IH]; intros l2 base; cbn [app nest]; [reflexivity|]. rewrite IH. reflexivity.
Qed.

Lemma flat_map_nil_fn {A B} (l : list A) : flat_map (fun _ : A => @nil B) l = [].
Proof. induction l; simpl; auto. Qed.

Lemma nest_zero_bound s base : nest [(0, s)] base = [].
Proof. cbn [nest]. rewrite zrange_0. cbn [map]. apply flat_map_nil_fn. Qed.

Lemma nest_unit_bound s base : nest [(1, s)] base = base.
Proof.
  cbn [nest]. rewrite zrange_1. cbn [map].
  transitivity (flat_map (fun x => [x]) base); [|apply flat_map_singleton].
  apply flat_map_ext. intros o. f_equal; lia.
Qed.

Lemma nest_merge b0 s0 ub base : 0 <= b0 -> 0 <= ub ->
  nest [(b0, s0); (ub, b0 * s0)] base = nest [(b0 * ub, s0)] base.
Proof.
  intros Hb Hu. cbn [nest]. rewrite flat_map_flat_map. apply flat_map_ext. intros o.
  rewrite flat_map_map. replace (b0 * ub) with (ub * b0) by lia. rewrite zrange_mul by lia.
  rewrite map_flat_map. apply flat_map_ext. intros j. rewrite map_map. apply map_ext. intros i. lia.
Qed.

(* ---- (2) the reference step ------------------------------------------------------------------ *)
Definition bounds_nonneg (l : list (Z * Z)) : Prop := Forall (fun d => 0 <= fst d) l.

Lemma sp_step_nonneg acc d : bounds_nonneg acc -> 0 <= fst d -> bounds_nonneg (sp_step acc d).
Proof.
  intros Ha Hd. destruct d as [ub ts]. cbn [fst] in Hd. unfold sp_step.
  destruct (ub =? 0); [apply Forall_app; split; [exact Ha|repeat constructor; simpl; lia]|].
  destruct (ub =? 1); [exact Ha|].
  destruct (rev acc) as [|[pb ps] r] eqn:Er.
  - apply Forall_app; split; [exact Ha|repeat constructor; exact Hd].
  - destruct (pb * ps =? ts).
    + assert (Hacc : acc = rev r ++ [(pb, ps)]).
      { rewrite <- (rev_involutive acc), Er. reflexivity. }
      subst acc. apply Forall_app in Ha as [Ha1 Ha2]. inversion Ha2 as [|? ? Hpb _]; subst. cbn [fst] in Hpb.
      cbn [rev]. apply Forall_app; split; [exact Ha1|]. repeat constructor. cbn [fst]. nia.
    + apply Forall_app; split; [exact Ha|repeat constructor; exact Hd].
Qed.

Lemma nest_congr acc l l' base : nest l base = nest l' base -> nest (acc ++ l) base = nest (acc ++ l') base.
Proof. intros H. rewrite !nest_app, H. reflexivity. Qed.

Lemma nest_cons d rest base : nest (d :: rest) base = nest [d] (nest rest base).
Proof. change (d :: rest) with ([d] ++ rest). apply nest_app. Qed.

Lemma sp_step_nest acc d rest base : bounds_nonneg acc -> 0 <= fst d ->
  nest (sp_step acc d ++ rest) base = nest (acc ++ d :: rest) base.
Proof.
  intros Ha Hd. destruct d as [ub ts]. cbn [fst] in Hd. unfold sp_step.
  destruct (ub =? 0) eqn:E0.
  { apply Z.eqb_eq in E0. subst ub. rewrite <- app_assoc. apply nest_congr. cbn [app].
    rewrite (nest_cons (0, 0)), (nest_cons (0, ts)), !nest_zero_bound. reflexivity. }
  destruct (ub =? 1) eqn:E1.
  { apply Z.eqb_eq in E1. subst ub. apply nest_congr. rewrite (nest_cons (1, ts)), nest_unit_bound. reflexivity. }
  destruct (rev acc) as [|[pb ps] r] eqn:Er.
  { rewrite <- app_assoc. reflexivity. }
  destruct (pb * ps =? ts) eqn:Em; [|rewrite <- app_assoc; reflexivity].
  apply Z.eqb_eq in Em. subst ts.
  assert (Hacc : acc = rev r ++ [(pb, ps)]).
  { rewrite <- (rev_involutive acc), Er. reflexivity. }
  subst acc. apply Forall_app in Ha as [_ Ha2]. inversion Ha2 as [|? ? Hpb _]; subst. cbn [fst] in Hpb.
  cbn [rev]. rewrite <- !app_assoc. apply nest_congr. cbn [app].
  rewrite (nest_cons (pb * ub, ps)), (nest_cons (pb, ps)), (nest_cons (ub, pb * ps)).
  symmetry. exact (nest_merge pb ps ub (nest rest base) Hpb Hd).
Qed.

Lemma sp_fold_nest items : forall acc base, bounds_nonneg acc -> bounds_nonneg items ->
  nest (fold_left sp_step items acc) base = nest (acc ++ items) base.
Proof.
  induction items as [|d items IH]; intros acc base Ha Hi; cbn [fold_left].
  - rewrite app_nil_r. reflexivity.
  - inversion Hi as [|? ? Hd Hi']; subst.
    rewrite IH by (try apply sp_step_nonneg; assumption).
    apply sp_step_nest; assumption.
Qed.

(* ---- (3) the generated loop refines sp_step --------------------------------------------------- *)
Lemma list_last_snoc {A} (l : list A) x : list_last (l ++ [x]) = Some x.
Proof. unfold list_last. rewrite rev_app_distr. reflexivity. Qed.

Lemma list_set_last_snoc {A} (l : list A) x v : list_set_last (l ++ [x]) v = Some (l ++ [v]).
Proof. unfold list_set_last. rewrite rev_app_distr. cbn [rev app]. rewrite rev_involutive. reflexivity. Qed.

Lemma combine_snoc {A B} (l1 : list A) : forall (l2 : list B) x y, length l1 = length l2 ->
  combine (l1 ++ [x]) (l2 ++ [y]) = combine l1 l2 ++ [(x, y)].
Proof.
  induction l1 as [|a l1 IH]; intros [|b l2] x y H; simpl in H; try discriminate; [reflexivity|].
  cbn [app combine]. rewrite IH by lia. reflexivity.
Qed.

Lemma snoc_cases {A} (l : list A) : l = [] \/ exists l' x, l = l' ++ [x].
Proof.
  destruct l as [|a l]; [left; reflexivity|]. right.
  destruct (@exists_last _ (a :: l)) as [l' [x E]]; [discriminate|]. exists l', x. exact E.
Qed.

(* case split on every integer equality test left in the goal (robust against the way the Python
   writes the test: operand order, == vs swapped ==) *)
Ltac split_eqb :=
  repeat match goal with
         | |- context[?a =? ?b] =>
             let E := fresh "E" in destruct (a =? b) eqn:E; [apply Z.eqb_eq in E | apply Z.eqb_neq in E]
         end.

(* the generated fold carries the two accumulators (temporal strides, upper bounds); abstraction = combine ubs tss *)
Definition st_ok (tss ubs : list Z) (acc : list (Z * Z)) : Prop :=
  length tss = length ubs /\ combine ubs tss = acc.

(* The generated fold keeps its two accumulators in a pair whose ORDER is the alphabetical order of the
   Python local names (translator: `sorted`).  The refinement is therefore proved for both orders (`mk` builds
   the state pair from the strides accumulator and the bounds accumulator), so that renaming the locals of
   StridePattern.canonicalize does not break the proof. *)
Ltac canon_step_tac :=
  let tss := fresh "tss" in let ubs := fresh "ubs" in let ub := fresh "ub" in let ts := fresh "ts" in
  let acc := fresh "acc" in let Hl := fresh "Hl" in let Hc := fresh "Hc" in
  let E0 := fresh "E0" in let E1 := fresh "E1" in
  let ubs' := fresh "ubs'" in let xb := fresh "xb" in let tss' := fresh "tss'" in let xs := fresh "xs" in
  intros tss ubs ub ts acc [Hl Hc]; subst acc; unfold sp_step; cbn beta;
  destruct (ub =? 0) eqn:E0;
  [ eexists _, _; split; [reflexivity|]; split; [rewrite !app_length; simpl; lia|]; apply combine_snoc; lia |];
  destruct (ub =? 1) eqn:E1;
  [ eexists _, _; split; [reflexivity|]; split; [exact Hl|reflexivity] |];
  destruct (snoc_cases ubs) as [->|[ubs' [xb ->]]];
  [ destruct tss; [|discriminate Hl]; cbn; eexists _, _; split; [reflexivity|]; split; reflexivity |];
  destruct (snoc_cases tss) as [->|[tss' [xs ->]]];
  [ rewrite app_length in Hl; simpl in Hl; lia |];
  assert (length tss' = length ubs') by (rewrite !app_length in Hl; simpl in Hl; lia);
  rewrite combine_snoc by lia; rewrite rev_app_distr; cbn [rev app];
  replace (negb (Z.of_nat (length (ubs' ++ [xb])) =? 0)) with true
    by (rewrite app_length; simpl; symmetry; apply negb_true_iff; lia);
  rewrite !list_last_snoc; split_eqb; try (exfalso; lia);
  [ rewrite list_set_last_snoc; eexists _, _; split; [reflexivity|];
    split; [rewrite !app_length; simpl; lia|]; rewrite combine_snoc by lia; rewrite rev_involutive; reflexivity
  | eexists _, _; split; [reflexivity|]; split; [rewrite !app_length; simpl; lia|];
    rewrite <- combine_snoc by lia; apply combine_snoc; rewrite !app_length; simpl; lia ].

Definition mk_tu (t u : list Z) : list Z * list Z := (t, u).     (* state = (strides, bounds) *)
Definition mk_ut (t u : list Z) : list Z * list Z := (u, t).     (* state = (bounds, strides) *)

Ltac canon_refines_tail mk step H p :=
  let Hstep := fresh "Hstep" in let Hfold := fresh "Hfold" in
  assert (Hstep : forall tss ubs ub ts acc, st_ok tss ubs acc ->
            exists tss' ubs', step (Some (Cont (mk tss ubs))) (ub, ts) = Some (Cont (mk tss' ubs'))
                              /\ st_ok tss' ubs' (sp_step acc (ub, ts)))
    by (unfold step, mk; canon_step_tac);
  clearbody step;
  assert (Hfold : forall items tss ubs acc, st_ok tss ubs acc ->
            exists tss' ubs', fold_left step items (Some (Cont (mk tss ubs))) = Some (Cont (mk tss' ubs'))
                              /\ st_ok tss' ubs' (fold_left sp_step items acc))
    by (let items := fresh "items" in let IH := fresh "IH" in let Hok := fresh "Hok" in
        let tss := fresh "tss" in let ubs := fresh "ubs" in let acc := fresh "acc" in
        let ub := fresh "ub" in let ts := fresh "ts" in
        induction items as [|[ub ts] items IH]; intros tss ubs acc Hok; cbn [fold_left];
        [ eexists _, _; split; [reflexivity|exact Hok]
        | let t1 := fresh "t1" in let u1 := fresh "u1" in let E1 := fresh "E1" in let Hok1 := fresh "Hok1" in
          destruct (Hstep tss ubs ub ts acc Hok) as [t1 [u1 [E1 Hok1]]]; rewrite E1; apply IH; exact Hok1 ]);
  let t' := fresh "t'" in let u' := fresh "u'" in let E := fresh "E" in let Hl := fresh "Hl" in let Hc := fresh "Hc" in
  destruct (Hfold (combine (sp_ub p) (sp_ts p)) (@nil Z) (@nil Z) (@nil (Z * Z))) as [t' [u' [E [Hl Hc]]]];
  [split; reflexivity|];
  unfold mk in E; rewrite E in H; injection H as <-;
  cbn [sp_ss sp_ub sp_ts]; split; [reflexivity|]; split; [lia|exact Hc].

Lemma gen_canon_refines p p' :
  StridePattern_canonicalize p = Some p' ->
  (existsb (fun x => x =? 0) (sp_ss p) = true /\ p' = p) \/
  (existsb (fun x => x =? 0) (sp_ss p) = false /\ sp_ss p' = sp_ss p /\ length (sp_ub p') = length (sp_ts p') /\
   combine (sp_ub p') (sp_ts p') = fold_left sp_step (combine (sp_ub p) (sp_ts p)) []).
Proof.
  unfold StridePattern_canonicalize. destruct (existsb _ (sp_ss p)) eqn:Ess.
  { intros H. injection H as <-. left. split; reflexivity. }
  rewrite !map_id. intros H. right. split; [reflexivity|].
  match type of H with context[fold_left ?f _ _] => set (step := f) in H end.
  first [ canon_refines_tail mk_tu step H p | canon_refines_tail mk_ut step H p ].
Qed.

Ltac canon_total_tail mk step p :=
  let Hstep := fresh "Hstep" in let Hfold := fresh "Hfold" in
  assert (Hstep : forall tss ubs ub ts acc, st_ok tss ubs acc ->
            exists tss' ubs', step (Some (Cont (mk tss ubs))) (ub, ts) = Some (Cont (mk tss' ubs'))
                              /\ st_ok tss' ubs' (sp_step acc (ub, ts)))
    by (unfold step, mk; canon_step_tac);
  clearbody step;
  assert (Hfold : forall items tss ubs acc, st_ok tss ubs acc ->
            exists tss' ubs', fold_left step items (Some (Cont (mk tss ubs))) = Some (Cont (mk tss' ubs'))
                              /\ st_ok tss' ubs' (fold_left sp_step items acc))
    by (let items := fresh "items" in let IH := fresh "IH" in let Hok := fresh "Hok" in
        let tss := fresh "tss" in let ubs := fresh "ubs" in let acc := fresh "acc" in
        let ub := fresh "ub" in let ts := fresh "ts" in
        induction items as [|[ub ts] items IH]; intros tss ubs acc Hok; cbn [fold_left];
        [ eexists _, _; split; [reflexivity|exact Hok]
        | let t1 := fresh "t1" in let u1 := fresh "u1" in let E1 := fresh "E1" in let Hok1 := fresh "Hok1" in
          destruct (Hstep tss ubs ub ts acc Hok) as [t1 [u1 [E1 Hok1]]]; rewrite E1; apply IH; exact Hok1 ]);
  let t' := fresh "t'" in let u' := fresh "u'" in let E := fresh "E" in
  destruct (Hfold (combine (sp_ub p) (sp_ts p)) (@nil Z) (@nil Z) (@nil (Z * Z))) as [t' [u' [E _]]];
  [split; reflexivity|];
  unfold mk in E; rewrite E; discriminate.

(* ---- the theorem ------------------------------------------------------------------------------ *)
Theorem stride_canon_words p p' :
  Forall (fun b => 0 <= b) (sp_ub p) ->
  StridePattern_canonicalize p = Some p' ->
  sp_ss p' = sp_ss p /\ taddrs p' = taddrs p.
Proof.
  intros Hb H. destruct (gen_canon_refines p p' H) as [[_ ->]|[_ [Hss [_ Hc]]]]; [split; reflexivity|].
  split; [exact Hss|]. unfold taddrs. rewrite Hc.
  rewrite sp_fold_nest; [reflexivity|constructor|].
  unfold bounds_nonneg. clear -Hb. revert Hb. generalize (sp_ts p).
  induction (sp_ub p) as [|b bs IH]; intros ts Hb; [constructor|].
  destruct ts as [|t ts]; [constructor|]. inversion Hb; subst. cbn [combine]. constructor; [assumption|apply IH; assumption].
Qed.

(* canonicalize never fails (no exception path): every pattern is in the domain of the refinement *)
Theorem stride_canon_total p : exists p', StridePattern_canonicalize p = Some p'.
Proof.
  destruct (StridePattern_canonicalize p) as [p'|] eqn:E; [eauto|exfalso].
  revert E. unfold StridePattern_canonicalize. destruct (existsb _ (sp_ss p)); [discriminate|].
  rewrite !map_id.
  match goal with |- context[fold_left ?f _ _] => set (step := f) end.
  first [ canon_total_tail mk_tu step p | canon_total_tail mk_ut step p ].
Qed.

(* ---- idempotence ------------------------------------------------------------------------------
   sp_step works at the end of the accumulator: view the accumulator as a stack (head = last entry). *)
Definition sp_step_r (st : list (Z * Z)) (d : Z * Z) : list (Z * Z) :=
  let '(ub, ts) := d in
  if ub =? 0 then (0, 0) :: st
  else if ub =? 1 then st
  else match st with
       | (pb, ps) :: r => if pb * ps =? ts then (pb * ub, ps) :: r else (ub, ts) :: st
       | [] => [(ub, ts)]
       end.

Lemma sp_step_rev acc d : sp_step acc d = rev (sp_step_r (rev acc) d).
Proof.
  destruct d as [ub ts]. unfold sp_step, sp_step_r.
  destruct (ub =? 0); [cbn [rev]; rewrite rev_involutive; reflexivity|].
  destruct (ub =? 1); [rewrite rev_involutive; reflexivity|].
  destruct (rev acc) as [|[pb ps] r] eqn:Er.
  - cbn [rev app]. rewrite <- (rev_involutive acc), Er. reflexivity.
  - destruct (pb * ps =? ts); [reflexivity|]. rewrite <- Er. cbn [rev]. rewrite rev_involutive. reflexivity.
Qed.

Lemma sp_fold_rev items : forall acc, fold_left sp_step items acc = rev (fold_left sp_step_r items (rev acc)).
Proof.
  induction items as [|d items IH]; intros acc; cbn [fold_left]; [rewrite rev_involutive; reflexivity|].
  rewrite IH, sp_step_rev, rev_involutive. reflexivity.
Qed.

(* canonical stacks: entries are (0,0) or have bound >= 2; an entry with bound >= 2 does not continue
   the entry below it *)
Fixpoint canon_st (st : list (Z * Z)) : Prop :=
  match st with
  | [] => True
  | d :: r => ((fst d = 0 /\ snd d = 0) \/ 2 <= fst d)
              /\ (2 <= fst d -> match r with p :: _ => fst p * snd p <> snd d | [] => True end)
              /\ canon_st r
  end.

Lemma sp_step_r_canon st d : canon_st st -> 0 <= fst d -> canon_st (sp_step_r st d).
Proof.
  intros Hc Hd. destruct d as [ub ts]. cbn [fst] in Hd. unfold sp_step_r.
  destruct (ub =? 0) eqn:E0.
  { cbn [canon_st fst snd]. split; [left; split; reflexivity|]. split; [lia|exact Hc]. }
  destruct (ub =? 1) eqn:E1; [exact Hc|].
  apply Z.eqb_neq in E0, E1.
  destruct st as [|[pb ps] r].
  { cbn [canon_st fst snd]. split; [right; lia|]. split; [tauto|exact I]. }
  destruct (pb * ps =? ts) eqn:Em.
  - cbn [canon_st fst snd] in Hc |- *. destruct Hc as [Hb [Hadj Hr]].
    split; [|split; [|exact Hr]].
    + destruct Hb as [[-> ->]|Hb]; [left; split; lia|right; nia].
    + intros H2. apply Hadj. destruct Hb as [[-> _]|Hb]; lia.
  - apply Z.eqb_neq in Em. cbn [canon_st fst snd] in Hc |- *.
    split; [right; lia|]. split; [intros _; exact Em|exact Hc].
Qed.

Lemma sp_fold_r_canon items : forall st, canon_st st -> Forall (fun d => 0 <= fst d) items ->
  canon_st (fold_left sp_step_r items st).
Proof.
  induction items as [|d items IH]; intros st Hc Hi; cbn [fold_left]; [exact Hc|].
  inversion Hi; subst. apply IH; [apply sp_step_r_canon|]; assumption.
Qed.

Lemma canon_st_suffix a : forall b, canon_st (a ++ b) -> canon_st b.
Proof. induction a as [|x a IH]; intros b H; [exact H|]. apply IH. cbn [app canon_st] in H. tauto. Qed.

Lemma sp_step_r_id d st : canon_st (d :: st) -> sp_step_r st d = d :: st.
Proof.
  destruct d as [b s]. cbn [canon_st fst snd]. intros [Hb [Hadj _]]. unfold sp_step_r.
  destruct Hb as [[-> ->]|Hb]; [reflexivity|].
  replace (b =? 0) with false by lia. replace (b =? 1) with false by lia.
  destruct st as [|[pb ps] r]; [reflexivity|].
  specialize (Hadj Hb). cbn [fst snd] in Hadj. replace (pb * ps =? s) with false by lia. reflexivity.
Qed.

Lemma sp_fold_r_id rest : forall st, canon_st (rev rest ++ st) -> fold_left sp_step_r rest st = rev rest ++ st.
Proof.
  induction rest as [|d rest IH]; intros st H; cbn [fold_left rev app]; [reflexivity|].
  cbn [rev] in H. rewrite <- app_assoc in H. cbn [app] in H.
  rewrite sp_step_r_id by (apply (canon_st_suffix (rev rest)); exact H).
  rewrite IH by exact H. rewrite <- app_assoc. reflexivity.
Qed.

(* the reference loop is idempotent on non-negative bounds *)
Lemma sp_fold_idempotent items : Forall (fun d => 0 <= fst d) items ->
  fold_left sp_step (fold_left sp_step items []) [] = fold_left sp_step items [].
Proof.
  intros Hi. rewrite !sp_fold_rev. cbn [rev]. f_equal.
  set (c := fold_left sp_step_r items []).
  assert (Hc : canon_st c) by (apply sp_fold_r_canon; [exact I|exact Hi]).
  rewrite sp_fold_r_id; rewrite rev_involutive, app_nil_r; [reflexivity|exact Hc].
Qed.

Lemma combine_inj {A B} (a1 : list A) : forall a2 (b1 b2 : list B),
  length a1 = length b1 -> length a2 = length b2 -> combine a1 b1 = combine a2 b2 -> a1 = a2 /\ b1 = b2.
Proof.
  induction a1 as [|x a1 IH]; intros [|y a2] [|u b1] [|v b2] H1 H2 H; simpl in *; try discriminate; try lia; [split; reflexivity|].
  injection H as -> -> H. destruct (IH a2 b1 b2) as [-> ->]; [lia|lia|exact H|]. split; reflexivity.
Qed.

Lemma combine_nonneg (ub : list Z) : forall ts, Forall (fun b => 0 <= b) ub -> Forall (fun d : Z * Z => 0 <= fst d) (combine ub ts).
Proof.
  induction ub as [|b bs IH]; intros ts Hb; [constructor|].
  destruct ts as [|t ts]; [constructor|]. inversion Hb; subst. cbn [combine]. constructor; [assumption|apply IH; assumption].
Qed.

(* canonicalize is idempotent (on the generated model) for every pattern with non-negative bounds *)
Theorem stride_canon_idempotent p p' :
  Forall (fun b => 0 <= b) (sp_ub p) ->
  StridePattern_canonicalize p = Some p' -> StridePattern_canonicalize p' = Some p'.
Proof.
  intros Hb H. destruct (gen_canon_refines p p' H) as [[Hz ->]|[Hz [Hss [Hl Hc]]]]; [exact H|].
  destruct (stride_canon_total p') as [p'' H2]. rewrite H2. f_equal.
  destruct (gen_canon_refines p' p'' H2) as [[_ ->]|[_ [Hss2 [Hl2 Hc2]]]]; [reflexivity|].
  rewrite Hc in Hc2. rewrite sp_fold_idempotent in Hc2 by (apply combine_nonneg; exact Hb). rewrite <- Hc in Hc2.
  destruct (combine_inj _ _ _ _ Hl2 Hl Hc2) as [Hu Ht].
  destruct p' as [u t s], p'' as [u2 t2 s2]. cbn [sp_ub sp_ts sp_ss] in *. congruence.
Qed.
