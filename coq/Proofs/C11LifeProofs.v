(* Proofs about Model/C11Life.v : lifetimes cover every use, and with any solver that honours the
   minimalloc contract no two live buffers overlap (C11). *)
From Snax Require Import Base.Prelude Base.ListAux Model.C11Life.

(* ---- fold max ------------------------------------------------------------------- *)
Lemma fold_max_ge_init : forall l a, (a <= fold_left Nat.max l a)%nat.
Proof. induction l as [|x l IH]; intros a; cbn [fold_left]; [lia|]. specialize (IH (Nat.max a x)). lia. Qed.

Lemma fold_max_ge_in : forall l a x, In x l -> (x <= fold_left Nat.max l a)%nat.
Proof.
  induction l as [|y l IH]; intros a x Hin; [contradiction|]. cbn [fold_left]. destruct Hin as [->|Hin].
  - pose proof (fold_max_ge_init l (Nat.max a x)). lia.
  - apply IH, Hin.
Qed.

Lemma fold_max_is : forall l a, fold_left Nat.max l a = a \/ In (fold_left Nat.max l a) l.
Proof.
  induction l as [|y l IH]; intros a; cbn [fold_left]; [left; reflexivity|].
  destruct (IH (Nat.max a y)) as [H|H].
  - rewrite H. destruct (Nat.max_spec a y) as [[_ E]|[_ E]]; rewrite E; [right; left; reflexivity|left; reflexivity].
  - right. right. exact H.
Qed.

(* ---- closure -------------------------------------------------------------------- *)
Lemma mem_nat_In x l : mem_nat x l = true <-> In x l.
Proof.
  unfold mem_nat. rewrite existsb_exists. split.
  - intros [y [Hy E]]. apply Nat.eqb_eq in E. subst. exact Hy.
  - intros H. exists x. split; [exact H|apply Nat.eqb_refl].
Qed.

Lemma uses_any_incl o s1 s2 : incl s1 s2 -> uses_any o s1 = true -> uses_any o s2 = true.
Proof.
  unfold uses_any. rewrite !existsb_exists. intros Hi [x [Hx Hm]]. exists x. split; [exact Hx|].
  apply mem_nat_In. apply Hi. apply mem_nat_In. exact Hm.
Qed.

Lemma closure_incl_init sel : forall prog s, incl s (closure sel prog s).
Proof.
  induction prog as [|o prog IH]; intros s; cbn [closure]; [apply incl_refl|].
  destruct (uses_any o s).
  - eapply incl_tran; [|apply IH]. apply incl_appr, incl_refl.
  - apply IH.
Qed.

(* monotone in the selector and in the start set *)
Lemma closure_mono sel1 sel2 : (forall o, incl (sel1 o) (sel2 o)) ->
  forall prog s1 s2, incl s1 s2 -> incl (closure sel1 prog s1) (closure sel2 prog s2).
Proof.
  intros Hsel. induction prog as [|o prog IH]; intros s1 s2 Hi; cbn [closure]; [exact Hi|].
  destruct (uses_any o s1) eqn:E1.
  - rewrite (uses_any_incl o s1 s2 Hi E1). apply IH.
    apply incl_app; [eapply incl_tran; [apply Hsel|apply incl_appl, incl_refl]|apply incl_appr, Hi].
  - destruct (uses_any o s2); apply IH; [apply incl_appr, Hi|exact Hi].
Qed.

(* ---- lifetimes ------------------------------------------------------------------ *)
Lemma end_time_ge_start prog a : (o_top a <= end_time prog a)%nat.
Proof. apply fold_max_ge_init. Qed.

(* lifetime_covers_direct (and everything the analysis follows): every op that uses a followed value has
   its top-level index inside [start, end] as far as the upper end is concerned *)
Theorem lifetime_covers_followed prog a o :
  In o prog -> uses_any o (closure followed prog [res0 a]) = true -> (o_top o <= end_time prog a)%nat.
Proof.
  intros Hin Hu. unfold end_time. apply fold_max_ge_in. unfold use_tops.
  apply in_map. apply filter_In. split; assumption.
Qed.

(* a direct use of the alloc result *)
Corollary lifetime_covers_direct prog a o :
  In o prog -> In (res0 a) (o_ops o) -> (o_top o <= end_time prog a)%nat.
Proof.
  intros Hin Hop. apply lifetime_covers_followed; [exact Hin|].
  unfold uses_any. apply existsb_exists. exists (res0 a). split; [exact Hop|].
  apply mem_nat_In. apply closure_incl_init. left. reflexivity.
Qed.

Lemma alias_followed_incl prog : alias_followed prog = true -> forall o, In o prog -> incl (aliased o) (followed o).
Proof.
  unfold alias_followed. rewrite forallb_forall. intros H o Hin v Hv. specialize (H o Hin).
  rewrite forallb_forall in H. apply mem_nat_In. apply H, Hv.
Qed.

(* closure over a program only consults the ops of that program, so inclusion for its ops suffices *)
Lemma closure_mono_in sel1 sel2 : forall prog, (forall o, In o prog -> incl (sel1 o) (sel2 o)) ->
  forall s1 s2, incl s1 s2 -> incl (closure sel1 prog s1) (closure sel2 prog s2).
Proof.
  induction prog as [|o prog IH]; intros Hsel s1 s2 Hi; cbn [closure]; [exact Hi|].
  assert (Hrest : forall o', In o' prog -> incl (sel1 o') (sel2 o')) by (intros o' Ho'; apply Hsel; right; exact Ho').
  destruct (uses_any o s1) eqn:E1.
  - rewrite (uses_any_incl o s1 s2 Hi E1). apply IH; [exact Hrest|].
    apply incl_app; [eapply incl_tran; [apply Hsel; left; reflexivity|apply incl_appl, incl_refl]|apply incl_appr, Hi].
  - destruct (uses_any o s2); apply IH; try exact Hrest; [apply incl_appr, Hi|exact Hi].
Qed.

(* lifetime_covers_views: every op that uses the buffer, or any view or cast of it (transitively), lies
   inside the lifetime interval *)
Theorem lifetime_covers_views prog a o :
  alias_followed prog = true -> In o prog ->
  uses_any o (closure aliased prog [res0 a]) = true -> (o_top o <= end_time prog a)%nat.
Proof.
  intros Haf Hin Hu. apply lifetime_covers_followed; [exact Hin|].
  eapply uses_any_incl; [|exact Hu]. apply closure_mono_in; [|apply incl_refl].
  apply alias_followed_incl, Haf.
Qed.

(* ---- the solver as an oracle ----------------------------------------------------- *)
(* a buffer is live at top-level index t when it has been allocated and it, or a view/cast of it, is still
   used at or after t *)
Definition live (prog : list aop) (a : aop) (t : nat) : Prop :=
  (o_top a <= t)%nat /\ exists o, In o prog /\ uses_any o (closure aliased prog [res0 a]) = true /\ (t <= o_top o)%nat.

Lemma forallb_In {A} (f : A -> bool) l x : forallb f l = true -> In x l -> f x = true.
Proof. rewrite forallb_forall. auto. Qed.

Lemma nodup_nat_NoDup l : nodup_nat l = true -> NoDup l.
Proof.
  induction l as [|x l IH]; cbn [nodup_nat]; intros H; constructor.
  - apply andb_true_iff in H as [H _]. intros Hin. apply mem_nat_In in Hin. rewrite Hin in H. discriminate.
  - apply IH. apply andb_true_iff in H as [_ H]. exact H.
Qed.

Lemma allocs_in_incl prog m a : In a (allocs_in prog m) -> In a (allocs prog) /\ In a prog /\ is_alloc a = true.
Proof.
  unfold allocs_in, allocs. intros H. apply filter_In in H as [H _]. split; [exact H|].
  apply filter_In in H. exact H.
Qed.

Section Solver.
  (* the minimalloc solver is not part of the repository (and absent here): an oracle with a contract *)
  Variable solve : list buffer -> Z -> option (list Z).

  (* buffers whose (half-open) lifetimes overlap get disjoint ranges; every range is aligned and inside
     the capacity *)
  Definition solve_contract : Prop :=
    forall bufs cap offs, solve bufs cap = Some offs ->
      length offs = length bufs /\
      (forall i bi oi, nth_error bufs i = Some bi -> nth_error offs i = Some oi ->
         0 <= oi /\ oi + b_size bi <= cap /\ (0 < b_align bi -> oi mod b_align bi = 0)) /\
      (forall i j bi bj oi oj, i <> j ->
         nth_error bufs i = Some bi -> nth_error bufs j = Some bj ->
         nth_error offs i = Some oi -> nth_error offs j = Some oj ->
         (b_start bi < b_end bj)%nat -> (b_start bj < b_end bi)%nat ->
         oi + b_size bi <= oj \/ oj + b_size bj <= oi).

  (* two different allocs never share a top-level index, and an op using a live value is not an alloc *)
  Lemma live_strict prog a1 a2 t :
    wf_prog prog = true -> In a1 (allocs prog) -> In a2 (allocs prog) ->
    live prog a1 t -> (o_top a2 <= t)%nat -> o_top a1 <> o_top a2 -> (o_top a2 < end_time prog a1)%nat.
  Proof.
    intros Hwf H1 H2 [Hs1 (o & Hin & Hu & Ht)] Hs2 Hne.
    unfold wf_prog in Hwf. apply andb_true_iff in Hwf as [Hwf _]. apply andb_true_iff in Hwf as [Haf Hal].
    pose proof (lifetime_covers_views prog a1 o Haf Hin Hu) as Hend.
    destruct (Nat.eq_dec (o_top a2) (end_time prog a1)) as [E|E]; [exfalso|lia].
    assert (Eo : o_top o = o_top a2) by lia.
    unfold alloc_alone in Hal. apply andb_true_iff in Hal as [Hal1 Hal2].
    pose proof (forallb_In _ _ _ Hal1 H2) as Hx. cbn beta in Hx. pose proof (forallb_In _ _ _ Hx Hin) as Hy.
    cbn beta in Hy. rewrite Eo, Nat.eqb_refl in Hy. cbn [negb] in Hy. rewrite orb_false_r in Hy.
    (* o is an alloc that uses a value derived from a1 *)
    assert (Ho : In o (allocs prog)) by (apply filter_In; split; assumption).
    pose proof (forallb_In _ _ _ Hal2 Ho) as Hz. cbn beta in Hz. apply negb_true_iff in Hz.
    assert (Hc : existsb (fun b => uses_any o (closure followed prog [res0 b])) (allocs prog) = true).
    { apply existsb_exists. exists a1. split; [exact H1|].
      eapply uses_any_incl; [|exact Hu]. apply closure_mono_in; [|apply incl_refl]. apply alias_followed_incl, Haf. }
    congruence.
  Qed.

  (* minimalloc_safe: with any solver that honours the contract, two different buffers of one memory
     space that are live at the same time occupy disjoint ranges (each aligned and inside the capacity) *)
  Theorem minimalloc_safe prog m cap offs :
    solve_contract -> wf_prog prog = true ->
    solve (buffers_in prog m) cap = Some offs ->
    forall i j a1 a2 o1 o2 t, i <> j ->
      nth_error (allocs_in prog m) i = Some a1 -> nth_error (allocs_in prog m) j = Some a2 ->
      nth_error offs i = Some o1 -> nth_error offs j = Some o2 ->
      live prog a1 t -> live prog a2 t ->
      (o1 + o_size a1 <= o2 \/ o2 + o_size a2 <= o1) /\
      0 <= o1 /\ o1 + o_size a1 <= cap /\ (0 < o_align a1 -> o1 mod o_align a1 = 0).
  Proof.
    intros Hc Hwf Hs i j a1 a2 o1 o2 t Hij Ha1 Ha2 Ho1 Ho2 L1 L2.
    destruct (Hc _ _ _ Hs) as (Hlen & Hrange & Hdisj).
    assert (Hb1 : nth_error (buffers_in prog m) i = Some (buffer_of prog a1)) by (unfold buffers_in; rewrite nth_error_map, Ha1; reflexivity).
    assert (Hb2 : nth_error (buffers_in prog m) j = Some (buffer_of prog a2)) by (unfold buffers_in; rewrite nth_error_map, Ha2; reflexivity).
    split; [|exact (Hrange i _ _ Hb1 Ho1)].
    destruct (allocs_in_incl prog m a1 (nth_error_In _ _ Ha1)) as (A1 & P1 & K1).
    destruct (allocs_in_incl prog m a2 (nth_error_In _ _ Ha2)) as (A2 & P2 & K2).
    (* distinct positions => distinct top-level indices *)
    assert (Hne : o_top a1 <> o_top a2).
    { pose proof Hwf as Hwf'. unfold wf_prog in Hwf'. apply andb_true_iff in Hwf' as [_ Hnd]. apply nodup_nat_NoDup in Hnd.
      assert (Hnd' : NoDup (map o_top (allocs_in prog m))).
      { unfold allocs_in. revert Hnd. generalize (allocs prog). intros l. induction l as [|x l IH]; cbn [map filter]; intros H; [constructor|].
        inversion H; subst. destruct (Nat.eqb (o_mem x) m); cbn [map]; [constructor|]; try (apply IH; assumption).
        intros Hin. apply H2. apply in_map_iff in Hin as [y [Ey Hy]]. apply filter_In in Hy as [Hy _].
        rewrite <- Ey. apply in_map. exact Hy. }
      intros E. apply Hij. eapply (proj1 (NoDup_nth_error _) Hnd' i j).
      - apply nth_error_Some. rewrite nth_error_map, Ha1. discriminate.
      - rewrite !nth_error_map, Ha1, Ha2. cbn. f_equal. exact E. }
    apply (Hdisj i j _ _ _ _ Hij Hb1 Hb2 Ho1 Ho2); cbn [buffer_of b_start b_end].
    - apply (live_strict prog a2 a1 t Hwf A2 A1 L2 (proj1 L1)). auto.
    - apply (live_strict prog a1 a2 t Hwf A1 A2 L1 (proj1 L2)). exact Hne.
  Qed.
End Solver.

(* the pointer handed out is offset + memory.start: it is aligned when the memory base is *)
Lemma abs_aligned start off al : 0 < al -> off mod al = 0 -> start mod al = 0 -> (off + start) mod al = 0.
Proof. intros Hal H1 H2. rewrite Z.add_mod by lia. rewrite H1, H2. reflexivity. Qed.
