(* C20 — proofs, part 2: decode_abstract_graph is sound (decode_sound) and yields as many values as
   get_true_switches counts (switch_count). *)
From Snax Require Import Base.Prelude Model.C20Phs Proofs.C20PhsProofs.

(* ---------------------------------------------------------------- search_mapping *)
Lemma search_sound g G ms : forall mu0 mu,
  search g G ms mu0 = Some (Some mu) -> valid_mapping g G mu = Some true.
Proof.
  induction ms as [|m ms IH]; intros mu0 mu H; cbn [search] in H.
  - destruct (valid_mapping g G mu0) as [[|]|] eqn:E; try discriminate. inversion H; subst. exact E.
  - destruct (search g G ms (upd mu0 m 0)) as [[r|]|] eqn:E0; try discriminate.
    + inversion H; subst. eapply IH; eauto.
    + eapply IH; eauto.
Qed.

(* ---------------------------------------------------------------- compaction of the switch list *)
Definition is_skip (e : entry) : bool := match e with ESkip => true | _ => false end.
Definition entry_val (mu : nat -> Z) (e : entry) : Z :=
  match e with ESkip => 0 | EVal v => v | EMux i => mu i end.

Lemma entry_vals_app mu es1 es2 : entry_vals mu (es1 ++ es2) = entry_vals mu es1 ++ entry_vals mu es2.
Proof. unfold entry_vals. apply flat_map_app. Qed.

Lemma entry_vals_length (F : nat -> option entry) (T : nat -> bool) mu l : forall es,
  map_opt F l = Some es ->
  (forall j e, In j l -> F j = Some e -> T j = negb (is_skip e)) ->
  length (entry_vals mu es) = length (filter T l).
Proof.
  induction l as [|x xs IH]; intros es H HT; cbn [map_opt] in H.
  - inversion H. reflexivity.
  - destruct (F x) as [e|] eqn:Ex; [|discriminate].
    destruct (map_opt F xs) as [es'|] eqn:E; [|discriminate]. inversion H; subst.
    cbn [filter]. rewrite (HT x e (or_introl eq_refl) Ex).
    unfold entry_vals in *. cbn [flat_map]. rewrite app_length.
    rewrite (IH es' eq_refl) by (intros j e' Hj; apply HT; right; exact Hj).
    destruct e; reflexivity.
Qed.

Lemma nth_compact (F : nat -> option entry) (T : nat -> bool) mu l1 i l2 es e :
  map_opt F (l1 ++ i :: l2) = Some es ->
  (forall j e', In j l1 -> F j = Some e' -> T j = negb (is_skip e')) ->
  F i = Some e -> is_skip e = false ->
  nth (length (filter T l1)) (entry_vals mu es) 0 = entry_val mu e.
Proof.
  intros H HT Hi Hs.
  destruct (map_opt_app F l1 (i :: l2) es H) as (r1 & r2 & H1 & H2 & ->).
  cbn [map_opt] in H2. rewrite Hi in H2. destruct (map_opt F l2) as [r2'|]; [|discriminate].
  inversion H2; subst.
  rewrite entry_vals_app. rewrite <- (entry_vals_length F T mu l1 r1 H1 HT).
  rewrite app_nth2 by lia. rewrite Nat.sub_diag.
  destruct e; [discriminate| |]; reflexivity.
Qed.

Lemma seq_split i n : (i < n)%nat -> seq 0 n = seq 0 i ++ i :: seq (S i) (n - S i).
Proof.
  intros H. replace n with (i + S (n - S i))%nat at 1 by lia.
  rewrite seq_app. cbn [seq plus]. reflexivity.
Qed.

(* ---------------------------------------------------------------- switch users *)
Definition nonempty_ops (G : pe) : Prop := forall n, In n (pnodes G) -> nops n <> [].

Lemma pe_wf_parts G : pe_wf G = true ->
  nonempty_ops G /\ (forall n, In n (pnodes G) -> (nsw n < pnsw G)%nat) /\
  (forall m, In m (all_muxes G) -> (m < pnsw G)%nat) /\ NoDup (map nid (pnodes G)) /\
  (forall i, (i < pnsw G)%nat -> exists u, switch_user G i = Some u).
Proof.
  unfold pe_wf. rewrite !andb_true_iff. intros [[[H1 H2] H3] H4].
  rewrite forallb_forall in H1, H2, H4. repeat split.
  - intros n Hn E. specialize (H1 n Hn). apply andb_true_iff in H1 as [H1 _].
    rewrite E in H1. discriminate.
  - intros n Hn. specialize (H1 n Hn). apply andb_true_iff in H1 as [_ H1]. apply Nat.ltb_lt. exact H1.
  - intros m Hm. apply Nat.ltb_lt. apply H2. exact Hm.
  - apply nodup_ids_NoDup. exact H3.
  - intros i Hi. specialize (H4 i). destruct (switch_user G i) as [u|]; [eauto|].
    assert (In i (seq 0 (pnsw G))) as Hin by (apply in_seq; lia). specialize (H4 Hin). discriminate.
Qed.

Lemma switch_user_choose G i n : switch_user G i = Some (UChoose n) -> In n (pnodes G) /\ nsw n = i.
Proof.
  unfold switch_user. destruct (filter (fun n0 => Nat.eqb (nsw n0) i) (pnodes G)) as [|x [|? ?]] eqn:E;
    destruct (count_occ Nat.eq_dec (all_muxes G) i) as [|[|?]]; try discriminate.
  intros H. inversion H; subst.
  assert (In n (filter (fun n0 => Nat.eqb (nsw n0) i) (pnodes G))) as Hin by (rewrite E; left; reflexivity).
  apply filter_In in Hin as [H1 H2]. apply Nat.eqb_eq in H2. auto.
Qed.

Lemma switch_user_of_node G a u : In a (pnodes G) -> switch_user G (nsw a) = Some u -> u = UChoose a.
Proof.
  intros Ha. unfold switch_user.
  assert (In a (filter (fun n0 => Nat.eqb (nsw n0) (nsw a)) (pnodes G))) as Hin.
  { apply filter_In. split; [exact Ha|apply Nat.eqb_refl]. }
  destruct (filter (fun n0 => Nat.eqb (nsw n0) (nsw a)) (pnodes G)) as [|x [|? ?]];
    destruct (count_occ Nat.eq_dec (all_muxes G) (nsw a)) as [|[|?]]; try discriminate; try contradiction.
  intros H. inversion H; subst. destruct Hin as [->|[]]. reflexivity.
Qed.

Lemma switch_user_of_mux G m u : In m (all_muxes G) -> switch_user G m = Some u -> u = UMux.
Proof.
  intros Hm. unfold switch_user.
  pose proof (proj1 (count_occ_In Nat.eq_dec (all_muxes G) m) Hm) as Hc.
  destruct (filter (fun n0 => Nat.eqb (nsw n0) m) (pnodes G)) as [|x [|? ?]];
    destruct (count_occ Nat.eq_dec (all_muxes G) m) as [|[|?]]; try discriminate; try lia.
  intros H. inversion H. reflexivity.
Qed.

Lemma true_switch_entry G g j e :
  nonempty_ops G -> decode_switch G g j = Some e -> is_true_switch G j = negb (is_skip e).
Proof.
  intros Hne. unfold decode_switch, is_true_switch.
  destruct (switch_user G j) as [[n|]|] eqn:Eu; [| |discriminate].
  - destruct (switch_user_choose _ _ _ Eu) as [Hn _]. specialize (Hne n Hn).
    destruct (Nat.eqb (length (nops n)) 1) eqn:E1.
    + intros H. inversion H; subst. apply Nat.eqb_eq in E1. rewrite E1. reflexivity.
    + apply Nat.eqb_neq in E1.
      assert ((1 <? length (nops n))%nat = true) as ->.
      { apply Nat.ltb_lt. destruct (nops n) as [|? [|? ?]]; cbn [length] in *; try congruence; lia. }
      destruct (find_node (pnodes g) (nid n)) as [c|].
      * destruct (nops c) as [|k ?]; [discriminate|].
        destruct (index_of_op k (nops n)); [|discriminate].
        intros H. inversion H. reflexivity.
      * intros H. inversion H. reflexivity.
  - intros H. inversion H. reflexivity.
Qed.

Lemma sigma_decode G g mu es i e :
  nonempty_ops G ->
  map_opt (decode_switch G g) (seq 0 (pnsw G)) = Some es ->
  (i < pnsw G)%nat -> decode_switch G g i = Some e -> is_skip e = false ->
  sigma G (entry_vals mu es) i = entry_val mu e.
Proof.
  intros Hne Hm Hi He Hs. unfold sigma, sw_pos.
  rewrite (seq_split i (pnsw G) Hi) in Hm.
  apply (nth_compact (decode_switch G g) (is_true_switch G) mu (seq 0 i) i _ es e Hm); [|exact He|exact Hs].
  intros j e' _ Hj. apply (true_switch_entry G g j e' Hne Hj).
Qed.

(* ---------------------------------------------------------------- alternatives by name *)
Lemma index_find k0 ops j : index_of_op k0 ops = Some j -> nth_error ops j = find_op k0 ops.
Proof.
  revert j. induction ops as [|k r IH]; intros j H; cbn [index_of_op find_op] in *; [discriminate|].
  destruct (opk_eqb k k0).
  - inversion H; subst. reflexivity.
  - destruct (index_of_op k0 r) as [j'|]; [|discriminate]. inversion H; subst.
    cbn [nth_error]. apply IH. reflexivity.
Qed.

Lemma find_op_eq k0 ops k : find_op k0 ops = Some k -> k = k0 /\ In k0 ops.
Proof.
  induction ops as [|x r IH]; cbn [find_op]; [discriminate|].
  destruct (opk_eqb x k0) eqn:E.
  - intros H. inversion H; subst. apply opk_eqb_eq in E. subst. split; [reflexivity|left; reflexivity].
  - intros H. destruct (IH H). split; [assumption|right; assumption].
Qed.

Lemma ops_agree_node g G c a k :
  ops_agree g G = true -> In c (pnodes g) -> find_node (pnodes G) (nid c) = Some a -> nops c = k :: nil ->
  find_op k (nops a) = Some k.
Proof.
  unfold ops_agree. rewrite forallb_forall. intros H Hc Ha Hk. specialize (H c Hc). rewrite Ha in H.
  unfold alt_agree in H. rewrite Hk in H.
  destruct (find_op k (nops a)) as [k'|] eqn:E; [|discriminate].
  destruct (find_op_eq _ _ _ E) as [-> _]. reflexivity.
Qed.

(* ---------------------------------------------------------------- decode *)
Section Decode.
  Variable opsem : opk -> list Z -> Z.

  Lemma decode_inv G g sw : decode G g = Some sw ->
    is_concrete g = true /\ pdata g = pdata G /\
    exists es mu, map_opt (decode_switch G g) (seq 0 (pnsw G)) = Some es /\
                  search g G (entry_muxes es) (fun _ => 0) = Some (Some mu) /\ sw = entry_vals mu es.
  Proof.
    unfold decode. destruct (is_concrete g); cbn [negb]; [|discriminate].
    destruct (Nat.eqb (pdata g) (pdata G)) eqn:Ed; cbn [negb]; [|discriminate].
    destruct (map_opt (decode_switch G g) (seq 0 (pnsw G))) as [es|]; [|discriminate].
    destruct (search g G (entry_muxes es) (fun _ => 0)) as [[mu|]|] eqn:Es; try discriminate.
    intros H. inversion H; subst. apply Nat.eqb_eq in Ed. repeat split; auto. exists es, mu. auto.
  Qed.

  (* decode_sound: the decoded switch values make the abstract PE compute what the kernel's own
     (concrete) graph computes — for every data input and every amount of fuel *)
  Theorem decode_sound G g sw :
    pe_wf G = true -> nodup_ids (map nid (pnodes g)) = true -> ops_agree g G = true ->
    decode G g = Some sw ->
    forall f ins v sgg, eval_pe_fuel opsem f g sgg ins = Some v ->
                        eval_pe_fuel opsem f G (sigma G sw) ins = Some v.
  Proof.
    intros Hwf Hnd Hag Hdec f ins v sgg Hev.
    destruct (pe_wf_parts G Hwf) as (Hne & Hnsw & Hmsw & HndG & Huser).
    destruct (decode_inv G g sw Hdec) as (Hconc & _ & es & mu & Hes & Hsearch & ->).
    pose proof (search_sound _ _ _ _ _ Hsearch) as Hvalid.
    assert (forall i, (i < pnsw G)%nat -> exists e, decode_switch G g i = Some e) as Hds.
    { intros i Hi. apply (map_opt_in _ _ _ i Hes). apply in_seq. lia. }
    apply (sim_pe opsem g G sgg (sigma G (entry_vals mu es)) mu ins Hconc Hvalid); [| |exact Hev].
    - (* muxes *)
      intros m Hm. pose proof (Hmsw m Hm) as Hlt.
      destruct (Huser m Hlt) as [u Hu]. pose proof (switch_user_of_mux G m u Hm Hu) as ->.
      assert (decode_switch G g m = Some (EMux m)) as Hd by (unfold decode_switch; rewrite Hu; reflexivity).
      rewrite (sigma_decode G g mu es m (EMux m) Hne Hes Hlt Hd eq_refl). reflexivity.
    - (* choose ops *)
      intros c a k Hc Ha Hk.
      pose proof (ops_agree_node g G c a k Hag Hc Ha Hk) as Hfo.
      destruct (find_node_some _ _ _ Ha) as [HaG Hida].
      unfold node_choice.
      destruct (length (nops a) <=? 1)%nat eqn:El.
      + apply Nat.leb_le in El. destruct (nops a) as [|x [|? ?]]; cbn [length] in El; try lia.
        * discriminate.
        * cbn [find_op] in Hfo. cbn [nth_error]. destruct (opk_eqb x k); [exact Hfo|discriminate].
      + apply Nat.leb_gt in El.
        pose proof (Hnsw a HaG) as Hlt. destruct (Huser _ Hlt) as [u Hu].
        pose proof (switch_user_of_node G a u HaG Hu) as ->.
        destruct (Hds _ Hlt) as [e He].
        assert (find_node (pnodes g) (nid a) = Some c) as Hfc.
        { rewrite Hida. apply find_node_nodup; [apply nodup_ids_NoDup; exact Hnd|exact Hc]. }
        pose proof He as He'. unfold decode_switch in He'. rewrite Hu in He'.
        assert (Nat.eqb (length (nops a)) 1 = false) as E1 by (apply Nat.eqb_neq; lia).
        rewrite E1, Hfc, Hk in He'.
        destruct (index_of_op k (nops a)) as [j|] eqn:Ej; [|discriminate].
        inversion He'; subst e.
        rewrite (sigma_decode G g mu es (nsw a) (EVal (Z.of_nat j)) Hne Hes Hlt He eq_refl).
        cbn [entry_val]. rewrite Nat2Z.id. rewrite (index_find _ _ _ Ej). rewrite Hfo. reflexivity.
  Qed.

  (* switch_count: the number of decoded values is what get_true_switches reports *)
  Theorem switch_count G g sw :
    pe_wf G = true -> decode G g = Some sw -> true_switches G = Some (length sw).
  Proof.
    intros Hwf Hdec.
    destruct (pe_wf_parts G Hwf) as (Hne & _ & _ & _ & Huser).
    destruct (decode_inv G g sw Hdec) as (_ & _ & es & mu & Hes & _ & ->).
    unfold true_switches.
    assert (forallb (fun i => match switch_user G i with Some _ => true | None => false end) (seq 0 (pnsw G)) = true) as ->.
    { apply forallb_forall. intros i Hi. apply in_seq in Hi. destruct (Huser i) as [u ->]; [lia|reflexivity]. }
    f_equal. symmetry.
    apply (entry_vals_length (decode_switch G g) (is_true_switch G) mu (seq 0 (pnsw G)) es Hes).
    intros j e _ Hj. apply (true_switch_entry G g j e Hne Hj).
  Qed.

  (* canonical fuel *)
  Lemma valid_ids_incl g G mu :
    valid_mapping g G mu = Some true -> incl (map nid (pnodes g)) (map nid (pnodes G)).
  Proof.
    unfold valid_mapping. destruct (valid_nodes mu (pnodes G) (pnodes g)) as [[|]|] eqn:E; try discriminate.
    intros _ id Hin. apply in_map_iff in Hin as (c & <- & Hc).
    destruct (valid_nodes_in _ _ _ c E Hc) as (a & Ha & _).
    destruct (find_node_some _ _ _ Ha) as [HaG <-]. apply in_map. exact HaG.
  Qed.

  Theorem decode_sound_pe G g sw :
    pe_wf G = true -> nodup_ids (map nid (pnodes g)) = true -> ops_agree g G = true ->
    decode G g = Some sw ->
    forall ins v swg, eval_pe opsem g swg ins = Some v -> eval_pe opsem G sw ins = Some v.
  Proof.
    intros Hwf Hnd Hag Hdec ins v swg Hev. unfold eval_pe in *.
    destruct (decode_inv G g sw Hdec) as (_ & _ & es & mu & _ & Hsearch & _).
    pose proof (search_sound _ _ _ _ _ Hsearch) as Hvalid.
    assert (length (pnodes g) <= length (pnodes G))%nat as Hlen.
    { rewrite <- (map_length nid (pnodes g)), <- (map_length nid (pnodes G)).
      apply NoDup_incl_length; [apply nodup_ids_NoDup; exact Hnd|eapply valid_ids_incl; eauto]. }
    apply (eval_pe_fuel_mono opsem G _ ins (S (length (pnodes g)))); [lia|].
    eapply decode_sound; eauto.
  Qed.
End Decode.
