(* C04 part B — the CSR lowering refines the fine-grained accfg semantics (Model/C04Csr.v). *)
From Snax Require Import Base.Prelude Model.AccIR Model.AccSem Model.C04Csr Proofs.AccSemProofs.

(* ---- unfolding equations (the inner fixes are the top-level block functions) ------------------- *)
Lemma lower_stmt_for am idx iv lb ub st iters results body yields :
  lower_stmt am idx (SFor iv lb ub st iters results body yields) =
  match lower_block am idx body with
  | Some cb => Some [CFor iv lb ub st (int_iters iters) (keep_int (map it_ty iters) results) cb
                          (keep_int (map it_ty iters) yields)]
  | None => None
  end.
Proof. reflexivity. Qed.

Lemma lower_stmt_if am idx c results thn thn_y els els_y :
  lower_stmt am idx (SIf c results thn thn_y els els_y) =
  match lower_block am idx thn, lower_block am idx els with
  | Some ct, Some ce =>
      Some [CIf c (keep_int (map snd results) (map fst results)) ct (keep_int (map snd results) thn_y)
                ce (keep_int (map snd results) els_y)]
  | _, _ => None
  end.
Proof. reflexivity. Qed.

Lemma cexec_stmt_for co iv lb ub st iters results body yields m :
  cexec_stmt co (CFor iv lb ub st iters results body yields) m
  = cexec_for (cexec_block co body) iv lb ub st iters results yields m.
Proof. reflexivity. Qed.

Lemma cexec_stmt_if co c results thn thn_y els els_y m :
  cexec_stmt co (CIf c results thn thn_y els els_y) m
  = cexec_if (cexec_block co thn) (cexec_block co els) c results thn_y els_y m.
Proof. reflexivity. Qed.

Lemma fexec_stmt_for orc iv lb ub st iters results body yields m :
  fexec_stmt orc (SFor iv lb ub st iters results body yields) m
  = fexec_for (fexec_block orc body) iv lb ub st iters results yields m.
Proof. reflexivity. Qed.

Lemma fexec_stmt_if orc c results thn thn_y els els_y m :
  fexec_stmt orc (SIf c results thn thn_y els els_y) m
  = fexec_if (fexec_block orc thn) (fexec_block orc els) c results thn_y els_y m.
Proof. reflexivity. Qed.

Lemma cexec_block_app co b1 b2 m : cexec_block co (b1 ++ b2) m = cexec_block co b2 (cexec_block co b1 m).
Proof. revert m; induction b1 as [|s b1 IH]; intros m; cbn [app cexec_block]; [reflexivity|apply IH]. Qed.

(* ---- positional filters --------------------------------------------------------------------------- *)
Lemma keep_int_map {A} (g : val * val * ty -> A) iters :
  keep_int (map it_ty iters) (map g iters) = map g (filter (fun x => is_int (it_ty x)) iters).
Proof.
  induction iters as [|x xs IH]; cbn [map keep_int filter]; [reflexivity|].
  destruct (is_int (it_ty x)); cbn [map]; rewrite IH; reflexivity.
Qed.

Lemma int_iters_args iters : map fst (int_iters iters) = keep_int (map it_ty iters) (map it_arg iters).
Proof. unfold int_iters. rewrite keep_int_map, map_map. reflexivity. Qed.

Lemma int_iters_inits (e : envT) iters :
  map (fun x => e (snd x)) (int_iters iters) = map e (keep_int (map it_ty iters) (map it_init iters)).
Proof. unfold int_iters. rewrite keep_int_map, !map_map. reflexivity. Qed.

(* ---- repeated events --------------------------------------------------------------------------------- *)
Lemma repeat_ev_app n e t : repeat_ev n e t = repeat_ev n e [] ++ t.
Proof. induction n as [|n IH]; cbn [repeat_ev app]; [reflexivity|]. rewrite IH. reflexivity. Qed.

Lemma repeat_ev_snoc n e : repeat_ev n e [] ++ [e] = e :: repeat_ev n e [].
Proof. induction n as [|n IH]; cbn [repeat_ev app]; [reflexivity|]. rewrite IH. reflexivity. Qed.

Lemma rev_repeat_ev n e : rev (repeat_ev n e []) = repeat_ev n e [].
Proof.
  induction n as [|n IH]; cbn [repeat_ev rev]; [reflexivity|]. rewrite IH. apply repeat_ev_snoc.
Qed.

Section Refine.
Variable am : amapT.
Variable idx : list val.
Variable co : coracle.
Let orc := co_orc co.
Let busy := co_busy co.

(* trace correspondence, both traces newest first; the nat is the number of polling loops so far *)
Inductive tc : list fev -> list cev -> nat -> Prop :=
| tc_nil : tc [] [] 0%nat
| tc_set t c n a f v ai ad :
    tc t c n -> nth_error am a = Some ai -> assoc f (ai_fields ai) = Some ad ->
    tc (FSet a f v :: t) (CW ad v :: c) n
| tc_launch t c n a f v ai ad :
    tc t c n -> nth_error am a = Some ai -> assoc f (ai_launch ai) = Some ad ->
    tc (FLaunch a f v :: t) (CW ad v :: c) n
| tc_await t c n a ai :
    tc t c n -> nth_error am a = Some ai ->
    tc (FAwait a :: t) (rev (fst (await_events ai busy n)) ++ c) (snd (await_events ai busy n))
| tc_call t c n g k ar : tc t c n -> tc (FCallE g k ar :: t) (CCallE g k ar :: c) n.

Definition R (mf : fstate) (mc : cstate) : Prop :=
  fenv mf = cenv mc /\ fncalls mf = cncalls mc /\ tc (ftr mf) (ctr mc) (cnpolls mc).

(* setup / launch parameters *)
Lemma lower_params_R (ix : list val) (mk : field -> Z -> fev) (tbl : list (field * Z))
  (Hstep : forall t c n f v ad, tc t c n -> assoc f tbl = Some ad -> tc (mk f v :: t) (CW ad v :: c) n) :
  forall fs cb, lower_params ix tbl fs = Some cb ->
  forall mf mc, R mf mc ->
    R (mkFSt (fenv mf) (fncalls mf) (femit_fields mk (fenv mf) fs (ftr mf))) (cexec_block co cb mc).
Proof.
  induction fs as [|[f v] fs IH]; intros cb Hl mf mc HR; cbn [lower_params] in Hl.
  - inversion Hl; subst. cbn [femit_fields cexec_block]. destruct mf; exact HR.
  - destruct (assoc f tbl) as [ad|] eqn:Ha; [|discriminate].
    destruct (lower_params ix tbl fs) as [r|] eqn:Hr; [|discriminate].
    inversion Hl; subst. cbn [femit_fields cexec_block cexec_stmt].
    destruct HR as (He & Hn & Ht).
    set (mf1 := mkFSt (fenv mf) (fncalls mf) (mk f (fenv mf v) :: ftr mf)).
    set (mc1 := cexec_write ad (if mem_nat v ix then VCast v else VRef v) mc).
    assert (HR1 : R mf1 mc1).
    { unfold R, mf1, mc1, cexec_write. cbn [fenv fncalls ftr cenv cncalls ctr cnpolls cval_eval].
      repeat split; [exact He|exact Hn|].
      replace (cval_eval (cenv mc) (if mem_nat v ix then VCast v else VRef v)) with (fenv mf v)
        by (rewrite He; destruct (mem_nat v ix); reflexivity).
      apply Hstep; assumption. }
    exact (IH r eq_refl mf1 mc1 HR1).
Qed.

(* the barrier *)
Lemma write4_block (l : list (field * Z)) : forall mc,
  let mc' := cexec_block co (flat_map (fun la => [CWrite (snd la) (VConst 0); CWrite (snd la) (VConst 0)]) l) mc in
  cenv mc' = cenv mc /\ cncalls mc' = cncalls mc /\ cnpolls mc' = cnpolls mc
  /\ ctr mc' = rev (flat_map (fun la => [CW (snd la) 0; CW (snd la) 0]) l) ++ ctr mc.
Proof.
  induction l as [|la l IH]; intros mc; cbn [flat_map app cexec_block cexec_stmt].
  - cbn [rev app]. repeat split; reflexivity.
  - specialize (IH (cexec_write (snd la) (VConst 0) (cexec_write (snd la) (VConst 0) mc))).
    cbv zeta in IH. destruct IH as (H1 & H2 & H3 & H4). cbv zeta.
    rewrite H1, H2, H3, H4. unfold cexec_write. cbn [cenv cncalls cnpolls ctr cval_eval].
    repeat split; try reflexivity.
    cbn [rev]. rewrite <- !app_assoc. reflexivity.
Qed.

Lemma lower_await_R a ai : nth_error am a = Some ai ->
  forall mf mc, R mf mc ->
    R (mkFSt (fenv mf) (fncalls mf) (FAwait a :: ftr mf)) (cexec_block co (lower_await ai) mc).
Proof.
  intros Hai mf mc (He & Hn & Ht).
  pose proof (tc_await _ _ _ a ai Ht Hai) as Hs.
  unfold R, lower_await. unfold await_events in Hs.
  destruct (ai_style ai); cbn [fst snd] in Hs.
  - (* BPoll1 *)
    cbn [cexec_block cexec_stmt]. unfold cexec_write, cexec_poll.
    cbn [fenv fncalls ftr cenv cncalls cnpolls ctr cval_eval].
    repeat split; [exact He|exact Hn|].
    rewrite rev_app_distr, rev_repeat_ev in Hs. cbn [rev app] in Hs.
    rewrite (repeat_ev_app _ _ (ctr mc)). exact Hs.
  - (* BPoll2 *)
    cbn [cexec_block cexec_stmt]. unfold cexec_poll.
    cbn [fenv fncalls ftr cenv cncalls cnpolls ctr].
    repeat split; [exact He|exact Hn|].
    rewrite rev_repeat_ev in Hs. rewrite (repeat_ev_app _ _ (ctr mc)). exact Hs.
  - (* BPoll3 *)
    cbn [cexec_block cexec_stmt]. unfold cexec_poll.
    cbn [fenv fncalls ftr cenv cncalls cnpolls ctr].
    repeat split; [exact He|exact Hn|].
    rewrite rev_repeat_ev in Hs. rewrite (repeat_ev_app _ _ (ctr mc)). exact Hs.
  - (* BWrite4 *)
    destruct (write4_block (ai_launch ai) mc) as (H1 & H2 & H3 & H4).
    cbn [fenv fncalls ftr]. rewrite H1, H2, H3, H4. repeat split; [exact He|exact Hn|exact Hs].
Qed.

Lemma iter_R (fs : nat -> fstate -> fstate) (cs : nat -> cstate -> cstate) :
  (forall k mf mc, R mf mc -> R (fs k mf) (cs k mc)) ->
  forall n mf mc, R mf mc -> R (iter_n n fs mf) (iter_n n cs mc).
Proof.
  intros Hs n. induction n as [|n IH]; intros mf mc HR; cbn [iter_n]; [exact HR|].
  apply Hs. apply IH. exact HR.
Qed.

Lemma R_set_env mf mc e : R mf mc -> R (fset_env mf e) (cset_env mc e).
Proof. intros (He & Hn & Ht). unfold R, fset_env, cset_env. cbn. repeat split; assumption. Qed.

(* the statement-level simulation *)
Definition stmt_ok (s : stmt) : Prop :=
  forall cs, lower_stmt am idx s = Some cs -> forall mf mc, R mf mc -> R (fexec_stmt orc s mf) (cexec_block co cs mc).
Definition block_ok (b : block) : Prop :=
  forall cb, lower_block am idx b = Some cb -> forall mf mc, R mf mc -> R (fexec_block orc b mf) (cexec_block co cb mc).

Lemma lower_sim_stmt : forall s, stmt_ok s.
Proof.
  apply (stmt_ind2 stmt_ok block_ok); unfold stmt_ok, block_ok.
  - (* SPure *)
    intros d e cs Hl mf mc HR. cbn in Hl. inversion Hl; subst.
    cbn [fexec_stmt cexec_block cexec_stmt].
    destruct HR as (He & Hn & Ht). rewrite He.
    apply R_set_env. repeat split; assumption.
  - (* SCall *)
    intros g ef pu ds ar cs Hl mf mc (He & Hn & Ht). cbn in Hl. inversion Hl; subst.
    cbn [fexec_stmt cexec_block cexec_stmt]. unfold fexec_call, cexec_call, R.
    cbn [fenv fncalls ftr cenv cncalls cnpolls ctr]. rewrite He, Hn.
    repeat split. apply tc_call. exact Ht.
  - (* SSetup *)
    intros a o i fs cs Hl mf mc HR. cbn [lower_stmt] in Hl.
    destruct (nth_error am a) as [ai|] eqn:Hai; [|discriminate].
    cbn [fexec_stmt]. unfold lower_setup in Hl.
    apply (lower_params_R idx (FSet a) (ai_fields ai)); [|exact Hl|exact HR].
    intros t c n f v ad Ht Ha. eapply tc_set; eassumption.
  - (* SLaunch *)
    intros a k st fs cs Hl mf mc HR. cbn [lower_stmt] in Hl.
    destruct (nth_error am a) as [ai|] eqn:Hai; [|discriminate].
    cbn [fexec_stmt]. unfold lower_launch in Hl.
    apply (lower_params_R [] (FLaunch a) (ai_launch ai)); [|exact Hl|exact HR].
    intros t c n f v ad Ht Ha. eapply tc_launch; eassumption.
  - (* SAwait *)
    intros a k cs Hl mf mc HR. cbn [lower_stmt] in Hl.
    destruct (nth_error am a) as [ai|] eqn:Hai; [|discriminate].
    inversion Hl; subst. cbn [fexec_stmt]. apply (lower_await_R a ai Hai). exact HR.
  - (* SReset *)
    intros a st cs Hl. cbn in Hl. discriminate.
  - (* SFor *)
    intros iv lb ub sp its rs body ys IHb cs Hl mf mc HR.
    rewrite lower_stmt_for in Hl.
    destruct (lower_block am idx body) as [cb|] eqn:Hb; [|discriminate].
    inversion Hl; subst. specialize (IHb cb eq_refl).
    rewrite fexec_stmt_for. cbn [cexec_block]. rewrite cexec_stmt_for.
    unfold fexec_for, cexec_for.
    rewrite int_iters_args, int_iters_inits.
    destruct HR as (He & Hn & Ht). rewrite <- He.
    set (bargs := keep_int (map it_ty its) (map it_arg its)).
    set (e0 := bind_list bargs (map (fenv mf) (keep_int (map it_ty its) (map it_init its))) (fenv mf)).
    assert (HR0 : R (fset_env mf e0) (cset_env mc e0)) by (apply R_set_env; repeat split; assumption).
    set (n := trip_count (fenv mf lb) (fenv mf ub) (fenv mf sp)).
    pose proof (iter_R
      (ffor_step (fexec_block orc body) iv bargs (keep_int (map it_ty its) ys) (fenv mf lb) (fenv mf sp))
      (cfor_step (cexec_block co cb) iv bargs (keep_int (map it_ty its) ys) (fenv mf lb) (fenv mf sp))) as Hit.
    assert (Hstep : forall k mf' mc', R mf' mc' ->
      R (ffor_step (fexec_block orc body) iv bargs (keep_int (map it_ty its) ys) (fenv mf lb) (fenv mf sp) k mf')
        (cfor_step (cexec_block co cb) iv bargs (keep_int (map it_ty its) ys) (fenv mf lb) (fenv mf sp) k mc')).
    { intros k mf' mc' HR'. unfold ffor_step, cfor_step.
      destruct HR' as (He' & Hn' & Ht'). rewrite <- He'.
      assert (HR1 : R (fset_env mf' (upd (fenv mf') iv (fenv mf lb + Z.of_nat k * fenv mf sp)))
                      (cset_env mc' (upd (fenv mf') iv (fenv mf lb + Z.of_nat k * fenv mf sp))))
        by (apply R_set_env; repeat split; assumption).
      pose proof (IHb _ _ HR1) as HR2.
      destruct HR2 as (He2 & Hn2 & Ht2). rewrite <- He2.
      apply R_set_env. repeat split; assumption. }
    specialize (Hit Hstep n _ _ HR0).
    destruct Hit as (HeN & HnN & HtN). rewrite <- HeN.
    apply R_set_env. repeat split; assumption.
  - (* SIf *)
    intros c rs th thy el ely IHt IHe cs Hl mf mc HR.
    rewrite lower_stmt_if in Hl.
    destruct (lower_block am idx th) as [ct|] eqn:Ht'; [|discriminate].
    destruct (lower_block am idx el) as [ce|] eqn:He'; [|discriminate].
    inversion Hl; subst. specialize (IHt ct eq_refl). specialize (IHe ce eq_refl).
    rewrite fexec_stmt_if. cbn [cexec_block]. rewrite cexec_stmt_if.
    unfold fexec_if, cexec_if.
    destruct HR as (He & Hn & Ht). rewrite <- He.
    destruct (fenv mf c =? 0).
    + pose proof (IHe mf mc (conj He (conj Hn Ht))) as (He2 & Hn2 & Ht2). rewrite <- He2.
      apply R_set_env. repeat split; assumption.
    + pose proof (IHt mf mc (conj He (conj Hn Ht))) as (He2 & Hn2 & Ht2). rewrite <- He2.
      apply R_set_env. repeat split; assumption.
  - (* nil *)
    intros cb Hl mf mc HR. cbn in Hl. inversion Hl; subst. exact HR.
  - (* cons *)
    intros s b IHs IHb cb Hl mf mc HR. cbn [lower_block] in Hl.
    destruct (lower_stmt am idx s) as [cx|] eqn:Hs; [|discriminate].
    destruct (lower_block am idx b) as [cb'|] eqn:Hb; [|discriminate].
    inversion Hl; subst. cbn [fexec_block]. rewrite cexec_block_app.
    apply (IHb cb' eq_refl). apply (IHs cx eq_refl). exact HR.
Qed.

Lemma lower_sim_block : forall b, block_ok b.
Proof.
  apply (block_ind2 stmt_ok block_ok); try (intros; apply lower_sim_stmt).
  - intros cb Hl mf mc HR. cbn in Hl. inversion Hl; subst. exact HR.
  - intros s b IHs IHb cb Hl mf mc HR. cbn [lower_block] in Hl.
    destruct (lower_stmt am idx s) as [cx|] eqn:Hs; [|discriminate].
    destruct (lower_block am idx b) as [cb'|] eqn:Hb; [|discriminate].
    inversion Hl; subst. cbn [fexec_block]. rewrite cexec_block_app.
    apply (IHb cb' Hb). apply (IHs cx Hs). exact HR.
Qed.

(* ---- from the correspondence relation to [expand] ------------------------------------------------------ *)
Fixpoint expand2 (n : nat) (t : list fev) : option (list cev * nat) :=
  match t with
  | [] => Some ([], n)
  | FSet a f v :: t' =>
      match nth_error am a with
      | Some ai => match assoc f (ai_fields ai), expand2 n t' with
                   | Some ad, Some (r, n') => Some (CW ad v :: r, n')
                   | _, _ => None
                   end
      | None => None
      end
  | FLaunch a f v :: t' =>
      match nth_error am a with
      | Some ai => match assoc f (ai_launch ai), expand2 n t' with
                   | Some ad, Some (r, n') => Some (CW ad v :: r, n')
                   | _, _ => None
                   end
      | None => None
      end
  | FAwait a :: t' =>
      match nth_error am a with
      | Some ai => match expand2 (snd (await_events ai busy n)) t' with
                   | Some (r, n') => Some (fst (await_events ai busy n) ++ r, n')
                   | None => None
                   end
      | None => None
      end
  | FCallE g k ar :: t' =>
      match expand2 n t' with Some (r, n') => Some (CCallE g k ar :: r, n') | None => None end
  end.

Lemma expand_expand2 t : forall n, expand am busy n t = option_map fst (expand2 n t).
Proof.
  induction t as [|e t IH]; intros n; cbn [expand expand2 option_map fst]; [reflexivity|].
  destruct e as [a f v|a f v|a|g k ar].
  - destruct (nth_error am a) as [ai|]; [|reflexivity].
    destruct (assoc f (ai_fields ai)); [|reflexivity].
    rewrite IH. destruct (expand2 n t) as [[r n']|]; reflexivity.
  - destruct (nth_error am a) as [ai|]; [|reflexivity].
    destruct (assoc f (ai_launch ai)); [|reflexivity].
    rewrite IH. destruct (expand2 n t) as [[r n']|]; reflexivity.
  - destruct (nth_error am a) as [ai|]; [|reflexivity].
    destruct (await_events ai busy n) as [evs n'] eqn:Hev. cbn [fst snd].
    rewrite IH. destruct (expand2 n' t) as [[r n'']|]; reflexivity.
  - rewrite IH. destruct (expand2 n t) as [[r n']|]; reflexivity.
Qed.

Lemma expand2_app t1 : forall n t2 r1 n1,
  expand2 n t1 = Some (r1, n1) ->
  expand2 n (t1 ++ t2) = match expand2 n1 t2 with Some (r2, n2) => Some (r1 ++ r2, n2) | None => None end.
Proof.
  induction t1 as [|e t1 IH]; intros n t2 r1 n1 H1; cbn [app expand2] in *.
  - inversion H1; subst. destruct (expand2 n1 t2) as [[r2 n2]|]; reflexivity.
  - destruct e as [a f v|a f v|a|g k ar].
    + destruct (nth_error am a) as [ai|]; [|discriminate].
      destruct (assoc f (ai_fields ai)); [|discriminate].
      destruct (expand2 n t1) as [[r n']|] eqn:He; [|discriminate]. inversion H1; subst.
      rewrite (IH _ t2 _ _ He). destruct (expand2 n1 t2) as [[r2 n2]|]; reflexivity.
    + destruct (nth_error am a) as [ai|]; [|discriminate].
      destruct (assoc f (ai_launch ai)); [|discriminate].
      destruct (expand2 n t1) as [[r n']|] eqn:He; [|discriminate]. inversion H1; subst.
      rewrite (IH _ t2 _ _ He). destruct (expand2 n1 t2) as [[r2 n2]|]; reflexivity.
    + destruct (nth_error am a) as [ai|]; [|discriminate].
      destruct (expand2 (snd (await_events ai busy n)) t1) as [[r n']|] eqn:He; [|discriminate].
      inversion H1; subst.
      rewrite (IH _ t2 _ _ He). destruct (expand2 n1 t2) as [[r2 n2]|]; [|reflexivity].
      rewrite app_assoc. reflexivity.
    + destruct (expand2 n t1) as [[r n']|] eqn:He; [|discriminate]. inversion H1; subst.
      rewrite (IH _ t2 _ _ He). destruct (expand2 n1 t2) as [[r2 n2]|]; reflexivity.
Qed.

Lemma tc_expand2 t c n : tc t c n -> expand2 0%nat (rev t) = Some (rev c, n).
Proof.
  induction 1 as [|t c n a f v ai ad Ht IH Hai Ha|t c n a f v ai ad Ht IH Hai Ha|t c n a ai Ht IH Hai|t c n g k ar Ht IH];
    cbn [rev].
  - reflexivity.
  - rewrite (expand2_app _ _ _ _ _ IH). cbn [expand2]. rewrite Hai, Ha. reflexivity.
  - rewrite (expand2_app _ _ _ _ _ IH). cbn [expand2]. rewrite Hai, Ha. reflexivity.
  - rewrite (expand2_app _ _ _ _ _ IH). cbn [expand2]. rewrite Hai.
    rewrite rev_app_distr, rev_involutive, app_nil_r. reflexivity.
  - rewrite (expand2_app _ _ _ _ _ IH). cbn [expand2]. reflexivity.
Qed.

(* ---- the refinement theorem ------------------------------------------------------------------------------ *)
Theorem lower_refines p cb args :
  lower_block am idx (p_body p) = Some cb ->
  expand am busy 0%nat (frun orc p args) = Some (crun co (p_params p) cb args)
  /\ fenv (fexec_block orc (p_body p) (finit p args)) = cenv (cexec_block co cb (cinit co (p_params p) args)).
Proof.
  intros Hl.
  assert (HR0 : R (finit p args) (cinit co (p_params p) args)).
  { unfold R, finit, cinit. cbn. repeat split. constructor. }
  pose proof (lower_sim_block (p_body p) cb Hl _ _ HR0) as (He & Hn & Ht).
  split; [|exact He].
  unfold frun, crun. rewrite expand_expand2. rewrite (tc_expand2 _ _ _ Ht). reflexivity.
Qed.

End Refine.

(* ---- lowering fails exactly on undeclared accelerators / fields / resets; never on declared programs ----- *)
Section Declared.
Variable am : amapT.
Fixpoint fields_declared (s : stmt) : bool :=
  let blk := fix blk (b : list stmt) : bool :=
    match b with [] => true | x :: b' => fields_declared x && blk b' end in
  match s with
  | SSetup a _ _ fs =>
      match nth_error am a with
      | Some ai => forallb (fun fv => match assoc (fst fv) (ai_fields ai) with Some _ => true | None => false end) fs
      | None => false
      end
  | SLaunch a _ _ fs =>
      match nth_error am a with
      | Some ai => forallb (fun fv => match assoc (fst fv) (ai_launch ai) with Some _ => true | None => false end) fs
      | None => false
      end
  | SAwait a _ => match nth_error am a with Some _ => true | None => false end
  | SReset _ _ => false
  | SFor _ _ _ _ _ _ body _ => blk body
  | SIf _ _ thn _ els _ => blk thn && blk els
  | _ => true
  end.
Fixpoint block_declared (b : block) : bool :=
  match b with [] => true | x :: b' => fields_declared x && block_declared b' end.
End Declared.

Lemma lower_params_total ix tbl fs :
  forallb (fun fv : field * val => match assoc (fst fv) tbl with Some _ => true | None => false end) fs = true ->
  exists cb, lower_params ix tbl fs = Some cb.
Proof.
  induction fs as [|[f v] fs IH]; cbn [forallb lower_params fst]; intros H.
  - eexists; reflexivity.
  - apply andb_true_iff in H as [H1 H2]. destruct (assoc f tbl); [|discriminate].
    destruct (IH H2) as [r Hr]. rewrite Hr. eexists; reflexivity.
Qed.

Lemma lower_total am idx : forall b, block_declared am b = true -> exists cb, lower_block am idx b = Some cb.
Proof.
  apply (block_ind2
    (fun s => fields_declared am s = true -> exists cs, lower_stmt am idx s = Some cs)
    (fun b => block_declared am b = true -> exists cb, lower_block am idx b = Some cb)).
  - intros; eexists; reflexivity.
  - intros; eexists; reflexivity.
  - intros a o i fs H. cbn [fields_declared lower_stmt] in *.
    destruct (nth_error am a) as [ai|]; [|discriminate]. apply lower_params_total. exact H.
  - intros a k st fs H. cbn [fields_declared lower_stmt] in *.
    destruct (nth_error am a) as [ai|]; [|discriminate]. apply lower_params_total. exact H.
  - intros a k H. cbn [fields_declared lower_stmt] in *.
    destruct (nth_error am a) as [ai|]; [|discriminate]. eexists; reflexivity.
  - intros a st H. cbn in H. discriminate.
  - intros iv lb ub sp its rs body ys IH H. rewrite lower_stmt_for.
    change (fields_declared am (SFor iv lb ub sp its rs body ys)) with (block_declared am body) in H.
    destruct (IH H) as [cb Hcb]. rewrite Hcb. eexists; reflexivity.
  - intros c rs th thy el ely IHt IHe H. rewrite lower_stmt_if.
    change (fields_declared am (SIf c rs th thy el ely)) with (block_declared am th && block_declared am el) in H.
    apply andb_true_iff in H as [H1 H2].
    destruct (IHt H1) as [ct Hct]. destruct (IHe H2) as [ce Hce]. rewrite Hct, Hce. eexists; reflexivity.
  - intros _. eexists; reflexivity.
  - intros s b IHs IHb H. cbn [block_declared forallb] in H. apply andb_true_iff in H as [H1 H2].
    destruct (IHs H1) as [cs Hcs]. destruct (IHb H2) as [cb Hcb].
    cbn [lower_block]. rewrite Hcs, Hcb. eexists; reflexivity.
Qed.

(* ---- no state value survives ---------------------------------------------------------------------------------
   every id the lowered program mentions sits at an integer position of the source program *)
Lemma keep_int_incl {A} tys : forall (xs : list A), incl (keep_int tys xs) xs.
Proof.
  induction tys as [|t tys IH]; intros xs; cbn [keep_int]; [intros x []|].
  destruct xs as [|x xs]; [intros y []|].
  destruct (is_int t).
  - intros y [Hy|Hy]; [left; exact Hy|right; apply IH; exact Hy].
  - intros y Hy. right. apply IH. exact Hy.
Qed.

Lemma lower_params_ids ix tbl : forall fs cb, lower_params ix tbl fs = Some cb -> cblock_ids cb = map snd fs.
Proof.
  induction fs as [|[f v] fs IH]; intros cb H; cbn [lower_params] in H.
  - inversion H; reflexivity.
  - destruct (assoc f tbl); [|discriminate]. destruct (lower_params ix tbl fs) as [r|] eqn:Hr; [|discriminate].
    inversion H; subst. cbn [cblock_ids flat_map map snd]. destruct (mem_nat v ix); cbn [cstmt_ids app]; f_equal; apply (IH r eq_refl).
Qed.

Lemma lower_await_ids ai : cblock_ids (lower_await ai) = [].
Proof.
  unfold lower_await. destruct (ai_style ai); try reflexivity.
  induction (ai_launch ai) as [|la l IH]; [reflexivity|]. cbn [flat_map app cblock_ids cstmt_ids]. exact IH.
Qed.

Lemma cblock_ids_app a b : cblock_ids (a ++ b) = cblock_ids a ++ cblock_ids b.
Proof. unfold cblock_ids. apply flat_map_app. Qed.

Lemma cstmt_ids_for iv lb ub st iters results body yields :
  cstmt_ids (CFor iv lb ub st iters results body yields)
  = iv :: lb :: ub :: st :: map fst iters ++ map snd iters ++ results ++ yields ++ cblock_ids body.
Proof. reflexivity. Qed.
Lemma cstmt_ids_if c results thn thn_y els els_y :
  cstmt_ids (CIf c results thn thn_y els els_y)
  = c :: results ++ thn_y ++ els_y ++ cblock_ids thn ++ cblock_ids els.
Proof. reflexivity. Qed.
Lemma stmt_int_ids_for iv lb ub st iters results body yields :
  stmt_int_ids (SFor iv lb ub st iters results body yields)
  = iv :: lb :: ub :: st :: keep_int (map it_ty iters) (map it_arg iters) ++ keep_int (map it_ty iters) (map it_init iters)
      ++ keep_int (map it_ty iters) results ++ keep_int (map it_ty iters) yields ++ block_int_ids body.
Proof. reflexivity. Qed.
Lemma stmt_int_ids_if c results thn thn_y els els_y :
  stmt_int_ids (SIf c results thn thn_y els els_y)
  = c :: keep_int (map snd results) (map fst results) ++ keep_int (map snd results) thn_y
      ++ keep_int (map snd results) els_y ++ block_int_ids thn ++ block_int_ids els.
Proof. reflexivity. Qed.

Lemma lower_ids am idx : forall b cb, lower_block am idx b = Some cb -> cblock_ids cb = block_int_ids b.
Proof.
  apply (block_ind2
    (fun s => forall cs, lower_stmt am idx s = Some cs -> cblock_ids cs = stmt_int_ids s)
    (fun b => forall cb, lower_block am idx b = Some cb -> cblock_ids cb = block_int_ids b)).
  - intros d e cs H. inversion H; subst. cbn. rewrite app_nil_r. reflexivity.
  - intros g ef pu ds ar cs H. inversion H; subst. cbn. rewrite app_nil_r. reflexivity.
  - intros a o i fs cs H. cbn [lower_stmt] in H. destruct (nth_error am a); [|discriminate].
    apply (lower_params_ids _ _ _ _ H).
  - intros a k st fs cs H. cbn [lower_stmt] in H. destruct (nth_error am a); [|discriminate].
    apply (lower_params_ids _ _ _ _ H).
  - intros a k cs H. cbn [lower_stmt] in H. destruct (nth_error am a); [|discriminate].
    inversion H; subst. apply lower_await_ids.
  - intros a st cs H. discriminate.
  - intros iv lb ub sp its rs body ys IH cs H. rewrite lower_stmt_for in H.
    destruct (lower_block am idx body) as [cb|] eqn:Hb; [|discriminate]. inversion H; subst.
    cbn [cblock_ids flat_map]. rewrite app_nil_r, cstmt_ids_for, stmt_int_ids_for, (IH cb eq_refl).
    rewrite int_iters_args. unfold int_iters. rewrite map_map. cbn [snd].
    rewrite (keep_int_map it_init). reflexivity.
  - intros c rs th thy el ely IHt IHe cs H. rewrite lower_stmt_if in H.
    destruct (lower_block am idx th) as [ct|] eqn:Ht; [|discriminate].
    destruct (lower_block am idx el) as [ce|] eqn:He; [|discriminate]. inversion H; subst.
    cbn [cblock_ids flat_map]. rewrite app_nil_r, cstmt_ids_if, stmt_int_ids_if, (IHt ct eq_refl), (IHe ce eq_refl).
    reflexivity.
  - intros cb H. inversion H; reflexivity.
  - intros s b IHs IHb cb H. cbn [lower_block] in H.
    destruct (lower_stmt am idx s) as [cs|] eqn:Hs; [|discriminate].
    destruct (lower_block am idx b) as [cb'|] eqn:Hb; [|discriminate]. inversion H; subst.
    rewrite cblock_ids_app, (IHs cs eq_refl), (IHb cb' eq_refl). reflexivity.
Qed.

Theorem no_state_survives am idx b cb :
  lower_block am idx b = Some cb ->
  (forall x, In x (block_state_ids b) -> ~ In x (block_int_ids b)) ->
  forall x, In x (block_state_ids b) -> ~ In x (cblock_ids cb).
Proof. intros Hl Hty x Hx. rewrite (lower_ids am idx b cb Hl). apply Hty. exact Hx. Qed.

(* ---- the CSR file holds what the accelerator was configured with (uses injectivity) ------------------------- *)
Lemma assoc_In f l a : assoc f l = Some a -> In (f, a) l.
Proof.
  induction l as [|[g b] l IH]; cbn [assoc]; [discriminate|].
  destruct (Nat.eqb g f) eqn:E.
  - intros H. inversion H; subst. apply Nat.eqb_eq in E. subst. left. reflexivity.
  - intros H. right. apply IH. exact H.
Qed.

Lemma NoDup_map_snd_inj {A} (l : list (A * Z)) x y a :
  NoDup (map snd l) -> In (x, a) l -> In (y, a) l -> x = y.
Proof.
  induction l as [|[k v] l IH]; intros Hnd Hx Hy; [destruct Hx|].
  cbn [map snd] in Hnd. inversion Hnd as [|? ? Hni Hnd']; subst.
  destruct Hx as [Hx|Hx]; destruct Hy as [Hy|Hy].
  - congruence.
  - inversion Hx; subst. exfalso. apply Hni. apply in_map_iff. exists (y, a). split; [reflexivity|exact Hy].
  - inversion Hy; subst. exfalso. apply Hni. apply in_map_iff. exists (x, a). split; [reflexivity|exact Hx].
  - apply IH; assumption.
Qed.

Lemma NoDup_app_parts {A} (l1 l2 : list A) :
  NoDup (l1 ++ l2) -> NoDup l1 /\ NoDup l2 /\ (forall x, In x l1 -> In x l2 -> False).
Proof.
  induction l1 as [|a l1 IH]; cbn [app]; intros H.
  - repeat split; [constructor|exact H|intros x []].
  - inversion H as [|? ? Hni Hnd]; subst. destruct (IH Hnd) as (H1 & H2 & H3). repeat split.
    + constructor; [|exact H1]. intros Hin. apply Hni. apply in_or_app. left. exact Hin.
    + exact H2.
    + intros x [Hx|Hx] Hx2; [subst; apply Hni; apply in_or_app; right; exact Hx2|exact (H3 x Hx Hx2)].
Qed.

(* One accelerator [a0] with declaration [ai]: if no two of its setup fields, launch fields, the clear
   register share an address, then after the CSR trace demanded by ANY source trace that only talks to
   [a0], every field written so far holds, in the CSR file, the last value written to it. *)
Section OneAcc.
Variable ai : accinfo.
Variable a0 : acc.
Variable busy : nat -> nat.
Hypothesis Hinj : NoDup (map snd (ai_fields ai) ++ map snd (ai_launch ai) ++ [CLEAR_ADDR]).

Definition only_acc (t : list fev) : Prop :=
  forall e, In e t -> match e with FSet a _ _ | FLaunch a _ _ | FAwait a => a = a0 | FCallE _ _ _ => False end.

Definition agree (r : field -> option Z) (c : Z -> Z) : Prop :=
  forall f v ad, r f = Some v -> assoc f (ai_fields ai) = Some ad -> c ad = v.

Lemma csr_after_app t1 t2 c : csr_after (t1 ++ t2) c = csr_after t2 (csr_after t1 c).
Proof. revert c; induction t1 as [|e t1 IH]; intros c; cbn [app csr_after]; [reflexivity|]. destruct e; apply IH. Qed.

(* writes outside the setup-field addresses keep the agreement *)
Lemma agree_write_other r c ad v :
  (forall f ad', assoc f (ai_fields ai) = Some ad' -> ad' <> ad) -> agree r c -> agree r (zupd c ad v).
Proof.
  intros Hne Hag f w ad' Hr Ha. unfold zupd. destruct (ad' =? ad) eqn:E.
  - apply Z.eqb_eq in E. exfalso. exact (Hne f ad' Ha E).
  - apply (Hag f w ad' Hr Ha).
Qed.

Lemma fields_disjoint_rest x :
  In x (map snd (ai_fields ai)) -> In x (map snd (ai_launch ai) ++ [CLEAR_ADDR]) -> False.
Proof. destruct (NoDup_app_parts _ _ Hinj) as (_ & _ & H). apply H. Qed.

Lemma field_addr_not_launch f ad g ad' :
  assoc f (ai_fields ai) = Some ad -> assoc g (ai_launch ai) = Some ad' -> ad <> ad'.
Proof.
  intros Hf Hg E. subst ad'. apply assoc_In in Hf. apply assoc_In in Hg.
  apply (fields_disjoint_rest ad).
  - apply in_map_iff. exists (f, ad). split; [reflexivity|exact Hf].
  - apply in_or_app. left. apply in_map_iff. exists (g, ad). split; [reflexivity|exact Hg].
Qed.

Lemma field_addr_not_clear f ad : assoc f (ai_fields ai) = Some ad -> ad <> CLEAR_ADDR.
Proof.
  intros Hf E. apply assoc_In in Hf.
  apply (fields_disjoint_rest ad).
  - apply in_map_iff. exists (f, ad). split; [reflexivity|exact Hf].
  - apply in_or_app. right. left. symmetry. exact E.
Qed.

Lemma field_addr_inj f g ad : assoc f (ai_fields ai) = Some ad -> assoc g (ai_fields ai) = Some ad -> f = g.
Proof.
  intros Hf Hg. apply assoc_In in Hf. apply assoc_In in Hg.
  destruct (NoDup_app_parts _ _ Hinj) as (Hl & _ & _).
  exact (NoDup_map_snd_inj _ _ _ _ Hl Hf Hg).
Qed.

Lemma await_events_agree r c n : agree r c -> agree r (csr_after (fst (await_events ai busy n)) c).
Proof.
  intros Hag. unfold await_events. destruct (ai_style ai); cbn [fst].
  - rewrite csr_after_app. cbn [csr_after].
    assert (Hp : forall k c', csr_after (repeat_ev k (CR (ai_barrier ai)) []) c' = c').
    { induction k as [|k IHk]; intros c'; cbn [repeat_ev csr_after]; [reflexivity|apply IHk]. }
    rewrite Hp. apply agree_write_other; [|exact Hag].
    intros f ad' Ha. apply (field_addr_not_clear f ad' Ha).
  - assert (Hp : forall k c', csr_after (repeat_ev k (CR (ai_barrier ai)) []) c' = c').
    { induction k as [|k IHk]; intros c'; cbn [repeat_ev csr_after]; [reflexivity|apply IHk]. }
    rewrite Hp. exact Hag.
  - assert (Hp : forall k c', csr_after (repeat_ev k (CR (ai_barrier ai)) []) c' = c').
    { induction k as [|k IHk]; intros c'; cbn [repeat_ev csr_after]; [reflexivity|apply IHk]. }
    rewrite Hp. exact Hag.
  - assert (Hl : forall l, (forall g ad', In (g, ad') l -> In (g, ad') (ai_launch ai)) ->
               forall c', agree r c' ->
               agree r (csr_after (flat_map (fun la : field * Z => [CW (snd la) 0; CW (snd la) 0]) l) c')).
    { induction l as [|[g ad'] l IHl]; intros Hsub c' Hc'; cbn [flat_map app csr_after snd]; [exact Hc'|].
      apply IHl; [intros g' a' Hin; apply Hsub; right; exact Hin|].
      assert (Hne : forall f ad'', assoc f (ai_fields ai) = Some ad'' -> ad'' <> ad').
      { intros f ad'' Ha E. subst ad''. apply assoc_In in Ha.
        assert (Hin : In (g, ad') (ai_launch ai)) by (apply Hsub; left; reflexivity).
        apply (fields_disjoint_rest ad').
        - apply in_map_iff. exists (f, ad'). split; [reflexivity|exact Ha].
        - apply in_or_app. left. apply in_map_iff. exists (g, ad'). split; [reflexivity|exact Hin]. }
      apply agree_write_other; [exact Hne|]. apply agree_write_other; [exact Hne|exact Hc']. }
    apply Hl; [intros; assumption|exact Hag].
Qed.

Theorem csr_holds_config : forall t n r c ct,
  only_acc t -> agree r c ->
  expand [ai] busy n (map (fun e => match e with
                                     | FSet _ f v => FSet 0%nat f v
                                     | FLaunch _ f v => FLaunch 0%nat f v
                                     | FAwait _ => FAwait 0%nat
                                     | e' => e' end) t) = Some ct ->
  agree (regs_after a0 t r) (csr_after ct c).
Proof.
  induction t as [|e t IH]; intros n r c ct Hon Hag Hex; cbn [map expand regs_after] in *.
  - inversion Hex; subst. exact Hag.
  - assert (Hon' : only_acc t) by (intros e' He'; apply Hon; right; exact He').
    pose proof (Hon e (or_introl eq_refl)) as He.
    destruct e as [a f v|a f v|a|g k ar]; [| | |destruct He]; subst a.
    + cbn [nth_error] in Hex.
      destruct (assoc f (ai_fields ai)) as [ad|] eqn:Ha; [|discriminate].
      destruct (expand [ai] busy n _) as [rr|] eqn:Hr; [|discriminate]. inversion Hex; subst.
      cbn [csr_after]. rewrite Nat.eqb_refl.
      apply (IH n _ _ rr Hon'); [|exact Hr].
      intros g w ad' Hg Ha'. unfold zupd. destruct (Nat.eqb g f) eqn:Eg.
      * apply Nat.eqb_eq in Eg. subst g. inversion Hg; subst. rewrite Ha in Ha'. inversion Ha'; subst.
        rewrite Z.eqb_refl. reflexivity.
      * destruct (ad' =? ad) eqn:E.
        -- apply Z.eqb_eq in E. subst ad'. apply Nat.eqb_neq in Eg. exfalso. apply Eg.
           exact (field_addr_inj _ _ _ Ha' Ha).
        -- apply (Hag g w ad' Hg Ha').
    + cbn [nth_error] in Hex.
      destruct (assoc f (ai_launch ai)) as [ad|] eqn:Ha; [|discriminate].
      destruct (expand [ai] busy n _) as [rr|] eqn:Hr; [|discriminate]. inversion Hex; subst.
      cbn [csr_after].
      apply (IH n _ _ rr Hon'); [|exact Hr].
      apply agree_write_other; [|exact Hag].
      intros g ad' Hg. apply (field_addr_not_launch g ad' f ad Hg Ha).
    + cbn [nth_error] in Hex.
      destruct (await_events ai busy n) as [evs n'] eqn:Hev.
      destruct (expand [ai] busy n' _) as [rr|] eqn:Hr; [|discriminate]. inversion Hex; subst.
      rewrite csr_after_app.
      apply (IH n' _ _ rr Hon'); [|exact Hr].
      pose proof (await_events_agree r c n Hag) as H. rewrite Hev in H. exact H.
Qed.
End OneAcc.
