(* C01 — trace preservation of the dedup rewrites.

   [simp_preserves]: dropping, at any selection of setups, the (field, value) pairs that the table
   T lists for the setup's input state preserves what every launch observes — for every
   program context (any nesting of loops / conditionals / calls), every oracle and all
   arguments (all trip counts, both branch outcomes) — on every run on which the instrumented
   semantics reports no contradiction of T ([chk] = []); by [wf_sound] that is every run of
   every program whose table is certified.  The simulation keeps the environments equal and the
   register files pointwise equal (the removed writes are redundant), so the launch events are
   related by [ev_sim_b]; loops by induction on the iteration index. *)
From Snax Require Import Base.Prelude Model.AccIR Model.AccSem Model.AccInfer Model.AccDedup
  Proofs.AccSemProofs Proofs.AccInferProofs.

(* ---- reflexivity of the boolean comparisons -------------------------------------------- *)
Lemma list_eqb_refl {A} (eqb : A -> A -> bool) : (forall x, eqb x x = true) -> forall l, list_eqb eqb l l = true.
Proof. intros H l; induction l as [|x l IH]; simpl; [reflexivity|]. rewrite H, IH. reflexivity. Qed.

Lemma lv_eqb_refl x : lv_eqb x x = true.
Proof. unfold lv_eqb. rewrite Nat.eqb_refl, Z.eqb_refl. reflexivity. Qed.

Lemma list_eqb_app {A} (eqb : A -> A -> bool) l1 : forall l1' l2 l2',
  list_eqb eqb l1 l1' = true -> list_eqb eqb l2 l2' = true -> list_eqb eqb (l1 ++ l2) (l1' ++ l2') = true.
Proof.
  induction l1 as [|x l1 IH]; intros [|y l1'] l2 l2' H1 H2; simpl in *; try discriminate; [exact H2|].
  apply andb_true_iff in H1. destruct H1 as [Hx H1]. rewrite Hx. simpl. apply IH; assumption.
Qed.

Lemma list_eqb_rev {A} (eqb : A -> A -> bool) l : forall l',
  list_eqb eqb l l' = true -> list_eqb eqb (rev l) (rev l') = true.
Proof.
  induction l as [|x l IH]; intros [|y l'] H; simpl in *; try discriminate; [reflexivity|].
  apply andb_true_iff in H. destruct H as [Hx H]. apply list_eqb_app; [apply IH; exact H|].
  simpl. rewrite Hx. reflexivity.
Qed.

(* ---- last_binding under a filter ----------------------------------------------------------- *)
Lemma last_binding_In f fs : forall v, last_binding f fs = Some v -> In f (map fst fs).
Proof.
  induction fs as [|[g w] fs IH]; intros v; simpl; [discriminate|].
  destruct (last_binding f fs) as [x|] eqn:E.
  - intros _. right. apply (IH x). reflexivity.
  - destruct (Nat.eqb g f) eqn:Eg; [|discriminate]. intros _. left. apply Nat.eqb_eq; exact Eg.
Qed.

Lemma last_binding_cons f g w l :
  last_binding f ((g, w) :: l) =
  match last_binding f l with Some x => Some x | None => if Nat.eqb g f then Some w else None end.
Proof. reflexivity. Qed.

Lemma last_binding_filter q f fs :
  nodup_nat (map fst fs) = true ->
  last_binding f (filter q fs) =
  match last_binding f fs with Some v => if q (f, v) then Some v else None | None => None end.
Proof.
  induction fs as [|[g w] fs IH]; intros Hnd; [reflexivity|].
  simpl in Hnd. apply andb_true_iff in Hnd. destruct Hnd as [Hg Hnd].
  apply Bool.negb_true_iff in Hg. apply mem_nat_false in Hg.
  specialize (IH Hnd). cbn [filter]. rewrite last_binding_cons.
  destruct (last_binding f fs) as [x|] eqn:E.
  - assert (Hne : g <> f). { intros ->. apply Hg. apply (last_binding_In _ _ _ E). }
    apply Nat.eqb_neq in Hne.
    destruct (q (g, w)).
    + rewrite last_binding_cons, IH, Hne. destruct (q (f, x)); reflexivity.
    + exact IH.
  - destruct (Nat.eqb g f) eqn:Eg.
    + apply Nat.eqb_eq in Eg. subst g. destruct (q (f, w)) eqn:Eq.
      * match goal with |- last_binding _ (if ?c then _ else _) = _ => replace c with true by (symmetry; exact Eq) end.
        rewrite last_binding_cons, IH, Nat.eqb_refl. reflexivity.
      * match goal with |- last_binding _ (if ?c then _ else _) = _ => replace c with false by (symmetry; exact Eq) end.
        exact IH.
    + destruct (q (g, w)).
      * rewrite last_binding_cons, IH, Eg. reflexivity.
      * exact IH.
Qed.

Lemma write_fields_ext e fs r r' f : (forall g, r' g = r g) -> write_fields e fs r' f = write_fields e fs r f.
Proof. intros H. rewrite !write_fields_spec. destruct (last_binding f fs); [reflexivity|apply H]. Qed.

(* the register-level relation between events (transitive; implies ev_sim_b) *)
Definition ev_strong (e e' : event) : Prop :=
  match e, e' with
  | ELaunch a _ rg lv, ELaunch a' _ rg' lv' => a = a' /\ lv = lv' /\ (forall f, rg f = rg' f)
  | EAwait a, EAwait a' => a = a'
  | ECall g n ar, ECall g' n' ar' => g = g' /\ n = n' /\ ar = ar'
  | EReset a, EReset a' => a = a'
  | _, _ => False
  end.

Lemma ev_strong_refl e : ev_strong e e.
Proof. destruct e; simpl; auto. Qed.

Lemma ev_strong_trans e1 e2 e3 : ev_strong e1 e2 -> ev_strong e2 e3 -> ev_strong e1 e3.
Proof.
  destruct e1, e2, e3; simpl; try tauto.
  - intros [-> [-> H1]] [-> [-> H2]]. repeat split. intros f. rewrite H1. apply H2.
  - congruence.
  - intros [-> [-> ->]] [-> [-> ->]]. auto.
  - congruence.
Qed.

Lemma ev_strong_sim e e' : ev_strong e e' -> ev_sim_b e e' = true.
Proof.
  destruct e, e'; simpl; try tauto.
  - intros [-> [-> H]]. rewrite Nat.eqb_refl, (list_eqb_refl lv_eqb lv_eqb_refl). simpl.
    apply forallb_forall. intros f _. rewrite H. apply Z.eqb_refl.
  - intros ->. apply Nat.eqb_refl.
  - intros [-> [-> ->]]. rewrite !Nat.eqb_refl, (list_eqb_refl Z.eqb Z.eqb_refl). reflexivity.
  - intros ->. apply Nat.eqb_refl.
Qed.

Definition trace_strong (l l' : list event) : Prop := Forall2 ev_strong l l'.

Lemma trace_strong_refl l : trace_strong l l.
Proof. induction l; constructor; [apply ev_strong_refl|assumption]. Qed.

Lemma trace_strong_trans l1 : forall l2 l3, trace_strong l1 l2 -> trace_strong l2 l3 -> trace_strong l1 l3.
Proof.
  induction l1 as [|x l1 IH]; intros l2 l3 H1 H2; inversion H1; subst; inversion H2; subst; constructor.
  - eapply ev_strong_trans; eassumption.
  - eapply IH; eassumption.
Qed.

Lemma trace_strong_sim l : forall l', trace_strong l l' -> trace_sim_b l l' = true.
Proof.
  unfold trace_sim_b. induction l as [|x l IH]; intros l' H; inversion H; subst; simpl; [reflexivity|].
  rewrite (ev_strong_sim _ _ H2). simpl. apply IH. assumption.
Qed.

Lemma trace_strong_rev l l' : trace_strong l l' -> trace_strong (rev l) (rev l').
Proof.
  induction 1 as [|x y l l' Hxy H IH]; simpl; [constructor|].
  apply Forall2_app; [exact IH|]. constructor; [exact Hxy|constructor].
Qed.

Section Simp.
Variable T : val -> astate.
Variable orc : oracle.
Variable sel : val -> bool.

(* the simulation: equal environments, pointwise equal registers, same call count,
   event-wise similar traces *)
Definition R (m m' : mstate) : Prop :=
  env m' = env m /\ (forall a f, regs m' a f = regs m a f) /\ ncalls m' = ncalls m /\
  trace_strong (tr m) (tr m').

Lemma R_refl m : R m m.
Proof. repeat split; try reflexivity. apply trace_strong_refl. Qed.

Lemma R_set_env m m' e : R m m' -> R (set_env m e) (set_env m' e).
Proof. intros [He [Hr [Hn Ht]]]. repeat split; simpl; assumption. Qed.

Lemma simp_stmt_for iv lb ub sp its rs body ys :
  simp_stmt sel T (SFor iv lb ub sp its rs body ys) = SFor iv lb ub sp its rs (simp_block sel T body) ys.
Proof.
  cbn [simp_stmt]. f_equal.
  induction body as [|x b IH]; [reflexivity|]. cbn [simp_block]. rewrite <- IH. reflexivity.
Qed.

Lemma simp_stmt_if c rs th thy el ely :
  simp_stmt sel T (SIf c rs th thy el ely) = SIf c rs (simp_block sel T th) thy (simp_block sel T el) ely.
Proof.
  cbn [simp_stmt]. f_equal.
  - induction th as [|x b IH]; [reflexivity|]. cbn [simp_block]. rewrite <- IH. reflexivity.
  - induction el as [|x b IH]; [reflexivity|]. cbn [simp_block]. rewrite <- IH. reflexivity.
Qed.

(* executing the SAME simple statement on related states *)
Lemma R_same_pure d e m m' : R m m' -> R (exec_stmt orc (SPure d e) m) (exec_stmt orc (SPure d e) m').
Proof. intros [He [Hr [Hn Ht]]]. simpl. rewrite He. repeat split; simpl; assumption. Qed.

Lemma R_same_call g ef pu ds ar m m' :
  R m m' -> R (exec_stmt orc (SCall g ef pu ds ar) m) (exec_stmt orc (SCall g ef pu ds ar) m').
Proof.
  intros [He [Hr [Hn Ht]]]. simpl. unfold exec_call. rewrite He, Hn. repeat split; simpl.
  - destruct ef; [reflexivity|exact Hr].
  - constructor; [simpl; auto|exact Ht].
Qed.

Lemma R_same_setup a fs m m' : R m m' -> R (exec_setup a fs m) (exec_setup a fs m').
Proof.
  intros [He [Hr [Hn Ht]]]. unfold exec_setup. repeat split; simpl; try assumption.
  intros b f. unfold upd. destruct (Nat.eqb b a); [|apply Hr].
  rewrite He. apply write_fields_ext. intros g. apply Hr.
Qed.

Lemma R_same_launch a k st fs m m' :
  R m m' -> R (exec_stmt orc (SLaunch a k st fs) m) (exec_stmt orc (SLaunch a k st fs) m').
Proof.
  intros [He [Hr [Hn Ht]]]. simpl. unfold emit. repeat split; simpl; try assumption.
  rewrite He. constructor; [|exact Ht]. simpl. repeat split. intros f. symmetry. apply Hr.
Qed.

Lemma R_same_emit_simple m m' ev : R m m' -> R (emit m ev) (emit m' ev).
Proof. intros [He [Hr [Hn Ht]]]. unfold emit. repeat split; simpl; try assumption. constructor; [apply ev_strong_refl|exact Ht]. Qed.

(* the interesting case: a selected setup loses its redundant pairs *)
Lemma R_simp_setup a i fs m m' :
  R m m' -> nodup_nat (map fst fs) = true -> holds T m a i = true ->
  R (exec_setup a fs m) (exec_setup a (simplify_fields (T i) fs) m').
Proof.
  intros [He [Hr [Hn Ht]]] Hnd Hh. unfold exec_setup. repeat split; simpl; try assumption.
  intros b f. unfold upd. destruct (Nat.eqb b a) eqn:Eb; [|apply Hr].
  rewrite He. rewrite !write_fields_spec. unfold simplify_fields. rewrite last_binding_filter by exact Hnd.
  destruct (last_binding f fs) as [v|] eqn:El; [|apply Hr].
  simpl. destruct (st_lookup f (T i)) as [u|] eqn:Eu; simpl; [|reflexivity].
  destruct (Nat.eqb u v) eqn:Euv; simpl; [|reflexivity].
  apply Nat.eqb_eq in Euv. subst u. rewrite Hr.
  unfold holds in Hh. rewrite forallb_forall in Hh.
  specialize (Hh (f, v) (st_lookup_In _ _ _ Eu)). simpl in Hh. apply Z.eqb_eq in Hh. exact Hh.
Qed.

Lemma viol_nil_holds m a s : viol T m a s = [] -> holds T m a s = true.
Proof. unfold viol. destruct (holds T m a s); [reflexivity|discriminate]. Qed.

Definition Qs (s : stmt) : Prop := forall m m', stmt_fields_nodup s = true -> R m m' ->
  snd (chk_stmt T orc s m) = [] -> R (exec_stmt orc s m) (exec_stmt orc (simp_stmt sel T s) m').
Definition Qb (b : block) : Prop := forall m m', block_fields_nodup b = true -> R m m' ->
  snd (chk_block T orc b m) = [] -> R (exec_block orc b m) (exec_block orc (simp_block sel T b) m').

Lemma stmt_fields_nodup_for iv lb ub sp its rs body ys :
  stmt_fields_nodup (SFor iv lb ub sp its rs body ys) = block_fields_nodup body.
Proof. reflexivity. Qed.
Lemma stmt_fields_nodup_if c rs th thy el ely :
  stmt_fields_nodup (SIf c rs th thy el ely) = block_fields_nodup th && block_fields_nodup el.
Proof. reflexivity. Qed.

Lemma sim_setup a o i fs : Qs (SSetup a o i fs).
Proof.
  intros m m' Hnd HR Hc. simpl in Hnd.
  destruct i as [i|]; [|exact (R_same_setup a fs m m' HR)].
  cbn [simp_stmt]. destruct (sel o); [|exact (R_same_setup a fs m m' HR)].
  cbn [exec_stmt]. apply R_simp_setup; [exact HR|exact Hnd|].
  simpl in Hc. apply app_eq_nil in Hc. apply viol_nil_holds. exact (proj1 Hc).
Qed.

Lemma sim_for iv lb ub sp its rs body ys : Qb body -> Qs (SFor iv lb ub sp its rs body ys).
Proof.
  intros IHb m m' Hnd HR Hc. rewrite stmt_fields_nodup_for in Hnd.
  rewrite simp_stmt_for, !exec_stmt_for. rewrite chk_stmt_for in Hc. cbv zeta in Hc. cbn [snd] in Hc.
  apply app_eq_nil in Hc. destruct Hc as [Hc _].
  unfold exec_for. destruct HR as [He [Hr [Hn Ht]]]. rewrite He.
  set (l := env m lb) in *. set (s := env m sp) in *. set (n := trip_count l (env m ub) s) in *.
  set (bargs := map it_arg its) in *.
  set (e0 := bind_list bargs (map (fun x => env m (it_init x)) its) (env m)) in *.
  set (sis := state_iters its ys rs) in *.
  assert (HR0 : R (set_env m e0) (set_env m' e0)) by (repeat split; simpl; assumption).
  assert (Hloop : forall k, snd (iter_n k (chk_for_step T (chk_block T orc body) iv bargs ys sis l s) (set_env m e0, [])) = [] ->
            R (iter_n k (for_step (exec_block orc body) iv bargs ys l s) (set_env m e0))
              (iter_n k (for_step (exec_block orc (simp_block sel T body)) iv bargs ys l s) (set_env m' e0))).
  { induction k as [|k IHk]; intros Hk; [exact HR0|].
    cbn [iter_n] in Hk |- *. unfold chk_for_step at 1 in Hk. cbn [fst snd] in Hk.
    apply app_eq_nil in Hk. destruct Hk as [Hk1 Hk2]. apply app_eq_nil in Hk2. destruct Hk2 as [_ Hk3].
    rewrite (chk_fst_iter T _ (exec_block orc body)) in Hk3 by (intros; apply chk_block_fst).
    specialize (IHk Hk1).
    set (mk := iter_n k (for_step (exec_block orc body) iv bargs ys l s) (set_env m e0)) in *.
    set (mk' := iter_n k (for_step (exec_block orc (simp_block sel T body)) iv bargs ys l s) (set_env m' e0)) in *.
    unfold for_step.
    destruct IHk as [Hek IHk']. rewrite Hek.
    assert (HR1 : R (set_env mk (upd (env mk) iv (l + Z.of_nat k * s))) (set_env mk' (upd (env mk) iv (l + Z.of_nat k * s)))).
    { destruct IHk' as [Hrk [Hnk Htk]]. repeat split; simpl; assumption. }
    pose proof (IHb _ _ Hnd HR1 Hk3) as HR2.
    destruct HR2 as [He2 HR2']. rewrite He2.
    destruct HR2' as [Hr2 [Hn2 Ht2]]. repeat split; simpl; assumption. }
  pose proof (Hloop n) as HN.
  assert (Hsn : snd (iter_n n (chk_for_step T (chk_block T orc body) iv bargs ys sis l s) (set_env m e0, [])) = []).
  { exact Hc. }
  specialize (HN Hsn). destruct HN as [HeN [HrN [HnN HtN]]]. rewrite HeN.
  repeat split; simpl; assumption.
Qed.

Lemma sim_if c rs th thy el ely : Qb th -> Qb el -> Qs (SIf c rs th thy el ely).
Proof.
  intros IHt IHe m m' Hnd HR Hc. rewrite stmt_fields_nodup_if in Hnd. apply andb_true_iff in Hnd.
  destruct Hnd as [Hnt Hne].
  rewrite simp_stmt_if, !exec_stmt_if. rewrite chk_stmt_if in Hc. cbv zeta in Hc. cbn [snd] in Hc.
  apply app_eq_nil in Hc. destruct Hc as [Hc _].
  unfold exec_if. pose proof HR as [He _]. rewrite He.
  destruct (env m c =? 0).
  - pose proof (IHe _ _ Hne HR Hc) as [He2 [Hr2 [Hn2 Ht2]]]. rewrite He2. repeat split; simpl; assumption.
  - pose proof (IHt _ _ Hnt HR Hc) as [He2 [Hr2 [Hn2 Ht2]]]. rewrite He2. repeat split; simpl; assumption.
Qed.

Lemma sim_block : forall b, Qb b.
Proof.
  apply (block_ind2 Qs Qb).
  - intros d e m m' _ HR _. exact (R_same_pure d e m m' HR).
  - intros g ef pu ds ar m m' _ HR _. exact (R_same_call g ef pu ds ar m m' HR).
  - exact sim_setup.
  - intros a k st fs m m' _ HR _. exact (R_same_launch a k st fs m m' HR).
  - intros a k m m' _ HR _. simpl. apply R_same_emit_simple; exact HR.
  - intros a st m m' _ HR _. simpl. apply R_same_emit_simple; exact HR.
  - exact sim_for.
  - exact sim_if.
  - intros m m' _ HR _. exact HR.
  - intros s b Hs Hb m m' Hnd HR Hc. simpl in Hnd. apply andb_true_iff in Hnd. destruct Hnd as [H1 H2].
    simpl in Hc. apply app_eq_nil in Hc. destruct Hc as [Hc1 Hc2]. rewrite chk_fst in Hc2.
    simpl. apply Hb; [exact H2| |exact Hc2]. apply Hs; assumption.
Qed.

(* on every run that does not contradict T, dropping T-redundant pairs preserves the trace *)
Theorem simp_preserves_strong p args :
  block_fields_nodup (p_body p) = true -> chk_prog T orc p args = [] ->
  trace_strong (run orc p args) (run orc (simp_prog sel T p) args)
  /\ (forall a f, regs (final_state orc (simp_prog sel T p) args) a f = regs (final_state orc p args) a f).
Proof.
  intros Hnd Hc. unfold chk_prog in Hc.
  assert (HR : R (exec_block orc (p_body p) (init_state orc p args))
                 (exec_block orc (simp_block sel T (p_body p)) (init_state orc p args))).
  { apply sim_block; [exact Hnd|apply R_refl|exact Hc]. }
  destruct HR as [_ [Hr [_ Ht]]]. split.
  - unfold run, final_state. apply trace_strong_rev. exact Ht.
  - exact Hr.
Qed.

Theorem simp_preserves_run p args :
  block_fields_nodup (p_body p) = true -> chk_prog T orc p args = [] ->
  trace_sim_b (run orc p args) (run orc (simp_prog sel T p) args) = true
  /\ (forall a f, regs (final_state orc (simp_prog sel T p) args) a f = regs (final_state orc p args) a f).
Proof.
  intros Hnd Hc. destruct (simp_preserves_strong p args Hnd Hc) as [H1 H2]. split; [|exact H2].
  apply trace_strong_sim. exact H1.
Qed.

(* C01 for the field-dropping rule: every certified program, all oracles / inputs / trip counts *)
Theorem simp_preserves p args :
  wf_prog T p = true -> block_fields_nodup (p_body p) = true ->
  trace_sim_b (run orc p args) (run orc (simp_prog sel T p) args) = true.
Proof.
  intros Hwf Hnd. apply simp_preserves_run; [exact Hnd|]. apply wf_sound. exact Hwf.
Qed.

End Simp.

(* ---- the certificate survives the rewrite: sequences of applications -----------------------
   [simp_wf]: if T is certified for p, it is certified for [simp_prog sel T p] — the rewritten
   setups still satisfy  T out <= update(T in, remaining params)  because a dropped pair is in
   T in.  Hence the theorem above applies again to the result, for any further selection: any
   finite sequence of SimplifyRedundantSetupCalls applications (against the table the pass
   computed) preserves the trace. *)
Lemma st_lookup_map_set f v s g :
  st_lookup g (map (fun gv : field * val => if Nat.eqb (fst gv) f then (f, v) else gv) s)
  = match st_lookup g s with
    | Some w => if Nat.eqb g f then Some v else Some w
    | None => None
    end.
Proof.
  induction s as [|[h w] s IH]; [reflexivity|]. cbn [map fst st_lookup].
  destruct (Nat.eqb h f) eqn:Ehf.
  - apply Nat.eqb_eq in Ehf. subst h. cbn [st_lookup]. destruct (Nat.eqb f g) eqn:Efg.
    + apply Nat.eqb_eq in Efg. subst g. rewrite Nat.eqb_refl. reflexivity.
    + rewrite IH. reflexivity.
  - cbn [st_lookup]. destruct (Nat.eqb h g) eqn:Ehg.
    + apply Nat.eqb_eq in Ehg. subst g. rewrite Ehf. reflexivity.
    + exact IH.
Qed.

Lemma st_lookup_app s1 s2 g :
  st_lookup g (s1 ++ s2) = match st_lookup g s1 with Some w => Some w | None => st_lookup g s2 end.
Proof.
  induction s1 as [|[h w] s1 IH]; [reflexivity|]. cbn [app st_lookup]. destruct (Nat.eqb h g); [reflexivity|exact IH].
Qed.

Lemma st_lookup_set f v s g :
  st_lookup g (st_set f v s) = if Nat.eqb g f then Some v else st_lookup g s.
Proof.
  unfold st_set, st_has. destruct (st_lookup f s) as [w|] eqn:E.
  - rewrite st_lookup_map_set. destruct (Nat.eqb g f) eqn:Eg.
    + apply Nat.eqb_eq in Eg. subst g. rewrite E. reflexivity.
    + destruct (st_lookup g s); reflexivity.
  - rewrite st_lookup_app. cbn [st_lookup]. destruct (Nat.eqb g f) eqn:Eg.
    + apply Nat.eqb_eq in Eg. subst g. rewrite E. rewrite Nat.eqb_refl. reflexivity.
    + rewrite Nat.eqb_sym, Eg. destruct (st_lookup g s); reflexivity.
Qed.

Lemma st_lookup_update fs : forall s g,
  st_lookup g (st_update s fs) = match last_binding g fs with Some v => Some v | None => st_lookup g s end.
Proof.
  induction fs as [|[f v] fs IH]; intros s g; [reflexivity|].
  cbn [st_update]. rewrite IH, last_binding_cons, st_lookup_set.
  destruct (last_binding g fs); [reflexivity|]. rewrite (Nat.eqb_sym f g). destruct (Nat.eqb g f); reflexivity.
Qed.

Lemma st_sub_simplify (to ti : astate) fs :
  nodup_nat (map fst fs) = true ->
  st_sub to (st_update ti fs) = true -> st_sub to (st_update ti (simplify_fields ti fs)) = true.
Proof.
  unfold st_sub. rewrite !forallb_forall. intros Hnd H [f v] Hin. specialize (H _ Hin). cbn [fst snd] in *.
  rewrite st_lookup_update in *. unfold simplify_fields. rewrite last_binding_filter by exact Hnd.
  destruct (last_binding f fs) as [w|] eqn:El; [|exact H].
  cbn [fst snd]. apply Nat.eqb_eq in H. subst w.
  destruct (st_lookup f ti) as [u|] eqn:Eu; cbn [negb]; [|apply Nat.eqb_refl].
  destruct (Nat.eqb u v) eqn:Euv; cbn [negb]; [|apply Nat.eqb_refl].
  exact Euv.
Qed.

Lemma nodup_filter (q : field * val -> bool) fs :
  nodup_nat (map fst fs) = true -> nodup_nat (map fst (filter q fs)) = true.
Proof.
  induction fs as [|[g w] fs IH]; intros H; [reflexivity|].
  simpl in H. apply andb_true_iff in H. destruct H as [Hg Hn]. cbn [filter].
  destruct (q (g, w)); [|exact (IH Hn)].
  cbn [map fst nodup_nat]. rewrite (IH Hn), andb_true_r.
  apply Bool.negb_true_iff. apply Bool.negb_true_iff in Hg. apply mem_nat_false. apply mem_nat_false in Hg.
  intros Hin. apply Hg. apply in_map_iff in Hin. destruct Hin as [[g' w'] [E Hin]]. apply filter_In in Hin.
  apply in_map_iff. exists (g', w'). split; [exact E|exact (proj1 Hin)].
Qed.

Section SimpWf.
Variable T : val -> astate.
Variable sel : val -> bool.

Lemma simp_accs_effects :
  forall s, stmt_accs (simp_stmt sel T s) = stmt_accs s /\ stmt_has_effects (simp_stmt sel T s) = stmt_has_effects s.
Proof.
  apply (stmt_ind2 (fun s => stmt_accs (simp_stmt sel T s) = stmt_accs s
                             /\ stmt_has_effects (simp_stmt sel T s) = stmt_has_effects s)
                   (fun b => block_accs (simp_block sel T b) = block_accs b
                             /\ existsb stmt_has_effects (simp_block sel T b) = existsb stmt_has_effects b));
    try (intros; split; reflexivity).
  - intros a o i fs. destruct i as [i|]; [|split; reflexivity]. cbn [simp_stmt]. destruct (sel o); split; reflexivity.
  - intros iv lb ub sp its rs body ys [IH1 IH2]. rewrite simp_stmt_for. split.
    + change (block_accs (simp_block sel T body) = block_accs body). exact IH1.
    + change (existsb stmt_has_effects (simp_block sel T body) = existsb stmt_has_effects body). exact IH2.
  - intros c rs th thy el ely [IHt1 IHt2] [IHe1 IHe2]. rewrite simp_stmt_if. split.
    + change (block_accs (simp_block sel T th) ++ block_accs (simp_block sel T el) = block_accs th ++ block_accs el).
      rewrite IHt1, IHe1. reflexivity.
    + change (existsb stmt_has_effects (simp_block sel T th) || existsb stmt_has_effects (simp_block sel T el)
              = existsb stmt_has_effects th || existsb stmt_has_effects el).
      rewrite IHt2, IHe2. reflexivity.
  - intros s b [Hs1 Hs2] [Hb1 Hb2]. split.
    + cbn [simp_block]. unfold block_accs in *. cbn [flat_map]. rewrite Hs1, Hb1. reflexivity.
    + cbn [simp_block existsb]. rewrite Hs2, Hb2. reflexivity.
Qed.

Lemma simp_block_accs b : block_accs (simp_block sel T b) = block_accs b.
Proof.
  induction b as [|s b IH]; [reflexivity|]. cbn [simp_block]. unfold block_accs in *. cbn [flat_map].
  rewrite (proj1 (simp_accs_effects s)), IH. reflexivity.
Qed.

Lemma simp_block_effects b : existsb stmt_has_effects (simp_block sel T b) = existsb stmt_has_effects b.
Proof.
  induction b as [|s b IH]; [reflexivity|]. cbn [simp_block existsb].
  rewrite (proj2 (simp_accs_effects s)), IH. reflexivity.
Qed.

Definition Ws (s : stmt) : Prop := forall c c', stmt_fields_nodup s = true ->
  wf_stmt T c s = Some c' -> wf_stmt T c (simp_stmt sel T s) = Some c'.
Definition Wb (b : block) : Prop := forall c c', block_fields_nodup b = true ->
  wf_block T c b = Some c' -> wf_block T c (simp_block sel T b) = Some c'.

Lemma simp_wf_block : forall b, Wb b.
Proof.
  apply (block_ind2 Ws Wb); try (intros; intros c c' _ H; exact H).
  - intros a o i fs c c' Hnd H. destruct i as [i|]; [|exact H]. cbn [simp_stmt]. destruct (sel o); [|exact H].
    simpl in Hnd. simpl in H |- *.
    destruct (optval_is (cur_get a c) i && st_sub (T o) (st_update (T i) fs)) eqn:Hc; [|discriminate].
    apply andb_true_iff in Hc. destruct Hc as [Hl Hs].
    rewrite Hl. rewrite (st_sub_simplify _ _ _ Hnd Hs). exact H.
  - intros iv lb ub sp its rs body ys IHb c c' Hnd H. rewrite stmt_fields_nodup_for in Hnd.
    rewrite simp_stmt_for. rewrite wf_stmt_for in H |- *. cbv zeta in H |- *.
    rewrite simp_block_accs, simp_block_effects.
    destruct (facts_avoid T c (iv :: map it_arg its ++ rs) && nodup_nat (map si_acc (state_iters its ys rs)) &&
              forallb (fun x => optval_is (cur_get (si_acc x) c) (si_init x)
                           && st_sub (T (si_arg x)) (T (si_init x)) && st_sub (T (si_arg x)) (T (si_yield x))
                           && st_sub (T (si_res x)) (T (si_init x)) && st_sub (T (si_res x)) (T (si_yield x)))
                      (state_iters its ys rs)); [|discriminate].
    match type of H with context [wf_block T ?ch body] => destruct (wf_block T ch body) as [c_e|] eqn:Hb; [|discriminate];
      rewrite (IHb ch c_e Hnd Hb) end.
    exact H.
  - intros cv rs th thy el ely IHt IHe c c' Hnd H. rewrite stmt_fields_nodup_if in Hnd.
    apply andb_true_iff in Hnd. destruct Hnd as [Hnt Hne].
    rewrite simp_stmt_if. rewrite wf_stmt_if in H |- *. cbv zeta in H |- *.
    destruct (wf_block T c th) as [c_t|] eqn:Ht; [|discriminate].
    destruct (wf_block T c el) as [c_e|] eqn:He; [|discriminate].
    rewrite (IHt c c_t Hnt Ht), (IHe c c_e Hne He). exact H.
  - intros s b Hs Hb c c' Hnd H. simpl in Hnd. apply andb_true_iff in Hnd. destruct Hnd as [H1 H2].
    simpl in H. destruct (wf_stmt T c s) as [c1|] eqn:E; [|discriminate].
    cbn [simp_block wf_block]. rewrite (Hs c c1 H1 E). exact (Hb c1 c' H2 H).
Qed.

Lemma simp_fields_nodup_block : forall b, block_fields_nodup b = true -> block_fields_nodup (simp_block sel T b) = true.
Proof.
  apply (block_ind2 (fun s => stmt_fields_nodup s = true -> stmt_fields_nodup (simp_stmt sel T s) = true)
                    (fun b => block_fields_nodup b = true -> block_fields_nodup (simp_block sel T b) = true));
    try (intros; assumption).
  - intros a o i fs H. destruct i as [i|]; [|exact H]. cbn [simp_stmt]. destruct (sel o); [|exact H].
    simpl in H |- *. unfold simplify_fields. apply nodup_filter. exact H.
  - intros iv lb ub sp its rs body ys IH H. rewrite simp_stmt_for. rewrite stmt_fields_nodup_for in *. exact (IH H).
  - intros c rs th thy el ely IHt IHe H. rewrite simp_stmt_if. rewrite stmt_fields_nodup_if in *.
    apply andb_true_iff in H. destruct H as [H1 H2]. rewrite (IHt H1), (IHe H2). reflexivity.
  - intros s b Hs Hb H. simpl in H. apply andb_true_iff in H. destruct H as [H1 H2].
    cbn [simp_block block_fields_nodup]. rewrite (Hs H1), (Hb H2). reflexivity.
Qed.

Theorem simp_wf p :
  wf_prog T p = true -> block_fields_nodup (p_body p) = true ->
  wf_prog T (simp_prog sel T p) = true /\ block_fields_nodup (p_body (simp_prog sel T p)) = true.
Proof.
  unfold wf_prog. intros H Hnd. split; [|exact (simp_fields_nodup_block _ Hnd)].
  destruct (wf_block T [] (p_body p)) as [c'|] eqn:E; [|discriminate].
  cbn [simp_prog p_body]. rewrite (simp_wf_block _ [] c' Hnd E). reflexivity.
Qed.
End SimpWf.

(* any finite sequence of selections *)
Fixpoint simp_seq (T : val -> astate) (sels : list (val -> bool)) (p : prog) : prog :=
  match sels with
  | [] => p
  | sel :: sels' => simp_seq T sels' (simp_prog sel T p)
  end.

Lemma simp_seq_strong T orc sels : forall p args,
  wf_prog T p = true -> block_fields_nodup (p_body p) = true ->
  trace_strong (run orc p args) (run orc (simp_seq T sels p) args).
Proof.
  induction sels as [|sel sels IH]; intros p args Hwf Hnd; [apply trace_strong_refl|].
  cbn [simp_seq]. destruct (simp_wf T sel p Hwf Hnd) as [Hwf' Hnd'].
  eapply trace_strong_trans; [|exact (IH _ args Hwf' Hnd')].
  apply simp_preserves_strong; [exact Hnd|]. apply wf_sound. exact Hwf.
Qed.

(* any finite sequence of applications (each with its own selection of setups) *)
Theorem simp_seq_preserves T orc sels p args :
  wf_prog T p = true -> block_fields_nodup (p_body p) = true ->
  trace_sim_b (run orc p args) (run orc (simp_seq T sels p) args) = true.
Proof. intros Hwf Hnd. apply trace_strong_sim. apply simp_seq_strong; assumption. Qed.
