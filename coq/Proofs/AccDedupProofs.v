(* C01 — trace preservation of the dedup rewrites.

   [simp_preserves]: dropping, at any selection of setups, the (field, value) pairs that the table
   T lists for the setup's input state preserves what every launch observes — for every
   program context (any nesting of loops / conditionals / calls), every oracle and all
   arguments (all trip counts, both branch outcomes) — on every run on which the instrumented
   semantics reports no contradiction of T ([chk] = []); by [wf_sound] that is every run of
   every program whose table is certified.  The simulation keeps the environments equal and the
   register files pointwise equal (the removed writes are redundant), so the launch events are
   related by [ev_sim_b]; loops by induction on the iteration index. *)
From Snax Require Import Base.Prelude Model.AccIR Model.AccSem Model.AccInfer Model.AccDedup
  Proofs.AccSemProofs Proofs.AccInferProofs.

(* ---- reflexivity of the boolean comparisons -------------------------------------------- *)
Lemma list_eqb_refl {A} (eqb : A -> A -> bool) : (forall x, eqb x x = true) -> forall l, list_eqb eqb l l = true.
Proof. intros H l; induction l as [|x l IH]; simpl; [reflexivity|]. rewrite H, IH. reflexivity. Qed.

Lemma lv_eqb_refl x : lv_eqb x x = true.
Proof. unfold lv_eqb. rewrite Nat.eqb_refl, Z.eqb_refl. reflexivity. Qed.

Lemma list_eqb_app {A} (eqb : A -> A -> bool) l1 : forall l1' l2 l2',
  list_eqb eqb l1 l1' = true -> list_eqb eqb l2 l2' = true -> list_eqb eqb (l1 ++ l2) (l1' ++ l2') = true.
Proof.
  induction l1 as [|x l1 IH]; intros [|y l1'] l2 l2' H1 H2; simpl in *; try discriminate; [exact H2|].
  apply andb_true_iff in H1. destruct H1 as [Hx H1]. rewrite Hx. simpl. apply IH; assumption.
Qed.

Lemma list_eqb_rev {A} (eqb : A -> A -> bool) l : forall l',
  list_eqb eqb l l' = true -> list_eqb eqb (rev l) (rev l') = true.
Proof.
  induction l as [|x l IH]; intros [|y l'] H; simpl in *; try discriminate; [reflexivity|].
  apply andb_true_iff in H. destruct H as [Hx H]. apply list_eqb_app; [apply IH; exact H|].
  simpl. rewrite Hx. reflexivity.
Qed.

(* ---- last_binding under a filter ----------------------------------------------------------- *)
Lemma last_binding_In f fs : forall v, last_binding f fs = Some v -> In f (map fst fs).
Proof.
  induction fs as [|[g w] fs IH]; intros v; simpl; [discriminate|].
  destruct (last_binding f fs) as [x|] eqn:E.
  - intros _. right. apply (IH x). reflexivity.
  - destruct (Nat.eqb g f) eqn:Eg; [|discriminate]. intros _. left. apply Nat.eqb_eq; exact Eg.
Qed.

Lemma last_binding_cons f g w l :
  last_binding f ((g, w) :: l) =
  match last_binding f l with Some x => Some x | None => if Nat.eqb g f then Some w else None end.
Proof. reflexivity. Qed.

Lemma last_binding_filter q f fs :
  nodup_nat (map fst fs) = true ->
  last_binding f (filter q fs) =
  match last_binding f fs with Some v => if q (f, v) then Some v else None | None => None end.
Proof.
  induction fs as [|[g w] fs IH]; intros Hnd; [reflexivity|].
  simpl in Hnd. apply andb_true_iff in Hnd. destruct Hnd as [Hg Hnd].
  apply Bool.negb_true_iff in Hg. apply mem_nat_false in Hg.
  specialize (IH Hnd). cbn [filter]. rewrite last_binding_cons.
  destruct (last_binding f fs) as [x|] eqn:E.
  - assert (Hne : g <> f). { intros ->. apply Hg. apply (last_binding_In _ _ _ E). }
    apply Nat.eqb_neq in Hne.
    destruct (q (g, w)).
    + rewrite last_binding_cons, IH, Hne. destruct (q (f, x)); reflexivity.
    + exact IH.
  - destruct (Nat.eqb g f) eqn:Eg.
    + apply Nat.eqb_eq in Eg. subst g. destruct (q (f, w)) eqn:Eq.
      * match goal with |- last_binding _ (if ?c then _ else _) = _ => replace c with true by (symmetry; exact Eq) end.
        rewrite last_binding_cons, IH, Nat.eqb_refl. reflexivity.
      * match goal with |- last_binding _ (if ?c then _ else _) = _ => replace c with false by (symmetry; exact Eq) end.
        exact IH.
    + destruct (q (g, w)).
      * rewrite last_binding_cons, IH, Eg. reflexivity.
      * exact IH.
Qed.

Lemma write_fields_ext e fs r r' f : (forall g, r' g = r g) -> write_fields e fs r' f = write_fields e fs r f.
Proof. intros H. rewrite !write_fields_spec. destruct (last_binding f fs); [reflexivity|apply H]. Qed.

Section Simp.
Variable T : val -> astate.
Variable orc : oracle.
Variable sel : val -> bool.

(* the simulation: equal environments, pointwise equal registers, same call count,
   event-wise similar traces *)
Definition R (m m' : mstate) : Prop :=
  env m' = env m /\ (forall a f, regs m' a f = regs m a f) /\ ncalls m' = ncalls m /\
  list_eqb ev_sim_b (tr m) (tr m') = true.

Lemma R_refl m : list_eqb ev_sim_b (tr m) (tr m) = true -> R m m.
Proof. intros H. repeat split; try reflexivity. exact H. Qed.

Lemma R_set_env m m' e : R m m' -> R (set_env m e) (set_env m' e).
Proof. intros [He [Hr [Hn Ht]]]. repeat split; simpl; assumption. Qed.

Lemma simp_stmt_for iv lb ub sp its rs body ys :
  simp_stmt sel T (SFor iv lb ub sp its rs body ys) = SFor iv lb ub sp its rs (simp_block sel T body) ys.
Proof.
  cbn [simp_stmt]. f_equal.
  induction body as [|x b IH]; [reflexivity|]. cbn [simp_block]. rewrite <- IH. reflexivity.
Qed.

Lemma simp_stmt_if c rs th thy el ely :
  simp_stmt sel T (SIf c rs th thy el ely) = SIf c rs (simp_block sel T th) thy (simp_block sel T el) ely.
Proof.
  cbn [simp_stmt]. f_equal.
  - induction th as [|x b IH]; [reflexivity|]. cbn [simp_block]. rewrite <- IH. reflexivity.
  - induction el as [|x b IH]; [reflexivity|]. cbn [simp_block]. rewrite <- IH. reflexivity.
Qed.

(* executing the SAME simple statement on related states *)
Lemma R_same_pure d e m m' : R m m' -> R (exec_stmt orc (SPure d e) m) (exec_stmt orc (SPure d e) m').
Proof. intros [He [Hr [Hn Ht]]]. simpl. rewrite He. repeat split; simpl; assumption. Qed.

Lemma R_same_call g ef pu ds ar m m' :
  R m m' -> R (exec_stmt orc (SCall g ef pu ds ar) m) (exec_stmt orc (SCall g ef pu ds ar) m').
Proof.
  intros [He [Hr [Hn Ht]]]. simpl. unfold exec_call. rewrite He, Hn. repeat split; simpl.
  - destruct ef; [reflexivity|exact Hr].
  - rewrite !Nat.eqb_refl. rewrite (list_eqb_refl Z.eqb Z.eqb_refl). simpl. exact Ht.
Qed.

Lemma R_same_setup a fs m m' : R m m' -> R (exec_setup a fs m) (exec_setup a fs m').
Proof.
  intros [He [Hr [Hn Ht]]]. unfold exec_setup. repeat split; simpl; try assumption.
  intros b f. unfold upd. destruct (Nat.eqb b a); [|apply Hr].
  rewrite He. apply write_fields_ext. intros g. apply Hr.
Qed.

Lemma R_same_launch a k st fs m m' :
  R m m' -> R (exec_stmt orc (SLaunch a k st fs) m) (exec_stmt orc (SLaunch a k st fs) m').
Proof.
  intros [He [Hr [Hn Ht]]]. simpl. unfold emit. repeat split; simpl; try assumption.
  rewrite He. rewrite Nat.eqb_refl. rewrite (list_eqb_refl lv_eqb lv_eqb_refl). simpl.
  rewrite Ht. rewrite andb_true_r. apply forallb_forall. intros f _. rewrite Hr. apply Z.eqb_refl.
Qed.

Lemma R_same_emit_simple m m' ev : ev_sim_b ev ev = true -> R m m' -> R (emit m ev) (emit m' ev).
Proof. intros Hev [He [Hr [Hn Ht]]]. unfold emit. repeat split; simpl; try assumption. rewrite Hev, Ht. reflexivity. Qed.

(* the interesting case: a selected setup loses its redundant pairs *)
Lemma R_simp_setup a i fs m m' :
  R m m' -> nodup_nat (map fst fs) = true -> holds T m a i = true ->
  R (exec_setup a fs m) (exec_setup a (simplify_fields (T i) fs) m').
Proof.
  intros [He [Hr [Hn Ht]]] Hnd Hh. unfold exec_setup. repeat split; simpl; try assumption.
  intros b f. unfold upd. destruct (Nat.eqb b a) eqn:Eb; [|apply Hr].
  rewrite He. rewrite !write_fields_spec. unfold simplify_fields. rewrite last_binding_filter by exact Hnd.
  destruct (last_binding f fs) as [v|] eqn:El; [|apply Hr].
  simpl. destruct (st_lookup f (T i)) as [u|] eqn:Eu; simpl; [|reflexivity].
  destruct (Nat.eqb u v) eqn:Euv; simpl; [|reflexivity].
  apply Nat.eqb_eq in Euv. subst u. rewrite Hr.
  unfold holds in Hh. rewrite forallb_forall in Hh.
  specialize (Hh (f, v) (st_lookup_In _ _ _ Eu)). simpl in Hh. apply Z.eqb_eq in Hh. exact Hh.
Qed.

Lemma viol_nil_holds m a s : viol T m a s = [] -> holds T m a s = true.
Proof. unfold viol. destruct (holds T m a s); [reflexivity|discriminate]. Qed.

Definition Qs (s : stmt) : Prop := forall m m', stmt_fields_nodup s = true -> R m m' ->
  snd (chk_stmt T orc s m) = [] -> R (exec_stmt orc s m) (exec_stmt orc (simp_stmt sel T s) m').
Definition Qb (b : block) : Prop := forall m m', block_fields_nodup b = true -> R m m' ->
  snd (chk_block T orc b m) = [] -> R (exec_block orc b m) (exec_block orc (simp_block sel T b) m').

Lemma stmt_fields_nodup_for iv lb ub sp its rs body ys :
  stmt_fields_nodup (SFor iv lb ub sp its rs body ys) = block_fields_nodup body.
Proof. reflexivity. Qed.
Lemma stmt_fields_nodup_if c rs th thy el ely :
  stmt_fields_nodup (SIf c rs th thy el ely) = block_fields_nodup th && block_fields_nodup el.
Proof. reflexivity. Qed.

Lemma sim_setup a o i fs : Qs (SSetup a o i fs).
Proof.
  intros m m' Hnd HR Hc. simpl in Hnd.
  destruct i as [i|]; [|exact (R_same_setup a fs m m' HR)].
  cbn [simp_stmt]. destruct (sel o); [|exact (R_same_setup a fs m m' HR)].
  cbn [exec_stmt]. apply R_simp_setup; [exact HR|exact Hnd|].
  simpl in Hc. apply app_eq_nil in Hc. apply viol_nil_holds. exact (proj1 Hc).
Qed.

Lemma sim_for iv lb ub sp its rs body ys : Qb body -> Qs (SFor iv lb ub sp its rs body ys).
Proof.
  intros IHb m m' Hnd HR Hc. rewrite stmt_fields_nodup_for in Hnd.
  rewrite simp_stmt_for, !exec_stmt_for. rewrite chk_stmt_for in Hc. cbv zeta in Hc. cbn [snd] in Hc.
  apply app_eq_nil in Hc. destruct Hc as [Hc _].
  unfold exec_for. destruct HR as [He [Hr [Hn Ht]]]. rewrite He.
  set (l := env m lb) in *. set (s := env m sp) in *. set (n := trip_count l (env m ub) s) in *.
  set (bargs := map it_arg its) in *.
  set (e0 := bind_list bargs (map (fun x => env m (it_init x)) its) (env m)) in *.
  set (sis := state_iters its ys rs) in *.
  assert (HR0 : R (set_env m e0) (set_env m' e0)) by (repeat split; simpl; assumption).
  assert (Hloop : forall k, snd (iter_n k (chk_for_step T (chk_block T orc body) iv bargs ys sis l s) (set_env m e0, [])) = [] ->
            R (iter_n k (for_step (exec_block orc body) iv bargs ys l s) (set_env m e0))
              (iter_n k (for_step (exec_block orc (simp_block sel T body)) iv bargs ys l s) (set_env m' e0))).
  { induction k as [|k IHk]; intros Hk; [exact HR0|].
    cbn [iter_n] in Hk |- *. unfold chk_for_step at 1 in Hk. cbn [fst snd] in Hk.
    apply app_eq_nil in Hk. destruct Hk as [Hk1 Hk2]. apply app_eq_nil in Hk2. destruct Hk2 as [_ Hk3].
    rewrite (chk_fst_iter T _ (exec_block orc body)) in Hk3 by (intros; apply chk_block_fst).
    specialize (IHk Hk1).
    set (mk := iter_n k (for_step (exec_block orc body) iv bargs ys l s) (set_env m e0)) in *.
    set (mk' := iter_n k (for_step (exec_block orc (simp_block sel T body)) iv bargs ys l s) (set_env m' e0)) in *.
    unfold for_step.
    destruct IHk as [Hek IHk']. rewrite Hek.
    assert (HR1 : R (set_env mk (upd (env mk) iv (l + Z.of_nat k * s))) (set_env mk' (upd (env mk) iv (l + Z.of_nat k * s)))).
    { destruct IHk' as [Hrk [Hnk Htk]]. repeat split; simpl; assumption. }
    pose proof (IHb _ _ Hnd HR1 Hk3) as HR2.
    destruct HR2 as [He2 HR2']. rewrite He2.
    destruct HR2' as [Hr2 [Hn2 Ht2]]. repeat split; simpl; assumption. }
  pose proof (Hloop n) as HN.
  assert (Hsn : snd (iter_n n (chk_for_step T (chk_block T orc body) iv bargs ys sis l s) (set_env m e0, [])) = []).
  { exact Hc. }
  specialize (HN Hsn). destruct HN as [HeN [HrN [HnN HtN]]]. rewrite HeN.
  repeat split; simpl; assumption.
Qed.

Lemma sim_if c rs th thy el ely : Qb th -> Qb el -> Qs (SIf c rs th thy el ely).
Proof.
  intros IHt IHe m m' Hnd HR Hc. rewrite stmt_fields_nodup_if in Hnd. apply andb_true_iff in Hnd.
  destruct Hnd as [Hnt Hne].
  rewrite simp_stmt_if, !exec_stmt_if. rewrite chk_stmt_if in Hc. cbv zeta in Hc. cbn [snd] in Hc.
  apply app_eq_nil in Hc. destruct Hc as [Hc _].
  unfold exec_if. pose proof HR as [He _]. rewrite He.
  destruct (env m c =? 0).
  - pose proof (IHe _ _ Hne HR Hc) as [He2 [Hr2 [Hn2 Ht2]]]. rewrite He2. repeat split; simpl; assumption.
  - pose proof (IHt _ _ Hnt HR Hc) as [He2 [Hr2 [Hn2 Ht2]]]. rewrite He2. repeat split; simpl; assumption.
Qed.

Lemma sim_block : forall b, Qb b.
Proof.
  apply (block_ind2 Qs Qb).
  - intros d e m m' _ HR _. exact (R_same_pure d e m m' HR).
  - intros g ef pu ds ar m m' _ HR _. exact (R_same_call g ef pu ds ar m m' HR).
  - exact sim_setup.
  - intros a k st fs m m' _ HR _. exact (R_same_launch a k st fs m m' HR).
  - intros a k m m' _ HR _. simpl. apply R_same_emit_simple; [simpl; apply Nat.eqb_refl|exact HR].
  - intros a st m m' _ HR _. simpl. apply R_same_emit_simple; [simpl; apply Nat.eqb_refl|exact HR].
  - exact sim_for.
  - exact sim_if.
  - intros m m' _ HR _. exact HR.
  - intros s b Hs Hb m m' Hnd HR Hc. simpl in Hnd. apply andb_true_iff in Hnd. destruct Hnd as [H1 H2].
    simpl in Hc. apply app_eq_nil in Hc. destruct Hc as [Hc1 Hc2]. rewrite chk_fst in Hc2.
    simpl. apply Hb; [exact H2| |exact Hc2]. apply Hs; assumption.
Qed.

(* on every run that does not contradict T, dropping T-redundant pairs preserves the trace *)
Theorem simp_preserves_run p args :
  block_fields_nodup (p_body p) = true -> chk_prog T orc p args = [] ->
  trace_sim_b (run orc p args) (run orc (simp_prog sel T p) args) = true
  /\ (forall a f, regs (final_state orc (simp_prog sel T p) args) a f = regs (final_state orc p args) a f).
Proof.
  intros Hnd Hc. unfold chk_prog in Hc.
  assert (HR : R (exec_block orc (p_body p) (init_state orc p args))
                 (exec_block orc (simp_block sel T (p_body p)) (init_state orc p args))).
  { apply sim_block; [exact Hnd| |exact Hc]. apply R_refl. reflexivity. }
  destruct HR as [_ [Hr [_ Ht]]]. split.
  - unfold trace_sim_b, run, final_state. apply list_eqb_rev. exact Ht.
  - exact Hr.
Qed.

(* C01 for the field-dropping rule: every certified program, all oracles / inputs / trip counts *)
Theorem simp_preserves p args :
  wf_prog T p = true -> block_fields_nodup (p_body p) = true ->
  trace_sim_b (run orc p args) (run orc (simp_prog sel T p) args) = true.
Proof.
  intros Hwf Hnd. apply simp_preserves_run; [exact Hnd|]. apply wf_sound. exact Hwf.
Qed.

End Simp.
