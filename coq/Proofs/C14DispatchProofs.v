(* C14 — proofs about the dispatcher model. *)
From Snax Require Import Base.Prelude Base.ListAux Model.C14Dispatch.

(* induction principle with the list-of-statements hypotheses *)
Section StmtInd.
  Variable P : stmt -> Prop.
  Hypothesis HLeaf : forall id k h, P (Leaf id k h).
  Hypothesis HFor : forall id b, Forall P b -> P (For id b).
  Hypothesis HIf : forall id t e, Forall P t -> Forall P e -> P (If id t e).
  Hypothesis HGuard : forall c b, Forall P b -> P (Guard c b).

  Fixpoint stmt_ind' (s : stmt) : P s :=
    let fix go (l : list stmt) : Forall P l :=
      match l with
      | [] => Forall_nil P
      | x :: r => Forall_cons x (stmt_ind' x) (go r)
      end in
    match s with
    | Leaf id k h => HLeaf id k h
    | For id b => HFor id b (go b)
    | If id t e => HIf id t e (go t) (go e)
    | Guard c b => HGuard c b (go b)
    end.
End StmtInd.

(* ---- unfolding lemmas: the local fixpoints are the top-level ones ------------------------- *)
Lemma dstmt_inner r c l : forall pend,
  (fix dblock (pend l : list stmt) {struct l} : list stmt :=
    match l with
    | [] => flush c pend
    | x :: rest =>
        let x' := dstmt r c x in
        if is_kind r x then
          if has_inner x then flush c pend ++ dblock [x'] rest
          else dblock (pend ++ [x']) rest
        else flush c pend ++ x' :: dblock [] rest
    end) pend l = dblock false r c pend l.
Proof.
  induction l as [|x rest IH]; intros pend; [reflexivity|].
  cbn [dblock]. cbv zeta. rewrite !IH. reflexivity.
Qed.

Lemma dstmt_For r c id b : dstmt r c (For id b) = For id (dblock false r c [] b).
Proof. cbn [dstmt]. rewrite dstmt_inner. reflexivity. Qed.

Lemma dstmt_Guard r c k b : dstmt r c (Guard k b) = Guard k (dblock false r c [] b).
Proof. cbn [dstmt]. rewrite dstmt_inner. reflexivity. Qed.

Lemma dstmt_If r c id t e :
  dstmt r c (If id t e) = If id (dblock false r c [] t) (dblock false r c [] e).
Proof. cbn [dstmt]. rewrite !dstmt_inner. reflexivity. Qed.

Lemma run_runl me o l : forall ctx,
  (fix runl (l : list stmt) (ctx : list nat) {struct l} : list ev :=
     match l with [] => [] | x :: r => run me o x ctx ++ runl r ctx end) l ctx = runl me o l ctx.
Proof. induction l as [|x r IH]; intros ctx; simpl; [reflexivity|]. rewrite IH. reflexivity. Qed.

Lemma run_For me o id b ctx :
  run me o (For id b) ctx = flat_map (fun i => runl me o b (i :: ctx)) (seq 0 (trip o id ctx)).
Proof. simpl. apply flat_map_ext. intros i. apply run_runl. Qed.

Lemma run_If me o id t e ctx :
  run me o (If id t e) ctx = if cond o id ctx then runl me o t ctx else runl me o e ctx.
Proof. simpl. destruct (cond o id ctx); apply run_runl. Qed.

Lemma run_Guard_some c o k b ctx :
  run (Some c) o (Guard k b) ctx = if c =? k then runl (Some c) o b ctx else [].
Proof. simpl. destruct (c =? k); [apply run_runl | reflexivity]. Qed.

Lemma run_Guard_none o k b ctx : run None o (Guard k b) ctx = runl None o b ctx.
Proof. simpl. apply run_runl. Qed.

Lemma runl_app me o l1 l2 ctx : runl me o (l1 ++ l2) ctx = runl me o l1 ctx ++ runl me o l2 ctx.
Proof. induction l1 as [|x r IH]; simpl; [reflexivity|]. rewrite IH, app_assoc. reflexivity. Qed.

(* ---- one dispatcher pass is a filter on every core's trace -------------------------------- *)
Definition keep (r : kind) (k c : Z) (e : ev) : bool :=
  if kind_eqb (ev_kind e) r then c =? k else true.

Lemma kind_eqb_eq a b : kind_eqb a b = true <-> a = b.
Proof. destruct a, b; simpl; split; intros H; congruence. Qed.

Lemma is_kind_leaf r s : is_kind r s = true -> exists id h, s = Leaf id r h.
Proof.
  destruct s as [id k h| | |]; simpl; try discriminate.
  intros H. apply kind_eqb_eq in H. subst. eauto.
Qed.

Lemma dstmt_leaf r c s : is_kind r s = true -> dstmt r c s = s.
Proof. intros H. apply is_kind_leaf in H as [id [h ->]]. reflexivity. Qed.

(* a run of pending ops (all of kind r) under the guard k is the filtered run *)
Lemma runl_pending r k c o ctx pend :
  Forall (fun s => is_kind r s = true) pend ->
  runl (Some c) o (flush k pend) ctx = filter (keep r k c) (runl (Some c) o pend ctx).
Proof.
  intros H.
  assert (Hall : filter (keep r k c) (runl (Some c) o pend ctx) =
                 if c =? k then runl (Some c) o pend ctx else []).
  { induction H as [|x l Hx Hl IH]; simpl; [destruct (c =? k); reflexivity|].
    apply is_kind_leaf in Hx as [id [h ->]]. simpl. rewrite IH.
    unfold keep at 1, ev_kind. simpl. replace (kind_eqb r r) with true by (destruct r; reflexivity).
    destruct (c =? k); reflexivity. }
  rewrite Hall. destruct pend as [|p ps]; simpl; [destruct (c =? k); reflexivity|].
  rewrite app_nil_r. destruct (c =? k); [|reflexivity].
  pose proof (run_runl (Some c) o (p :: ps) ctx) as E. simpl in E. exact E.
Qed.

Section OnePass.
  Variables (r : kind) (k c : Z) (o : oracle).

  Definition Pst (s : stmt) : Prop :=
    forall ctx, run (Some c) o (dstmt r k s) ctx = filter (keep r k c) (run (Some c) o s ctx).

  (* Pst holds for every statement that is not itself dispatchable by rule r *)
  Definition Pst' (s : stmt) : Prop := is_kind r s = false -> Pst s.

  Lemma runl_dblock_false' l : Forall Pst' l -> forall pend ctx,
    Forall (fun s => is_kind r s = true) pend ->
    runl (Some c) o (dblock false r k pend l) ctx =
    filter (keep r k c) (runl (Some c) o pend ctx) ++ filter (keep r k c) (runl (Some c) o l ctx).
  Proof.
    induction 1 as [|x rest Hx Hrest IH]; intros pend ctx Hp.
    - simpl. rewrite app_nil_r. apply (runl_pending r k c o ctx pend Hp).
    - simpl. destruct (is_kind r x) eqn:Ek.
      + rewrite (dstmt_leaf r k x Ek).
        apply is_kind_leaf in Ek as Hleaf. destruct Hleaf as [id [h ->]]. simpl has_inner.
        destruct h.
        * rewrite runl_app, (runl_pending r k c o ctx pend Hp).
          rewrite IH by (constructor; [exact Ek | constructor]).
          simpl. destruct (keep r k c (id, r, ctx)); reflexivity.
        * rewrite IH by (apply Forall_app; split; [exact Hp | constructor; [exact Ek | constructor]]).
          rewrite runl_app, !filter_app. simpl. rewrite <- app_assoc. destruct (keep r k c (id, r, ctx)); reflexivity.
      + rewrite runl_app, (runl_pending r k c o ctx pend Hp).
        simpl. rewrite (Hx Ek ctx), IH by constructor. simpl. rewrite filter_app. reflexivity.
  Qed.

  Lemma run_dstmt' : forall s, Pst' s.
  Proof.
    apply stmt_ind'.
    - intros id kd h Hk ctx. simpl in *. unfold keep, ev_kind. simpl. rewrite Hk. reflexivity.
    - intros id b Hb _ ctx. rewrite dstmt_For, !run_For.
      induction (seq 0 (trip o id ctx)) as [|i is IHs]; simpl; [reflexivity|].
      rewrite filter_app, <- IHs. f_equal.
      rewrite (runl_dblock_false' b Hb [] (i :: ctx) (Forall_nil _)). reflexivity.
    - intros id t e Ht He _ ctx. rewrite dstmt_If, !run_If.
      destruct (cond o id ctx).
      + rewrite (runl_dblock_false' t Ht [] ctx (Forall_nil _)). reflexivity.
      + rewrite (runl_dblock_false' e He [] ctx (Forall_nil _)). reflexivity.
    - intros g b Hb _ ctx. rewrite dstmt_Guard, !run_Guard_some.
      destruct (c =? g); [|reflexivity].
      rewrite (runl_dblock_false' b Hb [] ctx (Forall_nil _)). reflexivity.
  Qed.

  Lemma Forall_Pst' l : Forall Pst' l.
  Proof. apply Forall_forall. intros s _. apply run_dstmt'. Qed.

  (* nested blocks *)
  Lemma runl_dblock_nested l ctx :
    runl (Some c) o (dblock false r k [] l) ctx = filter (keep r k c) (runl (Some c) o l ctx).
  Proof. rewrite (runl_dblock_false' l (Forall_Pst' l) [] ctx (Forall_nil _)). reflexivity. Qed.

  (* the top-level block: nothing flushes after its last op, so it must end with an op the
     rule does not dispatch *)
  Definition ends_nonr (l : list stmt) : bool := negb (is_kind r (last l (Guard 0 []))).

  Lemma dblock_top_eq : forall l pend, l <> [] -> ends_nonr l = true ->
    dblock true r k pend l = dblock false r k pend l.
  Proof.
    induction l as [|x rest IH]; intros pend Hne He; [congruence|].
    destruct rest as [|y rest'].
    - unfold ends_nonr in He. simpl in He. apply negb_true_iff in He. simpl. rewrite He. reflexivity.
    - assert (He' : ends_nonr (y :: rest') = true) by exact He.
      assert (Hne' : y :: rest' <> []) by discriminate.
      change (dblock true r k pend (x :: y :: rest')) with
        (let x' := dstmt r k x in
         if is_kind r x then
           if has_inner x then flush k pend ++ dblock true r k [x'] (y :: rest')
           else dblock true r k (pend ++ [x']) (y :: rest')
         else flush k pend ++ x' :: dblock true r k [] (y :: rest')).
      change (dblock false r k pend (x :: y :: rest')) with
        (let x' := dstmt r k x in
         if is_kind r x then
           if has_inner x then flush k pend ++ dblock false r k [x'] (y :: rest')
           else dblock false r k (pend ++ [x']) (y :: rest')
         else flush k pend ++ x' :: dblock false r k [] (y :: rest')).
      cbv zeta. rewrite !(IH _ Hne' He'). reflexivity.
  Qed.

  Lemma runl_dblock_top l ctx : l <> [] -> ends_nonr l = true ->
    runl (Some c) o (dblock true r k [] l) ctx = filter (keep r k c) (runl (Some c) o l ctx).
  Proof. intros Hne He. rewrite dblock_top_eq by assumption. apply runl_dblock_nested. Qed.
End OnePass.

(* ---- the last op of a terminated block survives a pass ------------------------------------ *)
Lemma last_app_nonempty {A} (a b : list A) d : b <> [] -> last (a ++ b) d = last b d.
Proof.
  intros Hb. induction a as [|x r IH]; simpl; [reflexivity|].
  destruct (r ++ b) eqn:E; [|exact IH].
  apply app_eq_nil in E as [_ E]. contradiction.
Qed.

Lemma last_cons_nonempty {A} (x : A) l d : l <> [] -> last (x :: l) d = last l d.
Proof. intros H. destruct l; [congruence | reflexivity]. Qed.

Lemma terminated_nonempty l : terminated l = true -> l <> [].
Proof. intros H ->. discriminate. Qed.

Lemma terminated_ends r l : r <> KOther -> terminated l = true -> ends_nonr r l = true.
Proof.
  unfold terminated, ends_nonr. intros Hr. destruct (last l (Guard 0 [])) as [id kd h| | |]; try discriminate.
  destruct kd; try discriminate. intros _. simpl. destruct r; try reflexivity. congruence.
Qed.

Lemma terminated_dblock top r k : r <> KOther -> forall l pend,
  terminated l = true -> terminated (dblock top r k pend l) = true.
Proof.
  intros Hr. induction l as [|x rest IH]; intros pend Ht; [discriminate|].
  destruct rest as [|y rest'].
  - (* x is the terminator *)
    unfold terminated in Ht. simpl in Ht. destruct x as [id kd h| | |]; try discriminate.
    destruct kd; try discriminate.
    destruct r; try congruence; simpl; unfold terminated;
      (rewrite last_app_nonempty by (destruct top; discriminate)); destruct top; reflexivity.
  - assert (Ht' : terminated (y :: rest') = true) by exact Ht.
    change (dblock top r k pend (x :: y :: rest')) with
      (let x' := dstmt r k x in
       if is_kind r x then
         if has_inner x then flush k pend ++ dblock top r k [x'] (y :: rest')
         else dblock top r k (pend ++ [x']) (y :: rest')
       else flush k pend ++ x' :: dblock top r k [] (y :: rest')).
    cbv zeta.
    destruct (is_kind r x); [destruct (has_inner x)|].
    + unfold terminated. rewrite last_app_nonempty.
      * apply (IH _ Ht').
      * apply terminated_nonempty. apply IH. exact Ht'.
    + apply IH. exact Ht'.
    + unfold terminated. rewrite last_app_nonempty by discriminate.
      pose proof (IH [] Ht') as IH0.
      rewrite last_cons_nonempty by (apply terminated_nonempty; exact IH0). exact IH0.
Qed.

(* ---- guard-free programs: the program's trace is what a core without guards would run ----- *)
Lemma guard_free_For id b : guard_free (For id b) = forallb guard_free b.
Proof. reflexivity. Qed.

Lemma guard_free_If id t e : guard_free (If id t e) = forallb guard_free t && forallb guard_free e.
Proof. reflexivity. Qed.

Lemma run_guard_free c o : forall s, guard_free s = true ->
  forall ctx, run (Some c) o s ctx = run None o s ctx.
Proof.
  apply (stmt_ind' (fun s => guard_free s = true -> forall ctx, run (Some c) o s ctx = run None o s ctx)).
  - reflexivity.
  - intros id b Hb Hg ctx. rewrite guard_free_For in Hg. rewrite !run_For.
    apply flat_map_ext. intros i.
    clear -Hb Hg. induction Hb as [|x r Hx Hr IH]; simpl in *; [reflexivity|].
    apply andb_true_iff in Hg as [G1 G2]. rewrite (Hx G1), (IH G2). reflexivity.
  - intros id t e Ht He Hg ctx. rewrite guard_free_If in Hg. apply andb_true_iff in Hg as [Gt Ge].
    rewrite !run_If. destruct (cond o id ctx).
    + clear -Ht Gt. induction Ht as [|x r Hx Hr IH]; simpl in *; [reflexivity|].
      apply andb_true_iff in Gt as [G1 G2]. rewrite (Hx G1), (IH G2). reflexivity.
    + clear -He Ge. induction He as [|x r Hx Hr IH]; simpl in *; [reflexivity|].
      apply andb_true_iff in Ge as [G1 G2]. rewrite (Hx G1), (IH G2). reflexivity.
  - intros g b _ Hg. discriminate.
Qed.

Lemma runl_guard_free c o l ctx : guard_freel l = true ->
  runl (Some c) o l ctx = runl None o l ctx.
Proof.
  unfold guard_freel. induction l as [|x r IH]; simpl; [reflexivity|].
  intros H. apply andb_true_iff in H as [H1 H2]. rewrite (run_guard_free c o x H1), (IH H2). reflexivity.
Qed.

(* ---- both passes --------------------------------------------------------------------------- *)
Lemma filter_filter {A} (f g : A -> bool) l : filter f (filter g l) = filter (fun x => g x && f x) l.
Proof.
  induction l as [|x r IH]; simpl; [reflexivity|].
  destruct (g x); simpl; [destruct (f x); rewrite IH; reflexivity | exact IH].
Qed.

Lemma keep_both nb c e :
  keep KDM (dm_core nb) c e && keep KCompute compute_core c e = belongs nb c e.
Proof. unfold keep, belongs. destruct (ev_kind e); simpl; try reflexivity. apply andb_true_r. Qed.

Definition two_passes (nb : Z) (l : list stmt) : list stmt :=
  dblock true KCompute compute_core [] (dblock true KDM (dm_core nb) [] l).

Lemma d_blocks_dispatch nb f : d_blocks (dispatch nb f) = map (two_passes nb) f.
Proof. unfold dispatch. simpl. rewrite map_map. reflexivity. Qed.

Lemma runl_two_passes nb c o l ctx : terminated l = true ->
  runl (Some c) o (two_passes nb l) ctx = filter (belongs nb c) (runl (Some c) o l ctx).
Proof.
  intros Ht. unfold two_passes.
  assert (Ht1 : terminated (dblock true KDM (dm_core nb) [] l) = true)
    by (apply terminated_dblock; [discriminate | exact Ht]).
  rewrite runl_dblock_top;
    [| apply terminated_nonempty; exact Ht1 | apply terminated_ends; [discriminate | exact Ht1]].
  rewrite runl_dblock_top;
    [| apply terminated_nonempty; exact Ht | apply terminated_ends; [discriminate | exact Ht]].
  rewrite filter_filter. apply filter_ext. intros e. apply keep_both.
Qed.

Lemma run_path_dispatch nb c o f : Forall (fun b => terminated b = true) f ->
  forall path k, run_path (Some c) o (map (two_passes nb) f) path k =
                 filter (belongs nb c) (run_path (Some c) o f path k).
Proof.
  intros Hf. induction path as [|b rest IH]; intros k; simpl; [reflexivity|].
  rewrite filter_app, IH. f_equal.
  destruct (lt_dec b (length f)) as [Hlt|Hge].
  - replace (nth b (map (two_passes nb) f) []) with (two_passes nb (nth b f []))
      by (symmetry; rewrite (nth_indep _ [] (two_passes nb []) ) by (rewrite map_length; exact Hlt); apply map_nth).
    apply runl_two_passes. rewrite Forall_forall in Hf. apply Hf. apply nth_In. exact Hlt.
  - rewrite !nth_overflow by (try rewrite map_length; lia). reflexivity.
Qed.

Lemma run_path_guard_free c o f : Forall (fun b => guard_freel b = true) f ->
  forall path k, run_path (Some c) o f path k = run_path None o f path k.
Proof.
  intros Hf. induction path as [|b rest IH]; intros k; simpl; [reflexivity|].
  rewrite IH. f_equal.
  destruct (lt_dec b (length f)) as [Hlt|Hge].
  - apply runl_guard_free. rewrite Forall_forall in Hf. apply Hf. apply nth_In. exact Hlt.
  - rewrite nth_overflow by lia. reflexivity.
Qed.

(* C14 main theorem: each core executes exactly the original program filtered by the rule, in
   the original order, for every nesting, every trip count / branch outcome, every CFG path. *)
Theorem dispatch_projection : forall nb f,
  2 <= nb ->
  Forall (fun b => terminated b = true) f ->
  Forall (fun b => guard_freel b = true) f ->
  forall c, 0 <= c < nb -> forall o path,
  core_trace c o (d_blocks (dispatch nb f)) path = filter (belongs nb c) (trace o f path).
Proof.
  intros nb f _ Ht Hg c _ o path. unfold core_trace, trace.
  rewrite d_blocks_dispatch, run_path_dispatch by exact Ht.
  rewrite run_path_guard_free by exact Hg. reflexivity.
Qed.

(* also for programs that already contain guards (e.g. dispatching twice) *)
Theorem dispatch_projection_guarded : forall nb f c o path,
  Forall (fun b => terminated b = true) f ->
  core_trace c o (d_blocks (dispatch nb f)) path = filter (belongs nb c) (core_trace c o f path).
Proof.
  intros nb f c o path Ht. unfold core_trace.
  rewrite d_blocks_dispatch, run_path_dispatch by exact Ht. reflexivity.
Qed.

(* ---- order preservation: the core trace is a subsequence of the original trace ------------ *)
Inductive subseq {A} : list A -> list A -> Prop :=
| subseq_nil : subseq [] []
| subseq_skip : forall x l1 l2, subseq l1 l2 -> subseq l1 (x :: l2)
| subseq_take : forall x l1 l2, subseq l1 l2 -> subseq (x :: l1) (x :: l2).

Lemma filter_subseq {A} (f : A -> bool) l : subseq (filter f l) l.
Proof.
  induction l as [|x r IH]; simpl; [constructor|].
  destruct (f x); constructor; exact IH.
Qed.

Theorem order_preserved : forall nb f,
  2 <= nb ->
  Forall (fun b => terminated b = true) f ->
  Forall (fun b => guard_freel b = true) f ->
  forall c, 0 <= c < nb -> forall o path,
  subseq (core_trace c o (d_blocks (dispatch nb f)) path) (trace o f path).
Proof.
  intros. rewrite dispatch_projection by assumption. apply filter_subseq.
Qed.

(* ---- exactly one core per dispatched op, and the two special cores differ ------------------ *)
Theorem one_core_per_op : forall nb e, 2 <= nb -> ev_kind e <> KOther ->
  exists c, 0 <= c < nb /\ belongs nb c e = true /\
            forall c', belongs nb c' e = true -> c' = c.
Proof.
  intros nb e Hnb Hk. unfold belongs, dm_core, compute_core.
  destruct (ev_kind e); [exists (nb - 1) | exists 0 | congruence];
    (split; [lia|]); (split; [apply Z.eqb_refl|]); intros c' H; apply Z.eqb_eq in H; exact H.
Qed.

Lemma dm_compute_distinct nb : 2 <= nb -> dm_core nb <> compute_core.
Proof. unfold dm_core, compute_core. lia. Qed.

(* ---- pinning -------------------------------------------------------------------------------- *)
Lemma pin_pinl c l :
  (fix pinl (l : list stmt) : list stmt := match l with [] => [] | x :: r => pin c x ++ pinl r end) l
  = pinl c l.
Proof. induction l as [|x r IH]; simpl; [reflexivity|]. rewrite IH. reflexivity. Qed.

Lemma pin_For c id b : pin c (For id b) = [For id (pinl c b)].
Proof. simpl. rewrite pin_pinl. reflexivity. Qed.
Lemma pin_If c id t e : pin c (If id t e) = [If id (pinl c t) (pinl c e)].
Proof. simpl. rewrite !pin_pinl. reflexivity. Qed.
Lemma pin_Guard c k b : pin c (Guard k b) = if c =? k then pinl c b else [].
Proof. simpl. rewrite pin_pinl. reflexivity. Qed.

Lemma runl_pin c o : forall s,
  forall ctx, runl None o (pin c s) ctx = run (Some c) o s ctx.
Proof.
  apply (stmt_ind' (fun s => forall ctx, runl None o (pin c s) ctx = run (Some c) o s ctx)).
  - intros id k h ctx. reflexivity.
  - intros id b Hb ctx. rewrite pin_For.
    change (runl None o [For id (pinl c b)] ctx) with (run None o (For id (pinl c b)) ctx ++ []).
    rewrite app_nil_r, !run_For.
    apply flat_map_ext. intros i.
    clear -Hb. induction Hb as [|x r Hx Hr IH]; simpl; [reflexivity|].
    rewrite runl_app, Hx, IH. reflexivity.
  - intros id t e Ht He ctx. rewrite pin_If.
    change (runl None o [If id (pinl c t) (pinl c e)] ctx) with (run None o (If id (pinl c t) (pinl c e)) ctx ++ []).
    rewrite app_nil_r, !run_If.
    destruct (cond o id ctx).
    + clear -Ht. induction Ht as [|x r Hx Hr IH]; simpl; [reflexivity|]. rewrite runl_app, Hx, IH. reflexivity.
    + clear -He. induction He as [|x r Hx Hr IH]; simpl; [reflexivity|]. rewrite runl_app, Hx, IH. reflexivity.
  - intros k b Hb ctx. rewrite pin_Guard, run_Guard_some. destruct (c =? k); [|reflexivity].
    clear -Hb. induction Hb as [|x r Hx Hr IH]; simpl; [reflexivity|]. rewrite runl_app, Hx, IH. reflexivity.
Qed.

Lemma runl_pinl c o l ctx : runl None o (pinl c l) ctx = runl (Some c) o l ctx.
Proof. induction l as [|x r IH]; simpl; [reflexivity|]. rewrite runl_app, runl_pin, IH. reflexivity. Qed.

Definition pin_func (c : Z) (f : func) : func := map (pinl c) f.

(* the function specialised to core c runs, as an ordinary single-core program, exactly what
   core c ran of the dispatched function *)
Theorem pin_projection : forall c o f path,
  trace o (pin_func c f) path = core_trace c o f path.
Proof.
  intros c o f path. unfold trace, core_trace, pin_func. generalize 0%nat.
  induction path as [|b rest IH]; intros k; simpl; [reflexivity|].
  rewrite IH. f_equal.
  replace (nth b (map (pinl c) f) []) with (pinl c (nth b f [])) by (symmetry; apply (map_nth (pinl c) f [] b)).
  apply runl_pinl.
Qed.

(* every core id in range has its specialisation listed in pin_to_constants *)
Theorem pins_cover : forall nb f c, d_call (dispatch nb f) = true ->
  0 <= c < nb -> In c (d_pins (dispatch nb f)).
Proof. intros nb f c Hc H. unfold dispatch in *. simpl in *. rewrite Hc. apply in_zrange. exact H. Qed.

(* the pinned function has no core guard left *)
Lemma guard_free_pin c : forall s, forallb guard_free (pin c s) = true.
Proof.
  apply (stmt_ind' (fun s => forallb guard_free (pin c s) = true)).
  - reflexivity.
  - intros id b Hb. rewrite pin_For.
    change (forallb guard_free [For id (pinl c b)]) with (guard_free (For id (pinl c b)) && true).
    rewrite andb_true_r, guard_free_For.
    induction Hb as [|x r Hx Hr IH]; simpl; [reflexivity|]. rewrite forallb_app, Hx, IH. reflexivity.
  - intros id t e Ht He. rewrite pin_If.
    change (forallb guard_free [If id (pinl c t) (pinl c e)]) with (guard_free (If id (pinl c t) (pinl c e)) && true).
    rewrite andb_true_r, guard_free_If.
    apply andb_true_iff. split.
    + induction Ht as [|x r Hx Hr IH]; simpl; [reflexivity|]. rewrite forallb_app, Hx, IH. reflexivity.
    + induction He as [|x r Hx Hr IH]; simpl; [reflexivity|]. rewrite forallb_app, Hx, IH. reflexivity.
  - intros k b Hb. rewrite pin_Guard. destruct (c =? k); [|reflexivity].
    induction Hb as [|x r Hx Hr IH]; simpl; [reflexivity|]. rewrite forallb_app, Hx, IH. reflexivity.
Qed.

Theorem pin_guard_free : forall c f, Forall (fun b => guard_freel b = true) (pin_func c f).
Proof.
  intros c f. apply Forall_forall. intros b Hb. unfold pin_func in Hb. apply in_map_iff in Hb as [l [<- _]].
  unfold guard_freel. induction l as [|x r IH]; simpl; [reflexivity|].
  rewrite forallb_app, guard_free_pin, IH. reflexivity.
Qed.

(* ---- the hypothesis `terminated` is needed: a trailing dispatchable op stays unguarded ------ *)
Theorem unterminated_refuted :
  exists f c o path, 0 <= c < 2 /\
    core_trace c o (d_blocks (dispatch 2 f)) path <> filter (belongs 2 c) (trace o f path).
Proof.
  exists [[Leaf 1 KOther false; Leaf 2 KDM false]], 0,
         (mkOracle (fun _ _ => 1%nat) (fun _ _ => true)), [0%nat].
  split; [lia|]. vm_compute. discriminate.
Qed.
