(* C16: what the extra checks decide (boolean <-> column condition). *)
From Snax Require Import Base.Prelude Base.ListAux Model.C03Schedule Model.C16Matcher.

(* ---- is_pure_output_stationary: parallel (true) columns all precede reduction (false) columns ---- *)
Definition sorted_tf (l : list bool) : bool :=
  if negb (existsb (fun x => x) l && existsb negb l) then true
  else Nat.ltb (last_idx true l) (first_idx false l).

Lemma pos_unfold T s :
  is_pure_output_stationary T s =
  sorted_tf (map col_nonzero (outer_cols (tndims T) (pcols (last s (mkPat [] [] []))))).
Proof. reflexivity. Qed.

Lemma no_true_repeat l : existsb (fun x => x) l = false -> l = repeat false (length l).
Proof.
  induction l as [|x l IH]; [reflexivity|]. cbn [existsb length repeat]. intros H.
  apply orb_false_iff in H as [-> H]. f_equal. apply IH. exact H.
Qed.

Lemma no_false_repeat l : existsb negb l = false -> l = repeat true (length l).
Proof.
  induction l as [|x l IH]; [reflexivity|]. cbn [existsb length repeat]. intros H.
  apply orb_false_iff in H as [Hx H]. destruct x; [|discriminate]. f_equal. apply IH. exact H.
Qed.

Lemma first_false_split l : existsb negb l = true ->
  exists rest, l = repeat true (first_idx false l) ++ false :: rest.
Proof.
  induction l as [|x l IH]; [discriminate|]. cbn [existsb first_idx]. destruct x; cbn [negb orb Bool.eqb].
  - intros H. destruct (IH H) as [rest Hr]. exists rest. cbn [repeat app]. f_equal. exact Hr.
  - intros _. exists l. reflexivity.
Qed.

Lemma first_idx_app b x y : existsb (Bool.eqb b) x = true ->
  first_idx b (x ++ y) = first_idx b x /\ (first_idx b x < length x)%nat.
Proof.
  induction x as [|a x IH]; [discriminate|]. cbn [existsb app first_idx length].
  destruct (Bool.eqb a b) eqn:E.
  - intros _. split; [reflexivity|lia].
  - intros H. assert (Hb : Bool.eqb b a = false) by (destruct a, b; auto; discriminate).
    rewrite Hb in H. cbn [orb] in H. destruct (IH H) as [H1 H2]. split; [congruence|lia].
Qed.

Lemma existsb_rev {A} (f : A -> bool) l : existsb f (rev l) = existsb f l.
Proof.
  induction l as [|a l IH]; [reflexivity|]. cbn [rev existsb]. rewrite existsb_app, IH. cbn [existsb].
  rewrite orb_false_r. apply orb_comm.
Qed.

Lemma existsb_id_eqb l : existsb (Bool.eqb true) l = existsb (fun x => x) l.
Proof. induction l as [|a l IH]; [reflexivity|]. cbn [existsb]. rewrite IH. destruct a; reflexivity. Qed.

Lemma last_idx_ge pre x : existsb (fun b => b) x = true -> (length pre <= last_idx true (pre ++ x))%nat.
Proof.
  intros H. unfold last_idx. rewrite rev_app_distr.
  destruct (first_idx_app true (rev x) (rev pre)) as [H1 H2].
  { rewrite existsb_id_eqb, existsb_rev. exact H. }
  rewrite H1, app_length. rewrite rev_length in H2. lia.
Qed.

Lemma rev_repeat {A} (a : A) n : rev (repeat a n) = repeat a n.
Proof.
  induction n as [|n IH]; [reflexivity|]. cbn [repeat rev]. rewrite IH. clear IH.
  induction n as [|n IH]; [reflexivity|]. cbn [repeat app]. f_equal. exact IH.
Qed.

Lemma first_idx_repeat_other b n y : first_idx b (repeat (negb b) n ++ b :: y) = n.
Proof.
  induction n as [|n IH]; cbn [repeat app first_idx].
  - destruct b; reflexivity.
  - replace (Bool.eqb (negb b) b) with false by (destruct b; reflexivity). f_equal. exact IH.
Qed.

Lemma existsb_repeat_false n : existsb (fun x => x) (repeat false n) = false.
Proof. induction n; cbn; auto. Qed.
Lemma existsb_negb_repeat_true n : existsb negb (repeat true n) = false.
Proof. induction n; cbn; auto. Qed.

Theorem sorted_tf_spec l : sorted_tf l = true <-> exists a b, l = repeat true a ++ repeat false b.
Proof.
  unfold sorted_tf. split.
  - destruct (existsb (fun x => x) l) eqn:Ht; cbn [andb negb].
    + destruct (existsb negb l) eqn:Hf; cbn [negb].
      * intros H. apply Nat.ltb_lt in H. destruct (first_false_split l Hf) as [rest Hr].
        set (f := first_idx false l) in *.
        destruct (existsb (fun x => x) rest) eqn:Hrest.
        -- exfalso. rewrite Hr in H at 1.
           replace (repeat true f ++ false :: rest) with ((repeat true f ++ [false]) ++ rest) in H
             by (rewrite <- app_assoc; reflexivity).
           pose proof (last_idx_ge (repeat true f ++ [false]) rest Hrest) as Hge.
           rewrite app_length, repeat_length in Hge. cbn [length] in Hge. lia.
        -- exists f, (S (length rest)). rewrite Hr at 1. f_equal. cbn [repeat]. f_equal. apply no_true_repeat. exact Hrest.
      * intros _. exists (length l), 0%nat. cbn [repeat]. rewrite app_nil_r. apply no_false_repeat. exact Hf.
    + intros _. exists 0%nat, (length l). apply no_true_repeat. exact Ht.
  - intros (a & b & ->). destruct a as [|a].
    + cbn [repeat app]. rewrite existsb_repeat_false. reflexivity.
    + destruct b as [|b].
      * rewrite app_nil_r. rewrite existsb_negb_repeat_true, andb_false_r. reflexivity.
      * replace (existsb (fun x => x) (repeat true (S a) ++ repeat false (S b))) with true by reflexivity.
        replace (existsb negb (repeat true (S a) ++ repeat false (S b))) with true
          by (rewrite existsb_app; cbn [repeat existsb negb]; rewrite orb_true_r; reflexivity).
        cbn [andb negb]. apply Nat.ltb_lt.
        change (repeat false (S b)) with (false :: repeat false b).
        assert (E1 : first_idx false (repeat true (S a) ++ false :: repeat false b) = S a)
          by apply (first_idx_repeat_other false).
        rewrite E1.
        unfold last_idx. rewrite rev_app_distr. change (false :: repeat false b) with (repeat false (S b)).
        rewrite !rev_repeat, app_length, !repeat_length.
        assert (E2 : first_idx true (repeat false (S b) ++ repeat true (S a)) = S b)
          by apply (first_idx_repeat_other true (S b) (repeat true a)).
        rewrite E2. lia.
Qed.

(* every column of the output operand outside the template dims: nonzero columns first *)
Theorem pure_output_stationary_spec T s :
  is_pure_output_stationary T s = true <->
  exists a b, map col_nonzero (outer_cols (tndims T) (pcols (last s (mkPat [] [] [])))) = repeat true a ++ repeat false b.
Proof. rewrite pos_unfold. apply sorted_tf_spec. Qed.

(* ---- is_memory_flexible_enough ------------------------------------------------------ *)
Theorem row_flexible_spec q m cols i :
  row_flexible q m cols i = true <->
  (forall c, In c (outer_cols m cols) -> nth i c 0 mod q = 0) /\
  (exists c, In c (inner_cols m cols) /\ nth i c 0 = 1).
Proof.
  unfold row_flexible. rewrite andb_true_iff, negb_true_iff. split.
  - intros [Ht Hs]. split.
    + intros c Hc. destruct (nth i c 0 mod q =? 0) eqn:E; [lia|]. exfalso.
      assert (existsb (fun c => negb (nth i c 0 mod q =? 0)) (outer_cols m cols) = true).
      { apply existsb_exists. exists c. split; [exact Hc|]. rewrite E. reflexivity. }
      congruence.
    + apply existsb_exists in Hs as [c [Hc Hv]]. exists c. split; [exact Hc|lia].
  - intros [Ht [c [Hc Hv]]]. split.
    + destruct (existsb (fun c => negb (nth i c 0 mod q =? 0)) (outer_cols m cols)) eqn:E; [|reflexivity].
      apply existsb_exists in E as [c' [Hc' Hv']]. specialize (Ht c' Hc'). lia.
    + apply existsb_exists. exists c. split; [exact Hc|lia].
Qed.

Lemma zip_forall_spec {A B} (f : A -> B -> bool) la lb :
  zip_forall f la lb = true <-> forall p, In p (combine la lb) -> f (fst p) (snd p) = true.
Proof.
  revert lb; induction la as [|a la IH]; intros lb; [split; [intros _ p []|reflexivity]|].
  destruct lb as [|b lb]; [split; [intros _ p []|reflexivity]|]. cbn [zip_forall combine].
  rewrite andb_true_iff, IH. split.
  - intros [H1 H2] p [<-|Hp]; auto.
  - intros H. split; [apply (H (a, b)); left; reflexivity | intros p Hp; apply H; right; exact Hp].
Qed.

(* with temporal dims present: every (operand, element size) pair has a row that is spatially unrolled
   with stride 1 in some template dim and whose temporal strides are all multiples of the bank ratio *)
Theorem memory_flexible_spec sizes T s n :
  c_ndims s = Some n -> (tndims T < n)%nat ->
  (is_memory_flexible_enough sizes T s = true <->
   forall p size, In (p, size) (combine s sizes) ->
     exists i, (i < length (pb p))%nat /\ row_flexible (bank_ratio size) (tndims T) (pcols p) i = true).
Proof.
  intros Hn Hlt. unfold is_memory_flexible_enough. destruct s as [|p0 s0]; [discriminate|].
  cbn [c_ndims] in Hn. injection Hn as Hn. rewrite Hn.
  replace (Nat.ltb (tndims T) n) with true by (symmetry; apply Nat.ltb_lt; exact Hlt). cbn [negb].
  rewrite zip_forall_spec. split.
  - intros H p size Hin. specialize (H (p, size) Hin). cbn [fst snd] in H.
    apply existsb_exists in H as [i [Hi Hr]]. apply in_seq in Hi. exists i. split; [lia|exact Hr].
  - intros H [p size] Hin. cbn [fst snd]. destruct (H p size Hin) as [i [Hi Hr]].
    apply existsb_exists. exists i. split; [apply in_seq; lia|exact Hr].
Qed.
