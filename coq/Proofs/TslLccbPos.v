(* C10: the positions (dim, depth) of the strides returned by largest_common_contiguous_block are
   pairwise distinct, for ANY two layouts (dynamic entries included) and any starting stride.
   Uses the position-aware view Model.C05Copy.lccb_pos of the same loop (lccb = map snd lccb_pos,
   lemma lccb_lccb_pos). *)
From Snax Require Import Base.Prelude Model.Tsl Model.TslOps Model.C05Copy Proofs.C05LccbProofs.

Lemma NoDup_map_incl {A B} (f : A -> B) (l l' : list A) :
  NoDup (map f l) -> NoDup l' -> incl l' l -> NoDup (map f l').
Proof.
  intros Hl Hl' Hi. induction l' as [|x xs IH]; cbn [map]; [constructor|].
  inversion Hl' as [|? ? Hx Hxs]; subst.
  constructor.
  - intros Hin. apply in_map_iff in Hin as [y [Ey Hy]].
    assert (Hinj : forall l0, NoDup (map f l0) -> forall u v, In u l0 -> In v l0 -> f u = f v -> u = v).
    { clear. intros l0. induction l0 as [|a r IHr]; intros Hnd u v Hu Hv E; [destruct Hu|].
      cbn [map] in Hnd. inversion Hnd as [|? ? Ha Hr]; subst.
      destruct Hu as [->|Hu], Hv as [->|Hv].
      - reflexivity.
      - exfalso. apply Ha. rewrite E. apply in_map, Hv.
      - exfalso. apply Ha. rewrite <- E. apply in_map, Hu.
      - apply IHr; assumption. }
    assert (y = x).
    { apply (Hinj l Hl); [apply Hi; right; exact Hy|apply Hi; left; reflexivity|exact Ey]. }
    subst y. exact (Hx Hy).
  - apply IH; [exact Hxs|]. intros z Hz. apply Hi. right. exact Hz.
Qed.

(* the loop, without any assumption on the strides being static *)
Lemma lccb_pos_loop_any fuel other : forall es cur acc,
  NoDup es ->
  exists new, lccb_pos_loop fuel other es cur acc = acc ++ new /\ NoDup new /\
    Forall (fun e => In e es /\ get_stride other (fst (fst e)) (snd (fst e)) = Some (snd e)) new.
Proof.
  induction fuel as [|fuel IH]; intros es cur acc Hnd; cbn [lccb_pos_loop].
  { exists []. rewrite app_nil_r. repeat split; constructor. }
  destruct (find (fun e => optZ_eqb (sstep (snd e)) cur) (static_first es)) as [e|] eqn:Hf.
  2:{ exists []. rewrite app_nil_r. repeat split; constructor. }
  apply find_some in Hf as [Hin _]. apply in_static_first in Hin.
  destruct (get_stride other (fst (fst e)) (snd (fst e))) as [so|] eqn:Hg.
  2:{ exists []. rewrite app_nil_r. repeat split; constructor. }
  destruct (stride_eqb (snd e) so) eqn:Heq.
  2:{ exists []. rewrite app_nil_r. repeat split; constructor. }
  apply stride_eqb_eq in Heq. subst so.
  destruct (remove_first_NoDup e es Hnd) as [Hnd' Hnot].
  destruct (IH (remove_first e es)
              (match snd e with (Some a, Some b) => Some (a * b) | _ => None end) (acc ++ [e]) Hnd')
    as [new [E [Hn Hall]]].
  exists (e :: new). rewrite E, <- app_assoc. split; [reflexivity|]. split.
  - constructor; [|exact Hn]. intros Hin'. apply Hnot.
    apply (proj1 (Forall_forall _ _) Hall e) in Hin'. tauto.
  - constructor; [split; [exact Hin|exact Hg]|].
    apply Forall_forall. intros x Hx. apply (proj1 (Forall_forall _ _) Hall x) in Hx as [Hx1 Hx2].
    split; [apply (in_remove_first e es x Hx1)|exact Hx2].
Qed.

(* every returned stride sits at its own (dim, depth) position of `a`, holds the same stride in `b`
   at that position, and no position is returned twice *)
Theorem lccb_positions_distinct a b start :
  exists blk : list entry,
    (lccb a b start = map snd blk \/ (blk = [] /\ lccb a b start = [(Some start, Some 1)])) /\
    NoDup (map fst blk) /\
    Forall (fun e => In e (entries a) /\ get_stride b (fst (fst e)) (snd (fst e)) = Some (snd e)) blk.
Proof.
  exists (lccb_pos a b start).
  destruct (lccb_pos_loop_any (S (length (entries a))) b (entries a) (Some start) [] (NoDup_entries a))
    as [new [E [Hn Hall]]].
  cbn [app] in E. fold (lccb_pos a b start) in E.
  split; [|split].
  - rewrite lccb_lccb_pos. destruct (lccb_pos a b start) as [|e r]; [right; split; reflexivity|left; reflexivity].
  - rewrite E. apply (NoDup_map_incl fst (entries a)); [apply NoDup_entries_keys|exact Hn|].
    intros x Hx. apply (proj1 (Forall_forall _ _) Hall x Hx).
  - rewrite E. exact Hall.
Qed.
