(* C08 — padding neutrality, reuse collapse, loop counts. *)
From Snax Require Import Base.Prelude Base.ListAux Model.C08StreamerCfg Model.C08Accels Model.C08Sem.

(* ---- padding with bound 1 / stride 0 ------------------------------------------------------------ *)
Lemma addrs_ones k : addrs (repeat 1 k) (repeat 0 k) = [0].
Proof. induction k as [|k IH]; [reflexivity|]. cbn [repeat addrs]. rewrite IH. reflexivity. Qed.

Lemma addrs_app_ones bs : forall ss k, List.length bs = List.length ss ->
  addrs (bs ++ repeat 1 k) (ss ++ repeat 0 k) = addrs bs ss.
Proof.
  induction bs as [|b bs IH]; intros [|s ss] k H; simpl in H; try discriminate.
  - simpl. rewrite addrs_ones. reflexivity.
  - cbn [app addrs]. rewrite IH by lia. reflexivity.
Qed.

Theorem padding_neutral :
  forall n bs ss, List.length bs = List.length ss ->
  addrs (hw_bounds n bs) (hw_strides n ss) = addrs bs ss.
Proof. intros n bs ss H. unfold hw_bounds, hw_strides, pad. rewrite H. apply addrs_app_ones. exact H. Qed.

(* ---- reuse collapse --------------------------------------------------------------------------------- *)
Lemma map_const_zrange (o : Z) b : 0 <= b -> map (fun i => o + i * 0) (zrange b) = repeat o (Z.to_nat b).
Proof.
  intros Hb. unfold zrange. rewrite map_map. generalize (Z.to_nat b) as n. intros n. generalize 0%nat.
  induction n as [|n IH]; intros k; simpl; [reflexivity|]. f_equal; [lia|apply IH].
Qed.

(* innermost position (the gemmx "r" flag): the collapsed nest emits each address once, the original
   b times in a row *)
Theorem reuse_collapse_innermost :
  forall b bs ss, 0 <= b ->
  addrs (b :: bs) (0 :: ss) = flat_map (fun a => repeat a (Z.to_nat b)) (addrs (1 :: bs) (0 :: ss)).
Proof.
  intros b bs ss Hb. cbn [addrs]. rewrite flat_map_flat_map.
  apply flat_map_ext_in. intros o _. rewrite map_const_zrange by exact Hb.
  rewrite map_const_zrange by lia. simpl. rewrite app_nil_r. reflexivity.
Qed.

Lemma flat_map_In_ext {A B} (f : A -> list B) (X Y : list A) :
  (forall a, In a X <-> In a Y) -> forall c, In c (flat_map f X) <-> In c (flat_map f Y).
Proof.
  intros H c. rewrite !in_flat_map. split; intros [a [Ha Hc]]; exists a; (split; [apply H; exact Ha|exact Hc]).
Qed.

(* any position: same set of addresses *)
Theorem reuse_collapse_same_addresses :
  forall pre pre_s b post post_s, List.length pre = List.length pre_s -> 1 <= b ->
  forall a, In a (addrs (pre ++ b :: post) (pre_s ++ 0 :: post_s))
        <-> In a (addrs (pre ++ 1 :: post) (pre_s ++ 0 :: post_s)).
Proof.
  induction pre as [|p pre IH]; intros [|ps pre_s] b post post_s Hl Hb a; simpl in Hl; try discriminate.
  - cbn [app addrs]. rewrite !in_flat_map. split; intros [o [Ho Ha]]; exists o; (split; [exact Ho|]).
    + rewrite map_const_zrange in Ha by lia. apply repeat_spec in Ha. subst. left. lia.
    + rewrite map_const_zrange by lia. rewrite map_const_zrange in Ha by lia. apply repeat_spec in Ha. subst a.
      destruct (Z.to_nat b) eqn:E; [lia|]. left. reflexivity.
  - cbn [app addrs]. apply flat_map_In_ext. intros c. apply IH; [lia|exact Hb].
Qed.

(* and b times as many steps *)
Lemma addrs_length : forall bs ss, List.length bs = List.length ss -> Forall (fun b => 0 <= b) bs ->
  steps bs ss = zprod bs.
Proof.
  unfold steps. induction bs as [|b bs IH]; intros [|s ss] Hl Hb; simpl in Hl; try discriminate; [reflexivity|].
  inversion Hb as [|? ? Hb0 Hbs]; subst. cbn [addrs]. specialize (IH ss ltac:(lia) Hbs).
  assert (E : forall l : list Z, Z.of_nat (List.length (flat_map (fun o => map (fun i => o + i * s) (zrange b)) l))
                                  = b * Z.of_nat (List.length l)).
  { induction l as [|x l IHl]; simpl; [lia|]. rewrite app_length, map_length, zrange_length. lia. }
  rewrite E, IH. unfold zprod. cbn [fold_right]. reflexivity.
Qed.

(* ---- loop counts ------------------------------------------------------------------------------------ *)
(* snax_alu / phs: loop_bound_alu = upper_bounds[0] of operand 0 = number of steps of a 1-dim stream *)
Theorem loop_count_alu :
  forall op b t ss l cfg, nth_error (s_pats op) 0 = Some (mkPat [b] [t] ss) -> 0 <= b ->
  alu_vals cfg op = Some l ->
  In (TKern LoopBoundAlu, VConst (steps [b] [t])) l.
Proof.
  intros op b t ss l cfg Hp Hb H. unfold alu_vals, first_bound in H. rewrite Hp in H. cbn [p_ub nth_error] in H.
  destruct (setup_vals cfg op) as [sv|]; [|discriminate]. simpl in H. inversion H; subst l.
  apply in_or_app. right. right. left. rewrite addrs_length; [|reflexivity|repeat constructor; exact Hb].
  unfold zprod. simpl. repeat f_equal. lia.
Qed.

(* gemmx: K*N*M equals the number of temporal steps of the A stream when M divides it *)
Theorem loop_count_gemmx_knm :
  forall n op qmac i8 resc l pA, nth_error (s_pats op) 0 = Some pA ->
  List.length (p_ub pA) = List.length (p_ts pA) -> Forall (fun b => 0 <= b) (p_ub pA) ->
  gemmx_kernel_vals n op (GBMac qmac i8 resc) = Some l ->
  exists k m, In (TKern GK, GC k) l /\ In (TKern GN, GC 1) l /\ In (TKern GM, GC m) l /\
              In (TKern GTemporalLoopBound, if i8 then GC m else GC 0) l /\
              ((m | steps (p_ub pA) (p_ts pA)) -> k * 1 * m = steps (p_ub pA) (p_ts pA)).
Proof.
  intros n op qmac i8 resc l pA Hp Hl Hb H. unfold gemmx_kernel_vals in H. rewrite Hp in H.
  destruct (if i8 then _ else _) as [lp|]; [|discriminate].
  destruct (prod_nonreducing lp / 1 =? 0) eqn:Em; [discriminate|]. apply Z.eqb_neq in Em.
  exists (zprod (p_ub pA) / (prod_nonreducing lp / 1)), (prod_nonreducing lp / 1).
  assert (Hdiv : (prod_nonreducing lp / 1 | steps (p_ub pA) (p_ts pA)) ->
                 zprod (p_ub pA) / (prod_nonreducing lp / 1) * 1 * (prod_nonreducing lp / 1) = steps (p_ub pA) (p_ts pA)).
  { rewrite addrs_length by assumption. intros [q Hq]. rewrite Hq. rewrite Z.div_mul by exact Em. lia. }
  destruct i8.
  - destruct (omap pack_shift_chunk _) as [sv|]; [|discriminate]. inversion H; subst l; clear H.
    repeat split; try exact Hdiv; cbn [app]; try (simpl; tauto).
    do 6 right. apply in_or_app. right. apply in_or_app. right. left. reflexivity.
  - inversion H; subst l; clear H.
    repeat split; try exact Hdiv; cbn [app]; try (simpl; tauto).
    do 6 right. apply in_or_app. right. apply in_or_app. right. left. reflexivity.
Qed.

(* temporal_loop_bound (= M) is the number of steps of the output stream with its reduction dims
   (stride 0) collapsed *)
Lemma prod_nonreducing_steps : forall ub ts, List.length ub = List.length ts -> Forall (fun b => 0 <= b) ub ->
  zprod (map fst (filter (fun bs => negb (snd bs =? 0)) (combine ub ts)))
  = steps (map (fun bs => if snd bs =? 0 then 1 else fst bs) (combine ub ts)) ts.
Proof.
  intros ub ts Hl Hb. rewrite addrs_length.
  - clear Hb. revert ts Hl. induction ub as [|b ub IH]; intros [|t ts] Hl; simpl in Hl; try discriminate; [reflexivity|].
    cbn [combine filter map snd fst]. destruct (t =? 0); cbn [negb map fst]; unfold zprod in *; cbn [fold_right];
      rewrite <- (IH ts) by lia; lia.
  - rewrite map_length, combine_length. lia.
  - rewrite Forall_forall in *. intros x Hx. apply in_map_iff in Hx as [[b t] [E Hin]]. subst x. cbn [fst snd].
    destruct (t =? 0); [lia|]. apply Hb. exact (in_combine_l _ _ _ _ Hin).
Qed.

Theorem loop_count_gemmx_m :
  forall p, List.length (p_ub p) = List.length (p_ts p) -> Forall (fun b => 0 <= b) (p_ub p) ->
  prod_nonreducing p = steps (map (fun bs => if snd bs =? 0 then 1 else fst bs) (combine (p_ub p) (p_ts p))) (p_ts p).
Proof. intros p. apply prod_nonreducing_steps. Qed.

(* F25: with more than one temporal dim the ALU loop count is the first bound only, not the number of steps *)
Lemma alu_loop_bound_multi_dim_refuted :
  let cfg := [mkStreamer [FNormal; FNormal] [4] []] in
  let op := mkSop [mkPat [3; 5] [32; 96] [8]] [false] in
  exists l, alu_vals cfg op = Some l /\ In (TKern LoopBoundAlu, VConst 3) l /\ steps [3; 5] [32; 96] = 15.
Proof. cbv zeta. eexists. split; [vm_compute; reflexivity|split; [simpl; tauto|reflexivity]]. Qed.
