(* C06 — block-level overlap, canonical shape: behind the launch come the awaits, then the arith chain that
   computes the setup's values, then the setup;  the rewrite puts chain + setup directly behind the launch:
       launch ; AW ; INS ; setup          ==>          launch ; INS ; setup ; AW
   (AW: accfg.await ops of any accelerators, INS: arith ops).  For this shape the two blocks leave the machine
   in EXACTLY the same state from every start state — same environment, registers, known fields, call counter
   and trace (setups and arith ops emit no event) — and scoping is preserved. *)
From Snax Require Import Base.Prelude Model.AccIR Model.AccSem Model.C06Overlap Proofs.AccSemProofs
     Proofs.C06ChainProofs.

Definition is_await (s : stmt) : bool := match s with SAwait _ _ => true | _ => false end.
Definition is_quiet (s : stmt) : bool := match s with SPure _ _ | SSetup _ _ _ _ => true | _ => false end.

Section Block.
Variable orc : oracle.

(* an await commutes with an arith op and with a setup: the resulting machine states are identical *)
Lemma await_commutes a t x m : is_quiet x = true ->
  exec_stmt orc (SAwait a t) (exec_stmt orc x m) = exec_stmt orc x (exec_stmt orc (SAwait a t) m).
Proof. destruct x; try discriminate; intros _; reflexivity. Qed.

Lemma await_commutes_block a t : forall q m, forallb is_quiet q = true ->
  exec_stmt orc (SAwait a t) (exec_block orc q m) = exec_block orc q (exec_stmt orc (SAwait a t) m).
Proof.
  induction q as [|x q IH]; intros m H; cbn [exec_block]; [reflexivity|].
  cbn [forallb] in H. apply andb_true_iff in H as [H1 H2].
  rewrite (IH _ H2). rewrite (await_commutes a t x m H1). reflexivity.
Qed.

Lemma awaits_commute_block : forall aw q m, forallb is_await aw = true -> forallb is_quiet q = true ->
  exec_block orc (aw ++ q) m = exec_block orc (q ++ aw) m.
Proof.
  induction aw as [|w aw IH]; intros q m Ha Hq.
  - rewrite app_nil_r. reflexivity.
  - cbn [forallb] in Ha. apply andb_true_iff in Ha as [Hw Ha]. destruct w; try discriminate.
    cbn [app exec_block]. rewrite (IH q _ Ha Hq). rewrite !exec_block_app. cbn [exec_block].
    rewrite (await_commutes_block a tok q m Hq). reflexivity.
Qed.

(* block_overlap_preserves, canonical shape, any context: equal states, hence equal everything afterwards *)
Theorem block_overlap_canonical pre lau aw ins a o s fs post m :
  forallb is_await aw = true -> all_spure ins = true ->
  exec_block orc (pre ++ lau :: aw ++ ins ++ SSetup a o (Some s) fs :: post) m
  = exec_block orc (pre ++ lau :: ins ++ SSetup a o (Some s) fs :: aw ++ post) m.
Proof.
  intros Ha Hi.
  assert (Hq : forallb is_quiet (ins ++ [SSetup a o (Some s) fs]) = true).
  { rewrite forallb_app. apply andb_true_iff. split; [|reflexivity].
    unfold all_spure in Hi. rewrite forallb_forall in *. intros x Hx. specialize (Hi x Hx).
    destruct x; try discriminate; reflexivity. }
  rewrite !exec_block_app. cbn [exec_block].
  set (m0 := exec_stmt orc lau (exec_block orc pre m)).
  replace (aw ++ ins ++ SSetup a o (Some s) fs :: post) with ((aw ++ (ins ++ [SSetup a o (Some s) fs])) ++ post)
    by (rewrite <- !app_assoc; reflexivity).
  replace (ins ++ SSetup a o (Some s) fs :: aw ++ post) with (((ins ++ [SSetup a o (Some s) fs]) ++ aw) ++ post)
    by (rewrite <- !app_assoc; reflexivity).
  rewrite (exec_block_app orc (aw ++ _)), (exec_block_app orc ((ins ++ _) ++ aw)).
  rewrite (awaits_commute_block aw _ m0 Ha Hq). reflexivity.
Qed.
End Block.

(* ---- scoping ------------------------------------------------------------------------------------------------ *)
Lemma scope_await d a t : scope_stmt d (SAwait a t) = if mem_nat t d then Some d else None.
Proof. cbn. destruct (mem_nat t d); reflexivity. Qed.

Lemma scope_quiet_mono : forall q d d', forallb is_quiet q = true -> scope_block d q = Some d' ->
  forall x, mem_nat x d = true -> mem_nat x d' = true.
Proof.
  induction q as [|s q IH]; intros d d' Hq H x Hx; cbn [scope_block] in H.
  - inversion H; subst. exact Hx.
  - cbn [forallb] in Hq. apply andb_true_iff in Hq as [H1 H2].
    destruct (scope_stmt d s) as [d1|] eqn:E; [|discriminate].
    apply (IH d1 d' H2 H x).
    destruct s; try discriminate; cbn in E;
      match type of E with (if ?c then _ else _) = _ => destruct c; [discriminate|] end;
      inversion E; subst; apply mem_nat_In; right; apply mem_nat_In; exact Hx.
Qed.

Lemma scope_block_app b1 : forall b2 d, scope_block d (b1 ++ b2) =
  match scope_block d b1 with Some d1 => scope_block d1 b2 | None => None end.
Proof.
  induction b1 as [|s b1 IH]; intros b2 d; cbn [app scope_block]; [reflexivity|].
  destruct (scope_stmt d s); [apply IH|reflexivity].
Qed.

Lemma scope_awaits : forall aw d, forallb is_await aw = true ->
  scope_block d aw = if forallb (fun s => match s with SAwait _ t => mem_nat t d | _ => true end) aw then Some d else None.
Proof.
  induction aw as [|w aw IH]; intros d Ha; cbn [scope_block forallb]; [reflexivity|].
  cbn [forallb] in Ha. apply andb_true_iff in Ha as [Hw Ha]. destruct w; try discriminate.
  rewrite scope_await. destruct (mem_nat tok d); [cbn [andb]; apply IH; exact Ha|reflexivity].
Qed.

(* block_overlap_scoped, canonical shape: no moved op uses a value that is not yet available, and the awaits
   that now come later still see their tokens *)
Theorem block_overlap_scoped_canonical aw q post d :
  forallb is_await aw = true -> forallb is_quiet q = true ->
  (exists d', scope_block d (aw ++ q ++ post) = Some d') ->
  exists d'', scope_block d (q ++ aw ++ post) = Some d''.
Proof.
  intros Ha Hq [d' H]. rewrite scope_block_app, (scope_awaits aw d Ha) in H.
  destruct (forallb (fun s => match s with SAwait _ t => mem_nat t d | _ => true end) aw) eqn:Et; [|discriminate].
  rewrite scope_block_app in H. destruct (scope_block d q) as [d1|] eqn:Eq; [|discriminate].
  rewrite scope_block_app, Eq, scope_block_app, (scope_awaits aw d1 Ha).
  assert (Et1 : forallb (fun s => match s with SAwait _ t => mem_nat t d1 | _ => true end) aw = true).
  { rewrite forallb_forall. rewrite forallb_forall in Et. intros s Hs. specialize (Et s Hs). destruct s; try reflexivity.
    apply (scope_quiet_mono q d d1 Hq Eq). exact Et. }
  rewrite Et1. exists d'. exact H.
Qed.
