(* Proofs about Model/C09SetLayout.v (C09). *)
From Coq Require Import Znumtheory.
From Snax Require Import Base.Prelude Base.ListAux Model.Tsl Proofs.TslProofs Model.C09SetLayout.

(* ================================================================================ *)
(* 1. ensure_access_granularity                                                      *)
(* ================================================================================ *)
Lemma pad_to_spec g cs : 0 < g -> (g | 64) ->
  cs <= pad_to g cs < cs + 64 /\ (g | pad_to g cs) /\ ((g | cs) -> pad_to g cs = cs).
Proof.
  intros Hg Hdiv. unfold pad_to. destruct (cs mod g =? 0) eqn:E; cbn [negb].
  - apply Z.eqb_eq in E. repeat split; try lia. apply Z.mod_divide; lia.
  - apply Z.eqb_neq in E. pose proof (Z.mod_pos_bound (g - cs) 64 ltac:(lia)) as Hb.
    repeat split; try lia.
    + rewrite (Z.mod_eq (g - cs) 64) by lia.
      replace (cs + (g - cs - 64 * ((g - cs) / 64))) with (g - 64 * ((g - cs) / 64)) by lia.
      apply Z.divide_sub_r; [apply Z.divide_refl|]. apply Z.divide_mul_l. exact Hdiv.
    + intros Hd. apply Z.mod_divide in Hd; lia.
Qed.

Lemma gran_divides_64 spatial bw sdim : 0 < gran_of spatial bw sdim /\ (gran_of spatial bw sdim | 64).
Proof.
  unfold gran_of, temporal_gran, spatial_gran.
  destruct (sdim >=? spatial), (bw =? 8); split; try lia;
    [exists 8|exists 4|exists 8|exists 32]; reflexivity.
Qed.

(* granularity_monotone: the padded stride is never smaller than the input (so padding only increases
   strides), exceeds it by less than 64, and — unless the stride is the unit stride, which is returned
   unchanged — is a multiple of the access granularity of the regime (temporal 8/16, spatial 8/2). *)
Theorem granularity_monotone spatial bw cs sdim :
  let r := ensure_access_granularity spatial bw cs sdim in
  cs <= r < cs + 64 /\
  (cs <> 1 -> (gran_of spatial bw sdim | r)) /\
  (cs = 1 \/ (gran_of spatial bw sdim | cs) -> r = cs).
Proof.
  cbv zeta. unfold ensure_access_granularity.
  destruct (cs =? 1) eqn:E1.
  - apply Z.eqb_eq in E1. repeat split; lia.
  - apply Z.eqb_neq in E1.
    destruct (gran_divides_64 spatial bw sdim) as [Hpos Hdiv]. revert Hpos Hdiv.
    unfold gran_of. destruct (sdim >=? spatial); intros Hpos Hdiv;
      (destruct (pad_to_spec _ cs Hpos Hdiv) as (H1 & H2 & H3);
       repeat split; try lia; [intros _; exact H2 | intros [Hc|Hc]; [contradiction|apply H3, Hc]]).
Qed.

Lemma ega_ge spatial bw cs sdim : cs <= ensure_access_granularity spatial bw cs sdim.
Proof. pose proof (granularity_monotone spatial bw cs sdim) as H. cbv zeta in H. lia. Qed.

(* ================================================================================ *)
(* 2. list plumbing                                                                   *)
(* ================================================================================ *)
Definition box (shape idx : list Z) : Prop := Forall2 (fun i n => 0 <= i < n) idx shape.

Lemma upd_split {A} (dflt : A) : forall d (l : list A) x, (d < length l)%nat ->
  exists pre post, l = pre ++ nth d l dflt :: post /\ length pre = d /\ upd d x l = pre ++ x :: post.
Proof.
  induction d as [|d IH]; intros [|h t] x Hd; cbn [length] in Hd; try lia.
  - exists [], t. repeat split.
  - destruct (IH t x ltac:(lia)) as (pre & post & E1 & E2 & E3).
    exists (h :: pre), post. cbn [nth upd app length]. rewrite <- E1, E3, E2. repeat split. 
Qed.

Lemma F2_length {A B} (R : A -> B -> Prop) l1 l2 : Forall2 R l1 l2 -> length l1 = length l2.
Proof. induction 1; cbn [length]; congruence. Qed.

Lemma nth_mid {A} (pre post : list A) x dflt : nth (length pre) (pre ++ x :: post) dflt = x.
Proof. rewrite app_nth2 by lia. rewrite Nat.sub_diag. reflexivity. Qed.

Lemma app_inj_len {A} (a a' b b' : list A) : length a = length a' -> a ++ b = a' ++ b' -> a = a' /\ b = b'.
Proof.
  revert a'. induction a as [|x a IH]; intros [|x' a'] Hl H; cbn [length] in Hl; try discriminate.
  - split; [reflexivity|exact H].
  - cbn [app] in H. inversion H; subst. destruct (IH a' ltac:(lia) H2) as [-> ->]. split; reflexivity.
Qed.

Lemma nth_upd_same {A} (dflt : A) : forall d x l, (d < length l)%nat -> nth d (upd d x l) dflt = x.
Proof. induction d as [|d IH]; intros x [|h t] Hd; cbn [length] in Hd; try lia; cbn [upd nth]; [reflexivity|apply IH; lia]. Qed.

Lemma nth_upd_other {A} (dflt : A) : forall d d' x l, d <> d' -> nth d' (upd d x l) dflt = nth d' l dflt.
Proof.
  induction d as [|d IH]; intros [|d'] x [|h t] Hne; cbn [upd nth]; try reflexivity; try lia.
  apply IH. lia.
Qed.

Lemma Forall2_nth {A B} (R : A -> B -> Prop) a b : forall l1 l2 d,
  Forall2 R l1 l2 -> (d < length l1)%nat -> R (nth d l1 a) (nth d l2 b).
Proof.
  intros l1 l2 d H. revert d. induction H as [|x y l1 l2 Hxy Hr IH]; intros d Hd; cbn [length] in Hd; [lia|].
  destruct d; cbn [nth]; [exact Hxy|apply IH; lia].
Qed.

Lemma Forall_nth_elim {A} (P : A -> Prop) l d a : Forall P l -> (d < length l)%nat -> P (nth d l a).
Proof. intros H Hd. rewrite Forall_forall in H. apply H. apply nth_In. exact Hd. Qed.

Lemma nth_map_const {A B} (c : B) : forall (l : list A) d, nth d (map (fun _ => c) l) c = c.
Proof. induction l as [|x l IH]; intros [|d]; cbn [map nth]; auto. Qed.

Lemma affine_addr_app : forall pre ipre ts is, length ipre = length pre ->
  affine_addr (pre ++ ts) (ipre ++ is) = affine_addr pre ipre + affine_addr ts is.
Proof.
  induction pre as [|t pre IH]; intros [|x ipre] ts is Hl; cbn [length] in Hl; try discriminate.
  - cbn [app affine_addr]. destruct ts; lia.
  - cbn [app affine_addr]. rewrite IH by lia. lia.
Qed.

(* ================================================================================ *)
(* 3. one more (outermost) stride on a dimension                                      *)
(* ================================================================================ *)
Definition spos (s : stride) : Prop := exists a b, s = (Some a, Some b) /\ 0 < a /\ 0 < b.
Definition tile_pos (t : tstride) : Prop := Forall spos t.

Lemma spos_ok s : spos s -> stride_ok s.
Proof. intros (a & b & -> & _ & Hb). exists a, b. split; [reflexivity|exact Hb]. Qed.
Lemma tile_pos_ok t : tile_pos t -> tstride_ok t.
Proof. unfold tile_pos, tstride_ok. intros H. eapply Forall_impl; [|exact H]. apply spos_ok. Qed.

Lemma bounds_prod_cons_pos a b t : 0 < b -> bounds_prod ((Some a, Some b) :: t) = b * bounds_prod t.
Proof. intros Hb. rewrite bounds_prod_cons. unfold tbound. cbn [sbound snd]. replace (b =? 0) with false by lia. reflexivity. Qed.

Lemma dim_addr_cons a b t x : tile_pos t -> 0 < b -> 0 <= x ->
  dim_addr ((Some a, Some b) :: t) x = a * (x / bounds_prod t) + dim_addr t (x mod bounds_prod t).
Proof.
  intros Ht Hb Hx. pose proof (tile_pos_ok t Ht) as Hok. pose proof (bounds_prod_pos t Hok) as HP.
  cbn [dim_addr static_of fst]. f_equal.
  rewrite (dim_addr_inner t (x mod bounds_prod t) Hok) by (apply Z.mod_pos_bound; lia).
  symmetry. apply inner_addr_mod; [exact Hok|exact HP|apply Z.divide_refl].
Qed.

(* ================================================================================ *)
(* 4. the loop invariant                                                              *)
(* ================================================================================ *)
(* shape of the strides assigned so far *)
Definition pshape (strs : strides_t) : list Z := map bounds_prod strs.

Record Inv (shape : list Z) (st : lstate) : Prop := mkInv {
  inv_cs : 0 < fst st;
  inv_len : length (snd st) = length shape;
  inv_pos : Forall tile_pos (snd st);
  (* existing_bound always divides the operand dimension: the floor of shape // existing_bound is exact *)
  inv_div : Forall2 (fun t n => (bounds_prod t | n)) (snd st) shape;
  (* every address assigned so far is below the running stride ... *)
  inv_bnd : forall idx, box (pshape (snd st)) idx -> 0 <= affine_addr (snd st) idx < fst st;
  (* ... and distinct indices have distinct addresses *)
  inv_inj : forall i j, box (pshape (snd st)) i -> box (pshape (snd st)) j ->
            affine_addr (snd st) i = affine_addr (snd st) j -> i = j
}.

Lemma box_nil_all (shape : list Z) idx : box (map (fun _ => 1) shape) idx -> idx = map (fun _ => 0) shape.
Proof.
  revert idx. induction shape as [|n shape IH]; intros idx H; inversion H; subst; [reflexivity|].
  cbn [map]. f_equal; [lia|]. apply IH. assumption.
Qed.

Lemma affine_addr_nils (shape : list Z) idx : affine_addr (map (fun _ => []) shape) idx = 0.
Proof.
  revert idx. induction shape as [|n shape IH]; intros [|x idx]; cbn [map affine_addr dim_addr]; try reflexivity.
  rewrite IH. reflexivity.
Qed.

Lemma Inv_init shape : Forall (fun n => 0 < n) shape -> Inv shape (1, map (fun _ => []) shape).
Proof.
  intros Hs. constructor; cbn [fst snd].
  - lia.
  - apply map_length.
  - apply Forall_forall. intros t Ht. apply in_map_iff in Ht as [? [<- _]]. constructor.
  - induction shape as [|n shape IH]; cbn [map]; constructor.
    + exists n. cbn. lia.
    + apply IH. inversion Hs; assumption.
  - intros idx _. rewrite affine_addr_nils. lia.
  - intros i j Hi Hj _. unfold pshape in Hi, Hj. rewrite map_map in Hi, Hj. cbn in Hi, Hj.
    rewrite (box_nil_all _ _ Hi), (box_nil_all _ _ Hj). reflexivity.
Qed.

Lemma first_nz_lt : forall col d, first_nz col = Some d -> (d < length col)%nat.
Proof.
  induction col as [|x col IH]; intros d H; cbn [first_nz] in H; [discriminate|].
  destruct (x =? 0).
  - destruct (first_nz col) as [k|] eqn:E; [|discriminate]. inversion H; subst. cbn [length].
    specialize (IH k eq_refl). lia.
  - inversion H; subst. cbn [length]. lia.
Qed.

Lemma Forall2_split_nth {A B} (R : A -> B -> Prop) (pre : list A) x post (l2 : list B) :
  Forall2 R (pre ++ x :: post) l2 ->
  exists pre2 y post2, l2 = pre2 ++ y :: post2 /\ length pre2 = length pre /\
    Forall2 R pre pre2 /\ R x y /\ Forall2 R post post2.
Proof.
  intros H. apply Forall2_app_inv_l in H as (pre2 & rest & H1 & H2 & ->).
  inversion H2 as [|? y ? post2 Hxy Hpost]; subst.
  exists pre2, y, post2. repeat split; try assumption. symmetry. eapply F2_length; exact H1.
Qed.

(* the arithmetic heart: a new stride c >= (all addresses so far) with bound lb extends an injective,
   bounded address map to an injective map bounded by c*lb *)
Lemma mixed_radix_step c q q' r r' : 0 <= r < c -> 0 <= r' < c -> c * q + r = c * q' + r' -> q = q' /\ r = r'.
Proof. intros Hr Hr' H. assert (q = q') by nia. subst. lia. Qed.

Lemma push_preserves shape st d c1 lb :
  Forall (fun n => 0 < n) shape -> Inv shape st -> (d < length shape)%nat -> fst st <= c1 -> 0 < lb ->
  (lb * bounds_prod (nth d (snd st) []) | nth d shape 0) ->
  Inv shape (c1 * lb, upd d ((Some c1, Some lb) :: nth d (snd st) []) (snd st)).
Proof.
    intros Hshape HI Hd Hc1 Hlbpos Hlbdiv0.
    destruct st as [cs strs]. destruct HI as [Hcs Hlen Hpos Hdiv Hbnd Hinj]. cbn [fst snd] in *.
    assert (Hdl : (d < length strs)%nat) by (rewrite Hlen; exact Hd).
    set (t := nth d strs []).
    destruct (upd_split [] d strs ((Some c1, Some lb) :: t) Hdl) as (pre & post & Es0 & Epre & Eupd).
    assert (Es : strs = pre ++ t :: post) by exact Es0. clear Es0.
    pose proof Hdiv as Hdiv'. rewrite Es in Hdiv'.
    destruct (Forall2_split_nth _ _ _ _ _ Hdiv') as (spre & n & spost & Esh & Elsp & Dpre & Dt & Dpost).
    assert (Hd' : d = length spre) by (rewrite Elsp; exact (eq_sym Epre)).
    assert (Hn : nth d shape 0 = n) by (rewrite Esh, Hd'; apply nth_mid).
    assert (Hnpos : 0 < n).
    { rewrite Forall_forall in Hshape. apply Hshape. rewrite Esh. apply in_or_app. right. left. reflexivity. }
    assert (Htpos : tile_pos t).
    { rewrite Forall_forall in Hpos. apply Hpos. rewrite Es. apply in_or_app. right. left. reflexivity. }
    pose proof (bounds_prod_pos t (tile_pos_ok t Htpos)) as HP.
    assert (Hlbdiv : (lb * bounds_prod t | n)) by (rewrite <- Hn; exact Hlbdiv0).
    match goal with |- Inv _ (_, ?u) => replace u with (pre ++ ((Some c1, Some lb) :: t) :: post) by (symmetry; exact Eupd) end.
    clear Eupd Hlbdiv0. clearbody t.
    assert (Hnewpos : tile_pos ((Some c1, Some lb) :: t)).
    { constructor; [|exact Htpos]. exists c1, lb. repeat split; lia. }
    (* decomposition of an index of the new box *)
    assert (Hdec : forall idx, box (pshape (pre ++ ((Some c1, Some lb) :: t) :: post)) idx ->
      exists ipre x ipost, idx = ipre ++ x :: ipost /\ length ipre = length pre /\
        0 <= x < lb * bounds_prod t /\
        box (pshape strs) (ipre ++ (x mod bounds_prod t) :: ipost) /\
        affine_addr (pre ++ ((Some c1, Some lb) :: t) :: post) idx =
          c1 * (x / bounds_prod t) + affine_addr strs (ipre ++ (x mod bounds_prod t) :: ipost)).
    { intros idx Hb. unfold box, pshape in Hb. rewrite map_app in Hb. cbn [map] in Hb.
      apply Forall2_app_inv_r in Hb as (ipre & irest & B1 & B2 & ->).
      inversion B2 as [|x ? ipost ? Bx Bpost]; subst.
      rewrite bounds_prod_cons_pos in Bx by lia.
      assert (Hl : length ipre = length pre) by (apply F2_length in B1; rewrite map_length in B1; exact B1).
      exists ipre, x, ipost. repeat split; try assumption; try lia.
      - unfold box, pshape. rewrite map_app. cbn [map]. apply Forall2_app; [exact B1|].
        constructor; [|exact Bpost]. change (0 <= x mod bounds_prod t < bounds_prod t). apply Z.mod_pos_bound. lia.
      - rewrite !affine_addr_app by exact Hl. cbn [affine_addr].
        rewrite dim_addr_cons by (try assumption; lia). lia. }
    constructor; cbn [fst snd].
    - nia.
    - rewrite app_length. cbn [length]. rewrite <- Hlen, Es, app_length. reflexivity.
    - rewrite Es in Hpos. apply Forall_app in Hpos as [Hp1 Hp2]. inversion Hp2; subst.
      apply Forall_app. split; [assumption|]. constructor; assumption.
    - rewrite Esh. apply Forall2_app; [exact Dpre|]. constructor; [|exact Dpost].
      rewrite bounds_prod_cons_pos by lia. exact Hlbdiv.
    - intros idx Hb. destruct (Hdec idx Hb) as (ipre & x & ipost & -> & Hl & Hx & Hold & ->).
      specialize (Hbnd _ Hold).
      assert (0 <= x / bounds_prod t < lb) by (split; [apply Z.div_pos; lia | apply Z.div_lt_upper_bound; lia]).
      nia.
    - intros i j Hi Hj Heq.
      destruct (Hdec i Hi) as (ipre & x & ipost & -> & Hl & Hx & Hold & Ei).
      destruct (Hdec j Hj) as (jpre & y & jpost & -> & Hl' & Hy & Hold' & Ej).
      rewrite Ei, Ej in Heq.
      pose proof (Hbnd _ Hold) as B1. pose proof (Hbnd _ Hold') as B2.
      destruct (mixed_radix_step c1 _ _ _ _ (conj (proj1 B1) (Z.lt_le_trans _ _ _ (proj2 B1) Hc1))
                 (conj (proj1 B2) (Z.lt_le_trans _ _ _ (proj2 B2) Hc1)) Heq) as [Eq Er].
      specialize (Hinj _ _ Hold Hold' Er).
      assert (Hll : length ipre = length jpre) by (rewrite Hl, Hl'; reflexivity).
      destruct (app_inj_len _ _ _ _ Hll Hinj) as [-> Hrest].
      inversion Hrest as [[Hmod Hpost]]. subst jpost.
      assert (x = y).
      { rewrite (Z.div_mod x (bounds_prod t)) by lia. rewrite (Z.div_mod y (bounds_prod t)) by lia. rewrite Eq, Hmod. reflexivity. }
      subst. reflexivity.
Qed.

Section Step.
  Variables (tiled : bool) (spatial bw : Z) (s : sched) (shape : list Z).
  Hypothesis Hshape : Forall (fun n => 0 < n) shape.
  Hypothesis Hrows : length (s_rows s) = length shape.

  Definition step_c (st : lstate) (c : nat * Z * list Z) : lstate :=
    assign_step tiled spatial bw s shape st (fst (fst c)) (snd (fst c)) (snd c).

  Lemma step_preserves st k sb col :
    Inv shape st -> 0 < sb -> length col = length (s_rows s) ->
    Inv shape (assign_step tiled spatial bw s shape st k sb col).
  Proof.
    intros HI Hsb Hcol. unfold assign_step.
    destruct (first_nz col) as [d|] eqn:Ed; [|exact HI].
    pose proof (first_nz_lt _ _ Ed) as Hd. rewrite Hcol, Hrows in Hd.
    cbv zeta.
    match goal with |- context [Some (if ?c then sb else ?r)] => set (cond := c); set (lb := if cond then sb else r) end.
    assert (Hdl : (d < length (snd st))%nat) by (rewrite (inv_len _ _ HI); exact Hd).
    assert (Htp : tile_pos (nth d (snd st) [])) by (apply Forall_nth_elim; [exact (inv_pos _ _ HI)|exact Hdl]).
    pose proof (bounds_prod_pos _ (tile_pos_ok _ Htp)) as HP.
    pose proof (Forall2_nth _ [] 0 _ _ d (inv_div _ _ HI) Hdl) as Hdv. cbn beta in Hdv.
    assert (Hn : 0 < nth d shape 0) by (apply (Forall_nth_elim (fun n => 0 < n)); [exact Hshape|exact Hd]).
    destruct Hdv as [m Hm].
    assert (Hmpos : 0 < m) by (apply (Z.mul_pos_cancel_r _ _ HP); apply (Z.lt_le_trans _ _ _ Hn); apply Z.eq_le_incl; exact Hm).
    assert (HPne : bounds_prod (nth d (snd st) []) <> 0) by (apply Z.neq_sym, Z.lt_neq; exact HP).
    assert (Hrem : nth d shape 0 / bounds_prod (nth d (snd st) []) = m) by (rewrite Hm; apply Z.div_mul; exact HPne).
    apply push_preserves; try assumption.
    - apply ega_ge.
    - subst lb. destruct cond eqn:E; [lia|]. rewrite Hrem. exact Hmpos.
    - subst lb. destruct cond eqn:E.
      + subst cond. apply andb_true_iff in E as [E _]. apply andb_true_iff in E as [_ E].
        apply Z.eqb_eq in E. rewrite Hrem in E.
        apply Z.mod_divide in E; [|lia]. destruct E as [q Hq]. exists q. rewrite Hm, Hq. rewrite Z.mul_assoc. reflexivity.
      + rewrite Hrem. exists 1. rewrite Z.mul_1_l. exact Hm.
  Qed.
End Step.

(* ================================================================================ *)
(* 5. the whole loop, fill-up and canonicalize                                        *)
(* ================================================================================ *)
Definition col_ok (s : sched) (c : nat * Z * list Z) : Prop :=
  0 < snd (fst c) /\ length (snd c) = length (s_rows s).

Lemma rev_columns_ok s : Forall (fun b => 0 < b) (s_bounds s) -> Forall (col_ok s) (rev_columns s).
Proof.
  intros Hb. unfold rev_columns. apply Forall_forall. intros c Hc.
  apply in_map_iff in Hc as [k [<- Hk]]. apply in_seq in Hk. unfold col_ok. cbn [fst snd]. split.
  - rewrite Forall_forall in Hb. apply Hb. apply nth_In. lia.
  - unfold column. apply map_length.
Qed.

Lemma loop_preserves tiled spatial bw s shape :
  Forall (fun n => 0 < n) shape -> length (s_rows s) = length shape ->
  forall cols st, Forall (col_ok s) cols -> Inv shape st ->
  Inv shape (fold_left (step_c tiled spatial bw s shape) cols st).
Proof.
  intros Hs Hr. induction cols as [|c cols IH]; intros st Hc HI; cbn [fold_left]; [exact HI|].
  inversion Hc as [|? ? [Hc1 Hc2] Hrest]; subst. apply IH; [exact Hrest|].
  unfold step_c. apply step_preserves; assumption.
Qed.

Definition wf_input (s : sched) (shape : list Z) : Prop :=
  Forall (fun b => 0 < b) (s_bounds s) /\ Forall (fun n => 0 < n) shape /\ length (s_rows s) = length shape.
Definition wf_inputb (s : sched) (shape : list Z) : bool :=
  forallb (fun b => 0 <? b) (s_bounds s) && forallb (fun n => 0 <? n) shape && Nat.eqb (length (s_rows s)) (length shape).
Lemma wf_inputb_ok s shape : wf_inputb s shape = true <-> wf_input s shape.
Proof.
  unfold wf_inputb, wf_input. rewrite !andb_true_iff, !forallb_forall, !Forall_forall, Nat.eqb_eq.
  split; intros [[H1 H2] H3] || intros [H1 [H2 H3]]; repeat split; try assumption; intros x Hx;
    (specialize (H1 x) || idtac); (specialize (H2 x) || idtac); auto; lia.
Qed.

Theorem assign_loop_inv tiled spatial bw s shape :
  wf_input s shape -> Inv shape (assign_loop tiled spatial bw s shape).
Proof.
  intros (Hb & Hs & Hr). unfold assign_loop.
  apply (loop_preserves tiled spatial bw s shape Hs Hr (rev_columns s) _ (rev_columns_ok s Hb) (Inv_init shape Hs)).
Qed.

(* ---- the fill-up after the loop (repaired code) ------------------------------------------ *)
Lemma fill_step_spec shape st d : Forall (fun n => 0 < n) shape -> Inv shape st -> (d < length shape)%nat ->
  Inv shape (fill_step shape st d) /\
  bounds_prod (nth d (snd (fill_step shape st d)) []) = nth d shape 0 /\
  (forall d', d' <> d -> nth d' (snd (fill_step shape st d)) [] = nth d' (snd st) []).
Proof.
  intros Hs HI Hd.
  assert (Hdl : (d < length (snd st))%nat) by (rewrite (inv_len _ _ HI); exact Hd).
  assert (Htp : tile_pos (nth d (snd st) [])) by (apply Forall_nth_elim; [exact (inv_pos _ _ HI)|exact Hdl]).
  pose proof (bounds_prod_pos _ (tile_pos_ok _ Htp)) as HP.
  pose proof (Forall2_nth _ [] 0 _ _ d (inv_div _ _ HI) Hdl) as Hdv. cbn beta in Hdv.
  assert (Hn : 0 < nth d shape 0) by (apply (Forall_nth_elim (fun n => 0 < n)); [exact Hs|exact Hd]).
  destruct Hdv as [m Hm].
  assert (Hmpos : 0 < m) by (apply (Z.mul_pos_cancel_r _ _ HP); apply (Z.lt_le_trans _ _ _ Hn); apply Z.eq_le_incl; exact Hm).
  assert (HPne : bounds_prod (nth d (snd st) []) <> 0) by (apply Z.neq_sym, Z.lt_neq; exact HP).
  assert (Hrem : nth d shape 0 / bounds_prod (nth d (snd st) []) = m) by (rewrite Hm; apply Z.div_mul; exact HPne).
  unfold fill_step. cbv zeta. rewrite Hrem.
  destruct ((match nth d (snd st) [] with [] => true | _ => false end) || (m >? 1)) eqn:E.
  - split; [|split].
    + apply push_preserves; try assumption; [apply Z.le_refl|]. exists 1. rewrite Z.mul_1_l. exact Hm.
    + cbn [snd]. rewrite nth_upd_same by exact Hdl. rewrite bounds_prod_cons_pos by exact Hmpos. symmetry. exact Hm.
    + intros d' Hne. cbn [snd]. apply nth_upd_other. auto.
  - split; [exact HI|]. split; [|reflexivity].
    apply orb_false_iff in E as [_ E]. assert (Hm1 : m = 1) by lia. symmetry. rewrite Hm, Hm1. apply Z.mul_1_l.
Qed.

Lemma fill_fold_spec shape : Forall (fun n => 0 < n) shape ->
  forall ds st, Inv shape st -> (forall d, In d ds -> (d < length shape)%nat) -> NoDup ds ->
  let st' := fold_left (fill_step shape) ds st in
  Inv shape st' /\
  (forall d, In d ds -> bounds_prod (nth d (snd st') []) = nth d shape 0) /\
  (forall d, ~ In d ds -> nth d (snd st') [] = nth d (snd st) []).
Proof.
  intros Hs. induction ds as [|d ds IH]; intros st HI Hlt Hnd; cbn [fold_left].
  - split; [exact HI|]. split; [intros d []|reflexivity].
  - inversion Hnd as [|? ? Hnotin Hnd']; subst.
    destruct (fill_step_spec shape st d Hs HI (Hlt d (or_introl eq_refl))) as (HI1 & Hp1 & Ho1).
    destruct (IH (fill_step shape st d) HI1 (fun x Hx => Hlt x (or_intror Hx)) Hnd') as (HI2 & Hp2 & Ho2).
    split; [exact HI2|]. split.
    + intros x [->|Hx]; [|apply Hp2, Hx]. rewrite (Ho2 x Hnotin). exact Hp1.
    + intros x Hx. rewrite Ho2 by (intros H; apply Hx; right; exact H). apply Ho1. intros ->. apply Hx. left. reflexivity.
Qed.

Lemma raw_layout_facts tiled spatial bw s shape : wf_input s shape ->
  let st := fill_up shape (assign_loop tiled spatial bw s shape) in
  let raw := raw_layout tiled spatial bw s shape in
  Inv shape st /\ layout_ok raw /\ shape_of raw = shape /\ pshape (snd st) = shape /\
  forall idx, affine_map_eval raw idx = affine_addr (snd st) idx.
Proof.
  intros Hwf st raw. pose proof (assign_loop_inv tiled spatial bw s shape Hwf) as HI0.
  destruct Hwf as (Hb & Hs & Hr).
  destruct (fill_fold_spec shape Hs (seq 0 (length shape)) _ HI0
              (fun d Hd => proj2 (proj1 (in_seq _ _ _) Hd)) (seq_NoDup _ _)) as (HI & Hp & _).
  fold (fill_up shape (assign_loop tiled spatial bw s shape)) in HI, Hp. fold st in HI, Hp.
  assert (Hsh : pshape (snd st) = shape).
  { unfold pshape. apply (nth_ext _ _ (bounds_prod []) 0).
    - rewrite map_length. exact (inv_len _ _ HI).
    - intros d Hd. rewrite map_length in Hd. rewrite (map_nth bounds_prod). apply Hp. apply in_seq.
      rewrite <- (inv_len _ _ HI). lia. }
  split; [exact HI|]. split; [|split; [|split]].
  - unfold raw, raw_layout, layout_ok. cbn [tstrides]. fold st. eapply Forall_impl; [|exact (inv_pos _ _ HI)]. apply tile_pos_ok.
  - unfold raw, raw_layout, shape_of. cbn [tstrides]. exact Hsh.
  - exact Hsh.
  - intros idx. reflexivity.
Qed.

(* layout_covers: for every schedule with positive bounds and every positive operand shape the tile bounds
   of every dimension multiply to the operand dimension *)
Theorem layout_covers tiled spatial bw s shape : wf_input s shape ->
  shape_of (assign_layout tiled spatial bw s shape) = shape.
Proof.
  intros Hwf. destruct (raw_layout_facts tiled spatial bw s shape Hwf) as (_ & R1 & R2 & _).
  unfold assign_layout. rewrite canonicalize_shape by exact R1. exact R2.
Qed.

Lemma assign_layout_ok tiled spatial bw s shape : wf_input s shape ->
  layout_ok (assign_layout tiled spatial bw s shape).
Proof.
  intros Hwf. destruct (raw_layout_facts tiled spatial bw s shape Hwf) as (_ & R1 & _).
  apply canonicalize_ok. exact R1.
Qed.

(* layout_injective: for all schedules (any dimension order, reduction and broadcast dimensions, any
   coefficients, bounds not dividing the shape), positive bounds and shapes, element widths, template ranks
   and both modes, two distinct elements of the operand never get the same address; addresses are >= 0 *)
Theorem layout_injective tiled spatial bw s shape : wf_input s shape ->
  let L := assign_layout tiled spatial bw s shape in
  forall i j, box shape i -> box shape j -> affine_map_eval L i = affine_map_eval L j -> i = j.
Proof.
  intros Hwf L i j Hi Hj Heq.
  destruct (raw_layout_facts tiled spatial bw s shape Hwf) as (HI & R1 & R2 & R3 & R4).
  unfold L, assign_layout in Heq.
  rewrite !canonicalize_affine_map in Heq by (try exact R1; rewrite R2; assumption).
  rewrite !R4 in Heq. rewrite <- R3 in Hi, Hj.
  exact (inv_inj _ _ HI i j Hi Hj Heq).
Qed.

Theorem layout_addr_nonneg tiled spatial bw s shape : wf_input s shape ->
  let L := assign_layout tiled spatial bw s shape in
  offset L = Some 0 /\ forall i, box shape i -> 0 <= affine_map_eval L i.
Proof.
  intros Hwf L. split; [reflexivity|]. intros i Hi.
  destruct (raw_layout_facts tiled spatial bw s shape Hwf) as (HI & R1 & R2 & R3 & R4).
  unfold L, assign_layout. rewrite canonicalize_affine_map by (try exact R1; rewrite R2; assumption).
  rewrite R4. rewrite <- R3 in Hi. apply (inv_bnd _ _ HI i Hi).
Qed.

Lemma covers_true shape l : covers shape l = true <-> shape_of l = shape.
Proof. unfold covers. apply list_eqb_eq. intros x y. apply Z.eqb_eq. Qed.

(* ================================================================================ *)
(* 7. no self overlap: all_values has no duplicates                                   *)
(* ================================================================================ *)
Lemma NoDup_app_intro {A} (a b : list A) : NoDup a -> NoDup b -> (forall x, In x a -> ~ In x b) -> NoDup (a ++ b).
Proof.
  induction a as [|x a IH]; intros Ha Hb Hd; [exact Hb|]. inversion Ha; subst. cbn [app]. constructor.
  - intros Hin. apply in_app_or in Hin as [Hin|Hin]; [contradiction|]. apply (Hd x); [left; reflexivity|exact Hin].
  - apply IH; [assumption|assumption|]. intros y Hy. apply Hd. right. exact Hy.
Qed.

Lemma NoDup_map_inj_in {A B} (f : A -> B) l :
  (forall x y, In x l -> In y l -> f x = f y -> x = y) -> NoDup l -> NoDup (map f l).
Proof.
  induction l as [|x l IH]; intros Hinj Hnd; [constructor|]. inversion Hnd; subst. cbn [map]. constructor.
  - intros Hin. apply in_map_iff in Hin as [y [Hy Hyin]].
    assert (y = x) by (apply Hinj; [right; exact Hyin|left; reflexivity|exact Hy]). subst. contradiction.
  - apply IH; [|assumption]. intros a b Ha Hb. apply Hinj; right; assumption.
Qed.

Lemma NoDup_zrange n : NoDup (zrange n).
Proof.
  unfold zrange. apply NoDup_map_inj_in; [|apply seq_NoDup]. intros x y _ _ H. lia.
Qed.

Lemma NoDup_row_major shape : NoDup (row_major shape).
Proof.
  induction shape as [|n shape IH]; cbn [row_major]; [constructor; [intros []|constructor]|].
  generalize (NoDup_zrange n). generalize (zrange n). intros l Hl.
  induction l as [|i l IHl]; cbn [flat_map]; [constructor|]. inversion Hl; subst.
  apply NoDup_app_intro.
  - apply NoDup_map_inj_in; [|exact IH]. intros x y _ _ H. inversion H. reflexivity.
  - apply IHl. assumption.
  - intros x Hx Hx'. apply in_map_iff in Hx as [r [<- _]].
    apply in_flat_map in Hx' as [i' [Hi' Hx']]. apply in_map_iff in Hx' as [r' [Hr' _]].
    inversion Hr'; subst. contradiction.
Qed.

Theorem layout_no_self_overlap tiled spatial bw s shape : wf_input s shape ->
  NoDup (all_values (assign_layout tiled spatial bw s shape)).
Proof.
  intros Hwf. rewrite <- (affine_map_all_values _ (assign_layout_ok tiled spatial bw s shape Hwf)).
  rewrite (layout_covers tiled spatial bw s shape Hwf).
  apply NoDup_map_inj_in; [|apply NoDup_row_major].
  intros x y Hx Hy. apply in_row_major in Hx, Hy.
  apply (layout_injective tiled spatial bw s shape Hwf); assumption.
Qed.

(* ================================================================================ *)
(* 8. operands with an explicit TSL layout                                            *)
(* ================================================================================ *)
Theorem explicit_layout_untouched tiled spatial bounds ops :
  (exists o, In o ops /\ o_layout o <> None) -> rewrite_schedule tiled spatial bounds ops = None.
Proof.
  intros [o [Hin Hl]]. unfold rewrite_schedule.
  replace (existsb _ ops) with true; [reflexivity|]. symmetry. apply existsb_exists.
  exists o. split; [exact Hin|]. destruct (o_layout o); [reflexivity|contradiction].
Qed.

Theorem rewrite_schedule_all tiled spatial bounds ops :
  (forall o, In o ops -> o_layout o = None) ->
  rewrite_schedule tiled spatial bounds ops =
    Some (map (fun o => assign_layout tiled spatial (o_bw o) (mkSched bounds (o_rows o)) (o_shape o)) ops).
Proof.
  intros H. unfold rewrite_schedule.
  replace (existsb _ ops) with false; [reflexivity|]. symmetry. apply not_true_is_false. intros He.
  apply existsb_exists in He as [o [Hin Ho]]. rewrite (H o Hin) in Ho. discriminate.
Qed.
