(* C03, part 3: dropping unit dimensions (clear_unused_dims, canonicalize) keeps the image, in order. *)
From Snax Require Import Base.Prelude Base.ListAux Model.C03Schedule Proofs.C03ScheduleProofs.

Lemma Forall2_imp {A B} (R R' : A -> B -> Prop) l l' :
  (forall x y, R x y -> R' x y) -> Forall2 R l l' -> Forall2 R' l l'.
Proof. intros H. induction 1; constructor; auto. Qed.

Section Mask.
  Variable keep : Z -> bool.
  Hypothesis keep_one : forall b, 0 < b -> keep b = false -> b = 1.

  Lemma points_maskf bs : Forall (fun x => 0 < x) bs ->
    map (maskf keep bs) (points bs) = points (filter keep bs).
  Proof.
    induction 1 as [|b r Hb _ IH]; [reflexivity|].
    cbn [filter]. destruct (keep b) eqn:Ek.
    - rewrite !points_cons, map_flat_map. apply flat_map_ext_in. intros i _.
      rewrite <- IH, !map_map. apply map_ext. intros y. cbn [maskf]. rewrite Ek. reflexivity.
    - assert (b = 1) by (apply keep_one; assumption). subst b. rewrite points_one, map_map, <- IH. apply map_ext. intros y.
      cbn [maskf]. rewrite Ek. reflexivity.
  Qed.

  Lemma dotc_maskf i bs : Forall (fun x => 0 < x) bs -> forall cols x,
    In x (points bs) -> length cols = length bs ->
    dotc i (maskf keep bs cols) (maskf keep bs x) = dotc i cols x.
  Proof.
    induction 1 as [|b r Hb _ IH]; intros cols x Hx Hl.
    - destruct cols; [|discriminate]. destruct Hx as [<-|[]]. reflexivity.
    - destruct cols as [|c cols]; [discriminate|]. destruct x as [|v x]; [exfalso; eapply in_points_nil_cons; eauto|].
      apply in_points_cons in Hx as [Hv Hx]. cbn [maskf]. destruct (keep b) eqn:Ek; cbn [dotc].
      + rewrite IH by (auto; cbn in Hl; lia). reflexivity.
      + rewrite IH by (auto; cbn in Hl; lia). assert (b = 1) by (apply keep_one; assumption). subst b. assert (v = 0) by lia. subst v. lia.
  Qed.

  Lemma maskf_length {A} bs (l : list A) : length l = length bs -> length (maskf keep bs l) = length (filter keep bs).
  Proof.
    revert l; induction bs as [|b r IH]; intros [|x l] H; try discriminate; [reflexivity|].
    cbn [maskf filter]. destruct (keep b); cbn [length]; rewrite IH by (cbn in H; lia); reflexivity.
  Qed.

  (* a collection-level operation that masks every operand the same way *)
  Lemma masked_image (s s' : sched) :
    wf_sched s ->
    Forall2 (fun p p' => p' = mkPat (filter keep (sbounds s)) (maskf keep (sbounds s) (pcols p)) (pb p)) s s' ->
    image s' = image s /\ wf_sched s'.
  Proof.
    intros Hwf HF. destruct s as [|p0 s0]; [inversion HF; subst; split; [reflexivity|exact Hwf]|].
    apply wf_sched_cons in Hwf as [Hpos Hall]. cbn [sbounds] in HF. set (bs := pbounds p0) in *.
    apply (Forall2_and_l HF) in Hall. clear HF.
    assert (Hsb' : sbounds s' = filter keep bs).
    { inversion Hall as [|? ? ? ? [Hr _] _]; subst. reflexivity. }
    split.
    - apply image_reindex_eq with (g := maskf keep bs).
      + rewrite Hsb'. cbn [sbounds]. fold bs. apply points_maskf. exact Hpos.
      + cbn [sbounds]. fold bs. intros x Hx. apply tuple_at_Forall2 with (1 := Hall). intros p p' [-> [Hb Hl]].
        apply papply_ext; [reflexivity|]. intros i. cbn [pcols]. apply dotc_maskf; auto.
    - assert (Hpos' : Forall (fun x => 0 < x) (filter keep bs)).
      { apply Forall_forall. intros x Hx. apply filter_In in Hx as [Hx _]. rewrite Forall_forall in Hpos. auto. }
      apply (wf_sched_intro Hpos'). apply Forall2_Forall_r with (1 := Hall). intros p p' [-> [Hb Hl]].
      unfold wf_pat. cbn [pbounds pcols]. split; [reflexivity|]. apply maskf_length. exact Hl.
  Qed.
End Mask.

Lemma keepZ_one b : 0 < b -> keepZ b = false -> b = 1.
Proof. unfold keepZ. lia. Qed.
Lemma ne1Z_one b : 0 < b -> ne1Z b = false -> b = 1.
Proof. unfold ne1Z. lia. Qed.

(* ---- canonicalize ------------------------------------------------------------------- *)
Theorem canonicalize_image s s' : wf_sched s -> s_canon s = Some s' -> image s' = image s /\ wf_sched s'.
Proof.
  intros Hwf H. apply (masked_image keepZ keepZ_one s s' Hwf).
  unfold s_canon, c_canon in H. apply mapM_Forall2 in H.
  destruct Hwf as [_ Hall]. apply (Forall2_and_l H) in Hall. clear H.
  eapply Forall2_imp; [|exact Hall]. cbv beta. intros p p' [Hr [Hb Hl]].
  unfold p_canon in Hr. apply mk_ap_Some in Hr as [-> _]. rewrite Hb. reflexivity.
Qed.

(* ---- clear_unused_dims -------------------------------------------------------------- *)
Lemma select_used {A} (ne1 : Z -> bool) : forall bs (pre cols : list A), (length bs <= length cols)%nat ->
  mapM (nth_error (pre ++ cols)) (used_from ne1 (length pre) bs) = Some (maskf ne1 bs cols).
Proof.
  induction bs as [|b r IH]; intros pre cols Hl; [reflexivity|].
  destruct cols as [|c cs]; [cbn in Hl; lia|]. cbn [used_from maskf].
  assert (Hr : mapM (nth_error (pre ++ c :: cs)) (used_from ne1 (S (length pre)) r) = Some (maskf ne1 r cs)).
  { specialize (IH (pre ++ [c]) cs). rewrite <- app_assoc, app_length in IH. cbn [app length] in IH.
    rewrite Nat.add_1_r in IH. apply IH. cbn in Hl. lia. }
  destruct (ne1 b); [|exact Hr]. cbn [mapM]. rewrite Hr.
  rewrite nth_error_app2, Nat.sub_diag by lia. reflexivity.
Qed.

Theorem clear_unused_image s s' : wf_sched s -> s_clear None s = Some s' -> image s' = image s /\ wf_sched s'.
Proof.
  intros Hwf H. apply (masked_image ne1Z ne1Z_one s s' Hwf).
  unfold s_clear, c_clear in H. destruct s as [|p0 s0]; [discriminate|].
  apply mapM_Forall2 in H. destruct Hwf as [_ Hall]. cbn [sbounds] in *. apply (Forall2_and_l H) in Hall. clear H.
  eapply Forall2_imp; [|exact Hall]. cbv beta. intros p p' [Hr [Hb Hl]].
  pose proof (select_used ne1Z (pbounds p0) [] (pcols p)) as Hsel. cbn [app length] in Hsel.
  rewrite Hsel in Hr by lia. apply mk_sp_Some in Hr as [-> _]. reflexivity.
Qed.
