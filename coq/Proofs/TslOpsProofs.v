(* The run-time views (bound ops, step ops, subview pointer) agree with the layout function. *)
From Snax Require Import Base.Prelude Base.ListAux Model.Tsl Model.TslOps Proofs.TslProofs.
From Coq Require Import Znumtheory.

Definition sbound_of (s : stride) : Z := snd (static_of s).
Definition sstep_of (s : stride) : Z := fst (static_of s).

Lemma ok_sbound s : stride_ok s -> sbound s = Some (sbound_of s).
Proof. intros [a [b [-> _]]]. reflexivity. Qed.
Lemma ok_sstep s : stride_ok s -> sstep s = Some (sstep_of s).
Proof. intros [a [b [-> _]]]. reflexivity. Qed.

Lemma dim_bound_vals_static t n : tstride_ok t -> dim_bound_vals t n = Some (map sbound_of t).
Proof.
  intros Ht. destruct t as [|s0 rest]; [reflexivity|]. inversion Ht as [|? ? H0 Hr]; subst.
  unfold dim_bound_vals. rewrite (ok_sbound s0 H0).
  assert (E : forallb (fun s => match sbound s with Some _ => true | None => false end) rest = true).
  { apply forallb_forall. intros s Hs. rewrite Forall_forall in Hr. rewrite (ok_sbound s (Hr s Hs)). reflexivity. }
  rewrite E. cbn [map]. f_equal. f_equal. apply map_ext_in. intros s Hs.
  rewrite Forall_forall in Hr. rewrite (ok_sbound s (Hr s Hs)). reflexivity.
Qed.

Theorem bound_vals_static ts : Forall tstride_ok ts -> forall shape, length shape = length ts ->
  bound_vals ts shape = Some (map (map sbound_of) ts).
Proof.
  induction 1 as [|t ts Ht Hts IH]; intros shape Hlen; [reflexivity|].
  destruct shape as [|n shape]; [discriminate|]. cbn [bound_vals map].
  rewrite (dim_bound_vals_static t n Ht), (IH shape) by (cbn in Hlen; lia). reflexivity.
Qed.

(* a dynamic outermost bound is recovered exactly when the run-time size is a multiple of the inner tile *)
Theorem dim_bound_vals_dynamic st rest b0 : tstride_ok rest -> 0 <= b0 ->
  dim_bound_vals ((st, None) :: rest) (b0 * bounds_prod rest) = Some (b0 :: map sbound_of rest).
Proof.
  intros Hr Hb. pose proof (bounds_prod_pos rest Hr) as Hp. unfold tstride_ok in Hr. unfold dim_bound_vals. cbn [sbound snd].
  assert (E : forallb (fun s => match sbound s with Some _ => true | None => false end) rest = true).
  { apply forallb_forall. intros s Hs. rewrite Forall_forall in Hr. rewrite (ok_sbound s (Hr s Hs)). reflexivity. }
  rewrite E. rewrite bounds_prod_cons. unfold tbound at 1. cbn [sbound snd].
  rewrite Z.mul_1_l, Z.div_mul by lia.
  f_equal. f_equal. apply map_ext_in. intros s Hs.
  rewrite Forall_forall in Hr. rewrite (ok_sbound s (Hr s Hs)). reflexivity.
Qed.

Lemma map_fst_combine_le {A B} (l1 : list A) : forall (l2 : list B),
  (length l1 <= length l2)%nat -> map fst (combine l1 l2) = l1.
Proof.
  induction l1 as [|x xs IH]; intros [|y ys] H; cbn in *; try reflexivity; try lia.
  rewrite IH by lia. reflexivity.
Qed.

Lemma step_scan_static el (sbs : list (stride * Z)) dyn :
  Forall (fun sb => stride_ok (fst sb)) sbs ->
  fold_right (step_scan el) (dyn, []) sbs = (dyn, map (fun sb => sstep_of (fst sb) * el) sbs).
Proof.
  induction 1 as [|sb sbs Hs Hr IH]; [reflexivity|]. cbn [fold_right map]. rewrite IH.
  unfold step_scan. rewrite (ok_sstep _ Hs). reflexivity.
Qed.

Theorem step_vals_static l bv el : layout_ok l -> length (concat bv) = length (all_strides l) ->
  step_vals l bv el = map (fun s => sstep_of s * el) (all_strides l).
Proof.
  intros Hok Hlen. unfold step_vals. destruct (max_static_step (all_strides l)) as [mk mv].
  rewrite step_scan_static.
  - cbn [snd]. rewrite <- (map_map fst (fun s => sstep_of s * el)).
    rewrite (map_fst_combine_le (all_strides l) (concat bv)) by lia. reflexivity.
  - apply Forall_forall. intros [s b] Hin. apply in_combine_l in Hin. cbn [fst].
    unfold all_strides in Hin. apply in_concat in Hin as [t [Ht Hs]].
    unfold layout_ok in Hok. rewrite Forall_forall in Hok. specialize (Hok t Ht).
    unfold tstride_ok in Hok. rewrite Forall_forall in Hok. apply Hok, Hs.
Qed.

(* ---- subview pointer ---------------------------------------------------------------------------- *)
Lemma inner_addr_0 t : inner_addr t 0 = 0.
Proof.
  induction t as [|s r IH]; [reflexivity|]. cbn [inner_addr]. rewrite IH, Zmod_0_l, Zdiv_0_l. lia.
Qed.

Theorem subview_contrib_addr t el off : tstride_ok t ->
  (bounds_prod (tl t) | off) -> subview_contrib t el off = dim_addr t off * el.
Proof.
  intros Ht Hdiv. destruct t as [|s0 rest]; [reflexivity|]. inversion Ht as [|? ? H0 Hr]; subst.
  cbn [tl] in Hdiv. cbn [subview_contrib dim_addr].
  pose proof (bounds_prod_pos rest Hr) as Hp.
  rewrite <- (inner_addr_mod rest Hr (bounds_prod rest) off Hp (Z.divide_refl _)).
  destruct Hdiv as [k ->]. rewrite Z.mod_mul by lia. rewrite inner_addr_0. lia.
Qed.

(* without tile alignment the pointer misses the inner-tile part of the offset *)
Theorem subview_contrib_refuted_unaligned :
  exists t el off, tstride_ok t /\ 0 <= off < bounds_prod t /\ subview_contrib t el off <> dim_addr t off * el.
Proof.
  exists [(Some 128, Some 2); (Some 8, Some 8)], 1, 3. split.
  - repeat constructor; eexists; eexists; (split; [reflexivity|lia]).
  - split; [vm_compute; split; congruence|]. vm_compute. discriminate.
Qed.

Lemma length_concat_map_map {A B} (f : A -> B) (ts : list (list A)) :
  length (concat (map (map f) ts)) = length (concat ts).
Proof.
  induction ts as [|t ts IH]; [reflexivity|]. cbn [map concat]. rewrite !app_length, map_length, IH. reflexivity.
Qed.

Theorem bound_step_ops_static l shape el : layout_ok l -> length shape = length (tstrides l) ->
  bound_vals (tstrides l) shape = Some (map (map sbound_of) (tstrides l)) /\
  step_vals l (map (map sbound_of) (tstrides l)) el = map (fun s => sstep_of s * el) (all_strides l).
Proof.
  intros Hok Hlen. split; [exact (bound_vals_static (tstrides l) Hok shape Hlen)|].
  apply step_vals_static; [exact Hok|]. unfold all_strides. apply length_concat_map_map.
Qed.
