(* C12 (i) — transpose_tuple and transform_constant put every element where the new layout
   prescribes. *)
From Coq Require Import Permutation.
From Snax Require Import Base.Prelude Base.ListAux Model.Tsl Model.C05Copy Model.C12Const
  Proofs.TslProofs Proofs.C05MemProofs Proofs.C05DigitProofs Proofs.C05CopyProofs Proofs.C05MainProofs
  Proofs.C05ExtraProofs.

(* ---- generic ------------------------------------------------------------------------------- *)
Lemma nth_map_zrange {A} (f : Z -> A) n x d : 0 <= x < n ->
  nth (Z.to_nat x) (map f (zrange n)) d = f x.
Proof.
  intros H. unfold zrange. rewrite map_map.
  rewrite (nth_indep _ d (f (Z.of_nat 0))) by (rewrite map_length, seq_length; lia).
  rewrite (map_nth (fun k => f (Z.of_nat k)) (seq 0 (Z.to_nat n)) 0%nat).
  rewrite seq_nth by lia. f_equal. lia.
Qed.

(* ---- transpose_tuple ---------------------------------------------------------------------- *)
Lemma nth_flat_map_rows {A} (g : Z -> Z -> A) rows cols i j d :
  0 <= i < rows -> 0 <= j < cols ->
  nth (Z.to_nat (i * cols + j)) (flat_map (fun i' => map (g i') (zrange cols)) (zrange rows)) d = g i j.
Proof.
  intros Hi Hj.
  assert (G : forall n, 0 <= n -> forall i, 0 <= i < n ->
            nth (Z.to_nat (i * cols + j)) (flat_map (fun i' => map (g i') (zrange cols)) (zrange n)) d = g i j).
  { intros n Hn. pattern n. apply natlike_ind; [intros; lia| |exact Hn].
    intros x Hx IH i' Hi'. unfold Z.succ. rewrite zrange_succ by lia. rewrite flat_map_app.
    assert (Hlen : length (flat_map (fun i'0 => map (g i'0) (zrange cols)) (zrange x)) = Z.to_nat (x * cols)).
    { clear IH Hi'. pattern x. apply natlike_ind; [reflexivity| |exact Hx].
      intros y Hy IHy. unfold Z.succ. rewrite zrange_succ by lia. rewrite flat_map_app, app_length, IHy.
      cbn [flat_map]. rewrite app_nil_r, map_length, zrange_length. nia. }
    destruct (Z.eq_dec i' x) as [->|Hne].
    - rewrite app_nth2 by (rewrite Hlen; nia). rewrite Hlen. cbn [flat_map]. rewrite app_nil_r.
      replace (Z.to_nat (x * cols + j) - Z.to_nat (x * cols))%nat with (Z.to_nat j) by nia.
      apply nth_map_zrange. exact Hj.
    - rewrite app_nth1 by (rewrite Hlen; nia). apply IH. lia. }
  apply (G rows); lia.
Qed.

(* out[i][j] (shape rows x cols) = in[j][i] (shape cols x rows), both row-major *)
Theorem transpose_tuple_correct arr cols rows i j :
  0 <= i < rows -> 0 <= j < cols ->
  nth (Z.to_nat (i * cols + j)) (transpose_tuple arr cols rows) 0 = nth (Z.to_nat (j * rows + i)) arr 0.
Proof.
  intros Hi Hj. unfold transpose_tuple.
  rewrite (nth_flat_map_rows (fun i j => nth (Z.to_nat (i + j * rows)) arr 0) rows cols i j 0 Hi Hj).
  f_equal. lia.
Qed.

(* ---- mixed radix ----------------------------------------------------------------------------- *)
Fixpoint mr_val (bs ds : list Z) : Z :=
  match bs, ds with
  | b :: bs', d :: ds' => d * zprod bs' + mr_val bs' ds'
  | _, _ => 0
  end.
Definition dvalid (ds bs : list Z) : Prop := Forall2 (fun d b => 0 <= d < b) ds bs.

Lemma zprod_cons b bs : zprod (b :: bs) = b * zprod bs.
Proof. reflexivity. Qed.

Lemma mr_val_range bs : forall ds, dvalid ds bs -> 0 <= mr_val bs ds < zprod bs.
Proof.
  induction bs as [|b bs IH]; intros ds H; inversion H as [|d b' ds' bs' Hd H']; subst.
  - cbn. lia.
  - specialize (IH ds' H'). cbn [mr_val]. rewrite zprod_cons. nia.
Qed.

Lemma mr_digits_add_mul bs : Forall (fun b => 0 < b) bs -> forall m x,
  mr_digits bs (m * zprod bs + x) = mr_digits bs x.
Proof.
  induction 1 as [|b bs Hb Hbs IH]; intros m x; [reflexivity|].
  pose proof (zprod_pos bs Hbs) as Hp. cbn [mr_digits]. rewrite zprod_cons. f_equal.
  - replace (m * (b * zprod bs) + x) with (x + (m * b) * zprod bs) by ring.
    rewrite Z.div_add by lia. rewrite Z.mod_add by lia. reflexivity.
  - replace (m * (b * zprod bs) + x) with ((m * b) * zprod bs + x) by ring. apply IH.
Qed.

Lemma mr_digits_mr_val bs : Forall (fun b => 0 < b) bs -> forall ds, dvalid ds bs ->
  mr_digits bs (mr_val bs ds) = ds.
Proof.
  induction 1 as [|b bs Hb Hbs IH]; intros ds H; inversion H as [|d b' ds' bs' Hd H']; subst; [reflexivity|].
  pose proof (zprod_pos bs Hbs) as Hp. pose proof (mr_val_range bs ds' H') as Hr.
  cbn [mr_digits mr_val]. f_equal.
  - replace ((d * zprod bs + mr_val bs ds') / zprod bs) with d
      by (apply (Z.div_unique_pos (d * zprod bs + mr_val bs ds') (zprod bs) d (mr_val bs ds')); lia).
    apply Z.mod_small. exact Hd.
  - rewrite mr_digits_add_mul by exact Hbs. apply IH. exact H'.
Qed.

(* ---- axes: a permutation of the flat strides ------------------------------------------------ *)
Lemma insert_asc_perm x l : Permutation (x :: l) (insert_asc x l).
Proof.
  induction l as [|y l IH]; cbn [insert_asc]; [apply Permutation_refl|].
  destruct (f_step x <=? f_step y); [apply Permutation_refl|].
  apply Permutation_trans with (y :: x :: l); [apply perm_swap|]. constructor. exact IH.
Qed.

Lemma axes_perm l : Permutation (with_rm l) (axes l).
Proof.
  unfold axes. apply Permutation_trans with (sort_asc (with_rm l)); [|apply Permutation_rev].
  generalize (with_rm l). intros w. induction w as [|x w IH]; [constructor|].
  cbn [sort_asc fold_right]. apply Permutation_trans with (x :: sort_asc w); [constructor; exact IH|apply insert_asc_perm].
Qed.

Definition ftri (f : fstride) : tri := (f_bound f, f_step f, f_rm f).

Lemma valid_dvalid ds ax : valid ds (map ftri ax) <-> dvalid ds (map f_bound ax).
Proof.
  unfold valid, dvalid. revert ds. induction ax as [|a ax IH]; intros ds; cbn [map].
  - split; intros H; inversion H; constructor.
  - split; intros H; inversion H; subst; constructor; try assumption; apply IH; assumption.
Qed.

Lemma sorted_dotS ax : forall ds, mr_sorted ax = true -> valid ds (map ftri ax) ->
  dotS (map ftri ax) ds = mr_val (map f_bound ax) ds.
Proof.
  induction ax as [|a ax IH]; intros ds Hs Hv; inversion Hv as [|d e ds' L Hd Hv']; subst; [reflexivity|].
  cbn [mr_sorted] in Hs. apply andb_true_iff in Hs as [Ha Hs]. cbn [map dotS mr_val].
  rewrite (IH ds' Hs Hv'). unfold ftri at 1. unfold tsrc. cbn [fst snd].
  unfold ftri, tb in Hd. cbn [fst] in Hd.
  apply orb_true_iff in Ha as [Ha|Ha].
  - assert (d = 0) by lia. subst. lia.
  - assert (f_step a = zprod (map f_bound ax)) by lia. rewrite H. reflexivity.
Qed.

Lemma zdot_dotT ax ds : zdot ds (map f_rm ax) = dotT (map ftri ax) ds.
Proof.
  revert ds. induction ax as [|a ax IH]; intros [|d ds]; cbn [map zdot dotT]; try reflexivity.
  rewrite IH. reflexivity.
Qed.

Lemma bprod_ftri ax : bprod (map ftri ax) = zprod (map f_bound ax).
Proof. unfold bprod. rewrite map_map. reflexivity. Qed.

Lemma map_f_bound_with_rm l : map f_bound (with_rm l) = map snd l.
Proof. induction l as [|sb l IH]; [reflexivity|]. cbn [with_rm map]. rewrite IH. reflexivity. Qed.

(* Every element of the array reshaped to the tile bounds lands at the address the layout assigns:
   for every multi-index ds over the flat strides,
   new[ sum ds_i * step_i ] = old.reshape(bounds)[ds] = old[ sum ds_i * rm_i ]. *)
Theorem relayout_correct (l : list (Z * Z)) (old : list Z) (ds : list Z) :
  Forall (fun sb => 0 < snd sb) l -> mr_sorted (axes l) = true ->
  valid ds (map ftri (with_rm l)) ->
  nth (Z.to_nat (dotS (map ftri (with_rm l)) ds)) (relayout l old) 0 =
  nth (Z.to_nat (dotT (map ftri (with_rm l)) ds)) old 0.
Proof.
  intros Hpos Hs Hv.
  pose proof (Permutation_map ftri (axes_perm l)) as HP.
  destruct (perm_digits _ _ HP ds Hv) as [ds' [Hv' [ES ET]]].
  assert (Hbpos : Forall (fun b => 0 < b) (map f_bound (axes l))).
  { apply Forall_forall. intros b Hb. apply in_map_iff in Hb as [a [<- Ha]].
    apply (Permutation_in _ (Permutation_sym (axes_perm l))) in Ha.
    assert (Hin : In (f_bound a) (map f_bound (with_rm l))) by (apply in_map; exact Ha).
    rewrite map_f_bound_with_rm in Hin. apply in_map_iff in Hin as [sb [<- Hsb]].
    apply (proj1 (Forall_forall _ _) Hpos sb Hsb). }
  assert (Hdv : dvalid ds' (map f_bound (axes l))) by (apply valid_dvalid; exact Hv').
  pose proof (mr_val_range _ _ Hdv) as Hr.
  assert (Hn : zprod (map f_bound (axes l)) = zprod (map snd l)).
  { rewrite <- bprod_ftri, <- (bprod_perm _ _ HP), bprod_ftri, map_f_bound_with_rm. reflexivity. }
  rewrite <- ES, (sorted_dotS _ _ Hs Hv'). unfold relayout.
  rewrite nth_map_zrange by (rewrite <- Hn; exact Hr).
  unfold old_index. rewrite (mr_digits_mr_val _ Hbpos _ Hdv), zdot_dotT, ET. reflexivity.
Qed.

(* ---- layout level ---------------------------------------------------------------------------- *)
Lemma valid_same_tb L1 L2 ds : map tb L1 = map tb L2 -> valid ds L1 -> valid ds L2.
Proof.
  revert L2 ds. induction L1 as [|e L1 IH]; intros [|e' L2] ds H Hv; try discriminate.
  - inversion Hv; constructor.
  - cbn [map] in H. inversion H as [[H1 H2]]. inversion Hv; subst. constructor; [rewrite <- H1; assumption|].
    apply IH; assumption.
Qed.

Lemma dotS_same_tsrc L1 : forall L2 ds, map tsrc L1 = map tsrc L2 -> dotS L1 ds = dotS L2 ds.
Proof.
  induction L1 as [|e L1 IH]; intros [|e' L2] ds H; try discriminate; [reflexivity|].
  cbn [map] in H. inversion H as [[H1 H2]]. destruct ds as [|d ds]; [reflexivity|]. cbn [dotS].
  rewrite H1, (IH L2 ds H2). reflexivity.
Qed.

Lemma flat_tris ss : Forall stride_ok ss ->
  map tb (map tri_of (combine ss ss)) = map tb (map ftri (with_rm (map static_of ss))) /\
  map tsrc (map tri_of (combine ss ss)) = map tsrc (map ftri (with_rm (map static_of ss))).
Proof.
  induction 1 as [|s ss Hs Hss [IH1 IH2]]; [split; reflexivity|].
  destruct Hs as [a [b [-> Hb]]]. cbn [combine map with_rm static_of fst snd].
  rewrite IH1, IH2. split; reflexivity.
Qed.

(* address side: new[addr_L idx] = old.reshape(tile bounds)[digits idx] *)
Theorem transform_constant_correct (L : layout) (old new : list Z) (idx : list Z) :
  layout_ok L -> mixed_radix_sorted L = true -> transform_constant old L = Some (Some new) ->
  In idx (row_major (shape_of L)) ->
  nth (Z.to_nat (affine_map_eval L idx)) new 0 =
  nth (Z.to_nat (dotT (map ftri (with_rm (flat_static L))) (digits (tstrides L) idx))) old 0.
Proof.
  intros Hok Hmr Htc Hidx. unfold transform_constant in Htc.
  destruct (is_dynamic L); [discriminate|]. destruct (is_dense L); [|discriminate]. inversion Htc; subst new.
  unfold mixed_radix_sorted in Hmr. apply andb_true_iff in Hmr as [Hmr Hs]. apply andb_true_iff in Hmr as [_ Hpos].
  apply in_row_major in Hidx.
  destruct (digits_spec (tstrides L) (tstrides L) idx Hok Hok eq_refl Hidx) as [Hv [ES _]].
  assert (Hall : Forall stride_ok (concat (tstrides L))).
  { apply Forall_forall. intros s Hs'. apply in_concat in Hs' as [t [Ht Hs']].
    apply (proj1 (Forall_forall _ _) (proj1 (Forall_forall _ _) Hok t Ht) s Hs'). }
  destruct (flat_tris _ Hall) as [Htb Hts]. unfold flatE in Hv, ES.
  unfold affine_map_eval. rewrite <- ES. unfold flat_static, all_strides in *.
  rewrite (dotS_same_tsrc _ _ _ Hts).
  apply relayout_correct.
  - apply Forall_forall. intros sb Hsb. rewrite forallb_forall in Hpos. specialize (Hpos sb Hsb). lia.
  - exact Hs.
  - apply (valid_same_tb _ _ _ Htb Hv).
Qed.

(* ---- the index of the reshaped array is the row-major index ------------------------------------ *)
Definition fscale (c : Z) (f : fstride) : fstride := (f_step f, f_bound f, f_rm f * c).

Lemma with_rm_app l1 l2 :
  with_rm (l1 ++ l2) = map (fscale (zprod (map snd l2))) (with_rm l1) ++ with_rm l2.
Proof.
  induction l1 as [|sb l1 IH]; [reflexivity|]. cbn [app with_rm map]. rewrite IH. f_equal.
  unfold fscale, f_step, f_bound, f_rm. cbn [fst snd]. rewrite map_app, zprod_app. reflexivity.
Qed.

Lemma dotT_fscale c W : forall ds, dotT (map ftri (map (fscale c) W)) ds = c * dotT (map ftri W) ds.
Proof.
  induction W as [|w W IH]; intros [|d ds]; cbn [map dotT]; try ring. rewrite IH.
  unfold ftri, fscale, tdst, f_rm. cbn [fst snd]. ring.
Qed.

Lemma zprod_bounds_static t : tstride_ok t -> zprod (map snd (map static_of t)) = bounds_prod t.
Proof.
  induction 1 as [|s t Hs Ht IH]; [reflexivity|]. destruct Hs as [a [b [-> Hb]]].
  cbn [map static_of snd]. rewrite zprod_cons, IH, bounds_prod_cons. unfold tbound. cbn [sbound snd].
  replace (b =? 0) with false by lia. reflexivity.
Qed.

Lemma length_with_rm l : length (with_rm l) = length l.
Proof. induction l as [|sb l IH]; [reflexivity|]. cbn [with_rm length]. rewrite IH. reflexivity. Qed.

Lemma length_tdigits t x : length (tdigits t x) = length t.
Proof. induction t as [|s t IH]; [reflexivity|]. cbn [tdigits length]. rewrite IH. reflexivity. Qed.

(* one dimension: the tile digits of x recombine to x *)
Lemma tdigits_recombine t : tstride_ok t -> forall x, 0 <= x < bounds_prod t ->
  dotT (map ftri (with_rm (map static_of t))) (tdigits t x) = x.
Proof.
  induction 1 as [|s t Hs Ht IH]; intros x Hx.
  - unfold bounds_prod, zprod in Hx. cbn in Hx. cbn. lia.
  - pose proof (bounds_prod_pos t Ht) as Hp.
    assert (Hst : tstride_ok (s :: t)) by (constructor; assumption).
    destruct Hs as [a [b [-> Hb]]].
    rewrite bounds_prod_cons in Hx. unfold tbound in Hx. cbn [sbound snd] in Hx.
    replace (b =? 0) with false in Hx by lia.
    cbn [map with_rm tdigits dotT static_of fst snd].
    rewrite (zprod_bounds_static t Ht). rewrite bounds_prod_cons. unfold tbound at 1. cbn [sbound snd].
    replace (b =? 0) with false by lia.
    unfold ftri at 1. unfold tdst, f_rm. cbn [fst snd].
    rewrite (Z.mod_small x (b * bounds_prod t)) by lia.
    rewrite <- (tdigits_mod t Ht (bounds_prod t) x Hp) by (exists 1; lia).
    rewrite (IH (x mod bounds_prod t)) by (apply Z.mod_pos_bound; exact Hp).
    pose proof (Z.div_mod x (bounds_prod t)) as Hdm. lia.
Qed.

Theorem digits_row_major ts : Forall tstride_ok ts -> forall idx, in_box idx (map bounds_prod ts) ->
  dotT (map ftri (with_rm (map static_of (concat ts)))) (digits ts idx) = rm_addr (map bounds_prod ts) idx.
Proof.
  induction 1 as [|t ts Ht Hts IH]; intros idx Hbox; inversion Hbox as [|x n idx' sh Hx Hbox']; subst.
  - reflexivity.
  - cbn [concat digits map]. rewrite map_app, with_rm_app, map_app.
    rewrite dotT_app by (rewrite !map_length, length_with_rm, map_length, length_tdigits; reflexivity).
    rewrite dotT_fscale, (tdigits_recombine t Ht x Hx), (IH idx' Hbox').
    unfold rm_addr. cbn [row_major_strides C05Copy.dot].
    assert (Hz : zprod (map snd (map static_of (concat ts))) = zprod (map bounds_prod ts)).
    { clear -Hts. induction Hts as [|t' ts' Ht' Hts' IH']; [reflexivity|].
      cbn [concat map]. rewrite !map_app, zprod_app, zprod_cons.
      f_equal; [apply zprod_bounds_static; exact Ht'|exact IH']. }
    rewrite Hz. ring.
Qed.

(* transform_constant, final form: the element at row-major position idx of the original constant is found
   at the address the new layout assigns to idx *)
Theorem transform_constant_row_major (L : layout) (old new : list Z) (idx : list Z) :
  layout_ok L -> mixed_radix_sorted L = true -> transform_constant old L = Some (Some new) ->
  In idx (row_major (shape_of L)) ->
  nth (Z.to_nat (affine_map_eval L idx)) new 0 = nth (Z.to_nat (rm_addr (shape_of L) idx)) old 0.
Proof.
  intros Hok Hmr Htc Hidx. rewrite (transform_constant_correct L old new idx Hok Hmr Htc Hidx).
  unfold flat_static, all_strides, shape_of. rewrite (digits_row_major (tstrides L) Hok idx); [reflexivity|].
  apply in_row_major. exact Hidx.
Qed.
