(* C19 (d) — AffineTransform: the matrix form and the affine-map form denote the same function;
   compose is function composition; access-pattern canonicalize / inner_dims keep the evaluation. *)
From Snax Require Import Base.Prelude Base.ListAux Model.XdslAffine Proofs.XdslAffineProofs Model.C19Transform.

(* ---- vectors --------------------------------------------------------------------------------- *)
Lemma dot_nil_l x : dot [] x = 0.
Proof. reflexivity. Qed.

Lemma dot_cons a r b x : dot (a :: r) (b :: x) = a * b + dot r x.
Proof. reflexivity. Qed.

Lemma dot_nil_r r : dot r [] = 0.
Proof. destruct r; reflexivity. Qed.

Lemma dot_vadd_l r1 : forall r2 x, length r1 = length r2 -> dot (vadd r1 r2) x = dot r1 x + dot r2 x.
Proof.
  induction r1 as [|a r1 IH]; intros [|b r2] x H; simpl in H; try discriminate; [reflexivity|].
  destruct x as [|v x]; [rewrite !dot_nil_r; reflexivity|].
  change (vadd (a :: r1) (b :: r2)) with ((a + b) :: vadd r1 r2). rewrite !dot_cons, IH by lia. lia.
Qed.

Lemma dot_vscale_l c r : forall x, dot (vscale c r) x = c * dot r x.
Proof.
  induction r as [|a r IH]; intros x; [cbn; lia|].
  destruct x as [|v x]; [rewrite !dot_nil_r; lia|].
  change (vscale c (a :: r)) with ((c * a) :: vscale c r). rewrite !dot_cons, IH. lia.
Qed.

Lemma dot_vzero n x : dot (vzero n) x = 0.
Proof.
  revert x. induction n as [|n IH]; intros x; [reflexivity|].
  destruct x as [|v x]; [reflexivity|]. change (vzero (S n)) with (0 :: vzero n). rewrite dot_cons, IH. lia.
Qed.

Lemma vadd_length a : forall b, length a = length b -> length (vadd a b) = length a.
Proof. intros b H. unfold vadd. rewrite map_length, combine_length. lia. Qed.

Lemma vscale_length c a : length (vscale c a) = length a.
Proof. apply map_length. Qed.

Lemma vzero_length n : length (vzero n) = n.
Proof. apply repeat_length. Qed.

(* ---- compose --------------------------------------------------------------------------------- *)
Definition rows_len (A : mat) (n : nat) : Prop := Forall (fun r => length r = n) A.

Lemma row_mat_length row : forall B m, rows_len B m -> length (row_mat row B m) = m.
Proof.
  unfold row_mat. induction row as [|a row IH]; intros B m HB; [apply vzero_length|].
  destruct B as [|rb B]; [apply vzero_length|]. inversion HB; subst.
  cbn [combine map fold_right fst snd]. rewrite vadd_length; rewrite ?vscale_length; [reflexivity|].
  symmetry. apply IH. assumption.
Qed.

(* (row . B) . x = row . (B x) *)
Lemma row_mat_dot row : forall B m x, rows_len B m ->
  dot (row_mat row B m) x = dot row (mat_vec B x).
Proof.
  unfold row_mat. induction row as [|a row IH]; intros B m x HB.
  - cbn [combine map fold_right]. apply dot_vzero.
  - destruct B as [|rb B]; [cbn [combine map fold_right mat_vec]; rewrite dot_vzero, dot_nil_r; reflexivity|]. inversion HB; subst.
    cbn [combine map fold_right fst snd mat_vec]. rewrite dot_vadd_l.
    + rewrite dot_vscale_l, dot_cons. rewrite (IH B (length rb) x) by assumption. reflexivity.
    + rewrite vscale_length. symmetry. apply (row_mat_length row B (length rb)). assumption.
Qed.

Lemma mat_mul_vec A B m x : rows_len B m -> mat_vec (mat_mul A B m) x = mat_vec A (mat_vec B x).
Proof.
  intros HB. unfold mat_mul, mat_vec at 1 2. rewrite map_map. apply map_ext. intros row. apply row_mat_dot. exact HB.
Qed.

Lemma mat_vec_vadd A : forall u v, length u = length v -> rows_len A (length u) ->
  mat_vec A (vadd u v) = vadd (mat_vec A u) (mat_vec A v).
Proof.
  intros u v Huv HA. unfold mat_vec, vadd at 2. induction A as [|r A IH]; [reflexivity|].
  inversion HA as [|? ? Hr HA']; subst. cbn [map combine fst snd]. rewrite IH by assumption. f_equal.
  clear -Hr Huv. revert u v Hr Huv. induction r as [|a r IH]; intros u v Hr Huv; [reflexivity|].
  destruct u as [|x u]; [discriminate|]. destruct v as [|y v]; [discriminate|].
  change (vadd (x :: u) (y :: v)) with ((x + y) :: vadd u v). rewrite !dot_cons, IH by (simpl in *; lia). lia.
Qed.

Lemma vadd_assoc a : forall b c, vadd (vadd a b) c = vadd a (vadd b c).
Proof.
  induction a as [|x a IH]; intros [|y b] [|z c]; try reflexivity.
  change (vadd (vadd (x :: a) (y :: b)) (z :: c)) with ((x + y + z) :: vadd (vadd a b) c).
  change (vadd (x :: a) (vadd (y :: b) (z :: c))) with ((x + (y + z)) :: vadd a (vadd b c)).
  rewrite IH. f_equal. lia.
Qed.

Lemma mat_vec_length A x : length (mat_vec A x) = length A.
Proof. apply map_length. Qed.

(* compose(s, o).eval(x) = s.eval(o.eval(x)) *)
Theorem compose_eval s o c x y :
  wf_atrans s = true -> wf_atrans o = true ->
  at_compose s o = Some c -> at_eval o x = Some y ->
  at_eval c x = at_eval s y.
Proof.
  unfold wf_atrans, at_compose, at_eval. intros Hs Ho Hc Hy.
  apply andb_true_iff in Hs as [Hs1 Hs2]. apply andb_true_iff in Ho as [Ho1 Ho2].
  apply Nat.eqb_eq in Hs1, Ho1.
  destruct (tn s =? length (tA o))%nat eqn:En; [|discriminate]. apply Nat.eqb_eq in En.
  injection Hc as <-. cbn [tn tA tb].
  destruct (length x =? tn o)%nat eqn:Ex; [|discriminate]. injection Hy as <-.
  assert (HoR : rows_len (tA o) (tn o)).
  { apply Forall_forall. intros r Hr. rewrite forallb_forall in Ho2. apply Nat.eqb_eq. apply Ho2. exact Hr. }
  assert (HsR : rows_len (tA s) (tn s)).
  { apply Forall_forall. intros r Hr. rewrite forallb_forall in Hs2. apply Nat.eqb_eq. apply Hs2. exact Hr. }
  assert (Hl : length (vadd (mat_vec (tA o) x) (tb o)) = tn s).
  { rewrite vadd_length; rewrite mat_vec_length; lia. }
  rewrite Hl, Nat.eqb_refl. f_equal.
  rewrite mat_mul_vec by exact HoR.
  rewrite mat_vec_vadd.
  - rewrite vadd_assoc. reflexivity.
  - rewrite mat_vec_length. lia.
  - rewrite mat_vec_length. rewrite <- En. exact HsR.
Qed.

Theorem eval_batch_is_map t xs ys :
  at_eval_batch t xs = Some ys -> Forall2 (fun x y => at_eval t x = Some y) xs ys.
Proof.
  unfold at_eval_batch. destruct (forallb (fun x => (length x =? tn t)%nat) xs) eqn:E; [|discriminate]. intros H. injection H as <-.
  rewrite forallb_forall in E. induction xs as [|x xs IH]; cbn [map]; constructor.
  - unfold at_eval. rewrite (E x (or_introl eq_refl)). reflexivity.
  - apply IH. intros z Hz. apply E. right. exact Hz.
Qed.

(* ---- to_affine_map --------------------------------------------------------------------------- *)
Lemma env_nth x k : env x (Z.of_nat k) = nth k x 0.
Proof. unfold env. destruct (Z.of_nat k <? 0) eqn:E; [lia|]. rewrite Nat2Z.id. reflexivity. Qed.

Lemma skipn_nil_len {A} k (l : list A) : skipn k l = [] -> (length l <= k)%nat.
Proof. intros H. pose proof (skipn_length k l) as L. rewrite H in L. simpl in L. lia. Qed.

Lemma to_map_row_fold sv x : forall row k acc,
  eval (env x) sv (fold_left (fun expr p => if snd p =? 0 then expr else xadd expr (mulc (EDim (Z.of_nat (fst p))) (snd p)))
                             (combine (seq k (length row)) row) acc)
  = eval (env x) sv acc + dot row (skipn k x).
Proof.
  induction row as [|a row IH]; intros k acc; cbn [length seq combine fold_left].
  - rewrite dot_nil_l. lia.
  - rewrite IH. cbn [fst snd].
    assert (Hstep : eval (env x) sv (if a =? 0 then acc else xadd acc (mulc (EDim (Z.of_nat k)) a))
                    = eval (env x) sv acc + a * nth k x 0).
    { destruct (a =? 0) eqn:Ea; [lia|]. rewrite xadd_eval, mulc_eval. cbn [eval]. rewrite env_nth. lia. }
    rewrite Hstep. clear Hstep IH.
    destruct (skipn k x) as [|v rest] eqn:Es.
    + rewrite dot_nil_r. assert (Hn : nth k x 0 = 0).
      { apply nth_overflow. apply skipn_nil_len. exact Es. }
      rewrite Hn. replace (skipn (S k) x) with (@nil Z); [rewrite dot_nil_r; lia|].
      symmetry. apply skipn_all2. apply skipn_nil_len in Es. lia.
    + rewrite dot_cons.
      assert (Hn : nth k x 0 = v /\ skipn (S k) x = rest).
      { clear -Es. revert x Es. induction k as [|k IHk]; intros x Es.
        - destruct x; [discriminate|]. cbn in Es. injection Es as -> ->. split; reflexivity.
        - destruct x as [|w x]; [discriminate|]. cbn [skipn] in Es. destruct (IHk x Es) as [H1 H2]. split; assumption. }
      destruct Hn as [-> ->]. lia.
Qed.

Lemma to_map_row_eval sv x b row : eval (env x) sv (to_map_row b row) = dot row x + b.
Proof. unfold to_map_row. rewrite to_map_row_fold. cbn [eval skipn]. lia. Qed.

(* the affine map built from (A, b) evaluates to A x + b at every point *)
Theorem to_map_eval t x y sv :
  wf_atrans t = true -> at_eval t x = Some y -> map_eval (env x) sv (to_affine_map t) = y.
Proof.
  unfold wf_atrans, at_eval, to_affine_map, map_eval. intros Hw H. cbn [results].
  apply andb_true_iff in Hw as [Hl _]. apply Nat.eqb_eq in Hl.
  destruct (length x =? tn t)%nat; [|discriminate]. injection H as <-.
  rewrite map_map. unfold vadd, mat_vec. generalize dependent (tb t). induction (tA t) as [|r A IH]; intros b Hl.
  - reflexivity.
  - destruct b as [|b0 b]; [discriminate|]. cbn [combine map fst snd]. rewrite to_map_row_eval. f_equal.
    apply IH. simpl in Hl. lia.
Qed.

(* ---- from_affine_map: an affine expression is determined by its zero and unit responses -------- *)
Lemma dot_map_add {A} (f g : A -> Z) l : forall x,
  dot (map (fun d => f d + g d) l) x = dot (map f l) x + dot (map g l) x.
Proof.
  induction l as [|d l IH]; intros x; [reflexivity|].
  destruct x as [|v x]; [rewrite !dot_nil_r; reflexivity|]. cbn [map]. rewrite !dot_cons, IH. lia.
Qed.

Lemma dot_map_scale {A} c (f : A -> Z) l : forall x, dot (map (fun d => c * f d) l) x = c * dot (map f l) x.
Proof.
  induction l as [|d l IH]; intros x; [cbn; lia|].
  destruct x as [|v x]; [rewrite !dot_nil_r; lia|]. cbn [map]. rewrite !dot_cons, IH. lia.
Qed.

Lemma dot_map_zero {A} (l : list A) : forall x, dot (map (fun _ => 0) l) x = 0.
Proof.
  induction l as [|d l IH]; intros x; [reflexivity|].
  destruct x as [|v x]; [reflexivity|]. cbn [map]. rewrite dot_cons, IH. lia.
Qed.

Lemma dot_delta p : forall x k,
  dot (map (fun d => if (p =? d)%nat then 1 else 0) (seq k (length x))) x =
  if ((k <=? p) && (p <? k + length x))%nat then nth (p - k) x 0 else 0.
Proof.
  induction x as [|v x IH]; intros k; cbn [length seq map].
  - rewrite dot_nil_r. destruct ((k <=? p) && (p <? k + 0))%nat eqn:E; [|reflexivity].
    apply andb_true_iff in E as [E1 E2]. apply Nat.leb_le in E1. apply Nat.ltb_lt in E2. lia.
  - rewrite dot_cons, IH. destruct (p =? k)%nat eqn:Epk.
    + apply Nat.eqb_eq in Epk. subst p.
      replace ((S k <=? k) && (k <? S k + length x))%nat with false by (symmetry; apply andb_false_iff; left; apply Nat.leb_gt; lia).
      replace ((k <=? k) && (k <? k + S (length x)))%nat with true
        by (symmetry; apply andb_true_iff; split; [apply Nat.leb_le|apply Nat.ltb_lt]; lia).
      rewrite Nat.sub_diag. cbn [nth]. lia.
    + apply Nat.eqb_neq in Epk.
      destruct ((k <=? p) && (p <? k + S (length x)))%nat eqn:E.
      * apply andb_true_iff in E as [E1 E2]. apply Nat.leb_le in E1. apply Nat.ltb_lt in E2.
        replace ((S k <=? p) && (p <? S k + length x))%nat with true
          by (symmetry; apply andb_true_iff; split; [apply Nat.leb_le|apply Nat.ltb_lt]; lia).
        replace (p - k)%nat with (S (p - S k)) by lia. cbn [nth]. lia.
      * replace ((S k <=? p) && (p <? S k + length x))%nat with false; [lia|].
        symmetry. apply andb_false_iff. apply andb_false_iff in E as [E|E];
          [left; apply Nat.leb_gt; apply Nat.leb_gt in E; lia | right; apply Nat.ltb_ge; apply Nat.ltb_ge in E; lia].
Qed.

Lemma env_vzero n p : env (vzero n) p = 0.
Proof.
  unfold env, vzero. destruct (p <? 0); [reflexivity|].
  destruct (Nat.lt_ge_cases (Z.to_nat p) n) as [H|H]; [apply nth_repeat|].
  apply nth_overflow. rewrite repeat_length. exact H.
Qed.

Lemma nth_map_seq (f : nat -> Z) : forall n k i, (i < n)%nat -> nth i (map f (seq k n)) 0 = f (k + i)%nat.
Proof.
  induction n as [|n IH]; intros k i Hi; [lia|].
  destruct i as [|i]; cbn [seq map nth]; [f_equal; lia|]. rewrite IH by lia. f_equal. lia.
Qed.

Lemma env_unit n d p : (d < n)%nat -> 0 <= p < Z.of_nat n ->
  env (unit_vec n d) p = if (Z.to_nat p =? d)%nat then 1 else 0.
Proof.
  intros Hd Hp. unfold env, unit_vec. destruct (p <? 0) eqn:E; [lia|].
  rewrite nth_map_seq by lia. reflexivity.
Qed.

Lemma const_expr_eval dv dv' sv e : const_expr e = true -> eval dv sv e = eval dv' sv e.
Proof.
  induction e as [p|p|v|k l IHl r IHr]; cbn [const_expr]; intros H; try discriminate; [reflexivity|].
  destruct k; try discriminate; apply andb_true_iff in H as [H1 H2]; cbn [eval]; rewrite (IHl H1), (IHr H2); reflexivity.
Qed.

Lemma affine_response n x e :
  is_affine e = true -> evaluable n e = true -> length x = n ->
  eval (env x) no_sym e =
  eval (env (vzero n)) no_sym e
  + dot (map (fun d => eval (env (unit_vec n d)) no_sym e - eval (env (vzero n)) no_sym e) (seq 0 n)) x.
Proof.
  intros Ha He Hx. induction e as [p|p|v|k l IHl r IHr]; cbn [is_affine evaluable] in Ha, He; try discriminate.
  - (* dimension *)
    apply andb_true_iff in He as [Hp1 Hp2]. cbn [eval]. rewrite env_vzero.
    rewrite (map_ext_in _ (fun d => if (Z.to_nat p =? d)%nat then 1 else 0)).
    + subst n. rewrite dot_delta. cbn [Nat.leb andb]. replace (Z.to_nat p <? 0 + length x)%nat with true by (symmetry; apply Nat.ltb_lt; lia).
      rewrite Nat.sub_0_r. unfold env. destruct (p <? 0) eqn:E; [lia|]. lia.
    + intros d Hd. apply in_seq in Hd. cbv beta. cbn [eval]. rewrite ?env_vzero, env_unit by lia. lia.
  - (* constant *)
    cbn [eval]. rewrite (map_ext _ (fun _ => 0)) by (intros; cbn [eval]; lia). rewrite dot_map_zero. lia.
  - apply andb_true_iff in He as [He1 He2].
    destruct k; try discriminate.
    + (* add *)
      apply andb_true_iff in Ha as [Ha1 Ha2]. cbn [eval kind_eval].
      rewrite (map_ext _ (fun d => (eval (env (unit_vec n d)) no_sym l - eval (env (vzero n)) no_sym l)
                                   + (eval (env (unit_vec n d)) no_sym r - eval (env (vzero n)) no_sym r))) by (intros; lia).
      rewrite dot_map_add. rewrite (IHl Ha1 He1), (IHr Ha2 He2) at 1. lia.
    + (* mul with a constant side *)
      cbn [eval kind_eval]. apply orb_true_iff in Ha as [Ha|Ha]; apply andb_true_iff in Ha as [Ha1 Ha2].
      * set (c := eval (env (vzero n)) no_sym r).
        rewrite (map_ext _ (fun d => c * (eval (env (unit_vec n d)) no_sym l - eval (env (vzero n)) no_sym l))).
        2:{ intros d. rewrite (const_expr_eval (env (unit_vec n d)) (env (vzero n)) no_sym r Ha2). fold c. lia. }
        rewrite dot_map_scale.
        rewrite (const_expr_eval (env x) (env (vzero n)) no_sym r Ha2). fold c.
        rewrite (IHl Ha1 He1) at 1. lia.
      * set (c := eval (env (vzero n)) no_sym l).
        rewrite (map_ext _ (fun d => c * (eval (env (unit_vec n d)) no_sym r - eval (env (vzero n)) no_sym r))).
        2:{ intros d. rewrite (const_expr_eval (env (unit_vec n d)) (env (vzero n)) no_sym l Ha1). fold c. lia. }
        rewrite dot_map_scale.
        rewrite (const_expr_eval (env x) (env (vzero n)) no_sym l Ha1). fold c.
        rewrite (IHr Ha2 He2) at 1. lia.
Qed.

(* for a pure-affine map, the matrix form evaluates like the map *)
Theorem from_map_eval m t x :
  from_affine_map m = Some t -> forallb is_affine (results m) = true -> length x = Z.to_nat (num_dims m) ->
  at_eval t x = Some (map_eval (env x) no_sym m).
Proof.
  unfold from_affine_map. set (n := Z.to_nat (num_dims m)).
  destruct (forallb no_divmod (results m) && forallb (evaluable n) (results m)) eqn:E; [|discriminate].
  apply andb_true_iff in E as [_ Hev]. intros H Haff Hx. injection H as <-.
  unfold at_eval. cbn [tn tA tb]. rewrite Hx, Nat.eqb_refl. f_equal.
  unfold map_eval, mat_vec, vadd. rewrite forallb_forall in Hev, Haff.
  induction (results m) as [|e es IH]; [reflexivity|].
  cbn [map combine fst snd]. f_equal.
  - rewrite (affine_response n x e) by (try apply Haff; try apply Hev; try (left; reflexivity); exact Hx). lia.
  - apply IH; intros z Hz; [apply Hev|apply Haff]; right; exact Hz.
Qed.

(* round trip: to_affine_map (from_affine_map m) evaluates like m at every point *)
Theorem transform_roundtrip m t x sv :
  from_affine_map m = Some t -> forallb is_affine (results m) = true -> length x = Z.to_nat (num_dims m) ->
  map_eval (env x) sv (to_affine_map t) = map_eval (env x) no_sym m.
Proof.
  intros Hf Ha Hx. apply to_map_eval; [|exact (from_map_eval m t x Hf Ha Hx)].
  revert Hf. unfold from_affine_map. destruct (_ && _); [|discriminate]. intros H. injection H as <-.
  unfold wf_atrans. cbn [tA tb tn]. rewrite !map_length, Nat.eqb_refl. cbn [andb].
  apply forallb_forall. intros row Hr. apply in_map_iff in Hr as [e [<- _]]. rewrite map_length, seq_length. apply Nat.eqb_refl.
Qed.

(* ---- AccessPattern.canonicalize / inner_dims -------------------------------------------------- *)
Definition wf_ap (p : apattern) : Prop :=
  wf_atrans (ap_pattern p) = true /\ length (ap_bounds p) = tn (ap_pattern p).

Lemma select_length_eq {A B} (mask : list bool) : forall (l1 : list A) (l2 : list B),
  length l1 = length mask -> length l2 = length mask -> length (select mask l1) = length (select mask l2).
Proof.
  induction mask as [|m mask IH]; intros [|a l1] [|b l2] H1 H2; simpl in *; try discriminate; try reflexivity.
  destruct m; simpl; [f_equal|]; apply IH; lia.
Qed.

(* dropping positions whose index value is 0 does not change a dot product *)
Lemma dot_select mask : forall row x,
  Forall2 (fun (m : bool) v => m = false -> v = 0) mask x ->
  dot (select mask row) (select mask x) = dot row x.
Proof.
  induction mask as [|m mask IH]; intros row x H; inversion H as [|? v ? xs Hm Hrest]; subst.
  - cbn [select]. destruct row; [reflexivity|]. rewrite dot_nil_r. destruct (select [] (z :: row)); reflexivity.
  - destruct row as [|a row]; [reflexivity|]. cbn [select]. destruct m.
    + rewrite !dot_cons, IH by exact Hrest. reflexivity.
    + rewrite dot_cons, IH by exact Hrest. rewrite (Hm eq_refl). lia.
Qed.

Lemma Forall2_len {A B} (R : A -> B -> Prop) l1 l2 : Forall2 R l1 l2 -> length l1 = length l2.
Proof. induction 1; simpl; congruence. Qed.

Lemma in_box_mask bounds x : in_box bounds x ->
  Forall2 (fun (m : bool) v => m = false -> v = 0) (map keep_bound bounds) x.
Proof.
  unfold in_box. induction 1 as [|b v bs xs [H0 Hb] _ IH]; cbn [map]; constructor; [|exact IH].
  destruct b as [bb|]; cbn [keep_bound]; [|discriminate]. intros Hk. apply Z.ltb_ge in Hk. lia.
Qed.

(* every point of the iteration box is mapped to the same element by the canonical pattern, at the
   point with the removed (bound <= 1) coordinates dropped; dynamic (None) bounds are kept *)
Theorem ap_canonicalize_eval p x :
  wf_ap p -> in_box (ap_bounds p) x ->
  at_eval (ap_pattern (ap_canonicalize p)) (select (map keep_bound (ap_bounds p)) x) = at_eval (ap_pattern p) x
  /\ in_box (ap_bounds (ap_canonicalize p)) (select (map keep_bound (ap_bounds p)) x)
  /\ at_eval (ap_pattern p) x <> None.
Proof.
  intros [Hw Hn] Hbox. pose proof (in_box_mask _ _ Hbox) as Hmask.
  assert (Hlx : length x = length (ap_bounds p)) by (symmetry; eapply Forall2_len; exact Hbox).
  unfold ap_canonicalize, at_eval. cbn [ap_pattern ap_bounds tn tA tb].
  set (mask := map keep_bound (ap_bounds p)).
  assert (Hlm : length mask = length (ap_bounds p)) by (unfold mask; apply map_length).
  rewrite (select_length_eq mask x (ap_bounds p)) by lia. rewrite Nat.eqb_refl.
  replace (length x =? tn (ap_pattern p))%nat with true by (symmetry; apply Nat.eqb_eq; lia).
  split; [|split; [|discriminate]].
  - f_equal. f_equal. unfold mat_vec. rewrite map_map. apply map_ext. intros row. apply dot_select. exact Hmask.
  - unfold in_box in *. clear -Hbox. subst mask. induction Hbox as [|b v bs xs Hbv _ IH]; cbn [map select]; [constructor|].
    destruct (keep_bound b); [constructor; assumption|exact IH].
Qed.

(* converse direction: with all static bounds >= 1 every point y of the canonical box is the image of a point
   of the original box (`expand`: 0 at the dropped coordinates), so canonicalize is a bijection of the boxes
   that keeps the accessed element.  A bound 0 is dropped like a bound 1 although its box is empty:
   ap_canonicalize_zero_bound_not_onto. *)
Fixpoint expand (mask : list bool) (y : vec) : vec :=
  match mask with
  | [] => []
  | true :: ms => match y with v :: ys => v :: expand ms ys | [] => 0 :: expand ms [] end
  | false :: ms => 0 :: expand ms y
  end.

Definition pos_bounds (bounds : list (option Z)) : Prop :=
  Forall (fun b => match b with Some v => 1 <= v | None => True end) bounds.

Lemma expand_in_box bounds : pos_bounds bounds -> forall y,
  in_box (select (map keep_bound bounds) bounds) y ->
  in_box bounds (expand (map keep_bound bounds) y) /\ select (map keep_bound bounds) (expand (map keep_bound bounds) y) = y.
Proof.
  unfold pos_bounds, in_box. induction 1 as [|b bs Hb _ IH]; intros y Hy; cbn [map select expand] in *.
  - inversion Hy; subst. split; [constructor|reflexivity].
  - destruct (keep_bound b) eqn:Hk; cbn [select] in *.
    + inversion Hy as [|? v ? ys Hv Hrest]; subst. destruct (IH ys Hrest) as [H1 H2].
      split; [constructor; assumption|]. cbn [select]. rewrite H2. reflexivity.
    + destruct (IH y Hy) as [H1 H2]. split; [|exact H2]. constructor; [|exact H1].
      destruct b as [v|]; cbn [keep_bound] in Hk; [|discriminate]. split; lia.
Qed.

Theorem ap_canonicalize_onto p y :
  wf_ap p -> pos_bounds (ap_bounds p) -> in_box (ap_bounds (ap_canonicalize p)) y ->
  let x := expand (map keep_bound (ap_bounds p)) y in
  in_box (ap_bounds p) x /\ select (map keep_bound (ap_bounds p)) x = y
  /\ at_eval (ap_pattern p) x = at_eval (ap_pattern (ap_canonicalize p)) y.
Proof.
  intros Hw Hp Hy x. destruct (expand_in_box _ Hp y Hy) as [H1 H2]. fold x in H1, H2.
  split; [exact H1|]. split; [exact H2|].
  destruct (ap_canonicalize_eval p x Hw H1) as [He _]. rewrite H2 in He. symmetry. exact He.
Qed.

Lemma select_all_true {A} (l : list A) : select (repeat true (length l)) l = l.
Proof. induction l as [|a l IH]; cbn [length repeat select]; [reflexivity|]. rewrite IH. reflexivity. Qed.

Lemma keep_select bounds : map keep_bound (select (map keep_bound bounds) bounds) =
                           repeat true (length (select (map keep_bound bounds) bounds)).
Proof.
  induction bounds as [|b bs IH]; [reflexivity|]. cbn [map select]. destruct (keep_bound b) eqn:E; [|exact IH].
  cbn [map length repeat]. rewrite E, IH. reflexivity.
Qed.

Theorem ap_canonicalize_idempotent p : wf_ap p -> ap_canonicalize (ap_canonicalize p) = ap_canonicalize p.
Proof.
  intros [Hw Hn]. unfold ap_canonicalize at 1. cbn [ap_bounds ap_pattern tA tb].
  set (q := ap_canonicalize p). unfold ap_canonicalize in q. cbn [ap_bounds ap_pattern] in q.
  set (mask := map keep_bound (ap_bounds p)) in *.
  set (cb := select mask (ap_bounds p)) in *.
  unfold q. cbn [ap_bounds ap_pattern tA tb tn]. fold cb.
  assert (Hk : map keep_bound cb = repeat true (length cb)) by apply keep_select.
  rewrite Hk, select_all_true. f_equal. f_equal. rewrite map_map.
  apply map_ext_in. intros row Hrow.
  unfold wf_atrans in Hw. apply andb_true_iff in Hw as [_ Hrows]. rewrite forallb_forall in Hrows.
  apply Hrows in Hrow. apply Nat.eqb_eq in Hrow.
  replace (length cb) with (length (select mask row)); [apply select_all_true|].
  apply select_length_eq; unfold mask; rewrite map_length; lia.
Qed.

(* inner_dims: the inner pattern at x' = the pattern at (0,...,0,x') *)
Lemma dot_app a : forall u b v, length a = length u -> dot (a ++ b) (u ++ v) = dot a u + dot b v.
Proof.
  induction a as [|x a IH]; intros [|y u] b v H; simpl in H; try discriminate; [cbn [app]; rewrite dot_nil_l; lia|].
  cbn [app]. rewrite !dot_cons, IH by lia. lia.
Qed.

Lemma dot_zero_r a : forall n, dot a (repeat 0 n) = 0.
Proof.
  induction a as [|x a IH]; intros n; [reflexivity|]. destruct n; [reflexivity|].
  cbn [repeat]. rewrite dot_cons, IH. lia.
Qed.

Theorem ap_inner_dims_eval p dim q x' :
  wf_ap p -> ap_inner_dims p dim = Some q -> length x' = tn (ap_pattern q) ->
  at_eval (ap_pattern q) x' = at_eval (ap_pattern p) (repeat 0 (tn (ap_pattern p) - length x') ++ x')
  /\ ap_bounds q = take_last (Z.to_nat dim) (ap_bounds p).
Proof.
  intros [Hw Hn] H Hx. unfold ap_inner_dims in H. destruct (dim <=? 0); [discriminate|]. injection H as <-.
  cbn [ap_pattern ap_bounds tn tA tb] in *. split; [|reflexivity].
  set (k := Z.to_nat dim) in *. set (n := tn (ap_pattern p)) in *.
  unfold at_eval. cbn [tn tA tb]. rewrite Hx, Nat.eqb_refl.
  assert (E : (length (repeat 0%Z (n - Nat.min k n) ++ x') =? tn (ap_pattern p))%nat = true)
    by (apply Nat.eqb_eq; rewrite app_length, repeat_length; fold n; lia).
  rewrite E. clear E.
  f_equal. f_equal. unfold mat_vec. rewrite map_map. apply map_ext_in. intros row Hrow.
  unfold wf_atrans in Hw. apply andb_true_iff in Hw as [_ Hrows]. rewrite forallb_forall in Hrows.
  apply Hrows in Hrow. apply Nat.eqb_eq in Hrow. fold n in Hrow.
  unfold take_last. rewrite Hrow.
  rewrite <- (firstn_skipn (n - k) row) at 2.
  replace (n - Nat.min k n)%nat with (n - k)%nat by lia.
  rewrite dot_app by (rewrite firstn_length, repeat_length; lia).
  rewrite dot_zero_r. lia.
Qed.
