(* C12 (ii) — one application of RealizeMemrefCasts on a flat block is coherent:
   under the decidable Safe conditions every operation observes the same contents as in the
   original (alias) program and every buffer other than the new allocation ends with the same
   contents, from any start state.  Simulation invariant: which of the new buffer A and the source
   buffer B currently holds the up-to-date contents (synced-A / synced-B), driven by the flags
   `seen` (a use of the cast has happened: A is current from then on, either through the copy-in or
   because the first use overwrote it) and `dirty` (an output use happened, its copy-out is still to come). *)
From Snax Require Import Base.Prelude Model.C12Casts.

Lemma upd_same {X} (f : nat -> X) k x : upd f k x k = x.
Proof. unfold upd. rewrite Nat.eqb_refl. reflexivity. Qed.
Lemma upd_other {X} (f : nat -> X) k x n : n <> k -> upd f k x n = f n.
Proof. intros H. unfold upd. destruct (n =? k)%nat eqn:E; [apply Nat.eqb_eq in E; contradiction|reflexivity]. Qed.

Lemma exec_list_app trips a b s : exec_list trips (a ++ b) s = exec_list trips b (exec_list trips a s).
Proof. unfold exec_list. apply fold_left_app. Qed.

Lemma k_out_writes k : k_is_output k = k_writes k.
Proof. destruct k; reflexivity. Qed.

Lemma existsb_combine_seq {X} (f : X -> bool) (l : list X) : forall a,
  existsb (fun ju => f (snd ju)) (combine (seq a (length l)) l) = existsb f l.
Proof. induction l as [|x l IH]; intros a; cbn; [reflexivity|]. rewrite IH. reflexivity. Qed.

Lemma in_combine_seq {X} (l : list X) : forall a j x, In (j, x) (combine (seq a (length l)) l) -> In x l.
Proof. intros a j x H. apply in_combine_r in H. exact H. Qed.

Lemma existsb_filter_writes d (uses : list (nat * kind)) :
  existsb (fun u => (fst u =? d)%nat) (filter (fun u => k_writes (snd u)) uses) =
  existsb (fun u => (fst u =? d)%nat && k_is_output (snd u)) uses.
Proof.
  induction uses as [|u us IH]; [reflexivity|]. cbn [filter existsb]. change (k_is_output (snd u)) with (k_writes (snd u)).
  destruct (k_writes (snd u)); cbn [existsb]; rewrite IH.
  - rewrite andb_true_r. reflexivity.
  - rewrite andb_false_r. reflexivity.
Qed.

Section Coherence.
  Variables (trips : nat -> nat) (d s0 B : nat) (others : list nat).
  Let A := d.
  Hypothesis HAB : A <> B.
  Hypothesis Hs0 : s0 <> d.
  Hypothesis HBo : In B others.
  Hypothesis Hs0o : In s0 others.

  Record Rel (seen dirty : bool) (s s' : state) : Prop := mkRel {
    r_alias : forall v, v <> d -> alias s v = alias s' v;
    r_d : alias s d = B;
    r_d' : alias s' d = A;
    r_s0 : alias s s0 = B;
    r_B : forall v, alias s v = B -> v = d \/ In v others;
    r_A : forall v, alias s v <> A;
    r_mem : forall b, b <> A -> b <> B -> memo s b = memo s' b;
    r_trace : trace s = trace s';
    r_syncB : dirty = false -> memo s' B = memo s B;
    r_syncA : seen = true -> memo s' A = memo s B
  }.

  (* a foreign value: same buffer on both sides, neither A nor B *)
  Lemma foreign_buf seen dirty s s' v : Rel seen dirty s s' -> v <> d -> ~ In v others ->
    alias s v = alias s' v /\ alias s v <> A /\ alias s v <> B.
  Proof.
    intros R Hd Ho. split; [apply (r_alias _ _ _ _ R); exact Hd|]. split; [apply (r_A _ _ _ _ R)|].
    intros E. destruct (r_B _ _ _ _ R v E); contradiction.
  Qed.

  (* the writes of one operation *)
  Lemma wr_rel (id : nat) (obs : list term) (a a' : nat -> nat) :
    forall (ws : list (nat * (nat * kind))) (m m' : nat -> term),
    (forall ju, In ju ws -> (fst (snd ju) = d /\ a d = B /\ a' d = A) \/
                            (fst (snd ju) <> d /\ a (fst (snd ju)) = a' (fst (snd ju)) /\
                             a (fst (snd ju)) <> A /\ a (fst (snd ju)) <> B)) ->
    (forall b, b <> A -> b <> B -> m b = m' b) ->
    let M := fold_left (fun m0 ju => upd m0 (a (fst (snd ju))) (TWr id (fst ju) obs)) ws m in
    let M' := fold_left (fun m0 ju => upd m0 (a' (fst (snd ju))) (TWr id (fst ju) obs)) ws m' in
    (forall b, b <> A -> b <> B -> M b = M' b) /\ M' B = m' B /\
    (if existsb (fun ju => (fst (snd ju) =? d)%nat) ws then M B = M' A else M B = m B /\ M' A = m' A).
  Proof.
    induction ws as [|ju ws IH]; intros m m' Hw Hm; cbn [fold_left existsb].
    - split; [exact Hm|]. split; [reflexivity|]. split; reflexivity.
    - set (m1 := upd m (a (fst (snd ju))) (TWr id (fst ju) obs)).
      set (m1' := upd m' (a' (fst (snd ju))) (TWr id (fst ju) obs)).
      assert (Hw' : forall ju0, In ju0 ws -> _) by (intros ju0 H0; apply Hw; right; exact H0).
      destruct (Hw ju (or_introl eq_refl)) as [[Ed [Ea Ea']]|[Nd [Eq [NA NB]]]].
      + assert (Hm1 : forall b, b <> A -> b <> B -> m1 b = m1' b).
        { intros b HA HB. unfold m1, m1'. rewrite Ed, Ea, Ea'. rewrite !upd_other by congruence. apply Hm; assumption. }
        destruct (IH m1 m1' Hw' Hm1) as [G1 [G2 G3]]. split; [exact G1|]. split.
        * rewrite G2. unfold m1'. rewrite Ed, Ea'. apply upd_other. congruence.
        * rewrite Ed, Nat.eqb_refl. cbn [orb].
          destruct (existsb (fun ju0 => (fst (snd ju0) =? d)%nat) ws); [exact G3|].
          destruct G3 as [G3 G4]. rewrite G3, G4. unfold m1, m1'. rewrite Ed, Ea, Ea', !upd_same. reflexivity.
      + assert (Hm1 : forall b, b <> A -> b <> B -> m1 b = m1' b).
        { intros b HA HB. unfold m1, m1'. rewrite <- Eq. unfold upd.
          destruct (b =? a (fst (snd ju)))%nat; [reflexivity|apply Hm; assumption]. }
        destruct (IH m1 m1' Hw' Hm1) as [G1 [G2 G3]]. split; [exact G1|]. split.
        * rewrite G2. unfold m1'. rewrite <- Eq. apply upd_other. congruence.
        * replace (fst (snd ju) =? d)%nat with false by (symmetry; apply Nat.eqb_neq; exact Nd). cbn [orb].
          destruct (existsb (fun ju0 => (fst (snd ju0) =? d)%nat) ws); [exact G3|].
          destruct G3 as [G3 G4]. rewrite G3, G4. unfold m1, m1'. rewrite <- Eq.
          rewrite !upd_other by congruence. split; reflexivity.
  Qed.

  Definition op_ok (uses : list (nat * kind)) : Prop :=
    forall u, In u uses -> fst u = d \/ (fst u <> d /\ ~ In (fst u) others).

  Lemma mentions_false vs it u id uses : it = IOp id uses -> mentions vs it = false -> In u uses -> ~ In (fst u) vs.
  Proof.
    intros -> H Hu Hin. cbn [mentions] in H.
    assert (existsb (fun u0 => existsb (Nat.eqb (fst u0)) vs) uses = true).
    { apply existsb_exists. exists u. split; [exact Hu|]. apply existsb_exists. exists (fst u).
      split; [exact Hin|apply Nat.eqb_refl]. }
    congruence.
  Qed.

  (* one operation; readsA = the contents of A are what the original sees in B whenever d is read *)
  Lemma exec_op_rel seen dirty id uses s s' :
    Rel seen dirty s s' -> (forall u, In u uses -> ~ In (fst u) others) ->
    (* if the operation reads d, A is in sync *)
    ((exists u, In u uses /\ fst u = d /\ k_reads (snd u) = true) -> memo s' A = memo s B) ->
    let o := existsb (fun u => (fst u =? d)%nat && k_is_output (snd u)) uses in
    let t := exec_op id uses s in
    let t' := exec_op id uses s' in
    (forall v, alias t v = alias s v) /\ (forall v, alias t' v = alias s' v) /\
    (forall b, b <> A -> b <> B -> memo t b = memo t' b) /\ trace t = trace t' /\
    memo t' B = memo s' B /\
    (if o then memo t B = memo t' A else memo t B = memo s B /\ memo t' A = memo s' A).
  Proof.
    intros R Ho HsA o t t'. unfold t, t', exec_op. cbn [alias memo trace].
    assert (Hobs : map (fun u => memo s (alias s (fst u))) (filter (fun u => k_reads (snd u)) uses) =
                   map (fun u => memo s' (alias s' (fst u))) (filter (fun u => k_reads (snd u)) uses)).
    { apply map_ext_in. intros u Hu. apply filter_In in Hu as [Hu Hr].
      destruct (Nat.eq_dec (fst u) d) as [E|E].
      - rewrite E, (r_d _ _ _ _ R), (r_d' _ _ _ _ R). symmetry. apply HsA. exists u. auto.
      - destruct (foreign_buf _ _ _ _ (fst u) R E (Ho u Hu)) as [Ea [NA NB]].
        rewrite <- Ea. apply (r_mem _ _ _ _ R); assumption. }
    rewrite <- Hobs.
    set (obs := map (fun u => memo s (alias s (fst u))) (filter (fun u => k_reads (snd u)) uses)).
    set (ws := filter (fun u => k_writes (snd u)) uses).
    pose proof (wr_rel id obs (alias s) (alias s') (combine (seq 0 (length ws)) ws) (memo s) (memo s')) as W.
    cbv zeta in W.
    assert (Hw : forall ju, In ju (combine (seq 0 (length ws)) ws) ->
              (fst (snd ju) = d /\ alias s d = B /\ alias s' d = A) \/
              (fst (snd ju) <> d /\ alias s (fst (snd ju)) = alias s' (fst (snd ju)) /\
               alias s (fst (snd ju)) <> A /\ alias s (fst (snd ju)) <> B)).
    { intros [j u] Hju. cbn [fst snd]. apply in_combine_seq in Hju. unfold ws in Hju. apply filter_In in Hju as [Hu _].
      destruct (Nat.eq_dec (fst u) d) as [E|E].
      - left. split; [exact E|]. split; [apply (r_d _ _ _ _ R)|apply (r_d' _ _ _ _ R)].
      - right. split; [exact E|]. apply (foreign_buf _ _ _ _ (fst u) R E (Ho u Hu)). }
    destruct (W Hw (r_mem _ _ _ _ R)) as [G1 [G2 G3]].
    split; [reflexivity|]. split; [reflexivity|]. split; [exact G1|].
    split; [f_equal; exact (r_trace _ _ _ _ R)|]. split; [exact G2|].
    assert (Eo : existsb (fun ju : nat * (nat * kind) => (fst (snd ju) =? d)%nat) (combine (seq 0 (length ws)) ws) = o).
    { rewrite (existsb_combine_seq (fun u : nat * kind => (fst u =? d)%nat) ws 0). unfold ws, o.
      apply existsb_filter_writes. }
    rewrite Eo in G3. exact G3.
  Qed.

  Lemma existsb_eqb_false a vs : existsb (Nat.eqb a) vs = false -> ~ In a vs.
  Proof.
    intros H Hin. assert (existsb (Nat.eqb a) vs = true) by (apply existsb_exists; exists a; split; [exact Hin|apply Nat.eqb_refl]).
    congruence.
  Qed.

  Lemma not_in_cons a vs : ~ In a (d :: vs) -> a <> d /\ ~ In a vs.
  Proof. intros H. split; [intros E; apply H; left; congruence|intros E; apply H; right; exact E]. Qed.

  Lemma uses_val_false uses : uses_val d uses = false -> forall u, In u uses -> fst u <> d.
  Proof.
    intros H u Hu E. assert (uses_val d uses = true).
    { apply existsb_exists. exists u. split; [exact Hu|apply Nat.eqb_eq; exact E]. }
    congruence.
  Qed.

  Lemma op_others id uses : negb (mentions others (IOp id uses)) = true ->
    forall u, In u uses -> ~ In (fst u) others.
  Proof.
    intros H u Hu. apply negb_true_iff in H. apply (mentions_false others (IOp id uses) u id uses eq_refl H Hu).
  Qed.

  (* items that do not use d *)
  Lemma step_other seen dirty it s s' :
    flat_ok d others it = true -> item_flags d it = None -> Rel seen dirty s s' ->
    Rel seen dirty (exec_item trips it s) (exec_item trips it s').
  Proof.
    intros Hok Hfl R. destruct it as [id uses|a b ta tb|v|a b|lid body]; cbn [flat_ok] in Hok.
    - apply andb_true_iff in Hok as [Hm _]. cbn [item_flags] in Hfl.
      destruct (uses_val d uses) eqn:Eu; [discriminate|].
      pose proof (uses_val_false uses Eu) as Hnd.
      assert (HsA : (exists u, In u uses /\ fst u = d /\ k_reads (snd u) = true) -> memo s' A = memo s B)
        by (intros [u [Hu [E _]]]; exfalso; apply (Hnd u Hu E)).
      destruct (exec_op_rel seen dirty id uses s s' R (op_others id uses Hm) HsA) as [Ga [Ga' [Gm [Gt [GB GA]]]]].
      assert (Eo : existsb (fun u => (fst u =? d)%nat && k_is_output (snd u)) uses = false).
      { apply not_true_is_false. intros H. apply existsb_exists in H as [u [Hu H]]. apply andb_true_iff in H as [H _].
        apply Nat.eqb_eq in H. apply (Hnd u Hu H). }
      rewrite Eo in GA. destruct GA as [GA1 GA2]. cbn [exec_item].
      constructor.
      + intros v Hv. rewrite Ga, Ga'. apply (r_alias _ _ _ _ R v Hv).
      + rewrite Ga. apply (r_d _ _ _ _ R).
      + rewrite Ga'. apply (r_d' _ _ _ _ R).
      + rewrite Ga. apply (r_s0 _ _ _ _ R).
      + intros v. rewrite Ga. apply (r_B _ _ _ _ R).
      + intros v. rewrite Ga. apply (r_A _ _ _ _ R).
      + exact Gm.
      + exact Gt.
      + intros Hd. rewrite GB, GA1. apply (r_syncB _ _ _ _ R Hd).
      + intros Hd. rewrite GA2, GA1. apply (r_syncA _ _ _ _ R Hd).
    - apply negb_true_iff in Hok. cbn [mentions] in Hok. apply orb_false_iff in Hok as [Ha Hb].
      apply existsb_eqb_false, not_in_cons in Ha as [Had Hao]. apply existsb_eqb_false, not_in_cons in Hb as [Hbd Hbo].
      destruct (foreign_buf _ _ _ _ b R Hbd Hbo) as [Eb [NA NB]]. cbn [exec_item].
      constructor; cbn [alias memo trace].
      + intros v Hv. unfold upd. destruct (v =? a)%nat; [exact Eb|apply (r_alias _ _ _ _ R v Hv)].
      + rewrite upd_other by congruence. apply (r_d _ _ _ _ R).
      + rewrite upd_other by congruence. apply (r_d' _ _ _ _ R).
      + rewrite upd_other by (intros E; apply Hao; rewrite <- E; exact Hs0o). apply (r_s0 _ _ _ _ R).
      + intros v. unfold upd. destruct (v =? a)%nat eqn:E; [intros H; contradiction|apply (r_B _ _ _ _ R)].
      + intros v. unfold upd. destruct (v =? a)%nat; [exact NA|apply (r_A _ _ _ _ R)].
      + apply (r_mem _ _ _ _ R).
      + apply (r_trace _ _ _ _ R).
      + apply (r_syncB _ _ _ _ R).
      + apply (r_syncA _ _ _ _ R).
    - apply negb_true_iff in Hok. cbn [mentions] in Hok.
      apply existsb_eqb_false, not_in_cons in Hok as [Hvd Hvo].
      assert (HvB : v <> B) by (intros E; apply Hvo; rewrite E; exact HBo).
      cbn [exec_item]. constructor; cbn [alias memo trace].
      + intros x Hx. unfold upd. destruct (x =? v)%nat; [reflexivity|apply (r_alias _ _ _ _ R x Hx)].
      + rewrite upd_other by congruence. apply (r_d _ _ _ _ R).
      + rewrite upd_other by congruence. apply (r_d' _ _ _ _ R).
      + rewrite upd_other by (intros E; apply Hvo; rewrite <- E; exact Hs0o). apply (r_s0 _ _ _ _ R).
      + intros x. unfold upd. destruct (x =? v)%nat eqn:E; [intros H; congruence|apply (r_B _ _ _ _ R)].
      + intros x. unfold upd. destruct (x =? v)%nat eqn:E; [unfold A; congruence|apply (r_A _ _ _ _ R)].
      + intros b0 HA0 HB0. unfold upd. destruct (b0 =? v)%nat; [reflexivity|apply (r_mem _ _ _ _ R); assumption].
      + apply (r_trace _ _ _ _ R).
      + intros Hd. rewrite !upd_other by congruence. apply (r_syncB _ _ _ _ R Hd).
      + intros Hd. rewrite upd_other by (unfold A; congruence). rewrite upd_other by congruence. apply (r_syncA _ _ _ _ R Hd).
    - apply negb_true_iff in Hok. cbn [mentions] in Hok. apply orb_false_iff in Hok as [Ha Hb].
      apply existsb_eqb_false, not_in_cons in Ha as [Had Hao]. apply existsb_eqb_false, not_in_cons in Hb as [Hbd Hbo].
      destruct (foreign_buf _ _ _ _ a R Had Hao) as [Ea [NAa NBa]].
      destruct (foreign_buf _ _ _ _ b R Hbd Hbo) as [Eb [NAb NBb]]. cbn [exec_item].
      constructor; cbn [alias memo trace]; try apply R.
      + intros b0 HA0 HB0. rewrite <- Ea, <- Eb. unfold upd. destruct (b0 =? alias s b)%nat; [|apply (r_mem _ _ _ _ R); assumption].
        apply (r_mem _ _ _ _ R); assumption.
      + intros Hd. rewrite <- Eb. rewrite !upd_other by congruence. apply (r_syncB _ _ _ _ R Hd).
      + intros Hd. rewrite <- Eb. rewrite !upd_other by congruence. apply (r_syncA _ _ _ _ R Hd).
    - discriminate.
  Qed.

  (* an operation that uses d, with the copies the pass puts around it *)
  Lemma step_use seen dirty id uses i o later s s' :
    flat_ok d others (IOp id uses) = true ->
    existsb (fun u => (fst u =? d)%nat && k_is_input (snd u)) uses = i ->
    existsb (fun u => (fst u =? d)%nat && k_is_output (snd u)) uses = o ->
    i || o = true ->
    Rel seen dirty s s' -> (seen = false -> dirty = false) ->
    Rel true (if o then later else dirty)
        (exec_item trips (IOp id uses) s)
        (exec_list trips ((if i && negb seen then [ICopy s0 d] else []) ++ [IOp id uses] ++
                          (if o && negb later then [ICopy d s0] else [])) s').
  Proof.
    intros Hok Ei Eo Hio R Hsafe. cbn [flat_ok] in Hok. apply andb_true_iff in Hok as [Hm Hsound].
    rewrite !exec_list_app.
    (* copy-in *)
    assert (R1 : Rel (seen || i) dirty s
                   (exec_list trips (if i && negb seen then [ICopy s0 d] else []) s')).
    { destruct (i && negb seen) eqn:Ec.
      - apply andb_true_iff in Ec as [Hi Hseen]. apply negb_true_iff in Hseen. specialize (Hsafe Hseen).
        unfold exec_list. cbn [fold_left exec_item].
        assert (Es0 : alias s' s0 = B) by (rewrite <- (r_alias _ _ _ _ R s0 Hs0); apply (r_s0 _ _ _ _ R)).
        rewrite (r_d' _ _ _ _ R), Es0.
        constructor; cbn [alias memo trace]; try apply R.
        + intros b0 HA0 HB0. rewrite upd_other by exact HA0. apply (r_mem _ _ _ _ R); assumption.
        + intros Hd. rewrite upd_other by congruence. apply (r_syncB _ _ _ _ R Hd).
        + intros _. rewrite upd_same. apply (r_syncB _ _ _ _ R Hsafe).
      - unfold exec_list. cbn [fold_left].
        assert (Es : (seen || i)%bool = seen).
        { destruct seen; [reflexivity|]. cbn [negb andb orb] in *. rewrite andb_true_r in Ec. exact Ec. }
        rewrite Es. exact R. }
    set (s1' := exec_list trips (if i && negb seen then [ICopy s0 d] else []) s') in *.
    (* the operation *)
    assert (HsA : (exists u, In u uses /\ fst u = d /\ k_reads (snd u) = true) -> memo s1' A = memo s B).
    { intros [u [Hu [E Hr]]]. apply (r_syncA _ _ _ _ R1).
      cbn [sound_uses] in Hsound. rewrite forallb_forall in Hsound. specialize (Hsound u Hu).
      rewrite E, Nat.eqb_refl in Hsound. cbn [negb orb] in Hsound. apply andb_true_iff in Hsound as [Hs1 _].
      rewrite Hr in Hs1. cbn [implb] in Hs1.
      assert (Hi : existsb (fun u0 : nat * kind => (fst u0 =? d)%nat && k_is_input (snd u0)) uses = true).
      { apply existsb_exists. exists u. split; [exact Hu|]. rewrite E, Nat.eqb_refl, Hs1. reflexivity. }
      apply orb_true_iff. right. rewrite <- Ei. exact Hi. }
    destruct (exec_op_rel (seen || i) dirty id uses s s1' R1 (op_others id uses Hm) HsA) as [Ga [Ga' [Gm [Gt [GB GA]]]]].
    rewrite Eo in GA.
    change (exec_list trips [IOp id uses] s1') with (exec_op id uses s1').
    change (exec_item trips (IOp id uses) s) with (exec_op id uses s).
    set (t := exec_op id uses s) in *. set (t' := exec_op id uses s1') in *.
    assert (Et's0 : alias t' s0 = B).
    { rewrite Ga', <- (r_alias _ _ _ _ R1 s0 Hs0). apply (r_s0 _ _ _ _ R1). }
    assert (Et'd : alias t' d = A) by (rewrite Ga'; apply (r_d' _ _ _ _ R1)).
    destruct o.
    - (* d is written: A is in sync now *)
      destruct later; cbn [negb andb].
      + unfold exec_list. cbn [fold_left].
        constructor.
        * intros v Hv. rewrite Ga, Ga'. apply (r_alias _ _ _ _ R1 v Hv).
        * rewrite Ga. apply (r_d _ _ _ _ R1).
        * exact Et'd.
        * rewrite Ga. apply (r_s0 _ _ _ _ R1).
        * intros v. rewrite Ga. apply (r_B _ _ _ _ R1).
        * intros v. rewrite Ga. apply (r_A _ _ _ _ R1).
        * exact Gm.
        * exact Gt.
        * discriminate.
        * intros _. symmetry. exact GA.
      + unfold exec_list. cbn [fold_left exec_item]. rewrite Et's0, Et'd.
        constructor; cbn [alias memo trace].
        * intros v Hv. rewrite Ga, Ga'. apply (r_alias _ _ _ _ R1 v Hv).
        * rewrite Ga. apply (r_d _ _ _ _ R1).
        * exact Et'd.
        * rewrite Ga. apply (r_s0 _ _ _ _ R1).
        * intros v. rewrite Ga. apply (r_B _ _ _ _ R1).
        * intros v. rewrite Ga. apply (r_A _ _ _ _ R1).
        * intros b0 HA0 HB0. rewrite upd_other by exact HB0. apply Gm; assumption.
        * exact Gt.
        * intros _. rewrite upd_same. symmetry. exact GA.
        * intros _. rewrite upd_other by exact HAB. symmetry. exact GA.
    - (* d is only read: the copy-in (now or earlier) made A current *)
      rewrite orb_false_r in Hio.
      assert (Hsi : (seen || i)%bool = true) by (rewrite Hio; apply orb_true_r).
      destruct GA as [GA1 GA2]. cbn [andb]. unfold exec_list. cbn [fold_left].
      constructor.
      + intros v Hv. rewrite Ga, Ga'. apply (r_alias _ _ _ _ R1 v Hv).
      + rewrite Ga. apply (r_d _ _ _ _ R1).
      + exact Et'd.
      + rewrite Ga. apply (r_s0 _ _ _ _ R1).
      + intros v. rewrite Ga. apply (r_B _ _ _ _ R1).
      + intros v. rewrite Ga. apply (r_A _ _ _ _ R1).
      + exact Gm.
      + exact Gt.
      + intros Hd. rewrite GB, GA1. apply (r_syncB _ _ _ _ R1 Hd).
      + intros _. rewrite GA2, GA1. apply (r_syncA _ _ _ _ R1 Hsi).
  Qed.

  Lemma flat_use_is_op it f : flat_ok d others it = true -> item_flags d it = Some f ->
    exists id uses, it = IOp id uses.
  Proof.
    intros Hok Hf. destruct it as [id uses|a b ta tb|v|a b|lid body].
    - exists id, uses. reflexivity.
    - cbn [flat_ok] in Hok. apply negb_true_iff in Hok. cbn [mentions] in Hok. apply orb_false_iff in Hok as [_ Hb].
      apply existsb_eqb_false, not_in_cons in Hb as [Hbd _]. cbn [item_flags] in Hf.
      replace (b =? d)%nat with false in Hf by (symmetry; apply Nat.eqb_neq; exact Hbd). discriminate.
    - discriminate.
    - cbn [flat_ok] in Hok. apply negb_true_iff in Hok. cbn [mentions] in Hok. apply orb_false_iff in Hok as [Ha Hb].
      apply existsb_eqb_false, not_in_cons in Ha as [Had _]. apply existsb_eqb_false, not_in_cons in Hb as [Hbd _].
      cbn [item_flags] in Hf.
      replace (a =? d)%nat with false in Hf by (symmetry; apply Nat.eqb_neq; exact Had).
      replace (b =? d)%nat with false in Hf by (symmetry; apply Nat.eqb_neq; exact Hbd). discriminate.
    - discriminate.
  Qed.

  Lemma kind_io k : k_is_input k || k_is_output k = true.
  Proof. destruct k; reflexivity. Qed.

  Lemma flags_io id uses i o : item_flags d (IOp id uses) = Some (i, o) -> i || o = true.
  Proof.
    cbn [item_flags]. destruct (uses_val d uses) eqn:E; [|discriminate]. intros H.
    assert (Ei : existsb (fun u => (fst u =? d)%nat && k_is_input (snd u)) uses = i) by congruence.
    assert (Eo : existsb (fun u => (fst u =? d)%nat && k_is_output (snd u)) uses = o) by congruence.
    unfold uses_val in E. apply existsb_exists in E as [u [Hu Eu]].
    pose proof (kind_io (snd u)) as Hk. apply orb_true_iff in Hk as [Hk|Hk]; apply orb_true_iff.
    - left. rewrite <- Ei. apply existsb_exists. exists u. rewrite Eu, Hk. auto.
    - right. rewrite <- Eo. apply existsb_exists. exists u. rewrite Eu, Hk. auto.
  Qed.

  Lemma flat_not_nested it : flat_ok d others it = true -> nested_first_write d it = false.
  Proof. destruct it; cbn [nested_first_write flat_ok]; try reflexivity. discriminate. Qed.

  Lemma flat_has_out_none it : flat_ok d others it = true -> item_flags d it = None ->
    item_has_out d it = false.
  Proof.
    intros Hok Hf. destruct it; cbn [item_has_out]; try (rewrite Hf; reflexivity). discriminate.
  Qed.

  Theorem realize_block_coherent : forall l seen dirty s s',
    forallb (flat_ok d others) l = true ->
    (seen = false -> dirty = false) ->
    (dirty = true -> has_out d l = true) -> Rel seen dirty s s' ->
    exists seen', Rel seen' false (exec_list trips l s)
                      (exec_list trips (fst (ins_list d s0 seen false l)) s').
  Proof.
    induction l as [|it r IH]; intros seen dirty s s' Hflat Hinv Hdirty R.
    - exists seen. destruct dirty; [specialize (Hdirty eq_refl); discriminate|exact R].
    - cbn [forallb] in Hflat. apply andb_true_iff in Hflat as [Hit Hr].
      cbn [ins_list]. rewrite orb_false_r, (flat_not_nested it Hit), andb_false_r. cbn [app].
      change (exec_list trips (it :: r) s) with (exec_list trips r (exec_item trips it s)).
      cbn [has_out existsb] in Hdirty. fold (has_out d r) in Hdirty.
      destruct (item_flags d it) as [[i o]|] eqn:Ef.
      + destruct (flat_use_is_op it (i, o) Hit Ef) as [id [uses ->]].
        cbn [ins_item]. rewrite Ef. cbn [fst snd]. rewrite exec_list_app.
        pose proof (flags_io id uses i o Ef) as Hio.
        assert (Hfl := Ef). cbn [item_flags] in Hfl. destruct (uses_val d uses); [|discriminate].
        assert (Ei : existsb (fun u => (fst u =? d)%nat && k_is_input (snd u)) uses = i) by congruence.
        assert (Eo : existsb (fun u => (fst u =? d)%nat && k_is_output (snd u)) uses = o) by congruence.
        clear Hfl.
        pose proof (step_use seen dirty id uses i o (has_out d r) s s' Hit Ei Eo Hio R Hinv) as R1.
        apply (IH true (if o then has_out d r else dirty) _ _ Hr); [discriminate| |exact R1].
        destruct o.
        * intros Hd1. exact Hd1.
        * intros Hd. specialize (Hdirty Hd). cbn [item_has_out] in Hdirty. rewrite Ef in Hdirty. exact Hdirty.
      + pose proof (flat_has_out_none it Hit Ef) as E2. rewrite E2 in Hdirty.
        assert (Hins : ins_item d s0 seen (has_out d r) it = ([it], seen)).
        { destruct it; cbn [ins_item]; try (rewrite Ef; reflexivity). discriminate. }
        rewrite Hins. cbn [fst snd app].
        change (exec_list trips (it :: fst (ins_list d s0 seen false r)) s')
          with (exec_list trips (fst (ins_list d s0 seen false r)) (exec_item trips it s')).
        apply (IH seen dirty _ _ Hr Hinv Hdirty). apply step_other; assumption.
  Qed.
End Coherence.

(* One application of the pattern: the cast `ICast d src td ts` followed by `post` in its block becomes
   `IAlloc d` followed by `post` with the copies inserted.  s0 is the source of the cast chain. *)
Theorem realize_coherent (trips : nat -> nat) (d src td ts s0 : nat) (others : list nat) (post : list item)
  (s : state) :
  (forall v, v <> d -> alias s v <> d) ->              (* no other value names the buffer the allocation creates *)
  alias s src = alias s s0 ->                          (* the chain of casts aliases its source *)
  In (alias s s0) others -> In s0 others -> ~ In d others ->
  (forall v, alias s v = alias s s0 -> In v others) -> (* every current alias of the source buffer *)
  safe_block d others post = true ->
  let t := exec_list trips (ICast d src td ts :: post) s in
  let t' := exec_list trips (IAlloc d :: fst (ins_list d s0 false false post)) s in
  trace t = trace t' /\ forall b, b <> d -> memo t b = memo t' b.
Proof.
  intros Hfresh Hsrc HBo Hs0o Hdo Hal Hsafe t t'.
  set (B := alias s s0) in *.
  assert (Hs0 : s0 <> d) by (intros E; apply Hdo; rewrite <- E; exact Hs0o).
  assert (HAB : d <> B) by (intros E; apply (Hfresh s0 Hs0); symmetry; exact E).
  unfold safe_block in Hsafe. pose proof Hsafe as Hflat.
  assert (R : Rel d s0 B others false false (exec_item trips (ICast d src td ts) s) (exec_item trips (IAlloc d) s)).
  { cbn [exec_item]. constructor; cbn [alias memo trace].
    - intros v Hv. rewrite !upd_other by exact Hv. reflexivity.
    - rewrite upd_same. exact Hsrc.
    - apply upd_same.
    - rewrite upd_other by exact Hs0. reflexivity.
    - intros v. unfold upd. destruct (v =? d)%nat eqn:E; [left; apply Nat.eqb_eq; exact E|intros H; right; apply Hal; exact H].
    - intros v. unfold upd. destruct (v =? d)%nat eqn:E; [congruence|apply Hfresh; apply Nat.eqb_neq; exact E].
    - intros b Hb _. rewrite upd_other by exact Hb. reflexivity.
    - reflexivity.
    - intros _. rewrite upd_other by congruence. reflexivity.
    - discriminate. }
  destruct (realize_block_coherent trips d s0 B others HAB Hs0 HBo Hs0o post false false _ _ Hflat
              ltac:(reflexivity) ltac:(discriminate) R) as [seen' R'].
  unfold t, t'.
  change (exec_list trips (ICast d src td ts :: post) s) with (exec_list trips post (exec_item trips (ICast d src td ts) s)).
  change (exec_list trips (IAlloc d :: fst (ins_list d s0 false false post)) s)
    with (exec_list trips (fst (ins_list d s0 false false post)) (exec_item trips (IAlloc d) s)).
  split; [apply (r_trace _ _ _ _ _ _ _ _ R')|].
  intros b Hb. destruct (Nat.eq_dec b B) as [->|HbB].
  - symmetry. apply (r_syncB _ _ _ _ _ _ _ _ R'). reflexivity.
  - apply (r_mem _ _ _ _ _ _ _ _ R'); assumption.
Qed.

(* non-vacuity: write, read, write of one argument through a shared cast (the former F22 witness) is
   inside the Safe region of the repaired pass: the first use only writes, so no copy-in is emitted and
   the reader sees what the first writer produced; one copy-out after the last writer.  Second shape:
   read first (copy-in), then an accumulating writer (copy-out). *)
Example realize_coherent_nonvacuous :
  safe_block 2%nat [0%nat] [IOp 0 [(2, KOut)]; IOp 1 [(2, KIn); (3, KOut)]; IOp 2 [(2, KOut)]]%nat = true /\
  fst (ins_list 2%nat 0%nat false false [IOp 0 [(2, KOut)]; IOp 1 [(2, KIn); (3, KOut)]; IOp 2 [(2, KOut)]]%nat) =
    [IOp 0 [(2, KOut)]; IOp 1 [(2, KIn); (3, KOut)]; IOp 2 [(2, KOut)]; ICopy 2 0]%nat /\
  safe_block 2%nat [0%nat] [IOp 0 [(2, KIn); (3, KOut)]; IOp 1 [(3, KIn); (2, KOutAcc)]]%nat = true /\
  fst (ins_list 2%nat 0%nat false false [IOp 0 [(2, KIn); (3, KOut)]; IOp 1 [(3, KIn); (2, KOutAcc)]]%nat) =
    [ICopy 0 2; IOp 0 [(2, KIn); (3, KOut)]; IOp 1 [(3, KIn); (2, KOutAcc)]; ICopy 2 0]%nat.
Proof. repeat split; reflexivity. Qed.

(* non-vacuity of the whole hypothesis set: from the initial state (every value names its own buffer),
   the cast 2 := cast 0 followed by reader / accumulating writer / writer / reader *)
Example realize_coherent_applies :
  let post := [IOp 0 [(2, KIn); (3, KOut)]; IOp 1 [(3, KIn); (2, KOutAcc)]; IOp 2 [(2, KOut)]; IOp 3 [(2, KIn); (4, KOut)]]%nat in
  let t := exec_list (fun _ => 1%nat) (ICast 2 0 1 0 :: post) init_state in
  let t' := exec_list (fun _ => 1%nat) (IAlloc 2 :: fst (ins_list 2 0 false false post)) init_state in
  trace t = trace t' /\ forall b, b <> 2%nat -> memo t b = memo t' b.
Proof.
  apply (realize_coherent (fun _ => 1%nat) 2 0 1 0 0 [0%nat]); cbn [init_state alias].
  - intros v H. exact H.
  - reflexivity.
  - left. reflexivity.
  - left. reflexivity.
  - intros [H|[]]. discriminate.
  - intros v H. left. symmetry. exact H.
  - reflexivity.
Qed.

