(* C08 — packed CSRs: after `& 255` the 8-bit fields of csr0 / subtractions do not overlap
   (the or of the shifted fields is their sum). *)
From Snax Require Import Base.Prelude Base.ListAux Model.C08StreamerCfg Model.C08Accels.

Lemma land_255 x : Z.land x 255 = x mod 256.
Proof. change 255 with (Z.ones 8). rewrite Z.land_ones by lia. reflexivity. Qed.

Lemma land_shifted_low a r k : 0 <= k -> 0 <= r < 2 ^ k -> Z.land (a * 2 ^ k) r = 0.
Proof.
  intros Hk Hr. apply Z.bits_inj'. intros n Hn. rewrite Z.land_spec, Z.bits_0.
  destruct (Z_lt_le_dec n k) as [Hlt|Hge].
  - rewrite Z.mul_pow2_bits_low by lia. reflexivity.
  - rewrite <- (Z.mod_small r (2 ^ k)) by lia. rewrite Z.mod_pow2_bits_high by lia. apply andb_false_r.
Qed.

Lemma lor_shiftl_add a r k : 0 <= k -> 0 <= r < 2 ^ k ->
  Z.lor (Z.shiftl a k) r = a * 2 ^ k + r.
Proof.
  intros Hk Hr. rewrite Z.shiftl_mul_pow2 by lia.
  pose proof (land_shifted_low a r k Hk Hr) as H0.
  rewrite <- Z.lxor_lor by exact H0. symmetry. apply Z.add_nocarry_lxor. exact H0.
Qed.

Theorem pack_csr0_value :
  forall env mn mx zo zi,
  geval env (pack_csr0 mn mx zo zi)
  = (mn mod 256) * 2 ^ 24 + (mx mod 256) * 2 ^ 16 + (zo mod 256) * 2 ^ 8 + zi mod 256.
Proof.
  intros env mn mx zo zi. unfold pack_csr0. cbn [geval]. rewrite !land_255.
  pose proof (Z.mod_pos_bound mn 256 ltac:(lia)). pose proof (Z.mod_pos_bound mx 256 ltac:(lia)).
  pose proof (Z.mod_pos_bound zo 256 ltac:(lia)). pose proof (Z.mod_pos_bound zi 256 ltac:(lia)).
  rewrite Z.lor_0_r, Z.shiftl_0_r.
  rewrite (lor_shiftl_add (zo mod 256) (zi mod 256) 8) by lia.
  rewrite (lor_shiftl_add (mx mod 256) _ 16) by lia.
  rewrite (lor_shiftl_add (mn mod 256) _ 24) by lia.
  lia.
Qed.

Theorem pack_subtractions_value :
  forall env a b,
  geval env (GPack [(GAnd255 a, 0); (GAnd255 b, 8)])
  = (geval env a) mod 256 + ((geval env b) mod 256) * 2 ^ 8.
Proof.
  intros env a b. cbn [geval]. rewrite !land_255.
  pose proof (Z.mod_pos_bound (geval env a) 256 ltac:(lia)). pose proof (Z.mod_pos_bound (geval env b) 256 ltac:(lia)).
  rewrite Z.lor_0_r, Z.shiftl_0_r.
  (* lor x (y << 8) with x < 2^8 *)
  rewrite Z.lor_comm. rewrite (lor_shiftl_add _ _ 8) by lia. lia.
Qed.

(* each 8-bit field can be read back from the packed register *)
Corollary csr0_fields_recoverable :
  forall env mn mx zo zi, let v := geval env (pack_csr0 mn mx zo zi) in
  v mod 256 = zi mod 256 /\ (v / 2 ^ 8) mod 256 = zo mod 256 /\
  (v / 2 ^ 16) mod 256 = mx mod 256 /\ (v / 2 ^ 24) mod 256 = mn mod 256.
Proof.
  intros env mn mx zo zi v. subst v. rewrite pack_csr0_value.
  pose proof (Z.mod_pos_bound mn 256 ltac:(lia)). pose proof (Z.mod_pos_bound mx 256 ltac:(lia)).
  pose proof (Z.mod_pos_bound zo 256 ltac:(lia)). pose proof (Z.mod_pos_bound zi 256 ltac:(lia)).
  change (2 ^ 24) with 16777216. change (2 ^ 16) with 65536. change (2 ^ 8) with 256.
  repeat split; lia.
Qed.
