(* C02 — xDMA customisations: what the add extension's pattern streams, step by step. *)
From Snax Require Import Base.Prelude Base.ListAux Model.C02Stream Model.C02Gemmx Model.C02Xdma
  Proofs.C02StreamProofs Proofs.C02CanonProofs.

(* a nest over S ++ R = for every offset of R (in order), the nest over S shifted by it *)
Lemma nest_app_shift S : forall R, nest (S ++ R) = flat_map (fun o => map (fun w => o + w) (nest S)) (nest R).
Proof.
  induction S as [|[s b] S IH]; intros R; cbn [app nest].
  - cbn [map]. rewrite <- (flat_map_singleton (nest R)) at 1. apply flat_map_ext. intros o. f_equal. lia.
  - rewrite IH. rewrite flat_map_flat_map. apply flat_map_ext. intros o.
    rewrite flat_map_map. rewrite map_flat_map. apply flat_map_ext. intros w. rewrite map_map. apply map_ext. intros i. lia.
Qed.

Lemma pattern_words_steps p spats :
  pattern_words p spats = flat_map (fun o => map (fun w => o + w) (step_words p spats)) (step_offsets p).
Proof. unfold pattern_words, pattern_dims, step_words, step_offsets. apply nest_app_shift. Qed.

Lemma nest_pair s R : nest ((s, 2) :: R) = flat_map (fun o => [o; o + s]) (nest R).
Proof.
  cbn [nest]. apply flat_map_ext. intros o. change (zrange 2) with [0; 1]. cbn [map]. f_equal; [lia|]. f_equal. lia.
Qed.

(* The add extension's pattern: every temporal step of operand 0's pattern becomes two consecutive steps:
   the same words, and the same words 512 bytes further. *)
Theorem xadd_words p spats :
  pattern_words (xadd_pattern p) spats =
  flat_map (fun o => map (fun w => o + w) (step_words p spats) ++ map (fun w => o + XADD_STRIDE + w) (step_words p spats))
           (step_offsets p).
Proof.
  rewrite pattern_words_steps. unfold step_offsets at 1, step_words at 1, xadd_pattern. cbn [sp_ub sp_ts sp_ss combine].
  rewrite nest_pair. rewrite flat_map_flat_map. apply flat_map_ext. intros o. cbn [flat_map]. rewrite app_nil_r. reflexivity.
Qed.

(* absolute addresses of a pattern started at `base`, grouped per temporal step *)
Definition abs_steps (base : Z) (p : spattern) (spats : list Z) : list (list Z) :=
  map (fun o => map (fun w => base + (o + w)) (step_words p spats)) (step_offsets p).

(* Inside the Safe class (operand 1 is streamed exactly like operand 0, 512 bytes further) the single
   reader pattern fetches, for every temporal step, operand 0's words of that step followed by operand 1's. *)
Theorem xadd_sound_partial base0 base1 p0 p1 spats :
  xadd_adjacentb base0 base1 p0 p1 = true ->
  map (fun w => base0 + w) (pattern_words (xadd_pattern p0) spats) =
  concat (map (fun ab => fst ab ++ snd ab) (combine (abs_steps base0 p0 spats) (abs_steps base1 p1 spats))).
Proof.
  unfold xadd_adjacentb. intros H.
  apply andb_true_iff in H as [H Hss]. apply andb_true_iff in H as [H Hts]. apply andb_true_iff in H as [Hb Hub].
  apply Z.eqb_eq in Hb. apply (list_eqb_eq Z.eqb Z.eqb_eq) in Hub, Hts, Hss.
  rewrite xadd_words. unfold abs_steps, step_offsets, step_words. rewrite <- Hub, <- Hts, <- Hss. subst base1.
  generalize (nest (combine (sp_ts p0) (sp_ub p0))) as offs. generalize (nest (combine (sp_ss p0) spats)) as W.
  intros W offs. induction offs as [|o offs IH]; [reflexivity|].
  cbn [flat_map map combine concat fst snd]. rewrite map_app, IH. f_equal.
  rewrite map_app, !map_map. f_equal; apply map_ext; intros w; unfold XADD_STRIDE; lia.
Qed.

(* Outside the class the reader still fetches base0 + 512: operand 1's own address is never used. *)
Theorem xadd_refuted :
  let p := mkSP [2] [64] [8] in
  xadd_adjacentb 0 4096 p p = false /\
  map (fun w => 0 + w) (pattern_words (xadd_pattern p) [8]) <>
  concat (map (fun ab => fst ab ++ snd ab) (combine (abs_steps 0 p [8]) (abs_steps 4096 p [8]))).
Proof. split; [reflexivity|]. vm_compute. discriminate. Qed.

Lemma combine_seq_snd {A} (l : list A) : forall k, map (fun ip : nat * A => snd ip) (combine (seq k (List.length l)) l) = l.
Proof. induction l as [|x l IH]; intros k; [reflexivity|]. cbn [List.length seq combine map snd]. rewrite IH. reflexivity. Qed.

Lemma combine_seq_fst {A} (l : list A) : forall k,
  map (fun ip : nat * A => SOp (fst ip)) (combine (seq k (List.length l)) l) = map SOp (seq k (List.length l)).
Proof. induction l as [|x l IH]; intros k; [reflexivity|]. cbn [List.length seq combine map fst]. rewrite IH. reflexivity. Qed.

(* the customisation itself: add keeps (a widened) operand 0 and the output; every other extension is the identity *)
Theorem xdma_customise_sound k ps out :
  xdma_customise k ps = Some out ->
  match k with
  | XDefault => map fst out = ps /\ map snd out = map SOp (seq 0 (List.length ps))
  | XAdd => exists p0 rest, ps = p0 :: rest /\
              out = [(xadd_pattern p0, SOp 0); (last ps p0, SOp (List.length ps - 1))]
  end.
Proof.
  destruct k; cbn [xdma_customise]; intros H.
  - destruct ps as [|p0 rest]; [discriminate H|]. injection H as <-. exists p0, rest. split; reflexivity.
  - injection H as <-. rewrite !map_map. cbn [fst snd]. split; [apply combine_seq_snd|apply combine_seq_fst].
Qed.
