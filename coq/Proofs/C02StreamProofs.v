(* C02 — proofs about Model/C02Stream.v: resolve_linear, pattern_bytes_eq. *)
From Snax Require Import Base.Prelude Base.ListAux Model.C02Stream.

(* ======================= resolve_linear ==================================================== *)
Lemma map_const_repeat {A B} (c : B) (l : list A) : map (fun _ => c) l = repeat c (List.length l).
Proof. induction l; simpl; congruence. Qed.

Lemma unit_vec_0' n : unit_vec (S n) 0 = 1 :: zero_vec n.
Proof.
  unfold unit_vec, zero_vec. cbn [seq map Nat.eqb]. f_equal.
  rewrite <- seq_shift, map_map. cbn [Nat.eqb]. rewrite map_const_repeat, seq_length. reflexivity.
Qed.

Lemma unit_vec_S n i : unit_vec (S n) (S i) = 0 :: unit_vec n i.
Proof.
  unfold unit_vec. cbn [seq map Nat.eqb]. f_equal. rewrite <- seq_shift, map_map. reflexivity.
Qed.

Lemma dot_nil_r a : dot a [] = 0.
Proof. unfold dot. destruct a; reflexivity. Qed.
Lemma dot_cons a x b y : dot (a :: x) (b :: y) = a * b + dot x y.
Proof. reflexivity. Qed.

Lemma dot_zero_vec c n : dot c (zero_vec n) = 0.
Proof.
  revert n; induction c as [|a c IH]; intros n; [reflexivity|]. destruct n; [reflexivity|].
  unfold zero_vec in *. cbn [repeat]. rewrite dot_cons, IH. lia.
Qed.

Lemma dot_unit_vec : forall c n i, List.length c = n -> dot c (unit_vec n i) = nth i c 0.
Proof.
  induction c as [|a c IH]; intros n i Hn; simpl in Hn; subst n.
  - destruct i; reflexivity.
  - destruct i as [|i].
    + rewrite unit_vec_0', dot_cons, dot_zero_vec. simpl. lia.
    + rewrite unit_vec_S, dot_cons, IH by reflexivity. simpl. lia.
Qed.

Lemma in_box_length : forall x bounds, in_box x bounds -> List.length x = List.length bounds.
Proof. induction x as [|a x IH]; intros [|b bs] H; simpl in *; try tauto. f_equal. apply IH. tauto. Qed.

Lemma in_box_zero : forall x bounds, in_box x bounds -> in_box (zero_vec (List.length bounds)) bounds.
Proof.
  induction x as [|a x IH]; intros [|b bs] H; simpl in *; try tauto.
  destruct H as [Ha Hx]. split; [lia|]. apply IH. exact Hx.
Qed.

Lemma in_box_unit : forall x bounds i, in_box x bounds -> 2 <= nth i bounds 0 ->
  in_box (unit_vec (List.length bounds) i) bounds.
Proof.
  induction x as [|a x IH]; intros [|b bs] i H Hi; simpl in H; try tauto.
  destruct H as [Ha Hx]. cbn [List.length]. destruct i as [|i].
  - rewrite unit_vec_0'. simpl in Hi. split; [lia|]. exact (in_box_zero _ _ Hx).
  - rewrite unit_vec_S. simpl in Hi. split; [lia|]. apply (IH bs i Hx Hi).
Qed.

Lemma in_box_nth : forall x bounds i, in_box x bounds -> (i < List.length bounds)%nat ->
  0 <= nth i x 0 < nth i bounds 0.
Proof.
  induction x as [|a x IH]; intros [|b bs] i H Hi; simpl in *; try tauto; try lia.
  destruct i; [tauto|]. apply IH; [tauto|lia].
Qed.

Lemma dot_ext : forall a b x, List.length a = List.length x -> List.length b = List.length x ->
  (forall i, (i < List.length x)%nat -> nth i a 0 * nth i x 0 = nth i b 0 * nth i x 0) -> dot a x = dot b x.
Proof.
  induction a as [|a0 a IH]; intros [|b0 b] [|x0 x] Ha Hb H; simpl in Ha, Hb; try discriminate; try reflexivity.
  rewrite !dot_cons. rewrite (IH b x) by (try lia; intros i Hi; apply (H (S i)); simpl; lia).
  specialize (H 0%nat). simpl in H. rewrite H by lia. reflexivity.
Qed.

Definition linear_on_box (f : list Z -> Z) (bounds : list Z) : Prop :=
  exists c, List.length c = List.length bounds /\
            forall x, in_box x bounds -> f x = f (zero_vec (List.length bounds)) + dot c x.

Lemma resolve_length f n : List.length (resolve f n) = n.
Proof. unfold resolve. rewrite map_length, seq_length. reflexivity. Qed.

Lemma nth_map_seq {B} (g : nat -> B) n i d : (i < n)%nat -> nth i (map g (seq 0 n)) d = g i.
Proof.
  intros Hi. rewrite (nth_indep _ d (g 0%nat)) by (rewrite map_length, seq_length; exact Hi).
  rewrite (map_nth g). rewrite seq_nth by exact Hi. reflexivity.
Qed.

Lemma resolve_nth f n i : (i < n)%nat -> nth i (resolve f n) 0 = f (unit_vec n i) - f (zero_vec n).
Proof. intros Hi. unfold resolve. rewrite nth_map_seq by exact Hi. reflexivity. Qed.

Theorem resolve_linear :
  forall f bounds, linear_on_box f bounds ->
  forall x, in_box x bounds ->
  dot (resolve f (List.length bounds)) x = f x - f (zero_vec (List.length bounds)).
Proof.
  intros f bounds (c & Hc & Hlin) x Hx.
  rewrite (Hlin x Hx). replace (f (zero_vec _) + dot c x - f (zero_vec _)) with (dot c x) by lia.
  pose proof (in_box_length _ _ Hx) as Hl.
  apply dot_ext; [rewrite resolve_length; lia|lia|].
  intros i Hi. rewrite Hl in Hi. rewrite resolve_nth by exact Hi.
  pose proof (in_box_nth _ _ _ Hx Hi) as Hxi.
  destruct (Z_lt_le_dec (nth i bounds 0) 2) as [Hs|Hb].
  - replace (nth i x 0) with 0 by lia. lia.
  - rewrite (Hlin _ (in_box_unit _ _ _ Hx Hb)). rewrite dot_unit_vec by exact Hc. f_equal. lia.
Qed.

(* the pre-repair extraction (no zero response) is wrong as soon as f 0 <> 0: F5 *)
Lemma resolve_unrepaired_refuted :
  let f := access_mem (LStrided [1] 5) 8 [[4; 1]] [0] in
  linear_on_box f [4; 4] /\ resolve_unrepaired f 2 = [72; 48] /\ resolve f 2 = [32; 8] /\
  dot (resolve_unrepaired f 2) [1; 1] <> f [1; 1] - f [0; 0].
Proof.
  cbv zeta. split; [|split; [reflexivity|split; [reflexivity|vm_compute; discriminate]]].
  exists [32; 8]. split; [reflexivity|]. intros x Hx.
  destruct x as [|a [|b [|? ?]]]; simpl in Hx; try tauto.
  unfold access_mem, layout_bytes, strided_bytes, sched_eval, dot, zero_vec, zsum.
  cbn [combine map fst snd fold_right List.length repeat]. lia.
Qed.

(* ======================= pattern_bytes_eq =================================================== *)
Lemma bytes_at_run w n o : 0 <= w -> 0 <= n ->
  flat_map (bytes_at w) (map (fun i => o + i * w) (zrange n)) = bytes_at (n * w) o.
Proof.
  intros Hw Hn. unfold bytes_at. rewrite (zrange_mul n w Hn Hw). rewrite flat_map_map, map_flat_map.
  apply flat_map_ext_in. intros i _. rewrite map_map. apply map_ext. intros; lia.
Qed.

(* the bytes of an innermost contiguous dim of b units of w bytes are the bytes of one unit of b*w *)
Lemma byte_stream_inner w b r : 0 <= w -> 0 <= b ->
  byte_stream w (nest ((w, b) :: r)) = byte_stream (b * w) (nest r).
Proof.
  intros Hw Hb. unfold byte_stream. cbn [nest]. rewrite flat_map_flat_map.
  apply flat_map_ext_in. intros o _. apply bytes_at_run; assumption.
Qed.

Lemma nest_cons_congr d X Y : nest X = nest Y -> nest (d :: X) = nest (d :: Y).
Proof. destruct d as [s b]. cbn [nest]. intros ->. reflexivity. Qed.

(* merging two dims whose strides nest: (s, b), (s*b, nb) == (s, nb*b) *)
Lemma nest_merge s b nb r : 0 <= b -> 0 <= nb ->
  nest ((s, b) :: (s * b, nb) :: r) = nest ((s, nb * b) :: r).
Proof.
  intros Hb Hnb. cbn [nest]. rewrite flat_map_flat_map. apply flat_map_ext_in. intros o _.
  rewrite flat_map_map. rewrite (zrange_mul nb b Hnb Hb). rewrite map_flat_map.
  apply flat_map_ext_in. intros j _. rewrite map_map. apply map_ext. intros i. lia.
Qed.

Definition optcons (c : option dim) (r : list dim) : list dim :=
  match c with Some d => d :: r | None => r end.

Lemma pop_opt_optcons rest : optcons (fst (pop_opt rest)) (snd (pop_opt rest)) = rest.
Proof. destruct rest; reflexivity. Qed.

Lemma fill_spatial_nest bcast : forall spats cur rest ss ss' cur' rest',
  fill_okb spats cur rest = true ->
  fill_spatial bcast spats cur rest ss = Ok (ss', cur', rest') ->
  exists news, ss' = ss ++ news /\ List.length news = List.length spats /\
               nest (optcons cur rest) = nest (combine news spats ++ optcons cur' rest').
Proof.
  induction spats as [|sp spats IH]; intros cur rest ss ss' cur' rest' Hok H.
  - simpl in H. inversion H; subst. exists []. rewrite app_nil_r. auto.
  - cbn [fill_okb fill_spatial] in Hok, H. destruct cur as [[s b]|]; [|discriminate].
    destruct (b =? sp) eqn:Eb.
    + apply Z.eqb_eq in Eb. subst sp.
      pose proof (pop_opt_optcons rest) as Hp. destruct (pop_opt rest) as [c r]. cbn [fst snd] in Hp.
      apply andb_true_iff in Hok as [Hb Hok].
      destruct (IH _ _ _ _ _ _ Hok H) as (news & -> & Hl & Hn).
      exists (s :: news). rewrite <- app_assoc. split; [reflexivity|]. split; [simpl; lia|].
      cbn [optcons combine app]. rewrite <- Hp. apply nest_cons_congr. exact Hn.
    + destruct (b <? sp) eqn:Elt; [|discriminate].
      destruct rest as [|[ns nb] r]; [discriminate|].
      repeat (apply andb_true_iff in Hok as [Hok ?]).
      rename H0 into Hrec, H1 into Hdiv2, H2 into Hnb, H3 into Hns, H4 into Hdiv1.
      assert (Hb : 0 < b) by lia. apply Z.eqb_eq in Hdiv1, Hns, Hdiv2. apply Z.leb_le in Hnb. subst ns.
      replace (b =? 0) with false in H by (symmetry; apply Z.eqb_neq; lia).
      rewrite Hdiv1 in H. cbn [negb Z.eqb] in H. rewrite Z.eqb_refl in H. cbn [negb] in H.
      destruct (IH _ _ _ _ _ _ Hrec H) as (news & -> & Hl & Hn).
      exists (s :: news). rewrite <- app_assoc. split; [reflexivity|]. split; [simpl; lia|].
      cbn [optcons combine app]. cbn [optcons] in Hn.
      assert (Hsp : sp = b * (sp / b)) by (apply Z.div_exact; lia).
      assert (Hab : 0 < sp / b) by (apply Z.div_str_pos; lia).
      assert (Hnbq : nb = (sp / b) * (nb / (sp / b))) by (apply Z.div_exact; lia).
      assert (Hq : 0 <= nb / (sp / b)) by (apply Z.div_pos; lia).
      rewrite nest_merge by lia.
      transitivity (nest ((s, sp) :: (s * sp, nb / (sp / b)) :: r)).
      * rewrite nest_merge by lia. do 3 f_equal.
        clear - Hsp Hnbq. remember (sp / b) as a. remember (nb / a) as q. rewrite Hnbq, Hsp. ring.
      * apply nest_cons_congr. replace (s * sp) with (s * b * (sp / b)); [exact Hn|].
        clear - Hsp. remember (sp / b) as a. rewrite Hsp. ring.
Qed.

(* when the current dim is None the iterator is exhausted *)
Lemma fill_spatial_none bcast : forall spats c0 rest ss0 ss' rest',
  (c0 = None -> rest = []) ->
  fill_spatial bcast spats c0 rest ss0 = Ok (ss', None, rest') -> rest' = [].
Proof.
  induction spats as [|sp spats IH]; intros c0 rest ss0 ss' rest' Hinv Efs.
  - simpl in Efs. inversion Efs; subst. apply Hinv. reflexivity.
  - cbn [fill_spatial] in Efs. destruct c0 as [[s b]|]; [|discriminate].
    destruct (b =? sp).
    + destruct rest as [|d0 r0]; cbn [pop_opt] in Efs.
      * refine (IH _ _ _ _ _ _ Efs); intros; reflexivity.
      * refine (IH _ _ _ _ _ _ Efs); intros; discriminate.
    + destruct (b <? sp); [|discriminate]. destruct (b =? 0); [discriminate|].
      destruct (negb (sp mod b =? 0)); [discriminate|]. destruct rest as [|[ns nb] r]; [discriminate|].
      destruct (negb (s * b =? ns)).
      * destruct ((ns =? 0) && bcast); [|discriminate]. refine (IH _ _ _ _ _ _ Efs); intros; discriminate.
      * refine (IH _ _ _ _ _ _ Efs); intros; discriminate.
Qed.

Lemma combine_fst_snd (l : list dim) : combine (map fst l) (map snd l) = l.
Proof. induction l as [|[a b] l IH]; [reflexivity|]. cbn [map combine fst snd]. rewrite IH. reflexivity. Qed.

Theorem pattern_bytes_eq :
  forall elsize bcast spats dims p,
  convert_okb elsize spats dims = true -> to_pattern bcast spats dims = Ok p ->
  byte_stream TCDM (pattern_words p spats) = byte_stream elsize (nest dims).
Proof.
  intros elsize bcast spats dims p Hok H. unfold convert_okb in Hok.
  apply andb_true_iff in Hok as [Hok Hfill]. apply andb_true_iff in Hok as [Hfirst Hnn].
  unfold to_pattern in H. destruct (first_dim dims) as [[d rest]|] eqn:Ef; [|discriminate].
  destruct (fill_spatial bcast spats (Some d) rest []) as [[[ss cur'] rest']|] eqn:Efs; [|discriminate].
  inversion H; subst p; clear H.
  destruct (fill_spatial_nest _ _ _ _ _ _ _ _ Hfill Efs) as (news & Hss & Hl & Hn). simpl in Hss. subst ss.
  unfold pattern_words, pattern_dims. cbn [sp_ss sp_ts sp_ub].
  rewrite combine_fst_snd.
  match goal with |- byte_stream _ (nest ?X) = _ => assert (Hw : nest X = nest (d :: rest)) end.
  { cbn [optcons] in Hn. rewrite Hn. destruct cur' as [c|]; cbn [optcons]; [reflexivity|].
    rewrite (fill_spatial_none bcast spats (Some d) rest [] news rest'); [reflexivity|intros; discriminate|exact Efs]. }
  rewrite Hw. clear Hw Hn Efs Hfill.
  (* the first dim: bank-width packing *)
  unfold first_okb in Hfirst. destruct dims as [|[s b] rest0]; [discriminate|].
  repeat (apply andb_true_iff in Hfirst as [Hfirst ?]).
  apply Z.eqb_eq in Hfirst. apply Z.ltb_lt in H1, H0. apply Z.eqb_eq in H. subst s.
  cbn [first_dim] in Ef. unfold TCDM in *.
  rewrite byte_stream_inner by lia.
  destruct (elsize * b =? 8) eqn:E8.
  - apply Z.eqb_eq in E8. destruct rest0 as [|d0 r0]; [discriminate|]. inversion Ef; subst d rest.
    f_equal. lia.
  - apply Z.eqb_neq in E8. destruct (elsize * b <? 8) eqn:El8.
    + apply Z.ltb_lt in El8. exfalso. assert (elsize * b > 0) by nia.
      assert (elsize * b = 8 * (elsize * b / 8)) by (apply Z.div_exact; lia). lia.
    + inversion Ef; subst d rest. rewrite byte_stream_inner by (try lia; apply Z.div_pos; nia).
      f_equal. assert (elsize * b = 8 * (elsize * b / 8)) by (apply Z.div_exact; lia). lia.
Qed.

(* ---- consequences: per temporal step --------------------------------------------------------- *)
(* equal streams have equal chunks: the k-th block of `n` bytes is the same on both sides *)
Corollary pattern_step_bytes_eq :
  forall elsize bcast spats dims p n k,
  convert_okb elsize spats dims = true -> to_pattern bcast spats dims = Ok p ->
  firstn n (skipn (k * n) (byte_stream TCDM (pattern_words p spats)))
  = firstn n (skipn (k * n) (byte_stream elsize (nest dims))).
Proof. intros. erewrite pattern_bytes_eq by eassumption. reflexivity. Qed.

(* error constructors: the conversion stops exactly as the Python does on an exhausted iterator *)
Lemma to_pattern_empty bcast spats : to_pattern bcast spats [] = Err EStop.
Proof. reflexivity. Qed.
