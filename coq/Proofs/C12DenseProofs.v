(* C12 (i) — is_dense implies the sortedness precondition of transform_constant_correct, for layouts
   with positive steps.  Argument: the addresses of a dense layout are exactly [0, N), each with a
   unique digit vector; take the strides in ascending step order; if the strides before position k
   form a mixed-radix system of size P, the value P must be representable, which forces the k-th
   step (bound > 1) to be <= P, and a step < P would have a second representation: so it is P. *)
From Coq Require Import Permutation Sorted.
From Snax Require Import Base.Prelude Base.ListAux Model.Tsl Model.C05Copy Model.C12Const
  Proofs.TslProofs Proofs.C05ExtraProofs Proofs.C12ConstProofs.

(* ---- digit sums over (step, bound) lists ------------------------------------------------------- *)
Fixpoint dsum (l : list sstride) (ds : list Z) : Z :=
  match l, ds with
  | s :: l', d :: ds' => d * fst s + dsum l' ds'
  | _, _ => 0
  end.

Lemma av_in l : forall a, In a (av l) <-> exists ds, dvalid ds (map snd l) /\ a = dsum l ds.
Proof.
  induction l as [|s l IH]; intros a; cbn [av map].
  - split.
    + intros [<-|[]]. exists []. split; [constructor|reflexivity].
    + intros [ds [Hv ->]]. inversion Hv; subst. left. reflexivity.
  - rewrite in_flat_map. split.
    + intros [v [Hv Ha]]. apply in_map_iff in Ha as [w [<- Hw]]. apply IH in Hw as [ds [Hds ->]].
      unfold stride_values in Hv. apply in_map_iff in Hv as [i [<- Hi]]. apply in_zrange in Hi.
      exists (i :: ds). split; [constructor; assumption|]. cbn [dsum]. ring.
    + intros [ds [Hv ->]]. inversion Hv as [|d b ds' bs Hd Hv']; subst.
      exists (fst s * d). split.
      * unfold stride_values. apply in_map. apply in_zrange. exact Hd.
      * apply in_map_iff. exists (dsum l ds'). split; [cbn [dsum]; ring|]. apply IH. exists ds'. auto.
Qed.

Lemma length_flat_map_const {A B} (f : A -> list B) n (L : list A) :
  (forall x, In x L -> length (f x) = n) -> length (flat_map f L) = (length L * n)%nat.
Proof.
  induction L as [|x L IH]; intros H; [reflexivity|]. cbn [flat_map length]. rewrite app_length, IH, H.
  - lia.
  - left. reflexivity.
  - intros y Hy. apply H. right. exact Hy.
Qed.

Lemma av_length l : Forall (fun s => 0 <= snd s) l -> length (av l) = Z.to_nat (zprod (map snd l)).
Proof.
  induction 1 as [|s l Hs Hl IH]; [reflexivity|]. cbn [av map].
  rewrite (length_flat_map_const _ (length (av l))) by (intros; apply map_length).
  unfold stride_values. rewrite map_length, zrange_length, IH. rewrite zprod_cons.
  rewrite Z2Nat.inj_mul; [reflexivity|exact Hs|].
  clear -Hl. induction Hl as [|x r Hx Hr IHr]; [cbn; lia|]. cbn [map]. rewrite zprod_cons. nia.
Qed.

(* ---- NoDup of a flat_map ------------------------------------------------------------------------- *)
Lemma NoDup_app_disjoint {A} (l1 l2 : list A) x : NoDup (l1 ++ l2) -> In x l1 -> In x l2 -> False.
Proof.
  induction l1 as [|y l1 IH]; intros H H1 H2; [destruct H1|]. cbn [app] in H. inversion H as [|? ? Hy H']; subst.
  destruct H1 as [->|H1]; [apply Hy; apply in_app_iff; right; exact H2|apply IH; assumption].
Qed.

Lemma NoDup_app_parts {A} (l1 l2 : list A) : NoDup (l1 ++ l2) -> NoDup l1 /\ NoDup l2.
Proof.
  induction l1 as [|y l1 IH]; intros H; [split; [constructor|exact H]|].
  cbn [app] in H. inversion H as [|? ? Hy H']; subst. destruct (IH H') as [I1 I2]. split; [|exact I2].
  constructor; [intros Hin; apply Hy; apply in_app_iff; left; exact Hin|exact I1].
Qed.

Lemma NoDup_flat_map_sep {A B} (h : A -> list B) (L : list A) :
  NoDup (flat_map h L) -> NoDup L ->
  (forall i, In i L -> NoDup (h i)) /\
  (forall i j x, In i L -> In j L -> In x (h i) -> In x (h j) -> i = j).
Proof.
  induction L as [|a L IH]; intros H HL; [split; intros; contradiction|].
  cbn [flat_map] in H. inversion HL as [|? ? Ha HL']; subst.
  destruct (NoDup_app_parts _ _ H) as [H1 H2].
  destruct (IH H2 HL') as [IH1 IH2]. split.
  - intros i [<-|Hi]; [exact H1|apply IH1; exact Hi].
  - intros i j x [<-|Hi] [<-|Hj] Hxi Hxj; try reflexivity.
    + exfalso. apply (NoDup_app_disjoint _ _ x H Hxi). apply in_flat_map. exists j. auto.
    + exfalso. apply (NoDup_app_disjoint _ _ x H Hxj). apply in_flat_map. exists i. auto.
    + apply (IH2 i j x); assumption.
Qed.

Lemma NoDup_zrange n : NoDup (zrange n).
Proof. unfold zrange. apply FinFun.Injective_map_NoDup; [|apply seq_NoDup]. intros a b H. lia. Qed.

Lemma NoDup_map_inv {A B} (f : A -> B) (l : list A) : NoDup (map f l) -> NoDup l.
Proof.
  induction l as [|x l IH]; intros H; [constructor|]. cbn [map] in H. inversion H as [|? ? Hx H']; subst.
  constructor; [intros Hin; apply Hx; apply in_map; exact Hin|apply IH; exact H'].
Qed.

(* unique digit vectors *)
Lemma av_inj l : NoDup (av l) -> forall ds ds', dvalid ds (map snd l) -> dvalid ds' (map snd l) ->
  dsum l ds = dsum l ds' -> ds = ds'.
Proof.
  induction l as [|s l IH]; intros Hnd ds ds' Hv Hv' E.
  - inversion Hv; inversion Hv'; reflexivity.
  - cbn [map] in Hv, Hv'. inversion Hv as [|d b r bs Hd Hr]; subst. inversion Hv' as [|d' b' r' bs' Hd' Hr']; subst.
    cbn [av] in Hnd. unfold stride_values in Hnd. rewrite flat_map_map in Hnd.
    destruct (NoDup_flat_map_sep _ _ Hnd (NoDup_zrange (snd s))) as [N1 N2].
    cbn [dsum] in E.
    assert (Hin1 : In (d * fst s + dsum l r) (map (fun w => fst s * d + w) (av l))).
    { apply in_map_iff. exists (dsum l r). split; [ring|]. apply av_in. exists r. auto. }
    assert (Hin2 : In (d * fst s + dsum l r) (map (fun w => fst s * d' + w) (av l))).
    { rewrite E. apply in_map_iff. exists (dsum l r'). split; [ring|]. apply av_in. exists r'. auto. }
    assert (Edd : d = d').
    { apply (N2 d d' _ (proj2 (in_zrange _ _) Hd) (proj2 (in_zrange _ _) Hd') Hin1 Hin2). }
    subst d'. f_equal. apply IH; try assumption; [|lia].
    apply (NoDup_map_inv (fun w => fst s * d + w)). apply N1. apply in_zrange. exact Hd.
Qed.

(* ---- av is invariant under permutation of the strides (as a multiset) ----------------------------- *)
Lemma perm_flat_map_pointwise {A B} (f g : A -> list B) (L : list A) :
  (forall x, Permutation (f x) (g x)) -> Permutation (flat_map f L) (flat_map g L).
Proof. intros H. induction L as [|x L IH]; [constructor|]. cbn [flat_map]. apply Permutation_app; [apply H|exact IH]. Qed.

Lemma perm_flat_map_app {A B} (f g : A -> list B) (X : list A) :
  Permutation (flat_map (fun w => f w ++ g w) X) (flat_map f X ++ flat_map g X).
Proof.
  induction X as [|x X IH]; [constructor|]. cbn [flat_map].
  apply Permutation_trans with ((f x ++ g x) ++ (flat_map f X ++ flat_map g X)); [apply Permutation_app_head; exact IH|].
  rewrite <- !app_assoc. apply Permutation_app_head.
  rewrite !app_assoc. apply Permutation_app_tail. apply Permutation_app_comm.
Qed.

Lemma perm_flat_map_swap {A B C} (F : A -> B -> list C) (X : list B) (Y : list A) :
  Permutation (flat_map (fun v => flat_map (fun w => F v w) X) Y)
              (flat_map (fun w => flat_map (fun v => F v w) Y) X).
Proof.
  induction Y as [|y Y IH]; cbn [flat_map].
  - induction X as [|x X IHX]; [constructor|]. cbn [flat_map app]. exact IHX.
  - apply Permutation_trans with (flat_map (F y) X ++ flat_map (fun w => flat_map (fun v => F v w) Y) X);
      [apply Permutation_app_head; exact IH|].
    apply Permutation_sym. apply (perm_flat_map_app (F y) (fun w => flat_map (fun v => F v w) Y) X).
Qed.

Lemma av_perm l l' : Permutation l l' -> Permutation (av l) (av l').
Proof.
  induction 1 as [|x l l' HP IH|x y l|l l' l'' HP1 IH1 HP2 IH2].
  - apply Permutation_refl.
  - cbn [av]. apply perm_flat_map_pointwise. intros v. apply Permutation_map. exact IH.
  - cbn [av].
    assert (E : forall (a b : sstride),
              flat_map (fun v => map (fun w => v + w) (flat_map (fun v' => map (fun w => v' + w) (av l)) (stride_values b)))
                       (stride_values a) =
              flat_map (fun v => flat_map (fun v' => map (fun w => v + (v' + w)) (av l)) (stride_values b)) (stride_values a)).
    { intros a b. apply flat_map_ext. intros v. rewrite map_flat_map. apply flat_map_ext. intros v'.
      rewrite map_map. reflexivity. }
    rewrite (E y x), (E x y).
    apply Permutation_trans with
      (flat_map (fun v' => flat_map (fun v => map (fun w => v + (v' + w)) (av l)) (stride_values y)) (stride_values x)).
    + apply (perm_flat_map_swap (fun v v' => map (fun w => v + (v' + w)) (av l))).
    + apply perm_flat_map_pointwise. intros v'. apply perm_flat_map_pointwise. intros v.
      erewrite map_ext; [apply Permutation_refl|]. intros w. ring.
  - apply Permutation_trans with (av l'); assumption.
Qed.

(* ---- small facts about digit sums --------------------------------------------------------------------- *)
Lemma dsum_app l1 l2 d1 d2 : length d1 = length l1 -> dsum (l1 ++ l2) (d1 ++ d2) = dsum l1 d1 + dsum l2 d2.
Proof.
  revert d1. induction l1 as [|s l1 IH]; intros [|d d1] H; try discriminate; cbn [app dsum]; [lia|].
  rewrite IH by (simpl in H; lia). lia.
Qed.

Lemma dvalid_length ds bs : dvalid ds bs -> length ds = length bs.
Proof. induction 1; cbn [length]; congruence. Qed.

Definition zeros {A} (l : list A) : list Z := map (fun _ => 0) l.

Lemma dsum_zeros l : dsum l (zeros l) = 0.
Proof. induction l as [|s l IH]; [reflexivity|]. cbn [zeros map dsum]. fold (zeros l). rewrite IH. lia. Qed.

Lemma dvalid_zeros l : Forall (fun s : sstride => 0 < snd s) l -> dvalid (zeros l) (map snd l).
Proof. induction 1 as [|s l Hs Hl IH]; [constructor|]. cbn [zeros map]. constructor; [lia|exact IH]. Qed.

Lemma dsum_nonneg l : Forall (fun s : sstride => 0 < fst s) l -> forall ds, dvalid ds (map snd l) -> 0 <= dsum l ds.
Proof.
  induction 1 as [|s l Hs Hl IH]; intros ds Hv; inversion Hv as [|d b r bs Hd Hr]; subst; [cbn; lia|].
  cbn [dsum]. specialize (IH r Hr). nia.
Qed.

Lemma dsum_min m l : 0 < m -> Forall (fun s : sstride => m <= fst s) l ->
  forall ds, dvalid ds (map snd l) -> dsum l ds = 0 \/ m <= dsum l ds.
Proof.
  intros Hm. induction 1 as [|s l Hs Hl IH]; intros ds Hv; inversion Hv as [|d b r bs Hd Hr]; subst; [left; reflexivity|].
  cbn [dsum]. destruct (IH r Hr) as [E|E].
  - rewrite E. destruct (Z.eq_dec d 0) as [->|Hd0]; [left; lia|right; nia].
  - right. nia.
Qed.

Lemma zprod_pos_bounds l : Forall (fun s : sstride => 0 < snd s) l -> 0 < zprod (map snd l).
Proof. induction 1 as [|s l Hs Hl IH]; [cbn; lia|]. cbn [map]. rewrite zprod_cons. nia. Qed.

(* ---- the core argument ---------------------------------------------------------------------------------- *)
Fixpoint asc_okp (c : Z) (l : list sstride) : Prop :=
  match l with
  | [] => True
  | e :: r => (snd e = 1 \/ fst e = c) /\ asc_okp (c * snd e) r
  end.

Definition Rle (a b : sstride) : Prop := fst a <= fst b.

Section Core.
  Variable l : list sstride.
  Hypothesis Hpos : Forall (fun s => 0 < fst s /\ 0 < snd s) l.
  Hypothesis Hnd : NoDup (av l).
  Hypothesis Hmax : forall a, In a (av l) -> a < zprod (map snd l).
  Hypothesis Hsorted : StronglySorted Rle l.

  Lemma pos_fst : Forall (fun s : sstride => 0 < fst s) l.
  Proof. apply (Forall_impl _ (fun s H => proj1 H) Hpos). Qed.
  Lemma pos_snd : Forall (fun s : sstride => 0 < snd s) l.
  Proof. apply (Forall_impl _ (fun s H => proj2 H) Hpos). Qed.

  (* every value of [0, N) is an address *)
  Lemma av_surj a : 0 <= a < zprod (map snd l) -> In a (av l).
  Proof.
    intros Ha.
    assert (Hincl : incl (av l) (zrange (zprod (map snd l)))).
    { intros x Hx. apply in_zrange. split; [|apply Hmax; exact Hx].
      apply av_in in Hx as [ds [Hv ->]]. apply (dsum_nonneg l pos_fst ds Hv). }
    assert (Hlen : (length (zrange (zprod (map snd l))) <= length (av l))%nat).
    { rewrite zrange_length, av_length; [lia|]. apply (Forall_impl _ (fun s H => Z.lt_le_incl _ _ (proj2 H)) Hpos). }
    apply (NoDup_length_incl Hnd Hlen Hincl). apply in_zrange. exact Ha.
  Qed.

  Lemma core : forall suf pre P, l = pre ++ suf -> P = zprod (map snd pre) ->
    (forall dp, dvalid dp (map snd pre) -> 0 <= dsum pre dp < P) ->
    (forall x, 0 <= x < P -> exists dp, dvalid dp (map snd pre) /\ dsum pre dp = x) ->
    asc_okp P suf.
  Proof.
    induction suf as [|e r IH]; intros pre P El EP R1 R2; [exact I|].
    assert (Hpre : Forall (fun s => 0 < fst s /\ 0 < snd s) pre /\ Forall (fun s => 0 < fst s /\ 0 < snd s) (e :: r)).
    { rewrite El in Hpos. apply Forall_app in Hpos. exact Hpos. }
    destruct Hpre as [Hp1 Hp2]. inversion Hp2 as [|? ? [Hes Heb] Hpr]; subst x l0.
    assert (HPpos : 0 < P) by (rewrite EP; apply zprod_pos_bounds; apply (Forall_impl _ (fun s H => proj2 H) Hp1)).
    assert (Hstep : snd e = 1 \/ fst e = P).
    { destruct (Z.eq_dec (snd e) 1) as [E1|E1]; [left; exact E1|right].
      assert (Hb : 2 <= snd e) by lia.
      set (Q := zprod (map snd r)).
      assert (HQ : 0 < Q) by (apply zprod_pos_bounds; apply (Forall_impl _ (fun s H => proj2 H) Hpr)).
      assert (HN : zprod (map snd l) = P * (snd e * Q)).
      { rewrite El, map_app, zprod_app. cbn [map]. rewrite zprod_cons, EP. reflexivity. }
      assert (HbQ : 2 <= snd e * Q) by nia.
      assert (HPN : 0 <= P < zprod (map snd l)).
      { rewrite HN. split; [lia|]. assert (P * 2 <= P * (snd e * Q)) by (apply Z.mul_le_mono_nonneg_l; lia). lia. }
      (* P is an address *)
      pose proof (av_surj P HPN) as HinP. apply av_in in HinP as [d [Hvd EdP]].
      rewrite El, map_app in Hvd. apply Forall2_app_inv_r in Hvd as [dp [dsf [Hvp [Hvs Ed]]]]. subst d.
      rewrite El in EdP. rewrite dsum_app in EdP by (rewrite (dvalid_length _ _ Hvp), map_length; reflexivity).
      destruct (R1 dp Hvp) as [Rp0 Rp1].
      (* the suffix contributes at least the step of e *)
      assert (Hge : Forall (fun s : sstride => fst e <= fst s) (e :: r)).
      { constructor; [lia|]. rewrite El in Hsorted.
        assert (Hss : StronglySorted Rle (e :: r)).
        { clear -Hsorted. induction pre as [|x pre IHp]; [exact Hsorted|]. cbn [app] in Hsorted.
          inversion Hsorted; subst. apply IHp. assumption. }
        inversion Hss as [|? ? _ Hf]; subst. exact Hf. }
      destruct (dsum_min (fst e) (e :: r) Hes Hge dsf Hvs) as [E0|Ege]; [lia|].
      assert (Hle : fst e <= P) by lia.
      destruct (Z.eq_dec (fst e) P) as [E|Hne]; [exact E|exfalso].
      (* fst e < P: two digit vectors for the same address *)
      destruct (R2 (fst e) ltac:(lia)) as [dp' [Hvp' Es']].
      set (v1 := dp' ++ (0 :: zeros r)). set (v2 := zeros pre ++ (1 :: zeros r)).
      assert (Hzr : dvalid (zeros r) (map snd r)) by (apply dvalid_zeros; apply (Forall_impl _ (fun s H => proj2 H) Hpr)).
      assert (Hzp : dvalid (zeros pre) (map snd pre)) by (apply dvalid_zeros; apply (Forall_impl _ (fun s H => proj2 H) Hp1)).
      assert (Hv1 : dvalid v1 (map snd l)).
      { rewrite El, map_app. apply Forall2_app; [exact Hvp'|]. cbn [map]. constructor; [lia|exact Hzr]. }
      assert (Hv2 : dvalid v2 (map snd l)).
      { rewrite El, map_app. apply Forall2_app; [exact Hzp|]. cbn [map]. constructor; [lia|exact Hzr]. }
      assert (Es1 : dsum l v1 = fst e).
      { rewrite El. unfold v1. rewrite dsum_app by (rewrite (dvalid_length _ _ Hvp'), map_length; reflexivity).
        cbn [dsum]. rewrite dsum_zeros. lia. }
      assert (Es2 : dsum l v2 = fst e).
      { rewrite El. unfold v2. rewrite dsum_app by (unfold zeros; rewrite map_length; reflexivity).
        cbn [dsum]. rewrite !dsum_zeros. lia. }
      pose proof (av_inj l Hnd v1 v2 Hv1 Hv2 ltac:(congruence)) as Ev.
      unfold v1, v2 in Ev. apply app_inv_head_iff || idtac.
      assert (Hl12 : length dp' = length (zeros pre)).
      { rewrite (dvalid_length _ _ Hvp'), (dvalid_length _ _ Hzp). reflexivity. }
      assert (Etl : 0 :: zeros r = 1 :: zeros r).
      { clear -Ev Hl12. revert Ev Hl12. generalize (zeros pre) as z. induction dp' as [|a dp' IHd]; intros [|b z] Ev Hl; try discriminate.
        cbn [app] in Ev. inversion Ev. apply (IHd z); [assumption|simpl in Hl; lia]. }
      discriminate. }
    split; [exact Hstep|].
    apply (IH (pre ++ [e]) (P * snd e)).
    - rewrite <- app_assoc. exact El.
    - rewrite map_app, zprod_app, EP. cbn [map]. rewrite zprod_cons. change (zprod []) with 1. rewrite Z.mul_1_r. reflexivity.
    - intros dq Hvq. rewrite map_app in Hvq. apply Forall2_app_inv_r in Hvq as [dp [de [Hvp [Hve ->]]]].
      cbn [map] in Hve. inversion Hve as [|d0 b0 t0 bs0 Hd0 Ht0]; subst. inversion Ht0; subst.
      rewrite dsum_app by (rewrite (dvalid_length _ _ Hvp), map_length; reflexivity).
      cbn [dsum]. destruct (R1 dp Hvp) as [A1 A2].
      destruct Hstep as [E1|EP']; [assert (d0 = 0) by lia; subst; rewrite E1; lia|rewrite EP'; nia].
    - intros x Hx. destruct Hstep as [E1|EP'].
      + rewrite E1 in Hx. destruct (R2 x ltac:(lia)) as [dp [Hvp Es]]. exists (dp ++ [0]). split.
        * rewrite map_app. apply Forall2_app; [exact Hvp|]. cbn [map]. constructor; [lia|constructor].
        * rewrite dsum_app by (rewrite (dvalid_length _ _ Hvp), map_length; reflexivity). cbn [dsum]. lia.
      + assert (Hq : 0 <= x / P < snd e).
        { split; [apply Z.div_pos; lia|apply Z.div_lt_upper_bound; lia]. }
        destruct (R2 (x mod P) (Z.mod_pos_bound x P HPpos)) as [dp [Hvp Es]]. exists (dp ++ [x / P]). split.
        * rewrite map_app. apply Forall2_app; [exact Hvp|]. cbn [map]. constructor; [exact Hq|constructor].
        * rewrite dsum_app by (rewrite (dvalid_length _ _ Hvp), map_length; reflexivity). cbn [dsum].
          rewrite Es, EP'. pose proof (Z.div_mod x P ltac:(lia)). lia.
  Qed.

  Theorem dense_asc : asc_okp 1 l.
  Proof.
    apply (core l [] 1 eq_refl eq_refl).
    - intros dp Hv. inversion Hv; subst. cbn. lia.
    - intros x Hx. exists []. split; [constructor|cbn; lia].
  Qed.
End Core.

(* ---- glue: the ascending sort of the flat strides ---------------------------------------------------- *)
Definition sb (a : fstride) : sstride := (f_step a, f_bound a).
Definition Rf (a b : fstride) : Prop := f_step a <= f_step b.

Lemma map_sb_with_rm l : map sb (with_rm l) = l.
Proof. induction l as [|[s b] l IH]; [reflexivity|]. cbn [with_rm map]. rewrite IH. reflexivity. Qed.

Lemma sort_asc_perm w : Permutation w (sort_asc w).
Proof.
  induction w as [|x w IH]; [constructor|]. cbn [sort_asc fold_right].
  apply Permutation_trans with (x :: sort_asc w); [constructor; exact IH|apply insert_asc_perm].
Qed.

Lemma insert_asc_sorted x l : StronglySorted Rf l -> StronglySorted Rf (insert_asc x l).
Proof.
  induction 1 as [|y l Hl IH Hy]; cbn [insert_asc]; [constructor; constructor|].
  destruct (f_step x <=? f_step y) eqn:E.
  - assert (Hxy : f_step x <= f_step y) by lia.
    constructor; [constructor; assumption|]. constructor; [exact Hxy|].
    apply (Forall_impl _ (fun z (H : Rf y z) => Z.le_trans _ _ _ Hxy H) Hy).
  - constructor; [exact IH|].
    apply (Permutation_Forall (insert_asc_perm x l)). constructor; [unfold Rf; lia|exact Hy].
Qed.

Lemma sort_asc_sorted w : StronglySorted Rf (sort_asc w).
Proof. induction w as [|x w IH]; [constructor|]. cbn [sort_asc fold_right]. apply insert_asc_sorted. exact IH. Qed.

Lemma sorted_map_sb l : StronglySorted Rf l -> StronglySorted Rle (map sb l).
Proof.
  induction 1 as [|y l Hl IH Hy]; cbn [map]; constructor; [exact IH|].
  apply Forall_forall. intros z Hz. apply in_map_iff in Hz as [a [<- Ha]].
  apply (proj1 (Forall_forall _ _) Hy a Ha).
Qed.

Lemma asc_mr_sorted : forall l c acc, asc_okp c (map sb l) -> mr_sorted acc = true ->
  c = zprod (map f_bound acc) -> mr_sorted (rev l ++ acc) = true.
Proof.
  induction l as [|a l IH]; intros c acc Hok Hacc Ec; [exact Hacc|].
  cbn [map asc_okp] in Hok. destruct Hok as [Ha Hl]. cbn [sb fst snd] in Ha, Hl.
  cbn [rev]. rewrite <- app_assoc. cbn [app]. apply (IH (c * f_bound a) (a :: acc) Hl).
  - cbn [mr_sorted]. rewrite Hacc, andb_true_r. destruct Ha as [H1|H2]; [rewrite H1; reflexivity|].
    apply orb_true_iff. right. rewrite H2, Ec. apply Z.eqb_refl.
  - cbn [map]. rewrite zprod_cons, Ec. ring.
Qed.

Lemma zprod_perm l l' : Permutation l l' -> zprod l = zprod l'.
Proof.
  induction 1 as [|x l l' HP IH|x y l|l l' l'' HP1 IH1 HP2 IH2]; try reflexivity.
  - rewrite !zprod_cons, IH. reflexivity.
  - rewrite !zprod_cons. ring.
  - congruence.
Qed.

Lemma zmax_ge l a : In a l -> a <= zmax_list l.
Proof.
  unfold zmax_list. induction l as [|x l IH]; intros H; [destruct H|]. cbn [fold_right].
  destruct H as [->|H]; [lia|specialize (IH H); lia].
Qed.

(* flat level: dense, positive steps and bounds  =>  the sorted axes are a mixed-radix system *)
Theorem dense_flat_sorted (flat : list sstride) :
  Forall (fun s => 0 < fst s /\ 0 < snd s) flat ->
  has_dup (av flat) = false -> zmax_list (av flat) = Z.of_nat (length (av flat)) - 1 ->
  mr_sorted (axes flat) = true.
Proof.
  intros Hpos Hdup Hmax.
  set (asc := sort_asc (with_rm flat)).
  assert (HP : Permutation flat (map sb asc)).
  { rewrite <- (map_sb_with_rm flat) at 1. apply Permutation_map, sort_asc_perm. }
  assert (Hbnd : Forall (fun s : sstride => 0 <= snd s) flat)
    by (apply (Forall_impl _ (fun s H => Z.lt_le_incl _ _ (proj2 H)) Hpos)).
  assert (HN : zprod (map snd (map sb asc)) = zprod (map snd flat))
    by (symmetry; apply zprod_perm, Permutation_map, HP).
  pose proof (dense_asc (map sb asc)) as Hcore.
  unfold axes. fold asc. rewrite <- (app_nil_r (rev asc)).
  apply (asc_mr_sorted asc 1 []); [|reflexivity|reflexivity].
  apply Hcore.
  - apply (Permutation_Forall HP). exact Hpos.
  - apply (Permutation_NoDup (av_perm _ _ HP)). apply has_dup_false_NoDup. exact Hdup.
  - intros a Ha. rewrite HN. apply (Permutation_in _ (Permutation_sym (av_perm _ _ HP))) in Ha.
    pose proof (zmax_ge _ _ Ha) as Hle. rewrite Hmax, (av_length flat Hbnd) in Hle.
    assert (0 < zprod (map snd flat)) by (apply zprod_pos_bounds; apply (Forall_impl _ (fun s H => proj2 H) Hpos)).
    lia.
  - apply sorted_map_sb, sort_asc_sorted.
Qed.

(* layout level *)
Theorem dense_mixed_radix_sorted (L : layout) :
  layout_ok L -> forallb (fun sb0 => 0 <? fst sb0) (flat_static L) = true ->
  is_dense L = true -> mixed_radix_sorted L = true.
Proof.
  intros Hok Hsteps Hd. unfold mixed_radix_sorted.
  assert (Hall : Forall stride_ok (all_strides L)).
  { apply Forall_forall. intros s Hs. unfold all_strides in Hs. apply in_concat in Hs as [t [Ht Hs]].
    apply (proj1 (Forall_forall _ _) (proj1 (Forall_forall _ _) Hok t Ht) s Hs). }
  assert (Hdyn : is_dynamic L = false).
  { unfold is_dynamic. apply not_true_is_false. intros H. apply existsb_exists in H as [s [Hs Hd']].
    destruct (proj1 (Forall_forall _ _) Hall s Hs) as [a [b [-> _]]]. discriminate. }
  assert (Hb : forallb (fun sb0 : Z * Z => 0 <? snd sb0) (flat_static L) = true).
  { apply forallb_forall. intros x Hx. unfold flat_static in Hx. apply in_map_iff in Hx as [s [<- Hs]].
    destruct (proj1 (Forall_forall _ _) Hall s Hs) as [a [b [-> Hbp]]]. cbn. lia. }
  rewrite Hdyn, Hb. cbn [negb andb].
  unfold is_dense, self_overlaps, all_values in Hd. fold (flat_static L) in Hd.
  rewrite all_values_of_av in Hd.
  destruct (has_dup (av (flat_static L))) eqn:Edup; [discriminate|].
  apply dense_flat_sorted; [|exact Edup|lia].
  apply Forall_forall. intros x Hx. rewrite forallb_forall in Hsteps, Hb.
  specialize (Hsteps x Hx). specialize (Hb x Hx). lia.
Qed.

(* transform_constant on a dense layout with positive steps: no precondition left *)
Theorem dense_transform_constant_correct (L : layout) (old : list Z) :
  layout_ok L -> forallb (fun sb0 => 0 <? fst sb0) (flat_static L) = true -> is_dense L = true ->
  exists new, transform_constant old L = Some (Some new) /\
    forall idx, In idx (row_major (shape_of L)) ->
      nth (Z.to_nat (affine_map_eval L idx)) new 0 = nth (Z.to_nat (rm_addr (shape_of L) idx)) old 0.
Proof.
  intros Hok Hsteps Hd. pose proof (dense_mixed_radix_sorted L Hok Hsteps Hd) as Hmr.
  assert (Hdyn : is_dynamic L = false).
  { unfold mixed_radix_sorted in Hmr. destruct (is_dynamic L); [discriminate|reflexivity]. }
  exists (relayout (flat_static L) old). split.
  - unfold transform_constant. rewrite Hdyn, Hd. reflexivity.
  - intros idx Hidx. apply (transform_constant_row_major L old _ idx Hok Hmr); [|exact Hidx].
    unfold transform_constant. rewrite Hdyn, Hd. reflexivity.
Qed.
