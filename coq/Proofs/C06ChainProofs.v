(* C06 — the chain lemma: the clone construction of the loop-level rewrite
   (ScopedSetupWithInputs.copy_with_new_dependent_vals = Model/C06Overlap.clone_scoped) recomputes the setup's
   values for the environment in which the dependent values (iv, iter_args) are replaced by the new ones
   (lb, iter operands) resp. (i+step, yield operands).  This is the step W (S k) of the loop rotation
   (C06LoopProofs.iter_shift): the epilogue of iteration k writes what the original setup of iteration k+1 writes. *)
From Snax Require Import Base.Prelude Model.AccIR Model.AccSem Model.C06Overlap Proofs.AccSemProofs.

Definition is_spure (s : stmt) : bool := match s with SPure _ _ => true | _ => false end.
Definition all_spure (l : list stmt) : bool := forallb is_spure l.

Fixpoint exec_pures (l : list stmt) (e : envT) : envT :=
  match l with
  | [] => e
  | SPure d x :: r => exec_pures r (upd e d (eval_pexp e x))
  | _ :: r => exec_pures r e
  end.

(* a block of arith ops only changes the environment, as [exec_pures] says *)
Lemma exec_pures_block orc l : forall m, all_spure l = true ->
  exec_block orc l m = set_env m (exec_pures l (env m)).
Proof.
  induction l as [|s l IH]; intros m H; cbn [exec_block exec_pures].
  - destruct m; reflexivity.
  - cbn [all_spure forallb] in H. apply andb_true_iff in H as [H1 H2].
    destruct s; try discriminate. cbn [exec_stmt]. rewrite (IH _ H2). destruct m; reflexivity.
Qed.

Definition ops_of (l : list stmt) : list val :=
  flat_map (fun s => match s with SPure d e => d :: pexp_vals e | _ => [] end) l.

(* [corr mp eo en X]: on the ids X the new environment, read through the mapper, shows the original values *)
Definition corr (mp : mapper) (eo en : envT) (X : list val) : Prop :=
  forall v, In v X -> en (mlook mp v) = eo v.

Lemma eval_map_pexp mp eo en X e :
  corr mp eo en X -> incl (pexp_vals e) X -> eval_pexp en (map_pexp mp e) = eval_pexp eo e.
Proof.
  intros Hc Hi. destruct e as [z|a|o a b|c a b|c a b]; cbn [map_pexp eval_pexp pexp_vals] in *.
  - reflexivity.
  - apply Hc. apply Hi. left; reflexivity.
  - rewrite (Hc a), (Hc b); [reflexivity| |]; apply Hi; cbn; auto.
  - rewrite (Hc a), (Hc b); [reflexivity| |]; apply Hi; cbn; auto.
  - rewrite (Hc c), (Hc a), (Hc b); [reflexivity| | |]; apply Hi; cbn; auto.
Qed.

Lemma clone_inputs_correct : forall ins mp nf cs mp' nf' eo en X,
  all_spure ins = true ->
  clone_inputs mp nf ins = (cs, mp', nf') ->
  (forall v, In v X -> (mlook mp v < nf)%nat) ->
  incl (ops_of ins) X ->
  corr mp eo en X ->
  corr mp' (exec_pures ins eo) (exec_pures cs en) X
  /\ (nf <= nf')%nat
  /\ (forall v, In v X -> (mlook mp' v < nf')%nat)
  /\ all_spure cs = true
  /\ (forall x, (x < nf)%nat -> exec_pures cs en x = en x).
Proof.
  induction ins as [|s ins IH]; intros mp nf cs mp' nf' eo en X Hp Hcl Hlt Hin Hc.
  - cbn in Hcl. inversion Hcl; subst. cbn [exec_pures]. repeat split; try assumption; try lia; try reflexivity.
  - cbn [all_spure forallb] in Hp. apply andb_true_iff in Hp as [Hp1 Hp2].
    destruct s as [d e| | | | | | |]; try discriminate.
    cbn [clone_inputs] in Hcl.
    destruct (clone_inputs ((d, nf) :: mp) (S nf) ins) as [[cs0 mp0] nf0] eqn:Hrec.
    inversion Hcl; subst. cbn [exec_pures].
    assert (Hops : incl (d :: pexp_vals e) X /\ incl (ops_of ins) X).
    { split; intros x Hx; apply Hin; cbn [ops_of flat_map]; apply in_or_app; [left|right]; exact Hx. }
    destruct Hops as [Hde Hrest].
    assert (Hev : eval_pexp en (map_pexp mp e) = eval_pexp eo e).
    { apply (eval_map_pexp mp eo en X); [exact Hc|]. intros x Hx. apply Hde. right. exact Hx. }
    specialize (IH ((d, nf) :: mp) (S nf) cs0 mp' nf' (upd eo d (eval_pexp eo e))
                   (upd en nf (eval_pexp en (map_pexp mp e))) X Hp2 Hrec).
    assert (Hlt' : forall v, In v X -> (mlook ((d, nf) :: mp) v < S nf)%nat).
    { intros v Hv. cbn [mlook]. destruct (Nat.eqb d v); [lia|]. specialize (Hlt v Hv). lia. }
    assert (Hc' : corr ((d, nf) :: mp) (upd eo d (eval_pexp eo e)) (upd en nf (eval_pexp en (map_pexp mp e))) X).
    { intros v Hv. cbn [mlook]. unfold upd. destruct (Nat.eqb d v) eqn:E.
      - apply Nat.eqb_eq in E. subst v. rewrite !Nat.eqb_refl. exact Hev.
      - rewrite (Nat.eqb_sym v d), E.
        assert (Hne : Nat.eqb (mlook mp v) nf = false) by (apply Nat.eqb_neq; specialize (Hlt v Hv); lia).
        rewrite Hne. apply Hc. exact Hv. }
    destruct (IH Hlt' Hrest Hc') as (H1 & H2 & H3 & H4 & H5).
    repeat split; try assumption; try lia.
    intros x Hx. rewrite H5 by lia. unfold upd. assert (Nat.eqb x nf = false) by (apply Nat.eqb_neq; lia).
    rewrite H. reflexivity.
Qed.

Lemma write_fields_mapped mp eo en X fs : forall r1 r2 f,
  corr mp eo en X -> incl (map snd fs) X -> (r1 f = r2 f \/ In f (map fst fs)) ->
  write_fields en (map (fun fv => (fst fv, mlook mp (snd fv))) fs) r1 f = write_fields eo fs r2 f.
Proof.
  induction fs as [|[g v] fs IH]; intros r1 r2 f Hc Hi Hr; cbn [map write_fields fst snd] in *.
  - destruct Hr as [Hr|[]]. exact Hr.
  - apply IH; [exact Hc|intros x Hx; apply Hi; right; exact Hx|].
    unfold upd. destruct (Nat.eqb f g) eqn:E.
    + left. apply Hc. apply Hi. left. reflexivity.
    + destruct Hr as [Hr|[Hg|Hr]]; [left; exact Hr| |right; exact Hr].
      subst g. rewrite Nat.eqb_refl in E. discriminate.
Qed.

(* The chain lemma.  [m1] is the original run at the head of an iteration (iv and the iter_args bound),
   [m2] the rewritten run at the point where the clone is executed (before the loop: news = lb, iter operands;
   at the end of the body: news = i+step, yield operands).  If m2 shows, through deps |-> news, the values m1
   has on the ids X (the operands of the chain: [deps] mapped, everything else unchanged and below nf), then
   the cloned chain + cloned setup leave accelerator a with exactly the registers the original chain + setup
   leave it with, on every field the setup writes (and on every field the two runs agreed on before). *)
Theorem clone_scoped_correct orc deps news nf ins a o s_in fs blk st nf2 (m1 m2 : mstate) X :
  all_spure ins = true ->
  clone_scoped deps news nf ins a s_in fs = (blk, st, nf2) ->
  incl (ops_of ins) X -> incl (map snd fs) X ->
  (forall v, In v X -> (mlook (combine deps news) v < nf)%nat) ->
  corr (combine deps news) (env m1) (env m2) X ->
  forall f, (regs m2 a f = regs m1 a f \/ In f (map fst fs)) ->
  regs (exec_block orc blk m2) a f
  = regs (exec_block orc (ins ++ [SSetup a o (Some s_in) fs]) m1) a f.
Proof.
  intros Hp Hcl Hi1 Hi2 Hlt Hc f Hf. unfold clone_scoped in Hcl.
  destruct (clone_inputs (combine deps news) nf ins) as [[cs mp] nf'] eqn:Hci.
  inversion Hcl; subst. clear Hcl.
  destruct (clone_inputs_correct ins _ _ _ _ _ (env m1) (env m2) X Hp Hci Hlt Hi1 Hc) as (H1 & H2 & H3 & H4 & H5).
  rewrite (exec_block_app orc cs), (exec_block_app orc ins).
  rewrite (exec_pures_block orc cs m2 H4), (exec_pures_block orc ins m1 Hp).
  cbn [exec_block exec_stmt]. unfold exec_setup, set_env. cbn [regs env]. unfold upd. rewrite Nat.eqb_refl.
  apply (write_fields_mapped mp _ _ X); [exact H1|exact Hi2|].
  destruct Hf as [Hf|Hf]; [left; exact Hf|right; exact Hf].
Qed.
