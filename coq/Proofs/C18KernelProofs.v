(* C18 — proofs: fixed-width lemmas, expansion / recognition soundness, dispatch, rescale. *)
From Snax Require Import Base.Prelude Model.C18FixedWidth Model.C18Kernel.

(* ------------------------------------------------------------------ fixed width *)
Lemma half_pos w : 0 < w -> 0 < half w.
Proof. intros H. unfold half. apply Z.pow_pos_nonneg; lia. Qed.

Lemma pow_half w : 0 < w -> 2 ^ w = 2 * half w.
Proof. intros H. unfold half. replace w with (Z.succ (w - 1)) at 1 by lia. rewrite Z.pow_succ_r by lia. reflexivity. Qed.

Lemma wrap_in_range w z : 0 < w -> in_range w (wrap w z).
Proof.
  intros H. unfold in_range, wrap. pose proof (half_pos w H) as Hh. pose proof (pow_half w H) as Hp.
  pose proof (Z.mod_pos_bound (z + half w) (2 ^ w) ltac:(lia)). lia.
Qed.

Lemma wrap_id w z : 0 < w -> in_range w z -> wrap w z = z.
Proof.
  intros H [H1 H2]. unfold wrap. pose proof (pow_half w H) as Hp.
  rewrite Z.mod_small by lia. lia.
Qed.

Lemma wrap_decomp w z : 0 < w -> exists k, wrap w z = z + k * 2 ^ w.
Proof.
  intros H. unfold wrap. pose proof (half_pos w H). pose proof (pow_half w H).
  exists (- ((z + half w) / 2 ^ w)). rewrite (Z.mod_eq (z + half w) (2 ^ w)) by lia. lia.
Qed.

Lemma wrap_add_mul w z k : 0 < w -> wrap w (z + k * 2 ^ w) = wrap w z.
Proof.
  intros H. unfold wrap. pose proof (half_pos w H). pose proof (pow_half w H).
  replace (z + k * 2 ^ w + half w) with (z + half w + k * 2 ^ w) by lia.
  rewrite Z.mod_add by lia. reflexivity.
Qed.

Lemma wrap_wrap_add_l w a b : 0 < w -> wrap w (wrap w a + b) = wrap w (a + b).
Proof.
  intros H. destruct (wrap_decomp w a H) as [k ->].
  replace (a + k * 2 ^ w + b) with (a + b + k * 2 ^ w) by lia. apply wrap_add_mul. exact H.
Qed.
Lemma wrap_wrap_add_r w a b : 0 < w -> wrap w (a + wrap w b) = wrap w (a + b).
Proof. intros H. rewrite (Z.add_comm a), wrap_wrap_add_l, (Z.add_comm b) by exact H. reflexivity. Qed.
Lemma wrap_wrap_mul_l w a b : 0 < w -> wrap w (wrap w a * b) = wrap w (a * b).
Proof.
  intros H. destruct (wrap_decomp w a H) as [k ->].
  replace ((a + k * 2 ^ w) * b) with (a * b + (k * b) * 2 ^ w) by lia. apply wrap_add_mul. exact H.
Qed.
Lemma wrap_wrap_mul_r w a b : 0 < w -> wrap w (a * wrap w b) = wrap w (a * b).
Proof. intros H. rewrite (Z.mul_comm a), wrap_wrap_mul_l, (Z.mul_comm b) by exact H. reflexivity. Qed.
Lemma wrap_wrap w a : 0 < w -> wrap w (wrap w a) = wrap w a.
Proof. intros H. apply wrap_id; [exact H|apply wrap_in_range; exact H]. Qed.

Lemma in_range_mono w1 w2 z : 0 < w1 <= w2 -> in_range w1 z -> in_range w2 z.
Proof.
  intros H [H1 H2]. unfold in_range, half in *.
  assert (2 ^ (w1 - 1) <= 2 ^ (w2 - 1)) by (apply Z.pow_le_mono_r; lia). lia.
Qed.

Lemma in_rangeb_spec w z : in_rangeb w z = true <-> in_range w z.
Proof. unfold in_rangeb, in_range. lia. Qed.

(* sign extension is the identity on in-range values, and widening keeps them in range *)
Lemma sext_id w z : 0 < w -> in_range w z -> sext w z = z.
Proof. apply wrap_id. Qed.

(* ------------------------------------------------------------------ expansion *)
Ltac split_tys tys H :=
  destruct tys as [|?t0 [|?t1 [|?t2 [|?t3 [|?t4 [|?t5 ?tl]]]]]]; cbn in H; try discriminate H.

(* equivalent_region of each kernel op computes the kernel's arithmetic formula, for all integers
   (in particular all values of the operand widths), including sign extension and wrap-around *)
Theorem expand_sound k tys args :
  well_typed k tys = true ->
  eval_body (equivalent_region k tys) args = [eval_kernel k tys args].
Proof.
  intros Hwt. destruct k; cbn [well_typed] in Hwt; try discriminate.
  - (* mul *) split_tys tys Hwt. assert (t0 = t2) by lia. subst. reflexivity.
  - (* add *) split_tys tys Hwt. assert (t0 = t2) by lia. subst. reflexivity.
  - (* mac *) split_tys tys Hwt. cbn [equivalent_region ty nth].
    assert (Hp : 0 < t2) by lia.
    destruct (t0 =? t2) eqn:E.
    + assert (t0 = t2) by lia. subst t0.
      cbn. rewrite wrap_wrap_add_r by exact Hp. reflexivity.
    + cbn. rewrite wrap_wrap_add_r by exact Hp. reflexivity.
  - (* qmac *) split_tys tys Hwt. cbn [equivalent_region ty nth].
    assert (t3 = t2) by lia. assert (t4 = t2) by lia. subst t3 t4. assert (Hp : 0 < t2) by lia.
    cbn. rewrite wrap_wrap_mul_l, wrap_wrap_mul_r, wrap_wrap_add_r by exact Hp. reflexivity.
Qed.

(* ------------------------------------------------------------------ recognition *)
Lemma src_eqb_eq a b : src_eqb a b = true -> a = b.
Proof. destruct a, b; cbn; try discriminate; intros H; apply Nat.eqb_eq in H; congruence. Qed.
Lemma kind_eqb_eq a b : kind_eqb a b = true -> a = b.
Proof. destruct a, b; cbn; try discriminate; reflexivity. Qed.

Lemma list_eqb_imp {A} (eqb : A -> A -> bool) :
  (forall x y, eqb x y = true -> x = y) -> forall l1 l2, list_eqb eqb l1 l2 = true -> l1 = l2.
Proof.
  intros He l1; induction l1 as [|x l1 IH]; intros [|y l2] H; cbn in H; try discriminate; [reflexivity|].
  apply andb_true_iff in H as [H1 H2]. apply He in H1. apply IH in H2. congruence.
Qed.

Lemma op_equiv_eq a b : op_equiv a b = true -> a = b.
Proof.
  unfold op_equiv. intros H. apply andb_true_iff in H as [H H3]. apply andb_true_iff in H as [H1 H2].
  destruct a, b; cbn in *. apply kind_eqb_eq in H1. apply Z.eqb_eq in H2.
  apply (list_eqb_imp _ src_eqb_eq) in H3. congruence.
Qed.

Lemma body_equiv_eq a b : body_equiv a b = true -> a = b.
Proof.
  unfold body_equiv. intros H. apply andb_true_iff in H as [H H3]. apply andb_true_iff in H as [H1 H2].
  destruct a, b; cbn in *.
  apply (list_eqb_imp Z.eqb (fun x y => proj1 (Z.eqb_eq x y))) in H1.
  apply (list_eqb_imp _ op_equiv_eq) in H2. apply (list_eqb_imp _ src_eqb_eq) in H3. congruence.
Qed.

(* a recognised body IS the kernel's region for its block argument types: same ops, same result
   types, same wiring *)
Theorem recognise_only_regions b k :
  recognise b = Some k -> b = equivalent_region k (argtys b) /\ In k parsable.
Proof.
  unfold recognise, recognise_with. intros H. apply find_some in H as [Hin H].
  destruct (kernel_arity k); [|discriminate]. apply andb_true_iff in H as [_ H].
  split; [apply body_equiv_eq; exact H|exact Hin].
Qed.

(* recognised => same function of the scalar inputs (for all integers, hence all values of the operand widths) *)
Theorem recognise_sound b k args :
  recognise b = Some k ->
  well_typed k (argtys b) = true ->        (* the body is valid IR *)
  eval_body b args = [eval_kernel k (argtys b) args].
Proof.
  intros H Hwt. destruct (recognise_only_regions b k H) as [Hb _].
  rewrite Hb at 1. apply expand_sound. exact Hwt.
Qed.

(* a region that type-checks has operand types for which the kernel is well typed *)
Lemma region_typed_well_typed k tys :
  In k parsable -> kernel_arity k = Some (length tys - 1)%nat ->
  body_typed (equivalent_region k tys) = true -> well_typed k tys = true.
Proof.
  intros Hin Har Hty. unfold body_typed in Hty.
  destruct k; cbn [kernel_arity] in Har; try discriminate.
  - destruct tys as [|t0 [|t1 [|t2 [|t3 tl]]]]; cbn in Har; try discriminate.
    cbn in Hty. cbn. lia.
  - destruct tys as [|t0 [|t1 [|t2 [|t3 tl]]]]; cbn in Har; try discriminate.
    cbn in Hty. cbn. lia.
  - destruct tys as [|t0 [|t1 [|t2 [|t3 tl]]]]; cbn in Har; try discriminate.
    cbn [equivalent_region ty nth] in Hty. destruct (t0 =? t2) eqn:E; cbn in Hty; cbn; lia.
  - destruct tys as [|t0 [|t1 [|t2 [|t3 [|t4 [|t5 tl]]]]]]; cbn in Har; try discriminate.
    cbn in Hty. cbn. lia.
Qed.

(* recognition is sound for every body that is valid IR: no assumption on the kernel *)
Theorem recognise_sound_typed b k args :
  recognise b = Some k -> body_typed b = true ->
  eval_body b args = [eval_kernel k (argtys b) args].
Proof.
  intros H Hty. apply recognise_sound; [exact H|].
  destruct (recognise_only_regions b k H) as [Hb Hin].
  unfold recognise, recognise_with in H. apply find_some in H as [_ H].
  destruct (kernel_arity k) as [n|] eqn:Ea; [|discriminate]. apply andb_true_iff in H as [Hn _].
  apply Nat.eqb_eq in Hn. subst n.
  apply region_typed_well_typed; [exact Hin|exact Ea|]. rewrite <- Hb. exact Hty.
Qed.

Lemma find_none_all {A} (f : A -> bool) l : (forall x, In x l -> f x = false) -> find f l = None.
Proof.
  induction l as [|x l IH]; intros H; [reflexivity|]. cbn. rewrite (H x) by (left; reflexivity).
  apply IH. intros y Hy. apply H. right; exact Hy.
Qed.

(* bodies that are not literally a kernel region (e.g. same op kinds wired differently) are left alone *)
Theorem recognise_unchanged_otherwise b :
  (forall k, In k parsable -> b <> equivalent_region k (argtys b)) -> recognise b = None.
Proof.
  intros H. unfold recognise, recognise_with. apply find_none_all. intros k Hin.
  destruct (kernel_arity k); [|reflexivity].
  destruct (body_equiv b (equivalent_region k (argtys b))) eqn:E; [|apply andb_false_r].
  apply body_equiv_eq in E. exfalso. exact (H k Hin E).
Qed.

(* F16 (before the repair): comparing only the op-type sequence turns x*x into kernel.mul x, y *)
Theorem recognise_optypes_refuted :
  exists b k args,
    recognise_optypes b = Some k /\ well_typed k (argtys b) = true /\
    eval_body b args <> [eval_kernel k (argtys b) args] /\ recognise b = None.
Proof.
  exists (mkBody [64; 64; 64] [mkOp KMul 64 [SArg 0; SArg 0]] [SRes 0]), KMulK, [2; 3; 0].
  split; [reflexivity|]. split; [reflexivity|]. split; [vm_compute; discriminate|reflexivity].
Qed.

(* ------------------------------------------------------------------ dispatch *)
Lemma kernel_eqb_eq a b : kernel_eqb a b = true -> a = b.
Proof. destruct a, b; cbn; try discriminate; reflexivity. Qed.

Lemma types_check_eq a : forall b, types_check a b = TEq -> a = b.
Proof.
  induction a as [|x a IH]; intros [|y b]; cbn; try discriminate; [reflexivity|].
  destruct (x =? y) eqn:E; [|discriminate]. intros H. apply Z.eqb_eq in E. rewrite (IH _ H). congruence.
Qed.
Lemma types_check_refl a : types_check a a = TEq.
Proof. induction a as [|x a IH]; cbn; [reflexivity|]. rewrite Z.eqb_refl. exact IH. Qed.

Lemma find_supported_declared sks k tys :
  find_supported_with true sks k tys = DOk true -> In (mkSup k tys) sks.
Proof.
  induction sks as [|sk sks IH]; cbn; [discriminate|].
  destruct (kernel_eqb (sk_kernel sk) k) eqn:Ek.
  - destruct (types_check (sk_types sk) tys) eqn:Et; [| |discriminate].
    + intros _. left. apply kernel_eqb_eq in Ek. apply types_check_eq in Et. destruct sk; cbn in *. congruence.
    + intros H. right. apply IH. exact H.
  - intros H. right. apply IH. exact H.
Qed.

(* a kernel is only dispatched to an accelerator that declares that kernel with those operand types *)
Theorem dispatch_declared accs k tys n :
  dispatch accs k tys = DOk (Some n) ->
  exists a, In a accs /\ acc_name a = n /\ In (mkSup k tys) (acc_supported a).
Proof.
  unfold dispatch. induction accs as [|a accs IH]; cbn; [discriminate|].
  destruct (find_supported_with true (acc_supported a) k tys) as [[|]|] eqn:E; try discriminate.
  - intros H. inversion H; subst. exists a. split; [left; reflexivity|]. split; [reflexivity|].
    apply find_supported_declared. exact E.
  - intros H. destruct (IH H) as [a' [H1 H2]]. exists a'. split; [right; exact H1|exact H2].
Qed.

Lemma find_supported_complete sks k tys :
  In (mkSup k tys) sks -> find_supported_with true sks k tys <> DOk false.
Proof.
  induction sks as [|sk sks IH]; cbn; [intros []|]. intros [->|Hin]; cbn.
  - assert (Hk : kernel_eqb k k = true) by (destruct k; reflexivity). rewrite Hk, types_check_refl. discriminate.
  - destruct (kernel_eqb (sk_kernel sk) k).
    + destruct (types_check (sk_types sk) tys); [discriminate|apply IH; exact Hin|discriminate].
    + apply IH. exact Hin.
Qed.

(* ... and a declared kernel is not silently left undispatched *)
Theorem dispatch_complete accs k tys a :
  In a accs -> In (mkSup k tys) (acc_supported a) -> dispatch accs k tys <> DOk None.
Proof.
  unfold dispatch. induction accs as [|a' accs IH]; cbn; [intros []|]. intros [->|Hin] Hs.
  - pose proof (find_supported_complete _ _ _ Hs) as Hc.
    destruct (find_supported_with true (acc_supported a) k tys) as [[|]|]; try discriminate. contradiction.
  - destruct (find_supported_with true (acc_supported a') k tys) as [[|]|]; try discriminate.
    apply IH; assumption.
Qed.

(* F17 (before the repair): the operand-type check never rejects: i8 mul goes to an accelerator declaring i64 *)
Theorem dispatch_old_refuted :
  exists accs k tys n,
    dispatch_old accs k tys = DOk (Some n) /\
    (forall a, In a accs -> ~ In (mkSup k tys) (acc_supported a)) /\
    dispatch accs k tys = DOk None.
Proof.
  exists [mkAcc 0 [mkSup KAddK [64; 64; 64]; mkSup KMulK [64; 64; 64]]], KMulK, [8; 8; 8], 0%nat.
  split; [reflexivity|]. split; [|reflexivity].
  intros a [<-|[]] [H|[H|[]]]; discriminate.
Qed.

(* ------------------------------------------------------------------ rescale *)
Lemma rescale_region_eval p x out :
  eval_body (rescale_region p) [x; out] = [expand_rescale p x].
Proof. reflexivity. Qed.

Lemma half_32 : half 32 = 2147483648. Proof. reflexivity. Qed.
Lemma half_64 : half 64 = 9223372036854775808. Proof. reflexivity. Qed.
Lemma half_8 : half 8 = 128. Proof. reflexivity. Qed.

(* On the safe inputs (no double rounding requested, no intermediate overflow, clamp inside i8) the
   expanded body computes exactly what the repo's golden model computes. *)
Theorem rescale_expand_vs_golden p x :
  rescale_safe p x = true -> expand_rescale p x = golden_rescale p x.
Proof.
  unfold rescale_safe. intros H.
  repeat (apply andb_true_iff in H as [H ?]).
  repeat match goal with Hr : in_rangeb _ _ = true |- _ => apply in_rangeb_spec in Hr end.
  unfold expand_rescale, golden_rescale.
  destruct (double_round p); [discriminate|].
  set (v := x - zp_in p) in *.
  rewrite (wrap_id 32 v) by (auto; lia).
  set (m := v * mult p) in *.
  rewrite (wrap_id 64 m) by (auto; lia).
  assert (Hs : Z.shiftr m (shift p) = Z.shiftr (Z.shiftr m (shift p - 1)) 1).
  { rewrite Z.shiftr_shiftr by lia. f_equal. lia. }
  set (s1 := Z.shiftr m (shift p - 1)) in *.
  rewrite (wrap_id 32 s1) by (auto; lia).
  rewrite Hs.
  assert (Hr : in_range 32 (Z.shiftr s1 1)).
  { match goal with Hx : in_range 32 s1 |- _ => destruct Hx as [Hx1 Hx2] end.
    rewrite Z.shiftr_div_pow2 by lia. unfold in_range. rewrite half_32 in *. change (2 ^ 1) with 2. lia. }
  rewrite (wrap_id 32 (Z.shiftr s1 1)) by (auto; lia).
  set (o := wrap 32 (Z.shiftr s1 1 + zp_out p)).
  assert (Hc : Z.max (Z.min o (max_int p)) (min_int p) = Z.min (Z.max o (min_int p)) (max_int p)) by lia.
  rewrite Hc. apply wrap_id; [lia|]. unfold in_range. rewrite half_8. lia.
Qed.

(* F18: with double rounding requested the golden model rounds to nearest, the expansion truncates:
   x = 1, multiplier 1, shift 1: golden 1, expansion 0 *)
Theorem rescale_double_round_refuted :
  exists p x, double_round p = true /\ expand_rescale p x <> golden_rescale p x.
Proof. exists (mkR 0 0 1 1 127 (-128) true), 1. split; [reflexivity|]. vm_compute. discriminate. Qed.

(* ------------------------------------------------------------------ per-channel rescale *)
Theorem rescale_pc_expand_vs_golden q c x :
  rescale_safe_pc q c x = true -> expand_rescale_pc q x = golden_rescale_pc q c x.
Proof.
  unfold rescale_safe_pc, expand_rescale_pc, golden_rescale_pc. intros H.
  apply andb_true_iff in H as [H Hs]. apply andb_true_iff in H as [H Hm].
  apply Z.eqb_eq in Hs. apply Z.eqb_eq in Hm.
  assert (Hc : chan q c = chan q 0) by (unfold chan; rewrite Hm, Hs; reflexivity).
  rewrite <- Hc. apply rescale_expand_vs_golden. exact H.
Qed.

(* F18, per-channel part: a channel with its own multiplier is computed with the multiplier of channel 0 *)
Theorem rescale_per_channel_refuted :
  exists q c x, pc_dr q = false /\ rescale_safe (chan q c) x = true /\ expand_rescale_pc q x <> golden_rescale_pc q c x.
Proof.
  exists (mkRpc 0 0 [1; 2] [1; 1] 127 (-128) false), 1%nat, 4.
  split; [reflexivity|]. split; [reflexivity|]. vm_compute. discriminate.
Qed.
