(* Proofs about Model/C03Schedule.v: the elementary schedule transformations preserve the
   image of the iteration box (C03, part 1). *)
From Snax Require Import Base.Prelude Base.ListAux Model.C03Schedule.
From Coq Require Import Permutation.

Set Implicit Arguments.

(* ---- mapM --------------------------------------------------------------------------- *)
Lemma mapM_Forall2 {A B} (f : A -> option B) l l' :
  mapM f l = Some l' <-> Forall2 (fun x y => f x = Some y) l l'.
Proof.
  revert l'; induction l as [|x xs IH]; intros l'; cbn [mapM].
  - split; intros H; [injection H as <-; constructor | inversion H; reflexivity].
  - destruct (f x) as [y|] eqn:Hy.
    + destruct (mapM f xs) as [ys|] eqn:Hys.
      * split; intros H.
        -- injection H as <-. constructor; [exact Hy | apply IH; reflexivity].
        -- inversion H as [|? y' ? ys' H1 H2]; subst. apply IH in H2. congruence.
      * split; intros H; [discriminate|].
        inversion H as [|? y' ? ys' H1 H2]; subst. apply IH in H2. discriminate.
    + split; intros H; [discriminate|]. inversion H; subst. congruence.
Qed.

Lemma Forall2_len {A B} (R : A -> B -> Prop) l l' : Forall2 R l l' -> length l = length l'.
Proof. induction 1; cbn [length]; congruence. Qed.

Lemma mapM_length {A B} (f : A -> option B) l l' : mapM f l = Some l' -> length l' = length l.
Proof. intros H. apply mapM_Forall2 in H. symmetry. eapply Forall2_len; eauto. Qed.

(* ---- permutation helpers ------------------------------------------------------------ *)
Lemma flat_map_nil_fun {A B} (l : list A) : flat_map (fun _ => @nil B) l = [].
Proof. induction l; simpl; auto. Qed.

Lemma Permutation_flat_map_app {A B} (u v : A -> list B) l :
  Permutation (flat_map (fun a => u a ++ v a) l) (flat_map u l ++ flat_map v l).
Proof.
  induction l as [|a l IH]; cbn [flat_map]; [constructor|].
  rewrite IH. rewrite <- !app_assoc. apply Permutation_app_head.
  rewrite !app_assoc. apply Permutation_app_tail. apply Permutation_app_comm.
Qed.

Lemma Permutation_flat_map_swap {A B C} (f : A -> B -> list C) la lb :
  Permutation (flat_map (fun a => flat_map (f a) lb) la)
              (flat_map (fun b => flat_map (fun a => f a b) la) lb).
Proof.
  induction la as [|a la IH]; cbn [flat_map].
  - rewrite flat_map_nil_fun. constructor.
  - rewrite IH. symmetry. apply Permutation_flat_map_app.
Qed.

Lemma Permutation_flat_map_pointwise {A B} (f g : A -> list B) l :
  (forall a, In a l -> Permutation (f a) (g a)) -> Permutation (flat_map f l) (flat_map g l).
Proof.
  induction l as [|a l IH]; intros H; cbn [flat_map]; [constructor|].
  apply Permutation_app; [apply H; left; reflexivity | apply IH; intros; apply H; right; assumption].
Qed.

(* ---- points ------------------------------------------------------------------------- *)
Lemma points_cons b r : points (b :: r) = flat_map (fun i => map (cons i) (points r)) (zrange b).
Proof. reflexivity. Qed.

Lemma points_one r : points (1 :: r) = map (cons 0) (points r).
Proof. rewrite points_cons, zrange_1. cbn [flat_map]. apply app_nil_r. Qed.

Lemma in_points_cons v x b r : In (v :: x) (points (b :: r)) <-> 0 <= v < b /\ In x (points r).
Proof.
  rewrite points_cons, in_flat_map. split.
  - intros [i [Hi Hin]]. apply in_map_iff in Hin as [y [Hy Hin]]. injection Hy as -> ->.
    split; [apply in_zrange; assumption | assumption].
  - intros [Hv Hx]. exists v. split; [apply in_zrange; assumption | apply in_map; assumption].
Qed.

Lemma in_points_nil_cons b r : ~ In [] (points (b :: r)).
Proof.
  rewrite points_cons, in_flat_map. intros [i [_ Hin]]. apply in_map_iff in Hin as [y [Hy _]]. discriminate.
Qed.

Lemma in_points_length x bs : In x (points bs) -> length x = length bs.
Proof.
  revert x; induction bs as [|b r IH]; intros x H.
  - destruct H as [<-|[]]. reflexivity.
  - destruct x as [|v x]; [exfalso; eapply in_points_nil_cons; eauto|].
    apply in_points_cons in H as [_ H]. cbn [length]. f_equal. apply IH. exact H.
Qed.

Lemma points_app l1 l2 :
  points (l1 ++ l2) = flat_map (fun x1 => map (app x1) (points l2)) (points l1).
Proof.
  induction l1 as [|b r IH]; cbn [app].
  - cbn [points flat_map]. rewrite app_nil_r. symmetry. apply map_id.
  - rewrite !points_cons, IH. rewrite flat_map_flat_map. apply flat_map_ext_in. intros i _.
    rewrite map_flat_map, flat_map_map. apply flat_map_ext_in. intros x1 _.
    rewrite map_map. reflexivity.
Qed.

(* ---- dotc / papply ------------------------------------------------------------------ *)
Lemma dotc_app i c1 c2 x1 x2 : length c1 = length x1 ->
  dotc i (c1 ++ c2) (x1 ++ x2) = dotc i c1 x1 + dotc i c2 x2.
Proof.
  revert x1; induction c1 as [|c c1 IH]; intros [|v x1] H; try discriminate; cbn [app dotc].
  - lia.
  - rewrite IH by (injection H; auto). lia.
Qed.

Lemma dotc_nil_r i c : dotc i c [] = 0.
Proof. destruct c; reflexivity. Qed.

Lemma papply_ext {B B'} (p : pat B) (p' : pat B') x y :
  pb p' = pb p -> (forall i, dotc i (pcols p') y = dotc i (pcols p) x) -> papply p' y = papply p x.
Proof. intros Hb Hd. unfold papply. rewrite Hb. apply map_ext. intros i. rewrite Hd. reflexivity. Qed.

Lemma tuple_at_Forall2 (R : spat -> spat -> Prop) s s' x y :
  Forall2 R s s' -> (forall p p', R p p' -> papply p' y = papply p x) -> tuple_at s' y = tuple_at s x.
Proof.
  intros HF HR. unfold tuple_at. induction HF as [|p p' s s' Hp _ IH]; cbn [map]; [reflexivity|].
  rewrite (HR _ _ Hp), IH. reflexivity.
Qed.

(* ---- well-formed schedules ---------------------------------------------------------- *)
Definition wf_pat (bs : list Z) (p : spat) : Prop := pbounds p = bs /\ length (pcols p) = length bs.
Definition wf_sched (s : sched) : Prop :=
  Forall (fun x => 0 < x) (sbounds s) /\ Forall (wf_pat (sbounds s)) s.

Lemma list_eqb_Z l1 l2 : list_eqb Z.eqb l1 l2 = true <-> l1 = l2.
Proof. apply list_eqb_eq. intros; apply Z.eqb_eq. Qed.

Lemma wf_schedb_ok s : wf_schedb s = true <-> wf_sched s.
Proof.
  unfold wf_schedb, wf_sched. rewrite andb_true_iff, !forallb_forall, !Forall_forall.
  split; intros [H1 H2]; (split; [intros x Hx; specialize (H1 x Hx); lia|]); intros p Hp; specialize (H2 p Hp);
    unfold wf_patb, wf_pat in *.
  - apply andb_true_iff in H2 as [Ha Hb]. apply list_eqb_Z in Ha. apply Nat.eqb_eq in Hb. auto.
  - destruct H2 as [Ha Hb]. apply andb_true_iff; split; [apply list_eqb_Z; exact Ha | apply Nat.eqb_eq; exact Hb].
Qed.

(* ---- the re-indexing principle ------------------------------------------------------ *)
(* g maps a point of s's box to the point of s''s box that computes the same operand indices *)
Lemma image_reindex (s s' : sched) (g : list Z -> list Z) :
  Permutation (map g (points (sbounds s))) (points (sbounds s')) ->
  (forall x, In x (points (sbounds s)) -> tuple_at s' (g x) = tuple_at s x) ->
  Permutation (image s') (image s).
Proof.
  intros HP HT. unfold image.
  rewrite <- (map_ext_in _ _ _ HT). rewrite <- (map_map g (tuple_at s')).
  apply Permutation_map. symmetry. exact HP.
Qed.

Lemma image_reindex_eq (s s' : sched) (g : list Z -> list Z) :
  map g (points (sbounds s)) = points (sbounds s') ->
  (forall x, In x (points (sbounds s)) -> tuple_at s' (g x) = tuple_at s x) ->
  image s' = image s.
Proof.
  intros HP HT. unfold image.
  rewrite <- (map_ext_in _ _ _ HT). rewrite <- (map_map g (tuple_at s')). rewrite HP. reflexivity.
Qed.

(* ---- constructors ------------------------------------------------------------------- *)
Lemma mk_ap_Some {B} (bs : list B) cols b p :
  mk_ap bs cols b = Some p -> p = mkPat bs cols b /\ length bs = length cols.
Proof.
  unfold mk_ap. destruct (Nat.eqb (length bs) (length cols)) eqn:E; [|discriminate].
  intros H; injection H as <-. apply Nat.eqb_eq in E. auto.
Qed.

Lemma mk_sp_Some bs cols b p :
  mk_sp bs cols b = Some p -> p = mkPat bs cols b /\ length bs = length cols /\ Forall (fun x => 0 < x) bs.
Proof.
  unfold mk_sp. destruct (forallb (fun x => 0 <? x) bs) eqn:E; [|discriminate].
  intros H. apply mk_ap_Some in H as [-> HL]. split; [reflexivity|]. split; [exact HL|].
  apply Forall_forall. intros x Hx. rewrite forallb_forall in E. specialize (E x Hx). lia.
Qed.

(* ================================================================================== *)
(* rotate                                                                              *)
(* ================================================================================== *)
(* move the head of the list to position m *)
Definition ins {A} (m : nat) (a : A) (l : list A) : list A := firstn m l ++ a :: skipn m l.

Lemma rot_list_cons {A} m (a : A) l : rot_list (S m) (a :: l) = ins m a l.
Proof. unfold rot_list, slice, ins. cbn [skipn firstn]. replace (S m - 1)%nat with m by lia. reflexivity. Qed.

Lemma ins_cons {A} m (a c : A) l : ins (S m) a (c :: l) = c :: ins m a l.
Proof. reflexivity. Qed.

Lemma ins_nil {A} m (a : A) : ins m a [] = [a].
Proof. unfold ins. rewrite firstn_nil, skipn_nil. reflexivity. Qed.

Definition ins_pt (m : nat) (x : list Z) : list Z :=
  match x with [] => [] | a :: x0 => ins m a x0 end.

Lemma points_ins m : forall b bs,
  Permutation (map (ins_pt m) (points (b :: bs))) (points (ins m b bs)).
Proof.
  induction m as [|m IH]; intros b bs.
  - unfold ins. cbn [firstn skipn app]. erewrite map_ext_in; [rewrite map_id; reflexivity|].
    intros x Hx. destruct x; [exfalso; eapply in_points_nil_cons; eauto | reflexivity].
  - destruct bs as [|c bs].
    + rewrite ins_nil. erewrite map_ext_in; [rewrite map_id; reflexivity|].
      intros x Hx. destruct x as [|v x]; [exfalso; eapply in_points_nil_cons; eauto|].
      apply in_points_cons in Hx as [_ Hx]. destruct Hx as [<-|[]]. reflexivity.
    + rewrite ins_cons. rewrite (points_cons c (ins m b bs)).
      (* left: swap the two outermost loops *)
      rewrite points_cons. rewrite map_flat_map.
      transitivity (flat_map (fun i => flat_map (fun j => map (fun y => j :: ins m i y) (points bs)) (zrange c)) (zrange b)).
      { apply Permutation_flat_map_pointwise. intros i _. rewrite map_map. rewrite points_cons, map_flat_map.
        apply Permutation_flat_map_pointwise. intros j _. rewrite map_map. reflexivity. }
      rewrite Permutation_flat_map_swap.
      apply Permutation_flat_map_pointwise. intros j _.
      rewrite <- (IH b bs). rewrite points_cons, !map_flat_map.
      rewrite <- flat_map_map with (f := fun l => l) (g := fun i => map (cons j) (map (ins_pt m) (map (cons i) (points bs)))).
      rewrite flat_map_map.
      apply Permutation_flat_map_pointwise. intros i _. rewrite !map_map. reflexivity.
Qed.

Lemma dotc_split i m cols x : length cols = length x ->
  dotc i cols x = dotc i (firstn m cols) (firstn m x) + dotc i (skipn m cols) (skipn m x).
Proof.
  intros HL. rewrite <- dotc_app by (rewrite !firstn_length; lia). rewrite !firstn_skipn. reflexivity.
Qed.

Lemma dotc_ins i m c cols a x : length cols = length x ->
  dotc i (ins m c cols) (ins m a x) = dotc i (c :: cols) (a :: x).
Proof.
  intros HL. unfold ins. rewrite dotc_app by (rewrite !firstn_length; lia).
  cbn [dotc]. rewrite (dotc_split i m cols x HL). lia.
Qed.

Lemma Forall2_and_l {A B} (R : A -> B -> Prop) (P : A -> Prop) l l' :
  Forall2 R l l' -> Forall P l -> Forall2 (fun x y => R x y /\ P x) l l'.
Proof.
  induction 1 as [|x y l l' Hxy _ IH]; intros HP; constructor; inversion HP; subst; auto.
Qed.

Lemma Forall2_Forall_r {A B} (R : A -> B -> Prop) (Q : B -> Prop) l l' :
  Forall2 R l l' -> (forall x y, R x y -> Q y) -> Forall Q l'.
Proof. induction 1; intros HQ; constructor; eauto. Qed.

Lemma p_rotate_Some d p p' : p_rotate d p = Some p' ->
  (d <= length (pcols p))%nat /\ length (pcols p) <> 0%nat /\
  p' = mkPat (rot_list d (pbounds p)) (rot_list d (pcols p)) (pb p) /\
  Forall (fun x => 0 < x) (rot_list d (pbounds p)).
Proof.
  unfold p_rotate. destruct (Nat.eqb (length (pcols p)) 0) eqn:E0; [discriminate|].
  destruct (Nat.ltb (length (pcols p)) d) eqn:E1; [discriminate|]. cbn [orb].
  intros H. apply mk_sp_Some in H as [-> [_ HP]].
  apply Nat.eqb_neq in E0. apply Nat.ltb_ge in E1. auto.
Qed.

Lemma ins_length {A} m (a : A) l : length (ins m a l) = S (length l).
Proof.
  unfold ins. rewrite app_length. cbn [length]. rewrite firstn_length, skipn_length. lia.
Qed.

(* what a successful Schedule-level operation looks like on a well-formed schedule *)
Lemma wf_sched_cons p s : wf_sched (p :: s) ->
  Forall (fun x => 0 < x) (pbounds p) /\ Forall (wf_pat (pbounds p)) (p :: s).
Proof. intros H; exact H. Qed.

Lemma wf_sched_intro bs s : Forall (fun x => 0 < x) bs -> Forall (wf_pat bs) s -> wf_sched s.
Proof.
  intros HP HF. destruct s as [|p s]; [split; constructor|].
  assert (Hb : pbounds p = bs) by (inversion HF as [|? ? [Hb _] _]; exact Hb).
  unfold wf_sched. cbn [sbounds]. rewrite Hb. auto.
Qed.

Theorem rotate_wf d s s' : wf_sched s -> (1 <= d)%nat -> s_rotate d s = Some s' -> wf_sched s'.
Proof.
  intros Hwf Hd H. destruct s as [|p0 s0].
  - injection H as <-. exact Hwf.
  - apply wf_sched_cons in Hwf as [Hpos Hall]. set (bs := pbounds p0) in *.
    apply mapM_Forall2 in H. apply (Forall2_and_l H) in Hall.
    assert (Hpos' : Forall (fun x => 0 < x) (rot_list d bs)).
    { inversion Hall as [|? ? ? ? [Hr [Hb _]] _]; subst. apply p_rotate_Some in Hr as (_ & _ & _ & Hp).
      unfold bs. exact Hp. }
    apply (wf_sched_intro Hpos'). clear Hpos'.
    apply Forall2_Forall_r with (1 := Hall). intros p p' [Hr [Hb Hl]].
    apply p_rotate_Some in Hr as (Hle & Hne & -> & _). unfold wf_pat. cbn [pbounds pcols]. rewrite Hb.
    split; [reflexivity|].
    destruct d as [|m]; [lia|].
    destruct (pcols p) as [|c cols]; [cbn [length] in Hne; congruence|].
    cbn [length] in Hl. clearbody bs. destruct bs as [|b bs0]; [discriminate|].
    rewrite !rot_list_cons, !ins_length. cbn [length] in Hl. lia.
Qed.

Theorem rotate_image d s s' : wf_sched s -> (1 <= d)%nat -> s_rotate d s = Some s' ->
  Permutation (image s') (image s).
Proof.
  intros Hwf Hd H. destruct s as [|p0 s0].
  - injection H as <-. reflexivity.
  - apply wf_sched_cons in Hwf as [Hpos Hall]. set (bs := pbounds p0) in *.
    apply mapM_Forall2 in H. apply (Forall2_and_l H) in Hall. clear H.
    destruct d as [|m]; [lia|].
    assert (Hbs : exists b bs0, bs = b :: bs0).
    { inversion Hall as [|? ? ? ? [Hr [Hb Hl]] _]; subst. apply p_rotate_Some in Hr as (_ & Hne & _).
      destruct bs as [|b bs0]; [cbn in Hl; congruence | eauto]. }
    destruct Hbs as (b & bs0 & Hbs).
    assert (Hsb' : sbounds s' = ins m b bs0).
    { inversion Hall as [|? p' ? ? [Hr [Hb Hl]] _]; subst. apply p_rotate_Some in Hr as (_ & _ & -> & _).
      cbn [sbounds pbounds]. fold bs. rewrite Hbs. apply rot_list_cons. }
    apply image_reindex with (g := ins_pt m).
    + cbn [sbounds]. fold bs. rewrite Hsb', Hbs. apply points_ins.
    + cbn [sbounds]. fold bs. rewrite Hbs. intros x Hx.
      destruct x as [|a x0]; [exfalso; eapply in_points_nil_cons; eauto|].
      assert (Hlx : length x0 = length bs0).
      { apply in_points_length in Hx. cbn [length] in Hx. lia. }
      apply tuple_at_Forall2 with (1 := Hall). intros p p' [Hr [Hb Hl]].
      apply p_rotate_Some in Hr as (_ & _ & -> & _). apply papply_ext; [reflexivity|]. intros i.
      cbn [pcols ins_pt]. rewrite Hbs in Hl. cbn [length] in Hl.
      destruct (pcols p) as [|c cols]; [discriminate|]. rewrite rot_list_cons.
      apply dotc_ins. cbn [length] in Hl. lia.
Qed.

(* ================================================================================== *)
(* tile_dim                                                                            *)
(* ================================================================================== *)
Lemma nth_error_decomp {A} (l : list A) d x : nth_error l d = Some x ->
  l = firstn d l ++ x :: skipn (S d) l /\ length (firstn d l) = d.
Proof.
  revert l; induction d as [|d IH]; intros [|a l] H; try discriminate; cbn in H.
  - injection H as ->. split; reflexivity.
  - destruct (IH l H) as [H1 H2]. cbn [firstn skipn app length]. split; [f_equal; exact H1 | f_equal; exact H2].
Qed.

Lemma firstn_app_len {A} (l1 l2 : list A) d : length l1 = d -> firstn d (l1 ++ l2) = l1.
Proof. intros <-. rewrite firstn_app, Nat.sub_diag, firstn_all. cbn [firstn]. apply app_nil_r. Qed.

Lemma skipn_app_len {A} (l1 l2 : list A) d : length l1 = d -> skipn d (l1 ++ l2) = l2.
Proof. intros <-. rewrite skipn_app, Nat.sub_diag, skipn_all. reflexivity. Qed.

Definition tile_pt2 (t : Z) (y : list Z) : list Z :=
  match y with i :: j :: xr => (i * t + j) :: xr | _ => y end.
(* new point -> old point *)
Definition tile_pt (d : nat) (t : Z) (x : list Z) : list Z := firstn d x ++ tile_pt2 t (skipn d x).

Lemma points_tile2 q t lr : 0 <= q -> 0 <= t ->
  map (tile_pt2 t) (points (q :: t :: lr)) = points (q * t :: lr).
Proof.
  intros Hq Ht. rewrite (points_cons (q * t)), zrange_mul by assumption.
  rewrite flat_map_flat_map. rewrite points_cons, map_flat_map. apply flat_map_ext_in. intros i _.
  rewrite flat_map_map, map_map, points_cons, map_flat_map. apply flat_map_ext_in. intros j _.
  rewrite map_map. reflexivity.
Qed.

Lemma points_tile la q t lr : 0 <= q -> 0 <= t ->
  map (tile_pt (length la) t) (points (la ++ q :: t :: lr)) = points (la ++ q * t :: lr).
Proof.
  intros Hq Ht. rewrite !points_app, map_flat_map. apply flat_map_ext_in. intros xa Hxa.
  apply in_points_length in Hxa. rewrite <- (points_tile2 lr Hq Ht), !map_map. apply map_ext. intros y.
  unfold tile_pt. rewrite firstn_app_len, skipn_app_len by assumption. reflexivity.
Qed.

Lemma p_tile_Some d t p p' : p_tile d t p = Some p' ->
  exists c bd, nth_error (pcols p) d = Some c /\ nth_error (pbounds p) d = Some bd /\ t <> 0 /\
    p' = mkPat (firstn d (pbounds p) ++ [bd / t; t] ++ skipn (S d) (pbounds p))
               (firstn d (pcols p) ++ [map (Z.mul t) c; c] ++ skipn (S d) (pcols p)) (pb p) /\
    Forall (fun x => 0 < x) (firstn d (pbounds p) ++ [bd / t; t] ++ skipn (S d) (pbounds p)).
Proof.
  unfold p_tile. destruct (nth_error (pcols p) d) as [c|] eqn:Ec; [|discriminate].
  destruct (nth_error (pbounds p) d) as [bd|] eqn:Eb; [|discriminate].
  destruct (t =? 0) eqn:Et; [discriminate|]. intros H. apply mk_sp_Some in H as [-> [_ HP]].
  exists c, bd. repeat split; auto. lia.
Qed.

Lemma nth_map_mul k t c : nth k (map (Z.mul t) c) 0 = t * nth k c 0.
Proof. replace 0 with (t * 0) at 1 by lia. apply map_nth. Qed.

Lemma dotc_tile k d t (cols : list (list Z)) c x :
  nth_error cols d = Some c -> length x = S (length cols) ->
  dotc k (firstn d cols ++ [map (Z.mul t) c; c] ++ skipn (S d) cols) x = dotc k cols (tile_pt d t x).
Proof.
  intros Hc HL. destruct (nth_error_decomp _ _ Hc) as [Hdec Hlen].
  assert (Hd : (d < length cols)%nat) by (apply nth_error_Some; congruence).
  unfold tile_pt.
  assert (Hs : length (skipn d x) = (2 + (length cols - S d))%nat) by (rewrite skipn_length; lia).
  destruct (skipn d x) as [|i [|j xr]] eqn:Ex; cbn [length] in Hs; try lia.
  rewrite <- (firstn_skipn d x) at 1. rewrite Ex.
  rewrite Hdec at 3.
  rewrite !dotc_app by (rewrite !firstn_length; lia).
  cbn [tile_pt2 app dotc]. rewrite nth_map_mul. lia.
Qed.

Lemma sdiv_exact bd t : bd mod t = 0 -> t <> 0 -> bd / t * t = bd.
Proof. intros H Ht. pose proof (Z_div_mod_eq_full bd t). lia. Qed.

Theorem tile_wf d t s s' : wf_sched s -> s_tile d t s = Some s' -> wf_sched s'.
Proof.
  intros Hwf H. destruct s as [|p0 s0].
  - injection H as <-. exact Hwf.
  - apply wf_sched_cons in Hwf as [Hpos Hall]. set (bs := pbounds p0) in *.
    apply mapM_Forall2 in H. apply (Forall2_and_l H) in Hall. clear H.
    assert (Hex : exists bd, nth_error bs d = Some bd /\
              Forall (fun x => 0 < x) (firstn d bs ++ [bd / t; t] ++ skipn (S d) bs)).
    { inversion Hall as [|? ? ? ? [Hr [Hb _]] _]; subst.
      apply p_tile_Some in Hr as (c & bd & _ & Hbd & _ & _ & HP). exists bd. auto. }
    destruct Hex as (bd & Hbd & Hpos').
    apply (wf_sched_intro Hpos'). apply Forall2_Forall_r with (1 := Hall). intros p p' [Hr [Hb Hl]].
    apply p_tile_Some in Hr as (c & bd' & Hc & Hbd' & _ & -> & _). unfold wf_pat. cbn [pbounds pcols].
    rewrite Hb in *. assert (bd' = bd) by congruence. subst bd'. split; [reflexivity|].
    assert (Hd : (d < length bs)%nat) by (apply nth_error_Some; congruence).
    rewrite !app_length, !firstn_length, !skipn_length. cbn [length]. lia.
Qed.

(* tiling dimension d by a divisor t of its bound keeps the image, in the same order *)
Theorem tile_image d t s s' : wf_sched s -> s_tile d t s = Some s' ->
  (forall bd, nth_error (sbounds s) d = Some bd -> bd mod t = 0) ->
  image s' = image s.
Proof.
  intros Hwf H Hdiv. destruct s as [|p0 s0].
  - injection H as <-. reflexivity.
  - apply wf_sched_cons in Hwf as [Hpos Hall]. cbn [sbounds] in Hdiv. set (bs := pbounds p0) in *.
    apply mapM_Forall2 in H. apply (Forall2_and_l H) in Hall. clear H.
    assert (Hex : exists bd, nth_error bs d = Some bd /\ t <> 0 /\
              sbounds s' = firstn d bs ++ [bd / t; t] ++ skipn (S d) bs /\
              Forall (fun x => 0 < x) (firstn d bs ++ [bd / t; t] ++ skipn (S d) bs)).
    { inversion Hall as [|? ? ? ? [Hr [Hb _]] _]; subst.
      apply p_tile_Some in Hr as (c & bd & _ & Hbd & Ht & -> & HP). exists bd. auto. }
    destruct Hex as (bd & Hbd & Ht & Hsb' & Hpos').
    destruct (nth_error_decomp _ _ Hbd) as [Hdec Hlen].
    assert (Hq : 0 < bd / t /\ 0 < t).
    { apply Forall_app in Hpos' as [_ Hp]. inversion Hp as [|? ? Hq Hp2]; subst. inversion Hp2; subst. auto. }
    symmetry. apply image_reindex_eq with (g := tile_pt d t).
    + rewrite Hsb'. change (sbounds (p0 :: s0)) with bs.
      remember (firstn d bs) as la eqn:Ela. remember (skipn (S d) bs) as lr eqn:Elr.
      rewrite Hdec. rewrite <- Hlen. cbn [app]. rewrite points_tile by lia.
      rewrite (@sdiv_exact bd t (Hdiv _ Hbd) Ht). reflexivity.
    + rewrite Hsb'. intros x Hx. apply in_points_length in Hx.
      assert (Hd : (d < length bs)%nat) by (apply nth_error_Some; congruence).
      rewrite !app_length, firstn_length, skipn_length in Hx. cbn [length] in Hx.
      symmetry. apply tuple_at_Forall2 with (1 := Hall). intros p p' [Hr [Hb Hl]].
      apply p_tile_Some in Hr as (c & bd' & Hc & _ & _ & -> & _). apply papply_ext; [reflexivity|]. intros k.
      cbn [pcols]. apply dotc_tile; [exact Hc | lia].
Qed.

(* without divisibility the tiled box is smaller: 3 iterations become 1 x 2 *)
Definition tile_cex : sched := [mkPat [3] [[1]] [0]].
Lemma tile_refuted :
  exists s s' d t, wf_sched s /\ s_tile d t s = Some s' /\ ~ Permutation (image s') (image s).
Proof.
  exists tile_cex, [mkPat [1; 2] [[2]; [1]] [0]], 0%nat, 2. split; [apply wf_schedb_ok; reflexivity|].
  split; [reflexivity|]. intros HP. apply Permutation_length in HP. vm_compute in HP. discriminate.
Qed.

(* ================================================================================== *)
(* add_dim                                                                             *)
(* ================================================================================== *)
Lemma p_add_dim_Some p p' : p_add_dim p = Some p' ->
  p' = mkPat (1 :: pbounds p) (repeat 0 (length (pb p)) :: pcols p) (pb p).
Proof. unfold p_add_dim. intros H. apply mk_sp_Some in H as [-> _]. reflexivity. Qed.

Lemma nth_repeat0 k n : nth k (repeat 0 n) 0 = 0.
Proof. revert k; induction n as [|n IH]; intros [|k]; cbn; auto. Qed.

Theorem add_dim_wf s s' : wf_sched s -> s_add_dim s = Some s' -> wf_sched s'.
Proof.
  intros Hwf H. destruct s as [|p0 s0].
  - injection H as <-. exact Hwf.
  - apply wf_sched_cons in Hwf as [Hpos Hall]. set (bs := pbounds p0) in *.
    apply mapM_Forall2 in H. apply (Forall2_and_l H) in Hall. clear H.
    assert (Hpos' : Forall (fun x => 0 < x) (1 :: bs)) by (constructor; [lia | exact Hpos]).
    apply (wf_sched_intro Hpos'). apply Forall2_Forall_r with (1 := Hall). intros p p' [Hr [Hb Hl]].
    apply p_add_dim_Some in Hr as ->. unfold wf_pat. cbn [pbounds pcols length]. rewrite Hb. auto.
Qed.

Theorem add_dim_image s s' : wf_sched s -> s_add_dim s = Some s' -> image s' = image s.
Proof.
  intros Hwf H. destruct s as [|p0 s0].
  - injection H as <-. reflexivity.
  - apply wf_sched_cons in Hwf as [Hpos Hall]. set (bs := pbounds p0) in *.
    apply mapM_Forall2 in H. apply (Forall2_and_l H) in Hall. clear H.
    assert (Hsb' : sbounds s' = 1 :: bs).
    { inversion Hall as [|? ? ? ? [Hr [Hb _]] _]; subst. apply p_add_dim_Some in Hr as ->. reflexivity. }
    symmetry. apply image_reindex_eq with (g := @tl Z).
    + rewrite Hsb', points_one, map_map. cbn [tl]. apply map_id.
    + rewrite Hsb', points_one. intros x Hx. apply in_map_iff in Hx as [y [<- Hy]]. cbn [tl].
      symmetry. apply tuple_at_Forall2 with (1 := Hall). intros p p' [Hr _].
      apply p_add_dim_Some in Hr as ->. apply papply_ext; [reflexivity|]. intros k.
      cbn [pcols dotc]. rewrite nth_repeat0. lia.
Qed.
