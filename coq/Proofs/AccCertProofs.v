(* C07 — the model's own inference table always passes the certificate:
     ainfer_certified_all : cert_side p = true -> ainfer_certified p = true
   where [cert_side] (Model/AccInferTy.v) is decidable and T-independent: the program is
   well-threaded ([wt_prog]: the link clauses of the certificate), its state values are typed per
   accelerator, every state value is defined once, and a value bound by a statement is not an operand
   of an earlier setup (SSA scoping).  Together with [wf_sound] this gives soundness of the MODEL of
   infer_state_of for every such program with no per-program evaluation of the certificate. *)
From Snax Require Import Base.Prelude Model.AccIR Model.AccSem Model.AccInfer Model.AccInferTy Model.AccDedup
  Proofs.AccSemProofs Proofs.AccInferProofs Proofs.AccDedupProofs Proofs.AccRenameProofs Proofs.AccGhostProofs
  Proofs.AccRulesProofs Proofs.AccHeadProofs.

Definition keys (T : tbl) : list val := map fst T.

Lemma keys_tset s d T : keys (tset s d T) = s :: keys T.
Proof. reflexivity. Qed.

Lemma keys_fold {A} (key : A -> val) (dv : A -> astate) l : forall T x,
  In x (keys (fold_left (fun T' y => tset (key y) (dv y) T') l T)) <-> In x (map key l) \/ In x (keys T).
Proof.
  induction l as [|y l IH]; intros T x; simpl; [tauto|]. rewrite IH. rewrite keys_tset. simpl. tauto.
Qed.

Lemma stmt_sdefs_for iv lb ub sp its rs body ys :
  stmt_sdefs (SFor iv lb ub sp its rs body ys) =
  map si_arg (state_iters its ys rs) ++ block_sdefs body ++ map si_res (state_iters its ys rs).
Proof. reflexivity. Qed.
Lemma stmt_sdefs_if c rs th thy el ely :
  stmt_sdefs (SIf c rs th thy el ely) = block_sdefs th ++ block_sdefs el ++ map sr_res (state_results rs thy ely).
Proof. reflexivity. Qed.

(* entries are only created for the state values the statement defines ... *)
Lemma ainfer_frame_block : forall b T y, ~ In y (block_sdefs b) -> tlook (ainfer_block b T) y = tlook T y.
Proof.
  apply (block_ind2 (fun s => forall T y, ~ In y (stmt_sdefs s) -> tlook (ainfer_stmt s T) y = tlook T y)
                    (fun b => forall T y, ~ In y (block_sdefs b) -> tlook (ainfer_block b T) y = tlook T y));
    try (intros; reflexivity).
  - intros a o i fs T y Hy. cbn [ainfer_stmt]. rewrite tlook_tset. destruct (Nat.eqb o y) eqn:E; [|reflexivity].
    apply Nat.eqb_eq in E. exfalso. apply Hy. left. exact E.
  - intros iv lb ub sp its rs body ys IH T y Hy. rewrite stmt_sdefs_for in Hy. rewrite ainfer_stmt_for. cbv zeta.
    rewrite tlook_fold_other by (intros H; apply Hy; apply in_app_iff; right; apply in_app_iff; right; exact H).
    rewrite IH by (intros H; apply Hy; apply in_app_iff; right; apply in_app_iff; left; exact H).
    apply tlook_fold_other. intros H; apply Hy; apply in_app_iff; left; exact H.
  - intros c rs th thy el ely IHt IHe T y Hy. rewrite stmt_sdefs_if in Hy. rewrite ainfer_stmt_if. cbv zeta.
    rewrite tlook_fold_other by (intros H; apply Hy; apply in_app_iff; right; apply in_app_iff; right; exact H).
    rewrite IHe by (intros H; apply Hy; apply in_app_iff; right; apply in_app_iff; left; exact H).
    apply IHt. intros H; apply Hy; apply in_app_iff; left; exact H.
  - intros s b Hs Hb T y Hy. unfold block_sdefs in Hy. cbn [flat_map] in Hy. simpl.
    rewrite Hb by (intros H; apply Hy; apply in_app_iff; right; exact H).
    apply Hs. intros H; apply Hy; apply in_app_iff; left; exact H.
Qed.

(* ... and exactly for those *)
Lemma keys_ainfer_block : forall b T x, In x (keys (ainfer_block b T)) <-> In x (block_sdefs b) \/ In x (keys T).
Proof.
  apply (block_ind2 (fun s => forall T x, In x (keys (ainfer_stmt s T)) <-> In x (stmt_sdefs s) \/ In x (keys T))
                    (fun b => forall T x, In x (keys (ainfer_block b T)) <-> In x (block_sdefs b) \/ In x (keys T)));
    try (intros; simpl; tauto).
  - intros iv lb ub sp its rs body ys IH T x. rewrite stmt_sdefs_for. rewrite ainfer_stmt_for. cbv zeta.
    rewrite keys_fold, IH, keys_fold. rewrite !in_app_iff. tauto.
  - intros c rs th thy el ely IHt IHe T x. rewrite stmt_sdefs_if. rewrite ainfer_stmt_if. cbv zeta.
    rewrite keys_fold, IHe, IHt. rewrite !in_app_iff. tauto.
  - intros s b Hs Hb T x. unfold block_sdefs. cbn [flat_map]. simpl. rewrite Hb, Hs. rewrite in_app_iff.
    unfold block_sdefs. tauto.
Qed.

Lemma ainfer_frame_stmt s T y : ~ In y (stmt_sdefs s) -> tlook (ainfer_stmt s T) y = tlook T y.
Proof.
  intros H. change (ainfer_stmt s T) with (ainfer_block [s] T). apply ainfer_frame_block.
  unfold block_sdefs. simpl. rewrite app_nil_r. exact H.
Qed.
Lemma keys_ainfer_stmt s T x : In x (keys (ainfer_stmt s T)) <-> In x (stmt_sdefs s) \/ In x (keys T).
Proof.
  change (ainfer_stmt s T) with (ainfer_block [s] T). rewrite keys_ainfer_block.
  unfold block_sdefs. simpl. rewrite app_nil_r. tauto.
Qed.

(* ---- nodup_nat plumbing --------------------------------------------------------------------------------- *)
Lemma nodup_nat_app l1 l2 : nodup_nat (l1 ++ l2) = true ->
  nodup_nat l1 = true /\ nodup_nat l2 = true /\ (forall x, In x l1 -> ~ In x l2).
Proof.
  induction l1 as [|y l1 IH]; intros H; [repeat split; [exact H|intros x []]|].
  simpl in H. apply andb_true_iff in H. destruct H as [Hy H]. destruct (IH H) as [H1 [H2 H3]].
  apply Bool.negb_true_iff in Hy. rewrite mem_nat_app in Hy. apply orb_false_iff in Hy. destruct Hy as [Hy1 Hy2].
  repeat split.
  - simpl. rewrite Hy1. simpl. exact H1.
  - exact H2.
  - intros x [->|Hx]; [apply mem_nat_false; exact Hy2|exact (H3 x Hx)].
Qed.

Lemma disj_spec ds V : disj ds V = true -> forall d, In d ds -> ~ In d V.
Proof.
  unfold disj. rewrite forallb_forall. intros H d Hd. specialize (H d Hd).
  apply Bool.negb_true_iff in H. apply mem_nat_false in H. exact H.
Qed.

Lemma scoped_stmt_for V iv lb ub sp its rs body ys :
  scoped_stmt V (SFor iv lb ub sp its rs body ys) =
  if disj (iv :: map it_arg its ++ rs) V then scoped_block V body else None.
Proof. reflexivity. Qed.
Lemma scoped_stmt_if V c rs th thy el ely :
  scoped_stmt V (SIf c rs th thy el ely) =
  match scoped_block V th with
  | Some V1 => match scoped_block V1 el with
               | Some V2 => if disj (map fst rs) V2 then Some V2 else None
               | None => None
               end
  | None => None
  end.
Proof. reflexivity. Qed.

Lemma scoped_mono : forall b V V', scoped_block V b = Some V' -> forall v, In v V -> In v V'.
Proof.
  apply (block_ind2 (fun s => forall V V', scoped_stmt V s = Some V' -> forall v, In v V -> In v V')
                    (fun b => forall V V', scoped_block V b = Some V' -> forall v, In v V -> In v V')).
  - intros d e V V' H. cbn [scoped_stmt] in H. destruct (disj [d] V); inversion H; subst; auto.
  - intros g ef pu ds ar V V' H. cbn [scoped_stmt] in H. destruct (disj ds V); inversion H; subst; auto.
  - intros a o i fs V V' H. cbn [scoped_stmt] in H. inversion H; subst. intros v Hv. apply in_app_iff. right. exact Hv.
  - intros a k st fs V V' H. inversion H; subst; auto.
  - intros a k V V' H. inversion H; subst; auto.
  - intros a st V V' H. inversion H; subst; auto.
  - intros iv lb ub sp its rs body ys IH V V' H. rewrite scoped_stmt_for in H.
    destruct (disj (iv :: map it_arg its ++ rs) V); [exact (IH V V' H)|discriminate].
  - intros c rs th thy el ely IHt IHe V V' H. rewrite scoped_stmt_if in H.
    destruct (scoped_block V th) as [V1|] eqn:E1; [|discriminate].
    destruct (scoped_block V1 el) as [V2|] eqn:E2; [|discriminate].
    destruct (disj (map fst rs) V2); inversion H; subst. intros v Hv. exact (IHe V1 V' E2 v (IHt V V1 E1 v Hv)).
  - intros V V' H. inversion H; subst; auto.
  - intros s b Hs Hb V V' H. simpl in H. destruct (scoped_stmt V s) as [V1|] eqn:E; [|discriminate].
    intros v Hv. exact (Hb V1 V' H v (Hs V V1 E v Hv)).
Qed.

(* ---- the main induction ------------------------------------------------------------------------------------ *)
Section Cert.
Variable ty_of : val -> option acc.
Variable Tf : tbl.                         (* the final table *)

Definition T0 : val -> astate := fun _ => [].

Definition ext (T : tbl) : Prop := forall x, In x (keys T) -> tlook Tf x = tlook T x.
Definition cur_in (c : cur) (T : tbl) : Prop := forall a s, In (a, s) c -> In s (keys T).
Definition facts_in (T : tbl) (V : list val) : Prop := forall x f v, In (f, v) (tlook T x) -> In v V.

Lemma ext_before_block b T :
  ext (ainfer_block b T) -> (forall x, In x (block_sdefs b) -> ~ In x (keys T)) -> ext T.
Proof.
  intros He Hf x Hx. rewrite He by (apply keys_ainfer_block; right; exact Hx).
  apply ainfer_frame_block. intros H. exact (Hf x H Hx).
Qed.

Lemma facts_avoid_of c T V ds :
  ext T -> cur_in c T -> facts_in T V -> (forall d, In d ds -> ~ In d V) ->
  facts_avoid (tlook Tf) c ds = true.
Proof.
  intros He Hc Hf Hd. unfold facts_avoid. apply forallb_forall. intros [a s] Hin. apply forallb_forall.
  intros [f v] Hfv. cbn [snd] in *. apply Bool.negb_true_iff. apply mem_nat_false. intros Hv.
  rewrite (He s (Hc a s Hin)) in Hfv. exact (Hd v Hv (Hf s f v Hfv)).
Qed.

Lemma st_sub_In_sub A B V : st_sub A B = true -> (forall f v, In (f, v) B -> In v V) -> forall f v, In (f, v) A -> In v V.
Proof. intros H HB f v Hin. exact (HB f v (st_sub_In A B f v H Hin)). Qed.

Lemma facts_in_tset s d T V : facts_in T V -> (forall f v, In (f, v) d -> In v V) -> facts_in (tset s d T) V.
Proof. intros HT Hd x f v. rewrite tlook_tset. destruct (Nat.eqb s x); [apply Hd|apply HT]. Qed.

Lemma facts_in_fold {A} (key : A -> val) (dv : A -> astate) l V : forall T,
  facts_in T V -> (forall y, In y l -> forall f v, In (f, v) (dv y) -> In v V) ->
  facts_in (fold_left (fun T' y => tset (key y) (dv y) T') l T) V.
Proof.
  induction l as [|y l IH]; intros T HT Hd; [exact HT|]. simpl. apply IH.
  - apply facts_in_tset; [exact HT|apply Hd; left; reflexivity].
  - intros z Hz. apply Hd. right. exact Hz.
Qed.

Lemma facts_in_mono T V V' : facts_in T V -> (forall v, In v V -> In v V') -> facts_in T V'.
Proof. intros H Hs x f v Hin. exact (Hs v (H x f v Hin)). Qed.

Lemma inter_facts A B V : (forall f v, In (f, v) A -> In v V) -> forall f v, In (f, v) (st_inter A B) -> In v V.
Proof. intros HA f v Hin. apply st_inter_In in Hin. exact (HA f v (proj1 Hin)). Qed.

Record Res (c' : cur) (T' : tbl) (V' : list val) : Prop := mkRes {
  r_cur : cur_in c' T';
  r_facts : facts_in T' V'
}.

Definition Ws (s : stmt) : Prop := forall T c c' V V',
  wf_stmt T0 c s = Some c' -> sty_stmt ty_of s = true -> scoped_stmt V s = Some V' ->
  tbl_ok T -> cur_in c T -> facts_in T V ->
  (forall x, In x (stmt_sdefs s) -> ~ In x (keys T)) -> nodup_nat (stmt_sdefs s) = true ->
  ext (ainfer_stmt s T) ->
  wf_stmt (tlook Tf) c s = Some c' /\ Res c' (ainfer_stmt s T) V'.
Definition Wb (b : block) : Prop := forall T c c' V V',
  wf_block T0 c b = Some c' -> sty_block ty_of b = true -> scoped_block V b = Some V' ->
  tbl_ok T -> cur_in c T -> facts_in T V ->
  (forall x, In x (block_sdefs b) -> ~ In x (keys T)) -> nodup_nat (block_sdefs b) = true ->
  ext (ainfer_block b T) ->
  wf_block (tlook Tf) c b = Some c' /\ Res c' (ainfer_block b T) V'.

Lemma facts_avoid_T0 c ds : facts_avoid T0 c ds = true.
Proof. unfold facts_avoid. apply forallb_forall. intros bs _. reflexivity. Qed.

Lemma cert_simple s : (forall T, ainfer_stmt s T = T) -> (forall V, scoped_stmt V s = Some V) ->
  (forall c, wf_stmt T0 c s = Some c) -> (forall c, wf_stmt (tlook Tf) c s = Some c) -> Ws s.
Proof.
  intros Ha Hs Hw Hw' T c c' V V' H _ HV _ Hc Hf _ _ _. rewrite Hw in H. inversion H; subst c'.
  rewrite Hs in HV. inversion HV; subst V'. rewrite Ha. split; [apply Hw'|]. split; assumption.
Qed.

Lemma cert_pure d e : Ws (SPure d e).
Proof.
  intros T c c' V V' H _ HV _ Hc Hf _ _ He. cbn [wf_stmt] in H. rewrite facts_avoid_T0 in H. inversion H; subst c'. clear H.
  cbn [scoped_stmt] in HV. destruct (disj [d] V) eqn:Ed; [|discriminate]. inversion HV; subst V'.
  split; [|split; assumption]. simpl.
  rewrite (facts_avoid_of c T V [d] He Hc Hf (disj_spec _ _ Ed)). reflexivity.
Qed.

Lemma cert_call g ef pu ds ar : Ws (SCall g ef pu ds ar).
Proof.
  intros T c c' V V' H _ HV _ Hc Hf _ _ He. cbn [wf_stmt] in H. rewrite facts_avoid_T0 in H. inversion H; subst c'. clear H.
  cbn [scoped_stmt] in HV. destruct (disj ds V) eqn:Ed; [|discriminate]. inversion HV; subst V'.
  split.
  - simpl. rewrite (facts_avoid_of c T V ds He Hc Hf (disj_spec _ _ Ed)). reflexivity.
  - split; [|exact Hf]. destruct ef; [intros a s []|exact Hc].
Qed.

Lemma cur_in_set a o c T T' : cur_in c T -> (forall x, In x (keys T) -> In x (keys T')) -> In o (keys T') ->
  cur_in (cur_set a o c) T'.
Proof.
  intros Hc Hk Ho b t Hin. apply In_cur_set in Hin. destruct Hin as [[_ ->]|[_ Hin]]; [exact Ho|].
  apply Hk. exact (Hc b t Hin).
Qed.

Lemma cert_setup a o i fs : Ws (SSetup a o i fs).
Proof.
  intros T c c' V V' H _ HV HT Hc Hf Hfresh _ He. simpl in H.
  assert (Hl : match i with Some i0 => optval_is (cur_get a c) i0 | None => true end = true).
  { destruct (match i with Some i0 => optval_is (cur_get a c) i0 | None => true end); [reflexivity|discriminate]. }
  rewrite Hl in H. simpl in H. inversion H; subst c'. clear H.
  cbn [scoped_stmt] in HV. inversion HV; subst V'. clear HV.
  assert (Hout : tlook Tf o = st_update (match i with Some i0 => tlook T i0 | None => [] end) fs).
  { rewrite He by (cbn [ainfer_stmt]; rewrite keys_tset; left; reflexivity). cbn [ainfer_stmt]. rewrite tlook_tset, Nat.eqb_refl. reflexivity. }
  assert (Hin : match i with Some i0 => tlook Tf i0 | None => [] end = match i with Some i0 => tlook T i0 | None => [] end).
  { destruct i as [i0|]; [|reflexivity]. apply optval_is_In in Hl. pose proof (Hc a i0 Hl) as Hk.
    rewrite He by (cbn [ainfer_stmt]; rewrite keys_tset; right; exact Hk). cbn [ainfer_stmt]. rewrite tlook_tset.
    destruct (Nat.eqb o i0) eqn:E; [|reflexivity]. apply Nat.eqb_eq in E. subst i0.
    exfalso. exact (Hfresh o (or_introl eq_refl) Hk). }
  split.
  - simpl. rewrite Hl, Hout, Hin. simpl.
    rewrite st_sub_refl; [reflexivity|]. apply st_update_keys_nodup. destruct i as [i0|]; [apply HT|reflexivity].
  - split.
    + cbn [ainfer_stmt]. apply (cur_in_set a o c T); [exact Hc|intros x Hx; rewrite keys_tset; right; exact Hx|rewrite keys_tset; left; reflexivity].
    + cbn [ainfer_stmt]. apply facts_in_tset; [apply (facts_in_mono T V); [exact Hf|intros v Hv; apply in_app_iff; right; exact Hv]|].
      intros f v Hfv. apply st_update_In in Hfv. destruct Hfv as [Hlb|[_ Hold]].
      * apply in_app_iff. left. apply in_map_iff. exists (f, v). split; [reflexivity|exact (last_binding_In2 _ _ _ Hlb)].
      * apply in_app_iff. right. destruct i as [i0|]; [exact (Hf i0 f v Hold)|destruct Hold].
Qed.

Lemma ext_fold_before {A} (key : A -> val) (dv : A -> astate) l T :
  ext (fold_left (fun T' y => tset (key y) (dv y) T') l T) -> (forall y, In y l -> ~ In (key y) (keys T)) -> ext T.
Proof.
  intros He Hf x Hx. rewrite He by (apply keys_fold; right; exact Hx).
  apply tlook_fold_other. intros Hin. apply in_map_iff in Hin. destruct Hin as [y [E Hy]]. subst x. exact (Hf y Hy Hx).
Qed.

Lemma T0_st_sub x y : st_sub (T0 x) y = true.
Proof. reflexivity. Qed.

Lemma cert_if c0 rs th thy el ely : Wb th -> Wb el -> Ws (SIf c0 rs th thy el ely).
Proof.
  intros IHt IHe T c c' V V' H Hty HV HT Hc Hf Hfresh Hnd He.
  rewrite wf_stmt_if in H. cbv zeta in H.
  destruct (wf_block T0 c th) as [c_t|] eqn:Ewt; [|discriminate].
  destruct (wf_block T0 c el) as [c_e|] eqn:Ewe; [|discriminate].
  set (srs := state_results rs thy ely) in *. set (ds := map fst rs) in *.
  match type of H with (if ?X then _ else _) = _ => remember X as cond eqn:Econd end.
  destruct cond; [|cbv iota in H; discriminate]. cbv iota in H. symmetry in Econd.
  inversion H; subst c'. clear H.
  apply andb_true_iff in Econd. destruct Econd as [Econd Hall0]. apply andb_true_iff in Econd. destruct Econd as [_ Hnacc].
  rewrite forallb_forall in Hall0.
  rewrite sty_stmt_if in Hty. apply andb_true_iff in Hty. destruct Hty as [Hty Htyel].
  apply andb_true_iff in Hty. destruct Hty as [_ Htyth].
  rewrite scoped_stmt_if in HV.
  destruct (scoped_block V th) as [V1|] eqn:EV1; [|discriminate].
  destruct (scoped_block V1 el) as [V2|] eqn:EV2; [|discriminate].
  fold ds in HV. destruct (disj ds V2) eqn:Edisj; [|discriminate]. inversion HV; subst V'. clear HV.
  rewrite stmt_sdefs_if in Hfresh, Hnd. fold srs in Hfresh, Hnd.
  apply nodup_nat_app in Hnd. destruct Hnd as [Hnd_th [Hnd2 Hdis1]].
  apply nodup_nat_app in Hnd2. destruct Hnd2 as [Hnd_el [Hnd_res Hdis2]].
  rewrite ainfer_stmt_if in He |- *. cbv zeta in He |- *. fold srs in He |- *.
  set (Tth := ainfer_block th T) in *. set (Tel := ainfer_block el Tth) in *.
  set (dv := fun x => st_inter (tlook Tel (sr_then x)) (tlook Tel (sr_else x))) in *.
  (* freshness facts *)
  assert (Hkeys_el : forall x, In x (keys Tel) <-> In x (block_sdefs el) \/ In x (block_sdefs th) \/ In x (keys T)).
  { intros x. unfold Tel, Tth. rewrite !keys_ainfer_block. tauto. }
  assert (Hres_fresh : forall y, In y srs -> ~ In (sr_res y) (keys Tel)).
  { intros y Hy Hin. apply Hkeys_el in Hin.
    assert (Hr : In (sr_res y) (map sr_res srs)) by (apply in_map; exact Hy).
    destruct Hin as [Hin|[Hin|Hin]].
    - exact (Hdis2 _ Hin Hr).
    - apply (Hdis1 _ Hin). apply in_app_iff. right. exact Hr.
    - apply (Hfresh (sr_res y)); [|exact Hin]. apply in_app_iff. right. apply in_app_iff. right. exact Hr. }
  assert (He_el : ext Tel) by (apply (ext_fold_before sr_res dv srs Tel He); exact Hres_fresh).
  assert (Hfresh_el : forall x, In x (block_sdefs el) -> ~ In x (keys Tth)).
  { intros x Hx Hin. unfold Tth in Hin. apply keys_ainfer_block in Hin. destruct Hin as [Hin|Hin].
    - apply (Hdis1 _ Hin). apply in_app_iff. left. exact Hx.
    - apply (Hfresh x); [|exact Hin]. apply in_app_iff. right. apply in_app_iff. left. exact Hx. }
  assert (He_th : ext Tth) by (apply (ext_before_block el Tth He_el); exact Hfresh_el).
  assert (Hfresh_th : forall x, In x (block_sdefs th) -> ~ In x (keys T)).
  { intros x Hx. apply Hfresh. apply in_app_iff. left. exact Hx. }
  assert (He_T : ext T) by (apply (ext_before_block th T He_th); exact Hfresh_th).
  (* the branches *)
  destruct (IHt T c c_t V V1 Ewt Htyth EV1 HT Hc Hf Hfresh_th Hnd_th He_th) as [Hwt [Hc_t Hf_t]].
  assert (Hc_th : cur_in c Tth).
  { intros a s Hin. unfold Tth. apply keys_ainfer_block. right. exact (Hc a s Hin). }
  destruct (IHe Tth c c_e V1 V2 Ewe Htyel EV2 (tbl_ok_block th T HT) Hc_th Hf_t Hfresh_el Hnd_el He_el) as [Hwe [Hc_e Hf_e]].
  assert (HTel : tbl_ok Tel) by (apply tbl_ok_block; apply tbl_ok_block; exact HT).
  (* lookups of the final table *)
  assert (Hlk_res : forall y, In y srs -> tlook Tf (sr_res y) = dv y).
  { intros y Hy. rewrite He by (apply keys_fold; left; apply in_map; exact Hy).
    exact (tlook_fold_key sr_res dv srs Hnd_res Tel y Hy). }
  assert (Hlk_old : forall z, In z (keys Tel) -> tlook Tf z = tlook Tel z) by exact He_el.
  assert (Hk_then : forall y, In y srs -> In (sr_then y) (keys Tel) /\ In (sr_else y) (keys Tel)).
  { intros y Hy. specialize (Hall0 y Hy).
    repeat (apply andb_true_iff in Hall0; destruct Hall0 as [Hall0 ?]).
    split.
    - apply Hkeys_el. right. apply (keys_ainfer_block th T). apply optval_is_In in Hall0. exact (Hc_t _ _ Hall0).
    - apply optval_is_In in H2. exact (Hc_e _ _ H2). }
  assert (HdV2 : forall d, In d ds -> ~ In d V2) by (apply disj_spec; exact Edisj).
  assert (HVV2 : forall v, In v V -> In v V2).
  { intros v Hv. exact (scoped_mono el V1 V2 EV2 v (scoped_mono th V V1 EV1 v Hv)). }
  split.
  - rewrite wf_stmt_if. cbv zeta. rewrite Hwt, Hwe. fold srs ds.
    match goal with |- (if ?X then _ else _) = _ => assert (HX : X = true); [|rewrite HX; reflexivity] end.
    apply andb_true_iff. split; [apply andb_true_iff; split|].
    + apply (facts_avoid_of c T V ds He_T Hc Hf). intros d Hd Hv. exact (HdV2 d Hd (HVV2 d Hv)).
    + exact Hnacc.
    + apply forallb_forall. intros y Hy. pose proof (Hall0 y Hy) as Hy0.
      repeat (apply andb_true_iff in Hy0; destruct Hy0 as [Hy0 ?]).
      destruct (Hk_then y Hy) as [Hkt Hke].
      rewrite (Hlk_res y Hy), (Hlk_old _ Hkt), (Hlk_old _ Hke). unfold dv.
      rewrite Hy0, H2. rewrite st_inter_sub_l by (apply HTel). rewrite st_inter_sub_r. simpl.
      apply forallb_forall. intros [f v] Hfv. cbn [snd]. apply Bool.negb_true_iff. apply mem_nat_false.
      intros Hd. apply (HdV2 v Hd). apply st_inter_In in Hfv. exact (Hf_e _ f v (proj1 Hfv)).
  - split.
    + intros a s Hin. apply keys_fold. apply in_app_iff in Hin. destruct Hin as [Hin|Hin].
      * left. apply in_map_iff in Hin. destruct Hin as [y [E Hy]]. inversion E; subst. apply in_map. exact Hy.
      * right. apply filter_In in Hin. apply Hkeys_el. right. right. exact (Hc a s (proj1 Hin)).
    + apply facts_in_fold; [exact Hf_e|]. intros y _ f v Hfv. unfold dv in Hfv.
      apply st_inter_In in Hfv. exact (Hf_e _ f v (proj1 Hfv)).
Qed.

Lemma cert_for iv lb ub sp its rs body ys : Wb body -> Ws (SFor iv lb ub sp its rs body ys).
Proof.
  intros IHb T c c' V V' H Hty HV HT Hc Hf Hfresh Hnd He.
  rewrite wf_stmt_for in H. cbv zeta in H.
  set (sis := state_iters its ys rs) in *. set (ds := iv :: map it_arg its ++ rs) in *.
  set (kept := filter (fun bs => negb (mem_nat (fst bs) (map si_acc sis))
                        && negb (mem_nat (fst bs) (block_accs body)) && negb (existsb stmt_has_effects body)) c) in *.
  set (c_h := map (fun x => (si_acc x, si_arg x)) sis ++ kept) in *.
  match type of H with (if ?X then _ else _) = _ => remember X as cond eqn:Econd end.
  destruct cond; [|cbv iota in H; discriminate]. cbv iota in H. symmetry in Econd.
  destruct (wf_block T0 c_h body) as [c_e|] eqn:Ewb; [|discriminate].
  match type of H with (if ?X then _ else _) = _ => remember X as cond2 eqn:Econd2 end.
  destruct cond2; [|cbv iota in H; discriminate]. cbv iota in H. symmetry in Econd2.
  inversion H; subst c'. clear H.
  apply andb_true_iff in Econd. destruct Econd as [Econd Hall0]. apply andb_true_iff in Econd. destruct Econd as [_ Hnacc].
  rewrite forallb_forall in Hall0.
  pose proof Econd2 as Econd2'. apply andb_true_iff in Econd2'. destruct Econd2' as [Hyl _]. rewrite forallb_forall in Hyl.
  pose proof Hty as Hty_all. rewrite sty_stmt_for in Hty. apply andb_true_iff in Hty. destruct Hty as [_ Htyb].
  rewrite scoped_stmt_for in HV. fold ds in HV. destruct (disj ds V) eqn:Edisj; [|discriminate].
  rewrite stmt_sdefs_for in Hfresh, Hnd. fold sis in Hfresh, Hnd.
  apply nodup_nat_app in Hnd. destruct Hnd as [Hnd_arg [Hnd2 Hdis1]].
  apply nodup_nat_app in Hnd2. destruct Hnd2 as [Hnd_body [Hnd_res Hdis2]].
  rewrite ainfer_stmt_for in He |- *. cbv zeta in He |- *. fold sis in He |- *.
  set (T1' := ainfer_block body (fold_left (fun T' x => tset (si_arg x) (tlook T (si_init x)) T') sis T)) in *.
  set (dvh := fun x => st_inter (tlook T (si_init x)) (tlook T1' (si_yield x))) in *.
  set (T2 := fold_left (fun T' x => tset (si_arg x) (dvh x) T') sis T) in *.
  set (T2' := ainfer_block body T2) in *.
  set (dvr := fun x => st_inter (tlook T (si_init x)) (tlook T2' (si_yield x))) in *.
  (* keys *)
  assert (Hk2 : forall x, In x (keys T2) <-> In x (map si_arg sis) \/ In x (keys T)) by (intros x; apply keys_fold).
  assert (Hk2' : forall x, In x (keys T2') <-> In x (block_sdefs body) \/ In x (map si_arg sis) \/ In x (keys T)).
  { intros x. unfold T2'. rewrite keys_ainfer_block, Hk2. tauto. }
  assert (Harg_fresh : forall y, In y sis -> ~ In (si_arg y) (keys T)).
  { intros y Hy. apply Hfresh. apply in_app_iff. left. apply in_map. exact Hy. }
  assert (Hbody_fresh : forall x, In x (block_sdefs body) -> ~ In x (keys T2)).
  { intros x Hx Hin. apply Hk2 in Hin. destruct Hin as [Hin|Hin].
    - apply (Hdis1 _ Hin). apply in_app_iff. left. exact Hx.
    - apply (Hfresh x); [|exact Hin]. apply in_app_iff. right. apply in_app_iff. left. exact Hx. }
  assert (Hres_fresh : forall y, In y sis -> ~ In (si_res y) (keys T2')).
  { intros y Hy Hin. apply Hk2' in Hin.
    assert (Hr : In (si_res y) (map si_res sis)) by (apply in_map; exact Hy).
    destruct Hin as [Hin|[Hin|Hin]].
    - exact (Hdis2 _ Hin Hr).
    - apply (Hdis1 _ Hin). apply in_app_iff. right. exact Hr.
    - apply (Hfresh (si_res y)); [|exact Hin]. apply in_app_iff. right. apply in_app_iff. right. exact Hr. }
  assert (He2' : ext T2') by (apply (ext_fold_before si_res dvr sis T2' He); exact Hres_fresh).
  assert (He2 : ext T2) by (apply (ext_before_block body T2 He2'); exact Hbody_fresh).
  assert (HeT : ext T) by (apply (ext_fold_before si_arg dvh sis T He2); exact Harg_fresh).
  (* per state iter_arg: links and keys *)
  assert (Hsis : forall x, In x sis -> In (si_acc x, si_init x) c /\ In (si_init x) (keys T)).
  { intros x Hx. specialize (Hall0 x Hx). repeat (apply andb_true_iff in Hall0; destruct Hall0 as [Hall0 ?]).
    apply optval_is_In in Hall0. split; [exact Hall0|exact (Hc _ _ Hall0)]. }
  assert (HfI : forall x, In x sis -> forall f v, In (f, v) (tlook T (si_init x)) -> In v V).
  { intros x _ f v Hin. exact (Hf _ f v Hin). }
  assert (HT2 : tbl_ok T2) by (apply tbl_ok_fold; [exact HT|intros x _; apply st_inter_keys_nodup; apply HT]).
  assert (Hc_h : cur_in c_h T2).
  { intros a s Hin. apply Hk2. unfold c_h in Hin. apply in_app_iff in Hin. destruct Hin as [Hin|Hin].
    - left. apply in_map_iff in Hin. destruct Hin as [y [E Hy]]. inversion E; subst. apply in_map. exact Hy.
    - right. unfold kept in Hin. apply filter_In in Hin. exact (Hc a s (proj1 Hin)). }
  assert (Hf2 : facts_in T2 V).
  { apply facts_in_fold; [exact Hf|]. intros y Hy f v Hin. unfold dvh in Hin. exact (inter_facts _ _ V (HfI y Hy) f v Hin). }
  destruct (IHb T2 c_h c_e V V' Ewb Htyb HV HT2 Hc_h Hf2 Hbody_fresh Hnd_body He2') as [Hwb [Hc_e Hf_e]].
  fold T2' in Hc_e, Hf_e.
  (* lookups of the final table *)
  assert (Hlk_arg : forall x, In x sis -> tlook Tf (si_arg x) = tlook T2 (si_arg x)).
  { intros x Hx. apply He2. apply Hk2. left. apply in_map. exact Hx. }
  assert (Hlk_init : forall x, In x sis -> tlook Tf (si_init x) = tlook T (si_init x)).
  { intros x Hx. apply HeT. exact (proj2 (Hsis x Hx)). }
  assert (Hlk_y : forall x, In x sis -> tlook Tf (si_yield x) = tlook T2' (si_yield x)).
  { intros x Hx. apply He2'. specialize (Hyl x Hx). apply optval_is_In in Hyl. exact (Hc_e _ _ Hyl). }
  assert (Hlk_res : forall x, In x sis -> tlook Tf (si_res x) = dvr x).
  { intros x Hx. rewrite He by (apply keys_fold; left; apply in_map; exact Hx).
    exact (tlook_fold_key si_res dvr sis Hnd_res T2' x Hx). }
  pose proof (ainfer_loop_clauses ty_of iv lb ub sp its rs body ys T Hty_all HT Hnd_arg) as Hcl.
  cbv zeta in Hcl. fold sis in Hcl. fold T1' in Hcl. fold dvh in Hcl. fold T2 in Hcl. fold T2' in Hcl.
  assert (HVV' : forall v, In v V -> In v V') by (intros v Hv; exact (scoped_mono body V V' HV v Hv)).
  split.
  - rewrite wf_stmt_for. cbv zeta. fold sis ds kept c_h.
    match goal with |- (if ?X then _ else _) = _ => assert (HX : X = true) end.
    { apply andb_true_iff. split; [apply andb_true_iff; split|].
      - exact (facts_avoid_of c T V ds HeT Hc Hf (disj_spec _ _ Edisj)).
      - exact Hnacc.
      - apply forallb_forall. intros x Hx. pose proof (Hall0 x Hx) as Hx0.
        repeat (apply andb_true_iff in Hx0; destruct Hx0 as [Hx0 ?]).
        rewrite (Hlk_arg x Hx), (Hlk_init x Hx), (Hlk_y x Hx), (Hlk_res x Hx).
        destruct (Hcl x Hx) as [C1 [C2 [C3 C4]]].
        repeat (apply andb_true_iff; split); [exact Hx0|exact C1|exact C2|exact C3|exact C4]. }
    rewrite HX. rewrite Hwb. rewrite Econd2. reflexivity.
  - split.
    + intros a s Hin. apply keys_fold. apply in_app_iff in Hin. destruct Hin as [Hin|Hin].
      * left. apply in_map_iff in Hin. destruct Hin as [y [E Hy]]. inversion E; subst. apply in_map. exact Hy.
      * right. apply Hk2'. right. right. unfold kept in Hin. apply filter_In in Hin. exact (Hc a s (proj1 Hin)).
    + apply facts_in_fold; [exact Hf_e|]. intros y Hy f v Hin. unfold dvr in Hin.
      apply HVV'. exact (inter_facts _ _ V (HfI y Hy) f v Hin).
Qed.

Lemma cert_block : forall b, Wb b.
Proof.
  apply (block_ind2 Ws Wb).
  - exact cert_pure.
  - exact cert_call.
  - exact cert_setup.
  - intros a k st fs. apply cert_simple; reflexivity.
  - intros a k. apply cert_simple; reflexivity.
  - intros a st. apply cert_simple; reflexivity.
  - exact cert_for.
  - exact cert_if.
  - intros T c c' V V' H _ HV _ Hc Hf _ _ _. simpl in H, HV. inversion H; inversion HV; subst.
    split; [reflexivity|split; assumption].
  - intros s b Hs Hb T c c' V V' H Hty HV HT Hc Hf Hfresh Hnd He.
    cbn [wf_block] in H. destruct (wf_stmt T0 c s) as [c1|] eqn:Ew; [|discriminate].
    cbn [sty_block] in Hty. apply andb_true_iff in Hty. destruct Hty as [Hty1 Hty2].
    cbn [scoped_block] in HV. destruct (scoped_stmt V s) as [V1|] eqn:EV; [|discriminate].
    unfold block_sdefs in Hfresh, Hnd. cbn [flat_map] in Hfresh, Hnd. fold (block_sdefs b) in Hfresh, Hnd.
    apply nodup_nat_app in Hnd. destruct Hnd as [Hnd1 [Hnd2 Hdis]].
    cbn [ainfer_block] in He |- *.
    assert (Hfresh_b : forall x, In x (block_sdefs b) -> ~ In x (keys (ainfer_stmt s T))).
    { intros x Hx Hin. apply keys_ainfer_stmt in Hin. destruct Hin as [Hin|Hin].
      - exact (Hdis _ Hin Hx).
      - apply (Hfresh x); [apply in_app_iff; right; exact Hx|exact Hin]. }
    assert (He1 : ext (ainfer_stmt s T)) by (apply (ext_before_block b _ He); exact Hfresh_b).
    destruct (Hs T c c1 V V1 Ew Hty1 EV HT Hc Hf (fun x Hx => Hfresh x (proj2 (in_app_iff _ _ _) (or_introl Hx))) Hnd1 He1)
      as [Hw1 [Hc1 Hf1]].
    assert (HT1 : tbl_ok (ainfer_stmt s T)) by (apply (tbl_ok_block [s]); exact HT).
    destruct (Hb (ainfer_stmt s T) c1 c' V1 V' H Hty2 HV HT1 Hc1 Hf1 Hfresh_b Hnd2 He) as [Hw2 R2].
    split; [|exact R2]. cbn [wf_block]. rewrite Hw1. exact Hw2.
Qed.
End Cert.

(* C07: the model's own table is always certified *)
Theorem ainfer_certified_all p : cert_side p = true -> ainfer_certified p = true.
Proof.
  unfold cert_side, ainfer_certified, wt_prog, sty_prog. intros H.
  apply andb_true_iff in H. destruct H as [H Hsc]. apply andb_true_iff in H. destruct H as [H Hnd].
  apply andb_true_iff in H. destruct H as [Hwt Hty].
  destruct (scoped_block [] (p_body p)) as [V'|] eqn:EV; [|discriminate].
  unfold wf_prog in Hwt |- *. destruct (wf_block (fun _ => []) [] (p_body p)) as [c'|] eqn:Ew; [|discriminate].
  destruct (cert_block (ty_lookup (prog_tys p)) (ainfer p) (p_body p) [] [] c' [] V' Ew Hty EV tbl_ok_nil)
    as [Hw _].
  - intros a s [].
  - intros x f v [].
  - intros x _ [].
  - exact Hnd.
  - intros x _. reflexivity.
  - unfold tfun. rewrite Hw. reflexivity.
Qed.
