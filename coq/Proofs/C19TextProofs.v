(* C19 (e) — print-then-parse round trip for the token-level models of the StridePattern attribute and
   the streamer configuration attribute (Model/C19Text.v). *)
From Snax Require Import Base.Prelude Model.C19Stride Model.C19Text.

(* ---- integers ---------------------------------------------------------------------------------- *)
Lemma parse_print_int z rest : parse_int true true (print_int z ++ rest) = Some (z, rest).
Proof.
  unfold print_int. destruct (z <? 0) eqn:E; cbn [app parse_int].
  - f_equal. f_equal. lia.
  - reflexivity.
Qed.

Lemma print_int_len z : (1 <= length (print_int z))%nat.
Proof. unfold print_int. destruct (z <? 0); simpl; lia. Qed.

Lemma print_int_list_len l : (length l <= length (print_int_list l))%nat.
Proof.
  induction l as [|z l IH]; [simpl; lia|]. destruct l as [|z' l'].
  - cbn [print_int_list length]. pose proof (print_int_len z). lia.
  - change (print_int_list (z :: z' :: l')) with (print_int z ++ KComma :: print_int_list (z' :: l')).
    rewrite app_length. cbn [length] in *. pose proof (print_int_len z). lia.
Qed.

Lemma parse_elems_print l : forall fuel rest, l <> [] -> (length l <= fuel)%nat ->
  parse_elems fuel (print_int_list l ++ KRSq :: rest) = Some (l, rest).
Proof.
  induction l as [|z l IH]; intros fuel rest Hne Hf; [congruence|].
  destruct fuel as [|f]; [simpl in Hf; lia|]. destruct l as [|z' l'].
  - cbn [print_int_list parse_elems]. rewrite parse_print_int. reflexivity.
  - change (print_int_list (z :: z' :: l')) with (print_int z ++ KComma :: print_int_list (z' :: l')).
    cbn [parse_elems]. rewrite <- app_assoc. rewrite parse_print_int. cbn [app].
    rewrite IH; [reflexivity|discriminate|simpl in *; lia].
Qed.

Lemma parse_int_list_print l rest :
  parse_int_list (KLSq :: print_int_list l ++ KRSq :: rest) = Some (l, rest).
Proof.
  destruct l as [|z l]; [reflexivity|].
  assert (Hgen : parse_int_list (KLSq :: print_int_list (z :: l) ++ KRSq :: rest)
                 = parse_elems (length (print_int_list (z :: l) ++ KRSq :: rest)) (print_int_list (z :: l) ++ KRSq :: rest)).
  { destruct l as [|z' l']; cbn [print_int_list]; unfold print_int; destruct (z <? 0); reflexivity. }
  rewrite Hgen. apply parse_elems_print; [discriminate|].
  rewrite app_length. pose proof (print_int_list_len (z :: l)). lia.
Qed.

Lemma parse_field_print i l rest :
  parse_field (KId i :: KEq :: KLSq :: print_int_list l ++ KRSq :: rest) = Some (l, rest).
Proof. cbn [parse_field]. apply parse_int_list_print. Qed.

(* ---- StridePattern: parse (print p) = p -------------------------------------------------------- *)
Theorem sp_print_parse p rest :
  length (sp_ub p) = length (sp_ts p) ->
  parse_sp (print_sp p ++ rest) = Some (p, rest).
Proof.
  intros Hl. destruct p as [ub ts ss]. cbn [sp_ub sp_ts sp_ss] in *. unfold print_sp. cbn [sp_ub sp_ts sp_ss].
  repeat rewrite <- app_assoc. cbn [app parse_sp].
  rewrite parse_field_print. rewrite parse_field_print.
  replace (print_int_list ss ++ [KRSq; KGt] ++ rest) with (print_int_list ss ++ KRSq :: KGt :: rest) by reflexivity.
  rewrite parse_field_print. rewrite Hl, Nat.eqb_refl. reflexivity.
Qed.

(* ---- streamer configuration ---------------------------------------------------------------------- *)
Lemma parse_ids_print {A} (of_id : ident -> option A) (to_id : A -> ident) (l : list A) rest :
  (forall x, of_id (to_id x) = Some x) ->
  parse_ids of_id KComma (print_dashed (fun x => [KId (to_id x)]) l ++ KComma :: rest) = Some (l, rest).
Proof.
  intros Hid. induction l as [|x l IH]; [reflexivity|].
  destruct l as [|x' l'].
  - cbn [print_dashed app parse_ids stok_eqb]. rewrite Hid. reflexivity.
  - change (print_dashed (fun x => [KId (to_id x)]) (x :: x' :: l'))
      with ([KId (to_id x)] ++ KMinus :: print_dashed (fun x => [KId (to_id x)]) (x' :: l')).
    cbn [app parse_ids stok_eqb]. rewrite Hid. cbn [app] in IH. rewrite IH. reflexivity.
Qed.

Lemma print_int_nonneg z : 0 <= z -> print_int z = [KInt z].
Proof. intros H. unfold print_int. replace (z <? 0) with false by lia. reflexivity. Qed.

Lemma parse_spat_print l rest : Forall (fun z => 0 <= z) l ->
  parse_spat (print_dashed print_int l ++ KRSq :: rest) = Some (l, rest).
Proof.
  induction l as [|z l IH]; intros H; [reflexivity|]. inversion H as [|? ? Hz Hl]; subst.
  destruct l as [|z' l'].
  - cbn [print_dashed]. rewrite print_int_nonneg by exact Hz. reflexivity.
  - change (print_dashed print_int (z :: z' :: l')) with (print_int z ++ KMinus :: print_dashed print_int (z' :: l')).
    rewrite print_int_nonneg by exact Hz. cbn [app parse_spat]. cbn [app] in IH. rewrite IH by exact Hl. reflexivity.
Qed.

Lemma type_id_inv t : type_of_id (id_of_type t) = Some t.  Proof. destruct t; reflexivity. Qed.
Lemma flag_id_inv f : flag_of_id (id_of_flag f) = Some f.  Proof. destruct f; reflexivity. Qed.
Lemma opt_id_inv o : opt_of_id (id_of_opt o) = Some o.     Proof. destruct o; reflexivity. Qed.

Definition streamer_ok (s : streamer) : Prop := Forall (fun z => 0 <= z) (st_spat s).

Lemma parse_streamer_print s rest : streamer_ok s ->
  parse_streamer (print_streamer s ++ rest) = Some (s, rest).
Proof.
  intros Hok. destruct s as [ty temp spat opts]. unfold streamer_ok in Hok. cbn [st_spat] in Hok.
  unfold print_streamer. cbn [st_type st_temp st_spat st_opts].
  destruct opts as [|o opts].
  - cbn [app parse_streamer]. rewrite type_id_inv.
    repeat rewrite <- app_assoc. cbn [app].
    rewrite (parse_ids_print flag_of_id id_of_flag temp _ flag_id_inv). lazy iota beta.
    rewrite <- ?app_assoc. cbn [app]. rewrite parse_spat_print by exact Hok. reflexivity.
  - repeat rewrite <- app_assoc. cbn [app parse_streamer]. rewrite type_id_inv.
    repeat rewrite <- app_assoc. cbn [app].
    rewrite (parse_ids_print opt_of_id id_of_opt (o :: opts) _ opt_id_inv). lazy iota beta.
    rewrite (parse_ids_print flag_of_id id_of_flag temp _ flag_id_inv). lazy iota beta.
    rewrite <- ?app_assoc. cbn [app]. rewrite parse_spat_print by exact Hok. reflexivity.
Qed.

Lemma print_streamer_len s : (1 <= length (print_streamer s))%nat.
Proof. unfold print_streamer. rewrite app_length. simpl. lia. Qed.

Lemma print_streamers_len l : (length l <= length (print_streamers l))%nat.
Proof.
  induction l as [|s l IH]; [simpl; lia|]. destruct l as [|s' l'].
  - cbn [print_streamers length]. pose proof (print_streamer_len s). lia.
  - change (print_streamers (s :: s' :: l')) with (print_streamer s ++ KComma :: print_streamers (s' :: l')).
    rewrite app_length. cbn [length] in *. pose proof (print_streamer_len s). lia.
Qed.

Lemma parse_streamers_print l : forall fuel rest, l <> [] -> (length l <= fuel)%nat -> Forall streamer_ok l ->
  parse_streamers fuel (print_streamers l ++ KGt :: rest) = Some (l, KGt :: rest).
Proof.
  induction l as [|s l IH]; intros fuel rest Hne Hf Hok; [congruence|].
  inversion Hok as [|? ? Hs Hl]; subst.
  destruct fuel as [|f]; [simpl in Hf; lia|]. destruct l as [|s' l'].
  - cbn [print_streamers parse_streamers]. rewrite parse_streamer_print by exact Hs. reflexivity.
  - change (print_streamers (s :: s' :: l')) with (print_streamer s ++ KComma :: print_streamers (s' :: l')).
    cbn [parse_streamers]. rewrite <- app_assoc. rewrite parse_streamer_print by exact Hs. cbn [app].
    rewrite IH; [reflexivity|discriminate|simpl in *; lia|exact Hl].
Qed.

Definition cfg_ok (c : sconfig) : Prop := sc_streamers c <> [] /\ Forall streamer_ok (sc_streamers c).

(* what print-then-parse returns: the same streamers, system type Regular *)
Theorem cfg_print_parse c rest : cfg_ok c ->
  parse_cfg (print_cfg c ++ rest) = Some (SConfig (sc_streamers c) SysRegular, rest).
Proof.
  intros [Hne Hok]. unfold print_cfg. cbn [app parse_cfg]. rewrite <- app_assoc. cbn [app].
  rewrite parse_streamers_print; [reflexivity|exact Hne| |exact Hok].
  rewrite app_length. pose proof (print_streamers_len (sc_streamers c)). lia.
Qed.

Corollary cfg_print_parse_regular c rest : cfg_ok c -> sc_sys c = SysRegular ->
  parse_cfg (print_cfg c ++ rest) = Some (c, rest).
Proof. intros Hok Hs. rewrite cfg_print_parse by exact Hok. destruct c as [ss sy]. cbn in *. subst. reflexivity. Qed.

(* F13: every xDMA configuration comes back as a different (Regular) configuration *)
Corollary cfg_print_parse_xdma_refuted c rest : cfg_ok c -> sc_sys c = SysXdma ->
  exists c', parse_cfg (print_cfg c ++ rest) = Some (c', rest) /\ c' <> c /\ sc_streamers c' = sc_streamers c.
Proof.
  intros Hok Hs. eexists. split; [apply cfg_print_parse; exact Hok|]. split; [|reflexivity].
  intros E. rewrite <- E in Hs. discriminate Hs.
Qed.
