(* Soundness of certified state inference (C07).

   Main result [wf_sound]: for EVERY table T and program p with [wf_prog T p = true], every
   oracle (initial registers, what clobbering calls write, opaque results) and all arguments
   (hence all trip counts and branch outcomes), the instrumented run [chk_prog] reports no
   violation: at every setup the facts of its input state hold in the registers just before it
   and the facts of its output state just after it, at the start of EVERY iteration of every
   loop the facts of each state block argument hold, after the loop (zero iterations included)
   the facts of each state result hold, after an scf.if (either branch) those of each state
   result hold.  Loops are handled by induction on the iteration index ([iter_n_inv]). *)
From Snax Require Import Base.Prelude Model.AccIR Model.AccSem Model.AccInfer Proofs.AccSemProofs.

(* ---- state dictionaries ------------------------------------------------------------ *)
Lemma st_lookup_In f s v : st_lookup f s = Some v -> In (f, v) s.
Proof.
  induction s as [|[g w] s IH]; simpl; [discriminate|].
  destruct (Nat.eqb g f) eqn:E.
  - intros H; inversion H; subst. apply Nat.eqb_eq in E; subst. left; reflexivity.
  - intros H; right; apply IH; exact H.
Qed.

Lemma st_sub_In a b f v : st_sub a b = true -> In (f, v) a -> In (f, v) b.
Proof.
  unfold st_sub. rewrite forallb_forall. intros H Hin. specialize (H _ Hin). simpl in H.
  destruct (st_lookup f b) as [w|] eqn:E; [|discriminate].
  apply Nat.eqb_eq in H; subst. apply st_lookup_In; exact E.
Qed.

Lemma st_has_false_notin f s : st_has f s = false -> forall v, ~ In (f, v) s.
Proof.
  unfold st_has. induction s as [|[g w] s IH]; intros Hh v Hin; [exact Hin|].
  simpl in Hh. destruct Hin as [E|Hin].
  - inversion E; subst. rewrite Nat.eqb_refl in Hh. discriminate.
  - destruct (Nat.eqb g f); [discriminate|]. exact (IH Hh v Hin).
Qed.

Lemma st_set_In f v s f' v' :
  In (f', v') (st_set f v s) -> (f' = f /\ v' = v) \/ (f' <> f /\ In (f', v') s).
Proof.
  unfold st_set. destruct (st_has f s) eqn:Eh.
  - rewrite in_map_iff. intros [[g w] [E Hin]]. simpl in E.
    destruct (Nat.eqb g f) eqn:Eg.
    + inversion E; subst. left; split; reflexivity.
    + inversion E; subst. right; split; [apply Nat.eqb_neq; exact Eg|exact Hin].
  - rewrite in_app_iff. intros [H|H].
    + destruct (Nat.eq_dec f' f) as [->|Hn].
      * exfalso. exact (st_has_false_notin _ _ Eh _ H).
      * right; split; assumption.
    + destruct H as [E|[]]. inversion E; subst. left; split; reflexivity.
Qed.

Lemma st_update_In fs : forall s f v,
  In (f, v) (st_update s fs) ->
  last_binding f fs = Some v \/ (last_binding f fs = None /\ In (f, v) s).
Proof.
  induction fs as [|[g w] fs IH]; intros s f v Hin.
  - right; split; [reflexivity|exact Hin].
  - simpl in Hin. apply IH in Hin. simpl. destruct Hin as [H|[Hn Hin]].
    + rewrite H. left; reflexivity.
    + rewrite Hn. apply st_set_In in Hin. destruct Hin as [[-> ->]|[Hne Hin]].
      * rewrite Nat.eqb_refl. left; reflexivity.
      * destruct (Nat.eqb g f) eqn:E; [apply Nat.eqb_eq in E; congruence|]. right; split; [reflexivity|exact Hin].
Qed.

(* ---- current-state maps ---------------------------------------------------------------- *)
Lemma cur_get_In a c s : cur_get a c = Some s -> In (a, s) c.
Proof.
  induction c as [|[b t] c IH]; simpl; [discriminate|].
  destruct (Nat.eqb b a) eqn:E.
  - intros H; inversion H; subst. apply Nat.eqb_eq in E; subst. left; reflexivity.
  - intros H; right; apply IH; exact H.
Qed.

Lemma optval_is_In a c s : optval_is (cur_get a c) s = true -> In (a, s) c.
Proof.
  unfold optval_is. destruct (cur_get a c) as [x|] eqn:E; [|discriminate].
  intros H; apply Nat.eqb_eq in H; subst. apply cur_get_In; exact E.
Qed.

Lemma In_cur_set a s c b t : In (b, t) (cur_set a s c) -> (b = a /\ t = s) \/ (b <> a /\ In (b, t) c).
Proof.
  unfold cur_set, cur_remove. intros [E|H].
  - inversion E; subst. left; split; reflexivity.
  - apply filter_In in H. destruct H as [H1 H2]. simpl in H2.
    right; split; [|exact H1]. apply Bool.negb_true_iff in H2. apply Nat.eqb_neq in H2. exact H2.
Qed.

Section Sound.
Variable T : val -> astate.
Variable orc : oracle.

(* the facts of every current state hold in the registers *)
Definition G (m : mstate) (c : cur) : Prop :=
  forall a s, In (a, s) c -> forall f v, In (f, v) (T s) -> regs m a f = env m v.

Definition avoids (c : cur) (ds : list val) : Prop :=
  forall a s, In (a, s) c -> forall f v, In (f, v) (T s) -> ~ In v ds.

Lemma facts_avoid_spec c ds : facts_avoid T c ds = true -> avoids c ds.
Proof.
  unfold facts_avoid, avoids. rewrite forallb_forall. intros H a s Hin f v Hf.
  specialize (H _ Hin). simpl in H. rewrite forallb_forall in H. specialize (H _ Hf). simpl in H.
  apply Bool.negb_true_iff in H. apply mem_nat_false in H. exact H.
Qed.

Lemma holds_of_G m c a s : G m c -> In (a, s) c -> holds T m a s = true.
Proof.
  intros HG Hin. unfold holds. rewrite forallb_forall. intros [f v] Hf. simpl.
  apply Z.eqb_eq. exact (HG a s Hin f v Hf).
Qed.

Lemma viol_of_G m c a s : G m c -> In (a, s) c -> viol T m a s = [].
Proof. intros HG Hin. unfold viol. rewrite (holds_of_G m c a s HG Hin). reflexivity. Qed.

(* changing the environment at values no current fact mentions keeps G *)
Lemma G_frame m m' c ds :
  G m c -> avoids c ds -> regs m' = regs m -> (forall x, ~ In x ds -> env m' x = env m x) -> G m' c.
Proof.
  intros HG Hav Hr He a s Hin f v Hf. rewrite Hr. rewrite He; [exact (HG a s Hin f v Hf)|].
  exact (Hav a s Hin f v Hf).
Qed.

Lemma G_sub m c c' : G m c -> (forall a s, In (a, s) c' -> In (a, s) c) -> G m c'.
Proof. intros HG Hs a s Hin f v Hf. exact (HG a s (Hs a s Hin) f v Hf). Qed.

Lemma avoids_sub c c' ds : avoids c ds -> (forall a s, In (a, s) c' -> In (a, s) c) -> avoids c' ds.
Proof. intros HG Hs a s Hin f v Hf. exact (HG a s (Hs a s Hin) f v Hf). Qed.

(* ---- chk computes the same machine state as exec --------------------------------------- *)
Lemma chk_stmt_for iv lb ub st iters results body yields m :
  chk_stmt T orc (SFor iv lb ub st iters results body yields) m =
  (let sis := state_iters iters yields results in
   let l := env m lb in let u := env m ub in let sp := env m st in
   let bargs := map it_arg iters in
   let m0 := set_env m (bind_list bargs (map (fun x => env m (it_init x)) iters) (env m)) in
   let r := iter_n (trip_count l u sp) (chk_for_step T (chk_block T orc body) iv bargs yields sis l sp) (m0, []) in
   let mN := fst r in
   let m' := set_env mN (bind_list results (map (env mN) bargs) (env mN)) in
   (m', snd r ++ flat_map (fun x => viol T m' (si_acc x) (si_res x)) sis)).
Proof. reflexivity. Qed.

Lemma chk_stmt_if c results thn thn_y els els_y m :
  chk_stmt T orc (SIf c results thn thn_y els els_y) m =
  (let srs := state_results results thn_y els_y in
   let r := if env m c =? 0 then chk_block T orc els m else chk_block T orc thn m in
   let m1 := fst r in
   let m' := set_env m1 (bind_list (map fst results)
                           (map (env m1) (if env m c =? 0 then els_y else thn_y)) (env m1)) in
   (m', snd r ++ flat_map (fun x => viol T m' (sr_acc x) (sr_res x)) srs)).
Proof. reflexivity. Qed.

Lemma chk_fst_iter (cb : mstate -> mstate * list val) (eb : mstate -> mstate) iv bargs yields sis l s :
  (forall m, fst (cb m) = eb m) ->
  forall n m0 vs, fst (iter_n n (chk_for_step T cb iv bargs yields sis l s) (m0, vs))
                  = iter_n n (for_step eb iv bargs yields l s) m0.
Proof.
  intros Hb n; induction n as [|n IH]; intros m0 vs; [reflexivity|].
  cbn [iter_n]. unfold chk_for_step at 1. cbn [fst snd]. rewrite IH. rewrite Hb.
  unfold for_step at 1. reflexivity.
Qed.

Lemma chk_fst : forall s m, fst (chk_stmt T orc s m) = exec_stmt orc s m.
Proof.
  apply (stmt_ind2 (fun s => forall m, fst (chk_stmt T orc s m) = exec_stmt orc s m)
                   (fun b => forall m, fst (chk_block T orc b m) = exec_block orc b m));
    try (intros; reflexivity).
  - intros iv lb ub sp its rs body ys IH m. rewrite chk_stmt_for, exec_stmt_for. cbv zeta. unfold exec_for.
    cbn [fst]. rewrite (chk_fst_iter _ (exec_block orc body)) by exact IH. reflexivity.
  - intros c rs th thy el ely IHt IHe m. rewrite chk_stmt_if, exec_stmt_if. cbv zeta. unfold exec_if. cbn [fst].
    destruct (env m c =? 0); [rewrite IHe|rewrite IHt]; reflexivity.
  - intros s b IHs IHb m. simpl. rewrite IHb, IHs. reflexivity.
Qed.

Lemma chk_block_fst b m : fst (chk_block T orc b m) = exec_block orc b m.
Proof.
  revert m; induction b as [|s b IH]; intros m; [reflexivity|].
  simpl. rewrite IH, chk_fst. reflexivity.
Qed.

(* ---- unfolding of the certificate ------------------------------------------------------ *)
Lemma wf_stmt_for c iv lb ub st iters results body yields :
  wf_stmt T c (SFor iv lb ub st iters results body yields) =
  (let sis := state_iters iters yields results in
   let ds := iv :: map it_arg iters ++ results in
   let touched := block_accs body in
   let eff := existsb stmt_has_effects body in
   let kept := filter (fun bs => negb (mem_nat (fst bs) (map si_acc sis))
                                 && negb (mem_nat (fst bs) touched) && negb eff) c in
   let c_h := map (fun x => (si_acc x, si_arg x)) sis ++ kept in
   if facts_avoid T c ds
      && nodup_nat (map si_acc sis)
      && forallb (fun x => optval_is (cur_get (si_acc x) c) (si_init x)
                           && st_sub (T (si_arg x)) (T (si_init x)) && st_sub (T (si_arg x)) (T (si_yield x))
                           && st_sub (T (si_res x)) (T (si_init x)) && st_sub (T (si_res x)) (T (si_yield x))) sis
   then match wf_block T c_h body with
        | Some c_e =>
            if forallb (fun x => optval_is (cur_get (si_acc x) c_e) (si_yield x)) sis
               && forallb (fun bs => optval_is (cur_get (fst bs) c_e) (snd bs)) kept
            then Some (map (fun x => (si_acc x, si_res x)) sis ++ kept)
            else None
        | None => None
        end
   else None).
Proof. reflexivity. Qed.

Lemma wf_stmt_if c cv results thn thn_y els els_y :
  wf_stmt T c (SIf cv results thn thn_y els els_y) =
  (let srs := state_results results thn_y els_y in
   let ds := map fst results in
   match wf_block T c thn, wf_block T c els with
   | Some c_t, Some c_e =>
       let kept := filter (fun bs => negb (mem_nat (fst bs) (map sr_acc srs))
                                     && optval_is (cur_get (fst bs) c_t) (snd bs)
                                     && optval_is (cur_get (fst bs) c_e) (snd bs)) c in
       if facts_avoid T c ds
          && nodup_nat (map sr_acc srs)
          && forallb (fun x => optval_is (cur_get (sr_acc x) c_t) (sr_then x)
                               && optval_is (cur_get (sr_acc x) c_e) (sr_else x)
                               && st_sub (T (sr_res x)) (T (sr_then x)) && st_sub (T (sr_res x)) (T (sr_else x))
                               && forallb (fun fv => negb (mem_nat (snd fv) ds)) (T (sr_res x))) srs
       then Some (map (fun x => (sr_acc x, sr_res x)) srs ++ kept)
       else None
   | _, _ => None
   end).
Proof. reflexivity. Qed.

Lemma flat_map_nil {A B} (f : A -> list B) l : (forall x, In x l -> f x = []) -> flat_map f l = [].
Proof.
  induction l as [|x l IH]; intros H; [reflexivity|]. simpl.
  rewrite (H x (or_introl eq_refl)). simpl. apply IH. intros y Hy. apply H. right; exact Hy.
Qed.

Definition Pst (s : stmt) : Prop := forall c c' m, wf_stmt T c s = Some c' -> G m c ->
  snd (chk_stmt T orc s m) = [] /\ G (exec_stmt orc s m) c'.
Definition Pbl (b : block) : Prop := forall c c' m, wf_block T c b = Some c' -> G m c ->
  snd (chk_block T orc b m) = [] /\ G (exec_block orc b m) c'.

Lemma sound_pure d e : Pst (SPure d e).
Proof.
  intros c c' m Hwf HG. simpl in Hwf. destruct (facts_avoid T c [d]) eqn:Ha; [|discriminate].
  inversion Hwf; subst c'. split; [reflexivity|].
  simpl. apply (G_frame m _ c [d] HG (facts_avoid_spec _ _ Ha)); [reflexivity|].
  intros x Hx. simpl. apply upd_other. intros E; apply Hx; left; congruence.
Qed.

Lemma sound_call g ef pu ds ar : Pst (SCall g ef pu ds ar).
Proof.
  intros c c' m Hwf HG. simpl in Hwf. destruct (facts_avoid T c ds) eqn:Ha; [|discriminate].
  inversion Hwf; subst c'. split; [reflexivity|].
  destruct ef.
  - intros a s [].
  - simpl. unfold exec_call.
    apply (G_frame m _ c ds HG (facts_avoid_spec _ _ Ha)); [reflexivity|].
    intros x Hx. simpl. apply call_results_other. exact Hx.
Qed.

Lemma sound_setup a o i fs : Pst (SSetup a o i fs).
Proof.
  intros c c' m Hwf HG. simpl in Hwf.
  destruct (match i with Some i0 => optval_is (cur_get a c) i0 | None => true end
            && st_sub (T o) (st_update match i with Some i0 => T i0 | None => [] end fs)) eqn:Hc; [|discriminate].
  inversion Hwf; subst c'. apply andb_true_iff in Hc. destruct Hc as [Hl Hs].
  assert (HG' : G (exec_setup a fs m) (cur_set a o c)).
  { intros b t Hin f v Hf. apply In_cur_set in Hin. destruct Hin as [[-> ->]|[Hne Hin]].
    - unfold exec_setup. simpl. rewrite upd_same. rewrite write_fields_spec.
      apply (st_sub_In _ _ _ _ Hs) in Hf. apply st_update_In in Hf.
      destruct Hf as [Hf|[Hn Hf]].
      + rewrite Hf. reflexivity.
      + rewrite Hn. destruct i as [i0|]; [|destruct Hf].
        apply optval_is_In in Hl. exact (HG a i0 Hl f v Hf).
    - unfold exec_setup. simpl. rewrite upd_other by exact Hne. exact (HG b t Hin f v Hf). }
  split; [|exact HG'].
  simpl. rewrite (viol_of_G _ _ a o HG') by (left; reflexivity).
  destruct i as [i0|]; [|reflexivity].
  apply optval_is_In in Hl. rewrite (viol_of_G _ _ a i0 HG Hl). reflexivity.
Qed.

Lemma sound_emit m c ev : G m c -> G (emit m ev) c.
Proof. intros HG a s Hin f v Hf. exact (HG a s Hin f v Hf). Qed.

Lemma sound_for iv lb ub sp its rs body ys : Pbl body -> Pst (SFor iv lb ub sp its rs body ys).
Proof.
  intros IHb c c' m Hwf HG. rewrite wf_stmt_for in Hwf. cbv zeta in Hwf.
  set (sis := state_iters its ys rs) in *.
  set (ds := iv :: map it_arg its ++ rs) in *.
  set (kept := filter (fun bs => negb (mem_nat (fst bs) (map si_acc sis))
                        && negb (mem_nat (fst bs) (block_accs body)) && negb (existsb stmt_has_effects body)) c) in *.
  set (c_h := map (fun x => (si_acc x, si_arg x)) sis ++ kept) in *.
  destruct (facts_avoid T c ds && nodup_nat (map si_acc sis) &&
            forallb (fun x => optval_is (cur_get (si_acc x) c) (si_init x)
                           && st_sub (T (si_arg x)) (T (si_init x)) && st_sub (T (si_arg x)) (T (si_yield x))
                           && st_sub (T (si_res x)) (T (si_init x)) && st_sub (T (si_res x)) (T (si_yield x))) sis)
    eqn:Hc; [|discriminate].
  destruct (wf_block T c_h body) as [c_e|] eqn:Hb; [|discriminate].
  destruct (forallb (fun x => optval_is (cur_get (si_acc x) c_e) (si_yield x)) sis
            && forallb (fun bs => optval_is (cur_get (fst bs) c_e) (snd bs)) kept) eqn:Hy; [|discriminate].
  inversion Hwf; subst c'. clear Hwf.
  apply andb_true_iff in Hc. destruct Hc as [Hc Hall]. apply andb_true_iff in Hc. destruct Hc as [Hav _].
  apply andb_true_iff in Hy. destruct Hy as [Hy Hk].
  apply facts_avoid_spec in Hav.
  rewrite forallb_forall in Hall, Hy, Hk.
  assert (Hsis : forall x, In x sis ->
            In (si_acc x, si_init x) c /\ st_sub (T (si_arg x)) (T (si_init x)) = true
            /\ st_sub (T (si_arg x)) (T (si_yield x)) = true /\ st_sub (T (si_res x)) (T (si_init x)) = true
            /\ st_sub (T (si_res x)) (T (si_yield x)) = true /\ In (si_acc x, si_yield x) c_e).
  { intros x Hx. specialize (Hall x Hx). specialize (Hy x Hx).
    repeat (apply andb_true_iff in Hall; destruct Hall as [Hall ?]).
    repeat split; try assumption; apply optval_is_In; assumption. }
  assert (Hkept : forall a s, In (a, s) kept -> In (a, s) c /\ In (a, s) c_e).
  { intros a s Hin. split.
    - unfold kept in Hin. apply filter_In in Hin. exact (proj1 Hin).
    - apply optval_is_In. exact (Hk _ Hin). }
  assert (Hch : forall a s, In (a, s) c_h -> (exists x, In x sis /\ a = si_acc x /\ s = si_arg x) \/ In (a, s) kept).
  { intros a s Hin. unfold c_h in Hin. apply in_app_iff in Hin. destruct Hin as [Hin|Hin]; [left|right; exact Hin].
    apply in_map_iff in Hin. destruct Hin as [x [E Hx]]. inversion E; subst. exists x. auto. }
  (* facts of the head states / result states avoid everything the loop machinery binds *)
  assert (Hav_h : avoids c_h ds).
  { intros a s Hin f v Hf. apply Hch in Hin. destruct Hin as [[x [Hx [-> ->]]]|Hin].
    - destruct (Hsis x Hx) as [Hi [Hs1 _]]. exact (Hav _ _ Hi f v (st_sub_In _ _ _ _ Hs1 Hf)).
    - exact (Hav _ _ (proj1 (Hkept _ _ Hin)) f v Hf). }
  assert (Hav_r : forall x, In x sis -> forall f v, In (f, v) (T (si_res x)) -> ~ In v ds).
  { intros x Hx f v Hf. destruct (Hsis x Hx) as [Hi [_ [_ [Hs3 _]]]].
    exact (Hav _ _ Hi f v (st_sub_In _ _ _ _ Hs3 Hf)). }
  assert (Hbargs : forall x, In x (map it_arg its) -> In x ds) by (intros x Hx; right; apply in_app_iff; left; exact Hx).
  assert (Hres : forall x, In x rs -> In x ds) by (intros x Hx; right; apply in_app_iff; right; exact Hx).
  pose (Inv := fun m' : mstate => G m' c_h /\
                 forall x, In x sis -> forall f v, In (f, v) (T (si_res x)) -> regs m' (si_acc x) f = env m' v).
  rewrite <- chk_fst. rewrite chk_stmt_for. cbv zeta. cbn [fst snd].
  set (m0 := set_env m (bind_list (map it_arg its) (map (fun x => env m (it_init x)) its) (env m))).
  set (stepf := chk_for_step T (chk_block T orc body) iv (map it_arg its) ys sis (env m lb) (env m sp)).
  set (n := trip_count (env m lb) (env m ub) (env m sp)).
  assert (Hm0 : forall x, ~ In x ds -> env m0 x = env m x).
  { intros x Hx. unfold m0. simpl. apply bind_list_other. intros H; apply Hx; apply Hbargs; exact H. }
  assert (HI0 : Inv m0).
  { split.
    - intros a s Hin f v Hf. pose proof (Hav_h a s Hin f v Hf) as Hv. rewrite (Hm0 v Hv).
      apply Hch in Hin. destruct Hin as [[x [Hx [-> ->]]]|Hin].
      + destruct (Hsis x Hx) as [Hi [Hs1 _]]. exact (HG _ _ Hi f v (st_sub_In _ _ _ _ Hs1 Hf)).
      + exact (HG _ _ (proj1 (Hkept _ _ Hin)) f v Hf).
    - intros x Hx f v Hf. rewrite (Hm0 v (Hav_r x Hx f v Hf)).
      destruct (Hsis x Hx) as [Hi [_ [_ [Hs3 _]]]]. exact (HG _ _ Hi f v (st_sub_In _ _ _ _ Hs3 Hf)). }
  assert (Hloop : snd (iter_n n stepf (m0, [])) = [] /\ Inv (fst (iter_n n stepf (m0, [])))).
  { apply (iter_n_inv (fun _ mv => snd mv = [] /\ Inv (fst mv))); [split; [reflexivity|exact HI0]|].
    intros k mv _ [Hnil [HGk Hrk]]. unfold stepf, chk_for_step. cbn [fst snd].
    set (m1 := set_env (fst mv) (upd (env (fst mv)) iv (env m lb + Z.of_nat k * env m sp))).
    assert (HG1 : G m1 c_h).
    { apply (G_frame (fst mv) m1 c_h ds HGk Hav_h); [reflexivity|].
      intros x Hx. unfold m1. simpl. apply upd_other. intros E; apply Hx; left; congruence. }
    destruct (IHb c_h c_e m1 Hb HG1) as [Hsb HG2].
    rewrite chk_block_fst.
    set (m2 := exec_block orc body m1) in *.
    split.
    - rewrite Hnil, Hsb. rewrite flat_map_nil; [reflexivity|].
      intros x Hx. apply (viol_of_G m1 c_h); [exact HG1|].
      unfold c_h. apply in_app_iff. left. apply in_map_iff. exists x. auto.
    - assert (He3 : forall x, ~ In x ds ->
                env (set_env m2 (bind_list (map it_arg its) (map (env m2) ys) (env m2))) x = env m2 x).
      { intros x Hx. simpl. apply bind_list_other. intros H; apply Hx; apply Hbargs; exact H. }
      split.
      + intros a s Hin f v Hf. rewrite (He3 v (Hav_h a s Hin f v Hf)). simpl.
        apply Hch in Hin. destruct Hin as [[x [Hx [-> ->]]]|Hin].
        * destruct (Hsis x Hx) as [_ [_ [Hs2 [_ [_ Hye]]]]]. exact (HG2 _ _ Hye f v (st_sub_In _ _ _ _ Hs2 Hf)).
        * exact (HG2 _ _ (proj2 (Hkept _ _ Hin)) f v Hf).
      + intros x Hx f v Hf. rewrite (He3 v (Hav_r x Hx f v Hf)). simpl.
        destruct (Hsis x Hx) as [_ [_ [_ [_ [Hs4 Hye]]]]]. exact (HG2 _ _ Hye f v (st_sub_In _ _ _ _ Hs4 Hf)). }
  destruct Hloop as [Hnil [HGN HrN]].
  set (mN := fst (iter_n n stepf (m0, []))) in *.
  set (m' := set_env mN (bind_list rs (map (env mN) (map it_arg its)) (env mN))).
  assert (He' : forall x, ~ In x ds -> env m' x = env mN x).
  { intros x Hx. unfold m'. simpl. apply bind_list_other. intros H; apply Hx; apply Hres; exact H. }
  assert (HG' : G m' (map (fun x => (si_acc x, si_res x)) sis ++ kept)).
  { intros a s Hin f v Hf. apply in_app_iff in Hin. destruct Hin as [Hin|Hin].
    - apply in_map_iff in Hin. destruct Hin as [x [E Hx]]. inversion E; subst.
      rewrite (He' v (Hav_r x Hx f v Hf)). exact (HrN x Hx f v Hf).
    - assert (Hc_h : In (a, s) c_h) by (unfold c_h; apply in_app_iff; right; exact Hin).
      rewrite (He' v (Hav_h a s Hc_h f v Hf)). exact (HGN a s Hc_h f v Hf). }
  split; [|exact HG'].
  change (snd (iter_n n stepf (m0, [])) ++ flat_map (fun x => viol T m' (si_acc x) (si_res x)) sis = []).
  rewrite Hnil. simpl. apply flat_map_nil. intros x Hx. apply (viol_of_G m' _ _ _ HG').
  apply in_app_iff. left. apply in_map_iff. exists x. auto.
Qed.

Lemma sound_if cv rs th thy el ely : Pbl th -> Pbl el -> Pst (SIf cv rs th thy el ely).
Proof.
  intros IHt IHe c c' m Hwf HG. rewrite wf_stmt_if in Hwf. cbv zeta in Hwf.
  set (srs := state_results rs thy ely) in *.
  set (ds := map fst rs) in *.
  destruct (wf_block T c th) as [c_t|] eqn:Ht; [|discriminate].
  destruct (wf_block T c el) as [c_e|] eqn:He; [|discriminate].
  set (kept := filter (fun bs => negb (mem_nat (fst bs) (map sr_acc srs))
                        && optval_is (cur_get (fst bs) c_t) (snd bs)
                        && optval_is (cur_get (fst bs) c_e) (snd bs)) c) in *.
  destruct (facts_avoid T c ds && nodup_nat (map sr_acc srs) &&
            forallb (fun x => optval_is (cur_get (sr_acc x) c_t) (sr_then x)
                           && optval_is (cur_get (sr_acc x) c_e) (sr_else x)
                           && st_sub (T (sr_res x)) (T (sr_then x)) && st_sub (T (sr_res x)) (T (sr_else x))
                           && forallb (fun fv => negb (mem_nat (snd fv) ds)) (T (sr_res x))) srs)
    eqn:Hc; [|discriminate].
  inversion Hwf; subst c'. clear Hwf.
  apply andb_true_iff in Hc. destruct Hc as [Hc Hall]. apply andb_true_iff in Hc. destruct Hc as [Hav _].
  apply facts_avoid_spec in Hav. rewrite forallb_forall in Hall.
  assert (Hsrs : forall x, In x srs ->
            In (sr_acc x, sr_then x) c_t /\ In (sr_acc x, sr_else x) c_e
            /\ st_sub (T (sr_res x)) (T (sr_then x)) = true /\ st_sub (T (sr_res x)) (T (sr_else x)) = true
            /\ (forall f v, In (f, v) (T (sr_res x)) -> ~ In v ds)).
  { intros x Hx. specialize (Hall x Hx).
    repeat (apply andb_true_iff in Hall; destruct Hall as [Hall ?]).
    repeat split; try assumption; try (apply optval_is_In; assumption).
    intros f v Hf. rewrite forallb_forall in H. specialize (H _ Hf). simpl in H.
    apply Bool.negb_true_iff in H. apply mem_nat_false in H. exact H. }
  assert (Hkept : forall a s, In (a, s) kept -> In (a, s) c /\ In (a, s) c_t /\ In (a, s) c_e).
  { intros a s Hin. unfold kept in Hin. apply filter_In in Hin. destruct Hin as [Hin Hf]. simpl in Hf.
    apply andb_true_iff in Hf. destruct Hf as [Hf H2]. apply andb_true_iff in Hf. destruct Hf as [_ H1].
    repeat split; [exact Hin|apply optval_is_In; exact H1|apply optval_is_In; exact H2]. }
  rewrite <- chk_fst. rewrite chk_stmt_if. cbv zeta. cbn [fst snd].
  (* both branches are handled uniformly *)
  assert (Hbr : forall (b : block) (yv : list val) c_b,
            Pbl b -> wf_block T c b = Some c_b ->
            (forall x, In x srs -> exists y, In (sr_acc x, y) c_b /\ st_sub (T (sr_res x)) (T y) = true) ->
            (forall a s, In (a, s) kept -> In (a, s) c_b) ->
            let r := chk_block T orc b m in
            let m' := set_env (fst r) (bind_list (map fst rs) (map (env (fst r)) yv) (env (fst r))) in
            snd r ++ flat_map (fun x => viol T m' (sr_acc x) (sr_res x)) srs = []
            /\ G m' (map (fun x => (sr_acc x, sr_res x)) srs ++ kept)).
  { intros b yv c_b IH Hb Hlink Hkb. cbv zeta.
    destruct (IH c c_b m Hb HG) as [Hs HGb]. rewrite <- chk_block_fst in HGb.
    set (r := chk_block T orc b m) in *.
    set (m' := set_env (fst r) (bind_list (map fst rs) (map (env (fst r)) yv) (env (fst r)))).
    assert (He' : forall x, ~ In x ds -> env m' x = env (fst r) x).
    { intros x Hx. unfold m'. simpl. apply bind_list_other. exact Hx. }
    assert (HG' : G m' (map (fun x => (sr_acc x, sr_res x)) srs ++ kept)).
    { intros a s Hin f v Hf. apply in_app_iff in Hin. destruct Hin as [Hin|Hin].
      - apply in_map_iff in Hin. destruct Hin as [x [E Hx]]. inversion E; subst.
        destruct (Hsrs x Hx) as [_ [_ [_ [_ Hd]]]]. rewrite (He' v (Hd f v Hf)).
        destruct (Hlink x Hx) as [y [Hy Hsub]]. exact (HGb _ _ Hy f v (st_sub_In _ _ _ _ Hsub Hf)).
      - destruct (Hkept a s Hin) as [Hc _]. rewrite (He' v (Hav a s Hc f v Hf)).
        exact (HGb a s (Hkb a s Hin) f v Hf). }
    split; [|exact HG'].
    rewrite Hs. simpl. apply flat_map_nil. intros x Hx. apply (viol_of_G m' _ _ _ HG').
    apply in_app_iff. left. apply in_map_iff. exists x. auto. }
  destruct (env m cv =? 0).
  - apply (Hbr el ely c_e IHe He).
    + intros x Hx. destruct (Hsrs x Hx) as [_ [H2 [_ [H4 _]]]]. exists (sr_else x). split; assumption.
    + intros a s Hin. exact (proj2 (proj2 (Hkept a s Hin))).
  - apply (Hbr th thy c_t IHt Ht).
    + intros x Hx. destruct (Hsrs x Hx) as [H1 [_ [H3 _]]]. exists (sr_then x). split; assumption.
    + intros a s Hin. exact (proj1 (proj2 (Hkept a s Hin))).
Qed.

Lemma sound_cons s b : Pst s -> Pbl b -> Pbl (s :: b).
Proof.
  intros Hs Hb c c' m Hwf HG. simpl in Hwf. destruct (wf_stmt T c s) as [c1|] eqn:E; [|discriminate].
  destruct (Hs c c1 m E HG) as [H1 HG1].
  destruct (Hb c1 c' _ Hwf HG1) as [H2 HG2].
  simpl. rewrite chk_fst. rewrite H1, H2. split; [reflexivity|exact HG2].
Qed.

Lemma sound_block : forall b, Pbl b.
Proof.
  apply (block_ind2 Pst Pbl).
  - exact sound_pure.
  - exact sound_call.
  - exact sound_setup.
  - intros a k st fs c c' m Hwf HG. inversion Hwf; subst. split; [reflexivity|apply sound_emit; exact HG].
  - intros a k c c' m Hwf HG. inversion Hwf; subst. split; [reflexivity|apply sound_emit; exact HG].
  - intros a st c c' m Hwf HG. inversion Hwf; subst. split; [reflexivity|apply sound_emit; exact HG].
  - exact sound_for.
  - exact sound_if.
  - intros c c' m Hwf HG. inversion Hwf; subst. split; [reflexivity|exact HG].
  - exact sound_cons.
Qed.

(* C07: a certified table is never contradicted by any execution *)
Theorem wf_sound p args : wf_prog T p = true -> chk_prog T orc p args = [].
Proof.
  unfold wf_prog, chk_prog. destruct (wf_block T [] (p_body p)) as [c'|] eqn:E; [|discriminate].
  intros _. apply (sound_block (p_body p) [] c' _ E). intros a s [].
Qed.

(* what "no violation" means at a setup, spelled out: the facts of the input state hold in the
   registers right before the setup (this is what SimplifyRedundantSetupCalls relies on) *)
Lemma wf_setup_use c a o i fs m c' :
  wf_stmt T c (SSetup a o (Some i) fs) = Some c' -> G m c ->
  forall f v, In (f, v) (T i) -> regs m a f = env m v.
Proof.
  intros Hwf HG f v Hf. simpl in Hwf.
  destruct (optval_is (cur_get a c) i && st_sub (T o) (st_update (T i) fs)) eqn:Hc; [|discriminate].
  apply andb_true_iff in Hc. destruct Hc as [Hl _]. apply optval_is_In in Hl. exact (HG a i Hl f v Hf).
Qed.

End Sound.

(* ---- the inference equations produce certified entries ------------------------------------------
   The dictionary operations of infer_state_of satisfy, by construction, the inclusions the
   certificate asks for at an scf.if result (intersection of both yields), at a loop result and at a
   loop head w.r.t. the initial state (intersection with the initial state), and at a setup
   (update).  What remains for a loop head is "head <= yielded when the body is walked from the
   head", which the certificate checks on the table (the F1 repair computes the head so that it holds). *)
Lemma st_keys_nodup_lookup s : nodup_nat (map fst s) = true -> forall f v, In (f, v) s -> st_lookup f s = Some v.
Proof.
  induction s as [|[g w] s IH]; intros Hnd f v Hin; [destruct Hin|].
  simpl in Hnd. apply andb_true_iff in Hnd. destruct Hnd as [Hg Hnd].
  apply Bool.negb_true_iff in Hg. apply mem_nat_false in Hg.
  simpl. destruct Hin as [E|Hin].
  - inversion E; subst. rewrite Nat.eqb_refl. reflexivity.
  - destruct (Nat.eqb g f) eqn:Eg.
    + apply Nat.eqb_eq in Eg. subst g. exfalso. apply Hg. apply in_map_iff. exists (f, v). split; [reflexivity|exact Hin].
    + exact (IH Hnd f v Hin).
Qed.

Lemma st_sub_refl s : nodup_nat (map fst s) = true -> st_sub s s = true.
Proof.
  intros Hnd. unfold st_sub. apply forallb_forall. intros [f v] Hin. simpl.
  rewrite (st_keys_nodup_lookup s Hnd f v Hin). apply Nat.eqb_refl.
Qed.

Lemma st_inter_sub_l a b : nodup_nat (map fst a) = true -> st_sub (st_inter a b) a = true.
Proof.
  intros Hnd. unfold st_sub, st_inter. apply forallb_forall. intros [f v] Hin. simpl.
  apply filter_In in Hin. rewrite (st_keys_nodup_lookup a Hnd f v (proj1 Hin)). apply Nat.eqb_refl.
Qed.

Lemma st_inter_sub_r a b : st_sub (st_inter a b) b = true.
Proof.
  unfold st_sub, st_inter. apply forallb_forall. intros [f v] Hin. apply filter_In in Hin. exact (proj2 Hin).
Qed.

(* a fact survives the intersection iff both sides have it (state_intersection) *)
Lemma st_inter_In a b f v : In (f, v) (st_inter a b) <-> In (f, v) a /\ st_lookup f b = Some v.
Proof.
  unfold st_inter. rewrite filter_In. simpl. split; intros [H1 H2]; split; try exact H1.
  - destruct (st_lookup f b) as [w|]; [|discriminate]. apply Nat.eqb_eq in H2. subst. reflexivity.
  - rewrite H2. apply Nat.eqb_refl.
Qed.
