(* C04 — SNAXGEMMXAccelerator.lower_acc_launch, channel-wise rescale path: launch registers receive the launch
   values.  With an injective register map (part A), every write to the launch_gemmx register carries the
   launch_gemmx value, every write to the launch_streamer register the launch_streamer value. *)
From Snax Require Import Base.Prelude Model.AccIR Model.AccSem Model.C04Csr Model.C04Gemmx Proofs.C04CsrProofs.

Lemma opt_all_In {A} : forall (l : list (option A)) xs x, opt_all l = Some xs -> In x xs -> In (Some x) l.
Proof.
  induction l as [|o l IH]; intros xs x H Hin; cbn [opt_all] in H.
  - inversion H; subst. destruct Hin.
  - destruct o as [y|]; [|discriminate]. destruct (opt_all l) as [ys|] eqn:E; [|discriminate]. inversion H; subst.
    destruct Hin as [Hin|Hin]; [left; congruence|right; apply (IH ys x eq_refl Hin)].
Qed.

Lemma write_list_addr tbl fs vs ws addr v :
  write_list tbl fs vs = Some ws -> In (CWrite addr v) ws -> In addr (map snd tbl).
Proof.
  unfold write_list. intros H Hin. apply (opt_all_In _ _ _ H) in Hin. apply in_map_iff in Hin as ([f z] & Hf & _).
  cbn [fst snd] in Hf. destruct (assoc f tbl) as [a0|] eqn:E; [|discriminate]. inversion Hf; subst.
  apply assoc_In in E. apply in_map_iff. exists (f, addr). split; [reflexivity|exact E].
Qed.

Lemma write_list_no_poll tbl fs vs ws x : write_list tbl fs vs = Some ws -> In x ws -> exists addr v, x = CWrite addr v.
Proof.
  unfold write_list. intros H Hin. apply (opt_all_In _ _ _ H) in Hin. apply in_map_iff in Hin as ([f z] & Hf & _).
  cbn [fst snd] in Hf. destruct (assoc f tbl) as [a0|]; [|discriminate]. inversion Hf; subst. eexists. eexists. reflexivity.
Qed.

Theorem gemmx_launch_values (g : gx) (ai : accinfo) m_attr mults shifts fs cb a_g a_s vg vs :
  gemmx_launch_special g ai m_attr mults shifts fs = Some cb ->
  NoDup (map snd (ai_fields ai) ++ map snd (ai_launch ai)) ->
  assoc (gx_lgemmx g) (ai_launch ai) = Some a_g -> assoc (gx_lstreamer g) (ai_launch ai) = Some a_s ->
  gx_lgemmx g <> gx_lstreamer g ->
  assoc (gx_lgemmx g) (map (fun fv => (fst fv, Z.of_nat (snd fv))) fs) = Some vg ->
  assoc (gx_lstreamer g) (map (fun fv => (fst fv, Z.of_nat (snd fv))) fs) = Some vs ->
  (forall v, In (CWrite a_g v) cb -> v = VRef (Z.to_nat vg))
  /\ (forall v, In (CWrite a_s v) cb -> v = VRef (Z.to_nat vs)).
Proof.
  intros H Hnd Hag Has Hne Hvg Hvs. unfold gemmx_launch_special in H. rewrite Hag, Has, Hvs, Hvg in H.
  destruct (assoc (gx_M g) (ai_fields ai)) as [a_m|] eqn:Em; [|discriminate].
  destruct (assoc (gx_tlb g) (ai_fields ai)) as [a_t|] eqn:Et; [|discriminate].
  destruct (opt_all _) as [gs|] eqn:Eg; [|discriminate]. inversion H; subst cb. clear H.
  destruct (NoDup_app_parts _ _ Hnd) as (Hnf & Hnl & Hdis).
  assert (Hfl : forall addr, In addr (map snd (ai_fields ai)) -> addr <> a_g /\ addr <> a_s).
  { intros addr Hin. split; intros ->; apply (Hdis _ Hin); apply in_map_iff;
      [exists (gx_lgemmx g, a_g)|exists (gx_lstreamer g, a_s)]; (split; [reflexivity|apply assoc_In; assumption]). }
  assert (Hgs : a_g <> a_s).
  { intros E. subst a_s. apply Hne. apply assoc_In in Hag. apply assoc_In in Has.
    exact (NoDup_map_snd_inj _ _ _ _ Hnl Hag Has). }
  assert (Ham : In a_m (map snd (ai_fields ai))) by (apply in_map_iff; exists (gx_M g, a_m); split; [reflexivity|apply assoc_In; exact Em]).
  assert (Hat : In a_t (map snd (ai_fields ai))) by (apply in_map_iff; exists (gx_tlb g, a_t); split; [reflexivity|apply assoc_In; exact Et]).
  (* what a group contains *)
  assert (Hgrp : forall grp x, In grp gs -> In x grp ->
            (exists addr v, x = CWrite addr v /\ In addr (map snd (ai_fields ai)))
            \/ x = CWrite a_g (VRef (Z.to_nat vg)) \/ (exists b, x = CPoll b 0 0)).
  { intros grp x Hg Hx. apply (opt_all_In _ _ _ Eg) in Hg. apply in_map_iff in Hg as (i & Hi & _).
    cbv zeta in Hi.
    destruct (opt_all (map pack4 _)) as [packed|]; [|discriminate].
    destruct (_ || _); [discriminate|].
    destruct (write_list (ai_fields ai) (gx_shift g) packed) as [ws|] eqn:Ews; [|discriminate].
    destruct (write_list (ai_fields ai) (gx_mult g) _) as [wm|] eqn:Ewm; [|discriminate].
    inversion Hi; subst grp. apply in_app_or in Hx as [Hx|Hx].
    - left. destruct (write_list_no_poll _ _ _ _ _ Ews Hx) as (addr & v & ->). exists addr, v. split; [reflexivity|].
      exact (write_list_addr _ _ _ _ _ _ Ews Hx).
    - apply in_app_or in Hx as [Hx|Hx].
      + left. destruct (write_list_no_poll _ _ _ _ _ Ewm Hx) as (addr & v & ->). exists addr, v. split; [reflexivity|].
        exact (write_list_addr _ _ _ _ _ _ Ewm Hx).
      + destruct Hx as [Hx|[Hx|[]]]; [right; left; symmetry; exact Hx|right; right; eexists; symmetry; exact Hx]. }
  assert (Hall : forall x, In x ([CWrite a_m (VConst (m_attr / Z.of_nat (List.length mults / Z.to_nat (gx_n g))));
                                  CWrite a_t (VConst (m_attr / Z.of_nat (List.length mults / Z.to_nat (gx_n g))));
                                  CWrite a_s (VRef (Z.to_nat vs))] ++ concat gs) ->
            (exists addr v, x = CWrite addr v /\ In addr (map snd (ai_fields ai)))
            \/ x = CWrite a_g (VRef (Z.to_nat vg)) \/ x = CWrite a_s (VRef (Z.to_nat vs)) \/ (exists b, x = CPoll b 0 0)).
  { intros x Hx. apply in_app_or in Hx as [Hx|Hx].
    - destruct Hx as [Hx|[Hx|[Hx|[]]]]; subst x.
      + left. eexists. eexists. split; [reflexivity|exact Ham].
      + left. eexists. eexists. split; [reflexivity|exact Hat].
      + right. right. left. reflexivity.
    - apply in_concat in Hx as (grp & Hg & Hx). destruct (Hgrp grp x Hg Hx) as [H|[H|H]]; auto. }
  split; intros v Hin; destruct (Hall _ Hin) as [(addr & w & He & Ha)|[He|[He|(b & He)]]]; try discriminate.
  - inversion He; subst. destruct (Hfl _ Ha) as [H _]. contradiction.
  - inversion He; reflexivity.
  - inversion He; subst. contradiction.
  - inversion He; subst. destruct (Hfl _ Ha) as [_ H]. contradiction.
  - inversion He; subst. exfalso. apply Hgs. reflexivity.
  - inversion He; reflexivity.
Qed.
